(* EquilRoundedProofs.v (property C11): the "up to rounding" half of gsequ_unit_max.

   The model of ?gsequ / ?laqgs (EquilModel.v) is instantiated with ROUNDED arithmetic,
       ar_rnd rnd  (EquilRealProofs.v):  mul a b = rnd (a*b), div a b = rnd (a/b), vscale a s = rnd (a*s),
                                        comparisons, max, min and |.| exact,
   where rnd satisfies the standard model of floating-point arithmetic without underflow / overflow
       rnd x = x * (1 + d),  |d| <= u,   0 <= u < 1                                   (rnd_model).
   Nothing else is assumed about rnd (no monotonicity, no symmetry, rnd need not be idempotent).

   Proved (all for the model function gsequ (ar_rnd rnd) itself, hypotheses as in gsequ_unit_max_exact_proof):
     gsequ_unit_max_rounded_rows   R_i = (1/m_i)(1+d_i), |d_i| <= u, and the largest magnitude of row i of the
                                   matrix ?laqgs stores for flag ROW, |rnd (a_ij * R_i)|, as well as the largest
                                   rnd (|a_ij| * R_i) (the quantity ?gsequ itself maximises for the column factors),
                                   lies in [(1-u)^2, (1+u)^2].
     gsequ_unit_max_rounded_cols   C_j = (1/m_j)(1+d_j) where m_j is the largest computed rnd (|a_ij| * R_i) of
                                   column j;  (i) scaling the computed row-scaled magnitudes by C_j with one more
                                   rounding gives a column maximum in [(1-u)^2, (1+u)^2]  (k = 2);
                                   (ii) in the operation order ?laqgs really uses for flag BOTH,
                                   |rnd (a_ij * rnd (C_j * R_i))|, the column maximum lies in
                                   [(1-u)^3/(1+u), (1+u)^3/(1-u)]  (three roundings in the numerator and the one
                                   rounding of the row-scaled magnitude seen by ?gsequ in the denominator);
                                   hence >= (1-u)^4, and for u <= 1/2 also <= (1+u)^5.
     gsequ_unit_max_rounded        both, combined.
     laqgs_row_unit_max_rounded, laqgs_both_unit_max_rounded
                                   the same two statements about the entries of the matrix RETURNED by laqgs
                                   when it returns flag ROW / BOTH.
     gsequ_unit_max_rounded_cols_odd   with rnd (-x) = - rnd x in addition: the two-pass signed form
                                   |rnd (rnd (a_ij * R_i) * C_j)|  has column maximum in [(1-u)^2, (1+u)^2].
     gsequ_unit_max_rounded_rows_exact_product
                                   with the exact product R_i * a_ij the row maximum is exactly 1 + d_i.
     gsequ_rnd_total               no exactly-zero row / column: ?gsequ (rounded) returns with info = 0.
     no_upper_clip_sufficient      m <= (1/sml)(1-u) implies the hypothesis m <= rnd (1/sml) used above
                                   (the clip bound of the code is bignum = rnd (1/smlnum), not 1/smlnum).
     ex_hypotheses                 non-vacuity (2x2 matrix, rnd = identity, u = 0).
     gsequ_unit_max_rounded_full_is_false
                                   the reference statement gsequ_unit_max_rounded_full of EquilRealProofs.v
                                   (never claimed there) is refutable: its row hypothesis m <= 1/sml does not
                                   exclude clipping, because the clip bound the code uses is rnd (1/sml). *)
Require Import Reals Lra List ZArith Bool Lia Arith.
From SLU Require Import Consts EquilModel EquilProofs EquilRealProofs.
Import ListNotations.
Local Open Scope R_scope.

(* ================================================================== the rounding model *)
Definition rnd_model (rnd : R -> R) (u : R) : Prop :=
  0 <= u < 1 /\ forall x, exists d, Rabs d <= u /\ rnd x = x * (1 + d).

Section RndFacts.
Variable rnd : R -> R.
Variable u : R.
Hypothesis Hmodel : rnd_model rnd u.

Lemma u_range : 0 <= u < 1.
Proof. exact (proj1 Hmodel). Qed.

Lemma rnd_delta x : exists d, -u <= d <= u /\ rnd x = x * (1 + d).
Proof.
  destruct (proj2 Hmodel x) as [d [Hd Hx]]. exists d. split; [|exact Hx].
  unfold Rabs in Hd. destruct (Rcase_abs d); lra.
Qed.

Lemma rnd_0 : rnd 0 = 0.
Proof. destruct (rnd_delta 0) as [d [_ H]]. rewrite H. ring. Qed.

Lemma rnd_bounds_nonneg x : 0 <= x -> x * (1 - u) <= rnd x <= x * (1 + u).
Proof.
  intros Hx. destruct (rnd_delta x) as [d [[Hd1 Hd2] H]]. rewrite H. split.
  - apply Rmult_le_compat_l; lra.
  - apply Rmult_le_compat_l; lra.
Qed.

Lemma rnd_pos x : 0 < x -> 0 < rnd x.
Proof.
  intros Hx. pose proof u_range as Hu.
  destruct (rnd_delta x) as [d [[Hd1 Hd2] H]]. rewrite H. apply Rmult_lt_0_compat; lra.
Qed.

Lemma rnd_nonneg x : 0 <= x -> 0 <= rnd x.
Proof.
  intros Hx. pose proof u_range as Hu.
  destruct (rnd_delta x) as [d [[Hd1 Hd2] H]]. rewrite H. apply Rmult_le_pos; lra.
Qed.

Lemma Rabs_rnd x : Rabs x * (1 - u) <= Rabs (rnd x) <= Rabs x * (1 + u).
Proof.
  pose proof u_range as Hu.
  destruct (rnd_delta x) as [d [[Hd1 Hd2] H]]. rewrite H, Rabs_mult, (Rabs_pos_eq (1 + d)) by lra.
  pose proof (Rabs_pos x) as Hp. split; apply Rmult_le_compat_l; lra.
Qed.

(* the factor computed for an unclipped maximum m *)
Lemma rnd_inv_factor m : 0 < m -> exists d, -u <= d <= u /\ rnd (1 / m) = (1 / m) * (1 + d) /\ rnd (1 / m) * m = 1 + d.
Proof.
  intros Hm. destruct (rnd_delta (1 / m)) as [d [Hd H]]. exists d. split; [exact Hd|]. split; [exact H|].
  rewrite H. field. lra.
Qed.

End RndFacts.

(* ================================================================== scatter-max loops over any entry type *)
Section GScatter.
Variable E : Type.
Variable key : E -> nat.
Variable w : E -> R.

Fixpoint gscat (es : list E) (v : list R) : option (list R) :=
  match es with
  | [] => Some v
  | e :: t => match nth_error v (key e) with
              | None => None
              | Some x => gscat t (upd ar_R v (key e) (Rmax x (w e)))
              end
  end.

Definition gsmax (es : list E) (k : nat) (init : R) : R :=
  fold_left (fun acc e => if Nat.eqb (key e) k then Rmax acc (w e) else acc) es init.

Lemma gscat_spec : forall es v,
  (forall e, In e es -> (key e < length v)%nat) ->
  exists v', gscat es v = Some v' /\ length v' = length v /\
             forall k, (k < length v)%nat -> nth k v' 0 = gsmax es k (nth k v 0).
Proof.
  induction es as [|e t IH]; intros v H.
  - exists v; cbn; auto.
  - cbn [gscat]. assert (Hk : (key e < length v)%nat) by (apply H; left; reflexivity).
    rewrite (nth_error_nth v _ Hk).
    destruct (IH (upd ar_R v (key e) (Rmax (nth (key e) v 0) (w e)))) as [v' [Hs [Hl Hn]]].
    { intros e' He'. rewrite upd_length. apply H; right; assumption. }
    exists v'. split; [exact Hs|]. rewrite upd_length in Hl. split; [exact Hl|].
    intros k Hkl. rewrite Hn by (rewrite upd_length; exact Hkl).
    rewrite upd_nth by exact Hk. unfold gsmax; cbn [fold_left].
    destruct (Nat.eqb (key e) k) eqn:Ek; [apply Nat.eqb_eq in Ek; subst k|]; reflexivity.
Qed.

Lemma gsmax_ge_init : forall es k init, init <= gsmax es k init.
Proof.
  induction es as [|e t IH]; intros k init; unfold gsmax; cbn [fold_left]; [lra|].
  fold (gsmax t k (if Nat.eqb (key e) k then Rmax init (w e) else init)).
  eapply Rle_trans; [|apply IH]. destruct (Nat.eqb (key e) k); [apply Rmax_l|lra].
Qed.

Lemma gsmax_ge : forall es k init e, In e es -> key e = k -> w e <= gsmax es k init.
Proof.
  induction es as [|e0 t IH]; intros k init e Hin Hk; [contradiction|].
  unfold gsmax; cbn [fold_left]. fold (gsmax t k (if Nat.eqb (key e0) k then Rmax init (w e0) else init)).
  destruct Hin as [-> | Hin].
  - rewrite Hk, Nat.eqb_refl. eapply Rle_trans; [apply Rmax_r|apply gsmax_ge_init].
  - apply IH; assumption.
Qed.

Lemma gsmax_attained : forall es k init,
  gsmax es k init = init \/ exists e, In e es /\ key e = k /\ gsmax es k init = w e.
Proof.
  induction es as [|e0 t IH]; intros k init; [left; reflexivity|].
  unfold gsmax; cbn [fold_left]. fold (gsmax t k (if Nat.eqb (key e0) k then Rmax init (w e0) else init)).
  destruct (Nat.eqb (key e0) k) eqn:Ek.
  - apply Nat.eqb_eq in Ek.
    destruct (IH k (Rmax init (w e0))) as [H | [e [Hin [Hk He]]]].
    + rewrite H. unfold Rmax; destruct (Rle_dec init (w e0)); [right; exists e0; cbn; auto|left; reflexivity].
    + right; exists e; cbn; auto.
  - destruct (IH k init) as [H | [e [Hin [Hk He]]]]; [left; exact H|right; exists e; cbn; auto].
Qed.

(* the slot ends with the largest selected value, when that is positive *)
Lemma gsmax_is_largest es k m :
  0 < m -> largest_of (fun e => key e = k) w es m -> gsmax es k 0 = m.
Proof.
  intros Hm [Hle [e [Hin [Hk He]]]].
  pose proof (gsmax_ge es k 0 e Hin Hk) as H1.
  destruct (gsmax_attained es k 0) as [E0 | [e' [Hin' [Hk' E1]]]]; [lra|].
  specialize (Hle e' Hin' Hk'). lra.
Qed.

(* a largest selected value exists as soon as something is selected *)
Lemma largest_dec (f : E -> R) es k :
  (forall e, In e es -> key e <> k) \/ exists m, largest_of (fun e => key e = k) f es m.
Proof.
  induction es as [|e0 t IH]; [left; intros e []|].
  destruct (Nat.eq_dec (key e0) k) as [Ek | Ek].
  - right. destruct IH as [Hnone | [m [Hle [e [Hin [Hk He]]]]]].
    + exists (f e0). split.
      * intros e [<- | Hin] Hk; [lra|]. exfalso; exact (Hnone e Hin Hk).
      * exists e0. split; [left; reflexivity|]. split; [exact Ek|reflexivity].
    + destruct (Rle_dec m (f e0)) as [Hc | Hc].
      * exists (f e0). split.
        -- intros e' [<- | Hin'] Hk'; [lra|]. specialize (Hle e' Hin' Hk'). lra.
        -- exists e0. split; [left; reflexivity|]. split; [exact Ek|reflexivity].
      * exists m. split.
        -- intros e' [<- | Hin'] Hk'; [lra|]. apply Hle; assumption.
        -- exists e. split; [right; exact Hin|]. split; [exact Hk|exact He].
  - destruct IH as [Hnone | [m [Hle [e [Hin [Hk He]]]]]].
    + left. intros e [<- | Hin]; [exact Ek|apply Hnone; exact Hin].
    + right. exists m. split.
      * intros e' [<- | Hin'] Hk'; [contradiction|]. apply Hle; assumption.
      * exists e. split; [right; exact Hin|]. split; [exact Hk|exact He].
Qed.

Lemma largest_exists (f : E -> R) es k :
  (exists e, In e es /\ key e = k) -> exists m, largest_of (fun e => key e = k) f es m.
Proof.
  intros [e [Hin Hk]]. destruct (largest_dec f es k) as [Hnone | H]; [|exact H].
  exfalso; exact (Hnone e Hin Hk).
Qed.

(* THE CORE: if every selected g-value is sandwiched between lo * f and hi * f, the largest g-value is sandwiched
   between lo * (largest f) and hi * (largest f).  No monotonicity of anything is needed: the largest g is attained
   by SOME entry (bounded from above through its own f <= m), and the entry attaining m bounds it from below. *)
Lemma largest_sandwich (f g : E -> R) es k m m' lo hi :
  0 <= hi ->
  largest_of (fun e => key e = k) f es m ->
  largest_of (fun e => key e = k) g es m' ->
  (forall e, In e es -> key e = k -> lo * f e <= g e <= hi * f e) ->
  lo * m <= m' <= hi * m.
Proof.
  intros Hhi [Hfle [ef [Hinf [Hkf Hef]]]] [Hgle [eg [Hing [Hkg Heg]]]] Hsand. split.
  - destruct (Hsand ef Hinf Hkf) as [H1 _]. rewrite Hef in H1.
    specialize (Hgle ef Hinf Hkf). lra.
  - destruct (Hsand eg Hing Hkg) as [_ H2]. rewrite Heg in H2.
    specialize (Hfle eg Hing Hkg).
    apply Rle_trans with (hi * f eg); [exact H2|]. apply Rmult_le_compat_l; assumption.
Qed.

End GScatter.

(* ================================================================== the model with rounded arithmetic *)
Section Rounded.
Variable rnd : R -> R.
Variable u : R.
Hypothesis Hmodel : rnd_model rnd u.

Notation arr := (ar_rnd rnd).
Notation entE := (entry (ar_rnd rnd)).
Notation rowE := (e_row (ar_rnd rnd)).
Notation colE := (e_col (ar_rnd rnd)).
Notation valE := (e_val (ar_rnd rnd)).
Notation entsE := (sm_ents (ar_rnd rnd)).
Notation nrowE := (sm_nrow (ar_rnd rnd)).
Notation ncolE := (sm_ncol (ar_rnd rnd)).

Definition wf_rnd (A : smatrix arr) : Prop :=
  forall e, In e (entsE A) -> (rowE e < nrowE A)%nat /\ (colE e < ncolE A)%nat.

(* what the two scatter loops of ?gsequ leave in slot i / j *)
Definition rrow_max (A : smatrix arr) (i : nat) : R :=
  gsmax entE rowE (fun e => Rabs (valE e)) (entsE A) i 0.
Definition rcol_max (A : smatrix arr) (r : list R) (j : nat) : R :=
  gsmax entE colE (fun e => rnd (Rabs (valE e) * nth (rowE e) r 0)) (entsE A) j 0.

(* v[i] = rnd (1 / min (max (v[i], smlnum), bignum)),  bignum = rnd (1 / smlnum) *)
Definition rclip (sml x : R) : R := rnd (1 / Rmin (Rmax x sml) (rnd (1 / sml))).

Lemma rowmax_is_gscat : forall (es : list entE) (r : list R),
  rowmax_loop arr es r = gscat entE rowE (fun e => Rabs (valE e)) es r.
Proof.
  induction es as [|e t IH]; intros r; cbn [rowmax_loop gscat]; [reflexivity|].
  change (T arr) with R in *.
  destruct (nth_error r (rowE e)) as [x|]; [|reflexivity].
  change (fmax arr x (vabs arr (valE e))) with (fmax ar_R x (Rabs (valE e))). rewrite fmax_R. apply IH.
Qed.

Lemma colmax_is_gscat : forall (es : list entE) (r c : list R),
  (forall e, In e es -> (rowE e < length r)%nat) ->
  colmax_loop arr es r c = gscat entE colE (fun e => rnd (Rabs (valE e) * nth (rowE e) r 0)) es c.
Proof.
  induction es as [|e t IH]; intros r c H; cbn [colmax_loop gscat]; [reflexivity|].
  change (T arr) with R in *.
  rewrite (nth_error_nth r _ (H e (or_introl eq_refl))).
  destruct (nth_error c (colE e)) as [x|]; [|reflexivity].
  change (fmax arr x (mul arr (vabs arr (valE e)) (nth (rowE e) r 0)))
    with (fmax ar_R x (rnd (Rabs (valE e) * nth (rowE e) r 0))).
  rewrite fmax_R. apply IH.
  intros; apply H; right; assumption.
Qed.

Lemma invert_clip_rnd sml x : invert_clip arr sml (rnd (1 / sml)) x = rclip sml x.
Proof.
  unfold invert_clip, rclip.
  change (fmin arr (fmax arr x sml) (rnd (1 / sml))) with (fmin ar_R (fmax ar_R x sml) (rnd (1 / sml))).
  rewrite fmin_R, fmax_R. reflexivity.
Qed.

Lemma big_pos sml : 0 < sml -> 0 < rnd (1 / sml).
Proof. intros Hs. apply (rnd_pos rnd u Hmodel). apply Rdiv_lt_0_compat; lra. Qed.

Lemma rclip_pos sml x : 0 < sml -> 0 < rclip sml x.
Proof.
  intros Hs. unfold rclip. apply (rnd_pos rnd u Hmodel). apply Rdiv_lt_0_compat; [lra|].
  apply Rmin_glb_lt; [|apply big_pos; exact Hs].
  eapply Rlt_le_trans; [exact Hs|apply Rmax_r].
Qed.

Lemma rclip_unclipped sml m : sml <= m <= rnd (1 / sml) -> rclip sml m = rnd (1 / m).
Proof.
  intros [H1 H2]. unfold rclip. rewrite Rmax_left by lra. rewrite Rmin_left by lra. reflexivity.
Qed.

(* info = 0: what ?gsequ stored in R and C *)
Lemma gsequ_rnd_info0 :
  forall sml (A : smatrix arr) (r0 c0 : list R) (rc0 cc0 am0 : R) (g : gsequ_out arr),
    0 < sml -> wf_rnd A -> (0 < nrowE A)%nat -> (0 < ncolE A)%nat ->
    gsequ arr sml A r0 c0 rc0 cc0 am0 = Some g -> g_info arr g = 0%Z ->
    length (g_r arr g) = nrowE A /\ length (g_c arr g) = ncolE A /\
    (forall i, (i < nrowE A)%nat -> nth i (g_r arr g) 0 = rclip sml (rrow_max A i)) /\
    (forall j, (j < ncolE A)%nat -> nth j (g_c arr g) 0 = rclip sml (rcol_max A (g_r arr g) j)).
Proof.
  intros sml A r0 c0 rc0 cc0 am0 g Hs Hwf Hn Hm Hg Hinfo.
  unfold gsequ in Hg.
  replace (Nat.eqb (nrowE A) 0) with false in Hg by (symmetry; apply Nat.eqb_neq; lia).
  replace (Nat.eqb (ncolE A) 0) with false in Hg by (symmetry; apply Nat.eqb_neq; lia).
  cbn [orb] in Hg. cbn [zero one div ar_rnd] in Hg. change (T arr) with R in *.
  set (big := rnd (1 / sml)) in *.
  assert (Hbig : 0 < big) by (apply big_pos; exact Hs).
  rewrite rowmax_is_gscat in Hg.
  destruct (gscat_spec entE rowE (fun e => Rabs (valE e)) (entsE A) (repeat 0 (nrowE A))) as [r1 [Hr1 [Hl1 Hn1]]].
  { intros e He. rewrite repeat_length. apply Hwf; exact He. }
  rewrite Hr1 in Hg. rewrite repeat_length in Hl1, Hn1.
  assert (Hrm : forall i, (i < nrowE A)%nat -> nth i r1 0 = rrow_max A i).
  { intros i Hi. rewrite Hn1 by exact Hi. rewrite repeat_nth0. reflexivity. }
  assert (Hr1pos : forall x, In x r1 -> 0 <= x).
  { intros x Hx. destruct (in_nth_R _ _ Hx) as [i [Hi <-]]. rewrite Hl1 in Hi. rewrite Hrm by exact Hi.
    unfold rrow_max. apply gsmax_ge_init. }
  change (minmax_loop arr r1 big 0) with (minmax_loop ar_R r1 big 0) in Hg.
  rewrite minmax_spec in Hg. cbn [eqb zero ar_rnd] in Hg.
  set (rcmin := fold_left Rmin r1 big) in *. set (rcmax := fold_left Rmax r1 0) in *.
  destruct (Reqb rcmin 0) eqn:Ez.
  - exfalso. apply Reqb_true in Ez. unfold rcmin in Ez. apply (fold_min_zero_iff r1 big Hbig Hr1pos) in Ez.
    pose proof (first_zero_spec r1 0) as Hfz.
    change (first_zero arr r1 0) with (first_zero ar_R r1 0) in Hg.
    destruct (first_zero ar_R r1 0) as [k|]; [|exact (Hfz 0 Ez eq_refl)].
    inversion Hg; subst g. cbn [g_info] in Hinfo. lia.
  - apply Reqb_false in Ez. cbn [negb] in Hg.
    set (r2 := @map R R (invert_clip arr sml big) r1) in *.
    assert (Hl2 : length r2 = nrowE A) by (unfold r2; rewrite map_length; exact Hl1).
    assert (Hr2 : forall i, (i < nrowE A)%nat -> nth i r2 0 = rclip sml (rrow_max A i)).
    { intros i Hi. unfold r2. rewrite nth_map_R by lia. rewrite Hrm by exact Hi. apply invert_clip_rnd. }
    rewrite colmax_is_gscat in Hg by (intros e He; pose proof (proj1 (Hwf e He)) as Hlt; rewrite <- Hl2 in Hlt; exact Hlt).
    destruct (gscat_spec entE colE (fun e => rnd (Rabs (valE e) * nth (rowE e) r2 0)) (entsE A) (repeat 0 (ncolE A)))
      as [c1 [Hc1 [Hlc Hnc]]].
    { intros e He. rewrite repeat_length. apply Hwf; exact He. }
    rewrite Hc1 in Hg. rewrite repeat_length in Hlc, Hnc.
    assert (Hcm : forall j, (j < ncolE A)%nat -> nth j c1 0 = rcol_max A r2 j).
    { intros j Hj. rewrite Hnc by exact Hj. rewrite repeat_nth0. reflexivity. }
    assert (Hc1pos : forall x, In x c1 -> 0 <= x).
    { intros x Hx. destruct (in_nth_R _ _ Hx) as [j [Hj <-]]. rewrite Hlc in Hj. rewrite Hcm by exact Hj.
      unfold rcol_max. apply gsmax_ge_init. }
    change (minmax_loop arr c1 big 0) with (minmax_loop ar_R c1 big 0) in Hg.
    rewrite minmax_spec in Hg.
    set (ccmin := fold_left Rmin c1 big) in *. set (ccmax := fold_left Rmax c1 0) in *.
    destruct (Reqb ccmin 0) eqn:Ecz.
    + exfalso. apply Reqb_true in Ecz. unfold ccmin in Ecz. apply (fold_min_zero_iff c1 big Hbig Hc1pos) in Ecz.
      pose proof (first_zero_spec c1 0) as Hfz.
      change (first_zero arr c1 0) with (first_zero ar_R c1 0) in Hg.
      destruct (first_zero ar_R c1 0) as [k|]; [|exact (Hfz 0 Ecz eq_refl)].
      inversion Hg; subst g. cbn [g_info] in Hinfo. lia.
    + cbn [negb] in Hg. inversion Hg; subst g; clear Hg. cbn [g_r g_c].
      split; [exact Hl2|]. split; [rewrite map_length; exact Hlc|]. split; [exact Hr2|].
      intros j Hj. rewrite nth_map_R by lia. rewrite Hcm by exact Hj. apply invert_clip_rnd.
Qed.


(* a sufficient, rnd-free form of "the upper clip does not act": m <= (1/sml)(1-u) *)
Lemma no_upper_clip_sufficient sml m : 0 < sml -> m <= (1 / sml) * (1 - u) -> m <= rnd (1 / sml).
Proof.
  intros Hs Hm. assert (H0 : 0 <= 1 / sml) by (apply Rlt_le, Rdiv_lt_0_compat; lra).
  destruct (rnd_bounds_nonneg rnd u Hmodel (1 / sml) H0) as [H1 _]. lra.
Qed.

(* two largest_of facts about functions that agree on the selected entries *)
Lemma largest_of_ext (E : Type) (sel : E -> Prop) (f1 f2 : E -> R) es m :
  (forall e, In e es -> sel e -> f1 e = f2 e) -> largest_of sel f1 es m -> largest_of sel f2 es m.
Proof.
  intros Hext [Hle [e [Hin [Hs He]]]]. split.
  - intros e' Hin' Hs'. rewrite <- (Hext e' Hin' Hs'). apply Hle; assumption.
  - exists e. split; [exact Hin|]. split; [exact Hs|]. rewrite <- (Hext e Hin Hs). exact He.
Qed.

(* ------------------------------------------------------------------ pure real-number steps *)
Lemma sq_bounds d : -u <= d <= u -> (1 - u) ^ 2 <= (1 - u) * (1 + d) /\ (1 + u) * (1 + d) <= (1 + u) ^ 2.
Proof.
  intros [Hd1 Hd2]. pose proof (u_range rnd u Hmodel) as [Hu0 Hu1]. split.
  - replace ((1 - u) ^ 2) with ((1 - u) * (1 - u)) by ring. apply Rmult_le_compat_l; lra.
  - replace ((1 + u) ^ 2) with ((1 + u) * (1 + u)) by ring. apply Rmult_le_compat_l; lra.
Qed.

(* one entry under the operation order of ?laqgs, flag BOTH:  av = |a|, Re = R_i, b = rnd (|a| R_i) as seen by
   ?gsequ, s = rnd (C_j R_i), g = |rnd (a s)| *)
Lemma both_entry_sandwich av Re Cj b s g :
  0 <= av -> 0 < Re -> 0 < Cj ->
  av * Re * (1 - u) <= b <= av * Re * (1 + u) ->
  Cj * Re * (1 - u) <= s <= Cj * Re * (1 + u) ->
  av * s * (1 - u) <= g <= av * s * (1 + u) ->
  Cj * ((1 - u) ^ 2 / (1 + u)) * b <= g <= Cj * ((1 + u) ^ 2 / (1 - u)) * b.
Proof.
  intros Hav HRe HCj [Hb1 Hb2] [Hs1 Hs2] [Hg1 Hg2].
  pose proof (u_range rnd u Hmodel) as [Hu0 Hu1].
  set (p := av * Re) in *. assert (Hp : 0 <= p) by (unfold p; apply Rmult_le_pos; lra).
  assert (HCp : 0 <= Cj * p) by (apply Rmult_le_pos; lra).
  split.
  - (* Cj (1-u)^2/(1+u) b <= Cj (1-u)^2 p <= av s (1-u) <= g *)
    apply Rle_trans with (Cj * p * ((1 - u) * (1 - u))).
    + replace (Cj * ((1 - u) ^ 2 / (1 + u)) * b) with (Cj * ((1 - u) * (1 - u)) * (b / (1 + u))) by (field; lra).
      replace (Cj * p * ((1 - u) * (1 - u))) with (Cj * ((1 - u) * (1 - u)) * p) by ring.
      apply Rmult_le_compat_l.
      * apply Rmult_le_pos; [lra|]. apply Rmult_le_pos; lra.
      * apply (Rmult_le_reg_r (1 + u)); [lra|]. unfold Rdiv. rewrite Rmult_assoc, Rinv_l by lra. lra.
    + apply Rle_trans with (av * s * (1 - u)); [|exact Hg1].
      replace (Cj * p * ((1 - u) * (1 - u))) with (av * (Cj * Re * (1 - u)) * (1 - u)) by (unfold p; ring).
      apply Rmult_le_compat_r; [lra|]. apply Rmult_le_compat_l; assumption.
  - apply Rle_trans with (Cj * p * ((1 + u) * (1 + u))).
    + apply Rle_trans with (av * s * (1 + u)); [exact Hg2|].
      replace (Cj * p * ((1 + u) * (1 + u))) with (av * (Cj * Re * (1 + u)) * (1 + u)) by (unfold p; ring).
      apply Rmult_le_compat_r; [lra|]. apply Rmult_le_compat_l; assumption.
    + replace (Cj * ((1 + u) ^ 2 / (1 - u)) * b) with (Cj * ((1 + u) * (1 + u)) * (b / (1 - u))) by (field; lra).
      replace (Cj * p * ((1 + u) * (1 + u))) with (Cj * ((1 + u) * (1 + u)) * p) by ring.
      apply Rmult_le_compat_l.
      * apply Rmult_le_pos; [lra|]. apply Rmult_le_pos; lra.
      * apply (Rmult_le_reg_r (1 - u)); [lra|]. unfold Rdiv. rewrite Rmult_assoc, Rinv_l by lra. lra.
Qed.

Lemma both_final_bounds d :
  -u <= d <= u ->
  (1 - u) ^ 3 / (1 + u) <= (1 - u) ^ 2 / (1 + u) * (1 + d) /\
  (1 + u) ^ 2 / (1 - u) * (1 + d) <= (1 + u) ^ 3 / (1 - u).
Proof.
  intros [Hd1 Hd2]. pose proof (u_range rnd u Hmodel) as [Hu0 Hu1]. split.
  - replace ((1 - u) ^ 3 / (1 + u)) with ((1 - u) ^ 2 / (1 + u) * (1 - u)) by (field; lra).
    apply Rmult_le_compat_l; [|lra]. apply Rmult_le_pos; [apply pow_le; lra|apply Rlt_le, Rinv_0_lt_compat; lra].
  - replace ((1 + u) ^ 3 / (1 - u)) with ((1 + u) ^ 2 / (1 - u) * (1 + u)) by (field; lra).
    apply Rmult_le_compat_l; [|lra]. apply Rmult_le_pos; [apply pow_le; lra|apply Rlt_le, Rinv_0_lt_compat; lra].
Qed.

(* the BOTH interval in powers of (1 -+ u): the lower end always, the upper end for u <= 1/2 *)
Lemma both_interval_pow :
  (1 - u) ^ 4 <= (1 - u) ^ 3 / (1 + u) /\ (u <= / 2 -> (1 + u) ^ 3 / (1 - u) <= (1 + u) ^ 5).
Proof.
  pose proof (u_range rnd u Hmodel) as [Hu0 Hu1]. split.
  - replace ((1 - u) ^ 4) with ((1 - u) ^ 3 * (1 - u)) by ring. unfold Rdiv.
    apply Rmult_le_compat_l; [apply pow_le; lra|].
    apply (Rmult_le_reg_r (1 + u)); [lra|]. rewrite Rinv_l by lra.
    replace ((1 - u) * (1 + u)) with (1 - u * u) by ring. pose proof (Rle_0_sqr u) as Hsq. unfold Rsqr in Hsq. lra.
  - intros Hh. replace ((1 + u) ^ 5) with ((1 + u) ^ 3 * ((1 + u) * (1 + u))) by ring. unfold Rdiv.
    apply Rmult_le_compat_l; [apply pow_le; lra|].
    apply (Rmult_le_reg_r (1 - u)); [lra|]. rewrite Rinv_l by lra.
    (* (1+u)^2 (1-u) = 1 + u (1 - u - u^2) *)
    replace ((1 + u) * (1 + u) * (1 - u)) with (1 + u * (1 - u - u * u)) by ring.
    assert (Huu : u * u <= / 2 * / 2) by (apply Rmult_le_compat; lra).
    assert (0 <= u * (1 - u - u * u)) by (apply Rmult_le_pos; lra). lra.
Qed.

(* ================================================================== T gsequ_unit_max_rounded_rows *)
Theorem gsequ_unit_max_rounded_rows :
  forall sml (A : smatrix arr) (r0 c0 : list R) (rc0 cc0 am0 : R) (g : gsequ_out arr),
    0 < sml -> wf_rnd A -> (0 < nrowE A)%nat -> (0 < ncolE A)%nat ->
    gsequ arr sml A r0 c0 rc0 cc0 am0 = Some g -> g_info arr g = 0%Z ->
    forall i m, (i < nrowE A)%nat ->
      largest_of (fun e => rowE e = i) (fun e => Rabs (valE e)) (entsE A) m ->
      sml <= m <= rnd (1 / sml) ->
      let Ri := nth i (g_r arr g) 0 in
      (* the computed factor *)
      (exists d, -u <= d <= u /\ Ri = (1 / m) * (1 + d)) /\
      (* the entries ?laqgs stores for flag ROW: a := rnd (a * R_i) *)
      (exists m', largest_of (fun e => rowE e = i) (fun e => Rabs (rnd (valE e * Ri))) (entsE A) m' /\
                  (1 - u) ^ 2 <= m' <= (1 + u) ^ 2) /\
      (* the magnitudes ?gsequ itself forms for the column factors: rnd (|a| * R_i) *)
      (exists m', largest_of (fun e => rowE e = i) (fun e => rnd (Rabs (valE e) * Ri)) (entsE A) m' /\
                  (1 - u) ^ 2 <= m' <= (1 + u) ^ 2).
Proof.
  intros sml A r0 c0 rc0 cc0 am0 g Hs Hwf Hn Hm Hg Hinfo i m Hi Hlg [Hm1 Hm2] Ri.
  pose proof (u_range rnd u Hmodel) as [Hu0 Hu1].
  destruct (gsequ_rnd_info0 sml A r0 c0 rc0 cc0 am0 g Hs Hwf Hn Hm Hg Hinfo) as [Hl [Hlc [Hr Hcv]]].
  assert (Hmpos : 0 < m) by lra.
  assert (Hrm : rrow_max A i = m) by (unfold rrow_max; apply gsmax_is_largest; assumption).
  assert (HRi : Ri = rnd (1 / m)).
  { unfold Ri. rewrite Hr by exact Hi. rewrite Hrm. apply rclip_unclipped. split; assumption. }
  destruct (rnd_inv_factor rnd u Hmodel m Hmpos) as [d [Hd [Hf Hfm]]]. rewrite <- HRi in Hf, Hfm.
  assert (HRp : 0 < Ri) by (rewrite HRi; apply (rnd_pos rnd u Hmodel); apply Rdiv_lt_0_compat; lra).
  assert (Hsel : exists e, In e (entsE A) /\ rowE e = i).
  { destruct Hlg as [_ [e [Hin [Hk _]]]]. exists e; auto. }
  destruct (sq_bounds d Hd) as [Hq1 Hq2].
  split; [exists d; split; [exact Hd|exact Hf]|]. split.
  - destruct (largest_exists entE rowE (fun e => Rabs (rnd (valE e * Ri))) (entsE A) i Hsel) as [m' Hm'].
    exists m'. split; [exact Hm'|].
    assert (Hsw : Ri * (1 - u) * m <= m' <= Ri * (1 + u) * m).
    { apply (largest_sandwich entE rowE (fun e => Rabs (valE e)) (fun e => Rabs (rnd (valE e * Ri))) (entsE A) i);
        [apply Rmult_le_pos; lra|exact Hlg|exact Hm'|].
      intros e _ _. pose proof (Rabs_rnd rnd u Hmodel (valE e * Ri)) as Hb.
      rewrite Rabs_mult, (Rabs_pos_eq Ri) in Hb by lra. lra. }
    replace (Ri * (1 - u) * m) with ((1 - u) * (1 + d)) in Hsw by (rewrite <- Hfm; ring).
    replace (Ri * (1 + u) * m) with ((1 + u) * (1 + d)) in Hsw by (rewrite <- Hfm; ring).
    lra.
  - destruct (largest_exists entE rowE (fun e => rnd (Rabs (valE e) * Ri)) (entsE A) i Hsel) as [m' Hm'].
    exists m'. split; [exact Hm'|].
    assert (Hsw : Ri * (1 - u) * m <= m' <= Ri * (1 + u) * m).
    { apply (largest_sandwich entE rowE (fun e => Rabs (valE e)) (fun e => rnd (Rabs (valE e) * Ri)) (entsE A) i);
        [apply Rmult_le_pos; lra|exact Hlg|exact Hm'|].
      intros e _ _.
      assert (H0 : 0 <= Rabs (valE e) * Ri) by (apply Rmult_le_pos; [apply Rabs_pos|lra]).
      pose proof (rnd_bounds_nonneg rnd u Hmodel _ H0) as Hb. lra. }
    replace (Ri * (1 - u) * m) with ((1 - u) * (1 + d)) in Hsw by (rewrite <- Hfm; ring).
    replace (Ri * (1 + u) * m) with ((1 + u) * (1 + d)) in Hsw by (rewrite <- Hfm; ring).
    lra.
Qed.

(* ================================================================== T gsequ_unit_max_rounded_cols *)
Theorem gsequ_unit_max_rounded_cols :
  forall sml (A : smatrix arr) (r0 c0 : list R) (rc0 cc0 am0 : R) (g : gsequ_out arr),
    0 < sml -> wf_rnd A -> (0 < nrowE A)%nat -> (0 < ncolE A)%nat ->
    gsequ arr sml A r0 c0 rc0 cc0 am0 = Some g -> g_info arr g = 0%Z ->
    forall j m, (j < ncolE A)%nat ->
      (* m: largest magnitude of column j of the row-scaled matrix, as ?gsequ computes it: rnd (|a| * R_i) *)
      largest_of (fun e => colE e = j) (fun e => rnd (Rabs (valE e) * nth (rowE e) (g_r arr g) 0)) (entsE A) m ->
      sml <= m <= rnd (1 / sml) ->
      let Cj := nth j (g_c arr g) 0 in
      (exists d, -u <= d <= u /\ Cj = (1 / m) * (1 + d)) /\
      (* (i) the computed row-scaled magnitudes times C_j, rounded once more:  k = 2 *)
      (exists m', largest_of (fun e => colE e = j)
                    (fun e => rnd (rnd (Rabs (valE e) * nth (rowE e) (g_r arr g) 0) * Cj)) (entsE A) m' /\
                  (1 - u) ^ 2 <= m' <= (1 + u) ^ 2) /\
      (* (ii) the entries ?laqgs stores for flag BOTH: a := rnd (a * rnd (C_j * R_i)) *)
      (exists m', largest_of (fun e => colE e = j)
                    (fun e => Rabs (rnd (valE e * rnd (Cj * nth (rowE e) (g_r arr g) 0)))) (entsE A) m' /\
                  (1 - u) ^ 3 / (1 + u) <= m' <= (1 + u) ^ 3 / (1 - u)).
Proof.
  intros sml A r0 c0 rc0 cc0 am0 g Hs Hwf Hn Hm Hg Hinfo j m Hj Hlg [Hm1 Hm2] Cj.
  pose proof (u_range rnd u Hmodel) as [Hu0 Hu1].
  destruct (gsequ_rnd_info0 sml A r0 c0 rc0 cc0 am0 g Hs Hwf Hn Hm Hg Hinfo) as [Hl [Hlc [Hr Hcv]]].
  assert (Hmpos : 0 < m) by lra.
  assert (Hcm : rcol_max A (g_r arr g) j = m) by (unfold rcol_max; apply gsmax_is_largest; assumption).
  assert (HCj : Cj = rnd (1 / m)).
  { unfold Cj. rewrite Hcv by exact Hj. rewrite Hcm. apply rclip_unclipped. split; assumption. }
  destruct (rnd_inv_factor rnd u Hmodel m Hmpos) as [d [Hd [Hf Hfm]]]. rewrite <- HCj in Hf, Hfm.
  assert (HCp : 0 < Cj) by (rewrite HCj; apply (rnd_pos rnd u Hmodel); apply Rdiv_lt_0_compat; lra).
  assert (HRp : forall e, In e (entsE A) -> 0 < nth (rowE e) (g_r arr g) 0).
  { intros e He. rewrite Hr by (apply Hwf; exact He). apply rclip_pos; exact Hs. }
  assert (Hsel : exists e, In e (entsE A) /\ colE e = j).
  { destruct Hlg as [_ [e [Hin [Hk _]]]]. exists e; auto. }
  split; [exists d; split; [exact Hd|exact Hf]|]. split.
  - destruct (sq_bounds d Hd) as [Hq1 Hq2].
    destruct (largest_exists entE colE (fun e => rnd (rnd (Rabs (valE e) * nth (rowE e) (g_r arr g) 0) * Cj)) (entsE A) j Hsel)
      as [m' Hm'].
    exists m'. split; [exact Hm'|].
    assert (Hsw : Cj * (1 - u) * m <= m' <= Cj * (1 + u) * m).
    { apply (largest_sandwich entE colE (fun e => rnd (Rabs (valE e) * nth (rowE e) (g_r arr g) 0))
               (fun e => rnd (rnd (Rabs (valE e) * nth (rowE e) (g_r arr g) 0) * Cj)) (entsE A) j);
        [apply Rmult_le_pos; lra|exact Hlg|exact Hm'|].
      intros e He _. pose proof (HRp e He) as HRe.
      set (b := rnd (Rabs (valE e) * nth (rowE e) (g_r arr g) 0)).
      assert (Hb0 : 0 <= b).
      { unfold b. apply (rnd_nonneg rnd u Hmodel). apply Rmult_le_pos; [apply Rabs_pos|lra]. }
      assert (H0 : 0 <= b * Cj) by (apply Rmult_le_pos; lra).
      pose proof (rnd_bounds_nonneg rnd u Hmodel _ H0) as Hb. lra. }
    replace (Cj * (1 - u) * m) with ((1 - u) * (1 + d)) in Hsw by (rewrite <- Hfm; ring).
    replace (Cj * (1 + u) * m) with ((1 + u) * (1 + d)) in Hsw by (rewrite <- Hfm; ring).
    lra.
  - destruct (both_final_bounds d Hd) as [Hq1 Hq2].
    destruct (largest_exists entE colE (fun e => Rabs (rnd (valE e * rnd (Cj * nth (rowE e) (g_r arr g) 0)))) (entsE A) j Hsel)
      as [m' Hm'].
    exists m'. split; [exact Hm'|].
    assert (Hsw : Cj * ((1 - u) ^ 2 / (1 + u)) * m <= m' <= Cj * ((1 + u) ^ 2 / (1 - u)) * m).
    { apply (largest_sandwich entE colE (fun e => rnd (Rabs (valE e) * nth (rowE e) (g_r arr g) 0))
               (fun e => Rabs (rnd (valE e * rnd (Cj * nth (rowE e) (g_r arr g) 0)))) (entsE A) j);
        [|exact Hlg|exact Hm'|].
      { apply Rmult_le_pos; [lra|]. apply Rmult_le_pos; [apply pow_le; lra|apply Rlt_le, Rinv_0_lt_compat; lra]. }
      intros e He _. pose proof (HRp e He) as HRe.
      set (Re := nth (rowE e) (g_r arr g) 0) in *.
      assert (Hs0 : 0 < Cj * Re) by (apply Rmult_lt_0_compat; assumption).
      assert (Hsp : 0 < rnd (Cj * Re)) by (apply (rnd_pos rnd u Hmodel); exact Hs0).
      apply (both_entry_sandwich (Rabs (valE e)) Re Cj _ (rnd (Cj * Re)));
        [apply Rabs_pos|exact HRe|exact HCp| | |].
      - apply (rnd_bounds_nonneg rnd u Hmodel). apply Rmult_le_pos; [apply Rabs_pos|lra].
      - apply (rnd_bounds_nonneg rnd u Hmodel). lra.
      - pose proof (Rabs_rnd rnd u Hmodel (valE e * rnd (Cj * Re))) as Hb.
        rewrite Rabs_mult, (Rabs_pos_eq (rnd (Cj * Re))) in Hb by lra. exact Hb. }
    replace (Cj * ((1 - u) ^ 2 / (1 + u)) * m) with ((1 - u) ^ 2 / (1 + u) * (1 + d)) in Hsw by (rewrite <- Hfm; ring).
    replace (Cj * ((1 + u) ^ 2 / (1 - u)) * m) with ((1 + u) ^ 2 / (1 - u) * (1 + d)) in Hsw by (rewrite <- Hfm; ring).
    lra.
Qed.


(* ================================================================== T gsequ_unit_max_rounded (combined) *)
Theorem gsequ_unit_max_rounded :
  forall sml (A : smatrix arr) (r0 c0 : list R) (rc0 cc0 am0 : R) (g : gsequ_out arr),
    0 < sml -> wf_rnd A -> (0 < nrowE A)%nat -> (0 < ncolE A)%nat ->
    gsequ arr sml A r0 c0 rc0 cc0 am0 = Some g -> g_info arr g = 0%Z ->
    (forall i m, (i < nrowE A)%nat ->
       largest_of (fun e => rowE e = i) (fun e => Rabs (valE e)) (entsE A) m -> sml <= m <= rnd (1 / sml) ->
       (exists d, -u <= d <= u /\ nth i (g_r arr g) 0 = (1 / m) * (1 + d)) /\
       exists m', largest_of (fun e => rowE e = i) (fun e => Rabs (rnd (valE e * nth i (g_r arr g) 0))) (entsE A) m' /\
                  (1 - u) ^ 2 <= m' <= (1 + u) ^ 2) /\
    (forall j m, (j < ncolE A)%nat ->
       largest_of (fun e => colE e = j) (fun e => rnd (Rabs (valE e) * nth (rowE e) (g_r arr g) 0)) (entsE A) m ->
       sml <= m <= rnd (1 / sml) ->
       (exists d, -u <= d <= u /\ nth j (g_c arr g) 0 = (1 / m) * (1 + d)) /\
       (exists m', largest_of (fun e => colE e = j)
                     (fun e => rnd (rnd (Rabs (valE e) * nth (rowE e) (g_r arr g) 0) * nth j (g_c arr g) 0)) (entsE A) m' /\
                   (1 - u) ^ 2 <= m' <= (1 + u) ^ 2) /\
       (exists m', largest_of (fun e => colE e = j)
                     (fun e => Rabs (rnd (valE e * rnd (nth j (g_c arr g) 0 * nth (rowE e) (g_r arr g) 0)))) (entsE A) m' /\
                   (1 - u) ^ 3 / (1 + u) <= m' <= (1 + u) ^ 3 / (1 - u))).
Proof.
  intros sml A r0 c0 rc0 cc0 am0 g Hs Hwf Hn Hm Hg Hinfo. split.
  - intros i m Hi Hlg Hrange.
    destruct (gsequ_unit_max_rounded_rows sml A r0 c0 rc0 cc0 am0 g Hs Hwf Hn Hm Hg Hinfo i m Hi Hlg Hrange)
      as [H1 [H2 _]].
    split; [exact H1|exact H2].
  - intros j m Hj Hlg Hrange.
    exact (gsequ_unit_max_rounded_cols sml A r0 c0 rc0 cc0 am0 g Hs Hwf Hn Hm Hg Hinfo j m Hj Hlg Hrange).
Qed.

(* with the exact product R_i * a_ij (what a reader of R sees) the row maximum is exactly 1 + d_i *)
Theorem gsequ_unit_max_rounded_rows_exact_product :
  forall sml (A : smatrix arr) (r0 c0 : list R) (rc0 cc0 am0 : R) (g : gsequ_out arr),
    0 < sml -> wf_rnd A -> (0 < nrowE A)%nat -> (0 < ncolE A)%nat ->
    gsequ arr sml A r0 c0 rc0 cc0 am0 = Some g -> g_info arr g = 0%Z ->
    forall i m, (i < nrowE A)%nat ->
      largest_of (fun e => rowE e = i) (fun e => Rabs (valE e)) (entsE A) m -> sml <= m <= rnd (1 / sml) ->
      exists d, -u <= d <= u /\
        largest_of (fun e => rowE e = i) (fun e => Rabs (nth i (g_r arr g) 0 * valE e)) (entsE A) (1 + d).
Proof.
  intros sml A r0 c0 rc0 cc0 am0 g Hs Hwf Hn Hm Hg Hinfo i m Hi Hlg Hrange.
  destruct (gsequ_unit_max_rounded_rows sml A r0 c0 rc0 cc0 am0 g Hs Hwf Hn Hm Hg Hinfo i m Hi Hlg Hrange)
    as [[d [Hd HR]] _].
  pose proof (u_range rnd u Hmodel) as [Hu0 Hu1].
  assert (Hmpos : 0 < m) by lra.
  set (Ri := nth i (g_r arr g) 0) in *.
  assert (HRm : Ri * m = 1 + d) by (rewrite HR; field; lra).
  assert (HRp : 0 < Ri).
  { rewrite HR. apply Rmult_lt_0_compat; [apply Rdiv_lt_0_compat; lra|lra]. }
  exists d. split; [exact Hd|]. destruct Hlg as [Hle [e [Hin [Hk He]]]]. split.
  - intros e' Hin' Hk'. rewrite Rabs_mult, (Rabs_pos_eq Ri) by lra. rewrite <- HRm.
    apply Rmult_le_compat_l; [lra|]. apply Hle; assumption.
  - exists e. split; [exact Hin|]. split; [exact Hk|].
    rewrite Rabs_mult, (Rabs_pos_eq Ri) by lra. rewrite He. exact HRm.
Qed.

(* ================================================================== the matrix returned by ?laqgs *)
Lemma largest_of_Forall2 (E1 E2 : Type) (Rel : E1 -> E2 -> Prop) (sel1 : E1 -> Prop) (sel2 : E2 -> Prop)
      (f1 : E1 -> R) (f2 : E2 -> R) :
  forall es1 es2 m,
  Forall2 Rel es1 es2 ->
  (forall e1 e2, Rel e1 e2 -> (sel1 e1 <-> sel2 e2)) ->
  (forall e1 e2, In e1 es1 -> Rel e1 e2 -> sel1 e1 -> f2 e2 = f1 e1) ->
  largest_of sel1 f1 es1 m -> largest_of sel2 f2 es2 m.
Proof.
  intros es1 es2 m HF Hsel Hval [Hle [e [Hin [Hs He]]]].
  assert (Hback : forall e2, In e2 es2 -> exists e1, In e1 es1 /\ Rel e1 e2).
  { clear - HF. induction HF as [|a b la lb Hab HF IH]; intros e2 H2; [contradiction|].
    destruct H2 as [<- | H2]; [exists a; split; [left; reflexivity|exact Hab]|].
    destruct (IH e2 H2) as [e1 [H1 Hr]]. exists e1; split; [right; exact H1|exact Hr]. }
  assert (Hforth : forall e1, In e1 es1 -> exists e2, In e2 es2 /\ Rel e1 e2).
  { clear - HF. induction HF as [|a b la lb Hab HF IH]; intros e1 H1; [contradiction|].
    destruct H1 as [<- | H1]; [exists b; split; [left; reflexivity|exact Hab]|].
    destruct (IH e1 H1) as [e2 [H2 Hr]]. exists e2; split; [right; exact H2|exact Hr]. }
  split.
  - intros e2 Hin2 Hs2. destruct (Hback e2 Hin2) as [e1 [Hin1 Hr]].
    assert (Hs1 : sel1 e1) by (apply (Hsel e1 e2 Hr); exact Hs2).
    rewrite (Hval e1 e2 Hin1 Hr Hs1). apply Hle; assumption.
  - destruct (Hforth e Hin) as [e2 [Hin2 Hr]]. exists e2. split; [exact Hin2|]. split.
    + apply (Hsel e e2 Hr); exact Hs.
    + rewrite (Hval e e2 Hin Hr Hs). exact He.
Qed.

(* flag ROW returned: every unclipped row of the RETURNED matrix has largest magnitude in [(1-u)^2, (1+u)^2] *)
Theorem laqgs_row_unit_max_rounded :
  forall sml (A : smatrix arr) (r0 c0 : list R) (rc0 cc0 am0 : R) (g : gsequ_out arr)
         th sfmin prec rowcnd colcnd amax (A' : smatrix arr),
    0 < sml -> wf_rnd A -> (0 < nrowE A)%nat -> (0 < ncolE A)%nat ->
    gsequ arr sml A r0 c0 rc0 cc0 am0 = Some g -> g_info arr g = 0%Z ->
    laqgs arr th sfmin prec A (g_r arr g) (g_c arr g) rowcnd colcnd amax = Some (A', c_ROW) ->
    forall i m, (i < nrowE A)%nat ->
      largest_of (fun e => rowE e = i) (fun e => Rabs (valE e)) (entsE A) m -> sml <= m <= rnd (1 / sml) ->
      exists m', largest_of (fun e => rowE e = i) (fun e => Rabs (valE e)) (entsE A') m' /\
                 (1 - u) ^ 2 <= m' <= (1 + u) ^ 2.
Proof.
  intros sml A r0 c0 rc0 cc0 am0 g th sfmin prec rowcnd colcnd amax A' Hs Hwf Hn Hm Hg Hinfo Hq i m Hi Hlg Hrange.
  destruct (gsequ_unit_max_rounded_rows sml A r0 c0 rc0 cc0 am0 g Hs Hwf Hn Hm Hg Hinfo i m Hi Hlg Hrange)
    as [_ [[m' [Hm' Hb]] _]].
  exists m'. split; [|exact Hb].
  destruct (laqgs_rule_proof arr _ _ _ _ _ _ _ _ _ _ _ Hq Hn Hm) as [_ [_ [_ [_ HF]]]].
  assert (Hne : c_ROW <> c_NOEQUIL) by (unfold c_ROW, c_NOEQUIL; lia).
  specialize (HF Hne).
  apply (largest_of_Forall2 entE entE (scaled_entry arr c_ROW (g_r arr g) (g_c arr g))
           (fun e => rowE e = i) (fun e => rowE e = i)
           (fun e => Rabs (rnd (valE e * nth i (g_r arr g) 0))) (fun e => Rabs (valE e)) (entsE A) (entsE A') m' HF).
  - intros e1 e2 [Hr _]. rewrite Hr. tauto.
  - intros e1 e2 _ [_ [_ [ri [cj [Hri [_ Hv]]]]]] Hsel.
    rewrite Hv. unfold factor_of. replace (c_ROW =? c_ROW)%Z with true by reflexivity.
    cbn [vscale ar_rnd]. rewrite <- Hsel.
    rewrite (List.nth_error_nth (g_r arr g) (rowE e1) 0 Hri). reflexivity.
  - exact Hm'.
Qed.

(* flag BOTH returned: every unclipped column of the RETURNED matrix has largest magnitude in
   [(1-u)^3/(1+u), (1+u)^3/(1-u)] *)
Theorem laqgs_both_unit_max_rounded :
  forall sml (A : smatrix arr) (r0 c0 : list R) (rc0 cc0 am0 : R) (g : gsequ_out arr)
         th sfmin prec rowcnd colcnd amax (A' : smatrix arr),
    0 < sml -> wf_rnd A -> (0 < nrowE A)%nat -> (0 < ncolE A)%nat ->
    gsequ arr sml A r0 c0 rc0 cc0 am0 = Some g -> g_info arr g = 0%Z ->
    laqgs arr th sfmin prec A (g_r arr g) (g_c arr g) rowcnd colcnd amax = Some (A', c_BOTH) ->
    forall j m, (j < ncolE A)%nat ->
      largest_of (fun e => colE e = j) (fun e => rnd (Rabs (valE e) * nth (rowE e) (g_r arr g) 0)) (entsE A) m ->
      sml <= m <= rnd (1 / sml) ->
      exists m', largest_of (fun e => colE e = j) (fun e => Rabs (valE e)) (entsE A') m' /\
                 (1 - u) ^ 3 / (1 + u) <= m' <= (1 + u) ^ 3 / (1 - u).
Proof.
  intros sml A r0 c0 rc0 cc0 am0 g th sfmin prec rowcnd colcnd amax A' Hs Hwf Hn Hm Hg Hinfo Hq j m Hj Hlg Hrange.
  destruct (gsequ_unit_max_rounded_cols sml A r0 c0 rc0 cc0 am0 g Hs Hwf Hn Hm Hg Hinfo j m Hj Hlg Hrange)
    as [_ [_ [m' [Hm' Hb]]]].
  exists m'. split; [|exact Hb].
  destruct (laqgs_rule_proof arr _ _ _ _ _ _ _ _ _ _ _ Hq Hn Hm) as [_ [_ [_ [_ HF]]]].
  assert (Hne : c_BOTH <> c_NOEQUIL) by (unfold c_BOTH, c_NOEQUIL; lia).
  specialize (HF Hne).
  apply (largest_of_Forall2 entE entE (scaled_entry arr c_BOTH (g_r arr g) (g_c arr g))
           (fun e => colE e = j) (fun e => colE e = j)
           (fun e => Rabs (rnd (valE e * rnd (nth j (g_c arr g) 0 * nth (rowE e) (g_r arr g) 0))))
           (fun e => Rabs (valE e)) (entsE A) (entsE A') m' HF).
  - intros e1 e2 [_ [Hc _]]. rewrite Hc. tauto.
  - intros e1 e2 _ [_ [_ [ri [cj [Hri [Hcj Hv]]]]]] Hsel.
    rewrite Hv. unfold factor_of.
    replace (c_BOTH =? c_ROW)%Z with false by reflexivity.
    replace (c_BOTH =? c_COL)%Z with false by reflexivity.
    replace (c_BOTH =? c_BOTH)%Z with true by reflexivity.
    cbn [vscale mul ar_rnd]. rewrite <- Hsel.
    rewrite (List.nth_error_nth (g_r arr g) (rowE e1) 0 Hri).
    rewrite (List.nth_error_nth (g_c arr g) (colE e1) 0 Hcj). reflexivity.
  - exact Hm'.
Qed.

(* ================================================================== symmetric rounding: the signed two-pass form *)
Lemma Rabs_rnd_odd : (forall x, rnd (- x) = - rnd x) -> forall x, Rabs (rnd x) = rnd (Rabs x).
Proof.
  intros Hodd x. destruct (Rle_lt_dec 0 x) as [Hx | Hx].
  - rewrite (Rabs_pos_eq x) by exact Hx. apply Rabs_pos_eq. apply (rnd_nonneg rnd u Hmodel); exact Hx.
  - rewrite (Rabs_left x) by exact Hx.
    assert (Hp : 0 < rnd (- x)) by (apply (rnd_pos rnd u Hmodel); lra).
    replace x with (- - x) at 1 by ring. rewrite Hodd. rewrite Rabs_Ropp. apply Rabs_pos_eq. lra.
Qed.

Theorem gsequ_unit_max_rounded_cols_odd :
  (forall x, rnd (- x) = - rnd x) ->
  forall sml (A : smatrix arr) (r0 c0 : list R) (rc0 cc0 am0 : R) (g : gsequ_out arr),
    0 < sml -> wf_rnd A -> (0 < nrowE A)%nat -> (0 < ncolE A)%nat ->
    gsequ arr sml A r0 c0 rc0 cc0 am0 = Some g -> g_info arr g = 0%Z ->
    forall j m, (j < ncolE A)%nat ->
      (* m: largest magnitude of column j of the stored row-scaled matrix  rnd (a_ij * R_i) *)
      largest_of (fun e => colE e = j) (fun e => Rabs (rnd (valE e * nth (rowE e) (g_r arr g) 0))) (entsE A) m ->
      sml <= m <= rnd (1 / sml) ->
      exists m', largest_of (fun e => colE e = j)
                   (fun e => Rabs (rnd (rnd (valE e * nth (rowE e) (g_r arr g) 0) * nth j (g_c arr g) 0))) (entsE A) m' /\
                 (1 - u) ^ 2 <= m' <= (1 + u) ^ 2.
Proof.
  intros Hodd sml A r0 c0 rc0 cc0 am0 g Hs Hwf Hn Hm Hg Hinfo j m Hj Hlg Hrange.
  destruct (gsequ_rnd_info0 sml A r0 c0 rc0 cc0 am0 g Hs Hwf Hn Hm Hg Hinfo) as [Hl [Hlc [Hr Hcv]]].
  assert (HRp : forall e, In e (entsE A) -> 0 < nth (rowE e) (g_r arr g) 0).
  { intros e He. rewrite Hr by (apply Hwf; exact He). apply rclip_pos; exact Hs. }
  assert (HCp : 0 < nth j (g_c arr g) 0) by (rewrite Hcv by exact Hj; apply rclip_pos; exact Hs).
  assert (Heq1 : forall e, In e (entsE A) ->
            Rabs (rnd (valE e * nth (rowE e) (g_r arr g) 0)) = rnd (Rabs (valE e) * nth (rowE e) (g_r arr g) 0)).
  { intros e He. rewrite (Rabs_rnd_odd Hodd). rewrite Rabs_mult.
    rewrite (Rabs_pos_eq (nth (rowE e) (g_r arr g) 0)) by (apply Rlt_le, HRp; exact He). reflexivity. }
  assert (Hlg2 : largest_of (fun e => colE e = j) (fun e => rnd (Rabs (valE e) * nth (rowE e) (g_r arr g) 0)) (entsE A) m).
  { apply (largest_of_ext entE _ (fun e => Rabs (rnd (valE e * nth (rowE e) (g_r arr g) 0)))); [|exact Hlg].
    intros e He _. apply Heq1; exact He. }
  destruct (gsequ_unit_max_rounded_cols sml A r0 c0 rc0 cc0 am0 g Hs Hwf Hn Hm Hg Hinfo j m Hj Hlg2 Hrange)
    as [_ [[m' [Hm' Hb]] _]].
  exists m'. split; [|exact Hb].
  apply (largest_of_ext entE _ (fun e => rnd (rnd (Rabs (valE e) * nth (rowE e) (g_r arr g) 0) * nth j (g_c arr g) 0)));
    [|exact Hm'].
  intros e He _. rewrite (Rabs_rnd_odd Hodd). rewrite Rabs_mult.
  rewrite (Rabs_pos_eq (nth j (g_c arr g) 0)) by lra. rewrite (Heq1 e He). reflexivity.
Qed.


(* ================================================================== no zero row / column: info = 0 *)
Definition no_zero_row (A : smatrix arr) : Prop :=
  forall i, (i < nrowE A)%nat -> exists e, In e (entsE A) /\ rowE e = i /\ valE e <> 0.
Definition no_zero_col (A : smatrix arr) : Prop :=
  forall j, (j < ncolE A)%nat -> exists e, In e (entsE A) /\ colE e = j /\ valE e <> 0.

Theorem gsequ_rnd_total :
  forall sml (A : smatrix arr) (r0 c0 : list R) (rc0 cc0 am0 : R),
    0 < sml -> wf_rnd A -> (0 < nrowE A)%nat -> (0 < ncolE A)%nat -> no_zero_row A -> no_zero_col A ->
    exists g, gsequ arr sml A r0 c0 rc0 cc0 am0 = Some g /\ g_info arr g = 0%Z.
Proof.
  intros sml A r0 c0 rc0 cc0 am0 Hs Hwf Hn Hm Hnzr Hnzc.
  unfold gsequ.
  replace (Nat.eqb (nrowE A) 0) with false by (symmetry; apply Nat.eqb_neq; lia).
  replace (Nat.eqb (ncolE A) 0) with false by (symmetry; apply Nat.eqb_neq; lia).
  cbn [orb]. cbn [zero one div ar_rnd]. change (T arr) with R in *.
  set (big := rnd (1 / sml)) in *.
  assert (Hbig : 0 < big) by (apply big_pos; exact Hs).
  rewrite rowmax_is_gscat.
  destruct (gscat_spec entE rowE (fun e => Rabs (valE e)) (entsE A) (repeat 0 (nrowE A))) as [r1 [Hr1 [Hl1 Hn1]]].
  { intros e He. rewrite repeat_length. apply Hwf; exact He. }
  rewrite Hr1. rewrite repeat_length in Hl1, Hn1.
  assert (Hrm : forall i, (i < nrowE A)%nat -> nth i r1 0 = rrow_max A i).
  { intros i Hi. rewrite Hn1 by exact Hi. rewrite repeat_nth0. reflexivity. }
  assert (Hr1pos : forall x, In x r1 -> 0 < x).
  { intros x Hx. destruct (in_nth_R _ _ Hx) as [i [Hi <-]]. rewrite Hl1 in Hi. rewrite Hrm by exact Hi.
    destruct (Hnzr i Hi) as [e [Hin [Hk Hv]]].
    eapply Rlt_le_trans; [apply Rabs_pos_lt; exact Hv|].
    unfold rrow_max. apply (gsmax_ge entE rowE (fun e => Rabs (valE e))); assumption. }
  change (minmax_loop arr r1 big 0) with (minmax_loop ar_R r1 big 0).
  rewrite minmax_spec. cbn [eqb zero ar_rnd].
  set (rcmin := fold_left Rmin r1 big). set (rcmax := fold_left Rmax r1 0).
  assert (Ez : Reqb rcmin 0 = false).
  { apply Reqb_false. intro E0. unfold rcmin in E0.
    apply (fold_min_zero_iff r1 big Hbig) in E0; [|intros x Hx; apply Rlt_le, Hr1pos; exact Hx].
    specialize (Hr1pos 0 E0). lra. }
  rewrite Ez. cbn [negb].
  set (r2 := @map R R (invert_clip arr sml big) r1).
  assert (Hl2 : length r2 = nrowE A) by (unfold r2; rewrite map_length; exact Hl1).
  assert (Hr2 : forall i, (i < nrowE A)%nat -> nth i r2 0 = rclip sml (rrow_max A i)).
  { intros i Hi. unfold r2. rewrite nth_map_R by lia. rewrite Hrm by exact Hi. apply invert_clip_rnd. }
  rewrite colmax_is_gscat by (intros e He; pose proof (proj1 (Hwf e He)) as Hlt; rewrite <- Hl2 in Hlt; exact Hlt).
  destruct (gscat_spec entE colE (fun e => rnd (Rabs (valE e) * nth (rowE e) r2 0)) (entsE A) (repeat 0 (ncolE A)))
    as [c1 [Hc1 [Hlc Hnc]]].
  { intros e He. rewrite repeat_length. apply Hwf; exact He. }
  rewrite Hc1. rewrite repeat_length in Hlc, Hnc.
  assert (Hcm : forall j, (j < ncolE A)%nat -> nth j c1 0 = rcol_max A r2 j).
  { intros j Hj. rewrite Hnc by exact Hj. rewrite repeat_nth0. reflexivity. }
  assert (Hc1pos : forall x, In x c1 -> 0 < x).
  { intros x Hx. destruct (in_nth_R _ _ Hx) as [j [Hj <-]]. rewrite Hlc in Hj. rewrite Hcm by exact Hj.
    destruct (Hnzc j Hj) as [e [Hin [Hk Hv]]].
    apply Rlt_le_trans with (rnd (Rabs (valE e) * nth (rowE e) r2 0)).
    - apply (rnd_pos rnd u Hmodel). apply Rmult_lt_0_compat; [apply Rabs_pos_lt; exact Hv|].
      rewrite Hr2 by (apply Hwf; exact Hin). apply rclip_pos; exact Hs.
    - unfold rcol_max. apply (gsmax_ge entE colE (fun e => rnd (Rabs (valE e) * nth (rowE e) r2 0))); assumption. }
  change (minmax_loop arr c1 big 0) with (minmax_loop ar_R c1 big 0).
  rewrite minmax_spec.
  set (ccmin := fold_left Rmin c1 big). set (ccmax := fold_left Rmax c1 0).
  assert (Ecz : Reqb ccmin 0 = false).
  { apply Reqb_false. intro E0. unfold ccmin in E0.
    apply (fold_min_zero_iff c1 big Hbig) in E0; [|intros x Hx; apply Rlt_le, Hc1pos; exact Hx].
    specialize (Hc1pos 0 E0). lra. }
  rewrite Ecz. cbn [negb].
  eexists. split; reflexivity.
Qed.

End Rounded.

(* ================================================================== non-vacuity *)
(* rnd = identity, u = 0, the 2x2 matrix of exA_hypotheses (entries 4, 1/2 in row 0 and -2 in row 1), smlnum = 1/16:
   every hypothesis of gsequ_unit_max_rounded_rows / _cols holds (and ?gsequ does return info = 0) *)
Definition idr (x : R) : R := x.

Lemma idr_model : rnd_model idr 0.
Proof.
  split; [lra|]. intros x. exists 0. split; [rewrite Rabs_R0; lra|]. unfold idr; ring.
Qed.

Definition exAr : smatrix (ar_rnd idr) :=
  mkSM (ar_rnd idr) 2 2 [mkEntry (ar_rnd idr) 0 0 4; mkEntry (ar_rnd idr) 1 0 (-2); mkEntry (ar_rnd idr) 0 1 (1 / 2)].

Example ex_hypotheses :
  rnd_model idr 0 /\ wf_rnd idr exAr /\ (0 < sm_nrow (ar_rnd idr) exAr)%nat /\ (0 < sm_ncol (ar_rnd idr) exAr)%nat /\
  exists g, gsequ (ar_rnd idr) (1 / 16) exAr [0; 0] [0; 0] 0 0 0 = Some g /\ g_info (ar_rnd idr) g = 0%Z /\
    (* row 0: largest magnitude 4, unclipped *)
    largest_of (fun e => e_row (ar_rnd idr) e = 0%nat) (fun e => Rabs (e_val (ar_rnd idr) e)) (sm_ents (ar_rnd idr) exAr) 4 /\
    1 / 16 <= 4 <= idr (1 / (1 / 16)) /\
    (* row 1: largest magnitude 2, unclipped *)
    largest_of (fun e => e_row (ar_rnd idr) e = 1%nat) (fun e => Rabs (e_val (ar_rnd idr) e)) (sm_ents (ar_rnd idr) exAr) 2 /\
    1 / 16 <= 2 <= idr (1 / (1 / 16)) /\
    (* column 0 of the row-scaled matrix: largest magnitude 1, unclipped *)
    largest_of (fun e => e_col (ar_rnd idr) e = 0%nat)
               (fun e => idr (Rabs (e_val (ar_rnd idr) e) * nth (e_row (ar_rnd idr) e) (g_r (ar_rnd idr) g) 0))
               (sm_ents (ar_rnd idr) exAr) 1 /\
    1 / 16 <= 1 <= idr (1 / (1 / 16)).
Proof.
  assert (Hwf : wf_rnd idr exAr).
  { unfold wf_rnd, exAr; cbn. intros e [<-|[<-|[<-|[]]]]; cbn; lia. }
  assert (Hn : (0 < sm_nrow (ar_rnd idr) exAr)%nat) by (cbn; lia).
  assert (Hm : (0 < sm_ncol (ar_rnd idr) exAr)%nat) by (cbn; lia).
  assert (Hbig : idr (1 / (1 / 16)) = 16) by (unfold idr; field).
  assert (Hnzr : no_zero_row idr exAr).
  { intros i Hi. cbn in Hi. destruct i as [|[|i]]; [| |lia].
    - exists (mkEntry (ar_rnd idr) 0 0 4). cbn. split; [left; reflexivity|]. split; [reflexivity|lra].
    - exists (mkEntry (ar_rnd idr) 1 0 (-2)). cbn. split; [right; left; reflexivity|]. split; [reflexivity|lra]. }
  assert (Hnzc : no_zero_col idr exAr).
  { intros j Hj. cbn in Hj. destruct j as [|[|j]]; [| |lia].
    - exists (mkEntry (ar_rnd idr) 0 0 4). cbn. split; [left; reflexivity|]. split; [reflexivity|lra].
    - exists (mkEntry (ar_rnd idr) 0 1 (1 / 2)). cbn. split; [right; right; left; reflexivity|]. split; [reflexivity|lra]. }
  assert (Hs : 0 < 1 / 16) by lra.
  destruct (gsequ_rnd_total idr 0 idr_model (1 / 16) exAr [0; 0] [0; 0] 0 0 0 Hs Hwf Hn Hm Hnzr Hnzc) as [g [Hg Hinfo]].
  assert (Hrow0 : largest_of (fun e => e_row (ar_rnd idr) e = 0%nat) (fun e => Rabs (e_val (ar_rnd idr) e))
                             (sm_ents (ar_rnd idr) exAr) 4).
  { split.
    - intros e [<-|[<-|[<-|[]]]] Hk; cbn in *; try lia; rewrite Rabs_pos_eq; lra.
    - exists (mkEntry (ar_rnd idr) 0 0 4). cbn. split; [left; reflexivity|]. split; [reflexivity|]. rewrite Rabs_pos_eq; lra. }
  assert (Hrow1 : largest_of (fun e => e_row (ar_rnd idr) e = 1%nat) (fun e => Rabs (e_val (ar_rnd idr) e))
                             (sm_ents (ar_rnd idr) exAr) 2).
  { split.
    - intros e [<-|[<-|[<-|[]]]] Hk; cbn in *; try lia. rewrite Rabs_left; lra.
    - exists (mkEntry (ar_rnd idr) 1 0 (-2)). cbn. split; [right; left; reflexivity|]. split; [reflexivity|].
      rewrite Rabs_left; lra. }
  assert (Hr4 : 1 / 16 <= 4 <= idr (1 / (1 / 16))) by (rewrite Hbig; lra).
  assert (Hr2 : 1 / 16 <= 2 <= idr (1 / (1 / 16))) by (rewrite Hbig; lra).
  (* the factors, from the row theorem itself (u = 0 forces d = 0) *)
  destruct (gsequ_unit_max_rounded_rows idr 0 idr_model (1 / 16) exAr _ _ _ _ _ g Hs Hwf Hn Hm Hg Hinfo 0%nat 4
              ltac:(cbn; lia) Hrow0 Hr4) as [[d0 [Hd0 HR0]] _].
  destruct (gsequ_unit_max_rounded_rows idr 0 idr_model (1 / 16) exAr _ _ _ _ _ g Hs Hwf Hn Hm Hg Hinfo 1%nat 2
              ltac:(cbn; lia) Hrow1 Hr2) as [[d1 [Hd1 HR1]] _].
  assert (d0 = 0) by lra. assert (d1 = 0) by lra. subst d0 d1.
  split; [exact idr_model|]. split; [exact Hwf|]. split; [exact Hn|]. split; [exact Hm|].
  exists g. split; [exact Hg|]. split; [exact Hinfo|].
  split; [exact Hrow0|]. split; [exact Hr4|]. split; [exact Hrow1|]. split; [exact Hr2|].
  split; [|rewrite Hbig; lra].
  assert (Hid : forall x, idr x = x) by reflexivity.
  split.
  - intros e [<-|[<-|[<-|[]]]] Hk; cbn [e_row e_col e_val] in *; try lia.
    + rewrite Hid, HR0. rewrite Rabs_pos_eq by lra. lra.
    + rewrite Hid, HR1. rewrite Rabs_left by lra. lra.
  - exists (mkEntry (ar_rnd idr) 0 0 4). cbn [e_row e_col e_val].
    split; [left; reflexivity|]. split; [reflexivity|].
    rewrite Hid, HR0. rewrite Rabs_pos_eq by lra. lra.
Qed.

(* ================================================================== the reference statement of EquilRealProofs.v *)
(* gsequ_unit_max_rounded_full (a Definition, never claimed) takes "sml <= m <= 1 / sml" as the no-clipping
   hypothesis of a row.  The code clips at bignum = rnd (1 / sml), which may be smaller than 1 / sml, so a row with
   m = 1 / sml can be clipped and its scaled maximum is then off by more than u.  Counterexample: u = 1/8,
   rnd 2 = 7/4, rnd x = 9/8 x otherwise, smlnum = 1/2, the 1x1 matrix (2):  bignum = 7/4, R_0 = rnd (4/7) = 9/14,
   R_0 * 2 = 9/7, |9/7 - 1| = 2/7 > 1/8. *)
Definition bad_rnd (x : R) : R := if Req_EM_T x 2 then 7 / 4 else x * (9 / 8).

Lemma bad_rnd_2 : bad_rnd 2 = 7 / 4.
Proof. unfold bad_rnd. destruct (Req_EM_T 2 2) as [_|H]; [reflexivity|exfalso; apply H; reflexivity]. Qed.

Lemma bad_rnd_other x : x <> 2 -> bad_rnd x = x * (9 / 8).
Proof. intros H. unfold bad_rnd. destruct (Req_EM_T x 2) as [E|_]; [contradiction|reflexivity]. Qed.

Lemma bad_model : rnd_model bad_rnd (1 / 8).
Proof.
  split; [lra|]. intros x. destruct (Req_EM_T x 2) as [E|E].
  - exists (- (1 / 8)). split; [rewrite Rabs_Ropp, Rabs_pos_eq; lra|]. subst x. rewrite bad_rnd_2. field.
  - exists (1 / 8). split; [rewrite Rabs_pos_eq; lra|]. rewrite bad_rnd_other by exact E. field.
Qed.

Lemma bad_abs : forall x, Rabs (bad_rnd x - x) <= 1 / 8 * Rabs x.
Proof.
  intros x. destruct (proj2 bad_model x) as [d [Hd Hx]]. rewrite Hx.
  replace (x * (1 + d) - x) with (d * x) by ring. rewrite Rabs_mult.
  apply Rmult_le_compat_r; [apply Rabs_pos|exact Hd].
Qed.

Definition badA : smatrix (ar_rnd bad_rnd) := mkSM (ar_rnd bad_rnd) 1 1 [mkEntry (ar_rnd bad_rnd) 0 0 2].

Theorem gsequ_unit_max_rounded_full_is_false : ~ gsequ_unit_max_rounded_full.
Proof.
  intros Hfull.
  assert (Hwf : wf_rnd bad_rnd badA).
  { unfold wf_rnd, badA; cbn. intros e [<-|[]]; cbn; lia. }
  assert (Hn : (0 < sm_nrow (ar_rnd bad_rnd) badA)%nat) by (cbn; lia).
  assert (Hm : (0 < sm_ncol (ar_rnd bad_rnd) badA)%nat) by (cbn; lia).
  assert (Hs : 0 < 1 / 2) by lra.
  assert (Hnzr : no_zero_row bad_rnd badA).
  { intros i Hi. cbn in Hi. assert (i = 0%nat) by lia. subst i.
    exists (mkEntry (ar_rnd bad_rnd) 0 0 2). cbn. split; [left; reflexivity|]. split; [reflexivity|lra]. }
  assert (Hnzc : no_zero_col bad_rnd badA).
  { intros j Hj. cbn in Hj. assert (j = 0%nat) by lia. subst j.
    exists (mkEntry (ar_rnd bad_rnd) 0 0 2). cbn. split; [left; reflexivity|]. split; [reflexivity|lra]. }
  destruct (gsequ_rnd_total bad_rnd (1 / 8) bad_model (1 / 2) badA [0] [0] 0 0 0 Hs Hwf Hn Hm Hnzr Hnzc) as [g [Hg Hinfo]].
  (* what R_0 is *)
  destruct (gsequ_rnd_info0 bad_rnd (1 / 8) bad_model (1 / 2) badA [0] [0] 0 0 0 g Hs Hwf Hn Hm Hg Hinfo) as [_ [_ [Hr _]]].
  specialize (Hr 0%nat Hn).
  assert (Hrm : rrow_max bad_rnd badA 0 = 2).
  { unfold rrow_max, gsmax, badA; cbn. rewrite Rabs_pos_eq by lra. apply Rmax_right; lra. }
  assert (HR0 : nth 0 (g_r (ar_rnd bad_rnd) g) 0 = 9 / 14).
  { rewrite Hr, Hrm. unfold rclip. change (T (ar_rnd bad_rnd)) with R.
    replace (1 / (1 / 2)) with 2 by field. rewrite bad_rnd_2.
    rewrite Rmax_left by lra. rewrite Rmin_right by lra.
    rewrite bad_rnd_other by lra. field. }
  (* the row part of the reference statement *)
  assert (Hu : 0 <= 1 / 8 < / 4) by lra.
  assert (Hs1 : 1 / 2 <= 1) by lra.
  pose proof (Hfull bad_rnd (1 / 8) Hu bad_abs (1 / 2) badA [0] [0] 0 0 0 g Hs Hs1 Hwf Hn Hm Hg Hinfo) as H.
  cbv zeta in H. destruct H as [Hrows _].
  assert (Hlg : largest_of (fun e => e_row (ar_rnd bad_rnd) e = 0%nat) (fun e => Rabs (e_val (ar_rnd bad_rnd) e))
                           (sm_ents (ar_rnd bad_rnd) badA) 2).
  { split.
    - intros e [<-|[]] _. cbn. rewrite Rabs_pos_eq; lra.
    - exists (mkEntry (ar_rnd bad_rnd) 0 0 2). cbn. split; [left; reflexivity|]. split; [reflexivity|]. rewrite Rabs_pos_eq; lra. }
  assert (Hrange : 1 / 2 <= 2 <= 1 / (1 / 2)) by (replace (1 / (1 / 2)) with 2 by field; lra).
  destruct (Hrows 0%nat 2 Hn Hlg Hrange) as [m' [[_ [e [Hin [_ He]]]] Hclose]].
  destruct Hin as [<-|[]]. cbn [e_val] in He. change (T (ar_rnd bad_rnd)) with R in *. rewrite HR0 in He.
  assert (Hm' : m' = 9 / 7) by (rewrite <- He; rewrite Rabs_pos_eq; lra).
  rewrite Hm' in Hclose. rewrite Rabs_pos_eq in Hclose by lra. lra.
Qed.

(* ================================================================== assumptions *)
Print Assumptions gsequ_unit_max_rounded_rows.
Print Assumptions gsequ_unit_max_rounded_cols.
Print Assumptions gsequ_unit_max_rounded.
Print Assumptions gsequ_unit_max_rounded_rows_exact_product.
Print Assumptions laqgs_row_unit_max_rounded.
Print Assumptions laqgs_both_unit_max_rounded.
Print Assumptions gsequ_unit_max_rounded_cols_odd.
Print Assumptions gsequ_rnd_total.
Print Assumptions no_upper_clip_sufficient.
Print Assumptions both_interval_pow.
Print Assumptions ex_hypotheses.
Print Assumptions gsequ_unit_max_rounded_full_is_false.
