(* UstackTie.v (property C14): ?user_malloc / ?user_free RE-TRANSLATED from the current C source (UstackGen.v, generated on every
   run by tools/gen_trans.py from SRC/p?memory.c) compute exactly what the hand-written model UstackModel.v computes
   (user_malloc / user_free on the stack record, umalloc / ufree on the memory-manager state with the event log projected away),
   for every precision and ALL argument values: no hypothesis on bytes, which_end, the stack fields or the buffer address is needed
   for the equalities themselves (both sides are arithmetic in Z).  Hence every theorem of Properties_C14.v about umalloc / ufree is
   a theorem about what the source says now.

   Correspondence of the arguments
     stk_size stk_used stk_top1 stk_top2   the fields of the file-static `stack`          = mkStack size used top1 top2
     stk_array                             the ADDRESS held in stack.array (any Z)        ; the model sees  ba = stk_array mod 8
     which_end (an int_t)                  HEAD when equal to the enum value gen_<p>_HEAD ; everything else is treated as TAIL
                                           (as the C code does: `if ( which_end == HEAD ) .. else ..`)
     result pointer (C2GalLib.cptr)        None = NULL, Some off = (char * ) stack.array + off  = the model's option offset / poff *)
Require Import ZArith List Bool Lia ZifyBool.
From SLU Require Import C2GalLib UstackModel UstackProofs UstackGen.
From SLU Require ArgCheckModel.
Local Open Scope Z_scope.

Definition fields (s : stack) : Z * Z * Z * Z := (s_size s, s_used s, s_top1 s, s_top2 s).

(* how the C code reads its int_t argument which_end; head = the value of the enum constant HEAD in that file *)
Definition end_of (head w : Z) : end_t := if w =? head then HEAD else TAIL.

(* the model, in the shape of the generated functions *)
Definition model_malloc (head size used top1 top2 array bytes w : Z) : cptr * (Z * Z * Z * Z) :=
  let r := user_malloc (array mod 8) bytes (end_of head w) (mkStack size used top1 top2) in
  (fst r, fields (snd r)).

Definition model_free (head size used top1 top2 array bytes w : Z) : unit * (Z * Z * Z * Z) :=
  (tt, fields (user_free bytes (end_of head w) (mkStack size used top1 top2))).

(* ---- the tie tactic ----
   Both sides are unfolded to decision trees over Z (the generated side is one by construction: cfg "dup_ifs"; the model side
   after unfolding user_malloc, stack_full, tail_extra, misalign, end_of).  [tie_ustack] first asks for plain convertibility after
   normalising the pointer helpers, the & 7 mask and >=? ; when that fails the trees are walked: the outermost test of the LEFT
   side, then any test left on the right side, is split into its first atom (negb, ||, && are looked through; one destruct per
   atom, its equation kept as a hypothesis and rewritten everywhere, so a test both sides share is decided once);
   a leaf is closed when the two values are equal componentwise by linear arithmetic with mod 8, or when the path is
   contradictory.  The walk is robust to harmless rewrites of the source (tests reordered or restated, a + b vs b + a, goto vs
   nested if / else, extra locals, early returns); it FAILS when on some satisfiable path the two sides decide or compute differently. *)
Ltac cond_split c :=
  lazymatch c with
  | negb ?a => cond_split a
  | (?a || ?b)%bool => cond_split a
  | (?a && ?b)%bool => cond_split a
  | _ => let H := fresh "Hcond" in destruct c eqn:H
  end.

Ltac tree_walk :=
  cbv beta iota zeta; cbn [negb andb orb];
  lazymatch goal with
  | |- (if ?c then _ else _) = _ => cond_split c; tree_walk
  | |- ?L = ?R =>
      lazymatch L with
      | context [if ?c then _ else _] => cond_split c; tree_walk
      | _ => lazymatch R with
             | context [if ?c then _ else _] => cond_split c; tree_walk
             | _ => c2g_leaf
             end
      end
  end.

Ltac tie_ustack :=
  intros;
  cbv beta delta [model_malloc model_free user_malloc user_free stack_full tail_extra misalign end_of fields fst snd
                  s_size s_used s_top1 s_top2] iota zeta;
  c2g_norm; rewrite ?Z.geb_leb, ?Z.gtb_ltb;
  first [ reflexivity | tree_walk ].

(* ---- s precision ---- *)
Lemma tie_suser_malloc : forall size used top1 top2 array bytes w,
  gen_suser_malloc size used top1 top2 array bytes w = model_malloc gen_s_HEAD size used top1 top2 array bytes w.
Proof. unfold gen_suser_malloc. tie_ustack. Qed.
Lemma tie_suser_free : forall size used top1 top2 array bytes w,
  gen_suser_free size used top1 top2 array bytes w = model_free gen_s_HEAD size used top1 top2 array bytes w.
Proof. unfold gen_suser_free. tie_ustack. Qed.
Lemma tie_s_ends : gen_s_HEAD <> gen_s_TAIL.
Proof. unfold gen_s_HEAD, gen_s_TAIL. lia. Qed.

(* ---- d precision ---- *)
Lemma tie_duser_malloc : forall size used top1 top2 array bytes w,
  gen_duser_malloc size used top1 top2 array bytes w = model_malloc gen_d_HEAD size used top1 top2 array bytes w.
Proof. unfold gen_duser_malloc. tie_ustack. Qed.
Lemma tie_duser_free : forall size used top1 top2 array bytes w,
  gen_duser_free size used top1 top2 array bytes w = model_free gen_d_HEAD size used top1 top2 array bytes w.
Proof. unfold gen_duser_free. tie_ustack. Qed.
Lemma tie_d_ends : gen_d_HEAD <> gen_d_TAIL.
Proof. unfold gen_d_HEAD, gen_d_TAIL. lia. Qed.

(* ---- c precision ---- *)
Lemma tie_cuser_malloc : forall size used top1 top2 array bytes w,
  gen_cuser_malloc size used top1 top2 array bytes w = model_malloc gen_c_HEAD size used top1 top2 array bytes w.
Proof. unfold gen_cuser_malloc. tie_ustack. Qed.
Lemma tie_cuser_free : forall size used top1 top2 array bytes w,
  gen_cuser_free size used top1 top2 array bytes w = model_free gen_c_HEAD size used top1 top2 array bytes w.
Proof. unfold gen_cuser_free. tie_ustack. Qed.
Lemma tie_c_ends : gen_c_HEAD <> gen_c_TAIL.
Proof. unfold gen_c_HEAD, gen_c_TAIL. lia. Qed.

(* ---- z precision ---- *)
Lemma tie_zuser_malloc : forall size used top1 top2 array bytes w,
  gen_zuser_malloc size used top1 top2 array bytes w = model_malloc gen_z_HEAD size used top1 top2 array bytes w.
Proof. unfold gen_zuser_malloc. tie_ustack. Qed.
Lemma tie_zuser_free : forall size used top1 top2 array bytes w,
  gen_zuser_free size used top1 top2 array bytes w = model_free gen_z_HEAD size used top1 top2 array bytes w.
Proof. unfold gen_zuser_free. tie_ustack. Qed.
Lemma tie_z_ends : gen_z_HEAD <> gen_z_TAIL.
Proof. unfold gen_z_HEAD, gen_z_TAIL. lia. Qed.

(* ---- the source, per precision ---- *)
Notation prec := ArgCheckModel.prec.
Definition src_HEAD (p : prec) : Z :=
  match p with ArgCheckModel.PS => gen_s_HEAD | ArgCheckModel.PD => gen_d_HEAD | ArgCheckModel.PC => gen_c_HEAD | ArgCheckModel.PZ => gen_z_HEAD end.
Definition src_TAIL (p : prec) : Z :=
  match p with ArgCheckModel.PS => gen_s_TAIL | ArgCheckModel.PD => gen_d_TAIL | ArgCheckModel.PC => gen_c_TAIL | ArgCheckModel.PZ => gen_z_TAIL end.
Definition src_user_malloc (p : prec) : Z -> Z -> Z -> Z -> Z -> Z -> Z -> cptr * (Z * Z * Z * Z) :=
  match p with ArgCheckModel.PS => gen_suser_malloc | ArgCheckModel.PD => gen_duser_malloc
             | ArgCheckModel.PC => gen_cuser_malloc | ArgCheckModel.PZ => gen_zuser_malloc end.
Definition src_user_free (p : prec) : Z -> Z -> Z -> Z -> Z -> Z -> Z -> unit * (Z * Z * Z * Z) :=
  match p with ArgCheckModel.PS => gen_suser_free | ArgCheckModel.PD => gen_duser_free
             | ArgCheckModel.PC => gen_cuser_free | ArgCheckModel.PZ => gen_zuser_free end.
(* the end of the stack an int_t value selects in precision p *)
Definition src_end (p : prec) (w : Z) : end_t := end_of (src_HEAD p) w.

Lemma src_user_malloc_is_model : forall p size used top1 top2 array bytes w,
  src_user_malloc p size used top1 top2 array bytes w = model_malloc (src_HEAD p) size used top1 top2 array bytes w.
Proof.
  intros [] size used top1 top2 array bytes w; unfold src_user_malloc, src_HEAD;
    [apply tie_suser_malloc | apply tie_duser_malloc | apply tie_cuser_malloc | apply tie_zuser_malloc].
Qed.

Lemma src_user_free_is_model : forall p size used top1 top2 array bytes w,
  src_user_free p size used top1 top2 array bytes w = model_free (src_HEAD p) size used top1 top2 array bytes w.
Proof.
  intros [] size used top1 top2 array bytes w; unfold src_user_free, src_HEAD;
    [apply tie_suser_free | apply tie_duser_free | apply tie_cuser_free | apply tie_zuser_free].
Qed.

Lemma src_ends_differ : forall p, src_HEAD p <> src_TAIL p.
Proof. intros []; [apply tie_s_ends | apply tie_d_ends | apply tie_c_ends | apply tie_z_ends]. Qed.

(* the symbolic constants select the ends they name *)
Lemma src_end_HEAD : forall p, src_end p (src_HEAD p) = HEAD.
Proof. intros p. unfold src_end, end_of. rewrite Z.eqb_refl. reflexivity. Qed.
Lemma src_end_TAIL : forall p, src_end p (src_TAIL p) = TAIL.
Proof.
  intros p. unfold src_end, end_of. pose proof (src_ends_differ p) as Hne.
  destruct (src_TAIL p =? src_HEAD p) eqn:Heq; [apply Z.eqb_eq in Heq; congruence | reflexivity].
Qed.

(* ---- the memory-manager state: umalloc / ufree with the event log projected away ---- *)
(* (model-only facts: they do not mention the generated definitions) *)
Lemma umalloc_result : forall bytes e m,
  poff (fst (umalloc bytes e m)) = fst (user_malloc (m_ba m) bytes e (m_stack m)).
Proof.
  intros bytes e m. unfold umalloc.
  destruct (user_malloc (m_ba m) bytes e (m_stack m)) as [[off|] s]; reflexivity.
Qed.

Lemma umalloc_stack : forall bytes e m,
  m_stack (snd (umalloc bytes e m)) = snd (user_malloc (m_ba m) bytes e (m_stack m)).
Proof.
  intros bytes e m. unfold umalloc.
  destruct (user_malloc (m_ba m) bytes e (m_stack m)) as [[off|] s] eqn:Hum; cbn [snd fst].
  - reflexivity.
  - pose proof (user_malloc_refused_unchanged (m_ba m) bytes e (m_stack m)) as Hun.
    rewrite Hum in Hun. cbn [fst snd] in Hun. symmetry. apply Hun. reflexivity.
Qed.

(* everything but the stack and the log is left alone *)
Lemma umalloc_frame : forall bytes e m,
  let m' := snd (umalloc bytes e m) in
  m_space m' = m_space m /\ m_ndim m' = m_ndim m /\ m_noexp m' = m_noexp m /\ m_ba m' = m_ba m /\
  m_exp m' = m_exp m /\ m_sysn m' = m_sysn m.
Proof.
  intros bytes e m. unfold umalloc.
  destruct (user_malloc (m_ba m) bytes e (m_stack m)) as [[off|] s]; cbn; repeat split; reflexivity.
Qed.

Lemma ufree_stack : forall bytes e m, m_stack (ufree bytes e m) = user_free bytes e (m_stack m).
Proof. intros bytes e m. reflexivity. Qed.

Lemma stack_eta : forall s, mkStack (s_size s) (s_used s) (s_top1 s) (s_top2 s) = s.
Proof. intros []; reflexivity. Qed.

(* THE TIE, on the memory-manager state.  Hypothesis: the model's ba is the alignment of the address held in stack.array
   (that is what mem_init stores: set_ba .. (a_ba a), "address of work[] mod 8"). *)
Theorem src_umalloc_is_model : forall (p : prec) (m : mem) (array bytes w : Z),
  m_ba m = array mod 8 ->
  let s := m_stack m in
  let r := umalloc bytes (src_end p w) m in
  src_user_malloc p (s_size s) (s_used s) (s_top1 s) (s_top2 s) array bytes w = (poff (fst r), fields (m_stack (snd r))).
Proof.
  intros p m array bytes w Hba s r. subst s r.
  rewrite src_user_malloc_is_model. unfold model_malloc.
  rewrite umalloc_result, umalloc_stack, stack_eta, Hba. reflexivity.
Qed.

Theorem src_ufree_is_model : forall (p : prec) (m : mem) (array bytes w : Z),
  let s := m_stack m in
  src_user_free p (s_size s) (s_used s) (s_top1 s) (s_top2 s) array bytes w
  = (tt, fields (m_stack (ufree bytes (src_end p w) m))).
Proof.
  intros p m array bytes w s. subst s.
  rewrite src_user_free_is_model. unfold model_free. rewrite ufree_stack, stack_eta. reflexivity.
Qed.

(* both functions and the meaning of the two symbolic constants, in one statement (Properties_C14.c14_source_ustack_is_model) *)
Lemma src_ustack_is_model : forall (p : prec) (m : mem) (array bytes w : Z),
  m_ba m = array mod 8 ->
  let s := m_stack m in
  let e := src_end p w in
  src_user_malloc p (s_size s) (s_used s) (s_top1 s) (s_top2 s) array bytes w
    = (poff (fst (umalloc bytes e m)), fields (m_stack (snd (umalloc bytes e m)))) /\
  src_user_free p (s_size s) (s_used s) (s_top1 s) (s_top2 s) array bytes w
    = (tt, fields (m_stack (ufree bytes e m))) /\
  src_end p (src_HEAD p) = HEAD /\ src_end p (src_TAIL p) = TAIL.
Proof.
  intros p m array bytes w Hba s e. split; [|split; [|split]].
  - exact (src_umalloc_is_model p m array bytes w Hba).
  - exact (src_ufree_is_model p m array bytes w).
  - exact (src_end_HEAD p).
  - exact (src_end_TAIL p).
Qed.

(* non-vacuity: the hypothesis of src_umalloc_is_model is satisfiable, and the generated function really computes (d precision,
   a 100-byte buffer at address 1004 = 4 mod 8 with 16 bytes taken at the head: a TAIL request of 10 bytes takes 10 + 6 and
   returns offset 84, address 1088 = 0 mod 8; a request that does not fit returns NULL and changes nothing) *)
Example src_umalloc_nonvacuous :
  let m := set_ba (set_stack init_mem (mkStack 100 16 16 100)) 4 in
  m_ba m = 1004 mod 8 /\
  gen_duser_malloc 100 16 16 100 1004 10 gen_d_TAIL = (Some 84, (100, 32, 16, 84)) /\
  poff (fst (umalloc 10 TAIL m)) = Some 84 /\
  gen_duser_malloc 100 16 16 100 1004 10 gen_d_HEAD = (Some 16, (100, 26, 26, 100)) /\
  gen_duser_malloc 100 16 16 100 1004 84 gen_d_HEAD = (None, (100, 16, 16, 100)) /\
  gen_duser_free 100 32 16 84 1004 16 gen_d_TAIL = (tt, (100, 16, 16, 100)).
Proof. vm_compute. repeat split; reflexivity. Qed.

(* ---- the model theorems restated for the source ---- *)
(* a granted block lies inside the buffer: 0 <= off and off + bytes <= size, when the stack is in a reachable state
   (stack_inv: used = top1 + (size - top2), 0 <= top1 <= top2 <= size) and 0 <= bytes *)
Lemma src_malloc_block_inside : forall (p : prec) (lwork size used top1 top2 array bytes w off : Z) (st : Z * Z * Z * Z),
  stack_inv lwork (mkStack size used top1 top2) -> 0 <= bytes ->
  src_user_malloc p size used top1 top2 array bytes w = (Some off, st) ->
  0 <= off /\ off + bytes <= lwork /\
  exists s', st = fields s' /\ stack_inv lwork s'.
Proof.
  intros p lwork size used top1 top2 array bytes w off st Hinv Hb Hsrc.
  rewrite src_user_malloc_is_model in Hsrc. unfold model_malloc in Hsrc.
  destruct (user_malloc (array mod 8) bytes (end_of (src_HEAD p) w) (mkStack size used top1 top2)) as [r s'] eqn:Hum.
  cbn [fst snd] in Hsrc. injection Hsrc as Hr Hst. subst r st.
  pose proof (user_malloc_granted _ _ _ _ _ _ Hum) as [Hnf Hcase].
  unfold stack_inv in Hinv. cbn [s_size s_used s_top1 s_top2] in Hinv.
  unfold stack_full in Hnf. cbn [s_size s_used] in Hnf.
  destruct (end_of (src_HEAD p) w).
  - destruct Hcase as [Hoff Hs']. subst off s'. cbn [s_top1 s_size s_used s_top2] in *.
    split; [lia|]. split; [lia|].
    eexists; split; [reflexivity|]. unfold stack_inv; cbn [s_size s_used s_top1 s_top2]. lia.
  - cbv zeta in Hcase. destruct Hcase as (Hex & Hnf2 & _ & Hoff & Hs'). subst off s'.
    unfold stack_full in Hnf2. cbn [s_size s_used s_top1 s_top2] in *.
    split; [lia|]. split; [lia|].
    eexists; split; [reflexivity|]. unfold stack_inv; cbn [s_size s_used s_top1 s_top2]. lia.
Qed.

(* a block granted at the TAIL end starts on an 8-byte boundary: its ADDRESS array + off is a multiple of 8 *)
Lemma src_malloc_tail_aligned : forall (p : prec) (size used top1 top2 array bytes w off : Z) (st : Z * Z * Z * Z),
  w <> src_HEAD p ->
  src_user_malloc p size used top1 top2 array bytes w = (Some off, st) ->
  (array + off) mod 8 = 0.
Proof.
  intros p size used top1 top2 array bytes w off st Hw Hsrc.
  rewrite src_user_malloc_is_model in Hsrc. unfold model_malloc in Hsrc.
  assert (He : end_of (src_HEAD p) w = TAIL).
  { unfold end_of. destruct (w =? src_HEAD p) eqn:Heq; [apply Z.eqb_eq in Heq; contradiction | reflexivity]. }
  rewrite He in Hsrc.
  destruct (user_malloc (array mod 8) bytes TAIL (mkStack size used top1 top2)) as [r s'] eqn:Hum.
  cbn [fst snd] in Hsrc. injection Hsrc as Hr Hst. subst r.
  pose proof (user_malloc_tail_aligned _ _ _ _ _ Hum) as Hal. unfold misalign in Hal.
  rewrite mod8_base. exact Hal.
Qed.
