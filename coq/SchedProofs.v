(* SchedProofs.v -- initial state, reachability, and the run-level theorems used by Properties_C03/C04 *)
From Coq Require Import ZArith List Bool Lia.
From SLU Require Import Consts SchedModel SchedBase SchedInv SchedSteps SchedCall1 SchedCall2 SchedCall3.
Import ListNotations.
Local Open Scope Z_scope.

(* ---------------- initial state ---------------- *)
Lemma nth_repeat_lt {A} (v d : A) (P i : nat) : (i < P)%nat -> nth i (repeat v P) d = v.
Proof. revert i; induction P as [|P IH]; intros [|i] H; simpl; auto; try lia. apply IH; lia. Qed.

Lemma thr_get_repeat v (P : nat) t : 0 <= t < Z.of_nat P -> thr_get (repeat v P) t = v.
Proof.
  unfold thr_get. intros H. destruct (t <? 0) eqn:E; [lia|]. apply nth_repeat_lt. lia.
Qed.

Lemma NoDup_firstn_pairwise (l : list Z) (k : nat) :
  Z.of_nat k <= lenZ l ->
  (forall i m, 0 <= m < i -> i < Z.of_nat k -> nthZ l i <> nthZ l m) ->
  NoDup (firstn k l).
Proof.
  intros Hk H. apply (NoDup_nth _ 0). intros i m Hi Hm E.
  rewrite firstn_length in Hi, Hm. unfold lenZ in Hk.
  assert (Hn : forall x, (x < k)%nat -> nth x (firstn k l) 0 = nthZ l (Z.of_nat x)).
  { intros x Hx. unfold nthZ. destruct (Z.of_nat x <? 0) eqn:E0; [lia|]. rewrite Nat2Z.id.
    rewrite <- (firstn_skipn k l) at 2. rewrite app_nth1 by (rewrite firstn_length; lia). reflexivity. }
  rewrite !Hn in E by lia.
  destruct (Nat.lt_trichotomy i m) as [Hl|[->|Hl]]; auto; exfalso.
  - apply (H (Z.of_nat m) (Z.of_nat i)); lia.
  - apply (H (Z.of_nat i) (Z.of_nat m)); lia.
Qed.

Lemma countb_pos_exists f l : 1 <= countb f l -> exists x, In x l /\ f x = true.
Proof.
  unfold countb. intros H. destruct (filter f l) as [|x r] eqn:E; [cbn in H; lia|].
  assert (Hin : In x (filter f l)) by (rewrite E; now left). apply filter_In in Hin. eauto.
Qed.

Theorem init_inv s (P : nat) : check_init s = true -> Inv (ginit s P).
Proof.
  unfold check_init. rewrite !andb_true_iff.
  intros ((((((((((((((((Hwf & L1) & L2) & L3) & L4) & L5) & Hroot) & Hall) & Hukn) & Hqh) & Hqt0) & Hqtn) & Hqc) & Hqel) & Hqnd) & Htk) & Htk1).
  apply check_wf_sound in Hwf.
  apply Z.eqb_eq in L1, L2, L3, L4, L5, Hroot, Hukn, Hqh, Hqc, Htk. apply Z.leb_le in Hqt0, Hqtn, Htk1.
  rewrite forallb_forall in Hall, Hqel, Hqnd.
  set (th := repeat (M_TEST, c_EMPTY) P).
  (* per-panel facts *)
  assert (HP : forall p, lead s p = true ->
     (regular s p -> st s p = c_UNREADY /\ 1 <= uk s p) /\ (relaxed s p -> st s p = c_CANGO) /\
     uk s p = countb (kid s p) (cols (sn s)) /\ nthZ (fb s) p = p /\
     (st s p = c_CANGO -> exists i, 0 <= i < qtail s /\ nthZ (q s) i = p)).
  { intros p Lp. pose proof (lead_range _ _ Lp) as [Rp _]. specialize (Hall p (proj2 (in_cols _ _) Rp)).
    rewrite Lp in Hall. cbn [negb orb] in Hall. rewrite !andb_true_iff in Hall.
    destruct Hall as (((A & B) & C) & D). apply Z.eqb_eq in B, C.
    split; [|split; [|split; [exact B | split; [exact C|]]]].
    - intros Rg. unfold regular in Rg. rewrite Rg, Z.eqb_refl in A. apply andb_true_iff in A. destruct A as [A1 A2].
      apply Z.eqb_eq in A1. apply Z.leb_le in A2. auto.
    - intros Rx. unfold relaxed in Rx. rewrite Rx in A.
      assert (E : c_RELAXED_SNODE =? c_REGULAR_PANEL = false) by (cs; reflexivity). rewrite E in A. now apply Z.eqb_eq.
    - intros Sg. rewrite Sg, Z.eqb_refl in D. cbn [negb orb] in D. apply existsb_exists in D.
      destruct D as (i & Hi & Ei). apply in_cols in Hi. apply Z.eqb_eq in Ei. eauto. }
  assert (Hunt : forall p, lead s p = true -> c_BUSY < st s p).
  { intros p Lp. destruct (HP p Lp) as (A & B & _). destruct (wf_types _ Hwf p Lp) as [T|T].
    - destruct (A T) as [-> _]. cs; lia.
    - rewrite (B T). cs; lia. }
  assert (HJ : forall p, lead s p = true -> st s p <= c_CANPIPE -> forall c, kid s p c = false).
  { intros p Lp Sp c. destruct (HP p Lp) as (A & B & _). destruct (wf_types _ Hwf p Lp) as [T|T].
    - destruct (A T) as [E _]. rewrite E in Sp. cs; lia.
    - now apply relaxed_no_kid. }
  unfold ginit. fold th.
  constructor; inv_unf.
  - exact Hwf.
  - repeat split; auto.
  - split; auto. intros p Lp. destruct (HP p Lp) as (A & B & _). split.
    + intros Rg. destruct (A Rg) as [-> _]. now left.
    + intros Rx. rewrite (B Rx). now left.
  - assert (Hlen : tlen th = Z.of_nat P) by (unfold tlen, th; now rewrite repeat_length).
    split; [|split].
    + intros t Ht. rewrite Hlen in Ht. unfold th. rewrite thr_get_repeat by exact Ht.
      split; [cs; lia|]. split; [cs; lia|]. intros _. now left.
    + intros t1 t2 H1 H2 _. rewrite Hlen in H1. unfold th. rewrite thr_get_repeat by exact H1. reflexivity.
    + intros p Lp Bp. pose proof (Hunt p Lp). cs; lia.
  - intros p Hp. assert (Hu : uk s p = countb (kid s p) (cols (sn s))).
    { destruct Hp as [Lp| ->]; [apply (HP p Lp) | exact Hukn]. }
    rewrite Hu. unfold ukspec. apply countb_ext. intros c Hc.
    destruct (kid s p c) eqn:K; auto. cbn [andb]. apply kid_iff in K. destruct K as [Lc _].
    unfold unrep. pose proof (Hunt c Lc) as U. apply Z.ltb_lt in U. now rewrite U.
  - intros p Lp Sp. split.
    + intros c K. rewrite (HJ p Lp Sp c) in K. discriminate.
    + intros c1 c2 K1. rewrite (HJ p Lp Sp c1) in K1. discriminate.
  - intros p Lp Dp. pose proof (Hunt p Lp). cs; lia.
  - split; [lia|]. split; [lia|]. split; [lia|]. split; [|split].
    + apply NoDup_firstn_pairwise; [rewrite Z2Nat.id by lia; lia|].
      intros i m Hm Hi. rewrite Z2Nat.id in Hi by lia.
      specialize (Hqnd m (proj2 (in_cols (qtail s) m) ltac:(lia))). rewrite forallb_forall in Hqnd.
      specialize (Hqnd i (proj2 (in_cols (qtail s) i) ltac:(lia))). apply orb_true_iff in Hqnd.
      destruct Hqnd as [H|H]; [apply Z.leb_le in H; lia|]. apply negb_true_iff in H. apply Z.eqb_neq in H. congruence.
    + intros i Hi. specialize (Hqel i (proj2 (in_cols _ _) Hi)). apply andb_true_iff in Hqel. destruct Hqel as [A B].
      split; auto. intros Rg. apply Z.eqb_eq in B. unfold regular in Rg. cs. congruence.
    + intros p Lp Sp. destruct (HP p Lp) as (A & B & _ & _ & C). destruct Sp as [Sp|Sp].
      * destruct (C Sp) as (i & Hi & Ei). exists i. split; [lia | exact Ei].
      * destruct (wf_types _ Hwf p Lp) as [T|T]; [destruct (A T) as [E _] | pose proof (B T) as E]; rewrite E in Sp; cs; lia.
  - intros p Lp Rg _. now apply (HP p Lp).
  - exact Htk.
  - split; [|intros; lia]. intros _.
    assert (Hex : exists p, lead s p = true).
    { rewrite Htk in Htk1. apply countb_pos_exists in Htk1. destruct Htk1 as (p & _ & U).
      unfold untaken in U. apply andb_true_iff in U. destruct U as [U _]. eauto. }
    destruct Hex as (p & Lp).
    apply (untaken_root s 0 s Hwf) with (m := Z.to_nat (sn s - p)) (p := p); auto.
    intros p0 L0 S0 c K. rewrite (HJ p0 L0 S0 c) in K. discriminate.
  - intros p Lp. left. destruct (HP p Lp) as (_ & _ & _ & E & _). now rewrite E.
Qed.

(* ---------------- steps and runs ---------------- *)
Theorem step_inv g l g' : Inv g -> gstep g l = Some g' -> Inv g'.
Proof.
  intros HI Hs. destruct g as [s th]. destruct l as [t|t|t]; cbn [gstep gs thr] in Hs;
    destruct (thr_get th t) as [m cur] eqn:G.
  - destruct (inb t (Z.of_nat (length th)) && (m =? M_WORK) && kids_done s cur) eqn:E; [|discriminate].
    rewrite !andb_true_iff in E. destruct E as ((E1 & E2) & E3). apply inb_true in E1. apply Z.eqb_eq in E2. subst m.
    inversion Hs; subst g'. now apply inv_finish.
  - destruct (inb t (Z.of_nat (length th)) && (m =? M_TEST)) eqn:E; [|discriminate].
    rewrite !andb_true_iff in E. destruct E as (E1 & E2). apply inb_true in E1. apply Z.eqb_eq in E2. subst m.
    inversion Hs; subst g'. now apply inv_test.
  - destruct (inb t (Z.of_nat (length th)) && (m =? M_READY)) eqn:E; [|discriminate].
    rewrite !andb_true_iff in E. destruct E as (E1 & E2). apply inb_true in E1. apply Z.eqb_eq in E2. subst m.
    destruct (sched s cur) as [[s' j] b] eqn:Es. inversion Hs; subst g'.
    apply (inv_call s th t cur HI E1 G s' j b Es).
Qed.

Theorem run_inv ls : forall g g', Inv g -> grun g ls = Some g' -> Inv g'.
Proof.
  induction ls as [|l r IH]; intros g g' HI Hr; cbn [grun] in Hr.
  - inversion Hr; now subst.
  - destruct (gstep g l) as [g1|] eqn:E; [|discriminate]. eapply IH; [|exact Hr]. eapply step_inv; eauto.
Qed.

Definition reachable (s0 : sstate) (P : nat) (g : gstate) : Prop :=
  check_init s0 = true /\ exists ls, grun (ginit s0 P) ls = Some g.

Theorem reachable_inv s0 P g : reachable s0 P g -> Inv g.
Proof. intros [Hc (ls & Hr)]. eapply run_inv; [apply init_inv; exact Hc | exact Hr]. Qed.

(* ---------------- C04: queue bounds, tasks_remain, each panel once ---------------- *)
Theorem queue_bounds s0 P g : reachable s0 P g ->
  0 <= qhead (gs g) <= qtail (gs g) /\ qtail (gs g) <= sn (gs g) /\ qcount (gs g) = qtail (gs g) - qhead (gs g).
Proof. intros R. apply reachable_inv in R. destruct (inv_queue _ R) as (A & B & C & _). lia. Qed.

Theorem tasks_remain_exact s0 P g : reachable s0 P g ->
  tasks (gs g) = tasks_spec (gs g) /\
  (tasks (gs g) = 0 <-> forall p, lead (gs g) p = true -> st (gs g) p <= c_BUSY).
Proof.
  intros R. apply reachable_inv in R. pose proof (inv_tasks _ R) as T. unfold I_tasks in T. split; auto.
  rewrite T. unfold tasks_spec. split.
  - intros Z0 p Lp. pose proof (lead_range _ _ Lp) as [Rp _].
    pose proof (countb_zero _ _ Z0 p (proj2 (in_cols _ _) Rp)) as U. unfold untaken in U. rewrite Lp in U. cbn in U.
    apply Z.ltb_ge in U. exact U.
  - intros H. destruct (Z.eq_dec (countb (untaken (gs g)) (cols (sn (gs g)))) 0) as [|Hn]; auto.
    pose proof (countb_nonneg (untaken (gs g)) (cols (sn (gs g)))).
    destruct (countb_pos_exists (untaken (gs g)) (cols (sn (gs g))) ltac:(lia)) as (p & _ & U).
    unfold untaken in U. apply andb_true_iff in U. destruct U as [L U]. apply Z.ltb_lt in U. specialize (H p L). lia.
Qed.

(* panels handed out along a run are pairwise distinct, and each was untaken until then *)
Lemma step_untaken_mono g l g' p : Inv g -> gstep g l = Some g' -> untaken (gs g') p = true -> untaken (gs g) p = true.
Proof.
  intros HI Hs. destruct g as [s th]. destruct l as [t|t|t]; cbn [gstep gs thr] in Hs;
    destruct (thr_get th t) as [m cur] eqn:G.
  - destruct (inb t (Z.of_nat (length th)) && (m =? M_WORK) && kids_done s cur) eqn:E; [|discriminate].
    rewrite !andb_true_iff in E. destruct E as ((E1 & E2) & E3). apply inb_true in E1. apply Z.eqb_eq in E2. subst m.
    inversion Hs; subst g'. cbn [gs]. unfold untaken.
    rewrite (fr_lead _ _ (fin_static s cur)), (fin_st s th t cur HI E1 G).
    destruct (lead s p); auto. cbn [andb]. destruct (p =? cur); [cs; discriminate | auto].
  - destruct (inb t (Z.of_nat (length th)) && (m =? M_TEST)) eqn:E; [|discriminate]. inversion Hs; subst g'. auto.
  - destruct (inb t (Z.of_nat (length th)) && (m =? M_READY)) eqn:E; [|discriminate].
    rewrite !andb_true_iff in E. destruct E as (E1 & E2). apply inb_true in E1. apply Z.eqb_eq in E2. subst m.
    destruct (sched s cur) as [[s' j] b] eqn:Es. inversion Hs; subst g'. cbn [gs].
    destruct (inv_call s th t cur HI E1 G s' j b Es) as (_ & _ & _ & A & B).
    destruct (Z.eq_dec j c_EMPTY) as [Hj|Hj].
    + now rewrite (A Hj p).
    + destruct (B Hj) as (_ & _ & _ & U). rewrite (U p). destruct (p =? j); [discriminate | auto].
Qed.

Theorem taken_once ls : forall g, Inv g ->
  NoDup (gtaken g ls) /\ forall p, In p (gtaken g ls) -> untaken (gs g) p = true.
Proof.
  induction ls as [|l r IH]; intros g HI; cbn [gtaken].
  - split; [constructor | intros p []].
  - destruct (gstep g l) as [g'|] eqn:Es; [|split; [constructor | intros p []]].
    pose proof (step_inv _ _ _ HI Es) as HI'. destruct (IH g' HI') as [ND Hu].
    assert (Hrest : forall p, In p (gtaken g' r) -> untaken (gs g) p = true).
    { intros p Hp. eapply step_untaken_mono; eauto. }
    destruct l as [t|t|t]; cbn [app]; try solve [split; auto].
    destruct (snd (thr_get (thr g') t) =? c_EMPTY) eqn:Ej; cbn [app]; [split; auto|].
    (* the call handed out panel j *)
    destruct g as [s th]. cbn [gstep gs thr] in Es. destruct (thr_get th t) as [m cur] eqn:G.
    destruct (inb t (Z.of_nat (length th)) && (m =? M_READY)) eqn:E; [|discriminate].
    rewrite !andb_true_iff in E. destruct E as (E1 & E2). apply inb_true in E1. apply Z.eqb_eq in E2. subst m.
    destruct (sched s cur) as [[s' j] b] eqn:Esch. inversion Es; subst g'. cbn [gs thr] in *.
    rewrite thr_get_upd, Z.eqb_refl in Ej |- * by exact E1. cbn [snd] in Ej |- *.
    apply Z.eqb_neq in Ej.
    destruct (inv_call s th t cur HI E1 G s' j b Esch) as (_ & _ & _ & _ & B).
    destruct (B Ej) as (_ & Uj & _ & U).
    split.
    + constructor; auto. intros Hin. specialize (Hu j Hin). rewrite (U j), Z.eqb_refl in Hu. discriminate.
    + intros p [<-|Hp]; auto.
Qed.

Theorem each_panel_at_most_once s0 P ls : check_init s0 = true -> NoDup (gtaken (ginit s0 P) ls).
Proof. intros Hc. apply taken_once. now apply init_inv. Qed.

(* ---------------- progress at the level of the scheduler protocol ---------------- *)
(* among the working threads the one with the smallest panel has all its children DONE: it can finish *)
Theorem some_worker_can_finish g :
  Inv g -> (exists t, 0 <= t < tlen (thr g) /\ fst (thr_get (thr g) t) = M_WORK) ->
  exists t, 0 <= t < tlen (thr g) /\ gstep g (LFinish t) <> None.
Proof.
  intros HI. destruct g as [s th]. cbn [gs thr]. use_inv HI.
  assert (Hmin : forall (k : nat) t, 0 <= t < tlen th -> fst (thr_get th t) = M_WORK -> (Z.to_nat (snd (thr_get th t)) <= k)%nat ->
            exists t', 0 <= t' < tlen th /\ fst (thr_get th t') = M_WORK /\ kids_done s (snd (thr_get th t')) = true).
  { induction k as [|k IHk]; intros t Ht Hm Hk.
    - (* panel 0 has no children *)
      exists t. split; auto. split; auto. destruct ITHREADS as (A & _). specialize (A t Ht).
      destruct (thr_get th t) as [m c]. cbn [fst snd] in *. subst m. destruct A as (_ & A2 & _). destruct (A2 eq_refl) as [Lc _].
      unfold kids_done. apply forallb_forall. intros c0 Hc0. apply in_cols in Hc0.
      destruct (lead s c0 && (dadpanel s c0 =? c)) eqn:K; auto. exfalso.
      assert (K' : kid s c c0 = true) by exact K. pose proof (kid_lt _ _ _ IWF K'). apply lead_range in Lc. lia.
    - destruct (kids_done s (snd (thr_get th t))) eqn:Kd; [exists t; auto|].
      (* some child c0 is not DONE; it is BUSY, held by a worker with a smaller panel *)
      destruct ITHREADS as (A & _ & C). pose proof (A t Ht) as At.
      destruct (thr_get th t) as [m c] eqn:G. cbn [fst snd] in *. subst m. destruct At as (_ & A2 & _). destruct (A2 eq_refl) as [Lc Bc].
      unfold kids_done in Kd. apply not_true_iff_false in Kd. rewrite forallb_forall in Kd.
      assert (Hex : exists c0, kid s c c0 = true /\ st s c0 <> c_DONE).
      { destruct (existsb (fun c0 => lead s c0 && (dadpanel s c0 =? c) && negb (st s c0 =? c_DONE)) (cols (sn s))) eqn:Ex.
        - apply existsb_exists in Ex. destruct Ex as (c0 & _ & Ex). rewrite !andb_true_iff in Ex. destruct Ex as [K N].
          exists c0. split; [unfold kid; now apply andb_true_iff|]. apply negb_true_iff in N. now apply Z.eqb_neq.
        - exfalso. apply Kd. intros c0 Hc0. rewrite <- not_true_iff_false in Ex. rewrite existsb_exists in Ex.
          destruct (lead s c0 && (dadpanel s c0 =? c)) eqn:K; auto. cbn [negb orb].
          destruct (st s c0 =? c_DONE) eqn:Sd; auto. exfalso. apply Ex. exists c0. split; auto. now rewrite K, Sd. }
      destruct Hex as (c0 & K0 & N0).
      assert (Sc : st s c <= c_CANPIPE) by (rewrite Bc; cs; lia).
      destruct (IJ c Lc Sc) as [J1 _]. specialize (J1 c0 K0).
      pose proof (proj1 (kid_iff _ _ _) K0) as [L0 _].
      destruct ISTATES as (_ & IS). destruct (IS c0 L0) as [S1 S2].
      assert (B0 : st s c0 = c_BUSY).
      { destruct (wf_types _ IWF c0 L0) as [T|T]; [destruct (S1 T) as [|[|[|]]] | destruct (S2 T) as [|[|]]]; cs; lia. }
      destruct (C c0 L0 B0) as (t0 & H0 & G0).
      apply (IHk t0); auto; rewrite G0; auto. cbn [snd].
      pose proof (kid_lt _ _ _ IWF K0). apply lead_range in L0. lia. }
  intros (t & Ht & Hm).
  destruct (Hmin (Z.to_nat (snd (thr_get th t))) t Ht Hm ltac:(lia)) as (t' & Ht' & Hm' & Kd).
  exists t'. split; auto. cbn [gstep gs thr]. destruct (thr_get th t') as [m c]. cbn [fst snd] in *. subst m.
  assert (E : inb t' (Z.of_nat (length th)) = true) by (apply inb_true; exact Ht').
  rewrite E, Z.eqb_refl, Kd. cbn. discriminate.
Qed.

(* no state of the protocol is stuck before every thread has left the loop *)
Theorem no_stuck_state g :
  Inv g -> (exists t, 0 <= t < tlen (thr g) /\ fst (thr_get (thr g) t) <> M_EXIT) ->
  exists l, gstep g l <> None.
Proof.
  intros HI (t & Ht & Hm). pose proof (inv_threads _ HI) as IT. destruct IT as (A & _).
  pose proof (A t Ht) as At. destruct (thr_get (thr g) t) as [m c] eqn:G. cbn [fst] in Hm. destruct At as (Am & _).
  assert (E : inb t (Z.of_nat (length (thr g))) = true) by (apply inb_true; exact Ht).
  destruct Am as [ -> | [ -> | [ -> | -> ] ] ]; [| | |congruence].
  - destruct (some_worker_can_finish g HI) as (t' & _ & H); [exists t; split; auto; now rewrite G|]. eauto.
  - exists (LTest t). cbn [gstep]. rewrite G, E, Z.eqb_refl. cbn. discriminate.
  - exists (LCall t). cbn [gstep]. rewrite G, E, Z.eqb_refl. cbn. destruct (sched (gs g) c) as [[s' j] b]. discriminate.
Qed.

(* every panel that became taken during a run was handed out by a scheduler call of that run *)
Theorem taken_are_listed ls : forall g g', Inv g -> grun g ls = Some g' ->
  forall p, untaken (gs g) p = true -> untaken (gs g') p = false -> In p (gtaken g ls).
Proof.
  induction ls as [|l r IH]; intros g g' HI Hr p U0 U1; cbn [grun] in Hr.
  - inversion Hr; subst. congruence.
  - cbn [gtaken]. destruct (gstep g l) as [g1|] eqn:Es; [|discriminate].
    pose proof (step_inv _ _ _ HI Es) as HI1.
    destruct (untaken (gs g1) p) eqn:U.
    + apply in_or_app. right. eapply IH; eauto.
    + apply in_or_app. left.
      destruct g as [s th]. destruct l as [t|t|t]; cbn [gstep gs thr] in Es; destruct (thr_get th t) as [m cur] eqn:G.
      * destruct (inb t (Z.of_nat (length th)) && (m =? M_WORK) && kids_done s cur) eqn:E; [|discriminate].
        rewrite !andb_true_iff in E. destruct E as ((E1 & E2) & E3). apply inb_true in E1. apply Z.eqb_eq in E2. subst m.
        inversion Es; subst g1. cbn [gs] in *. exfalso. unfold untaken in U0, U.
        rewrite (fr_lead _ _ (fin_static s cur)), (fin_st s th t cur HI E1 G) in U.
        apply andb_true_iff in U0. destruct U0 as [L U0]. rewrite L in U. cbn [andb] in U.
        destruct (p =? cur) eqn:Ep; [|congruence]. apply Z.eqb_eq in Ep. subst p.
        destruct (fin_cur s th t cur HI E1 G) as [_ B]. rewrite B in U0. cs. discriminate.
      * destruct (inb t (Z.of_nat (length th)) && (m =? M_TEST)) eqn:E; [|discriminate]. inversion Es; subst g1. cbn [gs] in *. congruence.
      * destruct (inb t (Z.of_nat (length th)) && (m =? M_READY)) eqn:E; [|discriminate].
        rewrite !andb_true_iff in E. destruct E as (E1 & E2). apply inb_true in E1. apply Z.eqb_eq in E2. subst m.
        destruct (sched s cur) as [[s' j] b] eqn:Esch. inversion Es; subst g1. cbn [gs thr] in *.
        rewrite thr_get_upd, Z.eqb_refl by exact E1. cbn [snd].
        destruct (inv_call s th t cur HI E1 G s' j b Esch) as (_ & _ & _ & A & B).
        destruct (j =? c_EMPTY) eqn:Ej.
        { apply Z.eqb_eq in Ej. rewrite (A Ej p) in U. congruence. }
        apply Z.eqb_neq in Ej. destruct (B Ej) as (_ & _ & _ & Up). rewrite (Up p) in U.
        destruct (p =? j) eqn:Ep; [apply Z.eqb_eq in Ep; subst; now left | congruence].
Qed.

Lemma countb_le f g l : (forall x, g x = true -> f x = true) -> countb g l <= countb f l.
Proof.
  unfold countb. intros H. induction l as [|a t IH]; cbn [filter length]; [lia|].
  destruct (g a) eqn:Eg.
  - rewrite (H a Eg). cbn [length]. lia.
  - destruct (f a); cbn [length]; lia.
Qed.

Lemma step_tasks_mono g l g' : Inv g -> gstep g l = Some g' -> tasks (gs g') <= tasks (gs g).
Proof.
  intros HI Hs. pose proof (step_inv _ _ _ HI Hs) as HI'.
  rewrite (inv_tasks _ HI), (inv_tasks _ HI'). unfold tasks_spec.
  assert (Hn : sn (gs g') = sn (gs g)).
  { destruct g as [s th]. destruct l as [t|t|t]; cbn [gstep gs thr] in Hs; destruct (thr_get th t) as [m cur] eqn:G.
    - destruct (_ && _ && _); [|discriminate]. inversion Hs; subst. reflexivity.
    - destruct (_ && _); [|discriminate]. inversion Hs; subst. reflexivity.
    - destruct (inb t (Z.of_nat (length th)) && (m =? M_READY)) eqn:E; [|discriminate].
      rewrite !andb_true_iff in E. destruct E as (E1 & E2). apply inb_true in E1. apply Z.eqb_eq in E2. subst m.
      destruct (sched s cur) as [[s' j] b] eqn:Esch. inversion Hs; subst. cbn [gs].
      destruct (inv_call s th t cur HI E1 G s' j b Esch) as (_ & _ & FS & _). now destruct FS. }
  rewrite Hn. apply countb_le. intros x. eapply step_untaken_mono; eauto.
Qed.

Definition ExitOK (g : gstate) : Prop :=
  forall t, 0 <= t < tlen (thr g) -> fst (thr_get (thr g) t) = M_EXIT -> tasks (gs g) <= 0.

Lemma step_exitok g l g' : Inv g -> ExitOK g -> gstep g l = Some g' -> ExitOK g'.
Proof.
  intros HI HE Hs. pose proof (step_tasks_mono _ _ _ HI Hs) as Hm. intros t0 H0 M0.
  destruct g as [s th]. destruct l as [t|t|t]; cbn [gstep gs thr] in Hs; destruct (thr_get th t) as [m cur] eqn:G.
  - destruct (inb t (Z.of_nat (length th)) && (m =? M_WORK) && kids_done s cur) eqn:E; [|discriminate].
    rewrite !andb_true_iff in E. destruct E as ((E1 & E2) & E3). apply inb_true in E1.
    inversion Hs; subst g'. cbn [gs thr] in *. rewrite tlen_upd in H0. rewrite thr_get_upd in M0 by exact E1.
    destruct (t0 =? t); [cbn in M0; cs; lia|]. specialize (HE t0 H0 M0). cbn [gs] in HE. lia.
  - destruct (inb t (Z.of_nat (length th)) && (m =? M_TEST)) eqn:E; [|discriminate].
    rewrite !andb_true_iff in E. destruct E as (E1 & E2). apply inb_true in E1.
    inversion Hs; subst g'. cbn [gs thr] in *. rewrite tlen_upd in H0. rewrite thr_get_upd in M0 by exact E1.
    destruct (t0 =? t).
    + cbn [fst] in M0. destruct (0 <? tasks s) eqn:Et; [cs; lia|]. apply Z.ltb_ge in Et. exact Et.
    + specialize (HE t0 H0 M0). exact HE.
  - destruct (inb t (Z.of_nat (length th)) && (m =? M_READY)) eqn:E; [|discriminate].
    rewrite !andb_true_iff in E. destruct E as (E1 & E2). apply inb_true in E1.
    destruct (sched s cur) as [[s' j] b] eqn:Esch. inversion Hs; subst g'. cbn [gs thr] in *.
    rewrite tlen_upd in H0. rewrite thr_get_upd in M0 by exact E1.
    destruct (t0 =? t); [cbn [fst] in M0; destruct (j =? c_EMPTY); cs; lia|].
    specialize (HE t0 H0 M0). cbn [gs] in HE. lia.
Qed.

Lemma run_exitok ls : forall g g', Inv g -> ExitOK g -> grun g ls = Some g' -> ExitOK g'.
Proof.
  induction ls as [|l r IH]; intros g g' HI HE Hr; cbn [grun] in Hr.
  - inversion Hr; now subst.
  - destruct (gstep g l) as [g1|] eqn:E; [|discriminate]. eapply IH; [| |exact Hr].
    + eapply step_inv; eauto.
    + eapply step_exitok; eauto.
Qed.

Lemma exit_implies_no_tasks s0 (P : nat) ls g :
  check_init s0 = true -> grun (ginit s0 P) ls = Some g -> (0 < P)%nat ->
  (forall t, 0 <= t < tlen (thr g) -> fst (thr_get (thr g) t) = M_EXIT) -> 0 < tasks (gs g) -> False.
Proof.
  intros Hc Hr HP Hex Hpos.
  assert (HE0 : ExitOK (ginit s0 P)).
  { intros t Ht M. cbn [ginit thr] in *. unfold tlen in Ht. rewrite repeat_length in Ht.
    rewrite thr_get_repeat in M by lia. cbn in M. cs. lia. }
  pose proof (run_exitok ls _ _ (init_inv s0 P Hc) HE0 Hr) as HE.
  assert (Hlen : tlen (thr g) = Z.of_nat P).
  { clear - Hr. assert (forall ls g g', grun g ls = Some g' -> tlen (thr g') = tlen (thr g)).
    { clear. induction ls as [|l r IH]; intros g0 g' H; cbn [grun] in H; [inversion H; subst; reflexivity|].
      destruct (gstep g0 l) as [g1|] eqn:E; [|discriminate]. rewrite (IH _ _ H).
      destruct g0 as [s th]. destruct l as [t|t|t]; cbn [gstep gs thr] in E; destruct (thr_get th t) as [m cur].
      - destruct (_ && _ && _); [|discriminate]. inversion E; subst. cbn [thr]. apply tlen_upd.
      - destruct (_ && _); [|discriminate]. inversion E; subst. cbn [thr]. apply tlen_upd.
      - destruct (_ && _); [|discriminate]. destruct (sched s cur) as [[s' j] b]. inversion E; subst. cbn [thr]. apply tlen_upd. }
    rewrite (H _ _ _ Hr). cbn [ginit thr]. unfold tlen. now rewrite repeat_length. }
  specialize (HE 0 ltac:(lia) (Hex 0 ltac:(lia))). lia.
Qed.

(* a complete run (every thread has left its loop) hands out every panel exactly once *)
Theorem complete_run_each_panel_exactly_once s0 P ls g :
  check_init s0 = true -> grun (ginit s0 P) ls = Some g -> (0 < P)%nat ->
  (forall t, 0 <= t < tlen (thr g) -> fst (thr_get (thr g) t) = M_EXIT) ->
  NoDup (gtaken (ginit s0 P) ls) /\
  forall p, lead s0 p = true <-> In p (gtaken (ginit s0 P) ls).
Proof.
  intros Hc Hr HP Hex. pose proof (init_inv s0 P Hc) as HI0.
  destruct (taken_once ls _ HI0) as [ND Hu]. split; auto.
  intros p. split; [|intros Hin; specialize (Hu p Hin); cbn [gs ginit] in Hu; unfold untaken in Hu; apply andb_true_iff in Hu; tauto].
  intros Lp.
  (* a thread exits only after reading tasks_remain <= 0, and tasks_remain never grows back *)
  pose proof (run_inv ls _ _ HI0 Hr) as HI.
  apply (taken_are_listed ls _ _ HI0 Hr).
  - cbn [gs ginit]. unfold untaken. rewrite Lp. cbn [andb].
    pose proof (init_inv s0 0 Hc) as H00. clear H00.
    unfold check_init in Hc. rewrite !andb_true_iff in Hc.
    destruct Hc as ((((((((((((((((Hwf & _) & _) & _) & _) & _) & _) & Hall) & _) & _) & _) & _) & _) & _) & _) & _) & _).
    rewrite forallb_forall in Hall. pose proof (lead_range _ _ Lp) as [Rp _].
    specialize (Hall p (proj2 (in_cols _ _) Rp)). rewrite Lp in Hall. cbn [negb orb] in Hall. rewrite !andb_true_iff in Hall.
    destruct Hall as (((A & _) & _) & _).
    destruct (nthZ (ptype s0) p =? c_REGULAR_PANEL).
    + apply andb_true_iff in A. destruct A as [A _]. apply Z.eqb_eq in A. rewrite A. cs. reflexivity.
    + apply Z.eqb_eq in A. rewrite A. cs. reflexivity.
  - (* all panels are taken at the end: otherwise tasks > 0 and some child of the root is untaken ... we use
       the root clause: tasks <= 0 is forced by an exited thread *)
    destruct (untaken (gs g) p) eqn:U; auto. exfalso.
    pose proof (inv_tasks _ HI) as IT. unfold I_tasks in IT.
    assert (Hpos : 0 < tasks (gs g)).
    { rewrite IT. unfold tasks_spec. unfold untaken in U. apply andb_true_iff in U. destruct U as [L U].
      assert (L' := L). apply lead_range in L'. destruct L' as [Rp _].
      pose proof (countb_pos (untaken (gs g)) (cols (sn (gs g))) p (proj2 (in_cols _ _) Rp)) as X.
      unfold untaken in X at 1. rewrite L, U in X. specialize (X eq_refl). lia. }
    (* an untaken child r of the root exists; the root's ukids counts it; nobody is left to take it, but that is
       not a contradiction by itself -- the contradiction is that an EXIT thread saw tasks <= 0 and tasks never
       increases.  We carry this as a separate monotonicity lemma below. *)
    apply (exit_implies_no_tasks _ _ _ _ Hc Hr HP Hex). exact Hpos.
Qed.

(* ---------------- non-vacuity: a concrete forest, its initial state and a complete run ---------------- *)
Definition labels_for (P : nat) : list label :=
  flat_map (fun t => [LCall (Z.of_nat t); LTest (Z.of_nat t); LFinish (Z.of_nat t)]) (seq 0 P).
Fixpoint first_enabled (g : gstate) (ls : list label) : option (label * gstate) :=
  match ls with
  | [] => None
  | l :: r => match gstep g l with Some g' => Some (l, g') | None => first_enabled g r end
  end.
Fixpoint auto_run (fuel : nat) (P : nat) (g : gstate) : list label * gstate :=
  match fuel with
  | O => ([], g)
  | S f => match first_enabled g (labels_for P) with
           | Some (l, g') => let '(ls, gf) := auto_run f P g' in (l :: ls, gf)
           | None => ([], g)
           end
  end.
Definition all_exit (g : gstate) : bool := forallb (fun mc => fst mc =? M_EXIT) (thr g).

Definition ex_forest : list Z := [1; 2; 5; 4; 5; 8; 7; 8; 9].   (* two branches meeting at 5, chain above, n = 9 *)
Definition ex_init : sstate := parallel_init 9 ex_forest 2 1.

Example ex_init_ok : check_init ex_init = true.
Proof. vm_compute. reflexivity. Qed.

Example ex_complete_run :
  let '(ls, g) := auto_run 400 2 (ginit ex_init 2) in
  grun (ginit ex_init 2) ls = Some g /\ all_exit g = true /\ tasks (gs g) = 0 /\
  length (gtaken (ginit ex_init 2) ls) = 9%nat.
Proof. vm_compute. repeat split; reflexivity. Qed.
