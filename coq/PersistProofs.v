(* PersistProofs.v -- lemmas about PersistModel.v (properties C08 and C18) *)
From Coq Require Import ZArith List Bool Lia.
From SLU Require Import Consts PersistModel.
Import ListNotations.
Local Open Scope Z_scope.

(* ====================================================================== part 1: which state a first factorization reads *)

(* The fields p?gstrf_expand, ?user_malloc, p?gstrf_WorkInit ... read. *)
Definition core (s : pstate) := (ps_which s, ps_stack s, ps_no_expand s, ps_ndim s).

Lemma core_set_exp : forall s al a b c d st, core (set_exp s al a b c d st) = core s.
Proof. reflexivity. Qed.
Lemma core_set_exp_size : forall s t len, core (set_exp_size s t len) = core s.
Proof. intros s t len; unfold set_exp_size; repeat (destruct (_ =? _)); reflexivity. Qed.
Lemma core_set_glu : forall s g, core (set_glu s g) = core s.
Proof. reflexivity. Qed.
Lemma core_bind_glu : forall s st a b c, core (bind_glu s st a b c) = core s.
Proof. reflexivity. Qed.
Lemma core_set_bmod : forall s f a b, core (set_bmod s f a b) = core s.
Proof. reflexivity. Qed.

Lemma core_inv : forall s1 s2, core s1 = core s2 ->
  ps_which s1 = ps_which s2 /\ ps_stack s1 = ps_stack s2 /\ ps_no_expand s1 = ps_no_expand s2 /\ ps_ndim s1 = ps_ndim s2.
Proof. unfold core; intros s1 s2 H; inversion H; auto. Qed.

(* two states agree on everything the allocation code can read: the user stack only matters in user mode *)
Definition ceq (s1 s2 : pstate) : Prop :=
  ps_which s1 = ps_which s2 /\ ps_no_expand s1 = ps_no_expand s2 /\ ps_ndim s1 = ps_ndim s2 /\
  ((ps_which s1 =? SYSTEM) = false -> ps_stack s1 = ps_stack s2).

Lemma ceq_cong : forall s1 s2 t1 t2, core t1 = core s1 -> core t2 = core s2 -> ceq s1 s2 -> ceq t1 t2.
Proof.
  intros s1 s2 t1 t2 H1 H2 (A & B & C & D). apply core_inv in H1, H2.
  destruct H1 as (a1 & b1 & c1 & d1), H2 as (a2 & b2 & c2 & d2). unfold ceq. rewrite a1, a2, b1, b2, c1, c2, d1, d2. auto.
Qed.

Lemma ceq_set_stack : forall s1 s2 k, ceq s1 s2 -> ceq (set_stack s1 k) (set_stack s2 k).
Proof. intros s1 s2 k (A & B & C & D); unfold ceq; simpl; auto. Qed.

(* result of expand up to the parts of the state nobody reads *)
Definition xres_eq (r1 r2 : xres) : Prop :=
  match r1, r2 with
  | XOk s1 p1 l1, XOk s2 p2 l2 => ceq s1 s2 /\ p1 = p2 /\ l1 = l2
  | XUnmodelled, XUnmodelled => True
  | _, _ => False
  end.

Lemma expand_core : forall s1 s2 prev t keep dword fresh ok,
  ceq s1 s2 -> xres_eq (expand s1 prev t keep dword fresh ok) (expand s2 prev t keep dword fresh ok).
Proof.
  intros s1 s2 prev t keep dword fresh ok H.
  pose proof H as (Hw & Hn & Hd & Hk).
  unfold expand. rewrite Hn, Hw.
  destruct (negb ((ps_no_expand s2 =? 0) || (keep =? 1))); [exact I|].
  destruct (ps_which s2 =? SYSTEM) eqn:EW.
  - destruct (negb (ps_no_expand s2 =? 0)); [exact I|].
    destruct ok; simpl; (split; [|split; reflexivity]);
      (eapply ceq_cong; [| |exact H]; rewrite ?core_set_exp_size, ?core_set_exp; reflexivity).
  - destruct (negb (ps_no_expand s2 =? 0)); [exact I|].
    rewrite Hk by (rewrite Hw; exact EW).
    destruct (user_malloc (ps_stack s2) (prev * lword_of t dword) HEAD) as [r k1].
    destruct r as [off|].
    + destruct (negb (off mod 8 =? 0) && ((t =? c_LUSUP) || (t =? c_UCOL))); simpl; (split; [|split; reflexivity]);
        (eapply ceq_cong; [rewrite core_set_exp_size, core_set_exp; reflexivity|rewrite core_set_exp_size, core_set_exp; reflexivity|
                           apply ceq_set_stack; exact H]).
    + simpl; (split; [|split; reflexivity]). eapply ceq_cong; [rewrite core_set_exp_size; reflexivity|rewrite core_set_exp_size; reflexivity|apply ceq_set_stack; exact H].
Qed.

(* expand never changes the space selector *)
Lemma which_set_exp_size : forall x t0 len, ps_which (set_exp_size x t0 len) = ps_which x.
Proof. intros x t0 len; unfold set_exp_size; repeat destruct (_ =? _); reflexivity. Qed.

Lemma expand_which : forall s prev t keep dword fresh ok s' p l,
  expand s prev t keep dword fresh ok = XOk s' p l -> ps_which s' = ps_which s.
Proof.
  intros s prev t keep dword fresh ok s' p l. unfold expand.
  destruct (negb ((ps_no_expand s =? 0) || (keep =? 1))); [discriminate|].
  destruct (ps_which s =? SYSTEM).
  - destruct (negb (ps_no_expand s =? 0)); [discriminate|].
    destruct ok; intros H; inversion H; subst; rewrite which_set_exp_size; reflexivity.
  - destruct (negb (ps_no_expand s =? 0)); [discriminate|].
    destruct (user_malloc (ps_stack s) (prev * lword_of t dword) HEAD) as [r k1]. destruct r as [off|].
    + destruct (negb (off mod 8 =? 0) && ((t =? c_LUSUP) || (t =? c_UCOL))); intros H; inversion H; subst;
        rewrite which_set_exp_size; reflexivity.
    + intros H; inversion H; subst. rewrite which_set_exp_size. reflexivity.
Qed.

(* same shape for the retry loop *)
Definition retry_eq (r1 r2 : option (pstate * option Z * option Z * option Z * Z * Z) + mres) : Prop :=
  match r1, r2 with
  | inl (Some (s1, a1, b1, c1, x1, y1)), inl (Some (s2, a2, b2, c2, x2, y2)) =>
      ceq s1 s2 /\ a1 = a2 /\ b1 = b2 /\ c1 = c2 /\ x1 = x2 /\ y1 = y2
  | inl None, inl None => True
  | inr (MFail s1 v1), inr (MFail s2 v2) => ceq s1 s2 /\ v1 = v2
  | inr MUnmodelled, inr MUnmodelled => True
  | inr MDiverge, inr MDiverge => True
  | _, _ => False
  end.

Lemma retry_core : forall fuel s1 s2 a u l us nzl nzu nzlu rt1 ru1 rt2 ru2 ok,
  ceq s1 s2 -> ((ps_which s1 =? SYSTEM) = false -> rt1 = rt2 /\ ru1 = ru2) ->
  retry_eq (retry_loop fuel s1 a u l us nzl nzu nzlu rt1 ru1 ok) (retry_loop fuel s2 a u l us nzl nzu nzlu rt2 ru2 ok).
Proof.
  induction fuel as [|f IH]; intros s1 s2 a u l us nzl nzu nzlu rt1 ru1 rt2 ru2 ok H HR.
  - simpl. destruct (is_some u && is_some l && is_some us); simpl; auto 10.
  - cbn [retry_loop].
    destruct (is_some u && is_some l && is_some us); [simpl; auto 10|].
    pose proof H as (Hw & Hn & Hd & Hk).
    rewrite Hw in HR. rewrite Hw.
    set (s1' := if ps_which s2 =? SYSTEM then s1 else _).
    set (s2' := if ps_which s2 =? SYSTEM then s2 else _).
    assert (Hc : ceq s1' s2').
    { subst s1' s2'. destruct (ps_which s2 =? SYSTEM) eqn:EW; [assumption|].
      destruct (HR eq_refl) as [-> ->].
      rewrite Hk by (rewrite Hw; exact EW). apply ceq_set_stack; assumption. }
    assert (HR' : (ps_which s1' =? SYSTEM) = false -> rt1 = rt2 /\ ru1 = ru2).
    { pose proof Hc as (Hw' & _). subst s1' s2'. destruct (ps_which s2 =? SYSTEM) eqn:EW.
      - rewrite Hw, EW. discriminate.
      - intros _. apply HR. reflexivity. }
    pose proof Hc as (_ & _ & Hd' & _).
    destruct ((Z.quot nzu 2 <? Z.quot (fa_annz a) 2) || (Z.quot nzu 2 <? 1)).
    + simpl. rewrite Hd'. auto.
    + pose proof (expand_core s1' s2' (Z.quot nzu 2) c_UCOL 0 (fa_dword a) (fa_fresh a) ok Hc) as E1.
      destruct (expand s1' _ c_UCOL _ _ _ _) as [t1 p1 l1|] eqn:Q1; destruct (expand s2' _ c_UCOL _ _ _ _) as [t2 p2 l2|]; simpl in E1; try contradiction; [|exact I].
      destruct E1 as (E1 & -> & ->).
      pose proof (expand_core t1 t2 (Z.quot nzl 2) c_LSUB 0 (fa_dword a) (fa_fresh a) ok E1) as E2.
      destruct (expand t1 _ c_LSUB _ _ _ _) as [t3 p3 l3|] eqn:Q2; destruct (expand t2 _ c_LSUB _ _ _ _) as [t4 p4 l4|]; simpl in E2; try contradiction; [|exact I].
      destruct E2 as (E2 & -> & ->).
      pose proof (expand_core t3 t4 l2 c_USUB 1 (fa_dword a) (fa_fresh a) ok E2) as E3.
      destruct (expand t3 _ c_USUB _ _ _ _) as [t5 p5 l5|] eqn:Q3; destruct (expand t4 _ c_USUB _ _ _ _) as [t6 p6 l6|]; simpl in E3; try contradiction; [|exact I].
      destruct E3 as (E3 & -> & ->).
      apply IH; [assumption|].
      apply expand_which in Q1, Q2, Q3. rewrite Q3, Q2, Q1. exact HR'.
Qed.

(* the threads' work arrays *)
Definition wres_eq (r1 r2 : wres) : Prop :=
  match r1, r2 with
  | WOk s1, WOk s2 => ceq s1 s2
  | WFail s1 v1, WFail s2 v2 => ceq s1 s2 /\ v1 = v2
  | _, _ => False
  end.

Lemma work_init_one_core : forall s1 s2 a, ceq s1 s2 -> wres_eq (work_init_one s1 a) (work_init_one s2 a).
Proof.
  intros s1 s2 a H. pose proof H as (Hw & Hn & Hd & Hk).
  unfold work_init_one. destruct (work_sizes a) as [isz dsz]. rewrite Hw.
  destruct (ps_which s2 =? SYSTEM) eqn:EW; [exact H|].
  rewrite Hk by (rewrite Hw; exact EW).
  destruct (user_malloc (ps_stack s2) isz TAIL) as [p k1]. destruct p as [o|].
  - destruct (user_malloc k1 dsz TAIL) as [q k2]. destruct q as [off|]; simpl.
    + apply ceq_set_stack; assumption.
    + split; [apply ceq_set_stack; assumption|reflexivity].
  - simpl. split; [apply ceq_set_stack; assumption|reflexivity].
Qed.

Lemma work_init_all_core : forall p s1 s2 a, ceq s1 s2 -> wres_eq (work_init_all p s1 a) (work_init_all p s2 a).
Proof.
  induction p as [|p IH]; intros s1 s2 a H; simpl; [assumption|].
  pose proof (work_init_one_core s1 s2 a H) as E.
  destruct (work_init_one s1 a) as [t1|t1 v1]; destruct (work_init_one s2 a) as [t2|t2 v2]; simpl in E; try contradiction.
  - apply IH; assumption.
  - exact E.
Qed.

Lemma ceq_work_free : forall s1 s2, ceq s1 s2 -> ceq (work_free s1) (work_free s2).
Proof.
  intros s1 s2 H. unfold work_free. exact H.
Qed.

(* ---------------------------------------------------------------------- MemInit, refact = NO *)
(* what MemInit (refact = NO) reads beyond [ceq]: Glu.dynamic_snode_bound and Glu.nzlumax, both written by
   p?gstrf_thread_init just before (thread_init_glu) *)
Definition mres_eq (r1 r2 : mres) : Prop :=
  match r1, r2 with
  | MOk s1 a1 b1 c1, MOk s2 a2 b2 c2 =>
      ceq s1 s2 /\ a1 = a2 /\ b1 = b2 /\ c1 = c2 /\
      g_store (ps_glu s1) = g_store (ps_glu s2) /\ g_dyn (ps_glu s1) = g_dyn (ps_glu s2) /\
      g_nzlmax (ps_glu s1) = g_nzlmax (ps_glu s2) /\ g_nzumax (ps_glu s1) = g_nzumax (ps_glu s2) /\
      g_nzlumax (ps_glu s1) = g_nzlumax (ps_glu s2) /\ ps_exp s1 = ps_exp s2
  | MEstimate s1 v1, MEstimate s2 v2 => v1 = v2 /\ ps_exp s1 = ps_exp s2 /\ ps_no_expand s1 = ps_no_expand s2 /\ ps_ndim s1 = ps_ndim s2
  | MFail s1 v1, MFail s2 v2 => v1 = v2
  | MUnmodelled, MUnmodelled => True
  | MDiverge, MDiverge => True
  | _, _ => False
  end.

Definition valid_lwork (a : fargs) : Prop := -1 <= fa_lwork a.

Lemma ceq_setup_space : forall s1 s2 work lwork, -1 <= lwork -> lwork <> -1 ->
  ps_no_expand s1 = ps_no_expand s2 -> ps_ndim s1 = ps_ndim s2 ->
  ceq (setup_space s1 work lwork) (setup_space s2 work lwork).
Proof.
  intros s1 s2 work lwork H1 H2 Hn Hd. unfold setup_space.
  destruct (lwork =? 0) eqn:E0.
  - unfold ceq; simpl. repeat split; try assumption. intros X; discriminate X.
  - destruct (0 <? lwork) eqn:E1.
    + unfold ceq; simpl. repeat split; assumption.
    + apply Z.eqb_neq in E0. apply Z.ltb_ge in E1. lia.
Qed.

Lemma glu_setup_space : forall s work lwork, ps_glu (setup_space s work lwork) = ps_glu s.
Proof. intros; unfold setup_space; destruct (lwork =? 0); [reflexivity|]; destruct (0 <? lwork); reflexivity. Qed.
Lemma exp_setup_space : forall s work lwork, ps_exp (setup_space s work lwork) = ps_exp s.
Proof. intros; unfold setup_space; destruct (lwork =? 0); [reflexivity|]; destruct (0 <? lwork); reflexivity. Qed.

(* expand never touches Glu nor the "allocated" flag *)
Lemma set_exp_size_frame : forall x t0 len, ps_glu (set_exp_size x t0 len) = ps_glu x /\ ps_exp (set_exp_size x t0 len) = ps_exp x.
Proof. intros x t0 len; unfold set_exp_size; repeat destruct (_ =? _); split; reflexivity. Qed.

Lemma expand_glu : forall s prev t keep dword fresh ok s' p l,
  expand s prev t keep dword fresh ok = XOk s' p l -> ps_glu s' = ps_glu s /\ ps_exp s' = ps_exp s.
Proof.
  intros s prev t keep dword fresh ok s' p l. unfold expand.
  destruct (negb ((ps_no_expand s =? 0) || (keep =? 1))); [discriminate|].
  destruct (ps_which s =? SYSTEM).
  - destruct (negb (ps_no_expand s =? 0)); [discriminate|].
    destruct ok; intros H; inversion H; subst;
      match goal with |- ps_glu (set_exp_size ?x ?tt ?ll) = _ /\ _ => destruct (set_exp_size_frame x tt ll) as [A B]; rewrite A, B; split; reflexivity end.
  - destruct (negb (ps_no_expand s =? 0)); [discriminate|].
    destruct (user_malloc (ps_stack s) (prev * lword_of t dword) HEAD) as [r k1]. destruct r as [off|].
    + destruct (negb (off mod 8 =? 0) && ((t =? c_LUSUP) || (t =? c_UCOL))); intros H; inversion H; subst;
        match goal with |- ps_glu (set_exp_size ?x ?tt ?ll) = _ /\ _ => destruct (set_exp_size_frame x tt ll) as [A B]; rewrite A, B; split; reflexivity end.
    + intros H; inversion H; subst.
      match goal with |- ps_glu (set_exp_size ?x ?tt ?ll) = _ /\ _ => destruct (set_exp_size_frame x tt ll) as [A B]; rewrite A, B; split; reflexivity end.
Qed.

Lemma retry_glu : forall fuel s a u l us nzl nzu nzlu rt ru ok s' u' l' us' x y,
  retry_loop fuel s a u l us nzl nzu nzlu rt ru ok = inl (Some (s', u', l', us', x, y)) -> ps_glu s' = ps_glu s /\ ps_exp s' = ps_exp s.
Proof.
  induction fuel as [|f IH]; intros s a u l us nzl nzu nzlu rt ru ok s' u' l' us' x y.
  - simpl. destruct (is_some u && is_some l && is_some us); [|discriminate]. intros H; inversion H; subst; split; reflexivity.
  - cbn [retry_loop]. destruct (is_some u && is_some l && is_some us).
    + intros H; inversion H; subst; split; reflexivity.
    + set (s1 := if ps_which s =? SYSTEM then s else _).
      assert (G1 : ps_glu s1 = ps_glu s /\ ps_exp s1 = ps_exp s) by (subst s1; destruct (ps_which s =? SYSTEM); split; reflexivity).
      destruct ((Z.quot nzu 2 <? Z.quot (fa_annz a) 2) || (Z.quot nzu 2 <? 1)); [discriminate|].
      destruct (expand s1 _ c_UCOL _ _ _ _) as [t1 p1 l1|] eqn:E1; [|discriminate].
      destruct (expand t1 _ c_LSUB _ _ _ _) as [t2 p2 l2|] eqn:E2; [|discriminate].
      destruct (expand t2 _ c_USUB _ _ _ _) as [t3 p3 l3|] eqn:E3; [|discriminate].
      intros H. apply IH in H. apply expand_glu in E1, E2, E3.
      destruct H as [A B], E1 as [A1 B1], E2 as [A2 B2], E3 as [A3 B3], G1 as [A0 B0]. split; congruence.
Qed.

Lemma mi_begin_fields : forall s n,
  ps_glu (mi_begin s n) = ps_glu s /\ ps_exp (mi_begin s n) = true /\ ps_no_expand (mi_begin s n) = 0 /\ ps_ndim (mi_begin s n) = n /\
  ps_which (mi_begin s n) = ps_which s /\ ps_stack (mi_begin s n) = ps_stack s.
Proof.
  intros s n. unfold mi_begin. cbv zeta.
  destruct (ps_exp (set_noexp_ndim s 0 n)) eqn:E; repeat split; try reflexivity. exact E.
Qed.

Lemma mi_int_arrays_core : forall u1 u2 a, ceq u1 u2 ->
  exists v1 v2 st io, mi_int_arrays u1 a = (v1, st, io) /\ mi_int_arrays u2 a = (v2, st, io) /\ ceq v1 v2 /\
                      ps_glu v1 = ps_glu u1 /\ ps_glu v2 = ps_glu u2 /\ ps_exp v1 = ps_exp u1 /\ ps_exp v2 = ps_exp u2.
Proof.
  intros u1 u2 a H. pose proof H as (Hw & Hn & Hd & Hk). unfold mi_int_arrays. rewrite Hw.
  destruct (ps_which u2 =? SYSTEM) eqn:EW.
  - exists u1, u2, (fa_fresh a), true. repeat split; try reflexivity; tauto.
  - rewrite Hk by (rewrite Hw; exact EW).
    destruct (user_malloc_list (ps_stack u2) (int_array_sizes (fa_n a)) true) as [k okk].
    exists (set_stack u1 k), (set_stack u2 k), (k_array k), okk.
    split; [reflexivity|]. split; [reflexivity|]. split; [apply ceq_set_stack; exact H|]. repeat split; reflexivity.
Qed.

(* allocation proper: its result depends on [ceq]-related state only *)
Lemma mi_alloc_core : forall u1 u2 a nzl nzu nzlu ok, ceq u1 u2 -> ps_exp u1 = ps_exp u2 -> g_dyn (ps_glu u1) = g_dyn (ps_glu u2) ->
  mres_eq (mi_alloc u1 a nzl nzu nzlu ok) (mi_alloc u2 a nzl nzu nzlu ok).
Proof.
  intros u1 u2 a nzl nzu nzlu ok HC HX HD. unfold mi_alloc.
  destruct (mi_int_arrays_core u1 u2 a HC) as (v1 & v2 & st & io & -> & -> & HCv & GV1 & GV2 & XV1 & XV2).
  destruct (negb io).
  { (* the nine integer arrays do not fit: early failure return, same value *)
    simpl. pose proof HCv as (_ & _ & Hdv & _). rewrite Hdv. reflexivity. }
  pose proof (expand_core v1 v2 nzlu c_LUSUP 0 (fa_dword a) (fa_fresh a) ok HCv) as E1.
  destruct (expand v1 nzlu c_LUSUP _ _ _ _) as [a1 p1 l1|] eqn:Q1; destruct (expand v2 nzlu c_LUSUP _ _ _ _) as [a2 p2 l2|] eqn:Q2;
    simpl in E1; try contradiction; [|exact I].
  destruct E1 as (E1 & -> & ->). cbv zeta.
  assert (HRT : (ps_which a1 =? SYSTEM) = false ->
                k_top1 (ps_stack a1) = k_top1 (ps_stack a2) /\ k_used (ps_stack a1) = k_used (ps_stack a2)).
  { intros W. destruct E1 as (_ & _ & _ & Hk1). rewrite (Hk1 W). split; reflexivity. }
  pose proof (expand_core a1 a2 nzu c_UCOL 0 (fa_dword a) (fa_fresh a) ok E1) as E2.
  destruct (expand a1 _ c_UCOL _ _ _ _) as [b1 p3 l3|] eqn:Q3; destruct (expand a2 _ c_UCOL _ _ _ _) as [b2 p4 l4|] eqn:Q4;
    simpl in E2; try contradiction; [|exact I].
  destruct E2 as (E2 & -> & ->).
  pose proof (expand_core b1 b2 nzl c_LSUB 0 (fa_dword a) (fa_fresh a) ok E2) as E3.
  destruct (expand b1 _ c_LSUB _ _ _ _) as [c1 p5 l5|] eqn:Q5; destruct (expand b2 _ c_LSUB _ _ _ _) as [c2 p6 l6|] eqn:Q6;
    simpl in E3; try contradiction; [|exact I].
  destruct E3 as (E3 & -> & ->).
  pose proof (expand_core c1 c2 l4 c_USUB 1 (fa_dword a) (fa_fresh a) ok E3) as E4.
  destruct (expand c1 _ c_USUB _ _ _ _) as [d1 p7 l7|] eqn:Q7; destruct (expand c2 _ c_USUB _ _ _ _) as [d2 p8 l8|] eqn:Q8;
    simpl in E4; try contradiction; [|exact I].
  destruct E4 as (E4 & -> & ->).
  assert (HRT' : (ps_which d1 =? SYSTEM) = false ->
                 k_top1 (ps_stack a1) = k_top1 (ps_stack a2) /\ k_used (ps_stack a1) = k_used (ps_stack a2)).
  { rewrite (expand_which _ _ _ _ _ _ _ _ _ _ Q7), (expand_which _ _ _ _ _ _ _ _ _ _ Q5), (expand_which _ _ _ _ _ _ _ _ _ _ Q3). exact HRT. }
  pose proof (retry_core 64 d1 d2 a p4 p6 p8 l6 l8 l2 (k_top1 (ps_stack a1)) (k_used (ps_stack a1))
                         (k_top1 (ps_stack a2)) (k_used (ps_stack a2)) ok E4 HRT') as E5.
  destruct (retry_loop 64 d1 a p4 p6 p8 l6 l8 l2 _ _ ok) as [[[[[[[e1 q1] q2] q3] x1] y1]|]|r1] eqn:Q9;
    destruct (retry_loop 64 d2 a p4 p6 p8 l6 l8 l2 _ _ ok) as [[[[[[[e2 q4] q5] q6] x2] y2]|]|r2] eqn:Q10;
    simpl in E5; try contradiction; try exact I;
    try (destruct r1; simpl in E5; contradiction); try (destruct r2; simpl in E5; contradiction).
  - destruct E5 as (E5 & -> & -> & -> & -> & ->).
    pose proof E5 as (Hw5 & Hn5 & Hd5 & Hk5).
    destruct (negb (is_some p2)).
    + simpl. rewrite Hd5. reflexivity.
    + apply retry_glu in Q9, Q10. apply expand_glu in Q1, Q2, Q3, Q4, Q5, Q6, Q7, Q8.
      destruct Q1 as [A1 B1], Q2 as [A2 B2], Q3 as [A3 B3], Q4 as [A4 B4], Q5 as [A5 B5], Q6 as [A6 B6], Q7 as [A7 B7], Q8 as [A8 B8],
               Q9 as [A9 B9], Q10 as [A10 B10].
      assert (GE1 : ps_glu e1 = ps_glu u1) by congruence.
      assert (GE2 : ps_glu e2 = ps_glu u2) by congruence.
      assert (XE : ps_exp e1 = ps_exp e2) by congruence.
      simpl. unfold bind_glu. rewrite GE1, GE2. simpl.
      split; [unfold ceq; simpl; repeat split; try tauto; lia|].
      repeat split; try reflexivity; assumption.
  - destruct r1; destruct r2; simpl in E5; try contradiction; try exact I.
    destruct E5 as [_ ->]. reflexivity.
Qed.

(* The central lemma: MemInit on the refact = NO path reads, of all the persistent state, only
   Glu.dynamic_snode_bound and Glu.nzlumax (and both are written by p?gstrf_thread_init just before). *)
Lemma mem_init_no_core : forall s1 s2 a lu1 lu2 ok,
  valid_lwork a ->
  g_dyn (ps_glu s1) = g_dyn (ps_glu s2) -> g_nzlumax (ps_glu s1) = g_nzlumax (ps_glu s2) ->
  mres_eq (mem_init s1 a c_NO lu1 ok) (mem_init s2 a c_NO lu2 ok).
Proof.
  intros s1 s2 a lu1 lu2 ok Hv Hdyn Hlu. unfold mem_init.
  change (c_NO =? c_NO) with true. cbv iota zeta.
  destruct (mi_begin_fields s1 (fa_n a)) as (G1 & X1 & N1 & D1 & W1 & K1).
  destruct (mi_begin_fields s2 (fa_n a)) as (G2 & X2 & N2 & D2 & W2 & K2).
  unfold mem_init_no. cbv zeta. rewrite G1, G2, Hdyn, Hlu.
  destruct (fa_lwork a =? -1) eqn:EL.
  - simpl. repeat split; congruence.
  - apply Z.eqb_neq in EL.
    apply mi_alloc_core.
    + apply ceq_setup_space; [exact Hv|exact EL|congruence|congruence].
    + rewrite !exp_setup_space. congruence.
    + rewrite !glu_setup_space. congruence.
Qed.

(* ---------------------------------------------------------------------- the whole call p?gstrf *)
Definition bmod_compat (s : pstate) (a : fargs) : Prop :=
  ps_bmod_first s = true \/ (ps_bmod_maxsuper s = fa_maxsuper a /\ ps_bmod_rowblk s = fa_rowblk a).

Definition fres_eq (r1 r2 : fres) : Prop :=
  match r1, r2 with
  | FDone t1 x1, FDone t2 x2 =>
      x1 = x2 /\ ceq t1 t2 /\ g_nzlumax (ps_glu t1) = g_nzlumax (ps_glu t2) /\ ps_exp t1 = false /\ ps_exp t2 = false /\
      g_nzlmax (ps_glu t1) = fr_nzlmax x1 /\ g_nzumax (ps_glu t1) = fr_nzumax x1 /\
      g_nzlmax (ps_glu t2) = fr_nzlmax x2 /\ g_nzumax (ps_glu t2) = fr_nzumax x2
  | FEstimate t1 v1, FEstimate t2 v2 => v1 = v2 /\ ps_exp t1 = ps_exp t2 /\ ps_no_expand t1 = ps_no_expand t2 /\ ps_ndim t1 = ps_ndim t2
  | FMemFail _ v1, FMemFail _ v2 => v1 = v2
  | FWorkFail _ v1, FWorkFail _ v2 => v1 = v2
  | FUnmodelled, FUnmodelled => True
  | FDiverge, FDiverge => True
  | _, _ => False
  end.

Lemma thread_init_glu_fields : forall s a,
  g_dyn (ps_glu (thread_init_glu s a c_NO)) = fa_env_dyn a /\ g_nzlumax (ps_glu (thread_init_glu s a c_NO)) = fa_preset a.
Proof. intros; unfold thread_init_glu; change (c_NO =? c_NO) with true; cbv iota; simpl; split; reflexivity. Qed.

Lemma bmod_touch_fields : forall s a, bmod_compat s a ->
  ps_bmod_maxsuper (bmod_touch s a) = fa_maxsuper a /\ ps_bmod_rowblk (bmod_touch s a) = fa_rowblk a.
Proof.
  intros s a [H|[H1 H2]]; unfold bmod_touch.
  - rewrite H; simpl; split; reflexivity.
  - destruct (ps_bmod_first s); simpl; split; auto.
Qed.

Lemma work_init_one_frame : forall s a,
  match work_init_one s a with
  | WOk s' => ps_glu s' = ps_glu s /\ ps_exp s' = ps_exp s /\ ps_ndim s' = ps_ndim s
  | WFail s' _ => ps_glu s' = ps_glu s /\ ps_ndim s' = ps_ndim s
  end.
Proof.
  intros s a. unfold work_init_one. destruct (work_sizes a) as [isz dsz]. destruct (ps_which s =? SYSTEM); [repeat split; reflexivity|].
  destruct (user_malloc (ps_stack s) isz TAIL) as [q k1]. destruct q; [|split; reflexivity].
  destruct (user_malloc k1 dsz TAIL) as [q2 k2]. destruct q2; repeat split; reflexivity.
Qed.

Lemma work_init_all_frame : forall p s a,
  match work_init_all p s a with
  | WOk s' => ps_glu s' = ps_glu s /\ ps_exp s' = ps_exp s
  | WFail s' _ => ps_glu s' = ps_glu s /\ ps_ndim s' = ps_ndim s
  end.
Proof.
  induction p as [|p IH]; intros s a; simpl; [split; reflexivity|].
  pose proof (work_init_one_frame s a) as O.
  destruct (work_init_one s a) as [s1|s1 v].
  - specialize (IH s1 a). destruct O as (A & B & C). destruct (work_init_all p s1 a); destruct IH; split; congruence.
  - exact O.
Qed.

Lemma work_free_frame : forall s, ps_glu (work_free s) = ps_glu s /\ ps_exp (work_free s) = ps_exp s /\ ps_which (work_free s) = ps_which s.
Proof. intros s; unfold work_free; repeat split; reflexivity. Qed.

Lemma glu_work_free : forall s, ps_glu (work_free s) = ps_glu s.
Proof. intros s; apply work_free_frame. Qed.

Lemma user_is_not_system : forall w, (w =? USER) = true -> (w =? SYSTEM) = false.
Proof. intros w H; apply Z.eqb_eq in H; subst; reflexivity. Qed.

(* when MemInit returns 0 the three limits it reports are the ones it stored in Glu *)
Lemma retry_inr_not_ok : forall fuel s a u l us nzl nzu nzlu rt ru ok r,
  retry_loop fuel s a u l us nzl nzu nzlu rt ru ok = inr r ->
  match r with MOk _ _ _ _ => False | MEstimate _ _ => False | _ => True end.
Proof.
  induction fuel as [|f IH]; intros s a u l us nzl nzu nzlu rt ru ok r.
  - simpl. destruct (is_some u && is_some l && is_some us); [discriminate|]. intros H; inversion H; exact I.
  - cbn [retry_loop]. destruct (is_some u && is_some l && is_some us); [discriminate|].
    destruct ((Z.quot nzu 2 <? Z.quot (fa_annz a) 2) || (Z.quot nzu 2 <? 1)); [intros H; inversion H; exact I|].
    destruct (expand _ _ c_UCOL _ _ _ _) as [t1 p1 l1|]; [|intros H; inversion H; exact I].
    destruct (expand t1 _ c_LSUB _ _ _ _) as [t2 p2 l2|]; [|intros H; inversion H; exact I].
    destruct (expand t2 _ c_USUB _ _ _ _) as [t3 p3 l3|]; [|intros H; inversion H; exact I].
    apply IH.
Qed.

Lemma mi_alloc_ok_glu : forall s a nzl nzu nzlu ok m x y z,
  mi_alloc s a nzl nzu nzlu ok = MOk m x y z ->
  g_nzlmax (ps_glu m) = x /\ g_nzumax (ps_glu m) = y /\ g_nzlumax (ps_glu m) = z.
Proof.
  intros s a nzl nzu nzlu ok m x y z. unfold mi_alloc.
  destruct (mi_int_arrays s a) as [[v st] io]. destruct (negb io); [discriminate|].
  destruct (expand v nzlu c_LUSUP _ _ _ _) as [a1 p1 l1|]; [|discriminate]. cbv zeta.
  destruct (expand a1 nzu c_UCOL _ _ _ _) as [b1 p2 l2|]; [|discriminate].
  destruct (expand b1 nzl c_LSUB _ _ _ _) as [c1 p3 l3|]; [|discriminate].
  destruct (expand c1 l2 c_USUB _ _ _ _) as [d1 p4 l4|]; [|discriminate].
  destruct (retry_loop 64 d1 a p2 p3 p4 l3 l4 l1 _ _ ok) as [[[[[[[e1 q1] q2] q3] x1] y1]|]|r1] eqn:Q; [| discriminate |].
  - destruct (negb (is_some p1)); [discriminate|]. intros H; inversion H; subst. simpl. repeat split; reflexivity.
  - intros H; subst r1. apply retry_inr_not_ok in Q. contradiction.
Qed.

Lemma mem_init_ok_glu : forall s a refact lu ok m x y z,
  mem_init s a refact lu ok = MOk m x y z ->
  g_nzlmax (ps_glu m) = x /\ g_nzumax (ps_glu m) = y /\ g_nzlumax (ps_glu m) = z.
Proof.
  intros s a refact lu ok m x y z. unfold mem_init. cbv zeta.
  destruct (refact =? c_NO).
  - unfold mem_init_no. cbv zeta. destruct (fa_lwork a =? -1); [discriminate|]. apply mi_alloc_ok_glu.
  - unfold mem_init_yes. cbv zeta. destruct (fa_lwork a =? -1); [discriminate|].
    intros H; inversion H; subst. simpl. repeat split; reflexivity.
Qed.

(* the common tail of p?gstrf after MemInit has returned 0 *)
Definition gstrf_tail (s : pstate) (s2 : pstate) (a : fargs) (sym permr_in nzlmax nzumax : Z) : fres :=
  match work_init_all (Z.to_nat (fa_nprocs a)) s2 a with
  | WFail s3 v => FWorkFail s3 (v + memory_use (ps_ndim s3) (g_nzlmax (ps_glu s3)) (g_nzumax (ps_glu s3)) (g_nzlumax (ps_glu s3)) (fa_dword a))
  | WOk s3 =>
      let sb := bmod_touch s a in
      let s4 := set_bmod s3 (ps_bmod_first sb) (ps_bmod_maxsuper sb) (ps_bmod_rowblk sb) in
      let r := mkFR (fa_pat a) (fa_vals a) (fa_permc_in a) sym (fa_u a)
                    (fa_usepr a) (if fa_usepr a =? c_YES then permr_in else 0)
                    (fa_nprocs a) (fa_panel a) (fa_relax a)
                    nzlmax nzumax (g_store (ps_glu s4))
                    (if ps_which s4 =? USER then k_array (ps_stack s4) else 0)
                    (ps_bmod_maxsuper s4) (ps_bmod_rowblk s4) (fa_maxsuper a) (fa_rowblk a) (g_dyn (ps_glu s4)) in
      FDone (finalize_exp (work_free s4)) r
  end.

Lemma gstrf_unfold : forall s a refact sym p lu ok,
  gstrf s a refact sym p lu ok =
  match mem_init (thread_init_glu s a refact) a refact lu ok with
  | MUnmodelled => FUnmodelled
  | MDiverge => FDiverge
  | MEstimate s2 v => FEstimate s2 v
  | MFail s2 v => FMemFail s2 v
  | MOk s2 nzlmax nzumax nzlumax => gstrf_tail s s2 a sym p nzlmax nzumax
  end.
Proof. reflexivity. Qed.

Lemma gstrf_tail_core : forall s1 s2 m1 m2 a sym p x y,
  bmod_compat s1 a -> bmod_compat s2 a ->
  ceq m1 m2 -> g_store (ps_glu m1) = g_store (ps_glu m2) -> g_dyn (ps_glu m1) = g_dyn (ps_glu m2) ->
  g_nzlmax (ps_glu m1) = x -> g_nzumax (ps_glu m1) = y -> g_nzlmax (ps_glu m2) = x -> g_nzumax (ps_glu m2) = y ->
  g_nzlumax (ps_glu m1) = g_nzlumax (ps_glu m2) ->
  fres_eq (gstrf_tail s1 m1 a sym p x y) (gstrf_tail s2 m2 a sym p x y).
Proof.
  intros s1 s2 m1 m2 a sym p x y B1 B2 HC HS HD L1 U1 L2 U2 HL. unfold gstrf_tail.
  pose proof (work_init_all_core (Z.to_nat (fa_nprocs a)) m1 m2 a HC) as W.
  pose proof (work_init_all_frame (Z.to_nat (fa_nprocs a)) m1 a) as F1.
  pose proof (work_init_all_frame (Z.to_nat (fa_nprocs a)) m2 a) as F2.
  destruct (work_init_all (Z.to_nat (fa_nprocs a)) m1 a) as [w1|w1 v1]; destruct (work_init_all (Z.to_nat (fa_nprocs a)) m2 a) as [w2|w2 v2];
    simpl in W; try contradiction.
  - destruct F1 as [G1 X1], F2 as [G2 X2]. cbv zeta.
    destruct (bmod_touch_fields s1 a B1) as [M1 R1]. destruct (bmod_touch_fields s2 a B2) as [M2 R2].
    pose proof W as (Hw & Hn & Hd & Hk).
    simpl. rewrite G1, G2, HS, HD, M1, M2, R1, R2, Hw.
    assert (TMP : (if ps_which w2 =? USER then k_array (ps_stack w1) else 0) = (if ps_which w2 =? USER then k_array (ps_stack w2) else 0)).
    { destruct (ps_which w2 =? USER) eqn:EU; [|reflexivity]. rewrite Hk; [reflexivity|]. rewrite Hw. apply user_is_not_system; exact EU. }
    rewrite TMP. split; [reflexivity|].
    split.
    { unfold finalize_exp. eapply ceq_cong; [apply core_set_exp|apply core_set_exp|]. apply ceq_work_free.
      eapply ceq_cong; [apply core_set_bmod|apply core_set_bmod|exact W]. }
    unfold finalize_exp; simpl. rewrite ?glu_work_free. simpl. rewrite ?G1, ?G2. repeat split; congruence.
  - destruct W as [W ->]. destruct F1 as [G1 D1], F2 as [G2 D2]. simpl.
    pose proof W as (_ & _ & Hd & _). rewrite G1, G2, Hd, L1, L2, U1, U2, HL. reflexivity.
Qed.

(* C18, the factorization proper: with refact = NO the result of p?gstrf, and everything later calls can read of the
   state it leaves, is the same from ANY two states (sp_ienv(3),(4) constant, lwork >= -1) *)
Lemma gstrf_first_core : forall s1 s2 a sym p lu1 lu2 ok,
  valid_lwork a -> bmod_compat s1 a -> bmod_compat s2 a ->
  fres_eq (gstrf s1 a c_NO sym p lu1 ok) (gstrf s2 a c_NO sym p lu2 ok).
Proof.
  intros s1 s2 a sym p lu1 lu2 ok Hv B1 B2. rewrite !gstrf_unfold.
  pose proof (thread_init_glu_fields s1 a) as [D1 L1]. pose proof (thread_init_glu_fields s2 a) as [D2 L2].
  pose proof (mem_init_no_core (thread_init_glu s1 a c_NO) (thread_init_glu s2 a c_NO) a lu1 lu2 ok Hv
                (eq_trans D1 (eq_sym D2)) (eq_trans L1 (eq_sym L2))) as M.
  destruct (mem_init (thread_init_glu s1 a c_NO) a c_NO lu1 ok) as [m1 x1 y1 z1|m1 v1|m1 v1| |] eqn:Q1;
    destruct (mem_init (thread_init_glu s2 a c_NO) a c_NO lu2 ok) as [m2 x2 y2 z2|m2 v2|m2 v2| |] eqn:Q2; simpl in M; try contradiction; try exact I.
  - destruct M as (HC & -> & -> & -> & HS & HD & HL & HU & HLU & HX).
    destruct (mem_init_ok_glu _ _ _ _ _ _ _ _ _ Q1) as (A1 & A2 & A3).
    destruct (mem_init_ok_glu _ _ _ _ _ _ _ _ _ Q2) as (C1 & C2 & C3).
    apply gstrf_tail_core; try assumption.
  - exact M.
  - exact M.
Qed.

(* ====================================================================== part 2: C18 at the level of the operations *)

Lemma ceq_used : forall t1 t2, ceq t1 t2 ->
  (if ps_which t1 =? USER then k_top1 (ps_stack t1) else 0) = (if ps_which t2 =? USER then k_top1 (ps_stack t2) else 0).
Proof.
  intros t1 t2 (Hw & Hn & Hd & Hk). rewrite Hw. destruct (ps_which t2 =? USER) eqn:E; [|reflexivity].
  rewrite Hk; [reflexivity|]. rewrite Hw. apply user_is_not_system; exact E.
Qed.

(* A first factorization (get_perm_c, sp_colorder, p?gstrf, solve, and for the expert driver superlu_?QuerySpace):
   everything the caller gets back -- the outcome and the objects the session holds afterwards -- is the same whatever
   the persistent state was. *)
Lemma first_factor_indep : forall s1 s2 se a opid ex,
  valid_lwork a -> bmod_compat s1 a -> bmod_compat s2 a ->
  snd (step ex (s1, se) (OFirst a opid)) = snd (step ex (s2, se) (OFirst a opid)) /\
  snd (fst (step ex (s1, se) (OFirst a opid))) = snd (fst (step ex (s2, se) (OFirst a opid))).
Proof.
  intros s1 s2 se a opid ex Hv B1 B2. unfold step.
  pose proof (gstrf_first_core s1 s2 a opid (permr_id (s_permr se)) (mkLU 0) (mkLU 0) true Hv B1 B2) as G.
  destruct (gstrf s1 a c_NO opid (permr_id (s_permr se)) (mkLU 0) true) as [t1 r1|t1 v1|t1 v1|t1 v1| |];
    destruct (gstrf s2 a c_NO opid (permr_id (s_permr se)) (mkLU 0) true) as [t2 r2|t2 v2|t2 v2|t2 v2| |]; simpl in G; try contradiction.
  - destruct G as (-> & HC & HL & _). pose proof HC as (Hw & Hn & Hd & Hk).
    rewrite (ceq_used _ _ HC), HL, Hw.
    destruct ex; simpl.
    + unfold query_space. rewrite Hn. simpl. split; reflexivity.
    + split; reflexivity.
  - destruct G as (-> & _). simpl. split; reflexivity.
  - subst v2. simpl. split; reflexivity.
  - subst v2. simpl. split; reflexivity.
  - simpl. split; reflexivity.
  - simpl. split; reflexivity.
Qed.

(* outcome with the expansion counter masked *)
Definition mask_exp (o : outcome) : outcome :=
  match o with
  | RFactor r e _ => RFactor r e 0
  | RSolve r t b _ => RSolve r t b None
  | RQSpace _ => RQSpace 0
  | x => x
  end.

(* solve with existing factors: X, info, rcond, ferr, berr (the term RSolve ...) and the session do not depend on the
   persistent state; memusage.expansions does (next lemma) *)
Lemma solve_indep_masked : forall s1 s2 se ex ex' t b,
  mask_exp (snd (step ex (s1, se) (OSolve ex' t b))) = mask_exp (snd (step ex (s2, se) (OSolve ex' t b))) /\
  snd (fst (step ex (s1, se) (OSolve ex' t b))) = se /\ snd (fst (step ex (s2, se) (OSolve ex' t b))) = se.
Proof.
  intros s1 s2 se ex ex' t b. unfold step. destruct (s_fac se) as [f|]; [|simpl; auto].
  destruct (negb (f_ok f)); [simpl; auto|]. destruct ex'; simpl; auto.
Qed.

(* ?gstrs called directly (no QuerySpace): fully independent *)
Lemma solve_gstrs_indep : forall s1 s2 se ex t b,
  snd (step ex (s1, se) (OSolve false t b)) = snd (step ex (s2, se) (OSolve false t b)).
Proof. intros s1 s2 se ex t b. unfold step. destruct (s_fac se) as [f|]; [|reflexivity]. destruct (negb (f_ok f)); reflexivity. Qed.

Definition some_reads : freads := mkFR 1 1 1 1 1 0 0 1 1 1 10 10 1 0 1 1 1 1 0.
Definition some_sess : sess :=
  mkSess 1 4 8 8 1 1 (PRfrom 1) 1 (Some (mkF some_reads 1 true (mkLU 1) 10 10 16 false 0 0 0)) c_NO.

(* the faithful model refutes "a solve depends only on its arguments" for memusage.expansions:
   superlu_?QuerySpace returns --no_expand, a file static that every p?gssvx call decrements *)
Lemma solve_expansions_state_dependent : exists s1 s2 se t b,
  snd (step true (s1, se) (OSolve true t b)) <> snd (step true (s2, se) (OSolve true t b)).
Proof.
  exists pstate0, (fst (fst (step true (pstate0, some_sess) (OSolve true 0 7)))), some_sess, 0, 7.
  vm_compute. intros H; discriminate H.
Qed.

(* non-vacuity: the refactorization path DOES read the persistent state (the sizes kept in the static Glu) *)
Definition some_fargs : fargs := mkFA 4 8 1 2 0 1 2 1 1000 0 0 0 8 20 16 (-50) (-50) (-30) 0 16 77.
Lemma refact_depends_on_state : exists s1 s2 se a opid,
  snd (step true (s1, se) (ORefact a opid)) <> snd (step true (s2, se) (ORefact a opid)).
Proof.
  exists pstate0, (set_glu pstate0 (mkGlu 0 0 0 0 400 400 16 0 1 0)), some_sess, some_fargs, 2.
  vm_compute. intros H; discriminate H.
Qed.

(* a call in one precision leaves the records of the other precisions untouched *)
Lemma upd_nth_other : forall (A : Type) (l : list A) i j x, i <> j -> nth_error (upd l i x) j = nth_error l j.
Proof.
  induction l as [|y l IH]; intros i j x H; [reflexivity|].
  destruct i as [|i]; destruct j as [|j]; simpl; try reflexivity; [congruence|]. apply IH. congruence.
Qed.

Lemma other_precision_frame : forall P ex slot prec o q, q <> prec ->
  nth_error (pr_ps (fst (pstep P ex slot prec o))) q = nth_error (pr_ps P) q.
Proof.
  intros P ex slot prec o q H. unfold pstep.
  destruct (nth_error (pr_ps P) prec) as [s|]; [|reflexivity].
  destruct (nth_error (pr_se P) slot) as [se|]; [|reflexivity].
  destruct (step ex (s, se) o) as [[s1 se1] out]. simpl. apply upd_nth_other. congruence.
Qed.

Lemma upd_nth_same : forall (A : Type) (l : list A) i x y, nth_error l i = Some y -> nth_error (upd l i x) i = Some x.
Proof.
  induction l as [|z l IH]; intros i x y H; destruct i; simpl in *; try discriminate; [reflexivity|]. eapply IH; eassumption.
Qed.

(* the process-level form of first_factor_indep: two processes with arbitrary records in every precision, the same
   sessions: a first factorization gives the same outcome and leaves the same session *)
Lemma first_factor_indep_proc : forall ps1 ps2 ses ex slot prec a opid s1 s2,
  nth_error ps1 prec = Some s1 -> nth_error ps2 prec = Some s2 ->
  valid_lwork a -> bmod_compat s1 a -> bmod_compat s2 a ->
  snd (pstep (mkProc ps1 ses) ex slot prec (OFirst a opid)) = snd (pstep (mkProc ps2 ses) ex slot prec (OFirst a opid)) /\
  pr_se (fst (pstep (mkProc ps1 ses) ex slot prec (OFirst a opid))) = pr_se (fst (pstep (mkProc ps2 ses) ex slot prec (OFirst a opid))).
Proof.
  intros ps1 ps2 ses ex slot prec a opid s1 s2 H1 H2 Hv B1 B2. unfold pstep. cbn [pr_ps pr_se]. rewrite H1, H2.
  destruct (nth_error ses slot) as [se|]; [|split; reflexivity].
  pose proof (first_factor_indep s1 s2 se a opid ex Hv B1 B2) as [A B].
  destruct (step ex (s1, se) (OFirst a opid)) as [[t1 se1] o1]. destruct (step ex (s2, se) (OFirst a opid)) as [[t2 se2] o2].
  cbn [fst snd pr_se] in *. subst. split; reflexivity.
Qed.

(* ====================================================================== part 3: ?lacon started with kase = 0 *)
Section LaconProofs.
  Variables V R I : Type.
  Variable x_init : V.
  Variable n_is_one : bool.
  Variable asum : V -> R.
  Variable sign_vec : V -> V.
  Variable isgn_of : V -> I.
  Variable same_signs : V -> I -> bool.
  Variable idamax : V -> Z.
  Variable unit_vec : Z -> V.
  Variable alt_vec : V.
  Variable alt_last : R.
  Variable rle : R -> R -> bool.
  Variable cycle_test : V -> Z -> Z -> bool.
  Variable final_temp : V -> R.
  Variable rlt : R -> R -> bool.
  Variable first_abs : V -> R.
  Variable apply_op : Z -> V -> V.

  Let call := lacon_call V R I x_init n_is_one asum sign_vec isgn_of same_signs idamax unit_vec alt_vec alt_last rle cycle_test final_temp rlt first_abs.
  Let loop := lacon_loop V R I x_init n_is_one asum sign_vec isgn_of same_signs idamax unit_vec alt_vec alt_last rle cycle_test final_temp rlt first_abs apply_op.

  (* the statics that can still be read before being written, as a function of where the computation stands *)
  Definition lrel (s1 s2 : lstat R) : Prop :=
    la_jump R s1 = la_jump R s2 /\
    ((la_jump R s1 = 3 \/ la_jump R s1 = 4) -> la_j R s1 = la_j R s2 /\ la_iter R s1 = la_iter R s2).

  Lemma call_rel : forall s1 s2 c, (lv_kase V R I c <> 0 -> lrel s1 s2) ->
    snd (call s1 c) = snd (call s2 c) /\ lrel (fst (call s1 c)) (fst (call s2 c)).
  Proof.
    intros s1 s2 c H. unfold call, lacon_call.
    destruct (lv_kase V R I c =? 0) eqn:K.
    - simpl. split; [reflexivity|]. unfold lrel; simpl. split; [reflexivity|]. intros [X|X]; discriminate X.
    - apply Z.eqb_neq in K. destruct (H K) as [HJ HR]. rewrite <- HJ.
      destruct (la_jump R s1 =? 2) eqn:J2.
      { unfold L50; simpl. split; [reflexivity|]. unfold lrel; simpl. split; [reflexivity|]. intros _; split; reflexivity. }
      destruct (la_jump R s1 =? 3) eqn:J3.
      { apply Z.eqb_eq in J3. destruct (HR (or_introl J3)) as [Hj Hi].
        destruct (same_signs (lv_x V R I c) (lv_isgn V R I c)).
        - unfold L120; simpl. split; [reflexivity|]. unfold lrel; simpl. split; [reflexivity|]. intros [X|X]; discriminate X.
        - simpl. destruct (rle (asum (lv_x V R I c)) (lv_est V R I c)).
          + unfold L120; simpl. split; [reflexivity|]. unfold lrel; simpl. split; [reflexivity|]. intros [X|X]; discriminate X.
          + simpl. split; [reflexivity|]. unfold lrel; simpl. split; [reflexivity|]. intros _; split; assumption. }
      destruct (la_jump R s1 =? 4) eqn:J4.
      { apply Z.eqb_eq in J4. destruct (HR (or_intror J4)) as [Hj Hi]. rewrite <- Hj, <- Hi.
        destruct (cycle_test (lv_x V R I c) (la_j R s1) (idamax (lv_x V R I c)) && (la_iter R s1 <? 5)).
        - unfold L50; simpl. split; [reflexivity|]. unfold lrel; simpl. split; [reflexivity|]. intros _; split; reflexivity.
        - unfold L120; simpl. split; [reflexivity|]. unfold lrel; simpl. split; [reflexivity|]. intros [X|X]; discriminate X. }
      destruct (la_jump R s1 =? 5) eqn:J5.
      { destruct (rlt (lv_est V R I c) (final_temp (lv_x V R I c))); simpl; (split; [reflexivity|]);
          unfold lrel; (split; [exact HJ|]); intros [X|X]; apply Z.eqb_neq in J3, J4; contradiction. }
      unfold L20. destruct n_is_one; simpl.
      + split; [reflexivity|]. unfold lrel. split; [exact HJ|]. intros [X|X]; apply Z.eqb_neq in J3, J4; contradiction.
      + split; [reflexivity|]. unfold lrel; simpl. split; [reflexivity|]. intros [X|X]; discriminate X.
  Qed.

  Lemma loop_rel : forall fuel s1 s2 c, (lv_kase V R I c <> 0 -> lrel s1 s2) ->
    snd (fst (loop fuel s1 c)) = snd (fst (loop fuel s2 c)) /\ snd (loop fuel s1 c) = snd (loop fuel s2 c).
  Proof.
    induction fuel as [|f IH]; intros s1 s2 c H; [simpl; split; reflexivity|].
    unfold loop in *. cbn [lacon_loop].
    pose proof (call_rel s1 s2 c H) as [E Rl]. unfold call in *.
    destruct (lacon_call V R I x_init n_is_one asum sign_vec isgn_of same_signs idamax unit_vec alt_vec alt_last rle cycle_test final_temp rlt first_abs s1 c) as [t1 c1].
    destruct (lacon_call V R I x_init n_is_one asum sign_vec isgn_of same_signs idamax unit_vec alt_vec alt_last rle cycle_test final_temp rlt first_abs s2 c) as [t2 c2].
    simpl in E, Rl. subst c2.
    destruct (lv_kase V R I c1 =? 0); [simpl; split; reflexivity|].
    apply IH. intros _; exact Rl.
  Qed.

  (* C18 for the condition estimator: started with kase = 0 the whole reverse-communication run (estimate, final v and
     isgn, whether it terminated within the fuel) is the same whatever the statics held *)
  Lemma lacon_kase0_indep : forall fuel s1 s2 v0 i0 e0,
    lacon_run V R I x_init n_is_one asum sign_vec isgn_of same_signs idamax unit_vec alt_vec alt_last rle cycle_test final_temp rlt first_abs apply_op fuel s1 v0 i0 e0 =
    lacon_run V R I x_init n_is_one asum sign_vec isgn_of same_signs idamax unit_vec alt_vec alt_last rle cycle_test final_temp rlt first_abs apply_op fuel s2 v0 i0 e0.
  Proof.
    intros fuel s1 s2 v0 i0 e0. unfold lacon_run.
    pose proof (loop_rel fuel s1 s2 (mkLV V R I x_init v0 i0 e0 0)) as L. unfold loop in L.
    destruct L as [A B]; [simpl; intros X; contradiction X; reflexivity|].
    destruct (lacon_loop _ _ _ _ _ _ _ _ _ _ _ _ _ _ _ _ _ _ _ fuel s1 _) as [[t1 c1] f1].
    destruct (lacon_loop _ _ _ _ _ _ _ _ _ _ _ _ _ _ _ _ _ _ _ fuel s2 _) as [[t2 c2] f2].
    simpl in A, B. subst. reflexivity.
  Qed.
End LaconProofs.

(* non-vacuity for the estimator: a call with kase <> 0 DOES depend on the statics (jump selects the code executed) *)
Lemma lacon_midway_depends_on_state :
  exists s1 s2 c,
    snd (lacon_call Z Z Z 0 false (fun x => x) (fun x => x) (fun x => x) (fun _ _ => true) (fun x => x) (fun j => j) 7 1 Z.leb (fun _ _ _ => false)
                    (fun x => x) Z.ltb (fun x => x) s1 c)
    <> snd (lacon_call Z Z Z 0 false (fun x => x) (fun x => x) (fun x => x) (fun _ _ => true) (fun x => x) (fun j => j) 7 1 Z.leb (fun _ _ _ => false)
                    (fun x => x) Z.ltb (fun x => x) s2 c).
Proof.
  exists (mkLS Z 2 2 0 0 0 0), (mkLS Z 2 5 0 0 0 0), (mkLV Z Z Z 3 0 0 0 1). vm_compute. intros H; discriminate H.
Qed.

(* ====================================================================== part 4: C08, histories on one session *)
Definition arr (s : pstate) : Z := k_array (ps_stack s).

Lemma user_malloc_arr : forall k b e, k_array (snd (user_malloc k b e)) = k_array k.
Proof.
  intros k b e; unfold user_malloc; destruct (stack_full k b); [reflexivity|]; destruct (e =? HEAD); [reflexivity|].
  cbv zeta. destruct (stack_full k (b + tail_extra k b)); reflexivity.
Qed.

Lemma user_malloc_list_arr : forall sizes k ok, k_array (fst (user_malloc_list k sizes ok)) = k_array k.
Proof.
  induction sizes as [|b r IH]; intros k ok; [reflexivity|]. simpl.
  pose proof (user_malloc_arr k b HEAD) as H. destruct (user_malloc k b HEAD) as [p k1]. simpl in H. rewrite IH. exact H.
Qed.

Lemma set_exp_size_arr : forall x t0 len, arr (set_exp_size x t0 len) = arr x.
Proof. intros x t0 len; unfold set_exp_size; repeat destruct (_ =? _); reflexivity. Qed.

Lemma expand_arr : forall s prev t keep dword fresh ok s' p l,
  expand s prev t keep dword fresh ok = XOk s' p l -> arr s' = arr s /\ ps_which s' = ps_which s.
Proof.
  intros s prev t keep dword fresh ok s' p l. unfold expand.
  assert (W : forall x t0 len, ps_which (set_exp_size x t0 len) = ps_which x) by (intros x t0 len; unfold set_exp_size; repeat destruct (_ =? _); reflexivity).
  destruct (negb ((ps_no_expand s =? 0) || (keep =? 1))); [discriminate|].
  destruct (ps_which s =? SYSTEM).
  - destruct (negb (ps_no_expand s =? 0)); [discriminate|].
    destruct ok; intros H; inversion H; subst; rewrite set_exp_size_arr, W; split; reflexivity.
  - destruct (negb (ps_no_expand s =? 0)); [discriminate|].
    pose proof (user_malloc_arr (ps_stack s) (prev * lword_of t dword) HEAD) as A.
    destruct (user_malloc (ps_stack s) (prev * lword_of t dword) HEAD) as [r k1]. simpl in A. destruct r as [off|].
    + destruct (negb (off mod 8 =? 0) && ((t =? c_LUSUP) || (t =? c_UCOL))); intros H; inversion H; subst;
        rewrite set_exp_size_arr, W; split; try reflexivity; exact A.
    + intros H; inversion H; subst. rewrite set_exp_size_arr, W. split; [exact A|reflexivity].
Qed.

Lemma retry_arr : forall fuel s a u l us nzl nzu nzlu rt ru ok s' u' l' us' x y,
  retry_loop fuel s a u l us nzl nzu nzlu rt ru ok = inl (Some (s', u', l', us', x, y)) -> arr s' = arr s /\ ps_which s' = ps_which s.
Proof.
  induction fuel as [|f IH]; intros s a u l us nzl nzu nzlu rt ru ok s' u' l' us' x y.
  - simpl. destruct (is_some u && is_some l && is_some us); [|discriminate]. intros H; inversion H; subst; split; reflexivity.
  - cbn [retry_loop]. destruct (is_some u && is_some l && is_some us).
    + intros H; inversion H; subst; split; reflexivity.
    + set (s1 := if ps_which s =? SYSTEM then s else _).
      assert (G1 : arr s1 = arr s /\ ps_which s1 = ps_which s).
      { subst s1. destruct (ps_which s =? SYSTEM); [split; reflexivity|]. unfold arr; simpl. split; reflexivity. }
      destruct ((Z.quot nzu 2 <? Z.quot (fa_annz a) 2) || (Z.quot nzu 2 <? 1)); [discriminate|].
      destruct (expand s1 _ c_UCOL _ _ _ _) as [t1 p1 l1|] eqn:E1; [|discriminate].
      destruct (expand t1 _ c_LSUB _ _ _ _) as [t2 p2 l2|] eqn:E2; [|discriminate].
      destruct (expand t2 _ c_USUB _ _ _ _) as [t3 p3 l3|] eqn:E3; [|discriminate].
      intros H. apply IH in H. apply expand_arr in E1, E2, E3.
      destruct H as [A B], E1 as [A1 B1], E2 as [A2 B2], E3 as [A3 B3], G1 as [A0 B0]. split; congruence.
Qed.

Lemma mi_alloc_arr : forall s a nzl nzu nzlu ok m x y z,
  mi_alloc s a nzl nzu nzlu ok = MOk m x y z ->
  arr m = arr s /\ ps_which m = ps_which s /\
  g_store (ps_glu m) = (if ps_which s =? SYSTEM then fa_fresh a else arr s) /\ g_dyn (ps_glu m) = g_dyn (ps_glu s).
Proof.
  intros s a nzl nzu nzlu ok m x y z. unfold mi_alloc.
  assert (IA : forall v st io, mi_int_arrays s a = (v, st, io) ->
                arr v = arr s /\ ps_which v = ps_which s /\ st = (if ps_which s =? SYSTEM then fa_fresh a else arr s) /\ ps_glu v = ps_glu s).
  { intros v st io. unfold mi_int_arrays. destruct (ps_which s =? SYSTEM).
    - intros H; inversion H; subst; repeat split; reflexivity.
    - pose proof (user_malloc_list_arr (int_array_sizes (fa_n a)) (ps_stack s) true) as A.
      destruct (user_malloc_list (ps_stack s) (int_array_sizes (fa_n a)) true) as [k okk]. simpl in A.
      intros H; inversion H; subst. unfold arr; simpl. repeat split; try reflexivity; exact A. }
  destruct (mi_int_arrays s a) as [[v st] io] eqn:Q0. destruct (IA v st io eq_refl) as (V1 & V2 & V3 & V4).
  destruct (negb io); [discriminate|].
  destruct (expand v nzlu c_LUSUP _ _ _ _) as [a1 p1 l1|] eqn:Q1; [|discriminate]. cbv zeta.
  destruct (expand a1 nzu c_UCOL _ _ _ _) as [b1 p2 l2|] eqn:Q2; [|discriminate].
  destruct (expand b1 nzl c_LSUB _ _ _ _) as [c1 p3 l3|] eqn:Q3; [|discriminate].
  destruct (expand c1 l2 c_USUB _ _ _ _) as [d1 p4 l4|] eqn:Q4; [|discriminate].
  destruct (retry_loop 64 d1 a p2 p3 p4 l3 l4 l1 _ _ ok) as [[[[[[[e1 q1] q2] q3] x1] y1]|]|r1] eqn:Q; [| discriminate |].
  - destruct (negb (is_some p1)); [discriminate|]. intros H; inversion H; subst.
    pose proof (expand_glu _ _ _ _ _ _ _ _ _ _ Q1) as [G1 _]. pose proof (expand_glu _ _ _ _ _ _ _ _ _ _ Q2) as [G2 _].
    pose proof (expand_glu _ _ _ _ _ _ _ _ _ _ Q3) as [G3 _]. pose proof (expand_glu _ _ _ _ _ _ _ _ _ _ Q4) as [G4 _].
    pose proof (retry_glu _ _ _ _ _ _ _ _ _ _ _ _ _ _ _ _ _ _ Q) as [G5 _].
    apply expand_arr in Q1, Q2, Q3, Q4. apply retry_arr in Q.
    destruct Q1 as [A1 B1], Q2 as [A2 B2], Q3 as [A3 B3], Q4 as [A4 B4], Q as [A5 B5].
    unfold arr in *; simpl. rewrite G5, G4, G3, G2, G1, V4. repeat split; congruence.
  - intros H; subst r1. apply retry_inr_not_ok in Q. contradiction.
Qed.

Lemma work_init_one_arr : forall s a,
  match work_init_one s a with WOk s' => arr s' = arr s /\ ps_which s' = ps_which s | WFail s' _ => arr s' = arr s /\ ps_which s' = ps_which s end.
Proof.
  intros s a. unfold work_init_one. destruct (work_sizes a) as [isz dsz]. destruct (ps_which s =? SYSTEM); [split; reflexivity|].
  pose proof (user_malloc_arr (ps_stack s) isz TAIL) as A1.
  destruct (user_malloc (ps_stack s) isz TAIL) as [q k1]. simpl in A1. destruct q; [|split; [exact A1|reflexivity]].
  pose proof (user_malloc_arr k1 dsz TAIL) as A2.
  destruct (user_malloc k1 dsz TAIL) as [q2 k2]. simpl in A2. destruct q2 as [off|].
  - destruct (off mod 8 =? 0); unfold arr; simpl; split; try reflexivity; congruence.
  - unfold arr; simpl; split; [congruence|reflexivity].
Qed.

Lemma work_init_all_arr : forall p s a,
  match work_init_all p s a with WOk s' => arr s' = arr s /\ ps_which s' = ps_which s | WFail s' _ => arr s' = arr s /\ ps_which s' = ps_which s end.
Proof.
  induction p as [|p IH]; intros s a; simpl; [split; reflexivity|].
  pose proof (work_init_one_arr s a) as O. destruct (work_init_one s a) as [s1|s1 v]; [|exact O].
  specialize (IH s1 a). destruct O as [A B]. destruct (work_init_all p s1 a); destruct IH; split; congruence.
Qed.

Lemma work_free_arr : forall s, arr (work_free s) = arr s.
Proof. intros s; unfold work_free; reflexivity. Qed.

Lemma which_work_free : forall s, ps_which (work_free s) = ps_which s.
Proof. intros s; apply work_free_frame. Qed.

Lemma noexp_work_free : forall s, ps_no_expand (work_free s) = ps_no_expand s.
Proof. intros s; unfold work_free; reflexivity. Qed.

(* ---- the tail of p?gstrf: what the numerical phase reads, what is left behind *)
Lemma gstrf_tail_done : forall s m a sym p x y t r,
  gstrf_tail s m a sym p x y = FDone t r ->
  fr_vals r = fa_vals a /\ fr_pat r = fa_pat a /\ fr_sym r = sym /\ fr_permc r = fa_permc_in a /\ fr_u r = fa_u a /\
  fr_usepr r = fa_usepr a /\ (fa_usepr a = c_YES -> fr_permr_in r = p) /\
  fr_nzlmax r = x /\ fr_nzumax r = y /\ fr_store r = g_store (ps_glu m) /\
  fr_tmp r = (if ps_which m =? USER then arr m else 0) /\
  ps_glu t = ps_glu m /\ ps_which t = ps_which m /\ arr t = arr m /\ ps_exp t = false.
Proof.
  intros s m a sym p x y t r. unfold gstrf_tail.
  pose proof (work_init_all_arr (Z.to_nat (fa_nprocs a)) m a) as WA.
  pose proof (work_init_all_frame (Z.to_nat (fa_nprocs a)) m a) as WF.
  destruct (work_init_all (Z.to_nat (fa_nprocs a)) m a) as [w|w v]; [|discriminate].
  destruct WA as [WA1 WA2], WF as [WF1 WF2]. cbv zeta. intros H; inversion H; subst; clear H.
  unfold finalize_exp. cbn [fr_vals fr_pat fr_sym fr_permc fr_u fr_usepr fr_permr_in fr_nzlmax fr_nzumax fr_store fr_tmp].
  assert (E1 : forall q f b c, ps_glu (set_exp (work_free (set_bmod w f b c)) false q q q q q) = ps_glu m)
    by (intros; cbn [ps_glu set_exp]; rewrite ?glu_work_free; exact WF1).
  repeat split; try reflexivity.
  - destruct (fa_usepr a =? c_YES) eqn:E; [reflexivity|]. intros X. rewrite X in E. discriminate E.
  - cbn [ps_glu set_bmod]. rewrite WF1. reflexivity.
  - cbn [ps_which set_bmod ps_stack]. rewrite WA2. change (k_array (ps_stack w)) with (arr w). rewrite WA1. reflexivity.
  - cbn [ps_glu set_exp]. rewrite ?glu_work_free. exact WF1.
  - cbn [ps_which set_exp]. rewrite ?which_work_free. exact WA2.
  - unfold arr. cbn [ps_stack set_exp]. change (k_array (ps_stack (work_free ?z))) with (arr (work_free z)).
    rewrite ?work_free_arr. exact WA1.
Qed.

Lemma gstrf_tail_workfail : forall s m a sym p x y t v,
  gstrf_tail s m a sym p x y = FWorkFail t v -> ps_glu t = ps_glu m /\ arr t = arr m /\ ps_which t = ps_which m.
Proof.
  intros s m a sym p x y t v. unfold gstrf_tail.
  pose proof (work_init_all_arr (Z.to_nat (fa_nprocs a)) m a) as WA.
  pose proof (work_init_all_frame (Z.to_nat (fa_nprocs a)) m a) as WF.
  destruct (work_init_all (Z.to_nat (fa_nprocs a)) m a) as [w|w v']; [discriminate|].
  intros H; inversion H; subst. destruct WA, WF. repeat split; assumption.
Qed.

Lemma setup_space_fields : forall s work lwork, 0 <= lwork ->
  ps_which (setup_space s work lwork) = (if 0 <? lwork then USER else SYSTEM) /\
  ((0 <? lwork) = true -> arr (setup_space s work lwork) = work).
Proof.
  intros s work lwork H. unfold setup_space. destruct (lwork =? 0) eqn:E0.
  - apply Z.eqb_eq in E0. rewrite E0. simpl. split; [reflexivity|discriminate].
  - apply Z.eqb_neq in E0. assert (L : (0 <? lwork) = true) by (apply Z.ltb_lt; lia).
    rewrite L. unfold arr; simpl. split; reflexivity.
Qed.

(* ---- a completed FIRST factorization *)
Lemma gstrf_first_done : forall s a sym p lu ok t r,
  0 <= fa_lwork a ->
  gstrf s a c_NO sym p lu ok = FDone t r ->
  fr_vals r = fa_vals a /\ fr_pat r = fa_pat a /\ fr_sym r = sym /\ fr_permc r = fa_permc_in a /\ fr_u r = fa_u a /\
  (fa_usepr a = c_YES -> fr_permr_in r = p) /\
  g_nzlmax (ps_glu t) = fr_nzlmax r /\ g_nzumax (ps_glu t) = fr_nzumax r /\ g_store (ps_glu t) = fr_store r /\
  fr_tmp r = (if 0 <? fa_lwork a then fa_work a else 0) /\
  ps_which t = (if 0 <? fa_lwork a then USER else SYSTEM) /\ ((0 <? fa_lwork a) = true -> arr t = fa_work a).
Proof.
  intros s a sym p lu ok t r Hl. rewrite gstrf_unfold.
  destruct (mem_init (thread_init_glu s a c_NO) a c_NO lu ok) as [m x y z|m v|m v| |] eqn:Q; try discriminate.
  pose proof (mem_init_ok_glu _ _ _ _ _ _ _ _ _ Q) as (A1 & A2 & A3).
  unfold mem_init in Q. cbv zeta in Q. change (c_NO =? c_NO) with true in Q. cbv iota in Q. unfold mem_init_no in Q. cbv zeta in Q.
  destruct (fa_lwork a =? -1) eqn:EL; [discriminate|].
  apply mi_alloc_arr in Q. destruct Q as (B1 & B2 & B3 & B4).
  destruct (setup_space_fields (mi_begin (thread_init_glu s a c_NO) (fa_n a)) (fa_work a) (fa_lwork a) Hl) as [U1 U2].
  intros H. apply gstrf_tail_done in H.
  destruct H as (R1 & R2 & R3 & R4 & R5 & R6 & R7 & R8 & R9 & R10 & R11 & T1 & T2 & T3 & T4).
  rewrite T1, T2, B2, U1, R8, R9, R10, R11, B2, U1.
  repeat split; try assumption; try reflexivity.
  - destruct (0 <? fa_lwork a) eqn:L; [|reflexivity]. simpl. rewrite B1. apply U2; reflexivity.
  - intros L. rewrite T3, B1. apply U2; exact L.
Qed.

(* ---- a REfactorization: the limits are the ones kept in the static Glu, the storage the one passed in *)
Lemma thread_init_glu_yes : forall s a,
  g_nzlmax (ps_glu (thread_init_glu s a c_YES)) = g_nzlmax (ps_glu s) /\
  g_nzumax (ps_glu (thread_init_glu s a c_YES)) = g_nzumax (ps_glu s) /\
  ps_stack (thread_init_glu s a c_YES) = ps_stack s /\ ps_which (thread_init_glu s a c_YES) = ps_which s.
Proof. intros; unfold thread_init_glu; change (c_YES =? c_NO) with false; cbv iota; simpl; repeat split; reflexivity. Qed.

Lemma mem_init_yes_ok : forall s a lu ok m x y z,
  fa_lwork a <> -1 ->
  mem_init s a c_YES lu ok = MOk m x y z ->
  x = g_nzlmax (ps_glu s) /\ y = g_nzumax (ps_glu s) /\ g_store (ps_glu m) = lu_store lu /\ arr m = arr s /\
  ps_which m = (if fa_lwork a =? 0 then SYSTEM else USER).
Proof.
  intros s a lu ok m x y z Hl. unfold mem_init. cbv zeta. change (c_YES =? c_NO) with false. cbv iota.
  destruct (mi_begin_fields s (fa_n a)) as (G & X & N & D & W & K).
  unfold mem_init_yes. cbv zeta. rewrite G.
  destruct (fa_lwork a =? -1) eqn:EL; [apply Z.eqb_eq in EL; contradiction|].
  intros H; inversion H; subst; clear H. unfold arr.
  destruct (fa_lwork a =? 0); simpl; rewrite ?K; repeat split; reflexivity.
Qed.

Lemma gstrf_refact_done : forall s a sym p lu ok t r,
  0 <= fa_lwork a ->
  gstrf s a c_YES sym p lu ok = FDone t r ->
  fr_vals r = fa_vals a /\ fr_pat r = fa_pat a /\ fr_sym r = sym /\ fr_u r = fa_u a /\
  (fa_usepr a = c_YES -> fr_permr_in r = p) /\
  fr_nzlmax r = g_nzlmax (ps_glu s) /\ fr_nzumax r = g_nzumax (ps_glu s) /\ fr_store r = lu_store lu /\
  fr_tmp r = (if fa_lwork a =? 0 then 0 else arr s) /\
  g_nzlmax (ps_glu t) = g_nzlmax (ps_glu s) /\ g_nzumax (ps_glu t) = g_nzumax (ps_glu s) /\ arr t = arr s.
Proof.
  intros s a sym p lu ok t r Hl. rewrite gstrf_unfold.
  destruct (mem_init (thread_init_glu s a c_YES) a c_YES lu ok) as [m x y z|m v|m v| |] eqn:Q; try discriminate.
  pose proof (mem_init_ok_glu _ _ _ _ _ _ _ _ _ Q) as (A1 & A2 & A3).
  apply mem_init_yes_ok in Q; [|lia]. destruct Q as (-> & -> & B3 & B4 & B5).
  destruct (thread_init_glu_yes s a) as (C1 & C2 & C3 & C4).
  intros H. apply gstrf_tail_done in H.
  destruct H as (R1 & R2 & R3 & R4 & R5 & R6 & R7 & R8 & R9 & R10 & R11 & T1 & T2 & T3 & T4).
  rewrite T1, T3, A1, A2, R8, R9, R10, R11, B3, B4, B5, C1, C2. unfold arr. rewrite C3.
  repeat split; try assumption; try reflexivity.
  destruct (fa_lwork a =? 0); reflexivity.
Qed.

Lemma gstrf_refact_workfail : forall s a sym p lu ok t v,
  0 <= fa_lwork a ->
  gstrf s a c_YES sym p lu ok = FWorkFail t v ->
  g_nzlmax (ps_glu t) = g_nzlmax (ps_glu s) /\ g_nzumax (ps_glu t) = g_nzumax (ps_glu s) /\ arr t = arr s.
Proof.
  intros s a sym p lu ok t v Hl. rewrite gstrf_unfold.
  destruct (mem_init (thread_init_glu s a c_YES) a c_YES lu ok) as [m x y z|m v'|m v'| |] eqn:Q; try discriminate.
  pose proof (mem_init_ok_glu _ _ _ _ _ _ _ _ _ Q) as (A1 & A2 & A3).
  apply mem_init_yes_ok in Q; [|lia]. destruct Q as (-> & -> & B3 & B4 & B5).
  destruct (thread_init_glu_yes s a) as (C1 & C2 & C3 & C4).
  intros H. apply gstrf_tail_workfail in H. destruct H as (T1 & T2 & T3).
  rewrite T1, T2, A1, A2, B4, C1, C2. unfold arr. rewrite C3. repeat split; reflexivity.
Qed.

Lemma mi_alloc_not_estimate : forall s a nzl nzu nzlu ok m v, mi_alloc s a nzl nzu nzlu ok <> MEstimate m v.
Proof.
  intros s a nzl nzu nzlu ok m v Q. unfold mi_alloc in Q. destruct (mi_int_arrays _ a) as [[v0 st] io].
  destruct (negb io); [discriminate|].
  destruct (expand v0 _ c_LUSUP _ _ _ _) as [a1 p1 l1|]; [|discriminate]. cbv zeta in Q.
  destruct (expand a1 _ c_UCOL _ _ _ _) as [b1 p2 l2|]; [|discriminate].
  destruct (expand b1 _ c_LSUB _ _ _ _) as [c1 p3 l3|]; [|discriminate].
  destruct (expand c1 _ c_USUB _ _ _ _) as [d1 p4 l4|]; [|discriminate].
  destruct (retry_loop 64 d1 a p2 p3 p4 l3 l4 l1 _ _ ok) as [[[[[[[e1 q1] q2] q3] x1] y1]|]|r1] eqn:QQ; [| discriminate |].
  - destruct (negb (is_some p1)); discriminate.
  - subst r1. apply retry_inr_not_ok in QQ. contradiction.
Qed.

(* a query never reaches the allocation: the limits and the user stack are as before *)
Lemma gstrf_estimate_frame : forall s a refact sym p lu ok t v,
  gstrf s a refact sym p lu ok = FEstimate t v ->
  g_nzlmax (ps_glu t) = g_nzlmax (ps_glu s) /\ g_nzumax (ps_glu t) = g_nzumax (ps_glu s) /\ arr t = arr s.
Proof.
  intros s a refact sym p lu ok t v. rewrite gstrf_unfold.
  destruct (mem_init (thread_init_glu s a refact) a refact lu ok) as [m x y z|m v'|m v'| |] eqn:Q; try discriminate.
  - unfold gstrf_tail. destruct (work_init_all _ _ _); discriminate.
  - intros H; inversion H; subst; clear H.
    assert (TG : g_nzlmax (ps_glu (thread_init_glu s a refact)) = g_nzlmax (ps_glu s) /\
                 g_nzumax (ps_glu (thread_init_glu s a refact)) = g_nzumax (ps_glu s) /\ ps_stack (thread_init_glu s a refact) = ps_stack s)
      by (unfold thread_init_glu; destruct (refact =? c_NO); simpl; repeat split; reflexivity).
    destruct TG as (T1 & T2 & T3).
    unfold mem_init in Q. cbv zeta in Q.
    destruct (mi_begin_fields (thread_init_glu s a refact) (fa_n a)) as (G & X & N & D & W & K).
    destruct (refact =? c_NO).
    + unfold mem_init_no in Q. cbv zeta in Q. destruct (fa_lwork a =? -1).
      * inversion Q; subst. unfold arr. rewrite G, K, T1, T2, T3. repeat split; reflexivity.
      * exfalso. eapply mi_alloc_not_estimate; exact Q.
    + unfold mem_init_yes in Q. cbv zeta in Q. destruct (fa_lwork a =? -1); [|discriminate].
      inversion Q; subst. unfold arr. rewrite G, K, T1, T2, T3. repeat split; reflexivity.
Qed.

(* ---------------------------------------------------------------------- the session invariant *)
(* What a history on ONE session maintains between the hidden state and the objects the caller holds:
   the limits kept in the static Glu are the sizes the session's L and U were allocated with; in user mode stack.array is
   the session's work buffer; valid factors are factors of the values now in A, computed with the symbolic data the session
   holds, inside the session's storage. *)
Definition inv (s : pstate) (se : sess) : Prop :=
  match s_fac se with
  | None => True
  | Some f =>
      g_nzlmax (ps_glu s) = f_nzlmax f /\ g_nzumax (ps_glu s) = f_nzumax f /\
      (f_user f = true -> arr s = f_work f) /\
      (f_user f = (0 <? f_lwork f)) /\ 0 <= f_lwork f /\
      (f_ok f = true ->
         fr_vals (f_reads f) = s_vals se /\ fr_sym (f_reads f) = s_sym se /\
         fr_nzlmax (f_reads f) = f_nzlmax f /\ fr_nzumax (f_reads f) = f_nzumax f /\
         fr_store (f_reads f) = lu_store (f_lu f) /\ s_permr se = PRfrom (f_op f))
  end.

(* the caller's obligations (documented usage, EXAMPLE/pdrepeat.c, pdlinsolx1.c): a refactorization passes the work
   space of the first factorization again; lwork = -1 is a query and goes through OQuery *)
Definition wf_op (se : sess) (o : op) : Prop :=
  match o with
  | OFirst a _ => 0 <= fa_lwork a
  | ORefact a _ => 0 <= fa_lwork a /\
                   match s_fac se with Some f0 => fa_lwork a = f_lwork f0 /\ fa_work a = f_work f0 | None => True end
  | _ => True
  end.

(* what "correct for the values current at that call" means for the read-set of the numerical phase *)
Definition out_ok (se : sess) (o : op) (out : outcome) : Prop :=
  match o, out with
  | OFirst a opid, RFactor r _ _ =>
      fr_vals r = fa_vals a /\ fr_pat r = fa_pat a /\ fr_sym r = opid /\ fr_permc r = fa_permc_in a /\ fr_u r = fa_u a /\
      fr_tmp r = (if 0 <? fa_lwork a then fa_work a else 0)
  | ORefact a opid, RFactor r _ _ =>
      exists f0, s_fac se = Some f0 /\
      fr_vals r = fa_vals a /\ fr_pat r = fa_pat a /\ fr_u r = fa_u a /\
      fr_sym r = s_sym se /\                                       (* the etree / colcnt_h / part_super_h the session holds *)
      (fa_usepr a = c_YES -> fr_permr_in r = permr_id (s_permr se)) /\   (* the perm_r the session holds *)
      fr_nzlmax r = f_nzlmax f0 /\ fr_nzumax r = f_nzumax f0 /\    (* limits checked = sizes allocated *)
      fr_store r = lu_store (f_lu f0) /\                            (* written into the session's storage *)
      fr_tmp r = (if 0 <? fa_lwork a then fa_work a else 0)         (* work arrays inside the session's work space *)
  | OSolve _ t b, RSolve r t' b' _ =>
      exists f, s_fac se = Some f /\ r = f_reads f /\ t' = t /\ b' = b /\
      fr_vals r = s_vals se /\ fr_sym r = s_sym se /\ s_permr se = PRfrom (f_op f)   (* no stale L, U, perm_r, etree *)
  | _, _ => True
  end.

Lemma query_space_frame : forall s, ps_glu (fst (query_space s)) = ps_glu s /\ arr (fst (query_space s)) = arr s.
Proof. intros s; unfold query_space; simpl; split; reflexivity. Qed.

Lemma gstrf_estimate_lwork : forall s a refact sym p lu ok t v,
  gstrf s a refact sym p lu ok = FEstimate t v -> fa_lwork a = -1.
Proof.
  intros s a refact sym p lu ok t v. rewrite gstrf_unfold.
  destruct (mem_init (thread_init_glu s a refact) a refact lu ok) as [m x y z|m v'|m v'| |] eqn:Q; try discriminate.
  - unfold gstrf_tail. destruct (work_init_all _ _ _); discriminate.
  - intros _. unfold mem_init in Q. cbv zeta in Q. destruct (refact =? c_NO).
    + unfold mem_init_no in Q. cbv zeta in Q. destruct (fa_lwork a =? -1) eqn:E; [apply Z.eqb_eq; exact E|].
      exfalso. eapply mi_alloc_not_estimate; exact Q.
    + unfold mem_init_yes in Q. cbv zeta in Q. destruct (fa_lwork a =? -1) eqn:E; [apply Z.eqb_eq; exact E|discriminate].
Qed.

Lemma gstrf_refact_not_memfail : forall s a sym p lu ok t v, gstrf s a c_YES sym p lu ok <> FMemFail t v.
Proof.
  intros s a sym p lu ok t v. rewrite gstrf_unfold.
  destruct (mem_init (thread_init_glu s a c_YES) a c_YES lu ok) as [m x y z|m v'|m v'| |] eqn:Q; try discriminate.
  - unfold gstrf_tail. destruct (work_init_all _ _ _); discriminate.
  - exfalso. unfold mem_init in Q. cbv zeta in Q. change (c_YES =? c_NO) with false in Q. cbv iota in Q.
    unfold mem_init_yes in Q. cbv zeta in Q. destruct (fa_lwork a =? -1); discriminate.
Qed.

Lemma inv_frame : forall s t se, g_nzlmax (ps_glu t) = g_nzlmax (ps_glu s) -> g_nzumax (ps_glu t) = g_nzumax (ps_glu s) -> arr t = arr s ->
  inv s se -> inv t se.
Proof. intros s t se A B C. unfold inv. destruct (s_fac se) as [f|]; [|auto]. rewrite A, B, C. auto. Qed.

Lemma step_inv : forall ex s se o,
  inv s se -> wf_op se o ->
  inv (fst (fst (step ex (s, se) o))) (snd (fst (step ex (s, se) o))) /\ out_ok se o (snd (step ex (s, se) o)).
Proof.
  intros ex s se o HI W. destruct o as [a opid|a opid|ex' t b|a refact opid restore| |]; unfold step.
  - (* first *)
    simpl in W.
    destruct (gstrf s a c_NO opid (permr_id (s_permr se)) (mkLU 0) true) as [t1 r|t1 v|t1 v|t1 v| |] eqn:Q.
    + apply gstrf_first_done in Q; [|exact W].
      destruct Q as (R1 & R2 & R3 & R4 & R5 & R6 & G1 & G2 & G3 & R7 & T1 & T2).
      assert (II : inv t1 (set_sess_fac se (fa_vals a) opid (PRfrom opid) opid
                     (Some (mkF r opid true (mkLU (fr_store r)) (fr_nzlmax r) (fr_nzumax r) (g_nzlumax (ps_glu t1)) (ps_which t1 =? USER)
                                (fa_work a) (fa_lwork a) (if ps_which t1 =? USER then k_top1 (ps_stack t1) else 0))) (fa_usepr a))).
      { unfold inv; simpl. rewrite T1. repeat split; try assumption; try reflexivity.
        - destruct (0 <? fa_lwork a) eqn:L; simpl; [intros _; apply T2; reflexivity|discriminate].
        - destruct (0 <? fa_lwork a); reflexivity. }
      destruct ex.
      * destruct (query_space t1) as [t2 e] eqn:QS. simpl.
        pose proof (query_space_frame t1) as [F1 F2]. rewrite QS in F1, F2. simpl in F1, F2.
        split; [|repeat split; assumption].
        eapply inv_frame; [| | |exact II]; [rewrite F1; reflexivity|rewrite F1; reflexivity|exact F2].
      * simpl. split; [exact II|repeat split; assumption].
    + apply gstrf_estimate_lwork in Q. lia.
    + simpl. split; exact Logic.I.
    + simpl. split; exact Logic.I.
    + simpl. split; [exact HI|exact Logic.I].
    + simpl. split; [exact HI|exact Logic.I].
  - (* refact *)
    simpl in W. destruct W as [Wl W].
    destruct (s_fac se) as [f0|] eqn:SF; [|simpl; split; [unfold inv; rewrite SF; exact Logic.I|exact Logic.I]].
    destruct W as [W1 W2].
    assert (HI0 := HI). unfold inv in HI0. rewrite SF in HI0. destruct HI0 as (I1 & I2 & I3 & I4 & I5 & I6).
    destruct (gstrf s a c_YES (s_sym se) (permr_id (s_permr se)) (f_lu f0) true) as [t1 r|t1 v|t1 v|t1 v| |] eqn:Q.
    + apply gstrf_refact_done in Q; [|exact Wl].
      destruct Q as (R1 & R2 & R3 & R4 & R5 & R6 & R7 & R8 & R9 & G1 & G2 & G3).
      assert (TMP : fr_tmp r = (if 0 <? fa_lwork a then fa_work a else 0)).
      { rewrite R9. destruct (fa_lwork a =? 0) eqn:E0.
        - apply Z.eqb_eq in E0. rewrite E0. reflexivity.
        - apply Z.eqb_neq in E0. assert (L : (0 <? fa_lwork a) = true) by (apply Z.ltb_lt; lia). rewrite L.
          rewrite W2. apply I3. rewrite I4, <- W1. exact L. }
      assert (II : inv t1 (set_sess_fac se (fa_vals a) (s_permc se) (PRfrom opid) (s_sym se)
                     (Some (mkF r opid true (f_lu f0) (f_nzlmax f0) (f_nzumax f0) (f_nzlumax f0) (f_user f0) (f_work f0) (f_lwork f0) (f_used f0)))
                     (fa_usepr a))).
      { unfold inv; simpl. rewrite G1, G2, G3. repeat split; try assumption; try congruence. }
      assert (OK : out_ok se (ORefact a opid) (RFactor r ex 0)).
      { simpl. exists f0. rewrite SF. repeat split; try assumption; try congruence. }
      destruct ex.
      * destruct (query_space t1) as [t2 e] eqn:QS. simpl.
        pose proof (query_space_frame t1) as [F1 F2]. rewrite QS in F1, F2. simpl in F1, F2.
        split; [eapply inv_frame; [| | |exact II]; [rewrite F1; reflexivity|rewrite F1; reflexivity|exact F2]|].
        simpl in OK. exact OK.
      * simpl. split; [exact II|exact OK].
    + apply gstrf_estimate_lwork in Q. lia.
    + exfalso. eapply gstrf_refact_not_memfail; exact Q.
    + apply gstrf_refact_workfail in Q; [|exact Wl]. destruct Q as (G1 & G2 & G3). simpl.
      split; [|exact Logic.I]. unfold inv; simpl. rewrite G1, G2, G3.
      split; [exact I1|split; [exact I2|split; [exact I3|split; [exact I4|split; [exact I5|intros X; discriminate X]]]]].
    + simpl. split; [exact HI|exact Logic.I].
    + simpl. split; [exact HI|exact Logic.I].
  - (* solve *)
    destruct (s_fac se) as [f|] eqn:SF; [|simpl; split; [exact HI|exact Logic.I]].
    destruct (negb (f_ok f)) eqn:OKF; [simpl; split; [exact HI|exact Logic.I]|].
    apply negb_false_iff in OKF.
    assert (HI0 := HI). unfold inv in HI0. rewrite SF in HI0. destruct HI0 as (I1 & I2 & I3 & I4 & I5 & I6).
    destruct (I6 OKF) as (J1 & J2 & J3 & J4 & J5 & J6).
    destruct ex'.
    + destruct (query_space s) as [t2 e] eqn:QS. simpl.
      pose proof (query_space_frame s) as [F1 F2]. rewrite QS in F1, F2. simpl in F1, F2.
      split; [eapply inv_frame; [| | |exact HI]; [rewrite F1; reflexivity|rewrite F1; reflexivity|exact F2]|].
      exists f. rewrite SF. repeat split; assumption.
    + simpl. split; [exact HI|]. exists f. rewrite SF. repeat split; assumption.
  - (* query *)
    destruct (gstrf s a refact (if refact =? c_NO then opid else s_sym se) (permr_id (s_permr se)) (lu_of se) true) as [t1 r|t1 v|t1 v|t1 v| |] eqn:Q;
      try (simpl; split; [exact HI|exact Logic.I]).
    apply gstrf_estimate_frame in Q. destruct Q as (E1 & E2 & E3). simpl. split; [|exact Logic.I].
    unfold inv in *; simpl. destruct (s_fac se) as [f|]; [|exact Logic.I].
    destruct HI as (I1 & I2 & I3 & I4 & I5 & I6). rewrite E1, E2, E3.
    split; [exact I1|split; [exact I2|split; [exact I3|split; [exact I4|split; [exact I5|]]]]].
    intros K. destruct (I6 K) as (J1 & J2 & J3 & J4 & J5 & J6).
    split; [exact J1|split; [exact J2|split; [exact J3|split; [exact J4|split; [exact J5|exact J6]]]]].
  - (* qspace *)
    destruct (s_fac se) as [f|] eqn:SF; [|simpl; split; [exact HI|exact Logic.I]].
    destruct (query_space s) as [t2 e] eqn:QS. simpl.
    pose proof (query_space_frame s) as [F1 F2]. rewrite QS in F1, F2. simpl in F1, F2.
    split; [eapply inv_frame; [| | |exact HI]; [rewrite F1; reflexivity|rewrite F1; reflexivity|exact F2]|exact Logic.I].
  - (* destroy *)
    simpl. split; [unfold inv; simpl; exact Logic.I|exact Logic.I].
Qed.

(* ---------------------------------------------------------------------- histories *)
Fixpoint hist_ok (st : pstate * sess) (h : list (bool * op)) : Prop :=
  match h with
  | [] => True
  | (ex, o) :: r => wf_op (snd st) o /\ hist_ok (fst (step ex st o)) r
  end.

Fixpoint outs_ok (st : pstate * sess) (h : list (bool * op)) : Prop :=
  match h with
  | [] => True
  | (ex, o) :: r => out_ok (snd st) o (snd (step ex st o)) /\ outs_ok (fst (step ex st o)) r
  end.

Lemma history_correct_inv : forall h s se, inv s se -> hist_ok (s, se) h -> outs_ok (s, se) h.
Proof.
  induction h as [|[ex o] r IH]; intros s se HI HW; [exact Logic.I|].
  cbn [hist_ok snd] in HW. cbn [outs_ok snd]. destruct HW as [W HR].
  destruct (step_inv ex s se o HI W) as [I' O'].
  split; [exact O'|].
  destruct (step ex (s, se) o) as [[s1 se1] out]. cbn [fst snd] in *. apply IH; assumption.
Qed.

(* the outcomes checked by [outs_ok] are exactly those produced by [run] *)
Fixpoint outcomes (st : pstate * sess) (h : list (bool * op)) : list outcome :=
  match h with
  | [] => []
  | (ex, o) :: r => snd (step ex st o) :: outcomes (fst (step ex st o)) r
  end.
Lemma run_outcomes : forall h st, snd (run st h) = outcomes st h.
Proof.
  induction h as [|[ex o] r IH]; intros st; [reflexivity|]. cbn [run outcomes].
  destruct (step ex st o) as [st1 out]. specialize (IH st1). destruct (run st1 r) as [st2 outs]. cbn [fst snd] in *. rewrite IH. reflexivity.
Qed.

(* a solve with existing factors leaves every object of the session as it was (A's values, L, U, perm_r, perm_c, the
   symbolic arrays, the usepr flag) *)
Lemma solve_readonly : forall ex ex' s se t b, snd (fst (step ex (s, se) (OSolve ex' t b))) = se.
Proof.
  intros ex ex' s se t b. unfold step. destruct (s_fac se) as [f|]; [|reflexivity].
  destruct (negb (f_ok f)); [reflexivity|]. destruct ex'; reflexivity.
Qed.
Lemma qspace_readonly : forall ex s se, snd (fst (step ex (s, se) OQSpace)) = se.
Proof. intros ex s se. unfold step. destruct (s_fac se); reflexivity. Qed.

(* non-vacuity of the invariant and of the well-formedness predicate: a concrete history first / refactor(usepr) / solve *)
Definition hist_example : list (bool * op) :=
  [(true, OFirst some_fargs 1);
   (false, ORefact (mkFA 4 8 1 3 0 2 2 1 1000 c_YES 0 0 8 20 16 (-50) (-50) (-30) 0 16 78) 2);
   (true, OSolve true 1 3); (true, OQSpace);
   (true, OQuery (mkFA 4 8 1 3 0 1 2 1 1000 0 (-1) 0 8 20 16 (-50) (-50) (-30) 0 16 79) c_YES 5 true);
   (true, OSolve true 0 6)].
Lemma hist_example_ok : hist_ok (pstate0, sess0 1 4 8 8) hist_example.
Proof. vm_compute. repeat split; intros; try discriminate; reflexivity. Qed.
Lemma hist_example_runs :
  map mask_exp (snd (run (pstate0, sess0 1 4 8 8) hist_example)) =
  let r1 := mkFR 1 2 0 1 1000 0 0 1 2 1 240 400 77 0 20 16 20 16 0 in
  let r2 := mkFR 1 3 0 1 1000 c_YES 1 2 2 1 240 400 77 0 20 16 20 16 0 in
  [RFactor r1 true 0; RFactor r2 false 0; RSolve r2 1 3 None; RQSpace 0; REstimate 7108; RSolve r2 0 6 None].
Proof. vm_compute. reflexivity. Qed.

(* an lwork = -1 query has "no other side effects": nothing the caller holds changes (since /repo 9b35ce7; before that
   p?gstrf_thread_init filled perm_r with EMPTY ahead of the early return, findings/C08-query-clobbers-perm_r.md) *)
Lemma query_readonly : forall ex s se a refact opid restore, snd (fst (step ex (s, se) (OQuery a refact opid restore))) = se.
Proof.
  intros ex s se a refact opid restore. unfold step.
  destruct (gstrf s a refact _ _ _ true); try reflexivity. destruct se; reflexivity.
Qed.

(* a defect the model exposes on the paths the property talks about *)

(* two sessions on one pattern and precision, each with its own user work space W1, W2: the refactorization of the
       first session carves the threads' work arrays out of W2 (stack.array is only set on the refact = NO path) *)
Definition twin_fargs (vals work fresh usepr : Z) : fargs := mkFA 4 8 1 vals 0 1 2 1 1000 usepr 4096 work 8 20 16 (-50) (-50) (-30) 0 16 fresh.
Lemma refact_twin_user_workspace_stale :
  let P0 := proc0 [sess0 1 4 8 8; sess0 1 4 8 8] in
  let P1 := fst (pstep P0 true 0 1 (OFirst (twin_fargs 1 1001 2001 0) 1)) in
  let P2 := fst (pstep P1 true 1 1 (OFirst (twin_fargs 2 1002 2002 0) 2)) in
  exists r e, snd (pstep P2 true 0 1 (ORefact (twin_fargs 3 1001 2003 0) 3)) = RFactor r true e /\ fr_store r = 1001 /\ fr_tmp r = 1002.
Proof. vm_compute. eexists; eexists; repeat split; reflexivity. Qed.

(* ====================================================================== part 5: the pivot rule with reuse of old pivots *)
Fixpoint colmax (c : list (Z * Z)) (acc : Z) : Z :=
  match c with [] => acc | (_, m) :: r => colmax r (if acc <? m then m else acc) end.

(* scan over a suffix c2 of the column c1 ++ c2, started at index |c1| *)
Definition optr_ok (c : list (Z * Z)) (orow : Z) (o : option nat) : Prop :=
  match o with Some k => (k < length c)%nat /\ nth_row c k = orow | None => True end.

Lemma scan_inv : forall c2 c1 pm pp u orow op drow dg M P O D,
  scan c2 (length c1) pm pp u orow op drow dg = (M, P, O, D) ->
  M = colmax c2 pm /\
  ((pp < length (c1 ++ c2))%nat -> (P < length (c1 ++ c2))%nat) /\
  (c2 <> [] -> pp = length c1 -> (P < length (c1 ++ c2))%nat) /\
  (optr_ok (c1 ++ c2) orow op -> optr_ok (c1 ++ c2) orow O) /\
  (u = true -> (op <> None \/ In orow (map fst c2)) -> O <> None) /\
  (u = false -> O = op) /\
  (match dg with Some d => (d < length (c1 ++ c2))%nat | None => True end ->
   match D with Some d => (d < length (c1 ++ c2))%nat | None => True end).
Proof.
  induction c2 as [|[row mag] r IH]; intros c1 pm pp u orow op drow dg M P O D H.
  - simpl in H. inversion H; subst. rewrite app_nil_r. repeat split; auto.
    + intros X; contradiction X; reflexivity.
    + intros _ [X|[]]; exact X.
  - cbn [scan] in H.
    assert (L : length (c1 ++ [(row, mag)]) = S (length c1)) by (rewrite app_length; simpl; lia).
    assert (LL : (length c1 < length (c1 ++ (row, mag) :: r))%nat) by (rewrite app_length; simpl; lia).
    assert (OP : forall opx, optr_ok (c1 ++ (row, mag) :: r) orow opx ->
                 optr_ok (c1 ++ (row, mag) :: r) orow (if u && (row =? orow) then Some (length c1) else opx)).
    { intros opx X. destruct (u && (row =? orow)) eqn:E; [|exact X].
      apply andb_true_iff in E. destruct E as [_ E]. apply Z.eqb_eq in E. simpl. split; [exact LL|].
      unfold nth_row. rewrite app_nth2 by lia. rewrite Nat.sub_diag. simpl. exact E. }
    assert (ON : u = true -> (op <> None \/ In orow (map fst ((row, mag) :: r))) ->
                 ((if u && (row =? orow) then Some (length c1) else op) <> None \/ In orow (map fst r))).
    { intros U X. destruct (u && (row =? orow)) eqn:E; [left; discriminate|].
      destruct X as [X|[X|X]]; [left; exact X| |right; exact X].
      simpl in X. subst row. rewrite U, Z.eqb_refl in E. discriminate E. }
    destruct (pm <? mag) eqn:EM; rewrite <- L in H; apply IH in H; rewrite <- app_assoc in H; simpl in H;
      destruct H as (H1 & H2 & H3 & H4 & H5 & H6 & H7); cbn [colmax]; rewrite EM.
    + split; [exact H1|]. split; [intros _; apply H2; exact LL|]. split; [intros _ _; apply H2; exact LL|].
      split; [intros X; apply H4; apply OP; exact X|].
      split; [intros U X; apply H5; [exact U|apply ON; assumption]|].
      split; [intros U; rewrite U in H6; simpl in H6; apply H6; reflexivity|].
      intros X. apply H7. destruct (row =? drow); [exact LL|exact X].
    + split; [exact H1|]. split; [exact H2|]. split; [intros _ E; apply H2; rewrite E; exact LL|].
      split; [intros X; apply H4; apply OP; exact X|].
      split; [intros U X; apply H5; [exact U|apply ON; assumption]|].
      split; [intros U; rewrite U in H6; simpl in H6; apply H6; reflexivity|].
      intros X. apply H7. destruct (row =? drow); [exact LL|exact X].
Qed.

Lemma nth_row_in : forall c k, (k < length c)%nat -> In (nth_row c k) (map fst c).
Proof. intros c k H. unfold nth_row. rewrite <- (map_nth fst). apply nth_In. rewrite map_length. exact H. Qed.

(* the pivot row recorded is always one of the candidate rows -- whatever perm_r was handed in (since /repo 62bc935 a
   requested row that is not a candidate makes the routine give up reuse instead of recording it) *)
Lemma pivotL_row_in : forall jcol c usepr oldrow diagrow un ud,
  c <> [] -> In (pv_row (pivotL jcol c usepr oldrow diagrow un ud)) (map fst c).
Proof.
  intros jcol c usepr oldrow diagrow un ud NE. unfold pivotL.
  destruct (scan c 0 0 0%nat usepr oldrow None diagrow None) as [[[M P] O] D] eqn:S.
  pose proof (scan_inv c [] 0 0%nat usepr oldrow None diagrow None M P O D S) as (H1 & H2 & H3 & H4 & H5 & H6 & H7).
  simpl in H2, H3, H4, H5, H7.
  assert (LP : (P < length c)%nat) by (apply H3; [exact NE|reflexivity]).
  assert (LD : match D with Some d => (d < length c)%nat | None => True end) by (apply H7; exact Logic.I).
  assert (LO : optr_ok c oldrow O) by (apply H4; exact Logic.I).
  destruct (M =? 0).
  { simpl. apply Nat.ltb_lt in LP. rewrite LP. apply nth_row_in. apply Nat.ltb_lt; exact LP. }
  destruct usepr.
  - destruct O as [o|].
    + destruct LO as [LO RO]. destruct (passes (nth_mag c o) M un ud); simpl.
      * rewrite <- RO. apply nth_row_in; exact LO.
      * destruct D as [d|]; [destruct (passes (nth_mag c d) M un ud); apply nth_row_in; assumption|apply nth_row_in; exact LP].
    + simpl. destruct D as [d|]; [destruct (passes (nth_mag c d) M un ud); apply nth_row_in; assumption|apply nth_row_in; exact LP].
  - simpl. destruct D as [d|]; [destruct (passes (nth_mag c d) M un ud); apply nth_row_in; assumption|apply nth_row_in; exact LP].
Qed.

Lemma nth_map_pair : forall (rows : list Z) (mg : Z -> Z) k d, (k < length rows)%nat ->
  nth k (map (fun r => (r, mg r)) rows) d = (nth k rows 0, mg (nth k rows 0)).
Proof.
  induction rows as [|x r IH]; intros mg k d H; simpl in H; [lia|].
  destruct k; simpl; [reflexivity|]. apply IH. lia.
Qed.

(* when reuse is on, the old pivot row is a candidate and its entry passes the threshold, the old row is kept and
   reuse stays on *)
Lemma pivotL_keeps_old : forall jcol rows mg oldrow diagrow un ud,
  In oldrow rows ->
  passes (mg oldrow) (colmax (map (fun r => (r, mg r)) rows) 0) un ud = true ->
  colmax (map (fun r => (r, mg r)) rows) 0 <> 0 ->
  pv_row (pivotL jcol (map (fun r => (r, mg r)) rows) true oldrow diagrow un ud) = oldrow /\
  pv_usepr (pivotL jcol (map (fun r => (r, mg r)) rows) true oldrow diagrow un ud) = true /\
  pv_info (pivotL jcol (map (fun r => (r, mg r)) rows) true oldrow diagrow un ud) = 0.
Proof.
  intros jcol rows mg oldrow diagrow un ud HI HP HM. unfold pivotL.
  set (c := map (fun r => (r, mg r)) rows) in *.
  destruct (scan c 0 0 0%nat true oldrow None diagrow None) as [[[M P] O] D] eqn:S.
  pose proof (scan_inv c [] 0 0%nat true oldrow None diagrow None M P O D S) as (H1 & H2 & H3 & H4 & H5 & H6 & H7).
  simpl in H2, H3, H4, H5, H7. subst M.
  assert (IN : In oldrow (map fst c)) by (subst c; rewrite map_map; simpl; rewrite map_id; exact HI).
  assert (ON : O <> None) by (apply H5; [reflexivity|right; exact IN]).
  assert (LO : optr_ok c oldrow O) by (apply H4; exact Logic.I).
  destruct O as [o|]; [|contradiction ON; reflexivity]. destruct LO as [LO RO].
  assert (MO : nth_mag c o = mg oldrow).
  { rewrite <- RO. unfold nth_mag, nth_row, c. rewrite nth_map_pair; [reflexivity|].
    unfold c in LO. rewrite map_length in LO. exact LO. }
  apply Z.eqb_neq in HM. rewrite HM. rewrite MO, HP. simpl. repeat split; reflexivity.
Qed.

(* ---- the whole elimination *)
Definition oldprefix (oldpiv : Z -> Z) (j : nat) : list Z := map (fun k => oldpiv (Z.of_nat k)) (seq 0 j).

Lemma oldprefix_S : forall oldpiv j, oldprefix oldpiv (S j) = oldprefix oldpiv j ++ [oldpiv (Z.of_nat j)].
Proof. intros; unfold oldprefix; rewrite seq_S, map_app; reflexivity. Qed.

Lemma NoDup_snoc : forall (l : list Z) x, NoDup l -> ~ In x l -> NoDup (l ++ [x]).
Proof.
  induction l as [|y l IH]; intros x ND NI; simpl.
  - constructor; [intros []|constructor].
  - inversion ND; subst. constructor.
    + intros X. apply in_app_or in X. destruct X as [X|[X|[]]]; [contradiction|]. subst. apply NI. left; reflexivity.
    + apply IH; [assumption|]. intros X. apply NI. right; exact X.
Qed.

Section Elimination.
  Variable cand : list Z -> Z -> list Z.
  Variable mag : list Z -> Z -> Z -> Z.
  Variable oldpiv : Z -> Z.
  Variable diagrow : Z -> Z.
  Variables un ud : Z.

  (* the symbolic structure: candidates are rows not yet used as pivots, and there is always one (structurally nonsingular) *)
  Hypothesis cand_fresh : forall piv j r, In r (cand piv j) -> ~ In r piv.
  Variable N : nat.      (* order of the matrix *)
  Hypothesis cand_nonempty : forall piv j, (j < N)%nat -> length piv = j -> cand piv (Z.of_nat j) <> [].
  (* the old pivots were produced on this structure *)
  Hypothesis old_on_pattern : forall j, (j < N)%nat -> In (oldpiv (Z.of_nat j)) (cand (oldprefix oldpiv j) (Z.of_nat j)).

  Definition col (piv : list Z) (j : Z) : list (Z * Z) := map (fun r => (r, mag piv j r)) (cand piv j).

  (* rows chosen are distinct candidates, whatever perm_r was handed in *)
  Lemma eliminate_valid : forall m k piv usepr,
    (k + m <= N)%nat -> NoDup piv -> length piv = k ->
    NoDup (fst (eliminate m (Z.of_nat k) cand mag oldpiv diagrow un ud usepr piv)) /\
    length (fst (eliminate m (Z.of_nat k) cand mag oldpiv diagrow un ud usepr piv)) = (k + m)%nat.
  Proof.
    induction m as [|m IH]; intros k piv usepr BND ND LEN; [simpl; split; [exact ND|lia]|].
    cbn [eliminate]. fold (col piv (Z.of_nat k)).
    set (r := pivotL (Z.of_nat k) (col piv (Z.of_nat k)) usepr (oldpiv (Z.of_nat k)) (diagrow (Z.of_nat k)) un ud).
    assert (NE : col piv (Z.of_nat k) <> []).
    { unfold col. intros X. apply map_eq_nil in X. exact (cand_nonempty piv k ltac:(lia) LEN X). }
    assert (FST : map fst (col piv (Z.of_nat k)) = cand piv (Z.of_nat k)) by (unfold col; rewrite map_map; simpl; apply map_id).
    assert (IN : In (pv_row r) (cand piv (Z.of_nat k))) by (rewrite <- FST; apply pivotL_row_in; exact NE).
    replace (Z.of_nat k + 1) with (Z.of_nat (S k)) by lia.
    destruct (IH (S k) (piv ++ [pv_row r]) (pv_usepr r)) as [A B].
    - lia.
    - apply NoDup_snoc; [exact ND|]. intros X. exact (cand_fresh _ _ _ IN X).
    - rewrite app_length; simpl; lia.
    - split; [exact A|rewrite B; lia].
  Qed.

  (* every old pivot passes the threshold on the new values: perm_r comes back unchanged and reuse is still on *)
  Definition old_passes (j : nat) : Prop :=
    passes (mag (oldprefix oldpiv j) (Z.of_nat j) (oldpiv (Z.of_nat j))) (colmax (col (oldprefix oldpiv j) (Z.of_nat j)) 0) un ud = true /\
    colmax (col (oldprefix oldpiv j) (Z.of_nat j)) 0 <> 0.

  Lemma eliminate_keeps_old : forall m k,
    (k + m <= N)%nat ->
    (forall j, (k <= j < k + m)%nat -> old_passes j) ->
    eliminate m (Z.of_nat k) cand mag oldpiv diagrow un ud true (oldprefix oldpiv k) = (oldprefix oldpiv (k + m), true).
  Proof.
    induction m as [|m IH]; intros k BND HP; [simpl; rewrite Nat.add_0_r; reflexivity|].
    cbn [eliminate].
    destruct (HP k ltac:(lia)) as [P1 P2].
    destruct (pivotL_keeps_old (Z.of_nat k) (cand (oldprefix oldpiv k) (Z.of_nat k)) (mag (oldprefix oldpiv k) (Z.of_nat k))
                (oldpiv (Z.of_nat k)) (diagrow (Z.of_nat k)) un ud (old_on_pattern k ltac:(lia)) P1 P2) as (R1 & R2 & R3).
    rewrite R1, R2. rewrite <- oldprefix_S.
    replace (Z.of_nat k + 1) with (Z.of_nat (S k)) by lia.
    rewrite IH; [f_equal; f_equal; lia|lia|]. intros j Hj. apply HP. lia.
  Qed.
End Elimination.

(* ---- non-vacuity of the hypotheses of the Elimination section: a dense 2 x 2 pattern *)
Definition cand2 (piv : list Z) (j : Z) : list Z := filter (fun r => negb (existsb (Z.eqb r) piv)) [0; 1].
Definition old2 (j : Z) : Z := 1 - j.

Lemma cand2_fresh : forall piv j r, In r (cand2 piv j) -> ~ In r piv.
Proof.
  intros piv j r H X. unfold cand2 in H. apply filter_In in H. destruct H as [_ H]. apply negb_true_iff in H.
  assert (E : existsb (Z.eqb r) piv = true) by (apply existsb_exists; exists r; split; [exact X|apply Z.eqb_refl]).
  rewrite E in H. discriminate H.
Qed.
Lemma cand2_nonempty : forall piv j, (j < 2)%nat -> length piv = j -> cand2 piv (Z.of_nat j) <> [].
Proof.
  intros piv j H L. destruct piv as [|x [|y r]]; simpl in L; try lia.
  - vm_compute. discriminate.
  - destruct (Z.eq_dec x 0) as [->|N0]; [vm_compute; discriminate|].
    unfold cand2. cbn [filter existsb]. replace (0 =? x) with false by (symmetry; apply Z.eqb_neq; lia).
    cbn [orb negb]. discriminate.
Qed.
Lemma old2_on_pattern : forall j, (j < 2)%nat -> In (old2 (Z.of_nat j)) (cand2 (oldprefix old2 j) (Z.of_nat j)).
Proof. intros j H. destruct j as [|[|j]]; [vm_compute; auto|vm_compute; auto|lia]. Qed.

(* old pivots (rows 1, 0) pass on the new values: unchanged and flag still YES; old pivot of column 0 fails with u = 1:
   a different, valid, permutation and the flag drops to NO *)
Lemma usepr_examples :
  eliminate 2 0 cand2 (fun _ _ r => if r =? 1 then 5 else 4) old2 (fun j => j) 1 2 true [] = ([1; 0], true) /\
  eliminate 2 0 cand2 (fun _ j r => if (j =? 0) && (r =? 1) then 4 else 5) old2 (fun j => j) 1 1 true [] = ([0; 1], false).
Proof. split; vm_compute; reflexivity. Qed.

(* a perm_r that does not come from this pattern (requested row 7 is never a candidate): reuse is given up at once and an
   ordinary pivot search produces a valid permutation (before /repo 62bc935 the requested row was recorded: [7; 7]) *)
Lemma usepr_foreign_perm : eliminate 2 0 cand2 (fun _ _ _ => 3) (fun _ => 7) (fun j => j) 1 1 true [] = ([0; 1], false).
Proof. vm_compute; reflexivity. Qed.

(* ---- storage of a refactorization *)
(* subscripts of L and the arrays of U: the limits Glu_alloc compares with are the sizes the session's storage was allocated
   with, so the factorization stays inside it or takes the XPAND_HINT abort (pmemory.c:176-178, 218-220) *)
Lemma refact_limits_are_allocation : forall ex s se a opid r e x,
  inv s se -> wf_op se (ORefact a opid) -> snd (step ex (s, se) (ORefact a opid)) = RFactor r e x ->
  exists f0, s_fac se = Some f0 /\ fr_nzlmax r = f_nzlmax f0 /\ fr_nzumax r = f_nzumax f0 /\ fr_store r = lu_store (f_lu f0).
Proof.
  intros ex s se a opid r e x HI W Q. destruct (step_inv ex s se (ORefact a opid) HI W) as [_ O].
  rewrite Q in O. simpl in O. destruct O as (f0 & A & _ & _ & _ & _ & _ & B & C & D & _). exists f0. auto.
Qed.

(* the supernodal values (LUSUP) have no such check: ?PresetMap lays out fa_preset entries in an array that was allocated
   with the first factorization's value; if relax (or maxsuper) differs the call still proceeds *)
Lemma refact_lusup_unchecked : exists s se a opid f0 r e x,
  s_fac se = Some f0 /\ f_nzlumax f0 < fa_preset a /\ inv s se /\ wf_op se (ORefact a opid) /\
  snd (step true (s, se) (ORefact a opid)) = RFactor r e x.
Proof.
  set (st := fst (step true (pstate0, sess0 1 4 8 8) (OFirst some_fargs 1))).
  exists (fst st), (snd st), (mkFA 4 8 1 3 0 1 2 6 1000 0 0 0 8 20 16 (-50) (-50) (-30) 0 40 78), 2.
  vm_compute. do 4 eexists. repeat split; try reflexivity; try (intros; discriminate).
Qed.

(* ---- C18: the block sizes cached by p?gstrf_bmod2D are read before they are written when first = 0 *)
Lemma first_factor_ienv_cache : exists s1 s2 se a opid,
  snd (step true (s1, se) (OFirst a opid)) <> snd (step true (s2, se) (OFirst a opid)).
Proof.
  exists pstate0, (set_bmod pstate0 false 200 200), (sess0 1 4 8 8), some_fargs, 1.
  vm_compute. intros H; discriminate H.
Qed.

(* ---- statements as used in Properties_C08.v *)
Lemma history_correct_fresh : forall (h : list (bool * op)) (s : pstate) (pat n annz dword : Z),
  hist_ok (s, sess0 pat n annz dword) h -> outs_ok (s, sess0 pat n annz dword) h.
Proof. intros h s pat n annz dword; apply history_correct_inv; exact Logic.I. Qed.

Lemma usepr_semantics_all : forall (cand : list Z -> Z -> list Z) (mag : list Z -> Z -> Z -> Z) (oldpiv diagrow : Z -> Z) (un ud : Z) (N : nat),
  (forall piv j r, In r (cand piv j) -> ~ In r piv) ->
  (forall piv j, (j < N)%nat -> length piv = j -> cand piv (Z.of_nat j) <> []) ->
  ((forall j, (j < N)%nat -> In (oldpiv (Z.of_nat j)) (cand (oldprefix oldpiv j) (Z.of_nat j))) ->
   (forall j, (j < N)%nat -> old_passes cand mag oldpiv un ud j) ->
   eliminate N 0 cand mag oldpiv diagrow un ud true [] = (oldprefix oldpiv N, true)) /\
  (forall usepr, NoDup (fst (eliminate N 0 cand mag oldpiv diagrow un ud usepr [])) /\
                 length (fst (eliminate N 0 cand mag oldpiv diagrow un ud usepr [])) = N).
Proof.
  intros cand mag oldpiv diagrow un ud N H1 H2. split.
  - intros H3 HP. apply (eliminate_keeps_old cand mag oldpiv diagrow un ud N H3 N 0%nat); [apply le_n|]. intros j Hj. apply HP. apply Hj.
  - intros usepr. apply (eliminate_valid cand mag oldpiv diagrow un ud H1 N H2 N 0%nat [] usepr); [apply le_n|constructor|reflexivity].
Qed.

(* the hypotheses of usepr_semantics_all are satisfiable (dense 2 x 2 pattern) and both of its branches occur *)
Lemma usepr_semantics_nonvacuous :
  (forall piv j r, In r (cand2 piv j) -> ~ In r piv) /\
  (forall piv j, (j < 2)%nat -> length piv = j -> cand2 piv (Z.of_nat j) <> []) /\
  (forall j, (j < 2)%nat -> In (old2 (Z.of_nat j)) (cand2 (oldprefix old2 j) (Z.of_nat j))) /\
  (forall j, (j < 2)%nat -> old_passes cand2 (fun _ _ r => if r =? 1 then 5 else 4) old2 1 2 j).
Proof.
  split; [exact cand2_fresh|]. split; [exact cand2_nonempty|]. split; [exact old2_on_pattern|].
  intros j H. destruct j as [|[|j]]; [vm_compute; split; [reflexivity|discriminate]|vm_compute; split; [reflexivity|discriminate]|lia].
Qed.

(* ====================================================================== part 7: the user stack after fix 'tail blocks are
   aligned by the allocator' (?user_malloc puts a TAIL block on an 8-byte boundary inside its critical section) *)
Ltac lia8 := Z.div_mod_to_equations; lia.

Lemma tail_extra_bounds : forall k b, 0 <= tail_extra k b < 8.
Proof. intros. unfold tail_extra. lia8. Qed.

(* a granted TAIL request takes  bytes + extra,  0 <= extra < 8, tested against the room left, and starts on a boundary *)
Lemma user_malloc_tail_granted : forall k b off k',
  user_malloc k b TAIL = (Some off, k') ->
  let extra := tail_extra k b in
  0 <= extra < 8 /\ stack_full k b = false /\ stack_full k (b + extra) = false /\ off mod 8 = 0 /\
  off = k_top2 k - (b + extra) /\
  k' = mkStack (k_size k) (k_used k + (b + extra)) (k_top1 k) (k_top2 k - (b + extra)) (k_array k).
Proof.
  intros k b off k'. unfold user_malloc. destruct (stack_full k b); [discriminate|].
  change (TAIL =? HEAD) with false. cbv iota zeta.
  destruct (stack_full k (b + tail_extra k b)); [discriminate|].
  intros H; inversion H; subst. split; [apply tail_extra_bounds|].
  repeat split; try reflexivity. unfold tail_extra. lia8.
Qed.

Lemma user_malloc_tail_aligned : forall k b off k', user_malloc k b TAIL = (Some off, k') -> off mod 8 = 0.
Proof. intros k b off k' H. apply user_malloc_tail_granted in H. cbv zeta in H. tauto. Qed.

Lemma user_malloc_head_granted : forall k b off k',
  user_malloc k b HEAD = (Some off, k') ->
  stack_full k b = false /\ off = k_top1 k /\
  k' = mkStack (k_size k) (k_used k + b) (k_top1 k + b) (k_top2 k) (k_array k).
Proof.
  intros k b off k'. unfold user_malloc. destruct (stack_full k b); [discriminate|].
  change (HEAD =? HEAD) with true. cbv iota. intros H; inversion H; subst. auto.
Qed.

Lemma user_malloc_refused_unchanged : forall k b e k', user_malloc k b e = (None, k') -> k' = k.
Proof.
  intros k b e k'. unfold user_malloc. destruct (stack_full k b); [intros H; inversion H; reflexivity|].
  destruct (e =? HEAD); [discriminate|]. cbv zeta.
  destruct (stack_full k (b + tail_extra k b)); [intros H; inversion H; reflexivity|discriminate].
Qed.

(* p?gstrf_WorkInit without its alignment fix-up ... *)
Definition work_init_one_nofix (s : pstate) (a : fargs) : wres :=
  let '(isize, dsize) := work_sizes a in
  if ps_which s =? SYSTEM then WOk s
  else
    let '(p, k1) := user_malloc (ps_stack s) isize TAIL in
    match p with
    | None => WFail (set_stack s k1) (isize + fa_n a)
    | Some _ =>
        let '(q, k2) := user_malloc k1 dsize TAIL in
        match q with
        | None => WFail (set_stack s k2) (isize + dsize + fa_n a)
        | Some _ => WOk (set_stack s k2)
        end
    end.

(* ... is what p?gstrf_WorkInit does: the fix-up (second critical section top2 -= extra; used += extra) is dead code *)
Lemma work_init_one_no_fixup : forall s a, work_init_one s a = work_init_one_nofix s a.
Proof.
  intros s a. unfold work_init_one, work_init_one_nofix. destruct (work_sizes a) as [isz dsz].
  destruct (ps_which s =? SYSTEM); [reflexivity|].
  destruct (user_malloc (ps_stack s) isz TAIL) as [p k1]. destruct p as [o|]; [|reflexivity].
  destruct (user_malloc k1 dsz TAIL) as [q k2] eqn:E. destruct q as [off|]; [|reflexivity].
  apply user_malloc_tail_aligned in E. rewrite E. reflexivity.
Qed.

(* the arithmetic invariant of the two-ended stack *)
Definition kinv (k : ustack) : Prop :=
  0 <= k_top1 k /\ k_top1 k <= k_top2 k /\ k_top2 k <= k_size k /\ k_used k = k_top1 k + (k_size k - k_top2 k).

Lemma user_malloc_kinv : forall k b e, 0 <= b -> kinv k -> kinv (snd (user_malloc k b e)).
Proof.
  intros k b e Hb (H1 & H12 & H2 & Hu). unfold user_malloc. destruct (stack_full k b) eqn:F; [simpl; unfold kinv; auto|].
  unfold stack_full in F. apply Z.leb_gt in F.
  destruct (e =? HEAD); [unfold kinv; simpl; lia|]. cbv zeta.
  pose proof (tail_extra_bounds k b) as Hx.
  destruct (stack_full k (b + tail_extra k b)) eqn:F2; [simpl; unfold kinv; auto|].
  unfold stack_full in F2. apply Z.leb_gt in F2. unfold kinv; simpl. lia.
Qed.

(* the work arrays of a thread: the HEAD part (top1: L, U and the integer arrays) is never touched, top2 never drops below
   top1 -- the shift of a misaligned dwork used to be done without testing the room left *)
Lemma work_init_one_kinv : forall s a,
  0 <= fst (work_sizes a) -> 0 <= snd (work_sizes a) -> kinv (ps_stack s) ->
  match work_init_one s a with
  | WOk s' | WFail s' _ => kinv (ps_stack s') /\ k_top1 (ps_stack s') = k_top1 (ps_stack s) /\
                           k_top2 (ps_stack s') <= k_top2 (ps_stack s) /\ k_size (ps_stack s') = k_size (ps_stack s)
  end.
Proof.
  intros s a Hi Hd Hk. rewrite work_init_one_no_fixup. unfold work_init_one_nofix.
  destruct (work_sizes a) as [isz dsz]. simpl in Hi, Hd.
  destruct (ps_which s =? SYSTEM); [split; [exact Hk|lia]|].
  pose proof (user_malloc_kinv (ps_stack s) isz TAIL Hi Hk) as K1.
  destruct (user_malloc (ps_stack s) isz TAIL) as [p k1] eqn:E1. simpl in K1. destruct p as [o|].
  - apply user_malloc_tail_granted in E1. cbv zeta in E1. destruct E1 as (X1 & _ & _ & _ & _ & E1).
    pose proof (user_malloc_kinv k1 dsz TAIL Hd K1) as K2.
    destruct (user_malloc k1 dsz TAIL) as [q k2] eqn:E2. simpl in K2. destruct q as [off|].
    + apply user_malloc_tail_granted in E2. cbv zeta in E2. destruct E2 as (X2 & _ & _ & _ & _ & E2).
      cbn [ps_stack set_stack]. split; [exact K2|]. subst k2 k1. cbn [k_top1 k_top2 k_size] in *. lia.
    + apply user_malloc_refused_unchanged in E2. subst k2.
      cbn [ps_stack set_stack]. split; [exact K1|]. subst k1. cbn [k_top1 k_top2 k_size]. lia.
  - apply user_malloc_refused_unchanged in E1. subst k1. cbn [ps_stack set_stack]. split; [exact Hk|]. lia.
Qed.

Lemma work_init_all_kinv : forall p s a,
  0 <= fst (work_sizes a) -> 0 <= snd (work_sizes a) -> kinv (ps_stack s) ->
  match work_init_all p s a with
  | WOk s' | WFail s' _ => kinv (ps_stack s') /\ k_top1 (ps_stack s') = k_top1 (ps_stack s) /\
                           k_top2 (ps_stack s') <= k_top2 (ps_stack s) /\ k_size (ps_stack s') = k_size (ps_stack s)
  end.
Proof.
  induction p as [|p IH]; intros s a Hi Hd Hk; simpl; [split; [exact Hk|lia]|].
  pose proof (work_init_one_kinv s a Hi Hd Hk) as O.
  destruct (work_init_one s a) as [s1|s1 v]; [|exact O].
  destruct O as (K1 & T1 & T2 & SZ). specialize (IH s1 a Hi Hd K1).
  destruct (work_init_all p s1 a); destruct IH as (K & A & B & C); (split; [exact K|]); lia.
Qed.

(* the probes ?user_malloc(0, HEAD) / ?user_malloc(0, TAIL) by which [observe] is read off the implementation
   (harness pr_state): the HEAD probe never changes the stack; the TAIL probe is neutral and returns top2 exactly when
   top2 is on an 8-byte boundary -- otherwise it now returns top2 - top2 mod 8 and TAKES the slack (or is refused when
   the slack does not fit).  top2 is off a boundary only while no thread has taken its work arrays and lwork is not a
   multiple of 8 (SetupSpace / MemInit set top2 = lwork; every TAIL block ends on a boundary). *)
Lemma user_malloc_probe_neutral : forall k e,
  stack_full k 0 = false -> (e = HEAD \/ (e = TAIL /\ k_top2 k mod 8 = 0)) ->
  user_malloc k 0 e = (Some (if e =? HEAD then k_top1 k else k_top2 k), k).
Proof.
  intros [sz us t1 t2 ar] e F [->|[-> H]]; unfold user_malloc; rewrite F.
  - change (HEAD =? HEAD) with true. cbv iota. cbn [k_size k_used k_top1 k_top2 k_array].
    rewrite !Z.add_0_r. reflexivity.
  - change (TAIL =? HEAD) with false. cbv iota zeta. unfold tail_extra. cbn [k_size k_used k_top1 k_top2 k_array] in *.
    rewrite Z.sub_0_r, H. change (0 + 0) with 0. rewrite F. rewrite !Z.add_0_r, Z.sub_0_r. reflexivity.
Qed.

Lemma user_malloc_probe_tail_misaligned : forall k,
  stack_full k 0 = false -> k_top2 k mod 8 <> 0 ->
  let x := k_top2 k mod 8 in
  user_malloc k 0 TAIL =
    if stack_full k x then (None, k)
    else (Some (k_top2 k - x), mkStack (k_size k) (k_used k + x) (k_top1 k) (k_top2 k - x) (k_array k)).
Proof.
  intros k F H x. unfold user_malloc. rewrite F. change (TAIL =? HEAD) with false. cbv iota zeta.
  unfold tail_extra. rewrite Z.sub_0_r. fold x. rewrite Z.add_0_l. reflexivity.
Qed.

(* non-vacuity: a 1001-byte buffer (end misaligned), n = 4, panel 2, double: isize = 192, dsize = (8 + 72) * 8 = 640;
   iwork takes 193 bytes (offset 808), dwork 640 (offset 168): both on 8-byte boundaries, no fix-up *)
Example work_init_one_misaligned_end :
  let a := mkFA 4 8 1 2 0 1 2 1 1000 0 1001 7 8 20 16 (-50) (-50) (-30) 0 16 77 in
  let s := set_stack (set_which pstate0 USER) (mkStack 1001 100 100 1001 7) in
  work_sizes a = (192, 640) /\
  user_malloc (ps_stack s) 192 TAIL = (Some 808, mkStack 1001 293 100 808 7) /\
  work_init_one s a = WOk (set_stack s (mkStack 1001 933 100 168 7)).
Proof. vm_compute. auto. Qed.
