(* SchedBusy.v -- C03, column level: the busy snapshot taken by pxgstrf_mark_busy_descends (SRC/pxgstrf_mark_busy_descends.c)
   covers every column of every descendant panel that is not DONE when the panel is handed out.

     mark_busy s jcol bcol fsup   = the columns k with lbusy[k] = jcol after the call:
        bcol relaxed supernode : its size(bcol) columns, then the etree path from bcol + size(bcol) up to (excluding) jcol
        otherwise               : the columns fsup .. bcol-1 of the supernode containing bcol-1 (fsup is read from the dynamic
                                  supernode table, the "pessimistic assumption" of the code), then the etree path from bcol

   SchedPipe.pipeline_handout shows that the descendants that are not DONE are the panels x with  anc b x /\ anc x jcol
   (one chain, b at the bottom).  Here: every column of every panel of that chain is in mark_busy (chain_columns_marked),
   for every forest satisfying three static, decidable conditions that the correspondence evaluates on the real
   ParallelInit image of every run:
     forestb : k < etree[k] <= n
     chainb  : the columns of a regular panel form a path  k -> k+1  (ParallelInit does not let a panel cross a branch point)
     postb   : the first column after a relaxed supernode climbs to the parent of the supernode's root (postorder)  *)
From Coq Require Import ZArith List Bool Lia.
From SLU Require Import Consts SchedModel SchedBase SchedInv SchedSteps SchedCall1 SchedCall2 SchedCall3 SchedProofs SchedPipe.
Import ListNotations.
Local Open Scope Z_scope.

Definition zrange (a len : Z) : list Z := map (fun i => a + Z.of_nat i) (seq 0 (Z.to_nat len)).

Lemma in_zrange a len c : In c (zrange a len) <-> a <= c < a + len.
Proof.
  unfold zrange. rewrite in_map_iff. split.
  - intros (i & <- & Hi). apply in_seq in Hi. lia.
  - intros H. exists (Z.to_nat (c - a)). split; [lia|]. apply in_seq. lia.
Qed.

(* for (kcol = k; kcol < jcol; kcol = etree[kcol]) lbusy[kcol] = jcol; *)
Fixpoint path (fuel : nat) (et : list Z) (k jcol : Z) : list Z :=
  match fuel with
  | O => []
  | S f => if k <? jcol then k :: path f et (nthZ et k) jcol else []
  end.

Definition mark_busy (s : sstate) (jcol bcol fsup : Z) : list Z :=
  if bcol <? jcol then
    if nthZ (ptype s) bcol =? c_RELAXED_SNODE
    then zrange bcol (sz s bcol) ++ path (S (Z.to_nat (sn s))) (etree s) (bcol + sz s bcol) jcol
    else zrange fsup (bcol - fsup) ++ path (S (Z.to_nat (sn s))) (etree s) bcol jcol
  else [].

(* ---- static conditions ---- *)
Definition forestb (s : sstate) : bool :=
  forallb (fun k => (k <? nthZ (etree s) k) && (nthZ (etree s) k <=? sn s)) (cols (sn s)).
Definition chainb (s : sstate) : bool :=
  forallb (fun p => negb (lead s p && (nthZ (ptype s) p =? c_REGULAR_PANEL)) ||
                    forallb (fun k => nthZ (etree s) k =? k + 1) (zrange p (sz s p - 1))) (cols (sn s)).
Definition postb (s : sstate) : bool :=
  forallb (fun p => negb (lead s p && (nthZ (ptype s) p =? c_RELAXED_SNODE)) ||
                    (sn s <=? dadpanel s p) ||
                    existsb (Z.eqb (dadpanel s p)) (path (S (Z.to_nat (sn s))) (etree s) (p + sz s p) (dadpanel s p + 1)))
          (cols (sn s)).

(* m is reached from k by climbing the etree *)
Inductive reach (s : sstate) : Z -> Z -> Prop :=
| reach_refl k : reach s k k
| reach_step k m : 0 <= k < sn s -> reach s (nthZ (etree s) k) m -> reach s k m.

Lemma reach_trans s a b c : reach s a b -> reach s b c -> reach s a c.
Proof. induction 1; auto. intros H2. apply reach_step; auto. Qed.

Section STATIC.
Variable s : sstate.
Hypothesis W : WF s.
Hypothesis HF : forestb s = true.
Hypothesis HC : chainb s = true.
Hypothesis HP : postb s = true.

Lemma forest_up k : 0 <= k < sn s -> k < nthZ (etree s) k <= sn s.
Proof.
  intros Hk. unfold forestb in HF. rewrite forallb_forall in HF. specialize (HF k (proj2 (in_cols _ _) Hk)).
  apply andb_true_iff in HF. destruct HF as [A B]. apply Z.ltb_lt in A. apply Z.leb_le in B. lia.
Qed.

Lemma reach_le a b : reach s a b -> a <= b.
Proof. induction 1 as [|k m Hk _ IH]; [lia|]. pose proof (forest_up k Hk). lia. Qed.

(* every node met on the way from k to m, m below jcol, is written by the loop *)
Lemma path_complete : forall (fuel : nat) k m jcol, reach s k m -> m < jcol -> jcol <= sn s -> 0 <= k ->
  (Z.to_nat (jcol - k) <= fuel)%nat -> In m (path fuel (etree s) k jcol).
Proof.
  induction fuel as [|f IH]; intros k m jcol R Hm Hj Hk0 Hf.
  - pose proof (reach_le _ _ R). lia.
  - cbn [path]. pose proof (reach_le _ _ R) as Hle.
    destruct (k <? jcol) eqn:E; [|apply Z.ltb_ge in E; lia].
    inversion R as [|k' m' Hk R']; subst; [left; reflexivity|].
    right. pose proof (forest_up k Hk). apply IH; auto; lia.
Qed.

Lemma path_sound : forall (fuel : nat) k jcol c, In c (path fuel (etree s) k jcol) -> c < jcol.
Proof.
  induction fuel as [|f IH]; intros k jcol c H; cbn [path] in H; [contradiction|].
  destruct (k <? jcol) eqn:E; [|contradiction]. apply Z.ltb_lt in E.
  destruct H as [<-|H]; [exact E | eapply IH; eauto].
Qed.

(* the loop visits nodes reached from its start *)
Lemma path_reach : forall (fuel : nat) k jcol c, 0 <= k -> jcol <= sn s -> In c (path fuel (etree s) k jcol) -> reach s k c.
Proof.
  induction fuel as [|f IH]; intros k jcol c Hk Hj H; cbn [path] in H; [contradiction|].
  destruct (k <? jcol) eqn:E; [|contradiction]. apply Z.ltb_lt in E.
  destruct H as [<-|H]; [constructor|].
  assert (Hr : 0 <= k < sn s) by lia. apply reach_step; auto. pose proof (forest_up k Hr). eapply IH; eauto. lia.
Qed.

(* columns of a regular panel: p -> p+1 -> ... *)
Lemma chain_step p k : lead s p = true -> regular s p -> p <= k < p + sz s p - 1 -> nthZ (etree s) k = k + 1.
Proof.
  intros L R Hk. unfold chainb in HC. rewrite forallb_forall in HC.
  pose proof (lead_range _ _ L) as [Hr _]. specialize (HC p (proj2 (in_cols _ _) Hr)).
  rewrite L in HC. unfold regular in R. rewrite R, Z.eqb_refl in HC. cbn [andb negb orb] in HC.
  rewrite forallb_forall in HC. specialize (HC k). apply Z.eqb_eq, HC. apply in_zrange. lia.
Qed.

Lemma panel_reach p : lead s p = true -> regular s p -> forall t : nat, Z.of_nat t < sz s p -> reach s p (p + Z.of_nat t).
Proof.
  intros L R. pose proof (lead_range _ _ L) as [Hr _]. pose proof (wf_fit _ W p L) as Hfit.
  induction t as [|t IH]; intros Ht; [replace (p + Z.of_nat 0) with p by lia; constructor|].
  eapply reach_trans; [apply IH; lia|].
  apply reach_step; [lia|]. rewrite (chain_step p (p + Z.of_nat t) L R) by lia.
  replace (p + Z.of_nat t + 1) with (p + Z.of_nat (S t)) by lia. constructor.
Qed.

(* from the first column of a regular chain panel y up to the first column of any panel above it *)
Lemma anc_reach y x : anc s y x -> (lead s y = true -> regular s y) -> reach s y x.
Proof.
  induction 1 as [y|y x L A IH]; intros Hreg; [constructor|].
  specialize (Hreg L). pose proof (lead_range _ _ L) as [Hr Hsz]. pose proof (wf_fit _ W y L) as Hfit.
  eapply reach_trans; [apply (panel_reach y L Hreg (Z.to_nat (sz s y - 1))); lia|].
  replace (y + Z.of_nat (Z.to_nat (sz s y - 1))) with (y + sz s y - 1) by lia.
  apply reach_step; [lia|]. fold (dadpanel s y). apply IH.
  intros L'. pose proof (wf_dad _ W y L) as Hd.
  destruct (Z_lt_dec (dadpanel s y) (sn s)) as [Hlt|Hge]; [exact (proj2 (wf_dadlead _ W y L Hlt))|].
  exfalso. pose proof (lead_range _ _ L') as [Hr' _]. lia.
Qed.

Lemma post_reach p : lead s p = true -> relaxed s p -> dadpanel s p < sn s -> reach s (p + sz s p) (dadpanel s p).
Proof.
  intros L R Hd. unfold postb in HP. rewrite forallb_forall in HP.
  pose proof (lead_range _ _ L) as [Hr Hsz]. specialize (HP p (proj2 (in_cols _ _) Hr)).
  rewrite L in HP. unfold relaxed in R. rewrite R, Z.eqb_refl in HP. cbn [andb negb orb] in HP.
  apply orb_true_iff in HP. destruct HP as [H|H]; [apply Z.leb_le in H; lia|].
  apply existsb_exists in H. destruct H as (c & Hin & Ec). apply Z.eqb_eq in Ec. subst c.
  eapply path_reach; [lia | | exact Hin]. lia.
Qed.

(* ---- the theorem ---- *)
Theorem chain_columns_marked j b fsup x c :
  lead s j = true \/ j = sn s -> anc s b j -> b <> j ->
  anc s b x -> anc s x j -> x <> j -> x <= c < x + sz s x ->
  In c (mark_busy s j b fsup).
Proof.
  intros Lj Abj Hbj Abx Axj Hxj Hc.
  pose proof (anc_le _ _ _ W Abj) as Hle. assert (Hb : b < j) by lia.
  assert (Lb : lead s b = true) by exact (anc_lead _ _ _ Abj Hbj).
  assert (Lx : lead s x = true) by exact (anc_lead _ _ _ Axj Hxj).
  assert (Hjn : j <= sn s) by (destruct Lj as [Lj| ->]; [pose proof (lead_range _ _ Lj); lia | lia]).
  pose proof (lead_range _ _ Lb) as [Hrb Hszb]. pose proof (lead_range _ _ Lx) as [Hrx Hszx].
  pose proof (wf_fit _ W x Lx) as Hfitx.
  (* the last column of x is below j *)
  assert (Hcj : c < j).
  { inversion Axj as [|x' j' L' A']; subst; [congruence|].
    pose proof (anc_le _ _ _ W A') as Hdj. assert (Hl : 0 <= x + sz s x - 1 < sn s) by lia.
    pose proof (forest_up _ Hl) as Hup. unfold dadpanel in Hdj. lia. }
  unfold mark_busy. assert (E : (b <? j) = true) by (apply Z.ltb_lt; lia). rewrite E.
  destruct (Z.eq_dec x b) as [->|Hxb].
  - (* the bottom panel itself *)
    destruct (nthZ (ptype s) b =? c_RELAXED_SNODE) eqn:Et; apply in_or_app.
    + left. apply in_zrange. lia.
    + right. assert (Rb : regular s b).
      { destruct (wf_types _ W b Lb) as [R|R]; auto. unfold relaxed in R. rewrite R, Z.eqb_refl in Et. discriminate. }
      apply path_complete; try lia.
      replace c with (b + Z.of_nat (Z.to_nat (c - b))) by lia. apply panel_reach; auto. lia.
  - (* a panel above the bottom: regular, reached through the parent of the bottom panel *)
    inversion Abx as [|b' x' Lb' Adx]; subst; [congruence|].
    assert (Hdlt : dadpanel s b < sn s).
    { pose proof (anc_le _ _ _ W Adx). lia. }
    destruct (wf_dadlead _ W b Lb Hdlt) as [Ld Rd].
    assert (Rdx : reach s (dadpanel s b) x) by (apply anc_reach; auto).
    assert (Rx : regular s x).
    { inversion Adx as [|d x' Ld' A']; subst; [exact Rd|].
      clear - W Adx Rd Ld Lx. revert Rd Ld. induction Adx as [y|y x L A IH]; intros Rd Ld; [exact Rd|].
      pose proof (wf_dad _ W y L) as Hd.
      destruct (Z_lt_dec (dadpanel s y) (sn s)) as [Hlt|Hge].
      - destruct (wf_dadlead _ W y L Hlt) as [L2 R2]. apply IH; auto.
      - inversion A as [|d x' Ld' A']; subst; [pose proof (lead_range _ _ Lx); lia | pose proof (lead_range _ _ Ld'); lia]. }
    assert (Rxc : reach s x c).
    { replace c with (x + Z.of_nat (Z.to_nat (c - x))) by lia. apply panel_reach; auto. lia. }
    destruct (nthZ (ptype s) b =? c_RELAXED_SNODE) eqn:Et; apply in_or_app; right.
    + apply Z.eqb_eq in Et. pose proof (wf_fit _ W b Lb) as Hfitb.
      apply path_complete; try lia.
      eapply reach_trans; [apply post_reach; auto|]. eapply reach_trans; eauto.
    + assert (Rb : regular s b).
      { destruct (wf_types _ W b Lb) as [R|R]; auto. unfold relaxed in R. rewrite R, Z.eqb_refl in Et. discriminate. }
      apply path_complete; try lia.
      eapply reach_trans; [apply (anc_reach b (dadpanel s b))|].
      * apply anc_step; auto. constructor.
      * intros _. exact Rb.
      * eapply reach_trans; eauto.
Qed.

End STATIC.

Lemma forallb_ext' {A} (f g : A -> bool) l : (forall x, f x = g x) -> forallb f l = forallb g l.
Proof. intros H. induction l as [|a l IH]; cbn; [reflexivity|]. now rewrite H, IH. Qed.

(* no step changes the static fields (size, etree, panel sizes and types) *)
Lemma step_static g l g' : Inv g -> gstep g l = Some g' -> same_static (gs g) (gs g').
Proof.
  intros HI Hs. destruct g as [s th]. destruct l as [t|t|t]; cbn [gstep gs thr] in Hs;
    destruct (thr_get th t) as [m cur] eqn:G.
  - destruct (inb t (Z.of_nat (length th)) && (m =? M_WORK) && kids_done s cur); [|discriminate].
    inversion Hs; subst g'. cbn [gs]. destruct s; repeat split.
  - destruct (inb t (Z.of_nat (length th)) && (m =? M_TEST)); [|discriminate].
    inversion Hs; subst g'. cbn [gs]. apply same_static_refl.
  - destruct (inb t (Z.of_nat (length th)) && (m =? M_READY)) eqn:E; [|discriminate].
    rewrite !andb_true_iff in E. destruct E as (E1 & E2). apply inb_true in E1. apply Z.eqb_eq in E2. subst m.
    destruct (sched s cur) as [[s' j] b] eqn:Es. inversion Hs; subst g'. cbn [gs].
    exact (proj1 (proj2 (proj2 (inv_call s th t cur HI E1 G s' j b Es)))).
Qed.

Lemma run_static ls : forall g g', Inv g -> grun g ls = Some g' -> same_static (gs g) (gs g').
Proof.
  induction ls as [|l r IH]; intros g g' HI Hr; cbn [grun] in Hr.
  - inversion Hr; subst. apply same_static_refl.
  - destruct (gstep g l) as [g1|] eqn:E; [|discriminate].
    eapply same_static_trans; [eapply step_static; eauto|]. eapply IH; [eapply step_inv; eauto | exact Hr].
Qed.

(* the static conditions only read fields that no step changes *)
Lemma static_conditions_frame s s' : same_static s s' ->
  forestb s' = forestb s /\ chainb s' = chainb s /\ postb s' = postb s.
Proof.
  intros (En & Ee & Es & Et).
  assert (Hl : forall p, lead s' p = lead s p) by (intros p; unfold lead, sz; now rewrite En, Es).
  assert (Hd : forall p, dadpanel s' p = dadpanel s p) by (intros p; unfold dadpanel, sz; now rewrite Ee, Es).
  assert (Hz : forall p, sz s' p = sz s p) by (intros p; unfold sz; now rewrite Es).
  unfold forestb, chainb, postb. rewrite En, Ee, Et.
  repeat split; apply forallb_ext'; intros p; rewrite ?Hl, ?Hd, ?Hz; reflexivity.
Qed.

(* C03, column level: in every reachable state, when the scheduler hands panel j with bcol b to a worker, every column
   of every proper descendant panel of j that is not DONE is in the busy snapshot the worker takes -- so the symbolic
   step skips it and the numeric step waits for it; everything the worker uses without waiting is DONE (final). *)
Theorem busy_columns_marked s0 P g t cur s' j b fsup x c :
  reachable s0 P g -> 0 <= t < tlen (thr g) -> thr_get (thr g) t = (M_READY, cur) ->
  sched (gs g) cur = (s', j, b) -> j <> c_EMPTY ->
  forestb s0 = true -> chainb s0 = true -> postb s0 = true ->
  anc s' x j -> x <> j -> st s' x <> c_DONE -> x <= c < x + sz s' x ->
  In c (mark_busy s' j b fsup).
Proof.
  intros R Ht G Es Hj HF HC HP Ax Hx Hnd Hc.
  pose proof (pipeline_handout s0 P g t cur s' j b R Ht G Es Hj) as (Abj & _ & _ & Hall).
  destruct (Hall x Ax Hx) as [_ Hanc]. specialize (Hanc Hnd).
  pose proof (reachable_inv s0 P g R) as HI.
  destruct g as [s th]. cbn [gs thr] in *.
  pose proof (inv_call s th t cur HI Ht G s' j b Es) as (HI' & _ & FS & _ & Hpost).
  destruct (Hpost Hj) as (Lj & _ & _ & _).
  pose proof (inv_wf _ HI') as W'. cbn [gs] in W'.
  (* static conditions travel from the initial state to s' *)
  assert (FS0 : same_static s0 s').
  { destruct R as [Hc0 (ls & Hr)].
    assert (FSr : same_static s0 s) by (exact (run_static ls _ _ (init_inv s0 P Hc0) Hr)).
    exact (same_static_trans _ _ _ FSr FS). }
  destruct (static_conditions_frame s0 s' FS0) as (E1 & E2 & E3).
  assert (Lj' : lead s' j = true).
  { destruct FS as (En & Ee & Esz & Et). unfold lead, sz. rewrite En, Esz. exact Lj. }
  assert (Hbj : b <> j).
  { intros ->. pose proof (anc_le _ _ _ W' Ax). pose proof (anc_le _ _ _ W' Hanc). lia. }
  apply (chain_columns_marked s' W' ltac:(congruence) ltac:(congruence) ltac:(congruence) j b fsup x c); auto.
Qed.
