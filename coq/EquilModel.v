(* EquilModel.v  (property C11)
   Executable model of ?gsequ (SRC/dgsequ.c:91-190), ?laqgs (SRC/dlaqgs.c:88-145) and of the
   equilibration wiring of p?gssvx (SRC/pdgssvx.c:412-428, 519-570), written once over a record of
   arithmetic operations and instantiated with
     - Coq primitive floats (binary64): evaluated by vm_compute and compared BIT FOR BIT with the
       d (real) and z (complex, modulus z_abs1, scaling zd_mult) C code,
     - the real numbers (EquilProofs.v), for the exact-arithmetic theorems.
   Definitions only. *)
Require Import ZArith List Bool Floats.
From SLU Require Import Consts.
Import ListNotations.

(* ------------------------------------------------------------------ arithmetic *)
(* T: the real scalar type (double);  V: the type of a matrix entry (double, or a pair for z) *)
Record arith := mkArith {
  T : Type; V : Type;
  zero : T; one : T;
  mul : T -> T -> T; div : T -> T -> T;
  ltb : T -> T -> bool;      (* a < b  *)
  leb : T -> T -> bool;      (* a <= b *)
  eqb : T -> T -> bool;      (* a == b *)
  vabs : V -> T;             (* fabs(a)  /  z_abs1(&a) = |re| + |im| *)
  vscale : V -> T -> V       (* a *= s   /  zd_mult(&a, &a, s)       *)
}.

Section Model.
Variable ar : arith.
Notation T := (T ar).  Notation V := (V ar).

(* SUPERLU_MAX(a,b) ((a) > (b) ? (a) : (b)),  SUPERLU_MIN(a,b) ((a) < (b) ? (a) : (b)) *)
Definition fmax (a b : T) : T := if ltb ar b a then a else b.
Definition fmin (a b : T) : T := if ltb ar a b then a else b.

(* a sparse matrix in the order the C loops visit it: for j, for i in colptr[j]..colptr[j+1]-1 *)
Record entry := mkEntry { e_row : nat; e_col : nat; e_val : V }.
Record smatrix := mkSM { sm_nrow : nat; sm_ncol : nat; sm_ents : list entry }.

Fixpoint upd (l : list T) (i : nat) (x : T) : list T :=
  match l, i with
  | [], _ => []
  | _ :: t, O => x :: t
  | h :: t, S i' => h :: upd t i' x
  end.

(* r[irow] = SUPERLU_MAX(r[irow], fabs(Aval[i]));   None = index outside the array *)
Fixpoint rowmax_loop (es : list entry) (r : list T) : option (list T) :=
  match es with
  | [] => Some r
  | e :: t =>
    match nth_error r (e_row e) with
    | None => None
    | Some x => rowmax_loop t (upd r (e_row e) (fmax x (vabs ar (e_val e))))
    end
  end.

(* c[j] = SUPERLU_MAX(c[j], fabs(Aval[i]) * r[irow]) *)
Fixpoint colmax_loop (es : list entry) (r c : list T) : option (list T) :=
  match es with
  | [] => Some c
  | e :: t =>
    match nth_error r (e_row e), nth_error c (e_col e) with
    | Some ri, Some cj => colmax_loop t r (upd c (e_col e) (fmax cj (mul ar (vabs ar (e_val e)) ri)))
    | _, _ => None
    end
  end.

(* rcmax = SUPERLU_MAX(rcmax, v[i]); rcmin = SUPERLU_MIN(rcmin, v[i]) *)
Fixpoint minmax_loop (v : list T) (rcmin rcmax : T) : T * T :=
  match v with
  | [] => (rcmin, rcmax)
  | x :: t => minmax_loop t (fmin rcmin x) (fmax rcmax x)
  end.

(* for (i = 0; ...) if (v[i] == 0.) { *info = base + i + 1; return; } *)
Fixpoint first_zero (v : list T) (i : nat) : option nat :=
  match v with
  | [] => None
  | x :: t => if eqb ar x (zero ar) then Some i else first_zero t (S i)
  end.

(* v[i] = 1. / SUPERLU_MIN( SUPERLU_MAX( v[i], smlnum ), bignum ) *)
Definition invert_clip (sml big x : T) : T := div ar (one ar) (fmin (fmax x sml) big).

(* everything ?gsequ can write; outputs it does not reach keep the caller's values *)
Record gsequ_out := mkGO { g_r : list T; g_c : list T; g_rowcnd : T; g_colcnd : T; g_amax : T; g_info : Z }.

(* r0, c0 (lengths nrow, ncol), rowcnd0, colcnd0, amax0: contents of the output arguments on entry;
   sml = ?lamch("S").   None = an index of A outside r / c (excluded by well-formedness). *)
Definition gsequ (sml : T) (A : smatrix) (r0 c0 : list T) (rowcnd0 colcnd0 amax0 : T) : option gsequ_out :=
  let big := div ar (one ar) sml in
  if (Nat.eqb (sm_nrow A) 0 || Nat.eqb (sm_ncol A) 0)%bool then
    Some (mkGO r0 c0 (one ar) (one ar) (zero ar) 0%Z)                       (* quick return *)
  else
  match rowmax_loop (sm_ents A) (repeat (zero ar) (sm_nrow A)) with
  | None => None
  | Some r1 =>
    let '(rcmin, rcmax) := minmax_loop r1 big (zero ar) in
    let amax := rcmax in
    let row_zero := if eqb ar rcmin (zero ar) then first_zero r1 0 else None in
    match row_zero with
    | Some i => Some (mkGO r1 c0 rowcnd0 colcnd0 amax (Z.of_nat i + 1)%Z)
    | None =>
      (* (rcmin == 0 without a zero entry cannot happen for numbers; then C leaves r, rowcnd as they are) *)
      let inverted := negb (eqb ar rcmin (zero ar)) in
      let r2 := if inverted then map (invert_clip sml big) r1 else r1 in
      let rowcnd := if inverted then div ar (fmax rcmin sml) (fmin rcmax big) else rowcnd0 in
      match colmax_loop (sm_ents A) r2 (repeat (zero ar) (sm_ncol A)) with
      | None => None
      | Some c1 =>
        let '(ccmin, ccmax) := minmax_loop c1 big (zero ar) in
        let col_zero := if eqb ar ccmin (zero ar) then first_zero c1 0 else None in
        match col_zero with
        | Some j => Some (mkGO r2 c1 rowcnd colcnd0 amax (Z.of_nat (sm_nrow A) + Z.of_nat j + 1)%Z)
        | None =>
          let cinv := negb (eqb ar ccmin (zero ar)) in
          let c2 := if cinv then map (invert_clip sml big) c1 else c1 in
          let colcnd := if cinv then div ar (fmax ccmin sml) (fmin ccmax big) else colcnd0 in
          Some (mkGO r2 c2 rowcnd colcnd amax 0%Z)
        end
      end
    end
  end.

(* ------------------------------------------------------------------ ?laqgs *)
(* Aval[i] *= f(entry)  for every stored entry;  None = index outside r / c *)
Fixpoint scale_ents (f : T -> T -> option T) (es : list entry) (r c : list T) : option (list entry) :=
  match es with
  | [] => Some []
  | e :: t =>
    match nth_error r (e_row e), nth_error c (e_col e) with
    | Some ri, Some cj =>
      match scale_ents f t r c with
      | None => None
      | Some t' => Some (match f ri cj with
                         | Some s => mkEntry (e_row e) (e_col e) (vscale ar (e_val e) s)
                         | None => e
                         end :: t')
      end
    | _, _ => None
    end
  end.

(* the factor applied to an entry in row i, column j under each flag: nothing, r[i], c[j], c[j]*r[i] *)
Definition factor_of (equed : Z) (ri cj : T) : option T :=
  if (equed =? c_ROW)%Z then Some ri
  else if (equed =? c_COL)%Z then Some cj
  else if (equed =? c_BOTH)%Z then Some (mul ar cj ri)
  else None.

(* THRESH (0.1) = c_THRESH_num / c_THRESH_den, given by the instance as `th` *)
Definition laqgs_decide (th small large rowcnd colcnd amax : T) : Z :=
  if (leb ar th rowcnd && leb ar small amax && leb ar amax large)%bool then
    if leb ar th colcnd then c_NOEQUIL else c_COL
  else if leb ar th colcnd then c_ROW
  else c_BOTH.

(* sfmin = ?lamch("Safe minimum"), prec = ?lamch("Precision") *)
Definition laqgs (th sfmin prec : T) (A : smatrix) (r c : list T) (rowcnd colcnd amax : T)
  : option (smatrix * Z) :=
  if (Nat.leb (sm_nrow A) 0 || Nat.leb (sm_ncol A) 0)%bool then Some (A, c_NOEQUIL)
  else
    let small := div ar sfmin prec in
    let large := div ar (one ar) small in
    let equed := laqgs_decide th small large rowcnd colcnd amax in
    if (equed =? c_NOEQUIL)%Z then Some (A, c_NOEQUIL)
    else match scale_ents (factor_of equed) (sm_ents A) r c with
         | None => None
         | Some es => Some (mkSM (sm_nrow A) (sm_ncol A) es, equed)
         end.

(* ------------------------------------------------------------------ p?gssvx wiring *)
(* Bmat[i + j*ldb] *= s[i]  for i < n, every column j  (B as the list of its columns) *)
Fixpoint scale_col (b : list V) (s : list T) (n : nat) {struct n} : option (list V) :=
  match n with
  | O => Some b
  | S n' => match b, s with
            | x :: bt, si :: st => match scale_col bt st n' with
                                   | None => None
                                   | Some bt' => Some (vscale ar x si :: bt')
                                   end
            | _, _ => None
            end
  end.

Fixpoint scale_cols (B : list (list V)) (s : list T) (n : nat) : option (list (list V)) :=
  match B with
  | [] => Some []
  | b :: t => match scale_col b s n, scale_cols t s n with
              | Some b', Some t' => Some (b' :: t')
              | _, _ => None
              end
  end.

Record equil_out := mkEO { x_A : smatrix; x_R : list T; x_C : list T; x_equed : Z; x_B : list (list V);
                           x_info1 : Z; x_rowcnd : T; x_colcnd : T; x_amax : T }.

(* stype: A->Stype (NC or NR); AA: the matrix handed to ?gsequ/?laqgs, i.e. A itself for NC and the
   same arrays read as the NC storage of transpose(A) for NR; fact, trans, equed0: options and *equed
   on entry; R0, C0, B: contents on entry; s0: what the locals rowcnd, colcnd, amax hold (unspecified in C). *)
Definition gssvx_equil (th sfmin prec : T) (stype fact trans equed0 : Z) (AA : smatrix)
           (R0 C0 : list T) (B : list (list V)) (s0 : T) : option equil_out :=
  let dofact := (fact =? c_DOFACT)%Z in
  let equil := (fact =? c_EQUILIBRATE)%Z in
  let notran0 := (trans =? c_NOTRANS)%Z in
  let equed1 := if (dofact || equil)%bool then c_NOEQUIL else equed0 in
  let notran := if (stype =? c_SLU_NR)%Z then negb notran0 else notran0 in
  let stage : option (smatrix * list T * list T * Z * Z * T * T * T) :=
    if equil then
      match gsequ sfmin AA R0 C0 s0 s0 s0 with
      | None => None
      | Some g =>
        if (g_info g =? 0)%Z then
          match laqgs th sfmin prec AA (g_r g) (g_c g) (g_rowcnd g) (g_colcnd g) (g_amax g) with
          | None => None
          | Some (A', eq) => Some (A', g_r g, g_c g, eq, 0%Z, g_rowcnd g, g_colcnd g, g_amax g)
          end
        else Some (AA, g_r g, g_c g, equed1, g_info g, g_rowcnd g, g_colcnd g, g_amax g)
      end
    else Some (AA, R0, C0, equed1, 0%Z, s0, s0, s0) in
  match stage with
  | None => None
  | Some (A', R, C, equed, info1, rc, cc, am) =>
    let rowequ := (Z.eqb equed c_ROW || Z.eqb equed c_BOTH)%bool in
    let colequ := (Z.eqb equed c_COL || Z.eqb equed c_BOTH)%bool in
    let n := sm_ncol AA in      (* the B loops run to A->nrow = A->ncol *)
    let B' := if notran then (if rowequ then scale_cols B R n else Some B)
              else if colequ then scale_cols B C n else Some B in
    match B' with
    | None => None
    | Some B'' => Some (mkEO A' R C equed B'' info1 rc cc am)
    end
  end.

End Model.

(* ================================================================== binary64 instances *)
Definition f_abs1 (x : float) : float := if PrimFloat.ltb x 0%float then PrimFloat.opp x else x.

(* d: entries are doubles *)
Definition ar_d : arith :=
  mkArith float float 0%float 1%float PrimFloat.mul PrimFloat.div PrimFloat.ltb PrimFloat.leb PrimFloat.eqb
          PrimFloat.abs PrimFloat.mul.

(* z: entries are (re, im); z_abs1 (SRC/dcomplex.c:82-91), zd_mult (SRC/slu_dcomplex.h:42) *)
Definition ar_z : arith :=
  mkArith float (float * float) 0%float 1%float PrimFloat.mul PrimFloat.div PrimFloat.ltb PrimFloat.leb PrimFloat.eqb
          (fun z => PrimFloat.add (f_abs1 (fst z)) (f_abs1 (snd z)))
          (fun z s => (PrimFloat.mul (fst z) s, PrimFloat.mul (snd z) s)).

(* THRESH (0.1) of SRC/dlaqgs.c from the generated constants: 1/10 correctly rounded = the literal 0.1 *)
Definition th_d : float :=
  PrimFloat.div (PrimFloat.of_uint63 (Uint63.of_Z c_THRESH_num)) (PrimFloat.of_uint63 (Uint63.of_Z c_THRESH_den)).

(* dlamch_("Safe minimum"), dlamch_("Precision") = eps*base, dlamch_("Epsilon"): compared with the C values on every run *)
Definition sfmin_d : float := 0x1p-1022%float.
Definition prec_d : float := 0x1p-52%float.
Definition eps_d : float := 0x1p-53%float.
