(* EtreeFullProofs.v -- sp_coletree (model) = coletree_spec and sp_symetree (model) = symetree_spec for
   EVERY well-formed pattern: glue between
     EtreeGameProofs   (properties of the executable elimination game),
     EtreeTheoryProofs (ancestor facts A and C, chains),
     EtreeLiuProofs    (the union-find loop returns P when fed edges with these facts). *)
From Coq Require Import ZArith List Bool Lia Arith.
From SLU Require Import EtreeModel EtreeSpec EtreeArrProofs EtreePermProofs EtreeUFProofs EtreeSpecProofs
     EtreeGameProofs EtreeTheoryProofs EtreeLiuProofs.
Import ListNotations.
Local Open Scope Z_scope.

(* row r is stored in column j *)
Definition incol (colbeg colend arow : list Z) (j r : Z) : Prop :=
  exists s e p, aget colbeg j = Some s /\ aget colend j = Some e /\ s <= p < e /\ aget arow p = Some r.

Lemma In_col_rows : forall colbeg colend arow j r, In r (col_rows colbeg colend arow j) <-> incol colbeg colend arow j r.
Proof.
  intros cb ce ar j r. unfold col_rows, incol.
  destruct (aget cb j) as [s|]; [|split; [intros []|intros [s [e [p [H _]]]]; discriminate]].
  destruct (aget ce j) as [e|]; [|split; [intros []|intros [s' [e [p [_ [H _]]]]]; discriminate]].
  rewrite in_flat_map. split.
  - intros [p [Hp Hr]]. apply In_zrange in Hp. destruct (aget ar p) as [r'|] eqn:E; [|inversion Hr].
    destruct Hr as [<-|[]]. exists s, e, p. auto.
  - intros [s' [e' [p [Es [Ee [Hp Er]]]]]]. inversion Es; inversion Ee; subst s' e'.
    exists p. split; [apply In_zrange; auto|]. rewrite Er. simpl; auto.
Qed.

Lemma memZ_In : forall x l, memZ x l = true <-> In x l.
Proof.
  intros x l. unfold memZ. rewrite existsb_exists. split.
  - intros [y [Hy E]]. apply Z.eqb_eq in E. now subst.
  - intros H. exists x. split; auto. apply Z.eqb_refl.
Qed.

Lemma share_spec : forall c1 c2, share c1 c2 = true <-> exists r, In r c1 /\ In r c2.
Proof.
  intros c1 c2. unfold share. rewrite existsb_exists. split.
  - intros [r [H1 H2]]. apply memZ_In in H2. eauto.
  - intros [r [H1 H2]]. exists r. split; auto. now apply memZ_In.
Qed.

Lemma share_sym : forall c1 c2, share c1 c2 = share c2 c1.
Proof.
  intros c1 c2. destruct (share c1 c2) eqn:E1; destruct (share c2 c1) eqn:E2; auto.
  - apply share_spec in E1 as [r [H1 H2]]. assert (share c2 c1 = true) by (apply share_spec; eauto). congruence.
  - apply share_spec in E2 as [r [H1 H2]]. assert (share c1 c2 = true) by (apply share_spec; eauto). congruence.
Qed.

Lemma nth_map_zrange : forall {A} (f : Z -> A) n (i : nat) d, (i < Z.to_nat n)%nat ->
  nth i (map f (zrange 0 n)) d = f (Z.of_nat i).
Proof.
  intros A f n i d Hi.
  assert (E : nth_error (map f (zrange 0 n)) i = Some (f (Z.of_nat i))).
  { rewrite nth_error_map. unfold zrange. rewrite nth_error_zseq by lia. simpl. f_equal. }
  now apply nth_error_nth.
Qed.

(* ------------------------------------------------------------------------------------------ *)
Section Graphs.
  Variables (nc : Z) (colbeg colend arow : list Z).
  Hypothesis Hnc : 0 <= nc.
  Let N := Z.to_nat nc.
  Let cols := map (col_rows colbeg colend arow) (zrange 0 nc).
  Let inc := incol colbeg colend arow.

  Lemma cols_length : length cols = N.
  Proof. unfold cols. rewrite map_length, zrange_length. unfold N. f_equal. lia. Qed.

  Lemma cols_nth : forall i, (i < N)%nat -> nth i cols [] = col_rows colbeg colend arow (Z.of_nat i).
  Proof. intros i Hi. unfold cols. apply nth_map_zrange. auto. Qed.

  (* ---- graph of M^T M ---- *)
  Let ga := ata_graph nc colbeg colend arow.

  Lemma ga_length : length ga = N.
  Proof. unfold ga, ata_graph. fold cols. rewrite map_length. apply cols_length. Qed.

  Lemma ga_get : forall i j, (i < N)%nat -> (j < N)%nat ->
    gget ga i j = share (nth i cols []) (nth j cols []).
  Proof.
    intros i j Hi Hj. unfold gget, ga, ata_graph. fold cols.
    rewrite (nth_indep _ [] (map (fun cj => share [] cj) cols)) by (rewrite map_length, cols_length; auto).
    rewrite (map_nth (fun ci => map (fun cj => share ci cj) cols) cols []).
    rewrite (nth_indep _ false (share (nth i cols []) [])) by (rewrite map_length, cols_length; auto).
    rewrite (map_nth (fun cj => share (nth i cols []) cj) cols []). reflexivity.
  Qed.

  Lemma ga_square : square ga.
  Proof.
    unfold square. rewrite ga_length. apply Forall_forall. intros r Hr.
    unfold ga, ata_graph in Hr. fold cols in Hr. apply in_map_iff in Hr as [ci [<- _]].
    rewrite map_length. apply cols_length.
  Qed.

  Lemma ga_sym : gsym ga.
  Proof. intros i j Hi Hj. rewrite ga_length in *. rewrite !ga_get by auto. apply share_sym. Qed.

  Lemma ga_edge : forall i j, 0 <= i < nc -> 0 <= j < nc ->
    (gget ga (Z.to_nat i) (Z.to_nat j) = true <-> exists r, inc i r /\ inc j r).
  Proof.
    intros i j Hi Hj. rewrite ga_get by (unfold N; lia). rewrite !cols_nth by (unfold N; lia).
    rewrite !Z2Nat.id by lia. rewrite share_spec. unfold inc.
    split; intros [r [H1 H2]]; exists r; split; apply In_col_rows; auto.
  Qed.

  (* ---- graph of the strict upper triangle ---- *)
  Let gu := upper_graph nc colbeg colend arow.
  Let icols := combine (zrange 0 nc) cols.

  Lemma icols_length : length icols = N.
  Proof. unfold icols. rewrite combine_length, zrange_length, cols_length. unfold N. lia. Qed.

  Lemma icols_nth : forall i, (i < N)%nat -> nth i icols (0, []) = (Z.of_nat i, col_rows colbeg colend arow (Z.of_nat i)).
  Proof.
    intros i Hi. unfold icols. rewrite combine_nth by (rewrite zrange_length, cols_length; unfold N; lia).
    rewrite cols_nth by auto. f_equal.
    assert (E : nth_error (zrange 0 nc) i = Some (0 + Z.of_nat i)) by (unfold zrange; apply nth_error_zseq; unfold N in Hi; lia).
    apply (nth_error_nth _ _ 0) in E. rewrite E. lia.
  Qed.

  Definition uedge (ic jc : Z * list Z) : bool :=
    let '(i, ci) := ic in let '(j, cj) := jc in ((i <? j) && memZ i cj) || ((j <? i) && memZ j ci).

  Lemma gu_eq : gu = map (fun ic => map (fun jc => uedge ic jc) icols) icols.
  Proof.
    unfold gu, upper_graph. fold cols. fold icols. apply map_ext. intros [i ci]. apply map_ext. intros [j cj]. reflexivity.
  Qed.

  Lemma gu_length : length gu = N.
  Proof. rewrite gu_eq, map_length. apply icols_length. Qed.

  Lemma gu_get : forall i j, (i < N)%nat -> (j < N)%nat -> gget gu i j = uedge (nth i icols (0, [])) (nth j icols (0, [])).
  Proof.
    intros i j Hi Hj. unfold gget. rewrite gu_eq.
    rewrite (nth_indep _ [] (map (fun jc => uedge (0, []) jc) icols)) by (rewrite map_length, icols_length; auto).
    rewrite (map_nth (fun ic => map (fun jc => uedge ic jc) icols) icols (0, [])).
    rewrite (nth_indep _ false (uedge (nth i icols (0, [])) (0, []))) by (rewrite map_length, icols_length; auto).
    rewrite (map_nth (fun jc => uedge (nth i icols (0, [])) jc) icols (0, [])). reflexivity.
  Qed.

  Lemma gu_square : square gu.
  Proof.
    unfold square. rewrite gu_length. apply Forall_forall. intros r Hr.
    rewrite gu_eq in Hr. apply in_map_iff in Hr as [ci [<- _]]. rewrite map_length. apply icols_length.
  Qed.

  Lemma gu_edge : forall i j, 0 <= i < nc -> 0 <= j < nc ->
    (gget gu (Z.to_nat i) (Z.to_nat j) = true <-> (i < j /\ inc j i) \/ (j < i /\ inc i j)).
  Proof.
    intros i j Hi Hj. rewrite gu_get by (unfold N; lia). rewrite !icols_nth by (unfold N; lia).
    rewrite !Z2Nat.id by lia. unfold uedge. rewrite orb_true_iff, !andb_true_iff, !Z.ltb_lt, !memZ_In.
    unfold inc. rewrite !In_col_rows. tauto.
  Qed.

  Lemma gu_sym : gsym gu.
  Proof.
    intros i j Hi Hj. rewrite gu_length in *.
    destruct (gget gu i j) eqn:E1; destruct (gget gu j i) eqn:E2; auto.
    - rewrite <- (Nat2Z.id i), <- (Nat2Z.id j) in E1. apply gu_edge in E1; try (unfold N in *; lia).
      assert (gget gu (Z.to_nat (Z.of_nat j)) (Z.to_nat (Z.of_nat i)) = true) by (apply gu_edge; try (unfold N in *; lia); tauto).
      rewrite !Nat2Z.id in H. congruence.
    - rewrite <- (Nat2Z.id i), <- (Nat2Z.id j) in E2. apply gu_edge in E2; try (unfold N in *; lia).
      assert (gget gu (Z.to_nat (Z.of_nat i)) (Z.to_nat (Z.of_nat j)) = true) by (apply gu_edge; try (unfold N in *; lia); tauto).
      rewrite !Nat2Z.id in H. congruence.
  Qed.
End Graphs.

(* ------------------------------------------------------------------------------------------ *)
(* instance of the abstract theory for a square symmetric graph g with N = nc vertices *)
Section Instance.
  Variables (nc : Z) (g : list (list bool)).
  Hypothesis Hnc : 0 <= nc.
  Hypothesis Hlen : length g = Z.to_nat nc.
  Hypothesis Hsq : square g.
  Hypothesis Hsym : gsym g.

  Definition Eg (i j : Z) : Prop := gget g (Z.to_nat i) (Z.to_nat j) = true.
  Definition Fz (i j : Z) : Prop := Fg g (Z.to_nat i) (Z.to_nat j) = true.
  Definition Pz (j : Z) : Z := nth (Z.to_nat j) (etree_of_graph g) 0.

  Lemma I_Fsym : forall i j, 0 <= i < nc -> 0 <= j < nc -> Fz i j -> Fz j i.
  Proof. intros i j Hi Hj H. unfold Fz in *. rewrite F_sym; auto; lia. Qed.
  Lemma I_EF : forall i j, 0 <= i < nc -> 0 <= j < nc -> Eg i j -> Fz i j.
  Proof. intros i j Hi Hj H. apply F_contains; auto; lia. Qed.
  Lemma I_Fclos : forall k i j, 0 <= k -> k < i < nc -> k < j < nc -> Fz k i -> Fz k j -> Fz i j.
  Proof. intros k i j Hk Hi Hj H1 H2. apply (F_closure g Hsq Hsym (Z.to_nat k)); auto; lia. Qed.
  Lemma I_Forig : forall i j, 0 <= i < nc -> 0 <= j < nc -> Fz i j ->
    Eg i j \/ exists k, 0 <= k /\ k < i /\ k < j /\ Fz k i /\ Fz k j.
  Proof.
    intros i j Hi Hj H. destruct (F_origin g Hsq Hsym (Z.to_nat i) (Z.to_nat j)) as [HE|[k [Hk1 [Hk2 [H1 H2]]]]]; auto; try lia.
    right. exists (Z.of_nat k). unfold Fz. rewrite Nat2Z.id. repeat split; auto; lia.
  Qed.
  Lemma I_Pspec : forall j, 0 <= j < nc ->
    j < Pz j <= nc /\ (forall i, j < i < Pz j -> ~ Fz j i) /\ (Pz j < nc -> Fz j (Pz j)).
  Proof.
    intros j Hj. destruct (etree_of_graph_spec g Hsq Hsym) as [_ H].
    destruct (H (Z.to_nat j) ltac:(lia)) as [H1 [H2 H3]]. fold (Pz j) in H1, H2, H3. rewrite Hlen in *.
    split; [lia|]. split.
    - intros i Hi HF. unfold Fz in HF. rewrite (H2 (Z.to_nat i)) in HF; [discriminate|lia|lia].
    - intros Hp. apply H3. lia.
  Qed.

  Lemma Pz_list : length (etree_of_graph g) = Z.to_nat nc.
  Proof. destruct (etree_of_graph_spec g Hsq Hsym) as [H _]. rewrite H. auto. Qed.
End Instance.

(* equality of the model output with the spec list *)
Lemma parent_is_spec : forall nc (g : list (list bool)) parent,
  0 <= nc -> length (etree_of_graph g) = Z.to_nat nc -> alen parent = nc ->
  (forall j, 0 <= j < nc -> aget parent j = Some (Pz g j)) -> parent = etree_of_graph g.
Proof.
  intros nc g parent Hnc Hl Lp H. apply list_eq_aget.
  - unfold alen in *. lia.
  - intros i Hi. rewrite H by lia. unfold Pz. rewrite aget_nth_error by lia.
    symmetry. apply nth_error_nth'. unfold alen in *. lia.
Qed.

(* ------------------------------------------------------------------------------------------ *)
Theorem sp_symetree_is_spec : forall n acolst acolend arow,
  0 <= n -> wf_pat n n acolst acolend arow ->
  sp_symetree acolst acolend arow n = Some (symetree_spec acolst acolend arow n).
Proof.
  intros n cb ce ar Hn Hwf. unfold sp_symetree, symetree_spec.
  set (g := upper_graph n cb ce ar).
  assert (Hlen : length g = Z.to_nat n) by (apply gu_length; auto).
  assert (Hsq : square g) by (apply gu_square; auto).
  assert (Hsym : gsym g) by (apply gu_sym; auto).
  pose proof (I_Pspec n g Hlen Hsq Hsym) as HP.
  pose proof (I_Fclos n g Hlen Hsq Hsym) as HFc.
  pose proof (I_EF n g Hlen Hsq Hsym) as HEF.
  pose proof (I_Forig n g Hlen Hsq Hsym) as HFo.
  assert (Pfor : forall j, 0 <= j < n -> j < Pz g j <= n) by (intros j Hj; apply HP; auto).
  assert (Htop : forall x t c, ancP n (Pz g) x t -> ancP n (Pz g) x c -> 0 <= t < n -> t < c -> c <= Pz g t -> Pz g t = c).
  { intros. eapply (top_parent n (Fz g)); eauto. }
  destruct Hwf as [L1 [L2 Hwf]].
  destruct (liu_correct n (Pz g) Hn Pfor Htop (fun p => aget ar p) cb ce) as [parent [pp [root [E [Lp Hpar]]]]].
  - intros c Hc. destruct (Hwf c Hc) as [s [e [Es [Ee Hrows]]]]. exists s, e. split; auto. split; auto. split.
    + intros p Hp. destruct (Hrows p Hp) as [r [Er Hr]]. exists r. split; auto. split; [lia|].
      intros Hrc. apply (fact_A n (Fz g) (Pz g) HFc HP); try lia.
      apply HEF; auto; try lia. apply (gu_edge n cb ce ar r c); try lia. left. split; auto.
        exists s, e, p. auto.
    + intros j Hj Epj.
      assert (HF : Fz g j c) by (rewrite <- Epj; apply HP; lia).
      destruct (fact_C n (Eg g) (Fz g) (Pz g) HFc HFo HP j c) as [r [Hr [Hanc HE]]]; [lia|lia|exact HF|].

      apply (gu_edge n cb ce ar r c) in HE; try lia.
      destruct HE as [[_ [s' [e' [p [Es' [Ee' [Hp Er]]]]]]]|[Hcr _]]; [|lia].
      assert (s' = s) by congruence. assert (e' = e) by congruence. subst s' e'.
      exists p, r. split; auto. split; auto. split; [lia|auto].
  - rewrite E. f_equal. apply (parent_is_spec n g); auto. apply Pz_list; auto.
Qed.

(* ------------------------------------------------------------------------------------------ *)
(* firstcol[r] = the first column that stores row r (nc when there is none) *)
Lemma firstcol_spec : forall nr nc acolst acolend arow,
  0 <= nr -> 0 <= nc -> wf_pat nr nc acolst acolend arow ->
  exists fc, firstcol_of nr nc acolst acolend arow = Some fc /\ alen fc = nr /\
    forall r, 0 <= r < nr -> exists v, aget fc r = Some v /\
      ((v = nc /\ forall j, 0 <= j < nc -> ~ incol acolst acolend arow j r) \/
       (0 <= v < nc /\ incol acolst acolend arow v r /\ forall j, 0 <= j < v -> ~ incol acolst acolend arow j r)).
Proof.
  intros nr nc cb ce ar Hnr Hnc [L1 [L2 Hwf]]. unfold firstcol_of.
  set (inc := incol cb ce ar).
  set (I := fun (c : Z) (fc : list Z) => alen fc = nr /\ forall r, 0 <= r < nr -> exists v, aget fc r = Some v /\
      ((v = nc /\ forall j, 0 <= j < c -> ~ inc j r) \/ (0 <= v < c /\ inc v r /\ forall j, 0 <= j < v -> ~ inc j r))).
  destruct (ofold_zrange_inv
    (fun fc col => match aget cb col with Some s => match aget ce col with Some e =>
        ofold (fun fc p => match aget ar p with Some row => match aget fc row with Some f => aset fc row (Z.min f col) | None => None end | None => None end)
              (zrange s e) fc | None => None end | None => None end)
    I 0 nc (mk nr nc)) as [fc [E [Lf Hf]]]; auto.
  - split; [rewrite alen_mk; lia|]. intros r Hr. exists nc. split; [apply aget_mk; auto|]. left. split; auto. intros; lia.
  - intros c fc Hc [Lfc Hfc]. destruct (Hwf c Hc) as [s [e [Es [Ee Hrows]]]]. rewrite Es, Ee.
    rewrite zrange_max.
    set (J := fun (p : Z) (fc : list Z) => alen fc = nr /\ forall r, 0 <= r < nr -> exists v, aget fc r = Some v /\
      ((v = nc /\ (forall j, 0 <= j < c -> ~ inc j r) /\ forall p', s <= p' < p -> aget ar p' <> Some r) \/
       (0 <= v < c /\ inc v r /\ forall j, 0 <= j < v -> ~ inc j r) \/
       (v = c /\ (forall j, 0 <= j < c -> ~ inc j r) /\ exists p', s <= p' < p /\ aget ar p' = Some r))).
    destruct (ofold_zrange_inv
      (fun fc p => match aget ar p with Some row => match aget fc row with Some f => aset fc row (Z.min f c) | None => None end | None => None end)
      J s (Z.max s e) fc) as [fc' [E' [Lf' Hf']]]; try lia.
    + split; auto. intros r Hr. destruct (Hfc r Hr) as [v [Ev [[Hv Hno]|Hv]]]; exists v; split; auto.
      left. split; auto. split; auto. intros; lia.
    + intros p fc0 Hp [Q1 Q2]. assert (Hpe : s <= p < e) by lia.
      destruct (Hrows p Hpe) as [r0 [Er0 Hr0]]. rewrite Er0.
      destruct (Q2 r0 Hr0) as [f [Ef Hfcase]]. rewrite Ef.
      destruct (aset_total fc0 r0 (Z.min f c)) as [fc1 E1]; [lia|]. exists fc1. split; auto. split.
      * rewrite (aset_len _ _ _ _ E1). auto.
      * intros r Hr. rewrite (aget_aset _ _ _ _ r E1). destruct (r =? r0) eqn:Err.
        -- apply Z.eqb_eq in Err. subst r. exists (Z.min f c). split; auto.
           destruct Hfcase as [[Hv [Hno _]]|[[Hv Hrest]|[Hv [Hno _]]]].
           ++ right. right. rewrite Z.min_r by lia. split; auto. split; auto. exists p. split; [lia|auto].
           ++ right. left. rewrite Z.min_l by lia. auto.
           ++ right. right. rewrite Z.min_l by lia. split; auto. split; auto. exists p. split; [lia|auto].
        -- apply Z.eqb_neq in Err. destruct (Q2 r Hr) as [v [Ev Hvcase]]. exists v. split; auto.
           destruct Hvcase as [[Hv [Hno Hnp]]|[Hv|[Hv [Hno [p' [Hp' Ep']]]]]].
           ++ left. split; auto. split; auto. intros p' Hp'. destruct (Z.eq_dec p' p) as [->|Hne].
              ** rewrite Er0. congruence.
              ** apply Hnp. lia.
           ++ right. left. auto.
           ++ right. right. split; auto. split; auto. exists p'. split; [lia|auto].
    + exists fc'. split; auto. split; auto. intros r Hr. destruct (Hf' r Hr) as [v [Ev Hvcase]]. exists v. split; auto.
      destruct Hvcase as [[Hv [Hno Hnp]]|[[Hv [Hin Hmin]]|[Hv [Hno [p' [Hp' Ep']]]]]].
      * left. split; auto. intros j Hj. destruct (Z.eq_dec j c) as [->|Hne]; [|apply Hno; lia].
        intros [s' [e' [p [Es' [Ee' [Hp Er]]]]]]. assert (s' = s) by congruence. assert (e' = e) by congruence. subst.
        apply (Hnp p); auto. lia.
      * right. split; [lia|]. split; auto.
      * right. subst v. split; [lia|]. split; [|intros j Hj; apply Hno; lia].
        exists s, e, p'. split; auto. split; auto. split; [lia|auto].
  - exists fc. split; auto.
Qed.

Theorem sp_coletree_is_spec : forall nr nc acolst acolend arow,
  0 <= nr -> 0 <= nc -> wf_pat nr nc acolst acolend arow ->
  sp_coletree acolst acolend arow nr nc = Some (coletree_spec acolst acolend arow nc).
Proof.
  intros nr nc cb ce ar Hnr Hnc Hwf. unfold sp_coletree, coletree_spec.
  destruct (firstcol_spec nr nc cb ce ar Hnr Hnc Hwf) as [fc [Efc [Lfc Hfc]]]. rewrite Efc.
  set (g := ata_graph nc cb ce ar).
  assert (Hlen : length g = Z.to_nat nc) by (apply ga_length; auto).
  assert (Hsq : square g) by (apply ga_square; auto).
  assert (Hsym : gsym g) by (apply ga_sym; auto).
  pose proof (I_Pspec nc g Hlen Hsq Hsym) as HP.
  pose proof (I_Fclos nc g Hlen Hsq Hsym) as HFc.
  pose proof (I_EF nc g Hlen Hsq Hsym) as HEF.
  pose proof (I_Forig nc g Hlen Hsq Hsym) as HFo.
  assert (Pfor : forall j, 0 <= j < nc -> j < Pz g j <= nc) by (intros j Hj; apply HP; auto).
  assert (Htop : forall x t c, ancP nc (Pz g) x t -> ancP nc (Pz g) x c -> 0 <= t < nc -> t < c -> c <= Pz g t -> Pz g t = c).
  { intros. eapply (top_parent nc (Fz g)); eauto. }
  assert (HfA : forall j i, 0 <= j -> j < i < nc -> Eg g j i -> ancP nc (Pz g) j i).
  { intros j i Hj Hi HE. apply (fact_A nc (Fz g) (Pz g) HFc HP); try lia. apply HEF; auto; lia. }
  destruct Hwf as [L1 [L2 Hwf]].
  set (inc := incol cb ce ar).
  destruct (liu_correct nc (Pz g) Hnc Pfor Htop (fun p => match aget ar p with Some a => aget fc a | None => None end) cb ce)
    as [parent [pp [root [E [Lp Hpar]]]]].
  - intros c Hc. destruct (Hwf c Hc) as [s [e [Es [Ee Hrows]]]]. exists s, e. split; auto. split; auto. split.
    + intros p Hp. destruct (Hrows p Hp) as [r [Er Hr]]. rewrite Er.
      destruct (Hfc r Hr) as [v [Ev Hv]]. exists v. split; auto.
      assert (Hrc : inc c r) by (exists s, e, p; auto).
      destruct Hv as [[Hv Hno]|[Hv [Hin Hmin]]]; [exfalso; apply (Hno c); auto|].
      split; [lia|]. intros Hvc. apply HfA; try lia.
      apply (ga_edge nc cb ce ar v c); try lia. exists r. auto.
    + intros j Hj Epj.
      assert (HF : Fz g j c) by (rewrite <- Epj; apply HP; lia).
      destruct (fact_C nc (Eg g) (Fz g) (Pz g) HFc HFo HP j c) as [r [Hr [Hanc HE]]]; [lia|lia|exact HF|].

      apply (ga_edge nc cb ce ar r c) in HE; try lia.
      destruct HE as [rho [Hr1 Hr2]].
      destruct Hr2 as [s' [e' [p [Es' [Ee' [Hp Er]]]]]].
      assert (s' = s) by congruence. assert (e' = e) by congruence. subst s' e'.
      assert (Hrho : 0 <= rho < nr) by (destruct (Hrows p Hp) as [r' [Er' Hr']]; congruence).
      destruct (Hfc rho Hrho) as [v [Ev Hv]].
      destruct Hv as [[Hv Hno]|[Hv [Hin Hmin]]]; [exfalso; apply (Hno c); auto; exists s, e, p; auto|].
      assert (Hvr : v <= r).
      { destruct (Z_le_gt_dec v r); auto. exfalso. apply (Hmin r); auto. lia. }
      exists p, v. split; auto. split; [rewrite Er; auto|]. split; [lia|].
      destruct (Z.eq_dec v r) as [->|Hne]; auto.
      apply (ancP_trans nc (Pz g) v r j); auto. apply HfA; try lia.
      apply (ga_edge nc cb ce ar v r); try lia. exists rho. auto.
  - rewrite E. f_equal. apply (parent_is_spec nc g); auto. apply Pz_list; auto.
Qed.
