(* PersistModel.v -- executable model of the state that SuperLU_MT keeps BETWEEN calls (properties C08, C18).

   What is modelled, and from where (d-precision file names; the s/c/z files are textually identical up to the
   element type, checked by diff):

     SRC/pdmemory.c:64-68     ExpHeader *dexpanders; static LU_stack_t stack; static int_t no_expand, ndim;
                              static LU_space_t whichspace
     SRC/pdgstrf_thread_init.c:75   static GlobalLU_t Glu
     SRC/pdgstrf_bmod2D.c:83  static int_t first = 1, maxsuper, rowblk   (cache of sp_ienv(3), sp_ienv(4))
     SRC/dlacon.c:83-86       static iter, jump, jlast, altsgn, estold, i, j       (section Lacon below)

   and the code that reads / writes them: pdgstrf_SetupSpace, duser_malloc, duser_free, pdgstrf_expand (the
   first-allocation case, the only one reachable: pdgstrf_MemXpand is never called), pdgstrf_MemInit (both the
   refact = NO and the refact = YES branch, the lwork = -1 early returns, the retry loop), pdgstrf_WorkInit /
   pdgstrf_WorkFree for nprocs threads, the initialisation in pdgstrf_thread_init, dPresetMap's writes to Glu, the
   clean-up of pdgstrf_thread_finalize, superlu_dQuerySpace, and the drivers' use of all that (pdgssvx including the
   fact = FACTORED path, pdgstrf_init + pdgstrf + dgstrs).

   Numerical results are NOT computed.  They are represented by free terms that record exactly which arguments and
   which state fields the C code reads on the path taken (record [freads]); two calls have the same numerical result
   for every possible interpretation of the numerical kernels iff these terms are equal.  Storage is represented by
   identifiers (which allocation an array lives in) and the integer sizes the code keeps for it.

   Only definitions here (CONTRIB.md): the file still runs when a proof breaks.  Everything is over Z / bool / list. *)
From Coq Require Import ZArith List Bool.
From SLU Require Import Consts.
Import ListNotations.
Local Open Scope Z_scope.

(* ------------------------------------------------------------------ constants of p?memory.c *)
Definition iword : Z := 4.                       (* sizeof(int_t) *)
Definition GluIntArray (n : Z) : Z := 9 * n + 5.
Definition SYSTEM : Z := 0.                      (* typedef enum {SYSTEM, USER} LU_space_t  (p?memory.c:62) *)
Definition USER : Z := 1.
Definition HEAD : Z := 0.                        (* typedef enum {HEAD, TAIL} stack_end_t   (p?memory.c:61) *)
Definition TAIL : Z := 1.

(* ------------------------------------------------------------------ the persistent record, one per precision *)
Record glu := mkGlu {
  g_nsuper : Z; g_nextl : Z; g_nextu : Z; g_nextlu : Z;
  g_nzlmax : Z; g_nzumax : Z; g_nzlumax : Z;
  g_dyn : Z;                 (* dynamic_snode_bound *)
  g_store : Z;               (* which allocation the 13 array pointers of Glu refer to (0 = never set) *)
  g_map : Z                  (* which allocation map_in_sup refers to (dangling after ParallelFinalize) *)
}.

Record ustack := mkStack { k_size : Z; k_used : Z; k_top1 : Z; k_top2 : Z; k_array : Z }.

Record pstate := mkPS {
  ps_glu : glu;
  ps_exp : bool;             (* dexpanders != NULL *)
  ps_exp_lusup : Z; ps_exp_ucol : Z; ps_exp_lsub : Z; ps_exp_usub : Z;     (* dexpanders[t].size *)
  ps_exp_store : Z;          (* which allocation dexpanders[*].mem refer to *)
  ps_stack : ustack;
  ps_no_expand : Z; ps_ndim : Z; ps_which : Z;
  ps_bmod_first : bool; ps_bmod_maxsuper : Z; ps_bmod_rowblk : Z
}.

Definition glu0 : glu := mkGlu 0 0 0 0 0 0 0 0 0 0.
Definition stack0 : ustack := mkStack 0 0 0 0 0.
(* state of a fresh process: zero-initialised statics, first = 1 *)
Definition pstate0 : pstate := mkPS glu0 false 0 0 0 0 0 stack0 0 0 SYSTEM true 0 0.

Definition set_glu (s : pstate) (g : glu) : pstate :=
  mkPS g (ps_exp s) (ps_exp_lusup s) (ps_exp_ucol s) (ps_exp_lsub s) (ps_exp_usub s) (ps_exp_store s) (ps_stack s)
       (ps_no_expand s) (ps_ndim s) (ps_which s) (ps_bmod_first s) (ps_bmod_maxsuper s) (ps_bmod_rowblk s).
Definition set_stack (s : pstate) (k : ustack) : pstate :=
  mkPS (ps_glu s) (ps_exp s) (ps_exp_lusup s) (ps_exp_ucol s) (ps_exp_lsub s) (ps_exp_usub s) (ps_exp_store s) k
       (ps_no_expand s) (ps_ndim s) (ps_which s) (ps_bmod_first s) (ps_bmod_maxsuper s) (ps_bmod_rowblk s).
Definition set_which (s : pstate) (w : Z) : pstate :=
  mkPS (ps_glu s) (ps_exp s) (ps_exp_lusup s) (ps_exp_ucol s) (ps_exp_lsub s) (ps_exp_usub s) (ps_exp_store s) (ps_stack s)
       (ps_no_expand s) (ps_ndim s) w (ps_bmod_first s) (ps_bmod_maxsuper s) (ps_bmod_rowblk s).
Definition set_noexp_ndim (s : pstate) (ne nd : Z) : pstate :=
  mkPS (ps_glu s) (ps_exp s) (ps_exp_lusup s) (ps_exp_ucol s) (ps_exp_lsub s) (ps_exp_usub s) (ps_exp_store s) (ps_stack s)
       ne nd (ps_which s) (ps_bmod_first s) (ps_bmod_maxsuper s) (ps_bmod_rowblk s).
Definition set_exp (s : pstate) (al : bool) (a b c d st : Z) : pstate :=
  mkPS (ps_glu s) al a b c d st (ps_stack s)
       (ps_no_expand s) (ps_ndim s) (ps_which s) (ps_bmod_first s) (ps_bmod_maxsuper s) (ps_bmod_rowblk s).
Definition set_bmod (s : pstate) (f : bool) (ms rb : Z) : pstate :=
  mkPS (ps_glu s) (ps_exp s) (ps_exp_lusup s) (ps_exp_ucol s) (ps_exp_lsub s) (ps_exp_usub s) (ps_exp_store s) (ps_stack s)
       (ps_no_expand s) (ps_ndim s) (ps_which s) f ms rb.

(* ------------------------------------------------------------------ arguments of a factorization call *)
Record fargs := mkFA {
  fa_n : Z; fa_annz : Z;
  fa_pat : Z;                (* identity of the sparsity pattern of A *)
  fa_vals : Z;               (* identity of the numerical values in A at this call *)
  fa_permc_in : Z;           (* identity of the column permutation passed in *)
  fa_nprocs : Z; fa_panel : Z; fa_relax : Z;
  fa_u : Z;                  (* identity of diag_pivot_thresh *)
  fa_usepr : Z;              (* options->usepr on entry (c_YES / c_NO) *)
  fa_lwork : Z; fa_work : Z; (* workspace: size in bytes, identity of the buffer (8-byte aligned base assumed) *)
  fa_dword : Z;              (* sizeof(element): 4 / 8 / 8 / 16 for s / d / c / z *)
  fa_maxsuper : Z; fa_rowblk : Z;                        (* sp_ienv(3), sp_ienv(4) as seen by this call *)
  fa_fill_lusup : Z; fa_fill_ucol : Z; fa_fill_lsub : Z; (* sp_ienv(6..8) *)
  fa_env_dyn : Z;            (* c_YES iff getenv("SuperLU_DYNAMIC_SNODE_STORE") != NULL *)
  fa_preset : Z;             (* value returned by ?PresetMap: a function of n, pattern, etree, colcnt_h, part_super_h,
                                relax, sp_ienv(3) and the environment only (p?memory.c:856-964 reads no static) *)
  fa_fresh : Z               (* identity given to storage malloc'ed by this call *)
}.

(* ------------------------------------------------------------------ the user stack (p?memory.c:113-166) *)
Definition stack_full (k : ustack) (x : Z) : bool := (k_size k <=? x + k_used k).

(* ?user_malloc: None = NULL.  Returns the offset of the block relative to stack.array.
   k_array is the IDENTITY of the buffer (fa_work), not its address: as everywhere in this model (the  off mod 8  of
   p?gstrf_expand and p?gstrf_WorkInit below, see fa_work) the base address of a user buffer is taken to be 8-byte
   aligned, so the alignment of the address  stack.array + off  is  off mod 8.
   TAIL end (since fix 'tail blocks are aligned by the allocator', p?memory.c:132-147):
     extra = ( address of (stack.array + stack.top2 - bytes) ) & 7;
     if ( StackFull(bytes + extra) ) return NULL;   bytes += extra;  top2 -= bytes;  buf = array + top2;  used += bytes; *)
Definition tail_extra (k : ustack) (bytes : Z) : Z := (k_top2 k - bytes) mod 8.

Definition user_malloc (k : ustack) (bytes which_end : Z) : option Z * ustack :=
  if stack_full k bytes then (None, k)
  else if which_end =? HEAD
       then (Some (k_top1 k), mkStack (k_size k) (k_used k + bytes) (k_top1 k + bytes) (k_top2 k) (k_array k))
       else
         let extra := tail_extra k bytes in
         if stack_full k (bytes + extra) then (None, k)
         else
           let bytes := bytes + extra in
           (Some (k_top2 k - bytes), mkStack (k_size k) (k_used k + bytes) (k_top1 k) (k_top2 k - bytes) (k_array k)).

Definition user_free (k : ustack) (bytes which_end : Z) : ustack :=
  if which_end =? HEAD
  then mkStack (k_size k) (k_used k - bytes) (k_top1 k - bytes) (k_top2 k) (k_array k)
  else mkStack (k_size k) (k_used k - bytes) (k_top1 k) (k_top2 k + bytes) (k_array k).

(* p?gstrf_SetupSpace (p?memory.c:85-100); lwork < 0 leaves everything as it was *)
Definition setup_space (s : pstate) (work lwork : Z) : pstate :=
  if lwork =? 0 then set_which s SYSTEM
  else if 0 <? lwork then set_stack (set_which s USER) (mkStack lwork 0 0 lwork work)
  else s.

(* NUM_TEMPV, superlu_?TempSpace (p?memory.c:78,170-188), p?gstrf_memory_use (230-240): the C code evaluates them in
   binary32; all quantities are integers, so the model is exact whenever the result is below 2^24 (checked by the
   correspondence before comparing). *)
Definition num_tempv (n w t b : Z) : Z := Z.max (2 * n) ((t + b) * w).
Definition temp_space (n w p dword maxsuper rowblk : Z) : Z :=
  14 * n * iword + p * ((2 * w + 5 + c_NO_MARKER) * n * iword + (n * w + num_tempv n w maxsuper rowblk) * dword).
Definition memory_use (ndim nzlmax nzumax nzlumax dword : Z) : Z :=
  10 * ndim * iword + nzlmax * iword + nzumax * (iword + dword) + nzlumax * dword.
Definition estimate (n w p dword maxsuper rowblk nzlmax nzumax nzlumax : Z) : Z :=
  GluIntArray n * iword + temp_space n w p dword maxsuper rowblk + (nzlmax + nzumax) * iword + (nzlumax + nzumax) * dword.

(* ------------------------------------------------------------------ p?gstrf_expand, first allocation (no_expand = 0) *)
Inductive xres := XOk (st : pstate) (ptr : option Z) (len : Z) | XUnmodelled.

Definition lword_of (t dword : Z) : Z := if (t =? c_LSUB) || (t =? c_USUB) then iword else dword.

Definition set_exp_size (s : pstate) (t len : Z) : pstate :=
  if t =? c_LUSUP then set_exp s (ps_exp s) len (ps_exp_ucol s) (ps_exp_lsub s) (ps_exp_usub s) (ps_exp_store s)
  else if t =? c_UCOL then set_exp s (ps_exp s) (ps_exp_lusup s) len (ps_exp_lsub s) (ps_exp_usub s) (ps_exp_store s)
  else if t =? c_LSUB then set_exp s (ps_exp s) (ps_exp_lusup s) (ps_exp_ucol s) len (ps_exp_usub s) (ps_exp_store s)
  else set_exp s (ps_exp s) (ps_exp_lusup s) (ps_exp_ucol s) (ps_exp_lsub s) len (ps_exp_store s).

(* [sysok]: does system malloc succeed (allocation failure belongs to C14; the correspondence always has true) *)
Definition expand (s : pstate) (prev_len t keep_prev dword fresh : Z) (sysok : bool) : xres :=
  if negb ((ps_no_expand s =? 0) || (keep_prev =? 1)) then XUnmodelled       (* growth path: only from MemXpand, never called *)
  else
    let new_len := prev_len in
    let lword := lword_of t dword in
    if ps_which s =? SYSTEM then
      if negb (ps_no_expand s =? 0) then XUnmodelled
      else if sysok
           then XOk (set_exp_size (set_exp s (ps_exp s) (ps_exp_lusup s) (ps_exp_ucol s) (ps_exp_lsub s) (ps_exp_usub s) fresh) t new_len)
                    (Some 0) new_len
           else XOk (set_exp_size s t new_len) None new_len
    else
      if negb (ps_no_expand s =? 0) then XUnmodelled
      else
        let '(r, k1) := user_malloc (ps_stack s) (new_len * lword) HEAD in
        match r with
        | None => XOk (set_exp_size (set_stack s k1) t new_len) None new_len
        | Some off =>
            let mis := off mod 8 in
            if negb (mis =? 0) && ((t =? c_LUSUP) || (t =? c_UCOL)) then
              let extra := 8 - mis in
              let k2 := mkStack (k_size k1) (k_used k1 + extra) (k_top1 k1 + extra) (k_top2 k1) (k_array k1) in
              XOk (set_exp_size (set_exp (set_stack s k2) (ps_exp s) (ps_exp_lusup s) (ps_exp_ucol s) (ps_exp_lsub s) (ps_exp_usub s) (k_array k1)) t new_len)
                  (Some (off + extra)) new_len
            else
              XOk (set_exp_size (set_exp (set_stack s k1) (ps_exp s) (ps_exp_lusup s) (ps_exp_ucol s) (ps_exp_lsub s) (ps_exp_usub s) (k_array k1)) t new_len)
                  (Some off) new_len
        end.

(* ------------------------------------------------------------------ p?gstrf_MemInit (p?memory.c:251-430) *)
Inductive mres :=
| MOk (st : pstate) (nzlmax nzumax nzlumax : Z)  (* returned 0; the three limits now in Glu *)
| MEstimate (st : pstate) (v : Z)                (* lwork = -1 *)
| MFail (st : pstate) (v : Z)                    (* "Not enough memory": value returned *)
| MUnmodelled                                     (* see [expand] *)
| MDiverge.                                       (* retry loop did not end within the fuel *)

(* the nine integer arrays, user-stack case: nine HEAD requests issued one after the other whatever their results; [allok] is
   the conjunction the C code tests afterwards (since fix 'MemInit tests the nine integer arrays': a NULL among them makes
   p?gstrf_MemInit return memory_use(nzlmax, nzumax, nzlumax) + n at once, see mi_alloc) *)
Fixpoint user_malloc_list (k : ustack) (sizes : list Z) (allok : bool) : ustack * bool :=
  match sizes with
  | [] => (k, allok)
  | b :: r => let '(p, k1) := user_malloc k b HEAD in
              user_malloc_list k1 r (allok && match p with Some _ => true | None => false end)
  end.
Definition int_array_sizes (n : Z) : list Z :=
  [(n + 1) * iword; n * iword; (n + 1) * iword; (n + 1) * iword; n * iword; (n + 1) * iword; n * iword; (n + 1) * iword; n * iword].

Definition is_some {A} (o : option A) : bool := match o with Some _ => true | None => false end.

(* while ( !ucol || !lsub || !usub ) { free; halve; give up or re-request }   (p?memory.c:371-397)
   rtop1, rused = the locals retry_top1, retry_used (stack.top1 and stack.used right after lusup was expanded).  User space:
   since fix 'the retry loop gives back exactly what the last attempt took' the loop puts stack.top1 / stack.used back to these
   two values instead of calling ?user_free(nzumax*dword + (nzlmax+nzumax)*iword, HEAD); since fix 'the retry loop gives up
   when nzumax < 1' the give-up test is  nzumax < annz/2 || nzumax < 1. *)
Fixpoint retry_loop (fuel : nat) (s : pstate) (a : fargs) (ucol lsub usub : option Z) (nzlmax nzumax nzlumax : Z)
                    (rtop1 rused : Z) (sysok : bool)
  : option (pstate * option Z * option Z * option Z * Z * Z) + mres :=
  if is_some ucol && is_some lsub && is_some usub then inl (Some (s, ucol, lsub, usub, nzlmax, nzumax))
  else match fuel with
       | O => inr MDiverge
       | S f =>
           let s1 := if ps_which s =? SYSTEM then s
                     else let k := ps_stack s in
                          (* stack.top1 = retry_top1; stack.used = retry_used; *)
                          set_stack s (mkStack (k_size k) rused rtop1 (k_top2 k) (k_array k)) in
           let nzumax' := Z.quot nzumax 2 in
           let nzlmax' := Z.quot nzlmax 2 in
           if (nzumax' <? Z.quot (fa_annz a) 2) || (nzumax' <? 1)
           then inr (MFail s1 (memory_use (ps_ndim s1) nzlmax' nzumax' nzlumax (fa_dword a) + fa_n a))
           else
             match expand s1 nzumax' c_UCOL 0 (fa_dword a) (fa_fresh a) sysok with
             | XUnmodelled => inr MUnmodelled
             | XOk s2 ucol' nzu2 =>
                 match expand s2 nzlmax' c_LSUB 0 (fa_dword a) (fa_fresh a) sysok with
                 | XUnmodelled => inr MUnmodelled
                 | XOk s3 lsub' nzl3 =>
                     match expand s3 nzu2 c_USUB 1 (fa_dword a) (fa_fresh a) sysok with
                     | XUnmodelled => inr MUnmodelled
                     | XOk s4 usub' nzu4 => retry_loop f s4 a ucol' lsub' usub' nzl3 nzu4 nzlumax rtop1 rused sysok
                     end
                 end
             end
       end.

Definition fill_guess (fill annz : Z) : Z := if fill <? 0 then (- fill) * annz else fill.

(* what a refactorization is given explicitly: the storage behind L and U *)
Record lustore := mkLU { lu_store : Z }.

Definition bind_glu (s : pstate) (store nzlmax nzumax nzlumax : Z) : pstate :=
  let g := ps_glu s in
  set_glu s (mkGlu (g_nsuper g) (g_nextl g) (g_nextu g) (g_nextlu g) nzlmax nzumax nzlumax (g_dyn g) store (g_map g)).

(* lines 274-280: no_expand = 0; ndim = n; if ( !dexpanders ) dexpanders = malloc(...) *)
Definition mi_begin (s0 : pstate) (n : Z) : pstate :=
  let s := set_noexp_ndim s0 0 n in
  if ps_exp s then s else set_exp s true (ps_exp_lusup s) (ps_exp_ucol s) (ps_exp_lsub s) (ps_exp_usub s) (ps_exp_store s).

(* the nine integer arrays (lines 333-359): system malloc, or nine HEAD requests on the user stack; the boolean is
   "none of them is NULL" (always true in system space, where intMalloc exits on failure) *)
Definition mi_int_arrays (s : pstate) (a : fargs) : pstate * Z * bool :=
  if ps_which s =? SYSTEM then (s, fa_fresh a, true)
  else let '(k, ok) := user_malloc_list (ps_stack s) (int_array_sizes (fa_n a)) true in (set_stack s k, k_array k, ok).

(* lines 340-404, after the work space has been set up *)
Definition mi_alloc (s : pstate) (a : fargs) (nzlmax nzumax nzlumax : Z) (sysok : bool) : mres :=
  let '(s, store, intok) := mi_int_arrays s a in
  (* user space:  if ( !xsup || ... || !xusub_end ) return (memory_use(nzlmax, nzumax, nzlumax) + n);
     (system space: intMalloc exits on failure, intok = true) *)
  if negb intok then MFail s (memory_use (ps_ndim s) nzlmax nzumax nzlumax (fa_dword a) + fa_n a)
  else
  match expand s nzlumax c_LUSUP 0 (fa_dword a) (fa_fresh a) sysok with
  | XUnmodelled => MUnmodelled
  | XOk s lusup nzlumax =>
    let rtop1 := k_top1 (ps_stack s) in          (* retry_top1 = stack.top1; *)
    let rused := k_used (ps_stack s) in          (* retry_used = stack.used; *)
    match expand s nzumax c_UCOL 0 (fa_dword a) (fa_fresh a) sysok with
    | XUnmodelled => MUnmodelled
    | XOk s ucol nzumax =>
      match expand s nzlmax c_LSUB 0 (fa_dword a) (fa_fresh a) sysok with
      | XUnmodelled => MUnmodelled
      | XOk s lsub nzlmax =>
        match expand s nzumax c_USUB 1 (fa_dword a) (fa_fresh a) sysok with
        | XUnmodelled => MUnmodelled
        | XOk s usub nzumax =>
          match retry_loop 64 s a ucol lsub usub nzlmax nzumax nzlumax rtop1 rused sysok with
          | inr r => r
          | inl None => MDiverge
          | inl (Some (s, ucol, lsub, usub, nzlmax, nzumax)) =>
              if negb (is_some lusup)
              then MFail s (memory_use (ps_ndim s) nzlmax nzumax nzlumax (fa_dword a) + fa_n a)
              else
                let s := bind_glu s store nzlmax nzumax nzlumax in
                MOk (set_noexp_ndim s (ps_no_expand s + 1) (ps_ndim s)) nzlmax nzumax nzlumax
          end
        end
      end
    end
  end.

(* refact == NO (lines 282-362) *)
Definition mem_init_no (s : pstate) (a : fargs) (sysok : bool) : mres :=
  let nzumax := fill_guess (fa_fill_ucol a) (fa_annz a) in
  let nzlmax := fill_guess (fa_fill_lsub a) (fa_annz a) in
  let nzlumax := if g_dyn (ps_glu s) =? c_YES then fill_guess (fa_fill_lusup a) (fa_annz a)
                 else g_nzlumax (ps_glu s) in                                     (* READ of the static Glu *)
  if fa_lwork a =? -1
  then MEstimate s (estimate (fa_n a) (fa_panel a) (fa_nprocs a) (fa_dword a) (fa_maxsuper a) (fa_rowblk a) nzlmax nzumax nzlumax)
  else mi_alloc (setup_space s (fa_work a) (fa_lwork a)) a nzlmax nzumax nzlumax sysok.

(* refact == YES (lines 364-400): sizes come from the static Glu, storage from the L and U passed in *)
Definition mem_init_yes (s : pstate) (a : fargs) (lu : lustore) : mres :=
  let nzlmax := g_nzlmax (ps_glu s) in
  let nzumax := g_nzumax (ps_glu s) in
  let nzlumax := g_nzlumax (ps_glu s) in
  if fa_lwork a =? -1
  then MEstimate s (estimate (fa_n a) (fa_panel a) (fa_nprocs a) (fa_dword a) (fa_maxsuper a) (fa_rowblk a) nzlmax nzumax nzlumax)
  else
    let s := if fa_lwork a =? 0 then set_which s SYSTEM
             else let k := ps_stack s in
                  (* stack.size = lwork; stack.top2 = lwork; stack.used = stack.top1; *)
                  set_stack (set_which s USER) (mkStack (fa_lwork a) (k_top1 k) (k_top1 k) (fa_lwork a) (k_array k)) in
    let s := set_exp s (ps_exp s) nzlumax nzumax nzlmax nzumax (lu_store lu) in
    let s := bind_glu s (lu_store lu) nzlmax nzumax nzlumax in
    MOk (set_noexp_ndim s (ps_no_expand s + 1) (ps_ndim s)) nzlmax nzumax nzlumax.

Definition mem_init (s0 : pstate) (a : fargs) (refact : Z) (lu : lustore) (sysok : bool) : mres :=
  let s := mi_begin s0 (fa_n a) in
  if refact =? c_NO then mem_init_no s a sysok else mem_init_yes s a lu.

(* ------------------------------------------------------------------ p?gstrf_thread_init up to MemInit (lines 101-149) *)
(* Glu.nsuper = -1; nextl = nextu = nextlu = 0;  ?PresetMap writes dynamic_snode_bound, map_in_sup, (nextlu);
   if ( refact == NO ) Glu.nzlumax = nzlumax; *)
Definition thread_init_glu (s : pstate) (a : fargs) (refact : Z) : pstate :=
  let g := ps_glu s in
  let g1 := mkGlu (-1) 0 0 0 (g_nzlmax g) (g_nzumax g) (g_nzlumax g) (g_dyn g) (g_store g) (g_map g) in
  let g2 := mkGlu (g_nsuper g1) (g_nextl g1) (g_nextu g1)
                  (if fa_env_dyn a =? c_YES then fa_preset a else g_nextlu g1)
                  (g_nzlmax g1) (g_nzumax g1) (g_nzlumax g1) (fa_env_dyn a) (g_store g1) (fa_fresh a) in
  let g3 := if refact =? c_NO
            then mkGlu (g_nsuper g2) (g_nextl g2) (g_nextu g2) (g_nextlu g2) (g_nzlmax g2) (g_nzumax g2) (fa_preset a)
                       (g_dyn g2) (g_store g2) (g_map g2)
            else g2 in
  set_glu s g3.

(* ------------------------------------------------------------------ p?gstrf_WorkInit for the nprocs threads (436-489) and WorkFree *)
Inductive wres := WOk (st : pstate) | WFail (st : pstate) (v : Z).

Definition work_sizes (a : fargs) : Z * Z :=
  ((2 * fa_panel a + 5 + c_NO_MARKER) * fa_n a * iword,
   (fa_n a * fa_panel a + num_tempv (fa_n a) (fa_panel a) (fa_maxsuper a) (fa_rowblk a)) * fa_dword a).

Definition work_init_one (s : pstate) (a : fargs) : wres :=
  let '(isize, dsize) := work_sizes a in
  if ps_which s =? SYSTEM then WOk s
  else
    let '(p, k1) := user_malloc (ps_stack s) isize TAIL in
    match p with
    | None => WFail (set_stack s k1) (isize + fa_n a)
    | Some _ =>
        let '(q, k2) := user_malloc k1 dsize TAIL in
        match q with
        | None => WFail (set_stack s k2) (isize + dsize + fa_n a)
        | Some off =>
            (* NotDoubleAlign(dwork): since the allocator aligns TAIL blocks itself, mis = 0 here and the fix-up
               (still in the C code) is dead: PersistProofs.user_malloc_tail_aligned / work_init_one_no_fixup *)
            let mis := off mod 8 in
            let k3 := if mis =? 0 then k2
                      else mkStack (k_size k2) (k_used k2 + mis) (k_top1 k2) (k_top2 k2 - mis) (k_array k2) in
            WOk (set_stack s k3)
        end
    end.

Fixpoint work_init_all (p : nat) (s : pstate) (a : fargs) : wres :=
  match p with
  | O => WOk s
  | S q => match work_init_one s a with
           | WOk s1 => work_init_all q s1 a
           | WFail s1 v => WFail s1 v
           end
  end.

(* p?gstrf_WorkFree: SYSTEM frees the two arrays; USER releases nothing (the tail holds the arrays of all threads, it is
   reclaimed by the next p?gstrf_MemInit) *)
Definition work_free (s : pstate) : pstate := s.

(* p?gstrf_bmod2D.c:95-99 : if (first) { maxsuper = sp_ienv(3); rowblk = sp_ienv(4); first = 0; } *)
Definition bmod_touch (s : pstate) (a : fargs) : pstate :=
  if ps_bmod_first s then set_bmod s false (fa_maxsuper a) (fa_rowblk a) else s.

(* p?gstrf_thread_finalize: SUPERLU_FREE(dexpanders); dexpanders = 0  (lines 130-131) *)
Definition finalize_exp (s : pstate) : pstate :=
  set_exp s false (ps_exp_lusup s) (ps_exp_ucol s) (ps_exp_lsub s) (ps_exp_usub s) (ps_exp_store s).

(* ------------------------------------------------------------------ what the numerical factorization reads *)
Record freads := mkFR {
  fr_pat : Z; fr_vals : Z; fr_permc : Z; fr_sym : Z; fr_u : Z;
  fr_usepr : Z; fr_permr_in : Z;           (* perm_r is read only when usepr = YES (thread_init.c:112-115) *)
  fr_nprocs : Z; fr_panel : Z; fr_relax : Z;
  fr_nzlmax : Z; fr_nzumax : Z;                    (* the limits Glu_alloc checks against (pmemory.c:176,218);
                                                      Glu->nzlumax is never read by the numerical code (LUSUP is unchecked) *)
  fr_store : Z;                                    (* the storage L and U are written to *)
  fr_tmp : Z;                                      (* where the threads' work arrays are carved from: stack.array in user
                                                      mode (p?memory.c:451,460), 0 = system malloc *)
  fr_bmod_maxsuper : Z; fr_bmod_rowblk : Z;        (* block sizes as seen by p?gstrf_bmod2D *)
  fr_maxsuper : Z; fr_rowblk : Z; fr_dyn : Z
}.

(* result of one p?gstrf call *)
Inductive fres :=
| FDone (st : pstate) (r : freads)        (* factorization ran: L, U, perm_r, info in 0..n are F(r) *)
| FEstimate (st : pstate) (v : Z)         (* lwork = -1: info = v, nothing computed *)
| FMemFail (st : pstate) (v : Z)          (* info = v > n *)
| FWorkFail (st : pstate) (v : Z)         (* a thread could not get its work arrays: see F7 in DESIGN.md *)
| FUnmodelled | FDiverge.

(* p?gstrf = thread_init ; threads ; thread_finalize *)
Definition gstrf (s : pstate) (a : fargs) (refact : Z) (sym permr_in : Z) (lu : lustore) (sysok : bool) : fres :=
  let s1 := thread_init_glu s a refact in
  match mem_init s1 a refact lu sysok with
  | MUnmodelled => FUnmodelled
  | MDiverge => FDiverge
  | MEstimate s2 v => FEstimate s2 v
  | MFail s2 v => FMemFail s2 v
  | MOk s2 nzlmax nzumax nzlumax =>
      match work_init_all (Z.to_nat (fa_nprocs a)) s2 a with
      | WFail s3 v => FWorkFail s3 (v + memory_use (ps_ndim s3) (g_nzlmax (ps_glu s3)) (g_nzumax (ps_glu s3)) (g_nzlumax (ps_glu s3)) (fa_dword a))
      | WOk s3 =>
          (* the three statics of p?gstrf_bmod2D are local to that function: nothing between the entry of p?gstrf and the
             numerical phase can change them, so their values at the numerical phase are those at entry *)
          let sb := bmod_touch s a in
          let s4 := set_bmod s3 (ps_bmod_first sb) (ps_bmod_maxsuper sb) (ps_bmod_rowblk sb) in
          let r := mkFR (fa_pat a) (fa_vals a) (fa_permc_in a) sym (fa_u a)
                        (fa_usepr a) (if fa_usepr a =? c_YES then permr_in else 0)
                        (fa_nprocs a) (fa_panel a) (fa_relax a)
                        nzlmax nzumax (g_store (ps_glu s4))
                        (if ps_which s4 =? USER then k_array (ps_stack s4) else 0)
                        (ps_bmod_maxsuper s4) (ps_bmod_rowblk s4) (fa_maxsuper a) (fa_rowblk a) (g_dyn (ps_glu s4)) in
          FDone (finalize_exp (work_free s4)) r
      end
  end.

(* superlu_?QuerySpace: expansions = --no_expand   (p?memory.c:225) *)
Definition query_space (s : pstate) : pstate * Z :=
  let v := ps_no_expand s - 1 in (set_noexp_ndim s v (ps_ndim s), v).

(* ------------------------------------------------------------------ sessions: what the CALLER holds between calls *)
Inductive permr_t := PRnone | PRfrom (op : Z) | PRempty.      (* PRempty: every entry is EMPTY (-1) *)

Record factors := mkF { f_reads : freads; f_op : Z; f_ok : bool; f_lu : lustore;
                        f_nzlmax : Z; f_nzumax : Z; f_nzlumax : Z;     (* sizes the storage was allocated with *)
                        f_user : bool;
                        f_work : Z; f_lwork : Z; f_used : Z }.         (* user mode: the buffer, its size, bytes taken at its head *)

Record sess := mkSess {
  s_pat : Z; s_n : Z; s_annz : Z; s_dword : Z;
  s_vals : Z;                (* values now in A *)
  s_permc : Z;               (* op that produced the perm_c now held (0: none) *)
  s_permr : permr_t;
  s_sym : Z;                 (* op that produced etree / colcnt_h / part_super_h (0: none) *)
  s_fac : option factors;
  s_usepr : Z                (* options->usepr as left by the last factorization *)
}.

(* ------------------------------------------------------------------ operations of the alphabet *)
Inductive op :=
| OFirst (a : fargs) (opid : Z)                       (* get_perm_c ; sp_colorder(refact=NO) ; p?gstrf ; solve *)
| ORefact (a : fargs) (opid : Z)                      (* sp_colorder(refact=YES) ; p?gstrf ; solve *)
| OSolve (expert : bool) (trans rhs : Z)              (* expert: p?gssvx with fact = FACTORED; else ?gstrs directly *)
| OQuery (a : fargs) (refact : Z) (opid : Z) (restore : bool)   (* lwork = -1 *)
| OQSpace                                              (* superlu_?QuerySpace *)
| ODestroy.

(* observable outcome of an op *)
Inductive outcome :=
| RFactor (r : freads) (expert : bool) (expansions : Z)      (* L,U,perm_r,info,X = F(r); X solves with F(r) *)
| RSolve (r : freads) (trans rhs : Z) (expansions : option Z) (* X = S(F(r), trans, rhs) *)
| REstimate (v : Z) | RMemFail (v : Z) | RWorkFail (v : Z)
| RQSpace (expansions : Z)
| RNone                                                   (* destroy / nothing to do *)
| RInvalid                                                (* the sequence asks for something the API does not allow *)
| RUnmodelled.

Definition lu_of (se : sess) : lustore := match s_fac se with Some f => f_lu f | None => mkLU 0 end.
Definition permr_id (p : permr_t) : Z := match p with PRfrom k => k | PRnone => 0 | PRempty => -1 end.

Definition set_sess_fac (se : sess) (vals permc : Z) (permr : permr_t) (sym : Z) (f : option factors) (usepr : Z) : sess :=
  mkSess (s_pat se) (s_n se) (s_annz se) (s_dword se) vals permc permr sym f usepr.

(* [expert] = through p?gssvx (which ends with superlu_?QuerySpace) ; otherwise p?gstrf_init + p?gstrf + ?gstrs *)
Definition step (expert : bool) (st : pstate * sess) (o : op) : (pstate * sess) * outcome :=
  let '(s, se) := st in
  match o with
  | OFirst a opid =>
      match gstrf s a c_NO opid (permr_id (s_permr se)) (mkLU 0) true with
      | FDone s1 r =>
          let f := mkF r opid true (mkLU (fr_store r)) (fr_nzlmax r) (fr_nzumax r) (g_nzlumax (ps_glu s1)) (ps_which s1 =? USER)
                       (fa_work a) (fa_lwork a) (if ps_which s1 =? USER then k_top1 (ps_stack s1) else 0) in
          let se1 := set_sess_fac se (fa_vals a) opid (PRfrom opid) opid (Some f) (fa_usepr a) in
          if expert then let '(s2, e) := query_space s1 in ((s2, se1), RFactor r true e)
          else ((s1, se1), RFactor r false 0)
      (* perm_r is filled with EMPTY only after p?gstrf_MemInit has returned 0 (thread_init.c:146-151): a query or a
         memory failure leaves the caller's perm_r alone *)
      | FEstimate s1 v => ((s1, set_sess_fac se (fa_vals a) opid (s_permr se) opid (s_fac se) (fa_usepr a)), REstimate v)
      | FMemFail s1 v => ((s1, set_sess_fac se (fa_vals a) opid (s_permr se) opid None (fa_usepr a)), RMemFail v)
      | FWorkFail s1 v => ((s1, set_sess_fac se (fa_vals a) opid PRempty opid None (fa_usepr a)), RWorkFail v)
      | FUnmodelled | FDiverge => (st, RUnmodelled)
      end
  | ORefact a opid =>
      match s_fac se with
      | None => (st, RInvalid)
      | Some f0 =>
          match gstrf s a c_YES (s_sym se) (permr_id (s_permr se)) (f_lu f0) true with
          | FDone s1 r =>
              let f := mkF r opid true (f_lu f0) (f_nzlmax f0) (f_nzumax f0) (f_nzlumax f0) (f_user f0)
                           (f_work f0) (f_lwork f0) (f_used f0) in
              let se1 := set_sess_fac se (fa_vals a) (s_permc se) (PRfrom opid) (s_sym se) (Some f) (fa_usepr a) in
              if expert then let '(s2, e) := query_space s1 in ((s2, se1), RFactor r true e)
              else ((s1, se1), RFactor r false 0)
          | FEstimate s1 v => ((s1, set_sess_fac se (fa_vals a) (s_permc se) (s_permr se) (s_sym se) (s_fac se) (fa_usepr a)), REstimate v)
          | FMemFail s1 v => ((s1, se), RMemFail v)
          | FWorkFail s1 v =>
              (* the storage is still the session's, its contents are no longer factors of anything *)
              let f := mkF (f_reads f0) (f_op f0) false (f_lu f0) (f_nzlmax f0) (f_nzumax f0) (f_nzlumax f0) (f_user f0)
                           (f_work f0) (f_lwork f0) (f_used f0) in
              ((s1, set_sess_fac se (fa_vals a) (s_permc se) PRempty (s_sym se) (Some f) (fa_usepr a)), RWorkFail v)
          | FUnmodelled | FDiverge => (st, RUnmodelled)
          end
      end
  | OSolve ex trans rhs =>
      match s_fac se with
      | None => (st, RInvalid)
      | Some f =>
          if negb (f_ok f) then (st, RInvalid)
          else if ex then let '(s1, e) := query_space s in ((s1, se), RSolve (f_reads f) trans rhs (Some e))
          else (st, RSolve (f_reads f) trans rhs None)
      end
  | OQuery a refact opid restore =>
      let sym := if refact =? c_NO then opid else s_sym se in
      match gstrf s a refact sym (permr_id (s_permr se)) (lu_of se) true with
      | FEstimate s1 v =>
          (* "no other side effects": nothing the caller holds changes ([restore] is kept in the op for the harness protocol) *)
          ((s1, set_sess_fac se (s_vals se) (s_permc se) (s_permr se) (s_sym se) (s_fac se) (s_usepr se)), REstimate v)
      | _ => (st, RUnmodelled)
      end
  | OQSpace =>
      match s_fac se with
      | None => (st, RInvalid)
      | Some _ => let '(s1, e) := query_space s in ((s1, se), RQSpace e)
      end
  | ODestroy => ((s, set_sess_fac se (s_vals se) 0 PRnone 0 None (s_usepr se)), RNone)
  end.

(* a history: list of (through the expert driver?, op) *)
Fixpoint run (st : pstate * sess) (h : list (bool * op)) : (pstate * sess) * list outcome :=
  match h with
  | [] => (st, [])
  | (ex, o) :: r => let '(st1, out) := step ex st o in
                    let '(st2, outs) := run st1 r in (st2, out :: outs)
  end.

(* ------------------------------------------------------------------ observable part of the hidden state (K-exact) *)
Record observed := mkObs { ob_exp : bool; ob_ndim : Z; ob_head : Z; ob_tail : Z; ob_array : Z; ob_avail : Z }.
(* what harness/persist_harness.c:pr_state can see without any hook:
   dexpanders != 0, ndim (through p?gstrf_memory_use(0,0,0)), ?user_malloc(0, HEAD / TAIL) and the largest x with
   x + used < size  (-1 when even x = 0 is refused).
   NOTE (fix 'tail blocks are aligned by the allocator'): ?user_malloc(0, TAIL) is a neutral probe of top2 only when top2
   is on an 8-byte boundary; otherwise it returns top2 - top2 mod 8 and takes the slack
   (PersistProofs.user_malloc_probe_neutral / user_malloc_probe_tail_misaligned).  [observe] keeps reporting the FIELD
   top2: a harness that probes must do so only when lwork is a multiple of 8 or read the field through a hook. *)
Definition observe (s : pstate) : observed :=
  let k := ps_stack s in
  mkObs (ps_exp s) (ps_ndim s)
        (if stack_full k 0 then -1 else k_top1 k) (if stack_full k 0 then -1 else k_top2 k) (k_array k)
        (if stack_full k 0 then -1 else k_size k - k_used k - 1).

(* ------------------------------------------------------------------ pivot choice of p?gstrf_pivotL.c:93-160 *)
(* candidates: the entries of column jcol on/below the diagonal position of its supernode, as (row, |value|);
   magnitudes are integers and the threshold u = un/ud (the C code compares rounded floating-point products; the
   correspondence only asserts outside a rounding margin). *)
Record pivres := mkPiv { pv_ptr : nat; pv_row : Z; pv_usepr : bool; pv_info : Z }.

Fixpoint scan (c : list (Z * Z)) (idx : nat) (pivmax : Z) (pivptr : nat) (usepr : bool) (oldrow : Z) (oldptr : option nat)
              (diagrow : Z) (diag : option nat) : Z * nat * option nat * option nat :=
  match c with
  | [] => (pivmax, pivptr, oldptr, diag)
  | (row, mag) :: r =>
      let '(pm, pp) := if pivmax <? mag then (mag, idx) else (pivmax, pivptr) in
      let op := if usepr && (row =? oldrow) then Some idx else oldptr in      (* old_pivptr, EMPTY = None *)
      let dg := if row =? diagrow then Some idx else diag in
      scan r (S idx) pm pp usepr oldrow op diagrow dg
  end.

Definition nth_row (c : list (Z * Z)) (i : nat) : Z := fst (nth i c (c_EMPTY, 0)).
Definition nth_mag (c : list (Z * Z)) (i : nat) : Z := snd (nth i c (c_EMPTY, 0)).

(* un/ud = diag_pivot_thresh;  rtemp >= thresh  <->  mag * ud >= un * pivmax *)
Definition passes (mag pivmax un ud : Z) : bool := negb (mag =? 0) && (un * pivmax <=? mag * ud).

Definition pivotL (jcol : Z) (c : list (Z * Z)) (usepr : bool) (oldrow diagrow un ud : Z) : pivres :=
  let '(pivmax, pivptr, oldptr, diag) := scan c 0%nat 0 0%nat usepr oldrow None diagrow None in
  if pivmax =? 0 then                                                      (* singular: *usepr = NO *)
    (* no candidate row at all: the diagonal position is recorded (lines 121-129) *)
    mkPiv pivptr (if (pivptr <? length c)%nat then nth_row c pivptr else diagrow) false (jcol + 1)
  else
    let '(pivptr1, usepr1) :=
        if usepr then
          match oldptr with
          | None => (pivptr, false)                                        (* requested pivot row is not a candidate: give up reuse *)
          | Some o => if passes (nth_mag c o) pivmax un ud then (o, true) else (pivptr, false)
          end
        else (pivptr, false) in
    if usepr1 then mkPiv pivptr1 oldrow true 0                              (* *pivrow stays inv_perm_r[jcol] *)
    else
      let pivptr2 := match diag with
                     | Some d => if passes (nth_mag c d) pivmax un ud then d else pivptr1
                     | None => pivptr1
                     end in
      mkPiv pivptr2 (nth_row c pivptr2) false 0.

(* ------------------------------------------------------------------ a whole elimination, column by column *)
(* [cand piv j] : candidate rows of column j given the pivot rows chosen for columns 0..j-1 (the symbolic structure:
   a function of the pattern and the earlier pivots only);  [mag piv j row] : magnitude of that entry for the values at
   hand.  Both are parameters of the run, not of the development. *)
Fixpoint eliminate (n : nat) (j : Z) (cand : list Z -> Z -> list Z) (mag : list Z -> Z -> Z -> Z)
                   (oldpiv : Z -> Z) (diagrow : Z -> Z) (un ud : Z) (usepr : bool) (piv : list Z) : list Z * bool :=
  match n with
  | O => (piv, usepr)
  | S m =>
      let c := map (fun r => (r, mag piv j r)) (cand piv j) in
      let r := pivotL j c usepr (oldpiv j) (diagrow j) un ud in
      eliminate m (j + 1) cand mag oldpiv diagrow un ud (pv_usepr r) (piv ++ [pv_row r])
  end.

(* ------------------------------------------------------------------ the whole process: four precisions, several sessions *)
(* The statics live in p{s,d,c,z}memory.c / p{s,d,c,z}gstrf_thread_init.c / p{s,d,c,z}gstrf_bmod2D.c separately, so a
   call in one precision touches the record of that precision only. *)
Record proc := mkProc { pr_ps : list pstate; pr_se : list sess }.

Fixpoint upd {A} (l : list A) (i : nat) (x : A) : list A :=
  match l, i with
  | [], _ => []
  | _ :: r, O => x :: r
  | y :: r, S k => y :: upd r k x
  end.

Definition sess0 (pat n annz dword : Z) : sess := mkSess pat n annz dword 0 0 PRnone 0 None c_NO.
Definition proc0 (ses : list sess) : proc := mkProc [pstate0; pstate0; pstate0; pstate0] ses.

Definition pstep (P : proc) (ex : bool) (slot prec : nat) (o : op) : proc * outcome :=
  match nth_error (pr_ps P) prec, nth_error (pr_se P) slot with
  | Some s, Some se =>
      let '((s1, se1), out) := step ex (s, se) o in
      (mkProc (upd (pr_ps P) prec s1) (upd (pr_se P) slot se1), out)
  | _, _ => (P, RInvalid)
  end.

Definition pobserve (P : proc) (prec : nat) : option observed :=
  match nth_error (pr_ps P) prec with Some s => Some (observe s) | None => None end.

(* ------------------------------------------------------------------ ?lacon.c: reverse-communication 1-norm estimator *)
(* static int_t iter; static int_t jump, jlast; static double altsgn, estold; static int_t i, j;   (dlacon.c:83-86)
   The vectors, the reals and every arithmetic primitive are parameters of the section: the statements proved about
   [lacon_run] hold for every interpretation of them.  ([i] is a loop counter, assigned before every use.) *)
Section Lacon.
  Variables V R I : Type.
  Variable x_init : V.                       (* x[i] = 1/n *)
  Variable n_is_one : bool.
  Variable asum : V -> R.                    (* dasum *)
  Variable sign_vec : V -> V.                (* x[i] = d_sign(one, x[i]) *)
  Variable isgn_of : V -> I.                 (* isgn[i] = i_dnnt(x[i]) *)
  Variable same_signs : V -> I -> bool.      (* the loop at L70: no i with i_dnnt(d_sign(one,x[i])) != isgn[i] *)
  Variable idamax : V -> Z.                  (* idamax_(...) - 1 *)
  Variable unit_vec : Z -> V.                (* x = e_j *)
  Variable alt_vec : V.                      (* x[i-1] = altsgn * (1 + (i-1)/(n-1)) *)
  Variable alt_last : R.                     (* value left in altsgn *)
  Variable rle : R -> R -> bool.             (* *est <= estold *)
  Variable cycle_test : V -> Z -> Z -> bool. (* x[jlast] != fabs(x[j]) *)
  Variable final_temp : V -> R.              (* dasum(x) / (3n) * 2 *)
  Variable rlt : R -> R -> bool.
  Variable first_abs : V -> R.               (* fabs(v[0]) *)

  Record lstat := mkLS { la_iter : Z; la_jump : Z; la_jlast : Z; la_j : Z; la_altsgn : R; la_estold : R }.
  Record lvars := mkLV { lv_x : V; lv_v : V; lv_isgn : I; lv_est : R; lv_kase : Z }.

  Definition L120 (st : lstat) (c : lvars) : lstat * lvars :=
    (mkLS (la_iter st) 5 (la_jlast st) (la_j st) alt_last (la_estold st), mkLV alt_vec (lv_v c) (lv_isgn c) (lv_est c) 1).
  Definition L50 (st : lstat) (c : lvars) : lstat * lvars :=
    (mkLS (la_iter st) 3 (la_jlast st) (la_j st) (la_altsgn st) (la_estold st), mkLV (unit_vec (la_j st)) (lv_v c) (lv_isgn c) (lv_est c) 1).
  Definition L20 (st : lstat) (c : lvars) : lstat * lvars :=
    if n_is_one then (st, mkLV (lv_x c) (lv_x c) (lv_isgn c) (first_abs (lv_x c)) 0)
    else let x1 := sign_vec (lv_x c) in
         (mkLS (la_iter st) 2 (la_jlast st) (la_j st) (la_altsgn st) (la_estold st), mkLV x1 (lv_v c) (isgn_of x1) (asum (lv_x c)) 2).

  Definition lacon_call (st : lstat) (c : lvars) : lstat * lvars :=
    if lv_kase c =? 0 then
      (mkLS (la_iter st) 1 (la_jlast st) (la_j st) (la_altsgn st) (la_estold st), mkLV x_init (lv_v c) (lv_isgn c) (lv_est c) 1)
    else if la_jump st =? 2 then                                           (* L40 *)
      L50 (mkLS 2 (la_jump st) (la_jlast st) (idamax (lv_x c)) (la_altsgn st) (la_estold st)) c
    else if la_jump st =? 3 then                                           (* L70 *)
      let st1 := mkLS (la_iter st) (la_jump st) (la_jlast st) (la_j st) (la_altsgn st) (lv_est c) in
      let c1 := mkLV (lv_x c) (lv_x c) (lv_isgn c) (asum (lv_x c)) (lv_kase c) in
      if same_signs (lv_x c) (lv_isgn c) then L120 st1 c1
      else if rle (lv_est c1) (la_estold st1) then L120 st1 c1
      else let x1 := sign_vec (lv_x c1) in
           (mkLS (la_iter st1) 4 (la_jlast st1) (la_j st1) (la_altsgn st1) (la_estold st1), mkLV x1 (lv_v c1) (isgn_of x1) (lv_est c1) 2)
    else if la_jump st =? 4 then                                           (* L110 *)
      let jl := la_j st in
      let jn := idamax (lv_x c) in
      let st1 := mkLS (la_iter st) (la_jump st) jl jn (la_altsgn st) (la_estold st) in
      if cycle_test (lv_x c) jl jn && (la_iter st <? 5)
      then L50 (mkLS (la_iter st + 1) (la_jump st1) (la_jlast st1) (la_j st1) (la_altsgn st1) (la_estold st1)) c
      else L120 st1 c
    else if la_jump st =? 5 then                                           (* L140, L150 *)
      let t := final_temp (lv_x c) in
      if rlt (lv_est c) t then (st, mkLV (lv_x c) (lv_x c) (lv_isgn c) t 0) else (st, mkLV (lv_x c) (lv_v c) (lv_isgn c) (lv_est c) 0)
    else L20 st c.                                                          (* case 1, and no case matches: falls to L20 *)

  (* the caller's loop (?gscon.c): kase = 0; do { lacon; if kase == 0 break; x = op_kase(x) } *)
  Variable apply_op : Z -> V -> V.
  Fixpoint lacon_loop (fuel : nat) (st : lstat) (c : lvars) : lstat * lvars * bool :=
    match fuel with
    | O => (st, c, false)
    | S f => let '(st1, c1) := lacon_call st c in
             if lv_kase c1 =? 0 then (st1, c1, true)
             else lacon_loop f st1 (mkLV (apply_op (lv_kase c1) (lv_x c1)) (lv_v c1) (lv_isgn c1) (lv_est c1) (lv_kase c1))
    end.
  Definition lacon_run (fuel : nat) (st : lstat) (v0 : V) (i0 : I) (e0 : R) : lvars * bool :=
    let '(_, c, fin) := lacon_loop fuel st (mkLV x_init v0 i0 e0 0) in (c, fin).
End Lacon.
