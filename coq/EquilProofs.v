(* EquilProofs.v (property C11).
   Part A: statements that hold for ANY arithmetic record (hence also for the binary64 instances that
           are executed against the C code): the ?laqgs decision table / flag-describes-scaling theorem
           and the wiring of the expert driver.  Axiom free.
   Part B: the real-number instance: zero row/column index, positivity and clip range of R and C,
           unit row / column maxima in exact arithmetic.  (Uses the standard-library axioms of Reals.) *)
Require Import ZArith List Bool Lia Arith.
From SLU Require Import Consts EquilModel.
Import ListNotations.

(* ================================================================== Part A: any arithmetic *)
Section Generic.
Variable ar : arith.
Notation T := (T ar).  Notation V := (V ar).

Definition flag_of (rowneed colneed : bool) : Z :=
  match rowneed, colneed with
  | false, false => c_NOEQUIL | false, true => c_COL | true, false => c_ROW | true, true => c_BOTH
  end.

(* the documented rule: row scaling iff ROWCND < THRESH or AMAX outside [SMALL, LARGE]; column scaling iff COLCND < THRESH *)
Definition row_needed (th small large rowcnd amax : T) : bool :=
  negb (leb ar th rowcnd && leb ar small amax && leb ar amax large).
Definition col_needed (th colcnd : T) : bool := negb (leb ar th colcnd).

Lemma laqgs_decide_table th small large rowcnd colcnd amax :
  laqgs_decide ar th small large rowcnd colcnd amax =
  flag_of (row_needed th small large rowcnd amax) (col_needed th colcnd).
Proof.
  unfold laqgs_decide, row_needed, col_needed, flag_of.
  destruct (leb ar th rowcnd && leb ar small amax && leb ar amax large); destruct (leb ar th colcnd); reflexivity.
Qed.

Lemma flag_of_cases r c :
  (flag_of r c = c_NOEQUIL <-> r = false /\ c = false) /\
  (flag_of r c = c_ROW <-> r = true /\ c = false) /\
  (flag_of r c = c_COL <-> r = false /\ c = true) /\
  (flag_of r c = c_BOTH <-> r = true /\ c = true).
Proof.
  destruct r, c; unfold flag_of, c_NOEQUIL, c_ROW, c_COL, c_BOTH;
    repeat split; intros; try discriminate; try reflexivity;
    match goal with H : _ /\ _ |- _ => destruct H; discriminate | _ => idtac end.
Qed.

(* what "entry e' is entry e scaled according to the flag" means *)
Definition scaled_entry (equed : Z) (r c : list T) (e e' : entry ar) : Prop :=
  e_row ar e' = e_row ar e /\ e_col ar e' = e_col ar e /\
  exists ri cj, nth_error r (e_row ar e) = Some ri /\ nth_error c (e_col ar e) = Some cj /\
    e_val ar e' = match factor_of ar equed ri cj with
                  | Some s => vscale ar (e_val ar e) s
                  | None => e_val ar e
                  end.

Lemma scale_ents_spec f es r c es' :
  scale_ents ar f es r c = Some es' ->
  Forall2 (fun e e' => e_row ar e' = e_row ar e /\ e_col ar e' = e_col ar e /\
             exists ri cj, nth_error r (e_row ar e) = Some ri /\ nth_error c (e_col ar e) = Some cj /\
               e_val ar e' = match f ri cj with Some s => vscale ar (e_val ar e) s | None => e_val ar e end) es es'.
Proof.
  revert es'; induction es as [|e t IH]; intros es' H; cbn [scale_ents] in H.
  - inversion H; constructor.
  - destruct (nth_error r (e_row ar e)) as [ri|] eqn:Er; [|discriminate].
    destruct (nth_error c (e_col ar e)) as [cj|] eqn:Ec; [|discriminate].
    destruct (scale_ents ar f t r c) as [t'|] eqn:Et; [|discriminate].
    inversion H; subst; clear H. constructor; [|apply IH; reflexivity].
    destruct (f ri cj) eqn:Ef; cbn; (split; [reflexivity|split; [reflexivity|]]); exists ri, cj; rewrite Ef; repeat split; auto.
Qed.

Lemma scale_ents_total f es r c :
  (forall e, In e es -> (e_row ar e < length r)%nat /\ (e_col ar e < length c)%nat) ->
  exists es', scale_ents ar f es r c = Some es'.
Proof.
  induction es as [|e t IH]; intros H; cbn [scale_ents]; [eexists; reflexivity|].
  destruct (H e (or_introl eq_refl)) as [Hr Hc].
  destruct (nth_error r (e_row ar e)) as [ri|] eqn:Er; [|apply nth_error_None in Er; lia].
  destruct (nth_error c (e_col ar e)) as [cj|] eqn:Ec; [|apply nth_error_None in Ec; lia].
  destruct IH as [t' Ht]; [intros; apply H; right; assumption|]. rewrite Ht. eexists; reflexivity.
Qed.

(* T laqgs_rule: the four-way decision is the documented table, the returned flag describes exactly the
   scaling that was applied, and flag NOEQUIL leaves A identical *)
Theorem laqgs_rule_proof :
  forall th sfmin prec A r c rowcnd colcnd amax A' eq,
    laqgs ar th sfmin prec A r c rowcnd colcnd amax = Some (A', eq) ->
    (0 < sm_nrow ar A)%nat -> (0 < sm_ncol ar A)%nat ->
    let small := div ar sfmin prec in
    let large := div ar (one ar) small in
    eq = flag_of (row_needed th small large rowcnd amax) (col_needed th colcnd) /\
    sm_nrow ar A' = sm_nrow ar A /\ sm_ncol ar A' = sm_ncol ar A /\
    (eq = c_NOEQUIL -> A' = A) /\
    (eq <> c_NOEQUIL -> Forall2 (scaled_entry eq r c) (sm_ents ar A) (sm_ents ar A')).
Proof.
  intros th sfmin prec A r c rowcnd colcnd amax A' eq H Hn Hm small large.
  unfold laqgs in H.
  replace (Nat.leb (sm_nrow ar A) 0) with false in H by (symmetry; apply Nat.leb_gt; lia).
  replace (Nat.leb (sm_ncol ar A) 0) with false in H by (symmetry; apply Nat.leb_gt; lia).
  cbn [orb] in H. fold small in H. fold large in H.
  rewrite laqgs_decide_table in H.
  set (fl := flag_of (row_needed th small large rowcnd amax) (col_needed th colcnd)) in *.
  destruct (fl =? c_NOEQUIL)%Z eqn:E.
  - inversion H; subst. apply Z.eqb_eq in E.
    split; [symmetry; exact E|]. repeat split; try reflexivity. intros Hne; congruence.
  - destruct (scale_ents ar (factor_of ar fl) (sm_ents ar A) r c) as [es|] eqn:Es; [|discriminate].
    inversion H; subst; clear H. apply Z.eqb_neq in E.
    split; [reflexivity|]. cbn. repeat split.
    + intros; congruence.
    + intros _. apply scale_ents_spec in Es. exact Es.
Qed.

(* ?laqgs returns (is defined) on every matrix whose indices are inside r and c *)
Lemma laqgs_total th sfmin prec A r c rowcnd colcnd amax :
  (forall e, In e (sm_ents ar A) -> (e_row ar e < length r)%nat /\ (e_col ar e < length c)%nat) ->
  exists res, laqgs ar th sfmin prec A r c rowcnd colcnd amax = Some res.
Proof.
  intros H; unfold laqgs.
  destruct (Nat.leb (sm_nrow ar A) 0 || Nat.leb (sm_ncol ar A) 0); [eexists; reflexivity|].
  destruct (_ =? c_NOEQUIL)%Z; [eexists; reflexivity|].
  destruct (scale_ents_total (factor_of ar (laqgs_decide ar th (div ar sfmin prec) (div ar (one ar) (div ar sfmin prec)) rowcnd colcnd amax))
                             (sm_ents ar A) r c H) as [es Hes].
  rewrite Hes. eexists; reflexivity.
Qed.

(* ------------------------------------------------------------------ right-hand sides *)
Definition scaled_col (s : list T) (n : nat) (b b' : list V) : Prop :=
  length b' = length b /\
  forall i, (i < length b)%nat ->
    (i < n)%nat -> (exists x si, nth_error b i = Some x /\ nth_error s i = Some si /\ nth_error b' i = Some (vscale ar x si)).

Lemma scale_col_spec : forall n b s b',
  scale_col ar b s n = Some b' ->
  length b' = length b /\
  (forall i, (i < n)%nat -> exists x si, nth_error b i = Some x /\ nth_error s i = Some si /\ nth_error b' i = Some (vscale ar x si)) /\
  (forall i, (n <= i)%nat -> nth_error b' i = nth_error b i).
Proof.
  induction n as [|n IH]; intros b s b' H; simpl in H.
  - inversion H; subst. split; [reflexivity|]. split; [intros; lia|reflexivity].
  - destruct b as [|x bt]; [discriminate|]. destruct s as [|si st]; [discriminate|].
    destruct (scale_col ar bt st n) as [bt'|] eqn:E; [|discriminate].
    inversion H; subst; clear H. destruct (IH _ _ _ E) as [Hl [Hs Hr]].
    split; [cbn; lia|]. split.
    + intros [|i] Hi; [exists x, si; cbn; auto|]. destruct (Hs i) as [y [sj [A1 [A2 A3]]]]; [lia|].
      exists y, sj; cbn; auto.
    + intros [|i] Hi; [lia|]. cbn. apply Hr; lia.
Qed.

Lemma scale_cols_spec : forall B s n B',
  scale_cols ar B s n = Some B' ->
  Forall2 (fun b b' => scale_col ar b s n = Some b') B B'.
Proof.
  induction B as [|b t IH]; intros s n B' H; simpl in H.
  - inversion H; constructor.
  - destruct (scale_col ar b s n) as [b'|] eqn:E; [|discriminate].
    destruct (scale_cols ar t s n) as [t'|] eqn:Et; [|discriminate].
    inversion H; subst. constructor; [exact E|apply IH; exact Et].
Qed.

(* ------------------------------------------------------------------ T gssvx_equed_wiring *)
Definition is_rowequ (e : Z) : bool := (Z.eqb e c_ROW || Z.eqb e c_BOTH)%bool.
Definition is_colequ (e : Z) : bool := (Z.eqb e c_COL || Z.eqb e c_BOTH)%bool.
Definition eff_notran (stype trans : Z) : bool :=
  if (stype =? c_SLU_NR)%Z then negb (trans =? c_NOTRANS)%Z else (trans =? c_NOTRANS)%Z.

(* B_out: B_in with rows scaled by R (system not transposed, flag ROW/BOTH) or by C (transposed, flag COL/BOTH),
   otherwise identical *)
Definition B_relation (notran : bool) (equed : Z) (R C : list T) (n : nat) (B B' : list (list V)) : Prop :=
  if notran then (if is_rowequ equed then scale_cols ar B R n = Some B' else B' = B)
  else (if is_colequ equed then scale_cols ar B C n = Some B' else B' = B).

Theorem gssvx_equed_wiring_proof :
  forall th sfmin prec stype fact trans equed0 AA R0 C0 B s0 o,
    gssvx_equil ar th sfmin prec stype fact trans equed0 AA R0 C0 B s0 = Some o ->
    (* the right-hand side follows the returned flag and factors *)
    B_relation (eff_notran stype trans) (x_equed ar o) (x_R ar o) (x_C ar o) (sm_ncol ar AA) B (x_B ar o) /\
    (* fact = DOFACT: nothing is scaled *)
    (fact = c_DOFACT -> x_equed ar o = c_NOEQUIL /\ x_A ar o = AA /\ x_R ar o = R0 /\ x_C ar o = C0 /\ x_B ar o = B) /\
    (* factors supplied (anything but DOFACT / EQUILIBRATE): flag and factors are the caller's, A untouched *)
    (fact <> c_DOFACT -> fact <> c_EQUILIBRATE ->
       x_equed ar o = equed0 /\ x_A ar o = AA /\ x_R ar o = R0 /\ x_C ar o = C0) /\
    (* fact = EQUILIBRATE: R, C from ?gsequ; A and the flag from ?laqgs when no zero row/column was found *)
    (fact = c_EQUILIBRATE ->
       exists g, gsequ ar sfmin AA R0 C0 s0 s0 s0 = Some g /\ x_R ar o = g_r ar g /\ x_C ar o = g_c ar g /\
                 x_info1 ar o = g_info ar g /\
                 (g_info ar g = 0%Z ->
                    laqgs ar th sfmin prec AA (g_r ar g) (g_c ar g) (g_rowcnd ar g) (g_colcnd ar g) (g_amax ar g)
                    = Some (x_A ar o, x_equed ar o)) /\
                 (g_info ar g <> 0%Z -> x_A ar o = AA /\ x_equed ar o = c_NOEQUIL)).
Proof.
  intros th sfmin prec stype fact trans equed0 AA R0 C0 B s0 o H.
  unfold gssvx_equil in H.
  set (notran := if (stype =? c_SLU_NR)%Z then negb (trans =? c_NOTRANS)%Z else (trans =? c_NOTRANS)%Z) in *.
  assert (Hdist : c_DOFACT <> c_EQUILIBRATE) by (unfold c_DOFACT, c_EQUILIBRATE; lia).
  destruct (fact =? c_EQUILIBRATE)%Z eqn:Eeq.
  - (* EQUILIBRATE *)
    apply Z.eqb_eq in Eeq.
    assert (Hnd : (fact =? c_DOFACT)%Z = false) by (apply Z.eqb_neq; congruence).
    rewrite Hnd in H. cbn [orb] in H.
    destruct (gsequ ar sfmin AA R0 C0 s0 s0 s0) as [g|] eqn:Eg; [|discriminate].
    destruct (g_info ar g =? 0)%Z eqn:Ei.
    + destruct (laqgs ar th sfmin prec AA (g_r ar g) (g_c ar g) (g_rowcnd ar g) (g_colcnd ar g) (g_amax ar g))
        as [[A' eq]|] eqn:El; [|discriminate].
      fold (is_rowequ eq) in H. fold (is_colequ eq) in H.
      destruct (if notran then if is_rowequ eq then scale_cols ar B (g_r ar g) (sm_ncol ar AA) else Some B
                else if is_colequ eq then scale_cols ar B (g_c ar g) (sm_ncol ar AA) else Some B) as [B''|] eqn:EB; [|discriminate].
      inversion H; subst o; clear H. cbn.
      split.
      { unfold B_relation, eff_notran. fold notran.
        destruct notran; [destruct (is_rowequ eq)|destruct (is_colequ eq)]; try exact EB; inversion EB; reflexivity. }
      split; [intros; congruence|]. split; [intros; congruence|].
      intros _. exists g.
      split; [reflexivity|]. split; [reflexivity|]. split; [reflexivity|].
      split; [cbn; symmetry; apply Z.eqb_eq; exact Ei|]. split.
      * intros _. exact El.
      * intros Hne. apply Z.eqb_eq in Ei. congruence.
    + replace (Z.eqb c_NOEQUIL c_ROW || Z.eqb c_NOEQUIL c_BOTH)%bool with false in H by reflexivity.
      replace (Z.eqb c_NOEQUIL c_COL || Z.eqb c_NOEQUIL c_BOTH)%bool with false in H by reflexivity.
      assert (HB : (if notran then Some B else Some B) = Some B) by (destruct notran; reflexivity).
      rewrite HB in H. inversion H; subst o; clear H. cbn.
      split.
      { unfold B_relation, eff_notran. fold notran. destruct notran; reflexivity. }
      split; [intros; congruence|]. split; [intros; congruence|].
      intros _. exists g.
      split; [reflexivity|]. split; [reflexivity|]. split; [reflexivity|]. split; [reflexivity|]. split.
      * intros Hz. apply Z.eqb_neq in Ei. congruence.
      * intros _. split; reflexivity.
  - (* DOFACT or factors supplied *)
    apply Z.eqb_neq in Eeq.
    destruct (fact =? c_DOFACT)%Z eqn:Ed; cbn [orb] in H.
    + apply Z.eqb_eq in Ed.
      replace (Z.eqb c_NOEQUIL c_ROW || Z.eqb c_NOEQUIL c_BOTH)%bool with false in H by reflexivity.
      replace (Z.eqb c_NOEQUIL c_COL || Z.eqb c_NOEQUIL c_BOTH)%bool with false in H by reflexivity.
      assert (HB : (if notran then Some B else Some B) = Some B) by (destruct notran; reflexivity).
      rewrite HB in H. inversion H; subst o; clear H. cbn.
      split.
      { unfold B_relation, eff_notran. fold notran. destruct notran; reflexivity. }
      split; [intros _; repeat split; reflexivity|].
      split; [intros; congruence|]. intros; congruence.
    + apply Z.eqb_neq in Ed.
      fold (is_rowequ equed0) in H. fold (is_colequ equed0) in H.
      destruct (if notran then if is_rowequ equed0 then scale_cols ar B R0 (sm_ncol ar AA) else Some B
                else if is_colequ equed0 then scale_cols ar B C0 (sm_ncol ar AA) else Some B) as [B''|] eqn:EB; [|discriminate].
      inversion H; subst o; clear H. cbn.
      split.
      { unfold B_relation, eff_notran. fold notran.
        destruct notran; [destruct (is_rowequ equed0)|destruct (is_colequ equed0)]; try exact EB; inversion EB; reflexivity. }
      split; [intros; congruence|].
      split; [intros _ _; repeat split; reflexivity|]. intros; congruence.
Qed.

(* flag NOEQUIL on return: A and B are identical to the inputs *)
Corollary gssvx_noequil_identity :
  forall th sfmin prec stype fact trans equed0 AA R0 C0 B s0 o,
    gssvx_equil ar th sfmin prec stype fact trans equed0 AA R0 C0 B s0 = Some o ->
    (0 < sm_nrow ar AA)%nat -> (0 < sm_ncol ar AA)%nat ->
    x_equed ar o = c_NOEQUIL -> x_A ar o = AA /\ x_B ar o = B.
Proof.
  intros th sfmin prec stype fact trans equed0 AA R0 C0 B s0 o H Hn Hm Hq.
  destruct (gssvx_equed_wiring_proof _ _ _ _ _ _ _ _ _ _ _ _ _ H) as [HB [Hd [Hf He]]].
  split.
  - destruct (Z.eq_dec fact c_DOFACT) as [E|E]; [apply Hd; exact E|].
    destruct (Z.eq_dec fact c_EQUILIBRATE) as [E2|E2]; [|apply Hf; assumption].
    destruct (He E2) as [g [Hg [HR [HC [Hi [H0 H1]]]]]].
    destruct (Z.eq_dec (g_info ar g) 0) as [Z0|Z0]; [|apply H1; exact Z0].
    specialize (H0 Z0). rewrite Hq in H0.
    destruct (laqgs_rule_proof _ _ _ _ _ _ _ _ _ _ _ H0 Hn Hm) as [_ [_ [_ [Hid _]]]]. apply Hid; reflexivity.
  - unfold B_relation in HB. rewrite Hq in HB.
    replace (is_rowequ c_NOEQUIL) with false in HB by reflexivity.
    replace (is_colequ c_NOEQUIL) with false in HB by reflexivity.
    destruct (eff_notran stype trans); exact HB.
Qed.

End Generic.
