(* ReaderModel.v -- executable model of the matrix file readers of SuperLU_MT
   (SRC/?readhb.c, SRC/?readrb.c, SRC/?readmt.c) over byte lists, and an independent
   pretty-printer for the three file formats.  Definitions only (no proofs).

   Conventions
   * a byte is a [Z] in 0..255; the value -1 marks an INDETERMINATE cell of a C buffer
     (uninitialised automatic storage).  Examining such a cell, or a cell beyond the
     end of the buffer, is reported as [Err E_UNDEF], never silently defaulted.
   * every function that can leave the domain in which the C code has a defined,
     terminating behaviour returns [Err code] (codes below), so that no theorem
     can become true through a default value.
   * int_t is int (32 bit) in this build (no _LONGINT). *)
From Coq Require Import ZArith List Bool.
Import ListNotations.
Local Open Scope Z_scope.

(* ------------------------------------------------------------------ results *)
Inductive res (A : Type) : Type :=
| Ok (a : A)
| Err (code : Z).
Arguments Ok {A} a.
Arguments Err {A} code.

Definition E_EOF    : Z := 1. (* fscanf %kc / scanf input failure or truncated file: variables left unassigned / stale buffer re-parsed; not modelled *)
Definition E_HANG   : Z := 2. (* the C loop does not terminate (DumpLine at EOF, repeat count <= 0) *)
Definition E_OOB    : Z := 3. (* index outside the 100-byte line buffer *)
Definition E_UNDEF  : Z := 4. (* indeterminate byte, or byte beyond a buffer, examined *)
Definition E_RANGE  : Z := 5. (* integer outside int: atoi / scanf %d undefined *)
Definition E_SYNTAX : Z := 6. (* number syntax outside the modelled subset (inf, nan, hex, dangling exponent in scanf) *)
Definition E_ALLOC  : Z := 7. (* negative size passed to ?allocateA, or store past the allocated arrays (?readmt) *)
Definition E_TITLE  : Z := 8. (* ?readmt: title line does not fit title[80] *)
Definition E_WIDTH0 : Z := 9. (* field width 0: terminates in C but is not modelled *)

Definition bind {A B : Type} (r : res A) (f : A -> res B) : res B :=
  match r with Ok a => f a | Err e => Err e end.

(* ------------------------------------------------------------------ characters *)
Definition is_space (c : Z) : bool := (c =? 32) || ((9 <=? c) && (c <=? 13)).
Definition is_digit (c : Z) : bool := (48 <=? c) && (c <=? 57).
Definition is_e (c : Z) : bool := (c =? 69) || (c =? 101).
Definition INT_MAX : Z := 2147483647.
Definition INT_MIN : Z := -2147483648.
Definition in_int (z : Z) : bool := (INT_MIN <=? z) && (z <=? INT_MAX).

Fixpoint skip_ws (l : list Z) : list Z :=
  match l with
  | c :: r => if is_space c then skip_ws r else l
  | [] => []
  end.

Fixpoint span_digits (l : list Z) : list Z * list Z :=
  match l with
  | c :: r => if is_digit c then let '(d, t) := span_digits r in (c :: d, t) else ([], l)
  | [] => ([], [])
  end.

Definition val_digits (ds : list Z) : Z := fold_left (fun a c => a * 10 + (c - 48)) ds 0.

Definition is_nil {A : Type} (l : list A) : bool := match l with [] => true | _ => false end.

(* optional sign *)
Definition scan_sign (l : list Z) : bool * list Z :=
  match l with
  | c :: r => if c =? 45 then (true, r) else if c =? 43 then (false, r) else (false, l)
  | [] => (false, [])
  end.

(* blanks, optional sign, digits: the common core of atoi / strtol / scanf %d.
   Returns the value, the unread suffix and whether at least one digit was seen. *)
Definition scan_int (l : list Z) : Z * list Z * bool :=
  let '(neg, l2) := scan_sign (skip_ws l) in
  let '(ds, l3) := span_digits l2 in
  let v := val_digits ds in
  ((if neg then - v else v), l3, negb (is_nil ds)).

Definition defined_head (l : list Z) : bool :=
  match l with c :: _ => 0 <=? c | [] => false end.

(* atoi applied to the address of a buffer cell: [l] is the buffer from that cell on.
   Every cell examined is either consumed or is the head of the unread suffix. *)
Definition atoi_buf (l : list Z) : res Z :=
  let '(v, rest, _) := scan_int l in
  if defined_head rest then (if in_int v then Ok v else Err E_RANGE) else Err E_UNDEF.

(* scanf("%d") on the rest of the stream *)
Definition scanf_d (s : list Z) : res (Z * list Z) :=
  let '(v, rest, got) := scan_int s in
  if got then (if in_int v then Ok (v, rest) else Err E_RANGE) else Err E_EOF.

(* ------------------------------------------------------------------ decimal reals *)
(* (neg, mant, e10) denotes (-1)^neg * mant * 10^e10, mant >= 0 *)
Definition dec : Type := (bool * Z * Z)%type.
Definition dec_zero : dec := (false, 0, 0).

(* decimal subset of strtod.  status 0: number converted; 1: no conversion;
   2: inf / nan / hex (not modelled); 3: converted, and an 'e' without digits follows *)
Definition scan_float (l : list Z) : Z * dec * list Z :=
  let '(neg, l2) := scan_sign (skip_ws l) in
  let special :=
    match l2 with
    | c :: r =>
        (c =? 105) || (c =? 73) || (c =? 110) || (c =? 78) ||
        ((c =? 48) && match r with x :: _ => (x =? 120) || (x =? 88) | [] => false end)
    | [] => false
    end in
  if special then (2, dec_zero, l) else
  let '(ip, l3) := span_digits l2 in
  let '(fp, l4) :=
    match l3 with
    | c :: r => if c =? 46 then span_digits r else ([], l3)
    | [] => ([], l3)
    end in
  if is_nil ip && is_nil fp then (1, dec_zero, l) else
  let mant := val_digits (ip ++ fp) in
  let nf := Z.of_nat (length fp) in
  match l4 with
  | c :: r =>
      if is_e c then
        let '(eneg, r2) := scan_sign r in
        let '(ed, r3) := span_digits r2 in
        if is_nil ed then (3, (neg, mant, - nf), l4)
        else (0, (neg, mant, (if eneg then - val_digits ed else val_digits ed) - nf), r3)
      else (0, (neg, mant, - nf), l4)
  | [] => (0, (neg, mant, - nf), [])
  end.

(* atof on a C string (the bytes before the terminating NUL) *)
Definition atof_str (str : list Z) : res dec :=
  let '(st, d, _) := scan_float str in
  if st =? 2 then Err E_SYNTAX else if st =? 1 then Ok dec_zero else Ok d.

(* scanf("%lf") / scanf("%f") on the stream *)
Definition scanf_f (s : list Z) : res (dec * list Z) :=
  let '(st, d, rest) := scan_float s in
  if st =? 0 then Ok (d, rest) else if st =? 1 then Err E_EOF else Err E_SYNTAX.

(* the bytes of a C string starting at the head of [l]; all of them must be determinate *)
Fixpoint cstr (l : list Z) : res (list Z) :=
  match l with
  | [] => Err E_UNDEF
  | c :: r =>
      if c =? 0 then Ok [] else if c <? 0 then Err E_UNDEF else
      match cstr r with Ok s => Ok (c :: s) | Err e => Err e end
  end.

(* ------------------------------------------------------------------ buffers and streams *)
Definition BUFSZ : Z := 100.
Definition undef_buf : list Z := repeat (-1) 100.

(* store [bytes] at offset 0 *)
Definition buf_write (bytes buf : list Z) : list Z := bytes ++ skipn (length bytes) buf.
(* buf[p] = v  (caller checks p < length buf) *)
Definition buf_set (p : nat) (v : Z) (buf : list Z) : list Z := firstn p buf ++ v :: skipn (S p) buf.

(* fscanf(fp, "%kc", ...) : exactly k bytes, whatever they are *)
Definition read_c (k : nat) (s : list Z) : res (list Z * list Z) :=
  if (length s <? k)%nat then Err E_EOF else Ok (firstn k s, skipn k s).

(* while ((c = fgetc(fp)) != '\n') ;   -- never terminates at end of file *)
Fixpoint dump_line (s : list Z) : res (list Z) :=
  match s with
  | [] => Err E_HANG
  | c :: r => if c =? 10 then Ok r else dump_line r
  end.

Fixpoint fgets_aux (k : nat) (s : list Z) : list Z * list Z :=
  match k with
  | O => ([], s)
  | S k' =>
      match s with
      | [] => ([], [])
      | c :: r => if c =? 10 then ([c], r) else let '(a, b) := fgets_aux k' r in (c :: a, b)
      end
  end.

(* fgets(buf, 100, fp) on a non-empty stream *)
Definition fgets (buf s : list Z) : list Z * list Z :=
  let '(line, rest) := fgets_aux 99 s in (buf_write (line ++ [0]) buf, rest).

(* ------------------------------------------------------------------ format descriptors *)
(* while ( *tmp++ != c ) ;  -- no NUL test in the C code *)
Fixpoint find_after (c : Z) (l : list Z) : res (list Z) :=
  match l with
  | [] => Err E_UNDEF
  | x :: r => if x <? 0 then Err E_UNDEF else if x =? c then Ok r else find_after c r
  end.

(* while ( *tmp != c1 && ... ) ++tmp;  -- result starts AT the matching byte *)
Fixpoint find_at (p : Z -> bool) (l : list Z) : res (list Z) :=
  match l with
  | [] => Err E_UNDEF
  | x :: r => if x <? 0 then Err E_UNDEF else if p x then Ok l else find_at p r
  end.

Definition is_I (c : Z) : bool := (c =? 73) || (c =? 105).
Definition is_EDF (c : Z) : bool :=
  (c =? 69) || (c =? 101) || (c =? 68) || (c =? 100) || (c =? 70) || (c =? 102).
Definition is_P (c : Z) : bool := (c =? 80) || (c =? 112).
Definition is_dot_or_rpar (c : Z) : bool := (c =? 46) || (c =? 41).

(* ?ParseIntFormat(buf, &num, &size) *)
Definition parse_int_format (buf : list Z) : res (Z * Z) :=
  bind (find_after 40 buf) (fun tmp =>
  bind (atoi_buf tmp) (fun num =>
  bind (find_at is_I tmp) (fun tmp2 =>
  bind (atoi_buf (tl tmp2)) (fun size => Ok (num, size))))).

(* the while loop of ?ParseFloatFormat: returns num and the suffix AFTER the E/D/F letter *)
Fixpoint pff_loop (l : list Z) (num : Z) : res (Z * list Z) :=
  match l with
  | [] => Err E_UNDEF
  | c :: r =>
      if c <? 0 then Err E_UNDEF else
      if is_EDF c then Ok (num, r) else
      if is_P c then
        match atoi_buf r with Ok n' => pff_loop r n' | Err e => Err e end
      else pff_loop r num
  end.

(* ?ParseFloatFormat(buf, &num, &size).  The C code stores a NUL at the first '.' or ')'
   after the letter before calling atoi; atoi stops at the first non-digit, which is at or
   before that position and is a determinate non-digit either way, so the store does not
   change the result and is not modelled (the buffer is overwritten or dead afterwards). *)
Definition parse_float_format (buf : list Z) : res (Z * Z) :=
  bind (find_after 40 buf) (fun tmp =>
  bind (atoi_buf tmp) (fun num0 =>
  bind (pff_loop tmp num0) (fun '(num, tmp2) =>
  bind (find_at is_dot_or_rpar tmp2) (fun _ =>
  bind (atoi_buf tmp2) (fun size => Ok (num, size)))))).

(* ------------------------------------------------------------------ fixed-width field slicing *)
(* the cells seen by atoi(&buf[j*persize]) after buf[(j+1)*persize] = 0 *)
Definition field_cells (buf : list Z) (j persize : Z) : res (list Z) :=
  let e := (j + 1) * persize in
  if persize =? 0 then Err E_WIDTH0 else
  if (0 <=? e) && (e <? BUFSZ) && (0 <=? j * persize) then
    Ok (skipn (Z.to_nat (j * persize)) (buf_set (Z.to_nat e) 0 buf))
  else Err E_OOB.

(* one item of ?ReadVector: where[i] = atoi(field) - 1; the saved byte is restored, buffer unchanged *)
Definition read_int_field (persize : Z) (buf : list Z) (j : Z) : res (Z * list Z) :=
  bind (field_cells buf j persize) (fun cells =>
  bind (atoi_buf cells) (fun item =>
  if in_int (item - 1) then Ok (item - 1, buf) else Err E_RANGE)).

Definition d2e (c : Z) : Z := if (c =? 68) || (c =? 100) then 69 else c.

(* one item of ?ReadValues: D/d -> E inside the field (kept in the buffer), then atof *)
Definition read_val_field (persize : Z) (buf : list Z) (j : Z) : res (dec * list Z) :=
  let e := (j + 1) * persize in
  if persize =? 0 then Err E_WIDTH0 else
  if (0 <=? e) && (e <? BUFSZ) && (0 <=? j * persize) then
    let s := Z.to_nat (j * persize) in
    let w := Z.to_nat persize in
    let buf1 := firstn s buf ++ map d2e (firstn w (skipn s buf)) ++ skipn (s + w) buf in
    bind (cstr (skipn s (buf_set (Z.to_nat e) 0 buf1))) (fun str =>
    bind (atof_str str) (fun v => Ok (v, buf1)))
  else Err E_OOB.

Section ReadLines.
  Context {A : Type}.
  Variable rf : list Z -> Z -> res (A * list Z).   (* buffer -> field number -> item, buffer' *)

  (* for (j = 0; j < perline && i < n; j++) ...   [k] counts perline - j, [rem] is n - i *)
  Fixpoint read_fields (k : nat) (j : Z) (buf : list Z) (rem : Z) : res (list A * list Z * Z) :=
    match k with
    | O => Ok ([], buf, rem)
    | S k' =>
        if rem <=? 0 then Ok ([], buf, rem) else
        match rf buf j with
        | Err e => Err e
        | Ok (x, buf1) =>
            match read_fields k' (j + 1) buf1 (rem - 1) with
            | Err e => Err e
            | Ok (xs, buf2, r2) => Ok (x :: xs, buf2, r2)
            end
        end
    end.

  (* while (i < n) { fgets(buf, 100, fp); for ... }.
     perline <= 0 never advances (E_HANG).  At end of file fgets leaves the buffer as it was and
     the C code parses it again; that is a truncated file and is reported as E_EOF.
     A field number >= 100 is necessarily outside the buffer (width >= 1), hence the cap. *)
  Fixpoint read_lines (fuel : nat) (s buf : list Z) (rem perline : Z) : res (list A * list Z) :=
    if rem <=? 0 then Ok ([], s) else
    match fuel with
    | O => Err E_HANG
    | S f =>
        if perline <=? 0 then Err E_HANG else
        match s with
        | [] => Err E_EOF
        | _ =>
            let '(buf1, s1) := fgets buf s in
            match read_fields (Z.to_nat (Z.min perline 100)) 0 buf1 rem with
            | Err e => Err e
            | Ok (xs, buf2, r2) =>
                match read_lines f s1 buf2 r2 perline with
                | Err e => Err e
                | Ok (ys, s2) => Ok (xs ++ ys, s2)
                end
            end
        end
    end.
End ReadLines.

(* ?ReadVector(fp, n, where, perline, persize) with its own (indeterminate) char buf[100] *)
Definition read_vector (s : list Z) (n perline persize : Z) : res (list Z * list Z) :=
  read_lines (read_int_field persize) (S (length s)) s undef_buf n perline.

(* ?ReadValues: n reals; the complex twins read 2n reals and pair them (r, i) *)
Definition read_values (s : list Z) (n perline persize : Z) : res (list dec * list Z) :=
  read_lines (read_val_field persize) (S (length s)) s undef_buf n perline.

(* ------------------------------------------------------------------ results *)
Record rd_result : Type := mkres {
  r_m : Z; r_n : Z; r_nnz : Z;
  r_colptr : list Z;          (* 0-based *)
  r_rowind : list Z;          (* 0-based *)
  r_hasvals : bool;           (* false: nzval[] left uninitialised by the reader *)
  r_vals : list dec           (* nnz reals, or 2*nnz (re, im interleaved) for c/z *)
}.

(* fscanf("%kc", buf) [; buf[k] = 0] ; atoi(buf) *)
Definition header_int (k : nat) (terminate : bool) (buf s : list Z) : res (Z * list Z * list Z) :=
  bind (read_c k s) (fun '(f, s1) =>
  let buf1 := buf_write f buf in
  let buf2 := if terminate then buf_set k 0 buf1 else buf1 in
  bind (atoi_buf buf2) (fun v => Ok (v, buf2, s1))).

Definition alloc_ok (ncol nonz : Z) : bool := (0 <=? ncol) && (ncol <? INT_MAX) && (0 <=? nonz).

(* the three vectors, common to ?readhb and ?readrb *)
Definition read_body (cplx : bool) (s : list Z) (nrow ncol nonz numer_lines : Z)
           (colnum colsize rownum rowsize valnum valsize : Z) : res rd_result :=
  bind (read_vector s (ncol + 1) colnum colsize) (fun '(cp, s1) =>
  bind (read_vector s1 nonz rownum rowsize) (fun '(ri, s2) =>
  if numer_lines =? 0 then Ok (mkres nrow ncol nonz cp ri false [])
  else
    bind (read_values s2 (if cplx then 2 * nonz else nonz) valnum valsize) (fun '(vs, _) =>
    Ok (mkres nrow ncol nonz cp ri true vs)))).

(* ?readhb *)
Definition parse_hb (cplx : bool) (s : list Z) : res rd_result :=
  (* Line 1 *)
  bind (read_c 72 s) (fun '(t, s) =>
  let buf := buf_set 72 0 (buf_write t undef_buf) in
  bind (read_c 8 s) (fun '(_, s) =>
  bind (dump_line s) (fun s =>
  (* Line 2: five I14, buf[14] = 0 each time *)
  bind (header_int 14 true buf s) (fun '(_, buf, s) =>
  bind (header_int 14 true buf s) (fun '(_, buf, s) =>
  bind (header_int 14 true buf s) (fun '(_, buf, s) =>
  bind (header_int 14 true buf s) (fun '(numer_lines, buf, s) =>
  bind (header_int 14 true buf s) (fun '(rhscrd, buf, s) =>
  bind (dump_line s) (fun s =>
  (* Line 3: type, pad into buf, four I14 relying on the stale buf[14] = 0 *)
  bind (read_c 3 s) (fun '(_, s) =>
  bind (read_c 11 s) (fun '(pad, s) =>
  let buf := buf_write pad buf in
  bind (header_int 14 false buf s) (fun '(nrow, buf, s) =>
  bind (header_int 14 false buf s) (fun '(ncol, buf, s) =>
  bind (header_int 14 false buf s) (fun '(nonz, buf, s) =>
  bind (header_int 14 false buf s) (fun '(_, buf, s) =>
  bind (dump_line s) (fun s =>
  (* Line 4 *)
  bind (read_c 16 s) (fun '(f, s) =>
  let buf := buf_write f buf in
  bind (parse_int_format buf) (fun '(colnum, colsize) =>
  bind (read_c 16 s) (fun '(f, s) =>
  let buf := buf_write f buf in
  bind (parse_int_format buf) (fun '(rownum, rowsize) =>
  bind (read_c 20 s) (fun '(f, s) =>
  let buf := buf_write f buf in
  bind (parse_float_format buf) (fun '(valnum, valsize) =>
  bind (read_c 20 s) (fun '(_, s) =>
  bind (dump_line s) (fun s =>
  (* Line 5 *)
  bind (if rhscrd =? 0 then Ok s else dump_line s) (fun s =>
  if alloc_ok ncol nonz then
    read_body cplx s nrow ncol nonz numer_lines colnum colsize rownum rowsize valnum valsize
  else Err E_ALLOC))))))))))))))))))))))))).

(* ?readrb *)
Definition parse_rb (cplx : bool) (s : list Z) : res rd_result :=
  match s with
  | [] => Err E_EOF
  | _ =>
  (* Line 1: fgets(buf, 100, fp) *)
  let '(buf, s) := fgets undef_buf s in
  (* Line 2: four I14 *)
  bind (header_int 14 true buf s) (fun '(_, buf, s) =>
  bind (header_int 14 true buf s) (fun '(_, buf, s) =>
  bind (header_int 14 true buf s) (fun '(_, buf, s) =>
  bind (header_int 14 true buf s) (fun '(numer_lines, buf, s) =>
  bind (dump_line s) (fun s =>
  (* Line 3 *)
  bind (read_c 3 s) (fun '(_, s) =>
  bind (read_c 11 s) (fun '(pad, s) =>
  let buf := buf_write pad buf in
  bind (header_int 14 false buf s) (fun '(nrow, buf, s) =>
  bind (header_int 14 false buf s) (fun '(ncol, buf, s) =>
  bind (header_int 14 false buf s) (fun '(nonz, buf, s) =>
  bind (header_int 14 false buf s) (fun '(_, buf, s) =>
  bind (dump_line s) (fun s =>
  if alloc_ok ncol nonz then
  (* Line 4 *)
  bind (read_c 16 s) (fun '(f, s) =>
  let buf := buf_write f buf in
  bind (parse_int_format buf) (fun '(colnum, colsize) =>
  bind (read_c 16 s) (fun '(f, s) =>
  let buf := buf_write f buf in
  bind (parse_int_format buf) (fun '(rownum, rowsize) =>
  bind (read_c 20 s) (fun '(f, s) =>
  let buf := buf_write f buf in
  bind (parse_float_format buf) (fun '(valnum, valsize) =>
  bind (dump_line s) (fun s =>
    read_body cplx s nrow ncol nonz numer_lines colnum colsize rownum rowsize valnum valsize)))))))
  else Err E_ALLOC))))))))))))
  end.

(* ?readmt: title line, "m n nonz", then per column "nnz" followed by nnz "row value" items,
   all free format through scanf *)
Fixpoint split_line (s : list Z) : res (list Z * list Z) :=
  match s with
  | [] => Err E_HANG      (* getchar() == EOF forever, title[] overrun *)
  | c :: r => if c =? 10 then Ok ([], r) else
      match split_line r with Ok (a, b) => Ok (c :: a, b) | Err e => Err e end
  end.

(* for (k = 0; k < nnz; k++) { scanf("%d%lf\n", &asub[lasta], &a[lasta]); --asub[lasta]; lasta++; } *)
Fixpoint mt_items (cplx : bool) (k : nat) (s : list Z) (lasta nonz : Z)
  : res (list Z * list dec * list Z * Z) :=
  match k with
  | O => Ok ([], [], s, lasta)
  | S k' =>
      if nonz <=? lasta then Err E_ALLOC else
      bind (scanf_d s) (fun '(row, s1) =>
      bind (scanf_f s1) (fun '(re, s2) =>
      bind (if cplx then bind (scanf_f s2) (fun '(im, s3) => Ok ([re; im], s3)) else Ok ([re], s2))
           (fun '(vs, s3) =>
      if in_int (row - 1) then
        bind (mt_items cplx k' (skip_ws s3) (lasta + 1) nonz) (fun '(rs, ws, s4, la) =>
        Ok ((row - 1) :: rs, vs ++ ws, s4, la))
      else Err E_RANGE)))
  end.

(* for (i = 0; i < *n; i++) { scanf("%d", &nnz); xa[i] = lasta; ... } *)
Fixpoint mt_cols (cplx : bool) (ncols : nat) (s : list Z) (lasta nonz cap : Z)
  : res (list Z * list Z * list dec * Z) :=
  match ncols with
  | O => Ok ([], [], [], lasta)
  | S c' =>
      bind (scanf_d s) (fun '(nnz, s1) =>
      (* every item consumes at least one byte: a count above cap = file size + 1 ends in an
         error anyway; capping keeps the unary counter small *)
      bind (mt_items cplx (Z.to_nat (Z.min nnz cap)) s1 lasta nonz) (fun '(rs, ws, s2, la) =>
      bind (mt_cols cplx c' s2 la nonz cap) (fun '(xa, rs2, ws2, la2) =>
      Ok (lasta :: xa, rs ++ rs2, ws ++ ws2, la2))))
  end.

Definition parse_mt (cplx : bool) (s : list Z) : res rd_result :=
  bind (split_line s) (fun '(title, s) =>
  if (80 <=? Z.of_nat (length title)) then Err E_TITLE else
  bind (scanf_d s) (fun '(m, s) =>
  bind (scanf_d s) (fun '(n, s) =>
  bind (scanf_d s) (fun '(nonz, s) =>
  if alloc_ok n nonz && (n <=? Z.of_nat (length s)) then
    (* every column consumes at least one byte, so n > length s cannot succeed; the test keeps
       the unary column counter bounded by the file size *)
    bind (mt_cols cplx (Z.to_nat n) s 0 nonz (Z.of_nat (length s) + 1)) (fun '(xa, rs, ws, lasta) =>
    Ok (mkres m n nonz (xa ++ [lasta]) rs true ws))
  else if alloc_ok n nonz then Err E_EOF else Err E_ALLOC)))).

(* ================================================================== the printer *)
(* decimal digits (ASCII) of n >= 0, most significant first; fuel = number of bits *)
Fixpoint ddigits (fuel : nat) (n : Z) (acc : list Z) : list Z :=
  match fuel with
  | O => acc
  | S f => if n <? 10 then (48 + n) :: acc else ddigits f (n / 10) ((48 + n mod 10) :: acc)
  end.
Definition dec_digits (n : Z) : list Z := ddigits (S (Z.to_nat (Z.log2 n))) n [].

Definition blanks (k : nat) : list Z := repeat 32 k.
Definition zeros (k : nat) : list Z := repeat 48 k.
Definition pad_left (w : nat) (l : list Z) : list Z := blanks (w - length l) ++ l.
Definition pad_right (w : nat) (l : list Z) : list Z := l ++ blanks (w - length l).

(* Iw field of a non-negative integer *)
Definition print_int (w : Z) (x : Z) : list Z := pad_left (Z.to_nat w) (dec_digits x).

(* descriptors *)
Record ifmt : Type := mkifmt { i_per : Z; i_w : Z; i_lower : bool; i_blanks : nat }.
Inductive fkind : Type := FE | FD | FF.
Record ffmt : Type := mkffmt {
  f_scale : option Z;   (* kP prefix; Some s with E/D: s digits before the decimal point *)
  f_per : Z; f_kind : fkind; f_w : Z; f_d : Z; f_lower : bool }.

Definition ifmt_text (f : ifmt) : list Z :=
  [40] ++ blanks (i_blanks f) ++ dec_digits (i_per f) ++ [if i_lower f then 105 else 73]
       ++ dec_digits (i_w f) ++ [41].

Definition kind_letter (k : fkind) (lower : bool) : Z :=
  match k with FE => 69 | FD => 68 | FF => 70 end + (if lower then 32 else 0).

Definition ffmt_text (f : ffmt) : list Z :=
  [40] ++ match f_scale f with Some s => dec_digits s ++ [if f_lower f then 112 else 80] | None => [] end
       ++ dec_digits (f_per f) ++ [kind_letter (f_kind f) (f_lower f)]
       ++ dec_digits (f_w f) ++ [46] ++ dec_digits (f_d f) ++ [41].

(* text of a decimal real in a given format, before padding to the field width.
   E/D: d (no scale) or d+1 (scale s >= 1) significant digits, the mantissa digits of the
   value followed by zeros; exponent letter E or D; exponent sign and at least two digits.
   F: d digits after the point, no exponent (the value must be a multiple of 10^-d). *)
Definition exp_text (letter : Z) (x : Z) : list Z :=
  let ds := dec_digits (Z.abs x) in
  [letter; (if x <? 0 then 45 else 43)] ++ zeros (2 - length ds) ++ ds.

Definition print_dec_text (f : ffmt) (v : dec) : list Z :=
  let '(neg, mant, ex) := v in
  let sgn := if neg then [45] else [] in
  match f_kind f with
  | FF =>
      let d := Z.to_nat (f_d f) in
      let n := mant * 10 ^ (ex + f_d f) in
      let ip := n / 10 ^ f_d f in
      let fp := n mod 10 ^ f_d f in
      let fds := dec_digits fp in
      sgn ++ dec_digits ip ++ [46] ++ (if (f_d f =? 0) then [] else zeros (d - length fds) ++ fds)
  | _ =>
      let ds := dec_digits mant in
      let k := Z.of_nat (length ds) in
      let s := match f_scale f with Some s => s | None => 0 end in
      let total := if s =? 0 then f_d f else f_d f + 1 in
      let D := ds ++ zeros (Z.to_nat total - length ds) in
      let ip := if s =? 0 then [48] else firstn (Z.to_nat s) D in
      let fp := if s =? 0 then D else skipn (Z.to_nat s) D in
      let x := if mant =? 0 then 0 else ex + k - s in
      sgn ++ ip ++ [46] ++ fp ++ exp_text (kind_letter (f_kind f) false) x
  end.

Definition print_dec (f : ffmt) (v : dec) : list Z := pad_left (Z.to_nat (f_w f)) (print_dec_text f v).

(* lines of [per] fields *)
Fixpoint chunk {A : Type} (fuel : nat) (per : nat) (xs : list A) : list (list A) :=
  match fuel with
  | O => []
  | S f => match xs with [] => [] | _ => firstn per xs :: chunk f per (skipn per xs) end
  end.

Definition print_vec {A : Type} (pf : A -> list Z) (per : Z) (xs : list A) : list Z :=
  concat (map (fun c => concat (map pf c) ++ [10]) (chunk (length xs) (Z.to_nat per) xs)).

Definition nlines {A : Type} (per : Z) (xs : list A) : Z :=
  Z.of_nat (length (chunk (length xs) (Z.to_nat per) xs)).

(* the matrix: 0-based column pointers and row indices, decimal values
   (length m_vals = nnz, or 2*nnz interleaved for complex) *)
Record csc : Type := mkcsc {
  m_nrow : Z; m_ncol : Z; m_colptr : list Z; m_rowind : list Z; m_vals : list dec }.

Definition m_nnz (M : csc) : Z := Z.of_nat (length (m_rowind M)).
Definition succs (l : list Z) : list Z := map (fun x => x + 1) l.

(* Harwell-Boeing *)
Record hb_opts : Type := mkhb {
  h_title : list Z;    (* 72 bytes *)
  h_key : list Z;      (* 8 bytes *)
  h_type : list Z;     (* 3 bytes, e.g. RUA / CUA *)
  h_ptr : ifmt; h_ind : ifmt; h_val : ffmt;
  h_rhsfmt : list Z;   (* 20 bytes *)
  h_rhscrd : Z;        (* number of right-hand-side lines announced *)
  h_rhsline : list Z   (* line 5 (without the newline), printed when h_rhscrd <> 0 *)
}.

Definition print_body (ptr ind : ifmt) (val : ffmt) (M : csc) : list Z :=
  print_vec (print_int (i_w ptr)) (i_per ptr) (succs (m_colptr M))
  ++ print_vec (print_int (i_w ind)) (i_per ind) (succs (m_rowind M))
  ++ print_vec (print_dec val) (f_per val) (m_vals M).

Definition print_hb (h : hb_opts) (M : csc) : list Z :=
  let ptrcrd := nlines (i_per (h_ptr h)) (m_colptr M) in
  let indcrd := nlines (i_per (h_ind h)) (m_rowind M) in
  let valcrd := nlines (f_per (h_val h)) (m_vals M) in
  h_title h ++ h_key h ++ [10]
  ++ print_int 14 (ptrcrd + indcrd + valcrd + h_rhscrd h) ++ print_int 14 ptrcrd ++ print_int 14 indcrd
  ++ print_int 14 valcrd ++ print_int 14 (h_rhscrd h) ++ [10]
  ++ h_type h ++ blanks 11 ++ print_int 14 (m_nrow M) ++ print_int 14 (m_ncol M)
  ++ print_int 14 (m_nnz M) ++ print_int 14 0 ++ [10]
  ++ pad_right 16 (ifmt_text (h_ptr h)) ++ pad_right 16 (ifmt_text (h_ind h))
  ++ pad_right 20 (ffmt_text (h_val h)) ++ h_rhsfmt h ++ [10]
  ++ (if h_rhscrd h =? 0 then [] else h_rhsline h ++ [10])
  ++ print_body (h_ptr h) (h_ind h) (h_val h) M.

(* Rutherford-Boeing *)
Record rb_opts : Type := mkrb {
  b_title : list Z;    (* line 1 without newline, at most 98 bytes, no newline inside *)
  b_type : list Z;     (* 3 bytes *)
  b_ptr : ifmt; b_ind : ifmt; b_val : ffmt
}.

Definition print_rb (h : rb_opts) (M : csc) : list Z :=
  let ptrcrd := nlines (i_per (b_ptr h)) (m_colptr M) in
  let indcrd := nlines (i_per (b_ind h)) (m_rowind M) in
  let valcrd := nlines (f_per (b_val h)) (m_vals M) in
  b_title h ++ [10]
  ++ print_int 14 (ptrcrd + indcrd + valcrd) ++ print_int 14 ptrcrd ++ print_int 14 indcrd
  ++ print_int 14 valcrd ++ [10]
  ++ b_type h ++ blanks 11 ++ print_int 14 (m_nrow M) ++ print_int 14 (m_ncol M)
  ++ print_int 14 (m_nnz M) ++ print_int 14 0 ++ [10]
  ++ pad_right 16 (ifmt_text (b_ptr h)) ++ pad_right 16 (ifmt_text (b_ind h))
  ++ pad_right 20 (ffmt_text (b_val h)) ++ [10]
  ++ print_body (b_ptr h) (b_ind h) (b_val h) M.

(* ?readmt column list; values in "E" notation with a free number of digits:
   [-]mant E [+-]ex *)
Definition print_mt_val (v : dec) : list Z :=
  let '(neg, mant, ex) := v in
  (if neg then [45] else []) ++ dec_digits mant ++ exp_text 69 ex.

Definition take_vals (cplx : bool) (vs : list dec) : list Z * list dec :=
  match vs with
  | re :: r =>
      if cplx then
        match r with
        | im :: r2 => (print_mt_val re ++ [32] ++ print_mt_val im, r2)
        | [] => (print_mt_val re, [])
        end
      else (print_mt_val re, r)
  | [] => ([], [])
  end.

(* items k .. of one column: "row value\n" *)
Fixpoint print_mt_items (cplx : bool) (rows : list Z) (vs : list dec) : list Z :=
  match rows with
  | [] => []
  | r :: rows' =>
      let '(vt, vs') := take_vals cplx vs in
      dec_digits (r + 1) ++ [32] ++ vt ++ [10] ++ print_mt_items cplx rows' vs'
  end.

(* columns given by consecutive column pointers cp = [p0; p1; ...] *)
Fixpoint print_mt_cols (cplx : bool) (cp : list Z) (rows : list Z) (vs : list dec) : list Z :=
  match cp with
  | p0 :: ((p1 :: _) as cp') =>
      let k := Z.to_nat (p1 - p0) in
      let kv := if cplx then (2 * k)%nat else k in
      dec_digits (p1 - p0) ++ [10] ++ print_mt_items cplx (firstn k rows) (firstn kv vs)
      ++ print_mt_cols cplx cp' (skipn k rows) (skipn kv vs)
  | _ => []
  end.

Definition print_mt (cplx : bool) (title : list Z) (M : csc) : list Z :=
  title ++ [10]
  ++ dec_digits (m_nrow M) ++ [32] ++ dec_digits (m_ncol M) ++ [32] ++ dec_digits (m_nnz M) ++ [10]
  ++ print_mt_cols cplx (m_colptr M) (m_rowind M) (m_vals M).

(* ------------------------------------------------------------------ admissibility (decidable) *)
Definition ifmt_ok (f : ifmt) : bool :=
  (1 <=? i_per f) && (1 <=? i_w f) && (i_per f * i_w f <=? 80)
  && (Z.of_nat (length (ifmt_text f)) <=? 16).

Definition ffmt_ok (f : ffmt) : bool :=
  (1 <=? f_per f) && (1 <=? f_w f) && (0 <=? f_d f) && (f_per f * f_w f <=? 80)
  && (Z.of_nat (length (ffmt_text f)) <=? 20)
  && match f_scale f with
     | None => true
     | Some s => (s <=? INT_MAX) && match f_kind f with FF => 0 <=? s | _ => (1 <=? s) && (s <=? f_d f + 1) end
     end.

(* the integer x (>= 0) can be written in an Iw field *)
Definition int_fits (w : Z) (x : Z) : bool :=
  (0 <=? x) && (x <=? INT_MAX) && (Z.of_nat (length (dec_digits x)) <=? w).

(* the decimal v can be written exactly in the format f *)
Definition dec_fits (f : ffmt) (v : dec) : bool :=
  let '(neg, mant, ex) := v in
  (0 <=? mant)
  && match f_kind f with
     | FF => 0 <=? ex + f_d f
     | _ => let s := match f_scale f with Some s => s | None => 0 end in
            Z.of_nat (length (dec_digits mant)) <=? (if s =? 0 then f_d f else f_d f + 1)
     end
  && (Z.of_nat (length (print_dec_text f v)) <=? f_w f).
