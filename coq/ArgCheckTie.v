(* ArgCheckTie.v (property C15): the argument tests RE-TRANSLATED from the current C source (ArgCheckGen.v, generated on every run
   by tools/gen_trans.py) compute exactly what the hand-written model ArgCheckModel.v computes, for every argument value.
   Hence every theorem of Properties_C15.v about the model is a theorem about what the source says now. *)
Require Import ZArith List Bool Lia.
From SLU Require Import Consts ArgCheckModel ArgCheckGen.
Local Open Scope Z_scope.

(* Both sides are if-chains over the same atoms.  [tie] first asks for plain convertibility (the generated term and the model
   differ by let-bindings, neqb, c_max, dtype_of only).  When the source was rewritten in a harmless way (operands of || / &&
   reordered, a test duplicated, De Morgan) convertibility fails and the chain is walked: the outermost test of the LEFT side is
   split into its atoms one || / && operand at a time, every atom equation is rewritten on both sides, and the branch is closed
   as soon as both sides are values.  The walk is linear in the length of the chain for chains that agree; it fails (and the
   obligation is reported broken) when the decision differs. *)
Ltac atom_split c :=
  lazymatch c with
  | (?a || ?b)%bool => atom_split a; try atom_split b
  | (?a && ?b)%bool => atom_split a; try atom_split b
  | negb ?a => atom_split a
  | _ => let H := fresh "Hatom" in destruct c eqn:H; try rewrite ?H in *
  end.

Ltac walk :=
  repeat (cbn beta iota zeta;
          lazymatch goal with
          | |- (if ?c then _ else _) = _ => atom_split c
          | |- - (if ?c then _ else _) = _ => atom_split c
          | |- _ = (if ?c then _ else _) => atom_split c
          | |- _ => fail
          end; cbn [negb andb orb Z.opp]);
  try reflexivity; try lia.

Ltac tie := intros; cbv beta delta [neqb c_max dtype_of ch_1 ch_C ch_I ch_L ch_N ch_O ch_T ch_U] iota zeta;
            first [ reflexivity | walk ].

(* ---- s precision ---- *)
Lemma tie_psgssv : forall a, gen_psgssv_check (gv_nprocs a) (gv_A a) (gv_B a) = gssv_check PS a.
Proof. unfold gen_psgssv_check, gssv_check. tie. Qed.
Lemma tie_sgstrs : forall a, gen_sgstrs_check (gt_trans a) (gt_L a) (gt_U a) (gt_B a) = gstrs_check PS a.
Proof. unfold gen_sgstrs_check, gstrs_check. tie. Qed.
Lemma tie_sgsrfs : forall a, gen_sgsrfs_check (gr_trans a) (gr_A a) (gr_L a) (gr_U a) (gr_B a) (gr_X a) = gsrfs_check PS a.
Proof. unfold gen_sgsrfs_check, gsrfs_check. tie. Qed.
Lemma tie_sgscon : forall a, gen_sgscon_check (gc_norm a) (gc_L a) (gc_U a) = gscon_check PS a.
Proof. unfold gen_sgscon_check, gscon_check. tie. Qed.
Lemma tie_sgsequ : forall A, gen_sgsequ_check A = gsequ_check PS A.
Proof. unfold gen_sgsequ_check, gsequ_check. tie. Qed.
Lemma tie_sp_strsv : forall a, gen_sp_strsv_check (tv_uplo a) (tv_trans a) (tv_diag a) (tv_L a) (tv_U a) = trsv_check PS a.
Proof. unfold gen_sp_strsv_check, trsv_check. tie. Qed.
(* sp_?gemv keeps the POSITIVE position in a local; the model reports it negated *)
Lemma tie_sp_sgemv : forall a, - gen_sp_sgemv_check (gm_trans a) (gm_A a) (gm_incx a) (gm_incy a) = gemv_check PS a.
Proof. unfold gen_sp_sgemv_check, gemv_check. tie. Qed.

(* ---- d precision ---- *)
Lemma tie_pdgssv : forall a, gen_pdgssv_check (gv_nprocs a) (gv_A a) (gv_B a) = gssv_check PD a.
Proof. unfold gen_pdgssv_check, gssv_check. tie. Qed.
Lemma tie_dgstrs : forall a, gen_dgstrs_check (gt_trans a) (gt_L a) (gt_U a) (gt_B a) = gstrs_check PD a.
Proof. unfold gen_dgstrs_check, gstrs_check. tie. Qed.
Lemma tie_dgsrfs : forall a, gen_dgsrfs_check (gr_trans a) (gr_A a) (gr_L a) (gr_U a) (gr_B a) (gr_X a) = gsrfs_check PD a.
Proof. unfold gen_dgsrfs_check, gsrfs_check. tie. Qed.
Lemma tie_dgscon : forall a, gen_dgscon_check (gc_norm a) (gc_L a) (gc_U a) = gscon_check PD a.
Proof. unfold gen_dgscon_check, gscon_check. tie. Qed.
Lemma tie_dgsequ : forall A, gen_dgsequ_check A = gsequ_check PD A.
Proof. unfold gen_dgsequ_check, gsequ_check. tie. Qed.
Lemma tie_sp_dtrsv : forall a, gen_sp_dtrsv_check (tv_uplo a) (tv_trans a) (tv_diag a) (tv_L a) (tv_U a) = trsv_check PD a.
Proof. unfold gen_sp_dtrsv_check, trsv_check. tie. Qed.
(* sp_?gemv keeps the POSITIVE position in a local; the model reports it negated *)
Lemma tie_sp_dgemv : forall a, - gen_sp_dgemv_check (gm_trans a) (gm_A a) (gm_incx a) (gm_incy a) = gemv_check PD a.
Proof. unfold gen_sp_dgemv_check, gemv_check. tie. Qed.

(* ---- c precision ---- *)
Lemma tie_pcgssv : forall a, gen_pcgssv_check (gv_nprocs a) (gv_A a) (gv_B a) = gssv_check PC a.
Proof. unfold gen_pcgssv_check, gssv_check. tie. Qed.
Lemma tie_cgstrs : forall a, gen_cgstrs_check (gt_trans a) (gt_L a) (gt_U a) (gt_B a) = gstrs_check PC a.
Proof. unfold gen_cgstrs_check, gstrs_check. tie. Qed.
Lemma tie_cgsrfs : forall a, gen_cgsrfs_check (gr_trans a) (gr_A a) (gr_L a) (gr_U a) (gr_B a) (gr_X a) = gsrfs_check PC a.
Proof. unfold gen_cgsrfs_check, gsrfs_check. tie. Qed.
Lemma tie_cgscon : forall a, gen_cgscon_check (gc_norm a) (gc_L a) (gc_U a) = gscon_check PC a.
Proof. unfold gen_cgscon_check, gscon_check. tie. Qed.
Lemma tie_cgsequ : forall A, gen_cgsequ_check A = gsequ_check PC A.
Proof. unfold gen_cgsequ_check, gsequ_check. tie. Qed.
Lemma tie_sp_ctrsv : forall a, gen_sp_ctrsv_check (tv_uplo a) (tv_trans a) (tv_diag a) (tv_L a) (tv_U a) = trsv_check PC a.
Proof. unfold gen_sp_ctrsv_check, trsv_check. tie. Qed.
(* sp_?gemv keeps the POSITIVE position in a local; the model reports it negated *)
Lemma tie_sp_cgemv : forall a, - gen_sp_cgemv_check (gm_trans a) (gm_A a) (gm_incx a) (gm_incy a) = gemv_check PC a.
Proof. unfold gen_sp_cgemv_check, gemv_check. tie. Qed.

(* ---- z precision ---- *)
Lemma tie_pzgssv : forall a, gen_pzgssv_check (gv_nprocs a) (gv_A a) (gv_B a) = gssv_check PZ a.
Proof. unfold gen_pzgssv_check, gssv_check. tie. Qed.
Lemma tie_zgstrs : forall a, gen_zgstrs_check (gt_trans a) (gt_L a) (gt_U a) (gt_B a) = gstrs_check PZ a.
Proof. unfold gen_zgstrs_check, gstrs_check. tie. Qed.
Lemma tie_zgsrfs : forall a, gen_zgsrfs_check (gr_trans a) (gr_A a) (gr_L a) (gr_U a) (gr_B a) (gr_X a) = gsrfs_check PZ a.
Proof. unfold gen_zgsrfs_check, gsrfs_check. tie. Qed.
Lemma tie_zgscon : forall a, gen_zgscon_check (gc_norm a) (gc_L a) (gc_U a) = gscon_check PZ a.
Proof. unfold gen_zgscon_check, gscon_check. tie. Qed.
Lemma tie_zgsequ : forall A, gen_zgsequ_check A = gsequ_check PZ A.
Proof. unfold gen_zgsequ_check, gsequ_check. tie. Qed.
Lemma tie_sp_ztrsv : forall a, gen_sp_ztrsv_check (tv_uplo a) (tv_trans a) (tv_diag a) (tv_L a) (tv_U a) = trsv_check PZ a.
Proof. unfold gen_sp_ztrsv_check, trsv_check. tie. Qed.
(* sp_?gemv keeps the POSITIVE position in a local; the model reports it negated *)
Lemma tie_sp_zgemv : forall a, - gen_sp_zgemv_check (gm_trans a) (gm_A a) (gm_incx a) (gm_incy a) = gemv_check PZ a.
Proof. unfold gen_sp_zgemv_check, gemv_check. tie. Qed.

(* ---- the source, per precision ---- *)
Definition src_gssv_check (p : prec) (a : gssv_args) : Z :=
  match p with PS => gen_psgssv_check | PD => gen_pdgssv_check | PC => gen_pcgssv_check | PZ => gen_pzgssv_check end
    (gv_nprocs a) (gv_A a) (gv_B a).
Definition src_gstrs_check (p : prec) (a : gstrs_args) : Z :=
  match p with PS => gen_sgstrs_check | PD => gen_dgstrs_check | PC => gen_cgstrs_check | PZ => gen_zgstrs_check end
    (gt_trans a) (gt_L a) (gt_U a) (gt_B a).
Definition src_gsrfs_check (p : prec) (a : gsrfs_args) : Z :=
  match p with PS => gen_sgsrfs_check | PD => gen_dgsrfs_check | PC => gen_cgsrfs_check | PZ => gen_zgsrfs_check end
    (gr_trans a) (gr_A a) (gr_L a) (gr_U a) (gr_B a) (gr_X a).
Definition src_gscon_check (p : prec) (a : gscon_args) : Z :=
  match p with PS => gen_sgscon_check | PD => gen_dgscon_check | PC => gen_cgscon_check | PZ => gen_zgscon_check end
    (gc_norm a) (gc_L a) (gc_U a).
Definition src_gsequ_check (p : prec) (A : mat) : Z :=
  match p with PS => gen_sgsequ_check | PD => gen_dgsequ_check | PC => gen_cgsequ_check | PZ => gen_zgsequ_check end A.
Definition src_trsv_check (p : prec) (a : trsv_args) : Z :=
  match p with PS => gen_sp_strsv_check | PD => gen_sp_dtrsv_check | PC => gen_sp_ctrsv_check | PZ => gen_sp_ztrsv_check end
    (tv_uplo a) (tv_trans a) (tv_diag a) (tv_L a) (tv_U a).
Definition src_gemv_check (p : prec) (a : gemv_args) : Z :=
  - match p with PS => gen_sp_sgemv_check | PD => gen_sp_dgemv_check | PC => gen_sp_cgemv_check | PZ => gen_sp_zgemv_check end
      (gm_trans a) (gm_A a) (gm_incx a) (gm_incy a).

Lemma src_gssv_is_model : forall p a, src_gssv_check p a = gssv_check p a.
Proof. intros [] a; unfold src_gssv_check; [apply tie_psgssv | apply tie_pdgssv | apply tie_pcgssv | apply tie_pzgssv]. Qed.
Lemma src_gstrs_is_model : forall p a, src_gstrs_check p a = gstrs_check p a.
Proof. intros [] a; unfold src_gstrs_check; [apply tie_sgstrs | apply tie_dgstrs | apply tie_cgstrs | apply tie_zgstrs]. Qed.
Lemma src_gsrfs_is_model : forall p a, src_gsrfs_check p a = gsrfs_check p a.
Proof. intros [] a; unfold src_gsrfs_check; [apply tie_sgsrfs | apply tie_dgsrfs | apply tie_cgsrfs | apply tie_zgsrfs]. Qed.
Lemma src_gscon_is_model : forall p a, src_gscon_check p a = gscon_check p a.
Proof. intros [] a; unfold src_gscon_check; [apply tie_sgscon | apply tie_dgscon | apply tie_cgscon | apply tie_zgscon]. Qed.
Lemma src_gsequ_is_model : forall p A, src_gsequ_check p A = gsequ_check p A.
Proof. intros [] A; unfold src_gsequ_check; [apply tie_sgsequ | apply tie_dgsequ | apply tie_cgsequ | apply tie_zgsequ]. Qed.
Lemma src_trsv_is_model : forall p a, src_trsv_check p a = trsv_check p a.
Proof. intros [] a; unfold src_trsv_check; [apply tie_sp_strsv | apply tie_sp_dtrsv | apply tie_sp_ctrsv | apply tie_sp_ztrsv]. Qed.
Lemma src_gemv_is_model : forall p a, src_gemv_check p a = gemv_check p a.
Proof. intros [] a; unfold src_gemv_check; [apply tie_sp_sgemv | apply tie_sp_dgemv | apply tie_sp_cgemv | apply tie_sp_zgemv]. Qed.

(* the model theorems restated for the source *)
From SLU Require Import ArgCheckProofs.
Lemma src_gscon_first_offender_proof : forall p a, src_gscon_check p a = spec_info (doc_gscon p) a.
Proof. intros; rewrite src_gscon_is_model; apply gscon_first_offender_proof. Qed.
Lemma src_gsequ_first_offender_proof : forall p A, src_gsequ_check p A = spec_info (doc_gsequ p) A.
Proof. intros; rewrite src_gsequ_is_model; apply gsequ_first_offender_proof. Qed.
