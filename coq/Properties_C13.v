From SLU Require Import Consts LaconModel LaconProofs RefineModel RefineProofs.
Require Import ZArith List QArith Qabs.
Import ListNotations.

(* C13 -- refinement returns truthful backward errors and dominating forward bounds. *)

(* the loop of dgsrfs, any arithmetic and any solver: it stops with at most ITMAX corrections (ITMAX+1 residual
   computations), every iterate but the last passed  berr > eps /\ 2*berr <= previous (3 for the first), and the
   berr that is returned is the formula evaluated on the X that is returned *)
Theorem refine_terminates_monotone :
  forall (T : Type) (A : Arith T) (S : Type) (notran : bool) (cols : list (list (nat * T))) (b : list T)
         (eps safe1 safe2 : T) (solve : S -> list T -> S * list T) (s : S) (x : list T),
  exists ro, refine_loop A refine_fuel notran cols b eps safe1 safe2 solve s x 0%Z (aofZ A 3) [] = Some ro /\
    (0 <= ro_count ro <= c_ITMAX)%Z /\ Z.of_nat (length (ro_berrs ro)) = (ro_count ro + 1)%Z /\
    chain A eps (aofZ A 3) (ro_berrs ro) /\
    ro_berr ro = berr_of A safe1 safe2 (residual A notran cols (ro_x ro) b) (denom A notran cols (ro_x ro) b).
Proof. exact (@refine_terminates_thm). Qed.
Print Assumptions refine_terminates_monotone.
