From SLU Require Import Consts LaconModel LaconProofs RefineModel RefineProofs.
Require Import ZArith List QArith Qabs.
Import ListNotations.

(* C13 -- refinement returns truthful backward errors and dominating forward bounds. *)

(* the loop of dgsrfs, any arithmetic and any solver: it stops with at most ITMAX corrections (ITMAX+1 residual
   computations), every iterate but the last passed  berr > eps /\ 2*berr <= previous (3 for the first), and the
   berr that is returned is the formula evaluated on the X that is returned *)
Theorem refine_terminates_monotone :
  forall (T : Type) (A : Arith T) (S : Type) (notran : bool) (cols : list (list (nat * T))) (b : list T)
         (eps safe1 safe2 : T) (solve : S -> list T -> S * list T) (s : S) (x : list T),
  exists ro, refine_loop A refine_fuel notran cols b eps safe1 safe2 solve s x 0%Z (aofZ A 3) [] = Some ro /\
    (0 <= ro_count ro <= c_ITMAX)%Z /\ Z.of_nat (length (ro_berrs ro)) = (ro_count ro + 1)%Z /\
    chain A eps (aofZ A 3) (ro_berrs ro) /\
    ro_berr ro = berr_of A safe1 safe2 (residual A notran cols (ro_x ro) b) (denom A notran cols (ro_x ro) b).
Proof. exact (@refine_terminates_thm). Qed.
Print Assumptions refine_terminates_monotone.

(* exact arithmetic: the two sparse loop nests (sp_dgemv and the hand loops), in both orientations, compute
   b - op(A) x and |b| + |op(A)||x| row by row *)
Theorem refine_residual_denominators :
  forall (A : Arith Q), ArithQ_ok A ->
  forall (notran : bool) (cols : list (list (nat * Q))) (x b : list Q) (n : nat),
    length b = n -> length cols = n -> length x = n ->
    (forall i, (i < n)%nat ->
       (nth i (residual A notran cols x b) (a0 A) == nth i b (a0 A) - sum_prod (op_terms notran cols x i))%Q) /\
    (forall i, (i < n)%nat ->
       (nth i (denom A notran cols x b) (a0 A) == Qabs (nth i b (a0 A)) + sum_absprod (op_terms notran cols x i))%Q).
Proof. exact refine_residual_denominators_thm. Qed.
Print Assumptions refine_residual_denominators.

(* the berr formula, exactly as coded: the maximum over the rows with a nonzero denominator d_i of
   (|r_i| + (d_i <= safe2 ? safe1 : 0)) / d_i, 0 when there is no such row *)
Theorem berr_formula :
  forall (A : Arith Q), ArithQ_ok A -> forall (safe1 safe2 : Q), (0 <= safe1)%Q -> (0 <= safe2)%Q ->
  forall (work rw : list Q) (n : nat), length work = n -> length rw = n ->
    let s := berr_of A safe1 safe2 work rw in
    (0 <= s)%Q /\
    (forall i, (i < n)%nat -> ~ (nth i rw (a0 A) == 0)%Q ->
               (term_spec safe1 safe2 (nth i work (a0 A)) (nth i rw (a0 A)) <= s)%Q) /\
    ((s == 0)%Q \/ exists i, (i < n)%nat /\ ~ (nth i rw (a0 A) == 0)%Q /\
                             (s == term_spec safe1 safe2 (nth i work (a0 A)) (nth i rw (a0 A)))%Q).
Proof. exact berr_formula_thm. Qed.
Print Assumptions berr_formula.

(* Oettli-Prager, both directions, for op(A) = A or A' on the matrix handed to dgsrfs (the equilibrated one):
   every row i admits |dA_i| <= berr |A_i|, |db_i| <= berr |b_i| with ((A+dA) x)_i = (b+db)_i, and when no row
   falls under the safe2 guard no smaller relative size w admits such perturbations *)
Theorem berr_is_oettli_prager :
  forall (A : Arith Q), ArithQ_ok A -> forall (safe1 safe2 : Q), (0 <= safe1)%Q -> (0 <= safe2)%Q ->
  forall (notran : bool) (cols : list (list (nat * Q))) (x b : list Q) (n : nat),
    length b = n -> length cols = n -> length x = n ->
    let s := berr_of A safe1 safe2 (residual A notran cols x b) (denom A notran cols x b) in
    (0 <= s)%Q /\
    (forall i, (i < n)%nat -> row_feasible s (op_terms notran cols x i) (nth i b (a0 A))) /\
    (forall w, (0 <= w)%Q ->
       (forall i, (i < n)%nat -> row_feasible w (op_terms notran cols x i) (nth i b (a0 A))) ->
       (forall i, (i < n)%nat ->
          let d := (Qabs (nth i b (a0 A)) + sum_absprod (op_terms notran cols x i))%Q in ~ (d == 0)%Q -> (safe2 < d)%Q) ->
       (s <= w)%Q).
Proof. exact berr_is_oettli_prager_thm. Qed.
Print Assumptions berr_is_oettli_prager.

(* with the exact infinity norm in place of the estimator: |x - x*|_i <= (|inv(op A)| W)_i for the weights
   W = |r| + (nz_i+1) eps (|op A||x| + |b|) (+ safe1) that dgsrfs builds, x* the exact solution, Brows an exact
   left inverse *)
Theorem ferr_exact_norm_dominates :
  forall (A : Arith Q), ArithQ_ok A ->
  forall (notran : bool) (cols : list (list (nat * Q))) (n : nat) (Brows : list (list Q)) (x xs b : list Q)
         (eps safe1 safe2 : Q),
    length b = n -> length cols = n -> length x = n -> length xs = n -> (0 <= eps)%Q -> (0 <= safe1)%Q ->
    (forall i, (i < n)%nat -> (sum_prod (op_terms notran cols xs i) == nth i b 0)%Q) ->
    (forall v, length v = n -> forall i, (i < n)%nat -> (dot (nth i Brows []) (opv notran cols n v) == nth i v 0)%Q) ->
    let W := ferr_weights A eps safe1 safe2 (residual A notran cols x b) (denom A notran cols x b)
                          (row_counts notran n cols) in
    forall i, (i < n)%nat -> (Qabs (nth i x 0 - nth i xs 0) <= dot (map Qabs (nth i Brows [])) W)%Q.
Proof. exact ferr_exact_norm_dominates_thm. Qed.
Print Assumptions ferr_exact_norm_dominates.

(* PARTIAL: what is proved about the value dlacon_ returns inside dgsrfs is only that it is an attained ratio
   ||M v||_1/||v||_1 of the operator M = diag(W) inv(op(A))' diag(s), hence <= every bound N of its 1-norm
   (= the exact infinity norm of diag(s) inv(op A) diag(W)): the estimator can only under-estimate, so
   "FERR x slack dominates the true error" is NOT a theorem and is decided by the oracle of checks/c13.py *)
Theorem ferr_estimator_partial :
  forall (A : Arith Q), ArithQ_ok A -> forall (n : nat), (1 <= n)%nat ->
  forall (fN fT : list Q -> list Q),
    (forall v, length v = n -> length (fN v) = n) -> (forall v, length v = n -> length (fT v) = n) ->
  forall (sc : option (list Q)), match sc with Some c => length c = n | None => True end ->
  forall (w : list Q), length w = n ->
  forall (st : lacon_st) (io0 : lacon_io) (N : Q) (fuel : nat) (res : lacon_res unit),
    kase io0 = 0%Z ->
    lacon_drive A fuel n (ferr_op A (fun (s : unit) v => (s, fN v)) (fun (s : unit) v => (s, fT v)) sc w) tt st io0 O
      = Some res ->
    (forall v, length v = n -> (sumabs (ferrM A fT sc w v) <= N * sumabs v)%Q) ->
    (est (r_io res) <= N)%Q /\
    exists v, length v = n /\ (0 < sumabs v)%Q /\ (est (r_io res) * sumabs v == sumabs (ferrM A fT sc w v))%Q.
Proof. exact ferr_estimator_partial_thm. Qed.
Print Assumptions ferr_estimator_partial.
