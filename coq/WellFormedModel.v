(* WellFormedModel.v -- property C09: the factors returned by p?gstrf are well-formed data structures.
   Executable definitions only (proofs in WellFormedProofs.v):
     - records mirroring SCPformat / NCPformat (SRC/supermatrix.h) with every array as a list of Z,
     - the predicate wf_LU spelling out every clause of the property text,
     - the boolean checker check_wf_LU (proved sound and complete),
     - countnz and fixupL (SRC/util.c:150-245) as list transformers, in place, exactly as coded. *)
Require Import List ZArith Bool Lia.
Import ListNotations.
Local Open Scope Z_scope.

(* ------------------------------------------------------------------------------------------------ *)
(* arrays of C ints: reads outside the array give the explicit marker OOB, which no clause accepts  *)
Definition OOB : Z := -1000000007.
Definition zn (l : list Z) (i : Z) : Z := if i <? 0 then OOB else nth (Z.to_nat i) l OOB.
Definition zlen (l : list Z) : Z := Z.of_nat (length l).
Fixpoint updn (v : list Z) (i : nat) (a : Z) : list Z :=
  match v, i with
  | [], _ => []
  | _ :: t, O => a :: t
  | h :: t, S k => h :: updn t k a
  end.
(* a C store v[i] = a; a store outside the array is dropped (the theorems exclude it by hypothesis) *)
Definition zupd (v : list Z) (i : Z) (a : Z) : list Z := if i <? 0 then v else updn v (Z.to_nat i) a.

Definition zrange (lo hi : Z) : list Z := map (fun k => lo + Z.of_nat k) (seq 0 (Z.to_nat (hi - lo))).
Definition slice (l : list Z) (lo hi : Z) : list Z := map (zn l) (zrange lo hi).

(* ------------------------------------------------------------------------------------------------ *)
Record scpZ : Type := mkScpZ {
  L_nnz : Z; L_nsuper : Z;                       (* nsuper = index of the last supernode *)
  L_nzval_len : Z;                               (* number of values the harness saw behind nzval *)
  L_nzval_colbeg : list Z; L_nzval_colend : list Z;
  L_rowind : list Z; L_rowind_colbeg : list Z; L_rowind_colend : list Z;
  L_col_to_sup : list Z; L_sup_to_colbeg : list Z; L_sup_to_colend : list Z }.

Record ncpZ : Type := mkNcpZ {
  U_nnz : Z; U_rowind : list Z; U_colbeg : list Z; U_colend : list Z }.

(* ------------------------------------------------------------------------------------------------ *)
(* the predicate                                                                                    *)
Section WF.
Variables (n : Z) (L : scpZ) (U : ncpZ) (perm_r perm_c : list Z).

Definition ns : Z := L_nsuper L + 1.                          (* number of supernodes *)
Definition fst_col (s : Z) : Z := zn (L_sup_to_colbeg L) s.
Definition end_col (s : Z) : Z := zn (L_sup_to_colend L) s.
Definition width (s : Z) : Z := end_col s - fst_col s.
Definition rbeg (s : Z) : Z := zn (L_rowind_colbeg L) (fst_col s).
Definition rend (s : Z) : Z := zn (L_rowind_colend L) (fst_col s).
Definition nsupr (s : Z) : Z := rend s - rbeg s.
Definition sup_of (j : Z) : Z := zn (L_col_to_sup L) j.

Definition bounded (P : Z -> Prop) (m : Z) : Prop := forall i, 0 <= i < m -> P i.

(* a permutation of 0..n-1 stored in an array of exactly n entries *)
Definition is_perm (p : list Z) : Prop :=
  zlen p = n /\ (bounded (fun i => 0 <= zn p i /\ zn p i < n) n /\ NoDup p).

Definition disjoint (b1 e1 b2 e2 : Z) : Prop := e1 <= b2 \/ (e2 <= b1 \/ (b1 = e1 \/ b2 = e2)).

(* conjunction of a list of clauses *)
Fixpoint andl (l : list Prop) : Prop := match l with [] => True | P :: t => P /\ andl t end.

(* every clause of the property text, one list element each (the checker below mirrors the list) *)
Definition wf_clauses : list Prop := [
  (* sizes *)
  0 < n;
  0 < ns /\ ns <= n;
  n <= zlen (L_col_to_sup L);
  ns <= zlen (L_sup_to_colbeg L) /\ ns <= zlen (L_sup_to_colend L);
  n <= zlen (L_nzval_colbeg L) /\ n <= zlen (L_nzval_colend L);
  n <= zlen (L_rowind_colbeg L) /\ n <= zlen (L_rowind_colend L);
  n <= zlen (U_colbeg U) /\ n <= zlen (U_colend U);
  (* both permutations are bijections on 0..n-1 *)
  is_perm perm_r;
  is_perm perm_c;
  (* supernodes partition the columns into contiguous ranges: every supernode is a non-empty range of columns, every column
     lies in the range of the supernode col_to_sup names, and every column of a supernode's range names that supernode
     (the maps are mutually consistent; hence the ranges are pairwise disjoint and cover 0..n-1, see supernodes_partition).
     NOTE: supernode numbers are handed out in completion order by the threads, not in column order. *)
  bounded (fun s => (0 <= fst_col s /\ fst_col s < end_col s) /\ end_col s <= n) ns;
  bounded (fun j => (0 <= sup_of j /\ sup_of j < ns) /\ (fst_col (sup_of j) <= j /\ j < end_col (sup_of j))) n;
  bounded (fun s => bounded (fun c => sup_of (fst_col s + c) = s) (width s)) ns;
  (* each supernode's row list lies inside rowind and begins with its own columns in order ... *)
  bounded (fun s => 0 <= rbeg s /\ rend s <= zlen (L_rowind L) /\ width s <= nsupr s) ns;
  bounded (fun s => bounded (fun t => zn (L_rowind L) (rbeg s + t) = fst_col s + t) (width s)) ns;
  (* ... followed by distinct larger rows *)
  bounded (fun s => bounded (fun t => end_col s <= zn (L_rowind L) (rbeg s + width s + t)
                                      /\ zn (L_rowind L) (rbeg s + width s + t) < n) (nsupr s - width s)) ns;
  bounded (fun s => NoDup (slice (L_rowind L) (rbeg s + width s) (rend s))) ns;
  (* U holds only in-range, duplicate-free rows strictly above each column's supernode *)
  bounded (fun j => (0 <= zn (U_colbeg U) j /\ zn (U_colbeg U) j <= zn (U_colend U) j) /\ zn (U_colend U) j <= zlen (U_rowind U)) n;
  bounded (fun j => bounded (fun t => 0 <= zn (U_rowind U) (zn (U_colbeg U) j + t)
                                      /\ zn (U_rowind U) (zn (U_colbeg U) j + t) < fst_col (sup_of j))
                            (zn (U_colend U) j - zn (U_colbeg U) j)) n;
  bounded (fun j => NoDup (slice (U_rowind U) (zn (U_colbeg U) j) (zn (U_colend U) j))) n;
  (* begin/end pointers delimit non-overlapping extents inside their arrays *)
  bounded (fun s => bounded (fun t => s = t \/ disjoint (rbeg s) (rend s) (rbeg t) (rend t)) ns) ns;
  bounded (fun j => zn (L_nzval_colbeg L) j = zn (L_nzval_colbeg L) (fst_col (sup_of j)) + (j - fst_col (sup_of j)) * nsupr (sup_of j)
                    /\ zn (L_nzval_colend L) j = zn (L_nzval_colbeg L) j + nsupr (sup_of j)) n;
  bounded (fun s => 0 <= zn (L_nzval_colbeg L) (fst_col s)
                    /\ zn (L_nzval_colbeg L) (fst_col s) + width s * nsupr s <= L_nzval_len L) ns;
  bounded (fun s => bounded (fun t => s = t \/
             disjoint (zn (L_nzval_colbeg L) (fst_col s)) (zn (L_nzval_colbeg L) (fst_col s) + width s * nsupr s)
                      (zn (L_nzval_colbeg L) (fst_col t)) (zn (L_nzval_colbeg L) (fst_col t) + width t * nsupr t)) ns) ns;
  bounded (fun i => bounded (fun j => i = j \/
             disjoint (zn (U_colbeg U) i) (zn (U_colend U) i) (zn (U_colbeg U) j) (zn (U_colend U) j)) n) n;
  (* visiting supernodes in index order respects the triangular dependency order used by the solves: the rows below the
     diagonal block of supernode s belong to supernodes with a larger number, the rows of a column of U to supernodes with a
     smaller number than the column's *)
  bounded (fun s => bounded (fun t => s < sup_of (zn (L_rowind L) (rbeg s + width s + t))) (nsupr s - width s)) ns;
  bounded (fun j => bounded (fun t => sup_of (zn (U_rowind U) (zn (U_colbeg U) j + t)) < sup_of j)
                            (zn (U_colend U) j - zn (U_colbeg U) j)) n;
  (* the nnz fields equal the counted entries (L: lower trapezoid incl. the unit diagonal; U: the columns of U plus
     the upper triangles of the supernodal diagonal blocks, which live in L's value array) *)
  L_nnz L = fold_left (fun a s => a + (width s * nsupr s - width s * (width s - 1) / 2)) (zrange 0 ns) 0;
  U_nnz U = fold_left (fun a j => a + (zn (U_colend U) j - zn (U_colbeg U) j)) (zrange 0 n) 0
            + fold_left (fun a s => a + width s * (width s + 1) / 2) (zrange 0 ns) 0
].
Definition wf_LU : Prop := andl wf_clauses.

(* ------------------------------------------------------------------------------------------------ *)
(* the checker                                                                                      *)
Definition ballZ (m : Z) (p : Z -> bool) : bool := forallb p (zrange 0 m).

Fixpoint nodupb (l : list Z) : bool :=
  match l with
  | [] => true
  | h :: t => negb (existsb (Z.eqb h) t) && nodupb t
  end.

Definition is_permb (p : list Z) : bool :=
  (zlen p =? n) && (ballZ n (fun i => (0 <=? zn p i) && (zn p i <? n)) && nodupb p).

Definition disjointb (b1 e1 b2 e2 : Z) : bool := (e1 <=? b2) || ((e2 <=? b1) || ((b1 =? e1) || (b2 =? e2))).

Definition check_clauses : list bool := [
  0 <? n;
  (0 <? ns) && (ns <=? n);
  n <=? zlen (L_col_to_sup L);
  (ns <=? zlen (L_sup_to_colbeg L)) && (ns <=? zlen (L_sup_to_colend L));
  (n <=? zlen (L_nzval_colbeg L)) && (n <=? zlen (L_nzval_colend L));
  (n <=? zlen (L_rowind_colbeg L)) && (n <=? zlen (L_rowind_colend L));
  (n <=? zlen (U_colbeg U)) && (n <=? zlen (U_colend U));
  is_permb perm_r;
  is_permb perm_c;
  ballZ ns (fun s => ((0 <=? fst_col s) && (fst_col s <? end_col s)) && (end_col s <=? n));
  ballZ n (fun j => ((0 <=? sup_of j) && (sup_of j <? ns)) && ((fst_col (sup_of j) <=? j) && (j <? end_col (sup_of j))));
  ballZ ns (fun s => ballZ (width s) (fun c => sup_of (fst_col s + c) =? s));
  ballZ ns (fun s => (0 <=? rbeg s) && ((rend s <=? zlen (L_rowind L)) && (width s <=? nsupr s)));
  ballZ ns (fun s => ballZ (width s) (fun t => zn (L_rowind L) (rbeg s + t) =? fst_col s + t));
  ballZ ns (fun s => ballZ (nsupr s - width s) (fun t => (end_col s <=? zn (L_rowind L) (rbeg s + width s + t))
                                                          && (zn (L_rowind L) (rbeg s + width s + t) <? n)));
  ballZ ns (fun s => nodupb (slice (L_rowind L) (rbeg s + width s) (rend s)));
  ballZ n (fun j => ((0 <=? zn (U_colbeg U) j) && (zn (U_colbeg U) j <=? zn (U_colend U) j)) && (zn (U_colend U) j <=? zlen (U_rowind U)));
  ballZ n (fun j => ballZ (zn (U_colend U) j - zn (U_colbeg U) j)
                          (fun t => (0 <=? zn (U_rowind U) (zn (U_colbeg U) j + t)) && (zn (U_rowind U) (zn (U_colbeg U) j + t) <? fst_col (sup_of j))));
  ballZ n (fun j => nodupb (slice (U_rowind U) (zn (U_colbeg U) j) (zn (U_colend U) j)));
  ballZ ns (fun s => ballZ ns (fun t => (s =? t) || disjointb (rbeg s) (rend s) (rbeg t) (rend t)));
  ballZ n (fun j => (zn (L_nzval_colbeg L) j =? zn (L_nzval_colbeg L) (fst_col (sup_of j)) + (j - fst_col (sup_of j)) * nsupr (sup_of j))
                    && (zn (L_nzval_colend L) j =? zn (L_nzval_colbeg L) j + nsupr (sup_of j)));
  ballZ ns (fun s => (0 <=? zn (L_nzval_colbeg L) (fst_col s))
                     && (zn (L_nzval_colbeg L) (fst_col s) + width s * nsupr s <=? L_nzval_len L));
  ballZ ns (fun s => ballZ ns (fun t => (s =? t) ||
             disjointb (zn (L_nzval_colbeg L) (fst_col s)) (zn (L_nzval_colbeg L) (fst_col s) + width s * nsupr s)
                       (zn (L_nzval_colbeg L) (fst_col t)) (zn (L_nzval_colbeg L) (fst_col t) + width t * nsupr t)));
  ballZ n (fun i => ballZ n (fun j => (i =? j) ||
             disjointb (zn (U_colbeg U) i) (zn (U_colend U) i) (zn (U_colbeg U) j) (zn (U_colend U) j)));
  ballZ ns (fun s => ballZ (nsupr s - width s) (fun t => s <? sup_of (zn (L_rowind L) (rbeg s + width s + t))));
  ballZ n (fun j => ballZ (zn (U_colend U) j - zn (U_colbeg U) j)
                          (fun t => sup_of (zn (U_rowind U) (zn (U_colbeg U) j + t)) <? sup_of j));
  L_nnz L =? fold_left (fun a s => a + (width s * nsupr s - width s * (width s - 1) / 2)) (zrange 0 ns) 0;
  U_nnz U =? fold_left (fun a j => a + (zn (U_colend U) j - zn (U_colbeg U) j)) (zrange 0 n) 0
             + fold_left (fun a s => a + width s * (width s + 1) / 2) (zrange 0 ns) 0
].
Definition check_wf_LU : bool := forallb (fun b => b) check_clauses.
(* index of the first failing clause (for diagnostics), or the number of clauses when all hold *)
Fixpoint first_false (l : list bool) (k : Z) : Z := match l with [] => k | b :: t => if b then first_false t (k + 1) else k end.
Definition first_failing_clause : Z := first_false check_clauses 0.
End WF.

(* ------------------------------------------------------------------------------------------------ *)
(* countnz and fixupL (SRC/util.c).  The image of GlobalLU_t that they touch.                        *)
Record glu : Type := mkGlu {
  g_xsup : list Z; g_xsup_end : list Z; g_supno : list Z;
  g_lsub : list Z; g_xlsub : list Z; g_xlsub_end : list Z;
  g_nextu : Z }.

(* countnz: returns (nnzL, nnzU).  xprune only feeds a PRNTlevel statistic (nnzL0) and is not modelled.
   for i = 0..nsuper: jlen = xlsub_end[fsupc]-xlsub[fsupc]; for j in fsupc..xsup_end[i]-1: nnzL += jlen; nnzU += j-fsupc+1; jlen-- *)
Definition countnz (n : Z) (G : glu) : Z * Z :=
  let nsuper := zn (g_supno G) n in
  if n <=? 0 then (0, g_nextu G) else
  fold_left (fun acc i =>
     let fsupc := zn (g_xsup G) i in
     let jlen0 := zn (g_xlsub_end G) fsupc - zn (g_xlsub G) fsupc in
     fold_left (fun acc j => let '(nl, nu) := acc in (nl + (jlen0 - (j - fsupc)), nu + (j - fsupc + 1)))
               (zrange fsupc (zn (g_xsup_end G) i)) acc)
    (zrange 0 (nsuper + 1)) (0, g_nextu G).

(* fixupL, one supernode: jstrt = xlsub[fsupc]; xlsub[fsupc] = nextl;
   for j = jstrt .. xlsub_end[fsupc]-1: lsub[nextl] = perm_r[lsub[j]]; nextl++;   xlsub_end[fsupc] = nextl *)
Definition fixupL_sn (perm_r : list Z) (st : list Z * list Z * list Z * Z) (fsupc : Z) : list Z * list Z * list Z * Z :=
  let '(lsub, xlsub, xlsub_end, nextl) := st in
  let jstrt := zn xlsub fsupc in
  let xlsub1 := zupd xlsub fsupc nextl in
  let '(lsub1, nextl1) :=
     fold_left (fun ln j => let '(ls, nl) := ln in (zupd ls nl (zn perm_r (zn ls j)), nl + 1))
               (zrange jstrt (zn xlsub_end fsupc)) (lsub, nextl) in
  (lsub1, xlsub1, zupd xlsub_end fsupc nextl1, nextl1).

(* the insertion sort of fixupL (SRC/util.c, after the F1 repair): order[] = supernodes by increasing xlsub[xsup[.]];
     for i = 1..nsuper: k = order[i]; j = i-1; while (j >= 0 && key(order[j]) > key(k)) { order[j+1] = order[j]; j--; } order[j+1] = k;
   the scan runs from the right end of the sorted prefix: modelled on the reversed prefix *)
Fixpoint ins_rev (key : Z -> Z) (k : Z) (r : list Z) : list Z :=
  match r with
  | [] => [k]
  | h :: t => if key k <? key h then h :: ins_rev key k t else k :: h :: t
  end.
Definition storage_order (key : Z -> Z) (nsuper : Z) : list Z :=
  rev (fold_left (fun r k => ins_rev key k r) (zrange 0 (nsuper + 1)) []).

(* fixupL as it is in the tree: compaction in STORAGE order.  returns (lsub, xlsub, xlsub_end) after the call *)
Definition fixupL (n : Z) (perm_r : list Z) (G : glu) : list Z * list Z * list Z :=
  if n <=? 1 then (g_lsub G, g_xlsub G, g_xlsub_end G) else
  let nsuper := zn (g_supno G) n in
  let order := storage_order (fun k => zn (g_xlsub G) (zn (g_xsup G) k)) nsuper in
  let '(lsub, xlsub, xlsub_end, nextl) :=
     fold_left (fun st i => fixupL_sn perm_r st (zn (g_xsup G) i)) order
               (g_lsub G, g_xlsub G, g_xlsub_end G, 0) in
  (lsub, zupd xlsub n nextl, xlsub_end).

(* the compaction in supernode-NUMBER order (the code before the repair of finding F1); kept for the regression theorem
   fixupL_number_order_refuted *)
Definition fixupL_number_order (n : Z) (perm_r : list Z) (G : glu) : list Z * list Z * list Z :=
  if n <=? 1 then (g_lsub G, g_xlsub G, g_xlsub_end G) else
  let nsuper := zn (g_supno G) n in
  let '(lsub, xlsub, xlsub_end, nextl) :=
     fold_left (fun st i => fixupL_sn perm_r st (zn (g_xsup G) i)) (zrange 0 (nsuper + 1))
               (g_lsub G, g_xlsub G, g_xlsub_end G, 0) in
  (lsub, zupd xlsub n nextl, xlsub_end).
