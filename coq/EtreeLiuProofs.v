(* EtreeLiuProofs.v -- correctness of the union-find implementation of Liu's algorithm in
   sp_coletree / sp_symetree (model), relative to a tree P with the ancestor facts of EtreeTheoryProofs.v:
   if every processed "edge" (f, col), f < col, has col among the P-ancestors of f, and every j with
   P j = col has a processed edge (f, col) with j among the ancestors of f, then the loop returns P.
   Semantic invariants: the union-find sets are the trees of the parent array computed so far,
   root[find x] is the top of the tree of x, computed parent chains are true (P) chains. *)
From Coq Require Import ZArith List Bool Lia Permutation.
From SLU Require Import EtreeModel EtreeArrProofs EtreePermProofs EtreeUFProofs EtreeTheoryProofs.
Import ListNotations.
Local Open Scope Z_scope.

(* representative of x: follow pp until a self loop *)
Inductive uf_reach (pp : list Z) : Z -> Z -> Prop :=
| ufr_root : forall r, aget pp r = Some r -> uf_reach pp r r
| ufr_step : forall x y r, aget pp x = Some y -> y <> x -> uf_reach pp y r -> uf_reach pp x r.

Lemma uf_reach_fun : forall pp x r1 r2, uf_reach pp x r1 -> uf_reach pp x r2 -> r1 = r2.
Proof.
  intros pp x r1 r2 H1. revert r2. induction H1 as [r Hr|x y r Hx Hne H IH]; intros r2 H2.
  - inversion H2 as [|? y' ? Hx' Hne' H']; subst; auto. congruence.
  - inversion H2 as [r' Hr'|? y' ? Hx' Hne' H']; subst; [congruence|].
    assert (y' = y) by congruence. subst. auto.
Qed.

Lemma uf_reach_root : forall pp x r, uf_reach pp x r -> aget pp r = Some r.
Proof. induction 1; auto. Qed.

Lemma uf_reach_total : forall (m : nat) b pp L x, uf_inv b pp L -> 0 <= x < b -> (length L - idx L x <= m)%nat ->
  exists r, uf_reach pp x r /\ 0 <= r < b /\ ~ In r L.
Proof.
  induction m as [|m IH]; intros b pp L x Hinv Hx Hm.
  - destruct Hinv as [_ [_ Hall]]. destruct (Hall x Hx) as [v [Ev [Hv [Hroot Hrk]]]].
    destruct (Z.eq_dec v x) as [->|Hne].
    + exists x. split; [constructor; auto|]. split; auto. apply Hroot. reflexivity.
    + specialize (Hrk Hne). pose proof (idx_le L v). lia.
  - pose proof Hinv as [_ [_ Hall]]. destruct (Hall x Hx) as [v [Ev [Hv [Hroot Hrk]]]].
    destruct (Z.eq_dec v x) as [->|Hne].
    + exists x. split; [constructor; auto|]. split; auto. apply Hroot. reflexivity.
    + specialize (Hrk Hne). destruct (IH b pp L v Hinv Hv) as [r [Hr Hr2]]; [lia|].
      exists r. split; auto. econstructor; eauto.
Qed.

Lemma uf_reach_ex : forall b pp L x, uf_inv b pp L -> 0 <= x < b -> exists r, uf_reach pp x r /\ 0 <= r < b /\ ~ In r L.
Proof. intros. eapply (uf_reach_total (length L)); eauto. lia. Qed.

(* path halving: the invariant is kept ... *)
Lemma halve_inv : forall b pp L i p gp pp1,
  uf_inv b pp L -> 0 <= i < b -> aget pp i = Some p -> aget pp p = Some gp -> gp <> p ->
  aset pp i gp = Some pp1 -> uf_inv b pp1 L.
Proof.
  intros b pp L i p gp pp1 Hinv Hi Ep Egp Eg E1.
  pose proof Hinv as [Hnd [HL Hall]].
  destruct (Hall i Hi) as [v [Ev [Hv [Hri Hrk]]]]. assert (v = p) by congruence. subst v.
  destruct (Hall p Hv) as [w [Ew [Hw [Hrp Hrkp]]]]. assert (w = gp) by congruence. subst w.
  assert (Hpi : p <> i). { intro; subst p. rewrite Ep in Egp. congruence. }
  specialize (Hrk Hpi). specialize (Hrkp Eg).
  assert (Hgi : gp <> i) by (intro; subst gp; lia).
  split; auto. split; auto. intros j Hj.
  rewrite (aget_aset _ _ _ _ j E1). destruct (j =? i) eqn:Eji.
  - apply Z.eqb_eq in Eji. subst j. exists gp. split; auto. split; auto. split.
    + split; [intros; congruence|]. intros Hn. apply Hri in Hn. congruence.
    + intros _. lia.
  - apply Hall; auto.
Qed.

(* ... and so are all representatives *)
Lemma halve_reach : forall b pp L i p gp pp1,
  uf_inv b pp L -> 0 <= i < b -> aget pp i = Some p -> aget pp p = Some gp -> gp <> p ->
  aset pp i gp = Some pp1 -> forall x s, 0 <= x < b -> (uf_reach pp1 x s <-> uf_reach pp x s).
Proof.
  intros b pp L i p gp pp1 Hinv Hi Ep Egp Eg E1.
  assert (Hpi : p <> i). { intro; subst p. rewrite Ep in Egp. congruence. }
  assert (Hfwd : forall x s, uf_reach pp1 x s -> uf_reach pp x s).
  { intros x s H. induction H as [r Hr|x y r Hx Hne H IH].
    - rewrite (aget_aset _ _ _ _ r E1) in Hr. destruct (r =? i) eqn:Eri.
      + apply Z.eqb_eq in Eri. subst r. inversion Hr; subst gp.
        (* pp[i] = p, pp[p] = i with ranks increasing: impossible *)
        destruct Hinv as [_ [_ Hall]]. destruct (Hall i Hi) as [v [Ev [Hv [_ Hrk]]]]. assert (v = p) by congruence. subst v.
        destruct (Hall p Hv) as [w [Ew [_ [_ Hrkp]]]]. assert (w = i) by congruence. subst w.
        specialize (Hrk Hpi). specialize (Hrkp ltac:(auto)). lia.
      + constructor. auto.
    - rewrite (aget_aset _ _ _ _ x E1) in Hx. destruct (x =? i) eqn:Exi.
      + apply Z.eqb_eq in Exi. subst x. inversion Hx; subst y.
        apply (ufr_step pp i p r); auto. apply (ufr_step pp p gp r); auto.
      + econstructor; eauto. }
  intros x s Hx. split; auto. intros H.
  pose proof (halve_inv _ _ _ _ _ _ _ Hinv Hi Ep Egp Eg E1) as Hinv1.
  destruct (uf_reach_ex b pp1 L x Hinv1 Hx) as [s' [Hs' _]].
  pose proof (Hfwd _ _ Hs') as Hs2.
  assert (s' = s) by (eapply uf_reach_fun; eauto). subst. auto.
Qed.

Lemma find_loop_reach : forall fuel b pp L i p gp r pp',
  uf_inv b pp L -> 0 <= i < b -> aget pp i = Some p -> aget pp p = Some gp ->
  find_loop fuel pp i p gp = Some (r, pp') ->
  (forall x s, 0 <= x < b -> (uf_reach pp' x s <-> uf_reach pp x s)) /\ uf_reach pp i r.
Proof.
  induction fuel as [|fuel IH]; intros b pp L i p gp r pp' Hinv Hi Ep Egp H; cbn [find_loop] in H.
  - destruct (gp =? p) eqn:Eg; [|discriminate]. apply Z.eqb_eq in Eg. subst gp. injection H as <- <-.
    split; [tauto|]. destruct (Z.eq_dec p i) as [->|Hne]; [constructor; auto|].
    econstructor; eauto. constructor. auto.
  - destruct (gp =? p) eqn:Eg.
    + apply Z.eqb_eq in Eg. subst gp. injection H as <- <-.
      split; [tauto|]. destruct (Z.eq_dec p i) as [->|Hne]; [constructor; auto|].
      econstructor; eauto. constructor. auto.
    + apply Z.eqb_neq in Eg.
      destruct (aset pp i gp) as [pp1|] eqn:E1; [|discriminate].
      destruct (aget pp1 gp) as [p1|] eqn:Ep1; [|discriminate].
      destruct (aget pp1 p1) as [gp1|] eqn:Egp1; [|discriminate].
      pose proof (halve_inv _ _ _ _ _ _ _ Hinv Hi Ep Egp Eg E1) as Hinv1.
      pose proof (halve_reach _ _ _ _ _ _ _ Hinv Hi Ep Egp Eg E1) as Hreach.
      assert (Hgp : 0 <= gp < b).
      { destruct Hinv as [_ [_ Hall]]. destruct (Hall i Hi) as [v [Ev [Hv _]]]. assert (v = p) by congruence. subst v.
        destruct (Hall p Hv) as [w [Ew [Hw _]]]. congruence. }
      destruct (IH b pp1 L gp p1 gp1 r pp' Hinv1 Hgp Ep1 Egp1 H) as [Heq Hr].
      assert (Hpi : p <> i). { intro; subst p. rewrite Ep in Egp. congruence. }
      split.
      * intros x s Hx. rewrite Heq by auto. apply Hreach; auto.
      * apply Hreach in Hr; auto. apply (ufr_step pp i p r); auto. apply (ufr_step pp p gp r); auto.
Qed.

Lemma uf_find_reach : forall fuel b pp L i r pp',
  uf_inv b pp L -> 0 <= i < b -> uf_find fuel pp i = Some (r, pp') ->
  (forall x s, 0 <= x < b -> (uf_reach pp' x s <-> uf_reach pp x s)) /\ uf_reach pp i r.
Proof.
  intros fuel b pp L i r pp' Hinv Hi H. unfold uf_find in H.
  destruct (aget pp i) as [p|] eqn:Ep; [|discriminate].
  destruct (aget pp p) as [gp|] eqn:Egp; [|discriminate].
  eapply find_loop_reach; eauto.
Qed.

(* ------------------------------------------------------------------------------------------ *)
Section Liu.
  Variables (nc : Z) (P : Z -> Z).
  Hypothesis Hnc : 0 <= nc.
  Hypothesis Pfor : forall j, 0 <= j < nc -> j < P j <= nc.
  Notation anc := (ancP nc P).
  Hypothesis Htop : forall x t c, anc x t -> anc x c -> 0 <= t < nc -> t < c -> c <= P t -> P t = c.

  Lemma anc_le : forall a b, anc a b -> a <= b.
  Proof. induction 1 as [a|a b Ha H IH]; [lia|]. pose proof (Pfor a Ha). lia. Qed.

  (* top of the tree of x in the parent array computed so far (nc marks a root) *)
  Inductive ctop (parent : list Z) : Z -> Z -> Prop :=
  | ctop_here : forall x, aget parent x = Some nc -> ctop parent x x
  | ctop_up : forall x y t, aget parent x = Some y -> y <> nc -> ctop parent y t -> ctop parent x t.

  Lemma ctop_fun : forall parent x t1 t2, ctop parent x t1 -> ctop parent x t2 -> t1 = t2.
  Proof.
    intros parent x t1 t2 H1. revert t2. induction H1 as [x Hx|x y t Hx Hne H IH]; intros t2 H2.
    - inversion H2 as [|? y' ? Hx' Hne' H']; subst; auto. congruence.
    - inversion H2 as [? Hx'|? y' ? Hx' Hne' H']; subst; [congruence|].
      assert (y' = y) by congruence. subst. auto.
  Qed.

  Lemma ctop_root : forall parent x t, ctop parent x t -> aget parent t = Some nc.
  Proof. induction 1; auto. Qed.

  (* A1: computed entries are either the true parent (already processed) or still nc *)
  Definition par_ok (col : Z) (parent : list Z) : Prop :=
    forall j v, 0 <= j <= col -> aget parent j = Some v -> (v = P j /\ P j <= col) \/ (v = nc /\ col <= P j).

  Lemma ctop_anc : forall col parent x t, col < nc -> par_ok col parent -> ctop parent x t -> 0 <= x <= col ->
    anc x t /\ x <= t <= col.
  Proof.
    intros col parent x t Hcol Hok H. induction H as [x Hx|x y t Hx Hne H IH]; intros Hr.
    - split; [constructor|lia].
    - destruct (Hok x y Hr Hx) as [[Ey Hy]|[Ey _]]; [|congruence].
      pose proof (Pfor x ltac:(lia)) as Hp. subst y.
      destruct IH as [Ha Hb]; [lia|]. split; [|lia]. apply ancP_step; auto. lia.
  Qed.

  Lemma ctop_ex : forall (m : nat) col parent x, col < nc -> par_ok col parent ->
    (forall j, 0 <= j <= col -> exists v, aget parent j = Some v) ->
    0 <= x <= col -> (Z.to_nat (col - x) <= m)%nat -> exists t, ctop parent x t.
  Proof.
    induction m as [|m IH]; intros col parent x Hcol Hok Hdef Hx Hm.
    - assert (x = col) by lia. subst x. destruct (Hdef col Hx) as [v Ev].
      destruct (Hok col v Hx Ev) as [[Ey Hy]|[Ey _]].
      + pose proof (Pfor col ltac:(lia)). lia.
      + subst v. exists col. constructor. auto.
    - destruct (Hdef x Hx) as [v Ev]. destruct (Hok x v Hx Ev) as [[Ey Hy]|[Ey _]].
      + pose proof (Pfor x ltac:(lia)) as Hp. subst v.
        destruct (IH col parent (P x)) as [t Ht]; auto; try lia.
        exists t. econstructor; eauto. lia.
      + subst v. exists x. constructor. auto.
  Qed.

  (* a computed chain that reaches col passes through every true ancestor below col *)
  Lemma chain_set : forall col parent f j, col < nc -> par_ok col parent -> ctop parent f col -> 0 <= f <= col ->
    anc f j -> j < col -> aget parent j = Some (P j).
  Proof.
    intros col parent f j Hcol Hok H. remember col as c eqn:Ec in H.
    induction H as [x Hx|x y t Hx Hne H IH]; intros Hr Hanc Hj.
    - subst x. apply anc_le in Hanc. lia.
    - destruct (Hok x y Hr Hx) as [[Ey Hy]|[Ey _]]; [|congruence]. subst y.
      inversion Hanc as [|? ? Hx' Hanc']; subst.
      + auto.
      + pose proof (Pfor x ltac:(lia)). apply IH; auto. lia.
  Qed.

  (* semantic invariant while column col is processed; done = the f < col processed so far *)
  Definition sem_inv (col : Z) (st : list Z * list Z * list Z * Z) (done : list Z) : Prop :=
    let '(parent, pp, root, cset) := st in
    par_ok col parent /\
    (forall x r, 0 <= x <= col -> uf_reach pp x r -> exists t, aget root r = Some t /\ ctop parent x t) /\
    (forall x y r1 r2 t, 0 <= x <= col -> 0 <= y <= col -> uf_reach pp x r1 -> uf_reach pp y r2 ->
                         ctop parent x t -> ctop parent y t -> r1 = r2) /\
    (forall f, In f done -> 0 <= f < col /\ ctop parent f col) /\
    uf_reach pp col cset.

  (* ctop after parent[t] := col, t a top with t < col *)
  Lemma ctop_link_eq : forall parent parent2 t col x,
    col <> nc -> aset parent t col = Some parent2 -> aget parent t = Some nc -> aget parent col = Some nc -> t <> col ->
    ctop parent x t -> ctop parent2 x col.
  Proof.
    intros parent parent2 t col x Hcn E2 Et Ecol Htc H. remember t as t0 eqn:E0 in H.
    induction H as [x Hx|x y u Hx Hne H IH].
    - subst x. apply (ctop_up parent2 t col col); auto.
      + eapply aget_aset_same; eauto.
      + constructor. rewrite (aget_aset_other _ _ _ _ col E2); auto.
    - subst u. assert (x <> t) by (intro; subst; congruence).
      apply (ctop_up parent2 x y col); auto. rewrite (aget_aset_other _ _ _ _ x E2); auto.
  Qed.

  Lemma ctop_link_ne : forall parent parent2 t col x u,
    aset parent t col = Some parent2 -> aget parent t = Some nc -> u <> t ->
    ctop parent x u -> ctop parent2 x u.
  Proof.
    intros parent parent2 t col x u E2 Et Hut H.
    induction H as [x Hx|x y u Hx Hne H IH].
    - constructor. rewrite (aget_aset_other _ _ _ _ x E2); auto.
    - assert (x <> t) by (intro; subst; congruence).
      apply (ctop_up parent2 x y u); auto. rewrite (aget_aset_other _ _ _ _ x E2); auto.
  Qed.

  (* representatives after pp[cset] := rset (both roots, different) *)
  Lemma reach_link : forall pp pp2 cset rset x r0,
    aset pp cset rset = Some pp2 -> aget pp cset = Some cset -> aget pp rset = Some rset -> rset <> cset ->
    uf_reach pp x r0 -> uf_reach pp2 x (if r0 =? cset then rset else r0).
  Proof.
    intros pp pp2 cset rset x r0 E2 Ec Er Hne H.
    induction H as [r Hr|x y r Hx Hxy H IH].
    - destruct (r =? cset) eqn:Erc.
      + apply Z.eqb_eq in Erc. subst r. apply (ufr_step pp2 cset rset rset); auto.
        * eapply aget_aset_same; eauto.
        * constructor. rewrite (aget_aset_other _ _ _ _ rset E2); auto.
      + apply Z.eqb_neq in Erc. constructor. rewrite (aget_aset_other _ _ _ _ r E2); auto.
    - assert (x <> cset) by (intro; subst; congruence).
      apply (ufr_step pp2 x y); auto. rewrite (aget_aset_other _ _ _ _ x E2); auto.
  Qed.

  Definition full_inv (col : Z) (st : list Z * list Z * list Z * Z) (L done : list Z) : Prop :=
    ct_inv nc col st L /\ sem_inv col st done.

  Lemma ct_edge_sem : forall col st L done row,
    0 <= col < nc -> full_inv col st L done -> 0 <= row -> (row < col -> anc row col) ->
    exists st' L', ct_edge (find_fuel nc) col st row = Some st' /\
                   full_inv col st' L' (if row <? col then row :: done else done).
  Proof.
    intros col st L done row Hcol [Hct Hsem] Hrow Hanc.
    destruct (ct_edge_ok nc col st L row Hcol Hct Hrow) as [st' [L' [E Hct']]].
    exists st', L'. split; auto. split; auto.
    destruct st as [[[parent pp] root] cset].
    destruct Hct as [Lp [Lpp [Lr [Huf [Hcs [Hcr [Hrc [Hroot Hpar]]]]]]]].
    destruct Hsem as [A1 [A2 [A3 [A4 A5]]]].
    unfold ct_edge in E. destruct (row >=? col) eqn:Erc.
    - inversion E; subst st'. assert (Hge : col <= row) by (rewrite Z.geb_leb in Erc; apply Z.leb_le in Erc; lia).
      replace (row <? col) with false by (symmetry; apply Z.ltb_ge; lia).
      unfold sem_inv. auto.
    - assert (Hrl : row < col) by (rewrite Z.geb_leb in Erc; apply Z.leb_gt in Erc; lia).
      replace (row <? col) with true by (symmetry; apply Z.ltb_lt; lia).
      specialize (Hanc Hrl).
      destruct (uf_find (find_fuel nc) pp row) as [[rset pp1]|] eqn:Ef; [|discriminate].
      destruct (uf_find_reach (find_fuel nc) (col + 1) pp L row rset pp1 Huf ltac:(lia) Ef) as [Hreq Hrr].
      assert (Hreq' : forall x s, 0 <= x <= col -> (uf_reach pp1 x s <-> uf_reach pp x s)) by (intros; apply Hreq; lia).
      (* facts about the result of find *)
      assert (HlenL : (length L + 1 <= find_fuel nc)%nat).
      { destruct Huf as [Hnd [HL _]].
        assert (Hnd2 : NoDup (cset :: L)) by (constructor; auto).
        assert (Hincl : incl (cset :: L) (zrange 0 (col + 1))).
        { intros x [Hx|Hx]; apply In_zrange; [subst; lia|apply HL; auto]. }
        pose proof (NoDup_incl_length Hnd2 Hincl) as Hle. rewrite zrange_length in Hle. simpl in Hle.
        unfold find_fuel. lia. }
      destruct (uf_find_ok (find_fuel nc) (col + 1) pp L row Huf ltac:(lia) HlenL) as [rset' [pp1' [Ef' [Huf1 [Ll [Hrs Hrsr]]]]]].
      rewrite Ef in Ef'. inversion Ef'; subst rset' pp1'. clear Ef'.
      destruct (A2 row rset ltac:(lia) Hrr) as [t [Et Hct_row]].
      rewrite Et in E.
      destruct (t =? col) eqn:Etc.
      + (* already in the tree of col *)
        apply Z.eqb_eq in Etc. subst t. inversion E; subst st'.
        unfold sem_inv. split; auto. split; [|split; [|split]].
        * intros x r Hx Hr. apply A2; auto. apply Hreq'; auto.
        * intros x y r1 r2 u Hx Hy H1 H2. apply A3; auto; apply Hreq'; auto.
        * intros f [<-|Hf]; [split; [lia|auto]|auto].
        * apply Hreq'; auto. lia.
      + (* link *)
        apply Z.eqb_neq in Etc.
        destruct (aset parent t col) as [parent2|] eqn:E1; [|discriminate].
        destruct (aset pp1 cset rset) as [pp2|] eqn:E2; [|discriminate].
        destruct (aset root rset col) as [root2|] eqn:E3; [|discriminate].
        inversion E; subst st'. clear E.
        destruct (ctop_anc col parent row t ltac:(lia) A1 Hct_row ltac:(lia)) as [Hanc_t Ht_rng].
        pose proof (ctop_root _ _ _ Hct_row) as Ept.
        assert (Htlt : t < col) by lia.
        assert (HPt : P t = col).
        { apply (Htop row); auto; try lia. destruct (A1 t nc ltac:(lia) Ept) as [[Ey Hy]|[_ Hy]]; [|auto].
          pose proof (Pfor t ltac:(lia)). lia. }
        assert (Epcol : aget parent col = Some nc).
        { destruct (A2 col cset ltac:(lia) A5) as [u [Eu Hu]]. assert (u = col) by congruence. subst u.
          destruct (ctop_anc col parent col col ltac:(lia) A1 Hu ltac:(lia)) as [_ _].
          eapply ctop_root; eauto. }
        assert (Hcset_root : aget pp1 cset = Some cset).
        { apply (uf_reach_root pp1 col). apply Hreq'; auto. lia. }
        assert (Hrset_root : aget pp1 rset = Some rset).
        { apply (uf_reach_root pp1 row). apply Hreq'; auto. lia. }
        assert (Hne : rset <> cset) by (intro; subst; congruence).
        (* old representative / top of any x, new ones *)
        assert (Hnew : forall x, 0 <= x <= col -> exists r0 u,
                   uf_reach pp1 x r0 /\ aget root r0 = Some u /\ ctop parent x u /\
                   uf_reach pp2 x (if r0 =? cset then rset else r0) /\
                   ctop parent2 x (if u =? t then col else u)).
        { intros x Hx. destruct (uf_reach_ex (col + 1) pp1 L x Huf1 ltac:(lia)) as [r0 [Hr0 _]].
          destruct (A2 x r0 Hx (proj1 (Hreq' x r0 Hx) Hr0)) as [u [Eu Hu]].
          exists r0, u. split; auto. split; auto. split; auto. split.
          - eapply reach_link; eauto.
          - destruct (u =? t) eqn:Eut.
            + apply Z.eqb_eq in Eut. subst u. eapply ctop_link_eq; eauto; lia.
            + apply Z.eqb_neq in Eut. eapply ctop_link_ne; eauto. }
        unfold sem_inv. split; [|split; [|split; [|split]]].
        * (* A1 *)
          intros j v Hj Ev. rewrite (aget_aset _ _ _ _ j E1) in Ev. destruct (j =? t) eqn:Ejt.
          -- apply Z.eqb_eq in Ejt. subst j. inversion Ev; subst v. left. split; [auto|lia].
          -- auto.
        * (* A2 *)
          intros x r Hx Hr. destruct (Hnew x Hx) as [r0 [u [H0 [Eu [Hu [H2 Hc2]]]]]].
          assert (r = if r0 =? cset then rset else r0) by (exact (uf_reach_fun _ _ _ _ Hr H2)). subst r.
          exists (if u =? t then col else u). split; auto.
          rewrite (aget_aset _ _ _ _ _ E3).
          destruct (r0 =? cset) eqn:E0c.
          -- apply Z.eqb_eq in E0c. subst r0. rewrite Z.eqb_refl.
             assert (u = col) by congruence. subst u.
             replace (col =? t) with false by (symmetry; apply Z.eqb_neq; lia). reflexivity.
          -- destruct (r0 =? rset) eqn:E0r.
             ++ apply Z.eqb_eq in E0r. subst r0. assert (u = t) by congruence. subst u. now rewrite Z.eqb_refl.
             ++ apply Z.eqb_neq in E0r. rewrite Eu. f_equal.
                destruct (u =? t) eqn:Eut; auto. apply Z.eqb_eq in Eut. subst u.
                exfalso. apply E0r. apply (A3 x row r0 rset t); auto; try lia. apply Hreq'; auto.
        * (* A3 *)
          intros x y r1 r2 w Hx Hy H1 H2 Hc1 Hc2.
          destruct (Hnew x Hx) as [r0x [ux [H0x [Eux [Hux [H2x Hc2x]]]]]].
          destruct (Hnew y Hy) as [r0y [uy [H0y [Euy [Huy [H2y Hc2y]]]]]].
          assert (r1 = if r0x =? cset then rset else r0x) by (exact (uf_reach_fun _ _ _ _ H1 H2x)).
          assert (r2 = if r0y =? cset then rset else r0y) by (exact (uf_reach_fun _ _ _ _ H2 H2y)).
          assert (Ew1 : w = if ux =? t then col else ux) by (exact (ctop_fun _ _ _ _ Hc1 Hc2x)).
          assert (Ew2 : w = if uy =? t then col else uy) by (exact (ctop_fun _ _ _ _ Hc2 Hc2y)).
          subst r1 r2.
          (* sets whose top is col or t are exactly cset and rset *)
          assert (Hcol_set : forall z r0 u, 0 <= z <= col -> uf_reach pp1 z r0 -> ctop parent z u -> u = col -> r0 = cset).
          { intros z r0 u Hz Hr0 Hu ->. apply (A3 z col r0 cset col); auto; try lia; try (apply Hreq'; auto; lia).
            constructor. auto. }
          assert (Ht_set : forall z r0 u, 0 <= z <= col -> uf_reach pp1 z r0 -> ctop parent z u -> u = t -> r0 = rset).
          { intros z r0 u Hz Hr0 Hu ->. apply (A3 z row r0 rset t); auto; try lia; apply Hreq'; auto; lia. }
          destruct (ux =? t) eqn:Ext; destruct (uy =? t) eqn:Eyt.
          -- apply Z.eqb_eq in Ext, Eyt.
             rewrite (Ht_set x r0x ux Hx H0x Hux Ext), (Ht_set y r0y uy Hy H0y Huy Eyt). reflexivity.
          -- apply Z.eqb_eq in Ext. rewrite (Ht_set x r0x ux Hx H0x Hux Ext).
             assert (uy = col) by congruence.
             rewrite (Hcol_set y r0y uy Hy H0y Huy H). rewrite Z.eqb_refl.
             replace (rset =? cset) with false by (symmetry; apply Z.eqb_neq; auto). reflexivity.
          -- apply Z.eqb_eq in Eyt. rewrite (Ht_set y r0y uy Hy H0y Huy Eyt).
             assert (ux = col) by congruence.
             rewrite (Hcol_set x r0x ux Hx H0x Hux H). rewrite Z.eqb_refl.
             replace (rset =? cset) with false by (symmetry; apply Z.eqb_neq; auto). reflexivity.
          -- assert (Euxy : ux = uy) by congruence.
             assert (Er0 : r0x = r0y).
             { apply (A3 x y r0x r0y ux Hx Hy).
               - apply Hreq'; auto.
               - apply Hreq'; auto.
               - exact Hux.
               - rewrite Euxy. exact Huy. }
             rewrite Er0. reflexivity.
        * (* A4 *)
          intros f [<-|Hf].
          -- split; [lia|]. eapply ctop_link_eq; eauto; lia.
          -- destruct (A4 f Hf) as [Hf1 Hf2]. split; auto. eapply ctop_link_ne; eauto; lia.
        * (* A5 *)
          pose proof (reach_link pp1 pp2 cset rset col cset E2 Hcset_root Hrset_root Hne) as H.
          rewrite Z.eqb_refl in H. apply H. apply Hreq'; auto. lia.
  Qed.

  (* ---------------------------------------------------------------------------------------- *)
  (* between columns *)
  Definition semc_inv (col : Z) (st : list Z * list Z * list Z) : Prop :=
    let '(parent, pp, root) := st in
    (forall j v, 0 <= j < col -> aget parent j = Some v -> (v = P j /\ P j < col) \/ (v = nc /\ col <= P j)) /\
    (forall x r, 0 <= x < col -> uf_reach pp x r -> exists t, aget root r = Some t /\ ctop parent x t) /\
    (forall x y r1 r2 t, 0 <= x < col -> 0 <= y < col -> uf_reach pp x r1 -> uf_reach pp y r2 ->
                         ctop parent x t -> ctop parent y t -> r1 = r2).

  Lemma reach_below : forall col pp L pp1, uf_inv col pp L -> aset pp col col = Some pp1 ->
    forall x r, 0 <= x < col -> (uf_reach pp1 x r <-> uf_reach pp x r) /\ (uf_reach pp x r -> 0 <= r < col).
  Proof.
    intros col pp L pp1 [_ [_ Hall]] E1.
    assert (H1 : forall x r, uf_reach pp1 x r -> 0 <= x < col -> uf_reach pp x r).
    { intros x r H. induction H as [r Hr|x y r Hx Hne H IH]; intros Hc.
      - constructor. rewrite (aget_aset_other _ _ _ _ r E1) in Hr; auto. lia.
      - rewrite (aget_aset_other _ _ _ _ x E1) in Hx by lia.
        destruct (Hall x Hc) as [v [Ev [Hv _]]]. assert (v = y) by congruence. subst v.
        econstructor; eauto. }
    assert (H2 : forall x r, uf_reach pp x r -> 0 <= x < col -> uf_reach pp1 x r /\ 0 <= r < col).
    { intros x r H. induction H as [r Hr|x y r Hx Hne H IH]; intros Hc.
      - split; auto. constructor. rewrite (aget_aset_other _ _ _ _ r E1); auto. lia.
      - destruct (Hall x Hc) as [v [Ev [Hv _]]]. assert (v = y) by congruence. subst v.
        destruct (IH Hv) as [Ha Hb]. split; auto.
        econstructor; eauto. rewrite (aget_aset_other _ _ _ _ x E1); auto. lia. }
    intros x r Hx. split; [split; [intros; apply H1; auto|intros H; apply (H2 x r H Hx)]|intros H; apply (H2 x r H Hx)].
  Qed.

  Lemma ctop_below : forall col parent parent1,
    (forall j v, 0 <= j < col -> aget parent j = Some v -> (v = P j /\ P j < col) \/ (v = nc /\ col <= P j)) ->
    col < nc -> aset parent col nc = Some parent1 ->
    forall x t, 0 <= x < col -> (ctop parent1 x t <-> ctop parent x t) /\ (ctop parent x t -> 0 <= t < col).
  Proof.
    intros col parent parent1 B1 Hcol E1.
    assert (H1 : forall x t, ctop parent1 x t -> 0 <= x < col -> ctop parent x t).
    { intros x t H. induction H as [x Hx|x y t Hx Hne H IH]; intros Hc.
      - constructor. rewrite (aget_aset_other _ _ _ _ x E1) in Hx; auto. lia.
      - rewrite (aget_aset_other _ _ _ _ x E1) in Hx by lia.
        destruct (B1 x y Hc Hx) as [[Ey Hy]|[Ey _]]; [|congruence].
        pose proof (Pfor x ltac:(lia)). econstructor; eauto. apply IH. lia. }
    assert (H2 : forall x t, ctop parent x t -> 0 <= x < col -> ctop parent1 x t /\ 0 <= t < col).
    { intros x t H. induction H as [x Hx|x y t Hx Hne H IH]; intros Hc.
      - split; auto. constructor. rewrite (aget_aset_other _ _ _ _ x E1); auto. lia.
      - destruct (B1 x y Hc Hx) as [[Ey Hy]|[Ey _]]; [|congruence].
        pose proof (Pfor x ltac:(lia)). destruct IH as [Ha Hb]; [lia|]. split; auto.
        econstructor; eauto. rewrite (aget_aset_other _ _ _ _ x E1); auto. lia. }
    intros x t Hx. split; [split; [intros; apply H1; auto|intros H; apply (H2 x t H Hx)]|intros H; apply (H2 x t H Hx)].
  Qed.

  Lemma make_set_sem : forall col parent pp root L pp1 root1 parent1,
    0 <= col < nc -> uf_inv col pp L -> semc_inv col (parent, pp, root) ->
    aset pp col col = Some pp1 -> aset root col col = Some root1 -> aset parent col nc = Some parent1 ->
    sem_inv col (parent1, pp1, root1, col) [].
  Proof.
    intros col parent pp root L pp1 root1 parent1 Hcol Huf [B1 [B2 B3]] E1 E2 E3.
    pose proof (reach_below col pp L pp1 Huf E1) as Hrb.
    pose proof (ctop_below col parent parent1 B1 ltac:(lia) E3) as Hcb.
    assert (Hcc : uf_reach pp1 col col) by (constructor; eapply aget_aset_same; eauto).
    assert (Htc : ctop parent1 col col) by (constructor; eapply aget_aset_same; eauto).
    unfold sem_inv. split; [|split; [|split; [|split]]].
    - intros j v Hj Ev. rewrite (aget_aset _ _ _ _ j E3) in Ev. destruct (j =? col) eqn:Ejc.
      + apply Z.eqb_eq in Ejc. subst j. inversion Ev; subst v. right. split; auto. pose proof (Pfor col Hcol). lia.
      + apply Z.eqb_neq in Ejc. destruct (B1 j v ltac:(lia) Ev) as [[Ey Hy]|[Ey Hy]]; [left; split; auto; lia|right; auto].
    - intros x r Hx Hr. destruct (Z.eq_dec x col) as [->|Hne].
      + assert (r = col) by (exact (uf_reach_fun _ _ _ _ Hr Hcc)). subst r. exists col. split; auto. eapply aget_aset_same; eauto.
      + destruct (Hrb x r ltac:(lia)) as [Heq Hlt]. apply Heq in Hr. destruct (Hlt Hr) as [Hr0 Hr1].
        destruct (B2 x r ltac:(lia) Hr) as [t [Et Ht]]. exists t. split.
        * rewrite (aget_aset_other _ _ _ _ r E2); auto. lia.
        * apply (Hcb x t); auto. lia.
    - intros x y r1 r2 t Hx Hy H1 H2 Hc1 Hc2.
      destruct (Z.eq_dec x col) as [->|Hnx]; destruct (Z.eq_dec y col) as [->|Hny].
      + exact (uf_reach_fun _ _ _ _ H1 H2).
      + assert (t = col) by (exact (ctop_fun _ _ _ _ Hc1 Htc)). subst t.
        destruct (Hcb y col ltac:(lia)) as [Heq Hlt]. apply Heq in Hc2. apply Hlt in Hc2. lia.
      + assert (t = col) by (exact (ctop_fun _ _ _ _ Hc2 Htc)). subst t.
        destruct (Hcb x col ltac:(lia)) as [Heq Hlt]. apply Heq in Hc1. apply Hlt in Hc1. lia.
      + apply (B3 x y r1 r2 t); try lia.
        * apply (Hrb x r1); auto. lia.
        * apply (Hrb y r2); auto. lia.
        * apply (Hcb x t); auto. lia.
        * apply (Hcb y t); auto. lia.
    - intros f [].
    - auto.
  Qed.

  Lemma end_col_sem : forall col parent pp root cset L done,
    0 <= col < nc -> full_inv col (parent, pp, root, cset) L done ->
    (forall j, 0 <= j < col -> P j = col -> exists f, In f done /\ anc f j) ->
    semc_inv (col + 1) (parent, pp, root).
  Proof.
    intros col parent pp root cset L done Hcol [Hct [A1 [A2 [A3 [A4 A5]]]]] Hcomp.
    unfold semc_inv. split; [|split].
    - intros j v Hj Ev. destruct (A1 j v ltac:(lia) Ev) as [[Ey Hy]|[Ey Hy]]; [left; split; auto; lia|].
      destruct (Z.eq_dec (P j) col) as [Epc|Epc]; [|right; split; auto; lia].
      exfalso. assert (Hjc : j < col) by (pose proof (Pfor j ltac:(lia)); lia).
      destruct (Hcomp j ltac:(lia) Epc) as [f [Hf Hanc]]. destruct (A4 f Hf) as [Hf1 Hf2].
      pose proof (chain_set col parent f j ltac:(lia) A1 Hf2 ltac:(lia) Hanc Hjc) as Hset.
      rewrite Hset in Ev. inversion Ev. lia.
    - intros x r Hx. apply A2. lia.
    - intros x y r1 r2 t Hx Hy. apply A3; lia.
  Qed.

  (* ---------------------------------------------------------------------------------------- *)
  Variables (rowof : Z -> option Z) (acolst acolend : list Z).
  Hypothesis Hcols : forall c, 0 <= c < nc -> exists s e, aget acolst c = Some s /\ aget acolend c = Some e /\
    (forall p, s <= p < e -> exists f, rowof p = Some f /\ 0 <= f /\ (f < c -> anc f c)) /\
    (forall j, 0 <= j < c -> P j = c -> exists p f, s <= p < e /\ rowof p = Some f /\ 0 <= f < c /\ anc f j).

  Lemma zrange_max : forall s e, zrange s e = zrange s (Z.max s e).
  Proof.
    intros s e. destruct (Z_le_dec s e); [now rewrite Z.max_r by lia|].
    rewrite Z.max_l by lia. rewrite !zrange_empty by lia. reflexivity.
  Qed.

  Lemma ct_col_sem : forall st col, 0 <= col < nc -> ctc_inv nc col st -> semc_inv col st ->
    exists st', ct_col (find_fuel nc) nc rowof acolst acolend st col = Some st' /\
                ctc_inv nc (col + 1) st' /\ semc_inv (col + 1) st'.
  Proof.
    intros [[parent pp] root] col Hcol Hinv Hsem.
    destruct (Hcols col Hcol) as [s [e [Es [Ee [Hrows Hcomp]]]]].
    pose proof Hinv as [Lp [Lpp [Lr [[L Huf] [Hroot Hpar]]]]].
    unfold ct_col.
    destruct (aset_total pp col col) as [pp1 E1]; [lia|]. rewrite E1.
    destruct (aset_total root col col) as [root1 E2]; [lia|]. rewrite E2.
    destruct (aset_total parent col nc) as [parent1 E3]; [lia|]. rewrite E3.
    rewrite Es, Ee.
    assert (Hinit : ct_inv nc col (parent1, pp1, root1, col) L).
    { unfold ct_inv. rewrite (aset_len _ _ _ _ E1), (aset_len _ _ _ _ E2), (aset_len _ _ _ _ E3).
      do 3 (split; auto). destruct Huf as [Hnd [HL Hall]].
      assert (HcL : ~ In col L) by (intro Hc; apply HL in Hc; lia).
      split.
      { split; auto. split; [intros x Hx; apply HL in Hx; lia|].
        intros i Hi. rewrite (aget_aset _ _ _ _ i E1). destruct (i =? col) eqn:Eic.
        - apply Z.eqb_eq in Eic. subst i. exists col. split; auto. split; [lia|]. split; [tauto|congruence].
        - apply Z.eqb_neq in Eic. destruct (Hall i) as [v [Ev [Hv Hrest]]]; [lia|]. exists v. split; auto. split; [lia|auto]. }
      split; [lia|]. split; auto. split; [eapply aget_aset_same; eauto|]. split.
      - intros i Hi. rewrite (aget_aset _ _ _ _ i E2). destruct (i =? col); [exists col; split; auto; lia|].
        destruct (Hroot i Hi) as [v [Ev Hv]]. exists v; split; auto.
      - intros j Hj. rewrite (aget_aset _ _ _ _ j E3). destruct (j =? col) eqn:Ejc.
        + apply Z.eqb_eq in Ejc. subst j. exists nc. split; auto. lia.
        + apply Z.eqb_neq in Ejc. apply Hpar. lia. }
    pose proof (make_set_sem col parent pp root L pp1 root1 parent1 Hcol Huf Hsem E1 E2 E3) as Hsem0.
    rewrite zrange_max.
    destruct (ofold_zrange_inv
      (fun st p => match rowof p with Some row => ct_edge (find_fuel nc) col st row | None => None end)
      (fun i st => exists L' done, full_inv col st L' done /\
                   forall p f, s <= p < i -> rowof p = Some f -> f < col -> In f done)
      s (Z.max s e) (parent1, pp1, root1, col)) as [[[[parent2 pp2] root2] cset2] [Ef [L2 [done [Hfull Hdone]]]]].
    - lia.
    - exists L, []. split; [split; auto|]. intros; lia.
    - intros i st0 Hi [L0 [done0 [Hf0 Hd0]]].
      assert (Hie : s <= i < e) by lia.
      destruct (Hrows i Hie) as [f [Er [Hf Hanc]]]. rewrite Er.
      destruct (ct_edge_sem col st0 L0 done0 f Hcol Hf0 Hf Hanc) as [st' [L' [E' Hf']]].
      exists st'. split; auto. exists L', (if f <? col then f :: done0 else done0). split; auto.
      intros p f' Hp Ep Hlt. destruct (Z.eq_dec p i) as [->|Hne].
      + assert (f' = f) by congruence. subst f'.
        replace (f <? col) with true by (symmetry; apply Z.ltb_lt; auto). simpl; auto.
      + assert (In f' done0) by (apply (Hd0 p); auto; lia). destruct (f <? col); simpl; auto.
    - rewrite Ef. eexists. split; [reflexivity|].
      pose proof Hfull as [[Q1 [Q2 [Q3 [Q4 [Q5 [Q6 [Q7 [Q8 Q9]]]]]]]] _].
      split.
      + unfold ctc_inv. do 3 (split; auto). split; [eauto|]. split.
        * intros i Hi. destruct (Q8 i Hi) as [v [Ev Hv]]. exists v; split; auto. lia.
        * intros j Hj. apply Q9. lia.
      + apply (end_col_sem col parent2 pp2 root2 cset2 L2 done Hcol Hfull).
        intros j Hj Epj. destruct (Hcomp j Hj Epj) as [p [f [Hp [Ep [Hf Hanc]]]]].
        exists f. split; auto. apply (Hdone p); auto; lia.
  Qed.

  Theorem liu_correct :
    exists parent pp root,
      ofold (ct_col (find_fuel nc) nc rowof acolst acolend) (zrange 0 nc) (mk nc c_uninit, mk nc 0, mk nc 0)
        = Some (parent, pp, root) /\ alen parent = nc /\ forall j, 0 <= j < nc -> aget parent j = Some (P j).
  Proof.
    destruct (ofold_zrange_inv (ct_col (find_fuel nc) nc rowof acolst acolend)
                (fun c st => ctc_inv nc c st /\ semc_inv c st) 0 nc
                (mk nc c_uninit, mk nc 0, mk nc 0)) as [[[parent pp] root] [E [Hc Hs]]]; auto.
    - split.
      + unfold ctc_inv. rewrite !alen_mk. do 3 (split; [lia|]). split.
        * exists []. split; [constructor|]. split; [intros x []|intros; lia].
        * split; [|intros; lia]. intros i Hi. exists 0. split; [apply aget_mk; auto|lia].
      + unfold semc_inv. split; [intros; lia|]. split; intros; lia.
    - intros i st Hi [Hc Hs]. destruct (ct_col_sem st i Hi Hc Hs) as [st' [E' [Hc' Hs']]]. exists st'. auto.
    - exists parent, pp, root. split; auto.
      destruct Hc as [Lp [_ [_ [_ [_ Hpar]]]]]. destruct Hs as [B1 _]. split; auto.
      intros j Hj. destruct (Hpar j Hj) as [v [Ev Hv]]. rewrite Ev. f_equal.
      destruct (B1 j v Hj Ev) as [[Ey _]|[Ey Hy]]; auto. pose proof (Pfor j Hj). lia.
  Qed.
End Liu.
