(* extraction of the well-formedness checker and of the fixupL / countnz models -- check C09 *)
Require Import Extraction ExtrOcamlBasic.
From SLU Require Import WellFormedModel.
Extraction "wellformed_model.ml" check_wf_LU first_failing_clause fixupL countnz mkScpZ mkNcpZ mkGlu.
