(* Properties_C04.v -- property theorems for C04 (termination / each panel exactly once / queue bounds).
   Only statements, each closed by `exact` of a lemma of SchedProofs.v, and Print Assumptions. *)
From Coq Require Import ZArith List.
From SLU Require Import Consts SchedModel SchedInv SchedProofs.
Local Open Scope Z_scope.

(* the task queue never outgrows its n slots; head/tail/count stay consistent -- every reachable state,
   every postordered forest accepted by check_init, every number of threads, every interleaving *)
Theorem c04_queue_bounds : forall s0 P g, reachable s0 P g ->
  0 <= qhead (gs g) <= qtail (gs g) /\ qtail (gs g) <= sn (gs g) /\ qcount (gs g) = qtail (gs g) - qhead (gs g).
Proof. exact queue_bounds. Qed.
Print Assumptions c04_queue_bounds.

(* tasks_remain is exactly the number of panels not yet taken; it is 0 iff all panels are taken *)
Theorem c04_tasks_remain_exact : forall s0 P g, reachable s0 P g ->
  tasks (gs g) = tasks_spec (gs g) /\
  (tasks (gs g) = 0 <-> forall p, lead (gs g) p = true -> st (gs g) p <= c_BUSY).
Proof. exact tasks_remain_exact. Qed.
Print Assumptions c04_tasks_remain_exact.

(* no panel is handed out twice along any run *)
Theorem c04_each_panel_at_most_once : forall s0 P ls, check_init s0 = true -> NoDup (gtaken (ginit s0 P) ls).
Proof. exact each_panel_at_most_once. Qed.
Print Assumptions c04_each_panel_at_most_once.

(* in a complete run (all threads have left the loop) every panel was handed out exactly once *)
Theorem c04_complete_run_each_panel_exactly_once : forall s0 P ls g,
  check_init s0 = true -> grun (ginit s0 P) ls = Some g -> (0 < P)%nat ->
  (forall t, 0 <= t < tlen (thr g) -> fst (thr_get (thr g) t) = M_EXIT) ->
  NoDup (gtaken (ginit s0 P) ls) /\ forall p, lead s0 p = true <-> In p (gtaken (ginit s0 P) ls).
Proof. exact complete_run_each_panel_exactly_once. Qed.
Print Assumptions c04_complete_run_each_panel_exactly_once.

(* the protocol has no stuck state: while some thread has not left the loop, some step is enabled
   (a working thread whose children are all DONE can finish; the scheduler never blocks) *)
Theorem c04_no_stuck_state : forall s0 P g, reachable s0 P g ->
  (exists t, 0 <= t < tlen (thr g) /\ fst (thr_get (thr g) t) <> M_EXIT) -> exists l, gstep g l <> None.
Proof. intros s0 P g R. exact (no_stuck_state g (reachable_inv s0 P g R)). Qed.
Print Assumptions c04_no_stuck_state.

(* among the working threads one can always finish: waits only go down the elimination tree *)
Theorem c04_some_worker_can_finish : forall s0 P g, reachable s0 P g ->
  (exists t, 0 <= t < tlen (thr g) /\ fst (thr_get (thr g) t) = M_WORK) ->
  exists t, 0 <= t < tlen (thr g) /\ gstep g (LFinish t) <> None.
Proof. intros s0 P g R. exact (some_worker_can_finish g (reachable_inv s0 P g R)). Qed.
Print Assumptions c04_some_worker_can_finish.

From SLU Require Import SchedWork.

(* the work of ANY run is bounded: at most one hand-out and one completion per panel (DONE is absorbing); every other step is
   an iteration of a worker's polling loop.  With c04_no_stuck_state this is the termination argument up to OS fairness. *)
Theorem c04_work_bounded : forall s0 P ls, check_init s0 = true ->
  Z.of_nat (length (gtaken (ginit s0 P) ls)) <= npanels s0 /\
  Z.of_nat (length (gfinished (ginit s0 P) ls)) <= npanels s0.
Proof. exact work_bounded. Qed.
Print Assumptions c04_work_bounded.

From SLU Require Import SchedFair.

(* FAIR TERMINATION: there is no infinite weakly fair run of the protocol.  irun: an infinite sequence of enabled steps from the
   initial state; wfair: a thread whose (unique) step stays enabled forever eventually moves (what an OS scheduler provides).
   So under every fair schedule all threads leave the loop after finitely many steps: no deadlock, no lost wake-up, no
   livelock of the polling loop. *)
Theorem c04_fair_termination : forall s0 P G sigma,
  check_init s0 = true -> ~ (irun s0 P G sigma /\ wfair G sigma).
Proof. exact fair_termination. Qed.
Print Assumptions c04_fair_termination.

(* the fairness hypothesis cannot be dropped: an unfair infinite run exists (two workers never finish, the third polls forever) *)
Theorem c04_unfair_run_exists : check_init uf_init = true /\ irun uf_init 3 uf_G uf_sigma /\ ~ wfair uf_G uf_sigma.
Proof. exact unfair_run_exists. Qed.
Print Assumptions c04_unfair_run_exists.

(* from every reachable state the protocol can terminate, within 2*Phi steps; the potential Phi never increases *)
Theorem c04_can_always_terminate : forall s0 P g, reachable s0 P g ->
  exists ls g', grun g ls = Some g' /\ all_exited g'.
Proof. exact can_always_terminate. Qed.
Print Assumptions c04_can_always_terminate.

(* a state in which no step is enabled is the final one: every thread has left the loop, no task remains, and every panel
   has been handed out exactly once *)
Theorem c04_maximal_run_complete : forall s0 P ls g,
  check_init s0 = true -> (0 < P)%nat -> grun (ginit s0 P) ls = Some g -> (forall l, gstep g l = None) ->
  all_exited g /\ tasks (gs g) <= 0 /\ NoDup (gtaken (ginit s0 P) ls) /\
  forall p, lead s0 p = true <-> In p (gtaken (ginit s0 P) ls).
Proof. exact maximal_run_complete. Qed.
Print Assumptions c04_maximal_run_complete.

From SLU Require Import SchedBase SchedPipe SchedGen SchedTie.

(* THE SOURCE TIE.  gen_pxgstrf_scheduler (SchedGen.v) is re-translated from SRC/pxgstrf_scheduler.c on every run; gen_sched_state
   (SchedTie.v) feeds it the fields of a model state and packs its result into a model state again.  For every state and finished
   panel that pass the executable index guard sched_guard (proved at every scheduler call of every reachable state:
   SchedGuard.sched_guard_reachable) and every fuel >= fuel_of s = n + 2, the translated function does not run out of fuel and
   returns exactly what the model's sched returns: the new shared state field by field, the panel handed out, and *bcol
   (which the routine leaves at its old value b0 when it hands out no panel).  So the theorems above, stated on the model, are
   statements about what the C source says now; an edit of the source that changes a decision or a stored value breaks this proof. *)
Theorem c04_source_scheduler_is_model : forall s cur b0 fuel,
  sched_guard s cur = true -> (fuel_of s <= fuel)%nat ->
  gen_sched_state s cur b0 fuel = Some (let '(s', j, b) := sched s cur in (s', j, if j =? c_EMPTY then b0 else b)).
Proof. exact sched_tie_state. Qed.
Print Assumptions c04_source_scheduler_is_model.

(* the same for every scheduler call of every reachable state of the protocol (no guard hypothesis left) *)
Theorem c04_source_scheduler_is_model_reachable : forall s0 P g t cur b0 fuel,
  reachable s0 P g -> 0 <= t < tlen (thr g) -> thr_get (thr g) t = (M_READY, cur) -> (fuel_of (gs g) <= fuel)%nat ->
  gen_sched_state (gs g) cur b0 fuel =
  Some (let '(s', j, b) := sched (gs g) cur in (s', j, if j =? c_EMPTY then b0 else b)).
Proof. exact sched_tie_reachable. Qed.
Print Assumptions c04_source_scheduler_is_model_reachable.

(* c04_queue_bounds restated for the translated function: the state the translated scheduler leaves, called by a thread of a
   reachable state, is again a reachable state of the protocol, and its task queue is within its n slots *)
Theorem c04_source_queue_bounds : forall s0 P g t cur b0 fuel s' j b,
  reachable s0 P g -> 0 <= t < tlen (thr g) -> thr_get (thr g) t = (M_READY, cur) -> (fuel_of (gs g) <= fuel)%nat ->
  gen_sched_state (gs g) cur b0 fuel = Some (s', j, b) ->
  0 <= qhead s' <= qtail s' /\ qtail s' <= sn s' /\ qcount s' = qtail s' - qhead s'.
Proof. exact source_queue_bounds. Qed.
Print Assumptions c04_source_queue_bounds.

(* c03_pipeline_handout restated for the translated function: whenever the translated scheduler hands panel j with bcol b to a
   thread of a reachable state, b is a descendant-or-self panel of j that is not DONE and whose children are all DONE, and the
   proper descendants of j that are not DONE are exactly the chain of ancestors of b below j *)
Theorem c04_source_pipeline_handout : forall s0 P g t cur b0 fuel s' j b,
  reachable s0 P g -> 0 <= t < tlen (thr g) -> thr_get (thr g) t = (M_READY, cur) -> (fuel_of (gs g) <= fuel)%nat ->
  gen_sched_state (gs g) cur b0 fuel = Some (s', j, b) -> j <> c_EMPTY ->
  anc s' b j /\ st s' b <> c_DONE /\ (forall c, kid s' b c = true -> st s' c = c_DONE) /\
  forall x, anc s' x j -> x <> j -> st s' x <= c_BUSY /\ (st s' x <> c_DONE -> anc s' b x).
Proof. exact source_pipeline_handout. Qed.
Print Assumptions c04_source_pipeline_handout.

From SLU Require Import SchedInitGen SchedInitTie.

(* THE SOURCE TIE OF THE INITIAL STATE.  gen_pxgstrf_relax_snode, gen_queue_init, gen_EnqueueRelaxSnode, gen_ParallelInit
   (SchedInitGen.v) are re-translated on every run from SRC/pxgstrf_relax_snode.c and SRC/pxgstrf_synch.c.  The relaxed
   supernodes: for every n >= 0, every etree in which every column j < n has a parent in (j, n] (etree_ok), every relax, any
   contents of the caller's array and fuel >= n + 2, the translated routine stores in pxgstrf_relax[] exactly the list
   SchedModel.relax_snode (entries 1..m, the sentinel first column n at m + 1, the count m in entry 0: enc_relax). *)
Theorem c04_source_relax_snode_is_model : forall n et relax fc szs fuel,
  0 <= n -> etree_ok n et -> (Z.to_nat n + 2 <= fuel)%nat ->
  gen_pxgstrf_relax_snode n et relax fc szs fuel = Some (enc_relax n (relax_snode n et relax) fc szs).
Proof. exact relax_snode_tie. Qed.
Print Assumptions c04_source_relax_snode_is_model.

(* gen_init (SchedInitTie.v) = the translated pxgstrf_relax_snode followed by the translated ParallelInit on the array it filled
   (the order of p?gstrf_thread_init.c), packed into a model state.  For every n >= 1 (for n = 0 the C routine aborts in
   queue_init: parallel_init_aborts_n0), etree_ok, panel_size >= 1, an array pxgstrf_relax[] of n + 2 entries, any initial
   contents of the task queue fields and fuel >= n + 2 it returns exactly SchedModel.parallel_init: EVERY field of the sstate
   (panel types / states / sizes / ukids, fb_cols, the task queue with the relaxed supernodes, head / tail / count,
   tasks_remain, num_splits, spin locks).  Memory that the C code leaves uninitialised (malloc) is taken to be 0, as in the
   model (argument junk = 0 of gen_ParallelInit). *)
Theorem c04_source_init_is_model : forall n et psz relax fc0 sz0 q0 h0 t0 c0 fuel,
  1 <= n -> etree_ok n et -> 1 <= psz -> lenZ fc0 = n + 2 -> lenZ sz0 = n + 2 -> (Z.to_nat n + 2 <= fuel)%nat ->
  gen_init n et psz relax fc0 sz0 q0 h0 t0 c0 fuel = Some (parallel_init n et psz relax).
Proof. exact init_tie. Qed.
Print Assumptions c04_source_init_is_model.

(* translated init, then a run of P threads in which every scheduler call is a call of the TRANSLATED scheduler (src_run,
   SchedInitTie.v; c04_source_scheduler_is_model_reachable at every call): the run is step by step a run of the model started
   from parallel_init, and every state it reaches is a reachable state of the model -- so c04_queue_bounds, c04_tasks_remain_exact,
   c04_each_panel_at_most_once, c03_pipeline_handout .. hold along it.  check_init: the model's executable admission test. *)
Theorem c04_source_init_then_scheduler_in_model : forall n et psz relax fc0 sz0 q0 h0 t0 c0 fuel s0 P ls,
  1 <= n -> etree_ok n et -> 1 <= psz -> lenZ fc0 = n + 2 -> lenZ sz0 = n + 2 -> (Z.to_nat n + 2 <= fuel)%nat ->
  gen_init n et psz relax fc0 sz0 q0 h0 t0 c0 fuel = Some s0 -> check_init s0 = true ->
  s0 = parallel_init n et psz relax /\
  src_run (ginit s0 P) ls = grun (ginit s0 P) ls /\
  forall g, src_run (ginit s0 P) ls = Some g -> reachable (parallel_init n et psz relax) P g.
Proof. exact source_init_run_in_model. Qed.
Print Assumptions c04_source_init_then_scheduler_in_model.
