(* extraction of the ArgCheck model (property C15): ExtrOcamlBasic only, no Extract Constant *)
Require Import Extraction ExtrOcamlBasic.
From SLU Require Import Consts ArgCheckModel.
Extraction "argcheck_model.ml"
  gssv_run gssvx_run gstrs_run gstrs_final_info gsrfs_run gscon_run gsequ_run trsv_run gemv_run
  doc_gssv doc_gssvx doc_gstrs doc_gsrfs doc_gscon doc_gsequ doc_trsv doc_gemv
  spec_info first_viol.
