(* EquilRun.v (property C11): entry points used by the generated vm_compute case files
   (build/C11/equil_cases_*.v).  Every result is flattened to a list of floats; Coq prints binary64
   values with 17 significant digits (exact round trip, signed zeros kept), so the check compares bit
   patterns with the C output.  (Printing float triples instead is exact too but ~40x slower.) *)
Require Import ZArith List Bool Floats.
From SLU Require Import Consts EquilModel.
Import ListNotations.

Definition sf (x : float) : float := x.
Definition zf (z : Z) : float := PrimFloat.of_uint63 (Uint63.of_Z z).
Definition sfz (v : float * float) : list float := [sf (fst v); sf (snd v)].

Definition mk_d (nrow ncol : nat) (es : list (nat * nat * float)) : smatrix ar_d :=
  mkSM ar_d nrow ncol (map (fun e => mkEntry ar_d (fst (fst e)) (snd (fst e)) (snd e)) es).
Definition mk_z (nrow ncol : nat) (es : list (nat * nat * (float * float))) : smatrix ar_z :=
  mkSM ar_z nrow ncol (map (fun e => mkEntry ar_z (fst (fst e)) (snd (fst e)) (snd e)) es).

Definition vals_d (A : smatrix ar_d) : list float := map (fun e => sf (e_val ar_d e)) (sm_ents ar_d A).
Definition vals_z (A : smatrix ar_z) : list float := flat_map (fun e => sfz (e_val ar_z e)) (sm_ents ar_z A).

Definition fail : list float := [nan; nan; nan].

(* ?gsequ: info, rowcnd, colcnd, amax, r[0..nrow), c[0..ncol) *)
Definition out_gsequ (ar : arith) (tosf : T ar -> float) (g : gsequ_out ar) : list float :=
  zf (g_info ar g) :: tosf (g_rowcnd ar g) :: tosf (g_colcnd ar g) :: tosf (g_amax ar g) ::
  map tosf (g_r ar g) ++ map tosf (g_c ar g).

Definition run_gsequ_d nrow ncol es (sent : float) : list float :=
  match gsequ ar_d sfmin_d (mk_d nrow ncol es) (repeat sent nrow) (repeat sent ncol) sent sent sent with
  | None => fail | Some g => out_gsequ ar_d sf g end.
Definition run_gsequ_z nrow ncol es (sent : float) : list float :=
  match gsequ ar_z sfmin_d (mk_z nrow ncol es) (repeat sent nrow) (repeat sent ncol) sent sent sent with
  | None => fail | Some g => out_gsequ ar_z sf g end.

(* ?laqgs: equed, scaled values *)
Definition run_laqgs_d nrow ncol es (r c : list float) (rowcnd colcnd amax : float) : list float :=
  match laqgs ar_d th_d sfmin_d prec_d (mk_d nrow ncol es) r c rowcnd colcnd amax with
  | None => fail | Some (A', eq) => zf eq :: vals_d A' end.
Definition run_laqgs_z nrow ncol es (r c : list float) (rowcnd colcnd amax : float) : list float :=
  match laqgs ar_z th_d sfmin_d prec_d (mk_z nrow ncol es) r c rowcnd colcnd amax with
  | None => fail | Some (A', eq) => zf eq :: vals_z A' end.

(* ?gsequ then, when info = 0, ?laqgs:  info, equed, rowcnd, colcnd, amax, r, c, values *)
Definition run_equil_d nrow ncol es (sent : float) : list float :=
  match gsequ ar_d sfmin_d (mk_d nrow ncol es) (repeat sent nrow) (repeat sent ncol) sent sent sent with
  | None => fail
  | Some g =>
    let tail A eq := zf (g_info ar_d g) :: zf eq :: sf (g_rowcnd ar_d g) :: sf (g_colcnd ar_d g) :: sf (g_amax ar_d g) ::
                     map sf (g_r ar_d g) ++ map sf (g_c ar_d g) ++ vals_d A in
    if (g_info ar_d g =? 0)%Z then
      match laqgs ar_d th_d sfmin_d prec_d (mk_d nrow ncol es) (g_r ar_d g) (g_c ar_d g)
                  (g_rowcnd ar_d g) (g_colcnd ar_d g) (g_amax ar_d g) with
      | None => fail | Some (A', eq) => tail A' eq end
    else tail (mk_d nrow ncol es) c_NOEQUIL
  end.
Definition run_equil_z nrow ncol es (sent : float) : list float :=
  match gsequ ar_z sfmin_d (mk_z nrow ncol es) (repeat sent nrow) (repeat sent ncol) sent sent sent with
  | None => fail
  | Some g =>
    let tail A eq := zf (g_info ar_z g) :: zf eq :: sf (g_rowcnd ar_z g) :: sf (g_colcnd ar_z g) :: sf (g_amax ar_z g) ::
                     map sf (g_r ar_z g) ++ map sf (g_c ar_z g) ++ vals_z A in
    if (g_info ar_z g =? 0)%Z then
      match laqgs ar_z th_d sfmin_d prec_d (mk_z nrow ncol es) (g_r ar_z g) (g_c ar_z g)
                  (g_rowcnd ar_z g) (g_colcnd ar_z g) (g_amax ar_z g) with
      | None => fail | Some (A', eq) => tail A' eq end
    else tail (mk_z nrow ncol es) c_NOEQUIL
  end.

(* p?gssvx wiring: info1, equed, values of A, R, C, B (column after column) *)
Definition run_gssvx_d (stype fact trans equed0 : Z) n es (R0 C0 : list float) (B : list (list float)) : list float :=
  match gssvx_equil ar_d th_d sfmin_d prec_d stype fact trans equed0 (mk_d n n es) R0 C0 B 0%float with
  | None => fail
  | Some o => zf (x_info1 ar_d o) :: zf (x_equed ar_d o) :: vals_d (x_A ar_d o) ++ map sf (x_R ar_d o) ++
              map sf (x_C ar_d o) ++ flat_map (map sf) (x_B ar_d o)
  end.
Definition run_gssvx_z (stype fact trans equed0 : Z) n es (R0 C0 : list float) (B : list (list (float * float))) : list float :=
  match gssvx_equil ar_z th_d sfmin_d prec_d stype fact trans equed0 (mk_z n n es) R0 C0 B 0%float with
  | None => fail
  | Some o => zf (x_info1 ar_z o) :: zf (x_equed ar_z o) :: vals_z (x_A ar_z o) ++ map sf (x_R ar_z o) ++
              map sf (x_C ar_z o) ++ flat_map (flat_map sfz) (x_B ar_z o)
  end.

Definition run_consts : list float := [sf sfmin_d; sf prec_d; sf eps_d; sf th_d].
