(* ArgCheckProofs.v  (property C15): the argument-test chains of ArgCheckModel.v against the
   documented-precondition tables, for ALL argument records. *)
Require Import ZArith List Bool QArith Lia ZifyBool Lqa.
From SLU Require Import Consts ArgCheckModel.
Import ListNotations.
Local Open Scope Z_scope.

(* ------------------------------------------------------------------ small facts *)
Lemma spec_info_cons {A} i (ok : A -> bool) t a :
  spec_info ((i, ok) :: t) a = if ok a then spec_info t a else - i.
Proof. unfold spec_info; cbn [first_viol]; destruct (ok a); reflexivity. Qed.

Lemma spec_info_nil {A} (a : A) : spec_info [] a = 0.
Proof. reflexivity. Qed.

Lemma c_max_is_max a b : c_max a b = Z.max a b.
Proof. unfold c_max; destruct (a >? b) eqn:E; lia. Qed.

Lemma implb_or a b : implb a b = negb a || b.
Proof. destruct a, b; reflexivity. Qed.

(* lsame_ against an upper-case letter accepts exactly that letter in either case *)
Lemma lsame_letter c l : 65 <= l <= 90 -> lsame c l = is_letter c l.
Proof.
  intros Hl; unfold lsame, is_letter, upcase.
  replace ((97 <=? l) && (l <=? 122)) with false by lia.
  destruct ((97 <=? c) && (c <=? 122)) eqn:E; lia.
Qed.

Ltac letters :=
  rewrite ?(lsame_letter _ ch_L), ?(lsame_letter _ ch_U), ?(lsame_letter _ ch_N), ?(lsame_letter _ ch_T),
          ?(lsame_letter _ ch_C), ?(lsame_letter _ ch_O), ?(lsame_letter _ ch_I)
    by (unfold ch_L, ch_U, ch_N, ch_T, ch_C, ch_O, ch_I; lia).

Ltac unfold_preds :=
  unfold neqb, memZ, square_nonneg, dn_types, l_types, u_types, has_types, is_letter in *;
  cbn [existsb] in *;
  rewrite ?implb_or, ?c_max_is_max in *.

Ltac unfold_consts :=
  unfold c_DOFACT, c_EQUILIBRATE, c_FACTORED, c_NOTRANS, c_TRANS, c_CONJ, c_NO, c_YES,
         c_NOEQUIL, c_ROW, c_COL, c_BOTH,
         c_SLU_NC, c_SLU_NCP, c_SLU_NR, c_SLU_SC, c_SLU_SCP, c_SLU_SR, c_SLU_DN,
         c_SLU_GE, c_SLU_TRLU, c_SLU_TRU,
         ch_1, ch_C, ch_I, ch_L, ch_N, ch_O, ch_T, ch_U in *.

(* one position: code condition (true = reject) against documented predicate (true = fine) *)
Ltac open_pos := rewrite spec_info_cons; cbv beta.
Ltac cases :=
  match goal with
  | |- (if ?c then _ else _) = (if ?d then _ else _) =>
    let Hc := fresh "Hc" in let Hd := fresh "Hd" in
    destruct c eqn:Hc; destruct d eqn:Hd;
    [ exfalso; unfold_preds; lia | reflexivity | | exfalso; unfold_preds; lia ]
  end.
Ltac step := open_pos; cases.

(* ================================================================== ?gscon : full *)
Theorem gscon_first_offender_proof : forall p a, gscon_check p a = spec_info (doc_gscon p) a.
Proof.
  intros p a; unfold gscon_check, doc_gscon; letters.
  step. clear Hc Hd. step. clear Hc Hd. step. reflexivity.
Qed.

(* ================================================================== ?gsequ : full *)
Theorem gsequ_first_offender_proof : forall p A, gsequ_check p A = spec_info (doc_gsequ p) A.
Proof.
  intros p A; unfold gsequ_check, doc_gsequ.
  step. reflexivity.
Qed.

(* ================================================================== p?gssv : partial + refuted *)
(* deviations of the unchanged code: B's type tags are not tested; lda = 0 is rejected for an empty
   system (max(1,n)) although nothing documents it *)
Definition gssv_first_offender_full : Prop :=
  forall p a, gssv_check p a = spec_info (doc_gssv p) a.

Theorem gssv_first_offender_partial_proof :
  forall p a, dn_types p (gv_B a) = true -> (m_nr (gv_A a) = 0 -> 1 <= m_lda (gv_B a)) ->
              gssv_check p a = spec_info (doc_gssv p) a.
Proof.
  intros p a HB Hl; unfold gssv_check, doc_gssv.
  step. clear Hc Hd. step. open_pos. rewrite HB. cases. reflexivity.
Qed.

Definition gssv_witness : gssv_args :=
  mkGssv 1 (mkMat c_SLU_NC c_SLU_D c_SLU_GE 3 3 0) (mkMat c_SLU_DN c_SLU_S c_SLU_GE 3 1 3).

Theorem gssv_first_offender_refuted_proof :
  exists p a, gssv_check p a = 0 /\ spec_info (doc_gssv p) a = -7.
Proof. exists PD, gssv_witness. vm_compute. split; reflexivity. Qed.

(* every documented violation that the code does test is reported at the documented position *)
Example gssv_nonvacuous :
  dn_types PD (gv_B (mkGssv 0 (mkMat c_SLU_NC c_SLU_D c_SLU_GE 3 3 0) (mkMat c_SLU_DN c_SLU_D c_SLU_GE 3 1 2))) = true
  /\ gssv_check PD (mkGssv 0 (mkMat c_SLU_NC c_SLU_D c_SLU_GE 3 3 0) (mkMat c_SLU_DN c_SLU_D c_SLU_GE 3 1 2)) = -1
  /\ gssv_check PD (mkGssv 2 (mkMat c_SLU_NC c_SLU_D c_SLU_GE 3 3 0) (mkMat c_SLU_DN c_SLU_D c_SLU_GE 3 1 2)) = -7.
Proof. vm_compute. repeat split; reflexivity. Qed.

(* ================================================================== ?gstrs : partial + refuted *)
Definition gstrs_first_offender_full : Prop :=
  forall p a, gstrs_check p a = spec_info (doc_gstrs p) a.

(* the code tests what is documented for trans, the shapes of L and U and the leading dimension of B,
   but (a) numbers L and U as arguments 3 and 4 (they are 2 and 3), (b) tests no type tag,
   (c) does not test B->ncol *)
Theorem gstrs_first_offender_partial_proof :
  forall p a, l_types p (gt_L a) = true -> u_types p (gt_U a) = true -> dn_types p (gt_B a) = true ->
              0 <= m_nc (gt_B a) ->
              gstrs_check p a = gstrs_renumber (spec_info (doc_gstrs p) a).
Proof.
  intros p a HL HU HB Hn; unfold gstrs_check, doc_gstrs.
  rewrite spec_info_cons; cbv beta.
  match goal with |- (if ?c then _ else _) = _ => destruct c eqn:Hc end;
  match goal with |- _ = gstrs_renumber (if ?d then _ else _) => destruct d eqn:Hd end;
  [ exfalso; unfold_preds; lia | reflexivity | | exfalso; unfold_preds; lia ].
  clear Hc Hd.
  rewrite spec_info_cons; cbv beta; rewrite HL, andb_true_r.
  match goal with |- (if ?c then _ else _) = _ => destruct c eqn:Hc end;
  match goal with |- _ = gstrs_renumber (if ?d then _ else _) => destruct d eqn:Hd end;
  [ exfalso; unfold_preds; lia | reflexivity | | exfalso; unfold_preds; lia ].
  rewrite spec_info_cons; cbv beta; rewrite HU, andb_true_r.
  match goal with |- (if ?c then _ else _) = _ => destruct c eqn:Hc2 end;
  match goal with |- _ = gstrs_renumber (if ?d then _ else _) => destruct d eqn:Hd2 end;
  [ exfalso; unfold_preds; lia | reflexivity | | exfalso; unfold_preds; lia ].
  rewrite spec_info_cons; cbv beta; rewrite HB.
  match goal with |- (if ?c then _ else _) = _ => destruct c eqn:Hc3 end;
  match goal with |- _ = gstrs_renumber (if ?d then _ else _) => destruct d eqn:Hd3 end;
  [ exfalso; unfold_preds; lia | reflexivity | | exfalso; unfold_preds; lia ].
  reflexivity.
Qed.

Definition good_L p n := mkMat c_SLU_SCP (dtype_of p) c_SLU_TRLU n n 0.
Definition good_U p n := mkMat c_SLU_NCP (dtype_of p) c_SLU_TRU n n 0.
Definition good_DN p n nrhs lda := mkMat c_SLU_DN (dtype_of p) c_SLU_GE n nrhs lda.
Definition good_A p n := mkMat c_SLU_NC (dtype_of p) c_SLU_GE n n 0.

(* L of negative order: documented position 2, reported as -3 *)
Theorem gstrs_first_offender_refuted_proof :
  exists p a, spec_info (doc_gstrs p) a = -2 /\ gstrs_check p a = -3.
Proof.
  exists PD, (mkGstrs c_NOTRANS (good_L PD (-1)) (good_U PD 3) (good_DN PD 3 1 3)).
  vm_compute. split; reflexivity.
Qed.

(* U not square: position 3, reported -4;  B of the wrong type / negative ncol: position 6, not reported *)
Example gstrs_more_witnesses :
  (spec_info (doc_gstrs PD) (mkGstrs c_NOTRANS (good_L PD 3) (mkMat c_SLU_NCP c_SLU_D c_SLU_TRU 3 4 0) (good_DN PD 3 1 3)) = -3 /\
   gstrs_check PD (mkGstrs c_NOTRANS (good_L PD 3) (mkMat c_SLU_NCP c_SLU_D c_SLU_TRU 3 4 0) (good_DN PD 3 1 3)) = -4) /\
  (spec_info (doc_gstrs PD) (mkGstrs c_NOTRANS (good_L PD 3) (good_U PD 3) (mkMat c_SLU_DN c_SLU_S c_SLU_GE 3 1 3)) = -6 /\
   gstrs_check PD (mkGstrs c_NOTRANS (good_L PD 3) (good_U PD 3) (mkMat c_SLU_DN c_SLU_S c_SLU_GE 3 1 3)) = 0) /\
  (spec_info (doc_gstrs PD) (mkGstrs c_NOTRANS (good_L PD 3) (good_U PD 3) (good_DN PD 3 (-1) 3)) = -6 /\
   gstrs_check PD (mkGstrs c_NOTRANS (good_L PD 3) (good_U PD 3) (good_DN PD 3 (-1) 3)) = 0).
Proof. vm_compute. repeat split; reflexivity. Qed.

Example gstrs_partial_nonvacuous :
  let a := mkGstrs c_CONJ (good_L PD 3) (good_U PD 3) (good_DN PD 3 1 2) in
  l_types PD (gt_L a) = true /\ u_types PD (gt_U a) = true /\ dn_types PD (gt_B a) = true /\
  0 <= m_nc (gt_B a) /\ gstrs_check PD a = -6 /\
  gstrs_check PZ (mkGstrs 7 (good_L PZ 3) (good_U PZ 3) (good_DN PZ 3 1 2)) = -1.
Proof. vm_compute. repeat split; try reflexivity; discriminate. Qed.

(* since 6b4d237 / 44032f9 (fixes of findings F20 / F3) the inner triangular solves are always called with 'T':
   what ?gstrs leaves in *info is what its own tests decided, for every precision and every trans *)
Theorem gstrs_final_is_own_check_proof : forall p a, gstrs_final_info p a = gstrs_check p a.
Proof.
  intros p a. unfold gstrs_final_info.
  destruct (neqb (gstrs_check p a) 0) eqn:Hn; [reflexivity|].
  assert (H0 : gstrs_check p a = 0) by (unfold neqb in Hn; apply negb_false_iff in Hn; apply Z.eqb_eq in Hn; exact Hn).
  rewrite H0.
  destruct (negb (gt_trans a =? c_NOTRANS) && (0 <? m_nc (gt_B a))); [|reflexivity].
  revert H0. unfold gstrs_check, trsv_check; cbn [tv_uplo tv_trans tv_diag tv_L tv_U].
  repeat match goal with |- context [if ?c then _ else _] => destruct c eqn:? end; intros; try reflexivity; try discriminate.
Qed.

Example gstrs_conj_accepted :
  gstrs_final_info PZ (mkGstrs c_CONJ (good_L PZ 3) (good_U PZ 3) (good_DN PZ 3 1 3)) = 0 /\
  gstrs_final_info PD (mkGstrs c_CONJ (good_L PD 3) (good_U PD 3) (good_DN PD 3 1 3)) = 0.
Proof. vm_compute. split; reflexivity. Qed.

(* ================================================================== ?gsrfs : partial + refuted *)
Definition gsrfs_first_offender_full : Prop :=
  forall p a, gsrfs_check p a = spec_info (doc_gsrfs p) a.

(* only the column counts of B and X are not tested *)
Theorem gsrfs_first_offender_partial_proof :
  forall p a, 0 <= m_nc (gr_B a) -> m_nc (gr_X a) = m_nc (gr_B a) ->
              gsrfs_check p a = spec_info (doc_gsrfs p) a.
Proof.
  intros p a Hn Hx; unfold gsrfs_check, doc_gsrfs.
  step. clear Hc Hd. step. step. clear Hc0 Hd0. step. clear Hc0 Hd0. step. clear Hc0 Hd0. step.
  reflexivity.
Qed.

Theorem gsrfs_first_offender_refuted_proof :
  exists p a, spec_info (doc_gsrfs p) a = -10 /\ gsrfs_check p a = 0.
Proof.
  exists PD, (mkGsrfs c_NOTRANS (good_A PD 3) (good_L PD 3) (good_U PD 3) c_NOEQUIL
                      (good_DN PD 3 (-1) 3) (good_DN PD 3 (-1) 3)).
  vm_compute. split; reflexivity.
Qed.

Example gsrfs_partial_nonvacuous :
  let a := mkGsrfs c_NOTRANS (good_A PD 3) (good_L PD 3) (good_U PD 3) c_NOEQUIL
                   (good_DN PD 3 2 3) (mkMat c_SLU_DN c_SLU_D c_SLU_GE 3 2 2) in
  0 <= m_nc (gr_B a) /\ m_nc (gr_X a) = m_nc (gr_B a) /\ gsrfs_check PD a = -11.
Proof. vm_compute. repeat split; try reflexivity; discriminate. Qed.

(* ================================================================== sp_?trsv : partial + refuted *)
Definition trsv_first_offender_full : Prop :=
  forall p a, trsv_check p a = spec_info (doc_trsv p) a.

(* the code rejects the documented trans = 'C'/'c' and tests no type tag *)
Theorem trsv_first_offender_partial_proof :
  forall p a, is_letter (tv_trans a) ch_C = false ->
              l_types p (tv_L a) = true -> u_types p (tv_U a) = true ->
              trsv_check p a = spec_info (doc_trsv p) a.
Proof.
  intros p a HC HL HU; unfold trsv_check, doc_trsv; letters.
  step. clear Hc Hd. open_pos. rewrite HC, orb_false_r. cases. clear Hc Hd. step. clear Hc Hd.
  open_pos. rewrite HL, andb_true_r. cases. clear Hc Hd. open_pos. rewrite HU, andb_true_r. cases. reflexivity.
Qed.

Theorem trsv_first_offender_refuted_proof :
  exists p a, spec_info (doc_trsv p) a = 0 /\ trsv_check p a = -2.
Proof.
  exists PD, (mkTrsv ch_L ch_C ch_U (good_L PD 3) (good_U PD 3)).
  vm_compute. split; reflexivity.
Qed.

Example trsv_type_witness :
  spec_info (doc_trsv PD) (mkTrsv ch_L ch_N ch_U (mkMat c_SLU_SCP c_SLU_S c_SLU_TRLU 3 3 0) (good_U PD 3)) = -4 /\
  trsv_check PD (mkTrsv ch_L ch_N ch_U (mkMat c_SLU_SCP c_SLU_S c_SLU_TRLU 3 3 0) (good_U PD 3)) = 0.
Proof. vm_compute. split; reflexivity. Qed.

Example trsv_partial_nonvacuous :
  let a := mkTrsv ch_L (ch_T + 32) 88 (good_L PD 3) (good_U PD 3) in
  is_letter (tv_trans a) ch_C = false /\ l_types PD (tv_L a) = true /\ u_types PD (tv_U a) = true /\
  trsv_check PD a = -3.
Proof. vm_compute. repeat split; reflexivity. Qed.

(* ================================================================== sp_?gemv : partial + refuted *)
Definition gemv_first_offender_full : Prop :=
  forall p a, gemv_check p a = spec_info (doc_gemv p) a.

(* the code tests no type tag of A *)
Theorem gemv_first_offender_partial_proof :
  forall p a, memZ (m_st (gm_A a)) [c_SLU_NC; c_SLU_NCP] = true -> m_dt (gm_A a) = dtype_of p ->
              m_mt (gm_A a) = c_SLU_GE ->
              gemv_check p a = spec_info (doc_gemv p) a.
Proof.
  intros p a HS HD HM; unfold gemv_check, doc_gemv; letters.
  step. clear Hc Hd. open_pos. rewrite HS, HD, HM, !Z.eqb_refl, !andb_true_r.
  cases. clear Hc Hd.
  open_pos. destruct (gm_incx a =? 0) eqn:Hx; cbn [negb]; [reflexivity|].
  open_pos. destruct (gm_incy a =? 0) eqn:Hy; cbn [negb]; [reflexivity|].
  reflexivity.
Qed.

Theorem gemv_first_offender_refuted_proof :
  exists p a, spec_info (doc_gemv p) a = -3 /\ gemv_check p a = 0.
Proof.
  exists PD, (mkGemv ch_N (mkMat c_SLU_NR c_SLU_D c_SLU_GE 3 3 0) 1 1).
  vm_compute. split; reflexivity.
Qed.

Example gemv_partial_nonvacuous :
  let a := mkGemv ch_T (good_A PD 3) 1 0 in
  memZ (m_st (gm_A a)) [c_SLU_NC; c_SLU_NCP] = true /\ m_dt (gm_A a) = dtype_of PD /\
  m_mt (gm_A a) = c_SLU_GE /\ gemv_check PD a = -8.
Proof. vm_compute. repeat split; reflexivity. Qed.

(* ================================================================== p?gssvx : full *)
(* the scan of R (or C): the running minimum ends <= 0 iff it started <= 0 or some entry is <= 0 *)
Lemma q_min_nonpos a x : Qle_bool (q_min a x) 0 = Qle_bool a 0 || Qle_bool x 0.
Proof.
  unfold q_min, Qltb.
  destruct (Qle_bool x a) eqn:E1; cbn [negb];
  destruct (Qle_bool a 0) eqn:E2; destruct (Qle_bool x 0) eqn:E3; try reflexivity; exfalso.
  - apply Qle_bool_iff in E1, E2. assert (~ x <= 0)%Q by (intro H; apply Qle_bool_iff in H; congruence). lra.
  - assert (~ x <= a)%Q by (intro H; apply Qle_bool_iff in H; congruence).
    apply Qle_bool_iff in E3. assert (~ a <= 0)%Q by (intro H1; apply Qle_bool_iff in H1; congruence). lra.
Qed.

Lemma rc_scan_spec : forall n v acc,
  (n <= length v)%nat ->
  exists r, rc_scan n v acc = Some r /\
            Qle_bool r 0 = Qle_bool acc 0 || negb (all_pos (firstn n v)).
Proof.
  induction n as [|n IH]; intros v acc Hlen.
  - exists acc; cbn. rewrite orb_false_r. split; reflexivity.
  - destruct v as [|x t]; [cbn in Hlen; lia|].
    cbn [rc_scan firstn]. destruct (IH t (q_min acc x)) as [r [Hr Hs]]; [cbn in Hlen; lia|].
    exists r; split; [exact Hr|].
    rewrite Hs, q_min_nonpos. unfold all_pos; cbn [forallb]. fold (all_pos (firstn n t)).
    unfold Qltb. rewrite negb_andb, negb_involutive, orb_assoc. reflexivity.
Qed.

Lemma bignum_pos p : Qle_bool (bignum_of p) 0 = false.
Proof. destruct p; vm_compute; reflexivity. Qed.

Lemma rc_scan_bignum p n v :
  (n <= length v)%nat ->
  exists r, rc_scan n v (bignum_of p) = Some r /\ Qle_bool r 0 = negb (all_pos (firstn n v)).
Proof.
  intros H; destruct (rc_scan_spec n v (bignum_of p) H) as [r [Hr Hs]].
  exists r; split; [exact Hr|]. rewrite Hs, bignum_pos; reflexivity.
Qed.

Theorem gssvx_first_offender_proof :
  forall p a, gssvx_wf a -> gssvx_check p a = Some (spec_info (doc_gssvx p) a).
Proof.
  intros p a [HwR HwC]; unfold gssvx_check, gssvx_flags, doc_gssvx.
  (* 1 *)
  rewrite spec_info_cons; cbv beta.
  destruct (gx_nprocs a <=? 0) eqn:H1; destruct (1 <=? gx_nprocs a) eqn:D1;
    [ exfalso; lia | reflexivity | | exfalso; lia ]. clear H1 D1.
  (* 2 *)
  rewrite spec_info_cons; cbv beta.
  match goal with |- (if ?c then _ else _) = Some (if ?d then _ else _) =>
    destruct c eqn:H2; destruct d eqn:D2;
    [ exfalso; unfold_preds; lia | reflexivity | | exfalso; unfold_preds; lia ] end.
  clear H2.
  (* 3 *)
  rewrite spec_info_cons; cbv beta.
  match goal with |- (if ?c then _ else _) = Some (if ?d then _ else _) =>
    destruct c eqn:H3; destruct d eqn:D3;
    [ exfalso; unfold_preds; lia | reflexivity | | exfalso; unfold_preds; lia ] end.
  clear H3.
  assert (Hsq : m_nr (gx_A a) = m_nc (gx_A a) /\ 0 <= m_nr (gx_A a)) by (unfold_preds; lia).
  destruct Hsq as [Hsq Hnn]. clear D3.
  (* from here on the two cases of `dofact || equil` *)
  assert (HnR : (Z.to_nat (m_nr (gx_A a)) <= length (gx_R a))%nat) by lia.
  assert (HnC : (Z.to_nat (m_nr (gx_A a)) <= length (gx_C a))%nat) by lia.
  destruct (rc_scan_bignum p _ _ HnR) as [rR [HrR HsR]].
  destruct (rc_scan_bignum p _ _ HnC) as [rC [HrC HsC]].
  unfold gssvx_tail. rewrite !spec_info_cons, spec_info_nil; cbv beta.
  rewrite <- Hsq. rewrite HrR, HrC, HsR, HsC.
  clear HrR HrC HsR HsC rR rC HnR HnC HwR HwC.
  set (posR := all_pos (firstn (Z.to_nat (m_nr (gx_A a))) (gx_R a))).
  set (posC := all_pos (firstn (Z.to_nat (m_nr (gx_A a))) (gx_C a))).
  clearbody posR posC.
  destruct ((gx_fact a =? c_DOFACT) || (gx_fact a =? c_EQUILIBRATE)) eqn:Hde.
  - (* DOFACT or EQUILIBRATE: equed, R, C are outputs, nothing to test *)
    replace (gx_fact a =? c_FACTORED) with false by (unfold_consts; lia).
    clear D2 Hde.
    cbn [andb orb negb implb Z.eqb].
    match goal with |- (if ?c then _ else _) = Some (if ?d then _ else _) =>
      destruct c eqn:H11; destruct d eqn:D11;
      [ exfalso; unfold_preds; lia | reflexivity | | exfalso; unfold_preds; lia ] end.
    match goal with |- (if ?c then _ else _) = Some (if ?d then _ else _) =>
      destruct c eqn:H12; destruct d eqn:D12;
      [ exfalso; unfold_preds; lia | reflexivity | reflexivity | exfalso; unfold_preds; lia ] end.
  - (* FACTORED *)
    replace (gx_fact a =? c_FACTORED) with true by (unfold_preds; unfold_consts; lia).
    clear D2 Hde.
    cbn [andb implb].
    unfold memZ; cbn [existsb]; rewrite !orb_false_r.
    destruct (gx_equed a =? c_NOEQUIL) eqn:E0; destruct (gx_equed a =? c_ROW) eqn:E1;
    destruct (gx_equed a =? c_COL) eqn:E2; destruct (gx_equed a =? c_BOTH) eqn:E3;
    try (exfalso; unfold_consts; lia); clear E0 E1 E2 E3;
    cbn [andb orb negb implb]; try reflexivity;
    destruct posR, posC; cbn [andb orb negb implb Z.eqb]; try reflexivity;
    (match goal with |- (if ?c then _ else _) = Some (if ?d then _ else _) =>
      destruct c eqn:H11; destruct d eqn:D11;
      [ exfalso; unfold_preds; lia | reflexivity | | exfalso; unfold_preds; lia ] end);
    (match goal with |- (if ?c then _ else _) = Some (if ?d then _ else _) =>
      destruct c eqn:H12; destruct d eqn:D12;
      [ exfalso; unfold_preds; lia | reflexivity | reflexivity | exfalso; unfold_preds; lia ] end).
Qed.

Definition good_gssvx (p : prec) (fact equed : Z) (R C : list Q) : gssvx_args :=
  mkGssvx 1 fact c_NOTRANS c_NO c_NO 0 (good_A p 3) equed R C (good_DN p 3 2 3) (good_DN p 3 2 3).

Example gssvx_nonvacuous :
  let a := good_gssvx PD c_FACTORED c_BOTH [1; 2; 1 # 2]%Q [1; 0; 1]%Q in
  gssvx_wf a /\ gssvx_check PD a = Some (-8) /\
  gssvx_check PD (good_gssvx PD c_FACTORED c_BOTH [1; -(1); 1]%Q [1; 0; 1]%Q) = Some (-7) /\
  gssvx_check PD (good_gssvx PD c_EQUILIBRATE c_BOTH [1; -(1); 1]%Q [1; 0; 1]%Q) = Some 0 /\
  gssvx_check PD (good_gssvx PD c_FACTORED 4 [1; 1; 1]%Q [1; 1; 1]%Q) = Some (-6).
Proof. vm_compute. repeat split; try reflexivity; discriminate. Qed.

(* the scan leaves the arrays: reading past the end is reported by the model, never defaulted *)
Example gssvx_short_R_is_undefined :
  gssvx_check PD (good_gssvx PD c_FACTORED c_ROW [1; 1]%Q [1; 1; 1]%Q) = None.
Proof. vm_compute. reflexivity. Qed.

(* ================================================================== no effect on the error path *)
Definition quiet (o : outcome) : Prop :=
  o_info o < 0 -> o_xerbla o = Some (- o_info o) /\ o_allocs o = 0 /\ o_wrote o = [].

Lemma leave_quiet i e b : quiet (leave i e b).
Proof. unfold quiet, leave, neqb. destruct (i =? 0) eqn:E; cbn; intros H; [lia|]. repeat split. Qed.

Lemma leave_info i e b : o_info (leave i e b) = i.
Proof. unfold leave, neqb. destruct (i =? 0) eqn:E; cbn; lia. Qed.

Lemma leave_xerbla_iff i e b : (o_xerbla (leave i e b) <> None) <-> i <> 0.
Proof. unfold leave, neqb. destruct (i =? 0) eqn:E; cbn; split; intros; try lia; try congruence. Qed.

Theorem argcheck_no_effect_proof :
  (forall p a, quiet (gssv_run p a)) /\
  (forall p a o, gssvx_run p a = Some o ->
                 quiet o /\ o_optperm o = true /\
                 o_equed o = (if (gx_fact a =? c_DOFACT) || (gx_fact a =? c_EQUILIBRATE)
                              then c_NOEQUIL else gx_equed a)) /\
  (forall p a, quiet (gstrs_run p a)) /\ (forall p a, quiet (gsrfs_run p a)) /\
  (forall p a, quiet (gscon_run p a)) /\ (forall p a, quiet (gsequ_run p a)) /\
  (forall p a, quiet (trsv_run p a)) /\ (forall p a, quiet (gemv_run p a)).
Proof.
  assert (Hx : forall p a o, gssvx_run p a = Some o ->
                 quiet o /\ o_optperm o = true /\
                 o_equed o = (if (gx_fact a =? c_DOFACT) || (gx_fact a =? c_EQUILIBRATE)
                              then c_NOEQUIL else gx_equed a)).
  { intros p a o H. unfold gssvx_run, gssvx_flags in H.
    destruct (gssvx_check p a) as [z|]; [|discriminate]. inversion H; subst; clear H.
    split; [apply leave_quiet|]. unfold leave; destruct (neqb z 0); split; reflexivity. }
  refine (conj _ (conj Hx (conj _ (conj _ (conj _ (conj _ (conj _ _))))))); intros; apply leave_quiet.
Qed.

(* the error handler is called exactly when the reported info is non-zero, with the position -info *)
Theorem argcheck_xerbla_iff_proof :
  forall i e b, (o_info (leave i e b) = i) /\
                (i <> 0 -> o_xerbla (leave i e b) = Some (- i)) /\
                (i = 0 -> o_xerbla (leave i e b) = None).
Proof.
  intros i e b; unfold leave, neqb; destruct (i =? 0) eqn:E; cbn; repeat split; intros; try lia; try reflexivity.
Qed.
