(* NumFlocq.v -- the abstract "one relative error <= u" model is an instance of IEEE rounding to nearest:
   for Flocq's round-to-nearest-even in the FLX format with 53 (24) digits, u = 2^-53 (2^-24).
   FLX has no overflow/underflow: that binary64 coincides with it in the normal range is Flocq's Bplus_correct
   family of theorems (named in the trusted base, not threaded through every intermediate value). *)
From Coq Require Import Reals Lra Lia ZArith.
From Flocq Require Import Core Relative.
From SLU Require Import NumBase.
Local Open Scope R_scope.

Definition rnd53 (x : R) : R := round radix2 (FLX_exp 53) ZnearestE x.
Definition rnd24 (x : R) : R := round radix2 (FLX_exp 24) ZnearestE x.
Definition u53 : R := / 2 * bpow radix2 (- 53 + 1).
Definition u24 : R := / 2 * bpow radix2 (- 24 + 1).

Lemma rnd53_fl_eq x : fl_eq u53 x (rnd53 x).
Proof.
  destruct (relative_error_N_FLX_ex radix2 53 ltac:(lia) (fun z => negb (Z.even z)) x) as (eps & He & Ex).
  exists eps. split; [exact He | exact Ex].
Qed.

Lemma rnd24_fl_eq x : fl_eq u24 x (rnd24 x).
Proof.
  destruct (relative_error_N_FLX_ex radix2 24 ltac:(lia) (fun z => negb (Z.even z)) x) as (eps & He & Ex).
  exists eps. split; [exact He | exact Ex].
Qed.

Lemma u53_range : 0 <= u53 < 1.
Proof. unfold u53. simpl bpow. split; [|]; lra. Qed.

Lemma u24_range : 0 <= u24 < 1.
Proof. unfold u24. simpl bpow. split; [|]; lra. Qed.
