From Coq Require Import Extraction ExtrOcamlBasic.
From SLU Require Import SchedModel SchedInv.
Extraction "sched_model.ml" relax_snode parallel_init sched sched_guard gstep ginit kids_done lead dadpanel cols check_init.
