From Coq Require Import Extraction ExtrOcamlBasic.
From SLU Require Import UstackModel.
Extraction "ustack_model.ml" init_mem mem_init work_init work_free setup_space umalloc ufree set_ba set_exp
  temp_space memory_use query_estimate run_sched live_blocks pairwise_disjointb in_rangeb thread_fail_info
  finalize_info gstrf_outcome gssvx_tail reads_lu blocks_okb glu_blocks work_isize work_dsize.
