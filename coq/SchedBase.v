(* SchedBase.v -- list/array/count lemmas used by SchedProofs.v *)
From Coq Require Import ZArith List Bool Lia FinFun.
From SLU Require Import Consts SchedModel.
Import ListNotations.
Local Open Scope Z_scope.

Lemma upd_nat_length l i v : length (upd_nat l i v) = length l.
Proof. revert i; induction l as [|h t IH]; intros [|i]; simpl; auto. Qed.

Lemma updZ_length l i v : length (updZ l i v) = length l.
Proof. unfold updZ; destruct (i <? 0); auto using upd_nat_length. Qed.

Lemma lenZ_updZ l i v : lenZ (updZ l i v) = lenZ l.
Proof. unfold lenZ; now rewrite updZ_length. Qed.

Lemma nth_upd_nat_same l i v d : (i < length l)%nat -> nth i (upd_nat l i v) d = v.
Proof. revert i; induction l as [|h t IH]; intros [|i] H; simpl in *; try lia; auto. apply IH; lia. Qed.

Lemma nth_upd_nat_other l i j v d : i <> j -> nth j (upd_nat l i v) d = nth j l d.
Proof. revert i j; induction l as [|h t IH]; intros [|i] [|j] H; simpl; auto; try congruence. Qed.

Lemma nthZ_updZ_same l i v : 0 <= i < lenZ l -> nthZ (updZ l i v) i = v.
Proof.
  unfold nthZ, updZ, lenZ; intros H. destruct (i <? 0) eqn:E; [lia|].
  apply nth_upd_nat_same; lia.
Qed.

Lemma nthZ_updZ_other l i j v : i <> j -> nthZ (updZ l i v) j = nthZ l j.
Proof.
  unfold nthZ, updZ; intros H. destruct (j <? 0) eqn:Ej; auto.
  destruct (i <? 0) eqn:Ei; auto. apply nth_upd_nat_other. lia.
Qed.

Lemma nthZ_updZ l i j v : 0 <= i < lenZ l -> nthZ (updZ l i v) j = if j =? i then v else nthZ l j.
Proof.
  intros H. destruct (j =? i) eqn:E.
  - apply Z.eqb_eq in E; subst; now apply nthZ_updZ_same.
  - apply Z.eqb_neq in E. apply nthZ_updZ_other; lia.
Qed.

Lemma updZ_out l i v : ~ (0 <= i < lenZ l) -> updZ l i v = l.
Proof.
  unfold updZ, lenZ; intros H. destruct (i <? 0) eqn:E; auto.
  assert (Hl : (length l <= Z.to_nat i)%nat) by lia. clear H E.
  revert Hl; generalize (Z.to_nat i) as k. induction l as [|h t IH]; intros [|k] Hk; simpl in *; auto; try lia.
  f_equal; apply IH; lia.
Qed.

Lemma nthZ_out l i : ~ (0 <= i < lenZ l) -> nthZ l i = 0.
Proof.
  unfold nthZ, lenZ; intros H. destruct (i <? 0) eqn:E; auto. apply nth_overflow; lia.
Qed.

Lemma set_range_length l j c v : length (set_range l j c v) = length l.
Proof. revert l j; induction c as [|c IH]; intros; simpl; auto. rewrite IH; apply updZ_length. Qed.

Lemma inb_true i len : inb i len = true <-> 0 <= i < len.
Proof. unfold inb; rewrite andb_true_iff, Z.leb_le, Z.ltb_lt; tauto. Qed.

(* cols *)
Lemma in_cols n i : In i (cols n) <-> 0 <= i < n.
Proof.
  unfold cols; rewrite in_map_iff; split.
  - intros (k & <- & Hk). apply in_seq in Hk. lia.
  - intros H. exists (Z.to_nat i). split; [lia|]. apply in_seq; lia.
Qed.

Lemma NoDup_cols n : NoDup (cols n).
Proof.
  unfold cols. apply Injective_map_NoDup; [|apply seq_NoDup].
  intros a b H; lia.
Qed.

(* counting *)
Lemma countb_nonneg f l : 0 <= countb f l.
Proof. unfold countb; lia. Qed.

Lemma countb_ext f g l : (forall x, In x l -> f x = g x) -> countb f l = countb g l.
Proof.
  unfold countb; intros H. f_equal. f_equal.
  induction l as [|a t IH]; simpl; auto.
  rewrite (H a) by (now left). rewrite IH; auto. intros; apply H; now right.
Qed.

Lemma countb_zero f l : countb f l = 0 -> forall x, In x l -> f x = false.
Proof.
  unfold countb; intros H x Hx. destruct (f x) eqn:E; auto.
  assert (In x (filter f l)) by (apply filter_In; auto).
  destruct (filter f l); cbn [length In] in *; [tauto | lia].
Qed.

Lemma countb_pos f l x : In x l -> f x = true -> 1 <= countb f l.
Proof.
  unfold countb; intros Hx E.
  assert (In x (filter f l)) by (apply filter_In; auto).
  destruct (filter f l); cbn [length In] in *; [tauto | lia].
Qed.

(* f and g agree except at x, where f holds and g does not: the count drops by one *)
Lemma countb_remove f g l x :
  NoDup l -> In x l -> f x = true -> g x = false -> (forall y, y <> x -> f y = g y) ->
  countb g l = countb f l - 1.
Proof.
  unfold countb. induction l as [|a t IH]; intros ND Hin Hf Hg Hag; [inversion Hin|].
  inversion ND as [|? ? Hna ND']; subst. cbn [filter]. destruct Hin as [->|Hin].
  - rewrite Hf, Hg. cbn [length].
    assert (E : filter g t = filter f t).
    { apply filter_ext_in. intros y Hy. symmetry; apply Hag. intros ->; tauto. }
    rewrite E. lia.
  - assert (a <> x) by (intros ->; tauto).
    rewrite (Hag a) by auto. specialize (IH ND' Hin Hf Hg Hag).
    destruct (g a); cbn [length]; lia.
Qed.

Lemma countb_two f l x y : In x l -> In y l -> x <> y -> f x = true -> f y = true -> NoDup l -> 2 <= countb f l.
Proof.
  intros Hx Hy Hne Fx Fy ND.
  pose (g := fun z => if z =? x then false else f z).
  assert (E : countb g l = countb f l - 1).
  { apply countb_remove with (x := x); auto.
    - unfold g; now rewrite Z.eqb_refl.
    - intros z Hz; unfold g. destruct (z =? x) eqn:Ez; auto. apply Z.eqb_eq in Ez; tauto. }
  assert (1 <= countb g l).
  { apply countb_pos with (x := y); auto. unfold g. destruct (y =? x) eqn:Ez; auto. apply Z.eqb_eq in Ez; congruence. }
  lia.
Qed.

(* exactly one element satisfies f *)
Lemma countb_one_unique f l x y :
  NoDup l -> countb f l = 1 -> In x l -> In y l -> f x = true -> f y = true -> x = y.
Proof.
  intros ND H1 Hx Hy Fx Fy. destruct (Z.eq_dec x y) as [|Hne]; auto.
  pose proof (countb_two f l x y Hx Hy Hne Fx Fy ND). lia.
Qed.

(* firstn / NoDup / bounded elements: pigeonhole *)
Lemma NoDup_bounded_length (l : list Z) n :
  NoDup l -> (forall x, In x l -> 0 <= x < n) -> Z.of_nat (length l) <= Z.max 0 n.
Proof.
  intros ND Hb.
  assert (incl l (cols n)) by (intros x Hx; apply in_cols; auto).
  pose proof (NoDup_incl_length ND H) as Hl.
  unfold cols in Hl. rewrite map_length, seq_length in Hl. lia.
Qed.

Lemma firstn_nthZ_in (l : list Z) (k : nat) i :
  0 <= i < Z.of_nat k -> Z.of_nat k <= lenZ l -> In (nthZ l i) (firstn k l).
Proof.
  unfold nthZ, lenZ; intros Hi Hk. destruct (i <? 0) eqn:E; [lia|].
  rewrite <- (firstn_skipn k l) at 1. rewrite app_nth1.
  - apply nth_In. rewrite firstn_length. lia.
  - rewrite firstn_length. lia.
Qed.

Lemma in_firstn_nthZ (l : list Z) (k : nat) x :
  In x (firstn k l) -> exists i, 0 <= i < Z.of_nat k /\ i < lenZ l /\ nthZ l i = x.
Proof.
  intros H. apply (In_nth _ _ 0) in H. destruct H as (j & Hj & Hx).
  rewrite firstn_length in Hj.
  exists (Z.of_nat j). unfold nthZ, lenZ. split; [lia|]. split; [lia|].
  destruct (Z.of_nat j <? 0) eqn:E; [lia|]. rewrite Nat2Z.id.
  rewrite <- Hx. rewrite <- (firstn_skipn k l) at 1. rewrite app_nth1; auto. rewrite firstn_length; lia.
Qed.

Lemma firstn_updZ_ge (l : list Z) (k : nat) i v : Z.of_nat k <= i -> firstn k (updZ l i v) = firstn k l.
Proof.
  unfold updZ; intros H. destruct (i <? 0) eqn:E; auto.
  assert (Hk : (k <= Z.to_nat i)%nat) by lia. clear H E. revert Hk. generalize (Z.to_nat i) as j.
  revert k; induction l as [|h t IH]; intros [|k] [|j] Hk; simpl; auto; try lia.
  f_equal. apply IH; lia.
Qed.

Lemma firstn_S_nthZ (l : list Z) (k : nat) : Z.of_nat k < lenZ l -> firstn (S k) l = firstn k l ++ [nthZ l (Z.of_nat k)].
Proof.
  unfold lenZ, nthZ; intros H. destruct (Z.of_nat k <? 0) eqn:E; [lia|]. rewrite Nat2Z.id.
  assert (Hk : (k < length l)%nat) by lia. clear H E.
  revert k Hk; induction l as [|h t IH]; intros [|k] Hk; simpl in *; try lia; auto.
  f_equal. apply IH; lia.
Qed.

Lemma NoDup_snoc (l : list Z) d : NoDup l -> ~ In d l -> NoDup (l ++ [d]).
Proof.
  induction l as [|a t IH]; intros ND Hn; cbn.
  - constructor; [intros []|constructor].
  - inversion ND as [|? ? Ha ND']; subst. constructor.
    + intros Hin. apply in_app_iff in Hin. destruct Hin as [Hin|[<-|[]]]; [tauto|]. apply Hn. now left.
    + apply IH; auto. intros Hin. apply Hn. now right.
Qed.
