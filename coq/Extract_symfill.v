From Coq Require Import Extraction ExtrOcamlBasic.
From SLU Require Import SymFill RowMergeExec.
Extraction "symfill_model.ml" sym_colcounts lu_colcounts rm_colcounts.
