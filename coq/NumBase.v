(* NumBase.v -- rounding-error bookkeeping over the reals: relative-error counters (Higham's theta_k) and gamma_k.
   Everything is parametrised by the unit roundoff u (Section variable), so the results hold for binary64 (u = 2^-53),
   binary32 (u = 2^-24) and for fused multiply-add kernels (an exact product is a "rounding" with delta = 0). *)
From Coq Require Import Reals Lra Lia List.
Import ListNotations.
Local Open Scope R_scope.

Ltac fsolve := field; repeat split; try (apply Rgt_not_eq; nra); try lra.

Section ROUND.
Variable u : R.
Hypothesis Hu0 : 0 <= u.
Hypothesis Hu1 : u < 1.

(* y is x perturbed by one relative error not exceeding u *)
Definition fl_eq (x y : R) : Prop := exists d, Rabs d <= u /\ y = x * (1 + d).

Lemma fl_eq_exact x : fl_eq x x.
Proof. exists 0. split; [rewrite Rabs_R0; lra | ring]. Qed.

(* t = prod_{i<=k} (1+d_i)^{+-1} - 1 with |d_i| <= u *)
Inductive Theta : nat -> R -> Prop :=
| Th0 : Theta 0 0
| ThMul k t d : Theta k t -> Rabs d <= u -> Theta (S k) ((1 + t) * (1 + d) - 1)
| ThDiv k t d : Theta k t -> Rabs d <= u -> Theta (S k) ((1 + t) / (1 + d) - 1)
| ThWeak k t : Theta k t -> Theta (S k) t.

Lemma Rabs_le_inv' x a : Rabs x <= a -> - a <= x <= a.
Proof. unfold Rabs. destruct (Rcase_abs x); lra. Qed.

Lemma one_plus_pos d : Rabs d <= u -> 0 < 1 - u <= 1 + d /\ 1 + d <= 1 + u.
Proof. intros H. apply Rabs_le_inv' in H. lra. Qed.

Lemma pow_pos_1mu k : 0 < (1 - u) ^ k.
Proof. apply pow_lt. lra. Qed.

(* two-sided bound of an accumulated factor *)
Lemma Theta_bounds k t : Theta k t -> (1 - u) ^ k <= 1 + t /\ (1 + t) * (1 - u) ^ k <= 1.
Proof.
  induction 1 as [|k t d H IH Hd|k t d H IH Hd|k t H IH].
  - simpl. lra.
  - destruct IH as [A B]. destruct (one_plus_pos d Hd) as [[P1 P2] P3]. pose proof (pow_pos_1mu k) as Pk.
    replace (1 + ((1 + t) * (1 + d) - 1)) with ((1 + t) * (1 + d)) by ring. simpl. split.
    + apply Rle_trans with ((1 - u) ^ k * (1 + d)); [|apply Rmult_le_compat_r; lra].
      rewrite Rmult_comm. apply Rmult_le_compat_l; lra.
    + assert (0 < 1 + t) by lra.
      assert ((1 + d) * (1 - u) <= 1) by nra.
      replace ((1 + t) * (1 + d) * ((1 - u) * (1 - u) ^ k)) with (((1 + t) * (1 - u) ^ k) * ((1 + d) * (1 - u))) by ring.
      assert (0 <= (1 + t) * (1 - u) ^ k) by (apply Rmult_le_pos; lra).
      assert (0 <= (1 + d) * (1 - u)) by (apply Rmult_le_pos; lra).
      nra.
  - destruct IH as [A B]. destruct (one_plus_pos d Hd) as [[P1 P2] P3]. pose proof (pow_pos_1mu k) as Pk.
    replace (1 + ((1 + t) / (1 + d) - 1)) with ((1 + t) / (1 + d)) by ring. simpl.
    assert (0 < 1 + t) by lra. assert (0 < 1 + d) by lra.
    assert (Hinv : 1 - u <= / (1 + d) /\ / (1 + d) * (1 - u) <= 1).
    { split.
      - apply Rmult_le_reg_r with (1 + d); [lra|]. rewrite Rinv_l by lra. nra.
      - apply Rmult_le_reg_r with (1 + d); [lra|].
        replace (/ (1 + d) * (1 - u) * (1 + d)) with ((1 - u) * (/ (1 + d) * (1 + d))) by ring. rewrite Rinv_l by lra. lra. }
    destruct Hinv as [I1 I2]. assert (0 < / (1 + d)) by (apply Rinv_0_lt_compat; lra).
    unfold Rdiv. split.
    + apply Rle_trans with ((1 - u) ^ k * / (1 + d)); [|apply Rmult_le_compat_r; lra].
      rewrite Rmult_comm. apply Rmult_le_compat_l; lra.
    + replace ((1 + t) * / (1 + d) * ((1 - u) * (1 - u) ^ k)) with (((1 + t) * (1 - u) ^ k) * (/ (1 + d) * (1 - u))) by ring.
      assert (0 <= (1 + t) * (1 - u) ^ k) by (apply Rmult_le_pos; lra).
      assert (0 <= / (1 + d) * (1 - u)) by (apply Rmult_le_pos; lra).
      nra.
  - destruct IH as [A B]. pose proof (pow_pos_1mu k) as Pk. simpl. assert (0 < 1 + t) by lra. split; nra.
Qed.

Lemma Theta_pos k t : Theta k t -> 0 < 1 + t.
Proof. intros H. destruct (Theta_bounds k t H). pose proof (pow_pos_1mu k). lra. Qed.

Lemma Theta_weaken k t : Theta k t -> forall m, (k <= m)%nat -> Theta m t.
Proof. intros H m Hm. induction Hm; auto. now apply ThWeak. Qed.

Lemma Theta_mul j a : Theta j a -> forall k b, Theta k b -> Theta (j + k) ((1 + a) * (1 + b) - 1).
Proof.
  intros Ha k b Hb. induction Hb as [|k t d H IH Hd|k t d H IH Hd|k t H IH].
  - rewrite Nat.add_0_r. replace ((1 + a) * (1 + 0) - 1) with a by ring. exact Ha.
  - rewrite Nat.add_succ_r.
    replace ((1 + a) * (1 + ((1 + t) * (1 + d) - 1)) - 1) with ((1 + ((1 + a) * (1 + t) - 1)) * (1 + d) - 1) by ring.
    now apply ThMul.
  - rewrite Nat.add_succ_r. destruct (one_plus_pos d Hd) as [[P1 P2] P3].
    replace ((1 + a) * (1 + ((1 + t) / (1 + d) - 1)) - 1) with ((1 + ((1 + a) * (1 + t) - 1)) / (1 + d) - 1) by fsolve.
    now apply ThDiv.
  - rewrite Nat.add_succ_r. now apply ThWeak.
Qed.

Lemma Theta_inv k t : Theta k t -> Theta k (/ (1 + t) - 1).
Proof.
  induction 1 as [|k t d H IH Hd|k t d H IH Hd|k t H IH].
  - replace (/ (1 + 0) - 1) with 0 by (field). constructor.
  - pose proof (Theta_pos _ _ H). destruct (one_plus_pos d Hd) as [[P1 P2] P3].
    replace (/ (1 + ((1 + t) * (1 + d) - 1)) - 1) with ((1 + (/ (1 + t) - 1)) / (1 + d) - 1) by fsolve.
    now apply ThDiv.
  - pose proof (Theta_pos _ _ H). destruct (one_plus_pos d Hd) as [[P1 P2] P3].
    replace (/ (1 + ((1 + t) / (1 + d) - 1)) - 1) with ((1 + (/ (1 + t) - 1)) * (1 + d) - 1) by fsolve.
    now apply ThMul.
  - now apply ThWeak.
Qed.

Lemma Theta_div j a k b : Theta j a -> Theta k b -> Theta (j + k) ((1 + a) / (1 + b) - 1).
Proof.
  intros Ha Hb. pose proof (Theta_inv _ _ Hb) as Hi. pose proof (Theta_pos _ _ Hb).
  replace ((1 + a) / (1 + b) - 1) with ((1 + a) * (1 + (/ (1 + b) - 1)) - 1) by fsolve.
  now apply Theta_mul.
Qed.

Lemma Theta_of_fl x y : fl_eq x y -> exists t, Theta 1 t /\ y = x * (1 + t).
Proof.
  intros (d & Hd & E). exists ((1 + 0) * (1 + d) - 1). split; [apply ThMul; [constructor | exact Hd]|]. rewrite E. ring.
Qed.

(* gamma_k = k u / (1 - k u) *)
Definition gamma (k : nat) : R := INR k * u / (1 - INR k * u).

Lemma bernoulli k : 1 - INR k * u <= (1 - u) ^ k.
Proof.
  induction k as [|k IH].
  - simpl. lra.
  - rewrite S_INR. simpl. pose proof (pow_pos_1mu k). pose proof (pos_INR k).
    assert (0 <= INR k * u) by (apply Rmult_le_pos; lra).
    destruct (Rle_dec (1 - INR k * u) 0) as [Hneg|Hpos]; [nra|].
    assert ((1 - u) * (1 - INR k * u) <= (1 - u) * (1 - u) ^ k) by (apply Rmult_le_compat_l; lra).
    nra.
Qed.

Lemma gamma_nonneg k : INR k * u < 1 -> 0 <= gamma k.
Proof.
  intros H. unfold gamma. pose proof (pos_INR k).
  apply Rmult_le_pos; [apply Rmult_le_pos; lra | left; apply Rinv_0_lt_compat; lra].
Qed.

Lemma gamma_mono j k : (j <= k)%nat -> INR k * u < 1 -> gamma j <= gamma k.
Proof.
  intros Hjk Hk. unfold gamma. apply le_INR in Hjk. pose proof (pos_INR j).
  assert (INR j * u <= INR k * u) by (apply Rmult_le_compat_r; lra).
  assert (0 <= INR j * u) by (apply Rmult_le_pos; lra).
  set (a := INR j * u) in *. set (b := INR k * u) in *.
  apply Rmult_le_reg_r with ((1 - a) * (1 - b)); [nra|].
  replace (a / (1 - a) * ((1 - a) * (1 - b))) with (a * (1 - b)) by (field; lra).
  replace (b / (1 - b) * ((1 - a) * (1 - b))) with (b * (1 - a)) by (field; lra). nra.
Qed.

Theorem Theta_gamma k t : Theta k t -> INR k * u < 1 -> Rabs t <= gamma k.
Proof.
  intros H Hk. destruct (Theta_bounds k t H) as [A B]. pose proof (bernoulli k) as Bk. pose proof (pow_pos_1mu k) as Pk.
  pose proof (pos_INR k). assert (0 <= INR k * u) by (apply Rmult_le_pos; lra).
  assert (G : gamma k = / (1 - INR k * u) - 1) by (unfold gamma; field; lra).
  assert (Hinv : 0 < / (1 - INR k * u)) by (apply Rinv_0_lt_compat; lra).
  assert (Hup : 1 + t <= / (1 - INR k * u)).
  { apply Rmult_le_reg_r with (1 - INR k * u); [lra|]. rewrite Rinv_l by lra.
    assert (0 < 1 + t) by lra.
    apply Rle_trans with ((1 + t) * (1 - u) ^ k); [apply Rmult_le_compat_l; lra | exact B]. }
  assert (Hlow : 1 - INR k * u <= 1 + t) by lra.
  assert (INR k * u <= gamma k).
  { rewrite G. assert (1 <= / (1 - INR k * u) * (1 - INR k * u)) by (rewrite Rinv_l; lra). nra. }
  apply Rabs_le. lra.
Qed.
End ROUND.
