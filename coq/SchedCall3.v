(* SchedCall3.v -- one scheduler call, assembled: LCall preserves the invariant *)
From Coq Require Import ZArith List Bool Lia.
From SLU Require Import Consts SchedModel SchedBase SchedInv SchedSteps SchedCall1 SchedCall2.
Import ListNotations.
Local Open Scope Z_scope.

Lemma thr_upd_nat_twice l i v w : thr_upd_nat (thr_upd_nat l i v) i w = thr_upd_nat l i w.
Proof. revert i; induction l as [|h t IH]; intros [|i]; simpl; auto. now rewrite IH. Qed.

Lemma thr_upd_twice l t v w : thr_upd (thr_upd l t v) t w = thr_upd l t w.
Proof. unfold thr_upd. destruct (t <? 0); auto using thr_upd_nat_twice. Qed.

Lemma thr_upd_nat_same l i d : (i < length l)%nat -> thr_upd_nat l i (nth i l d) = l.
Proof. revert i; induction l as [|h t IH]; intros [|i] H; simpl in *; auto; try lia. f_equal. apply IH. lia. Qed.

Lemma thr_upd_same l t : 0 <= t < tlen l -> thr_upd l t (thr_get l t) = l.
Proof.
  unfold thr_upd, thr_get, tlen. intros H. destruct (t <? 0) eqn:E; [lia|]. apply thr_upd_nat_same. lia.
Qed.

(* a thread that holds nothing may change between the non-working modes TEST/READY *)
Lemma inv_idle_mode s th t m m' :
  Inv (mkG s th) -> 0 <= t < tlen th -> thr_get th t = (m, c_EMPTY) ->
  (m' = M_TEST \/ m' = M_READY) -> Inv (mkG s (thr_upd th t (m', c_EMPTY))).
Proof.
  intros HI Ht Hget Hm'. use_inv HI.
  set (th' := thr_upd th t (m', c_EMPTY)).
  assert (Hg : forall t0, thr_get th' t0 = if t0 =? t then (m', c_EMPTY) else thr_get th t0).
  { intros t0. unfold th'. now rewrite thr_get_upd. }
  assert (Hs : forall t0, snd (thr_get th' t0) = snd (thr_get th t0)).
  { intros t0. rewrite Hg. destruct (t0 =? t) eqn:E; auto. apply Z.eqb_eq in E. subst. now rewrite Hget. }
  assert (Hh : forall p, heldb th' p = heldb th p).
  { intros p. destruct (heldb th p) eqn:E.
    - apply heldb_iff in E. destruct E as (t0 & H0 & E). apply heldb_iff. exists t0. unfold th'. rewrite tlen_upd. split; auto. fold th'. now rewrite Hs.
    - rewrite heldb_false_iff in *. intros t0 H0. rewrite Hs. apply E. unfold th' in H0. now rewrite tlen_upd in H0. }
  constructor; inv_unf; auto.
  - destruct ITHREADS as (A & B & C). split; [|split].
    + intros t0 H0. unfold th' in H0. rewrite tlen_upd in H0. rewrite Hg. destruct (t0 =? t); [|now apply A].
      split; [destruct Hm' as [-> | ->]; cs; lia|]. split; [destruct Hm' as [-> | ->]; cs; lia|]. intros _. now left.
    + intros t1 t2 H1 H2 Hne. unfold th' in H1, H2. rewrite tlen_upd in H1, H2. rewrite !Hs. now apply B.
    + intros p Lp Bp. destruct (C p Lp Bp) as (t0 & H0 & G). exists t0. unfold th'. rewrite tlen_upd. split; auto. fold th'.
      rewrite Hg. destruct (t0 =? t) eqn:E; auto. apply Z.eqb_eq in E. subst t0. rewrite Hget in G. inversion G.
      apply lead_range in Lp. cs. lia.
  - intros p Hp. rewrite (IUKIDS p Hp). unfold ukspec. apply countb_ext. intros c Hc. f_equal. unfold unrep. now rewrite Hh.
  - destruct IROOT as [R1 R2]. split; auto. intros Hz. destruct (R2 Hz) as (r & t0 & K & H0 & G1 & G2).
    exists r, t0. unfold th'. rewrite tlen_upd. fold th'. rewrite Hs. repeat split; auto; try lia.
    rewrite Hg. destruct (t0 =? t) eqn:E; auto. apply Z.eqb_eq in E. subst t0. rewrite Hget in G1. cbn in G1.
    apply kid_iff in K. destruct K as [L _]. apply lead_range in L. cs. lia.
Qed.

(* result of one LCall step, with the facts the run-level theorems need *)
Definition call_post (s : sstate) (th : list (Z * Z)) (t x : Z) (s' : sstate) (j b : Z) : Prop :=
  Inv (mkG s' (thr_upd th t (if j =? c_EMPTY then M_TEST else M_WORK, j))) /\
  j <> ERR /\ same_static s s' /\
  (j = c_EMPTY -> forall p, untaken s' p = untaken s p) /\
  (j <> c_EMPTY -> lead s j = true /\ untaken s j = true /\ (lead s b = true \/ b = sn s) /\
                   forall p, untaken s' p = if p =? j then false else untaken s p).

Section CALL.
Variable s : sstate.
Variable th : list (Z * Z).
Variables t x : Z.
Hypothesis HI : Inv (mkG s th).
Hypothesis Ht : 0 <= t < tlen th.
Hypothesis Hget : thr_get th t = (M_READY, x).

(* common tail: given the weakened invariant after report (exempt panel not lead), run deq and take *)
Lemma call_tail a th1 :
  InvX (mkG a th1) (-5) -> 0 <= t < tlen th1 -> thr_get th1 t = (M_READY, c_EMPTY) ->
  forall s' j b, (let '(a', j0) := deq (fuel_of a) a in
                  if (j0 =? c_EMPTY) || (j0 =? ERR) then (a', j0, 0)
                  else let '(s2, b0) := sched_take a' j0 in (s2, j0, b0)) = (s', j, b) ->
  Inv (mkG s' (thr_upd th1 t (if j =? c_EMPTY then M_TEST else M_WORK, j))) /\
  j <> ERR /\ same_static a s' /\
  (j = c_EMPTY -> forall p, untaken s' p = untaken a p) /\
  (j <> c_EMPTY -> lead a j = true /\ untaken a j = true /\ (lead a b = true \/ b = sn a) /\
                   forall p, untaken s' p = if p =? j then false else untaken a p).
Proof.
  intros HX Ht1 Hg1 s' j b Hd.
  assert (He0 : lead a (-5) = false) by (unfold lead, inb; cbn; reflexivity).
  destruct (invx_deq a th1 (-5) HX He0) as (h' & j0 & D & HX' & Hj & Rh).
  rewrite D in Hd. set (a' := set_queue a (q a) h' (qtail a) (qtail a - h')) in *.
  assert (FSa : same_static a a') by (repeat split).
  destruct Hj as [-> | (Lj & Sj & Cj & _)].
  - rewrite Z.eqb_refl in Hd. cbn [orb] in Hd. inversion Hd; subst s' j b. rewrite Z.eqb_refl.
    split; [|split; [cs; lia | split; [exact FSa | split; [intros _ p; reflexivity | intros; congruence]]]].
    apply inv_idle_mode with (m := M_READY); auto.
    apply invx_strengthen with (e := c_EMPTY); auto.
  - assert (E1 : j0 =? c_EMPTY = false) by (apply Z.eqb_neq; intros ->; apply lead_range in Lj; cs; lia).
    assert (E2 : j0 =? ERR = false) by (apply Z.eqb_neq; intros ->; apply lead_range in Lj; cs; lia).
    rewrite E1, E2 in Hd. cbn [orb] in Hd.
    destruct (sched_take a' j0) as [s2 b0] eqn:Etk. inversion Hd; subst s' j b. rewrite E1.
    assert (Lj' : lead a' j0 = true) by exact Lj.
    assert (Sj' : c_BUSY < st a' j0) by exact Sj.
    assert (Cj' : st a' j0 <= c_CANPIPE \/ uk a' j0 = 0) by (left; exact Cj).
    destruct (inv_take a' th1 t j0 HX' Ht1 Hg1 Lj' Sj' Cj') as [IT FB].
    rewrite Etk in IT, FB. cbn [fst snd] in IT, FB.
    split; [exact IT|]. split; [apply Z.eqb_neq; exact E2|].
    assert (FS2 : same_static a' s2).
    { pose proof (tk_static a' j0) as X. rewrite Etk in X. exact X. }
    split; [exact (same_static_trans _ _ _ FSa FS2)|]. split; [intros; apply Z.eqb_neq in E1; congruence|].
    intros _. split; [exact Lj|]. split.
    + unfold untaken. rewrite Lj. apply Z.ltb_lt in Sj. now rewrite Sj.
    + split; [exact FB|]. intros p.
      pose proof (tk_untaken a' th1 t j0 HX' Ht1 Lj' Sj' p) as X. rewrite Etk in X. cbn [fst] in X. exact X.
Qed.

Theorem inv_call : forall s' j b, sched s x = (s', j, b) -> call_post s th t x s' j b.
Proof.
  intros s' j b Hs. unfold call_post. unfold sched, sched_choose in Hs.
  destruct (x =? c_EMPTY) eqn:Ex.
  - (* nothing to report *)
    apply Z.eqb_eq in Ex. subst x.
    pose proof (inv_weaken _ (-5) HI) as HX.
    exact (call_tail s th HX Ht Hget s' j b Hs).
  - apply Z.eqb_neq in Ex.
    set (d0 := dadpanel s x) in *. set (du := uk s d0 - 1) in *.
    set (s1 := set_pukids s (updZ (pukids s) d0 du)) in *.
    set (th1 := thr_upd th t (M_READY, c_EMPTY)).
    pose proof (invx_report s th t x HI Ht Hget Ex) as HXr. fold d0 du s1 th1 in HXr.
    assert (Ht1 : 0 <= t < tlen th1) by (unfold th1; now rewrite tlen_upd).
    assert (Hg1 : thr_get th1 t = (M_READY, c_EMPTY)) by (unfold th1; rewrite thr_get_upd by exact Ht; now rewrite Z.eqb_refl).
    assert (Hth : forall v, thr_upd th1 t v = thr_upd th t v) by (intros v; unfold th1; apply thr_upd_twice).
    assert (FS1 : same_static s s1) by (repeat split).
    assert (Hunt : forall p, untaken s1 p = untaken s p) by reflexivity.
    destruct ((du =? 0) && (c_BUSY <? st s1 d0)) eqn:Edad.
    + (* take the parent directly *)
      assert (Hex : rep_exempt s x = d0) by (unfold rep_exempt; fold d0 du; change (st s d0) with (st s1 d0); now rewrite Edad).
      pose proof (rep_d0 s th t x HI Ht Hget Ex) as [Rd0 Kx]. fold d0 in Rd0, Kx.
      pose proof (rep_x s th t x HI Ht Hget Ex) as [Lx0 _]. pose proof (lead_range _ _ Lx0) as [Rx0 _].
      assert (Hne5 : rep_exempt s x <> -5) by (rewrite Hex; lia).
      destruct (rep_exempt_lt s th t x HI Ht Hget Ex Hne5) as (_ & Hdu & Sd & Hdn).
      fold d0 du in Hdu, Sd, Hdn.
      pose proof (rep_x s th t x HI Ht Hget Ex) as [Lx _].
      assert (Ld : lead s d0 = true).
      { pose proof (inv_wf _ HI) as W. cbn [gs] in W. apply (wf_dadlead _ W x Lx). fold d0. lia. }
      assert (E1 : d0 =? c_EMPTY = false) by (apply Z.eqb_neq; apply lead_range in Ld; cs; lia).
      assert (E2 : d0 =? ERR = false) by (apply Z.eqb_neq; apply lead_range in Ld; cs; lia).
      rewrite E1, E2 in Hs. cbn [orb] in Hs.
      destruct (sched_take s1 d0) as [s2 b0] eqn:Etk. inversion Hs; subst s' j b. rewrite E1.
      rewrite Hex in HXr.
      assert (Cj : st s1 d0 <= c_CANPIPE \/ uk s1 d0 = 0).
      { right. rewrite (rep_uk s th t x HI Ht Hget Ex). fold d0. rewrite Z.eqb_refl. exact Hdu. }
      destruct (inv_take s1 th1 t d0 HXr Ht1 Hg1 Ld Sd Cj) as [IT FB].
      rewrite Etk in IT, FB. cbn [fst snd] in IT, FB. rewrite Hth in IT.
      split; [exact IT|]. split; [apply Z.eqb_neq; exact E2|].
      assert (FS2 : same_static s1 s2).
      { pose proof (tk_static s1 d0) as X. rewrite Etk in X. exact X. }
      split; [exact (same_static_trans _ _ _ FS1 FS2)|]. split; [intros; apply Z.eqb_neq in E1; congruence|].
      intros _. split; [exact Ld|]. split.
      * unfold untaken. rewrite Ld. apply Z.ltb_lt in Sd. now rewrite Sd.
      * split; [exact FB|]. intros p.
        pose proof (tk_untaken s1 th1 t d0 HXr Ht1 Ld Sd p) as X. rewrite Etk in X. cbn [fst] in X. rewrite X. now rewrite Hunt.
    + assert (Hex : rep_exempt s x = -5) by (unfold rep_exempt; fold d0 du; change (st s d0) with (st s1 d0); now rewrite Edad).
      rewrite Hex in HXr.
      destruct (call_tail s1 th1 HXr Ht1 Hg1 s' j b Hs) as (A & B & C & D & E).
      rewrite Hth in A. split; [exact A|]. split; [exact B|]. split; [exact (same_static_trans _ _ _ FS1 C)|].
      split; [intros Hj p; rewrite (D Hj p); apply Hunt|].
      intros Hj. destruct (E Hj) as (E1 & E2 & E3 & E4). repeat split; auto.
Qed.
End CALL.
