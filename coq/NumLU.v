(* NumLU.v -- backward error of LU factorization computed in floating point, in any summation order.
   lu_rel is a relational specification of what every left-looking / supernodal / blocked variant computes:
   each u_ij (i <= j) is a rounded sum, in SOME order, of b_ij and the (rounded or fused) products -l_ik u_kj, k < i;
   each l_ij (i > j) is such a sum multiplied by the rounded reciprocal of the pivot u_jj, rounded (SuperLU's CDIV).
   Theorem lu_backward: |B - L U| <= gamma(n) |L||U| componentwise.  B stands for Pr*A*Pc. *)
From Coq Require Import Reals Lra Lia List Permutation.
From SLU Require Import NumBase NumSum.
Import ListNotations.
Local Open Scope R_scope.

Definition bigsum (f : nat -> R) (n : nat) : R := fold_right Rplus 0 (map f (seq 0 n)).

Lemma fold_sum_app l1 l2 : fold_right Rplus 0 (l1 ++ l2) = fold_right Rplus 0 l1 + fold_right Rplus 0 l2.
Proof. induction l1; simpl; lra. Qed.

Lemma bigsum_S f n : bigsum f (S n) = bigsum f n + f n.
Proof. unfold bigsum. rewrite seq_S, map_app, fold_sum_app. simpl. lra. Qed.

Lemma bigsum_ext f g n : (forall k, (k < n)%nat -> f k = g k) -> bigsum f n = bigsum g n.
Proof. induction n as [|n IH]; intros H; [reflexivity|]. rewrite !bigsum_S, IH, H; auto. Qed.

Lemma bigsum_plus f g n : bigsum (fun k => f k + g k) n = bigsum f n + bigsum g n.
Proof. induction n as [|n IH]; [unfold bigsum; simpl; lra|]. rewrite !bigsum_S, IH. lra. Qed.

Lemma bigsum_scal c f n : bigsum (fun k => c * f k) n = c * bigsum f n.
Proof. induction n as [|n IH]; [unfold bigsum; simpl; lra|]. rewrite !bigsum_S, IH. lra. Qed.

Lemma bigsum_abs f n : Rabs (bigsum f n) <= bigsum (fun k => Rabs (f k)) n.
Proof.
  induction n as [|n IH]; [unfold bigsum; simpl; rewrite Rabs_R0; lra|]. rewrite !bigsum_S.
  eapply Rle_trans; [apply Rabs_triang|]. lra.
Qed.

Lemma bigsum_le f g n : (forall k, (k < n)%nat -> f k <= g k) -> bigsum f n <= bigsum g n.
Proof. induction n as [|n IH]; intros H; [unfold bigsum; simpl; lra|]. rewrite !bigsum_S. specialize (H n (Nat.lt_succ_diag_r n)) as Hn. assert (bigsum f n <= bigsum g n) by (apply IH; intros; apply H; lia). lra. Qed.

Lemma bigsum_nonneg f n : (forall k, (k < n)%nat -> 0 <= f k) -> 0 <= bigsum f n.
Proof. intros H. replace 0 with (bigsum (fun _ => 0) n); [now apply bigsum_le|]. induction n; [reflexivity|]. rewrite bigsum_S, IHn; [lra|]. intros; apply H; lia. Qed.

(* terms beyond i vanish *)
Lemma bigsum_trunc f n i : (i < n)%nat -> (forall k, (i < k < n)%nat -> f k = 0) -> bigsum f n = bigsum f i + f i.
Proof.
  intros Hi Hz. induction n as [|n IH]; [lia|].
  destruct (Nat.eq_dec i n) as [->|Hne]; [apply bigsum_S|].
  rewrite bigsum_S, IH by (try lia; intros; apply Hz; lia). rewrite (Hz n) by lia. lra.
Qed.

(* weights follow a permutation of the terms *)
Lemma fold_sum_perm (l l' : list R) : Permutation l l' -> fold_right Rplus 0 l = fold_right Rplus 0 l'.
Proof. induction 1; simpl; lra. Qed.

Lemma combine_perm (M' M : list R) : Permutation M' M -> forall ws : list R, length ws = length M' ->
  exists ws', length ws' = length M /\ Permutation (combine M' ws) (combine M ws').
Proof.
  induction 1 as [|x l l' P IH|x y l|l l' l'' P1 IH1 P2 IH2]; intros ws Hl.
  - destruct ws; simpl in *; try lia. exists []. split; auto.
  - destruct ws as [|w ws]; simpl in *; try lia. destruct (IH ws ltac:(lia)) as (ws' & L' & P').
    exists (w :: ws'). simpl. split; [lia | now constructor].
  - destruct ws as [|w1 [|w2 ws]]; simpl in *; try lia. exists (w2 :: w1 :: ws). simpl. split; [lia | apply perm_swap].
  - destruct (IH1 ws Hl) as (ws1 & L1 & P1'). destruct (IH2 ws1 L1) as (ws2 & L2 & P2').
    exists ws2. split; auto. eapply Permutation_trans; eauto.
Qed.

Lemma map_snd_combine {A B} (l : list A) (l' : list B) : length l = length l' -> map snd (combine l l') = l'.
Proof. revert l'. induction l as [|a l IH]; intros [|b l'] H; simpl in *; try lia; auto. f_equal. apply IH. lia. Qed.

Lemma wsum_perm (P : R -> Prop) M' M ws : Permutation M' M -> length ws = length M' -> Forall P ws ->
  exists ws', length ws' = length M /\ Forall P ws' /\ wsum M' ws = wsum M ws'.
Proof.
  intros Pm Hl Hf. destruct (combine_perm M' M Pm ws Hl) as (ws' & L' & Pc).
  exists ws'. split; auto. split.
  - assert (Ps : Permutation (map snd (combine M' ws)) (map snd (combine M ws'))) by now apply Permutation_map.
    rewrite !map_snd_combine in Ps by lia.
    apply Forall_forall. intros w Hw. rewrite Forall_forall in Hf. apply Hf. eapply Permutation_in; [symmetry; exact Ps | exact Hw].
  - unfold wsum. apply fold_sum_perm. now apply Permutation_map.
Qed.

(* a weighted sum over the terms g 0 .. g (i-1) as a bigsum *)
Lemma wsum_seq (g : nat -> R) ws : forall s i, length ws = i ->
  wsum (map g (seq s i)) ws = fold_right Rplus 0 (map (fun k => g (s + k)%nat * (1 + nth k ws 0)) (seq 0 i)).
Proof.
  unfold wsum. induction ws as [|w ws IH]; intros s i Hl; simpl in Hl; subst i; [reflexivity|].
  cbn [seq map combine fold_right fst snd nth]. rewrite Nat.add_0_r. f_equal.
  rewrite IH by reflexivity. rewrite <- seq_shift, map_map. f_equal. apply map_ext. intros k. now rewrite Nat.add_succ_r.
Qed.

Lemma finite_choice (P : nat -> R -> Prop) m : (forall k, (k < m)%nat -> exists t, P k t) ->
  exists ts, length ts = m /\ forall k, (k < m)%nat -> P k (nth k ts 0).
Proof.
  induction m as [|m IH]; intros H.
  - exists []. split; auto. intros; lia.
  - destruct IH as (ts & Lt & Ht); [intros k Hk; apply H; lia|].
    destruct (H m ltac:(lia)) as (t & Pt).
    exists (ts ++ [t]). split; [rewrite app_length; simpl; lia|].
    intros k Hk. destruct (Nat.eq_dec k m) as [->|Hne].
    + rewrite app_nth2 by lia. rewrite Lt, Nat.sub_diag. exact Pt.
    + rewrite app_nth1 by lia. apply Ht. lia.
Qed.

Section LU.
Variable u : R.
Hypothesis Hu0 : 0 <= u.
Hypothesis Hu1 : u < 1.

Definition mat := nat -> nat -> R.

Record lu_rel (n : nat) (B L U : mat) : Prop := {
  lr_upper : forall i j, (i < n)%nat -> (j < n)%nat -> (i <= j)%nat ->
     exists ps, (forall k, (k < i)%nat -> fl_eq u (L i k * U k j) (ps k)) /\
                fl_sum_any u (B i j :: map (fun k => - ps k) (seq 0 i)) (U i j);
  lr_lower : forall i j, (i < n)%nat -> (j < n)%nat -> (j < i)%nat ->
     exists ps s r, (forall k, (k < j)%nat -> fl_eq u (L i k * U k j) (ps k)) /\
                fl_sum_any u (B i j :: map (fun k => - ps k) (seq 0 j)) s /\
                U j j <> 0 /\ fl_eq u (/ U j j) r /\ fl_eq u (s * r) (L i j);
  lr_unit : forall i, (i < n)%nat -> L i i = 1;
  lr_Lzero : forall i j, (i < j)%nat -> L i j = 0;
  lr_Uzero : forall i j, (j < i)%nat -> U i j = 0
}.

(* common part: a rounded any-order evaluation of b - sum_{k<m} l_k u_k, followed by q further roundings/divisions
   collected in the factor (1+e), is the exact value of a nearby problem *)
Lemma dot_any (b : R) (m : nat) (l v ps : nat -> R) (s : R) :
  (forall k, (k < m)%nat -> fl_eq u (l k * v k) (ps k)) ->
  fl_sum_any u (b :: map (fun k => - ps k) (seq 0 m)) s ->
  exists f (eta : nat -> R), Theta u m f /\ (forall k, (k < m)%nat -> Theta u m (eta k)) /\
     s = (1 + f) * (b - bigsum (fun k => l k * v k * (1 + eta k)) m).
Proof.
  intros Hp Hs.
  destruct (sum_any_distinguished u Hu0 Hu1 _ _ _ Hs) as (f & M' & ws & Pm & Tf & Lw & Fw & Es).
  rewrite map_length, seq_length in Tf, Fw.
  destruct (wsum_perm (Theta u (m - 1)) M' _ ws Pm Lw Fw) as (ws' & L' & F' & Ew).
  rewrite map_length, seq_length in L'.
  (* the rounding of each product *)
  assert (Hprod : forall k, (k < m)%nat -> exists t, Theta u 1 t /\ ps k = l k * v k * (1 + t)).
  { intros k Hk. destruct (Theta_of_fl u _ _ (Hp k Hk)) as (t & Tt & Et). eauto. }
  (* choose eta k := (1+t_k)(1+w_k) - 1 *)
  assert (Heta : forall k, (k < m)%nat -> exists e, Theta u m e /\ ps k * (1 + nth k ws' 0) = l k * v k * (1 + e)).
  { intros k Hk. destruct (Hprod k Hk) as (t & Tt & Et).
    assert (Tw : Theta u (m - 1) (nth k ws' 0)).
    { rewrite Forall_forall in F'. apply F'. apply nth_In. lia. }
    exists ((1 + t) * (1 + nth k ws' 0) - 1). split.
    - apply (Theta_weaken u (1 + (m - 1))); [now apply Theta_mul | lia].
    - rewrite Et. ring. }
  destruct (finite_choice _ m Heta) as (es & Les & Hes).
  exists f, (fun k => nth k es 0). split; auto. split; [intros k Hk; apply (Hes k Hk)|].
  rewrite Es, Ew. f_equal. unfold Rminus. f_equal.
  rewrite (wsum_seq (fun k => - ps k) ws' 0 m L'). unfold bigsum.
  rewrite <- Ropp_involutive. f_equal.
  assert (G : forall (n0 : nat) (a c : nat -> R), (forall k, (k < n0)%nat -> a k = - c k) ->
             fold_right Rplus 0 (map a (seq 0 n0)) = - fold_right Rplus 0 (map c (seq 0 n0))).
  { induction n0 as [|n0 IH0]; intros a c Hac; [simpl; lra|].
    rewrite seq_S, !map_app, !fold_sum_app. simpl. rewrite (IH0 a c) by (intros; apply Hac; lia). rewrite (Hac n0) by lia. lra. }
  rewrite (G m _ (fun k => l k * v k * (1 + nth k es 0))); [lra|].
  intros k Hk. cbn beta. rewrite Nat.add_0_l. destruct (Hes k Hk) as [_ E]. rewrite <- E. ring.
Qed.

(* |B - L U| <= gamma(n) |L||U|, componentwise *)
Theorem lu_backward n B L U : lu_rel n B L U -> INR n * u < 1 ->
  forall i j, (i < n)%nat -> (j < n)%nat ->
    Rabs (B i j - bigsum (fun k => L i k * U k j) n) <= gamma u n * bigsum (fun k => Rabs (L i k) * Rabs (U k j)) n.
Proof.
  intros H Hn i j Hi Hj.
  assert (Gn : 0 <= gamma u n) by (apply gamma_nonneg; auto).
  assert (Hle : forall m, (m <= n)%nat -> INR m * u < 1).
  { intros m Hm. apply le_INR in Hm. pose proof (pos_INR m). assert (INR m * u <= INR n * u) by (apply Rmult_le_compat_r; lra). lra. }
  destruct (le_lt_dec i j) as [Hij|Hji].
  - (* upper part: u_ij *)
    destruct (lr_upper _ _ _ _ H i j Hi Hj Hij) as (ps & Hp & Hs).
    destruct (dot_any (B i j) i (fun k => L i k) (fun k => U k j) ps (U i j) Hp Hs) as (f & eta & Tf & Te & Es).
    pose proof (Theta_pos u Hu0 Hu1 _ _ Tf) as Pf.
    (* the full sums reduce to k <= i *)
    rewrite (bigsum_trunc (fun k => L i k * U k j) n i Hi) by (intros k Hk; rewrite (lr_Lzero _ _ _ _ H i k) by lia; ring).
    rewrite (bigsum_trunc (fun k => Rabs (L i k) * Rabs (U k j)) n i Hi)
      by (intros k Hk; rewrite (lr_Lzero _ _ _ _ H i k) by lia; rewrite Rabs_R0; ring).
    rewrite (lr_unit _ _ _ _ H i Hi), Rabs_R1, !Rmult_1_l.
    (* residual = u_ij (1/(1+f) - 1) + sum l u eta *)
    assert (Er : B i j - (bigsum (fun k => L i k * U k j) i + U i j) =
                 U i j * (/ (1 + f) - 1) + bigsum (fun k => L i k * U k j * eta k) i).
    { assert (E2 : B i j = U i j / (1 + f) + bigsum (fun k => L i k * U k j * (1 + eta k)) i) by (rewrite Es; field; lra).
      rewrite E2. rewrite <- (bigsum_ext (fun k => L i k * U k j + L i k * U k j * eta k) (fun k => L i k * U k j * (1 + eta k))) by (intros; ring).
      rewrite bigsum_plus. unfold Rdiv. ring. }
    rewrite Er.
    pose proof (Theta_gamma u Hu0 Hu1 _ _ (Theta_inv u Hu0 Hu1 _ _ Tf) (Hle i ltac:(lia))) as Bf.
    assert (Gi : gamma u i <= gamma u n) by (apply gamma_mono; auto; lia).
    eapply Rle_trans; [apply Rabs_triang|].
    assert (T1 : Rabs (U i j * (/ (1 + f) - 1)) <= gamma u n * Rabs (U i j)).
    { rewrite Rabs_mult. pose proof (Rabs_pos (U i j)). nra. }
    assert (T2 : Rabs (bigsum (fun k => L i k * U k j * eta k) i) <= gamma u n * bigsum (fun k => Rabs (L i k) * Rabs (U k j)) i).
    { eapply Rle_trans; [apply bigsum_abs|]. rewrite <- bigsum_scal. apply bigsum_le. intros k Hk.
      rewrite !Rabs_mult. pose proof (Theta_gamma u Hu0 Hu1 _ _ (Te k Hk) (Hle i ltac:(lia))).
      pose proof (Rabs_pos (L i k)). pose proof (Rabs_pos (U k j)).
      assert (0 <= Rabs (L i k) * Rabs (U k j)) by (apply Rmult_le_pos; auto). nra. }
    lra.
  - (* lower part: l_ij *)
    destruct (lr_lower _ _ _ _ H i j Hi Hj Hji) as (ps & s & r & Hp & Hs & Hnz & Hr & Hl).
    destruct (dot_any (B i j) j (fun k => L i k) (fun k => U k j) ps s Hp Hs) as (f & eta & Tf & Te & Es).
    destruct (Theta_of_fl u _ _ Hr) as (t1 & T1 & E1). destruct (Theta_of_fl u _ _ Hl) as (t2 & T2 & E2).
    pose proof (Theta_pos u Hu0 Hu1 _ _ Tf) as Pf.
    pose proof (Theta_pos u Hu0 Hu1 _ _ T1) as P1. pose proof (Theta_pos u Hu0 Hu1 _ _ T2) as P2.
    rewrite (bigsum_trunc (fun k => L i k * U k j) n j Hj) by (intros k Hk; rewrite (lr_Uzero _ _ _ _ H k j) by lia; ring).
    rewrite (bigsum_trunc (fun k => Rabs (L i k) * Rabs (U k j)) n j Hj)
      by (intros k Hk; rewrite (lr_Uzero _ _ _ _ H k j) by lia; rewrite Rabs_R0; ring).
    (* l_ij u_jj = s (1+t1)(1+t2), s = (1+f)(b - sum ...) *)
    set (g := (1 + ((1 + f) * (1 + t1) - 1)) * (1 + t2) - 1).
    assert (Tg : Theta u (j + 1 + 1) g) by (unfold g; apply Theta_mul; auto; apply Theta_mul; auto).
    pose proof (Theta_pos u Hu0 Hu1 _ _ Tg) as Pg.
    assert (Elu : L i j * U j j = (1 + g) * (B i j - bigsum (fun k => L i k * U k j * (1 + eta k)) j)).
    { rewrite E2, E1, Es. unfold g. field. exact Hnz. }
    assert (Er : B i j - (bigsum (fun k => L i k * U k j) j + L i j * U j j) =
                 L i j * U j j * (/ (1 + g) - 1) + bigsum (fun k => L i k * U k j * eta k) j).
    { assert (E3 : B i j = L i j * U j j / (1 + g) + bigsum (fun k => L i k * U k j * (1 + eta k)) j) by (rewrite Elu; field; lra).
      rewrite E3 at 1. rewrite <- (bigsum_ext (fun k => L i k * U k j + L i k * U k j * eta k) (fun k => L i k * U k j * (1 + eta k))) by (intros; ring).
      rewrite bigsum_plus. unfold Rdiv. ring. }
    rewrite Er.
    assert (Hj2 : (j + 1 + 1 <= n)%nat) by lia.
    pose proof (Theta_gamma u Hu0 Hu1 _ _ (Theta_inv u Hu0 Hu1 _ _ Tg) (Hle _ Hj2)) as Bg.
    assert (Gj2 : gamma u (j + 1 + 1) <= gamma u n) by (apply gamma_mono; auto).
    eapply Rle_trans; [apply Rabs_triang|].
    assert (T1' : Rabs (L i j * U j j * (/ (1 + g) - 1)) <= gamma u n * (Rabs (L i j) * Rabs (U j j))).
    { rewrite !Rabs_mult. pose proof (Rabs_pos (L i j)). pose proof (Rabs_pos (U j j)).
      assert (0 <= Rabs (L i j) * Rabs (U j j)) by (apply Rmult_le_pos; auto). nra. }
    assert (T2' : Rabs (bigsum (fun k => L i k * U k j * eta k) j) <= gamma u n * bigsum (fun k => Rabs (L i k) * Rabs (U k j)) j).
    { eapply Rle_trans; [apply bigsum_abs|]. rewrite <- bigsum_scal. apply bigsum_le. intros k Hk.
      rewrite !Rabs_mult. pose proof (Theta_gamma u Hu0 Hu1 _ _ (Te k Hk) (Hle j ltac:(lia))).
      assert (gamma u j <= gamma u n) by (apply gamma_mono; auto; lia).
      pose proof (Rabs_pos (L i k)). pose proof (Rabs_pos (U k j)).
      assert (0 <= Rabs (L i k) * Rabs (U k j)) by (apply Rmult_le_pos; auto). nra. }
    lra.
Qed.
End LU.

(* ---------------- the relation is inhabited ---------------- *)
Section INHABITED.
Variable u : R.
Hypothesis Hu0 : 0 <= u.

(* left-to-right summation with any rounding function satisfying the standard model is an instance of fl_sum_any *)
Fixpoint lr_tree (acc : tree) (xs : list R) : tree := match xs with [] => acc | x :: r => lr_tree (Node acc (Leaf x)) r end.
Fixpoint lr_sum (rnd : R -> R) (acc : R) (xs : list R) : R := match xs with [] => acc | x :: r => lr_sum rnd (rnd (acc + x)) r end.

Lemma lr_sum_eval rnd : (forall x, fl_eq u x (rnd x)) -> forall xs t a, fl_eval u t a -> fl_eval u (lr_tree t xs) (lr_sum rnd a xs).
Proof.
  intros Hr. induction xs as [|x r IH]; intros t a Ht; simpl; auto.
  apply IH. econstructor; [exact Ht | constructor | apply Hr].
Qed.

Lemma lr_tree_leaves xs : forall t, leaves (lr_tree t xs) = leaves t ++ xs.
Proof. induction xs as [|x r IH]; intros t; simpl; [now rewrite app_nil_r|]. rewrite IH. simpl. now rewrite <- app_assoc. Qed.

Theorem lr_sum_any rnd : (forall x, fl_eq u x (rnd x)) -> forall c xs, fl_sum_any u (c :: xs) (lr_sum rnd c xs).
Proof.
  intros Hr c xs. exists (lr_tree (Leaf c) xs). split.
  - rewrite lr_tree_leaves. reflexivity.
  - apply lr_sum_eval; auto. constructor.
Qed.

(* exact factors are related to their product: B = [[4,3],[6,3]], L = [[1,0],[3/2,1]], U = [[4,3],[0,-3/2]] *)
Definition exB : mat := fun i j => match i, j with 0%nat, 0%nat => 4 | 0%nat, 1%nat => 3 | 1%nat, 0%nat => 6 | 1%nat, 1%nat => 3 | _, _ => 0 end.
Definition exL : mat := fun i j => match i, j with 0%nat, 0%nat => 1 | 1%nat, 0%nat => 3/2 | 1%nat, 1%nat => 1 | _, _ => if Nat.eqb i j then 1 else 0 end.
Definition exU : mat := fun i j => match i, j with 0%nat, 0%nat => 4 | 0%nat, 1%nat => 3 | 1%nat, 1%nat => -3/2 | _, _ => 0 end.

Example lu_rel_example : lu_rel u 2 exB exL exU.
Proof.
  constructor.
  - intros i j Hi Hj Hij. exists (fun k => exL i k * exU k j). split; [intros; apply fl_eq_exact; auto|].
    destruct i as [|[|i]]; destruct j as [|[|j]]; try lia.
    + exists (Leaf 4). split; [reflexivity | constructor].
    + exists (Leaf 3). split; [reflexivity | constructor].
    + exists (Node (Leaf 3) (Leaf (- (3 / 2 * 3)))). split; [reflexivity|].
      econstructor; [constructor | constructor |]. cbn. replace (-3/2) with (3 + - (3 / 2 * 3)) by lra. now apply fl_eq_exact.
  - intros i j Hi Hj Hji. destruct i as [|[|i]]; destruct j as [|[|j]]; try lia.
    exists (fun k => exL 1%nat k * exU k 0%nat), 6, (/ 4). split; [intros; lia|]. split.
    + exists (Leaf 6). split; [reflexivity | constructor].
    + split; [cbn; lra|]. split; [cbn; now apply fl_eq_exact|]. cbn. replace (3/2) with (6 * / 4) by lra. now apply fl_eq_exact.
  - intros i Hi. destruct i as [|[|i]]; try lia; reflexivity.
  - intros i j Hij. destruct i as [|[|i]]; destruct j as [|[|j]]; try lia; cbn; auto.
    destruct (Nat.eqb_spec i j); [lia | reflexivity].
  - intros i j Hji. destruct i as [|[|i]]; destruct j as [|[|j]]; try lia; reflexivity.
Qed.
End INHABITED.
