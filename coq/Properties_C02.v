(* Properties_C02.v -- property theorems for C02.  Only statements closed by `exact`, and Print Assumptions. *)
From Coq Require Import ZArith List.
From SLU Require Import PivotModel PivotProofs.
Import ListNotations.
Local Open Scope Z_scope.

(* the chosen pivot is a real candidate, is nonzero and meets the threshold (magnitudes scaled to integers) *)
Theorem c02_pivot_threshold : forall c usepr oldrow diagind thr, nonneg c ->
  let r := pivotL c usepr oldrow diagind thr in
  pr_singular r = false -> thr <= maxmag c ->
  (pr_ptr r < length c)%nat /\ thr <= mag_at c (pr_ptr r) /\ 0 < mag_at c (pr_ptr r).
Proof. exact piv_threshold. Qed.
Print Assumptions c02_pivot_threshold.

(* every multiplier obeys |x_i| / |x_p| <= 1/u when thresh = u * pivmax, 0 < u = un/ud <= 1 *)
Theorem c02_multiplier_bound : forall c usepr oldrow diagind thr, nonneg c -> forall un ud,
  let r := pivotL c usepr oldrow diagind thr in
  pr_singular r = false -> 0 < un -> 0 < ud -> thr * ud = un * maxmag c -> un <= ud ->
  forall x, In x c -> un * snd x <= ud * mag_at c (pr_ptr r).
Proof. exact piv_multiplier_bound. Qed.
Print Assumptions c02_multiplier_bound.

(* unless reuse of a caller-supplied row order was requested, the diagonal entry is the pivot whenever it is nonzero
   and meets the threshold *)
Theorem c02_prefers_diagonal : forall c usepr oldrow diagind thr d,
  let r := pivotL c usepr oldrow diagind thr in
  usepr = false -> NoDup (map fst c) -> pr_singular r = false ->
  (d < length c)%nat -> row_at c d = diagind -> mag_at c d <> 0 -> thr <= mag_at c d ->
  pr_ptr r = d /\ pr_row r = diagind /\ pr_usepr r = false.
Proof. exact piv_prefers_diagonal. Qed.
Print Assumptions c02_prefers_diagonal.

(* a column is reported singular exactly when all its candidates are exactly zero *)
Theorem c02_singular_iff_all_zero : forall c usepr oldrow diagind thr,
  pr_singular (pivotL c usepr oldrow diagind thr) = true <-> maxmag c = 0.
Proof. exact piv_singular_iff. Qed.
Print Assumptions c02_singular_iff_all_zero.

(* ---- rounding-error part ---- *)
From Coq Require Import Reals.
From SLU Require Import NumBase NumSum NumLU NumFlocq.
Local Open Scope R_scope.

(* Whenever the computed factors are related to B = Pr*A*Pc by the relational LU specification -- every entry a rounded
   evaluation IN ANY SUMMATION ORDER of b_ij minus the (rounded or fused) products, L entries scaled by the rounded
   reciprocal of the pivot -- then |B - L U| <= gamma(n) |L||U| componentwise; any unit roundoff 0 <= u < 1, n u < 1. *)
Theorem c02_lu_backward : forall u, 0 <= u -> u < 1 -> forall n B L U, lu_rel u n B L U -> INR n * u < 1 ->
  forall i j, (i < n)%nat -> (j < n)%nat ->
    Rabs (B i j - bigsum (fun k => L i k * U k j) n) <= gamma u n * bigsum (fun k => Rabs (L i k) * Rabs (U k j)) n.
Proof. exact lu_backward. Qed.
Print Assumptions c02_lu_backward.

(* IEEE round-to-nearest-even with 53 digits (binary64 without over/underflow) is an instance with u = 2^-53 ... *)
Theorem c02_binary64_is_instance : forall x, fl_eq u53 x (rnd53 x).
Proof. exact rnd53_fl_eq. Qed.
Print Assumptions c02_binary64_is_instance.

(* ... and left-to-right accumulation with such a rounding is one of the admitted summation orders *)
Theorem c02_left_to_right_is_instance : forall u rnd, (forall x, fl_eq u x (rnd x)) ->
  forall c xs, fl_sum_any u (c :: xs) (lr_sum rnd c xs).
Proof. exact lr_sum_any. Qed.
Print Assumptions c02_left_to_right_is_instance.

From SLU Require Import NumMult.

(* the STORED multipliers in rounded arithmetic: whether the column is divided by the pivot or scaled by its rounded
   reciprocal, a pivot that passed the threshold test t * |a| <= |p| gives |l| <= (1/t)(1+u) resp. (1/t)(1+u)^2 *)
Theorem c02_multiplier_div_rounded : forall u, 0 <= u -> forall a p t l,
  0 < t -> p <> 0 -> t * Rabs a <= Rabs p -> fl_eq u (a / p) l -> Rabs l <= / t * (1 + u).
Proof. exact multiplier_div. Qed.
Print Assumptions c02_multiplier_div_rounded.

Theorem c02_multiplier_recip_rounded : forall u, 0 <= u -> forall a p t r l,
  0 < t -> p <> 0 -> t * Rabs a <= Rabs p -> fl_eq u (/ p) r -> fl_eq u (a * r) l -> Rabs l <= / t * ((1 + u) * (1 + u)).
Proof. exact multiplier_recip. Qed.
Print Assumptions c02_multiplier_recip_rounded.
