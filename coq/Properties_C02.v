(* Properties_C02.v -- property theorems for C02.  Only statements closed by `exact`, and Print Assumptions. *)
From Coq Require Import ZArith List.
From SLU Require Import PivotModel PivotProofs.
Import ListNotations.
Local Open Scope Z_scope.

(* the chosen pivot is a real candidate, is nonzero and meets the threshold (magnitudes scaled to integers) *)
Theorem c02_pivot_threshold : forall c usepr oldrow diagind thr, nonneg c ->
  let r := pivotL c usepr oldrow diagind thr in
  pr_singular r = false -> thr <= maxmag c ->
  (pr_ptr r < length c)%nat /\ thr <= mag_at c (pr_ptr r) /\ 0 < mag_at c (pr_ptr r).
Proof. exact piv_threshold. Qed.
Print Assumptions c02_pivot_threshold.

(* every multiplier obeys |x_i| / |x_p| <= 1/u when thresh = u * pivmax, 0 < u = un/ud <= 1 *)
Theorem c02_multiplier_bound : forall c usepr oldrow diagind thr, nonneg c -> forall un ud,
  let r := pivotL c usepr oldrow diagind thr in
  pr_singular r = false -> 0 < un -> 0 < ud -> thr * ud = un * maxmag c -> un <= ud ->
  forall x, In x c -> un * snd x <= ud * mag_at c (pr_ptr r).
Proof. exact piv_multiplier_bound. Qed.
Print Assumptions c02_multiplier_bound.

(* unless reuse of a caller-supplied row order was requested, the diagonal entry is the pivot whenever it is nonzero
   and meets the threshold *)
Theorem c02_prefers_diagonal : forall c usepr oldrow diagind thr d,
  let r := pivotL c usepr oldrow diagind thr in
  usepr = false -> NoDup (map fst c) -> pr_singular r = false ->
  (d < length c)%nat -> row_at c d = diagind -> mag_at c d <> 0 -> thr <= mag_at c d ->
  pr_ptr r = d /\ pr_row r = diagind /\ pr_usepr r = false.
Proof. exact piv_prefers_diagonal. Qed.
Print Assumptions c02_prefers_diagonal.

(* a column is reported singular exactly when all its candidates are exactly zero *)
Theorem c02_singular_iff_all_zero : forall c usepr oldrow diagind thr,
  pr_singular (pivotL c usepr oldrow diagind thr) = true <-> maxmag c = 0.
Proof. exact piv_singular_iff. Qed.
Print Assumptions c02_singular_iff_all_zero.

(* ---- rounding-error part ---- *)
From Coq Require Import Reals.
From SLU Require Import NumBase NumSum NumLU NumFlocq.
Local Open Scope R_scope.

(* Whenever the computed factors are related to B = Pr*A*Pc by the relational LU specification -- every entry a rounded
   evaluation IN ANY SUMMATION ORDER of b_ij minus the (rounded or fused) products, L entries scaled by the rounded
   reciprocal of the pivot -- then |B - L U| <= gamma(n) |L||U| componentwise; any unit roundoff 0 <= u < 1, n u < 1. *)
Theorem c02_lu_backward : forall u, 0 <= u -> u < 1 -> forall n B L U, lu_rel u n B L U -> INR n * u < 1 ->
  forall i j, (i < n)%nat -> (j < n)%nat ->
    Rabs (B i j - bigsum (fun k => L i k * U k j) n) <= gamma u n * bigsum (fun k => Rabs (L i k) * Rabs (U k j)) n.
Proof. exact lu_backward. Qed.
Print Assumptions c02_lu_backward.

(* IEEE round-to-nearest-even with 53 digits (binary64 without over/underflow) is an instance with u = 2^-53 ... *)
Theorem c02_binary64_is_instance : forall x, fl_eq u53 x (rnd53 x).
Proof. exact rnd53_fl_eq. Qed.
Print Assumptions c02_binary64_is_instance.

(* ... and left-to-right accumulation with such a rounding is one of the admitted summation orders *)
Theorem c02_left_to_right_is_instance : forall u rnd, (forall x, fl_eq u x (rnd x)) ->
  forall c xs, fl_sum_any u (c :: xs) (lr_sum rnd c xs).
Proof. exact lr_sum_any. Qed.
Print Assumptions c02_left_to_right_is_instance.

From SLU Require Import NumMult.

(* the STORED multipliers in rounded arithmetic: whether the column is divided by the pivot or scaled by its rounded
   reciprocal, a pivot that passed the threshold test t * |a| <= |p| gives |l| <= (1/t)(1+u) resp. (1/t)(1+u)^2 *)
Theorem c02_multiplier_div_rounded : forall u, 0 <= u -> forall a p t l,
  0 < t -> p <> 0 -> t * Rabs a <= Rabs p -> fl_eq u (a / p) l -> Rabs l <= / t * (1 + u).
Proof. exact multiplier_div. Qed.
Print Assumptions c02_multiplier_div_rounded.

Theorem c02_multiplier_recip_rounded : forall u, 0 <= u -> forall a p t r l,
  0 < t -> p <> 0 -> t * Rabs a <= Rabs p -> fl_eq u (/ p) r -> fl_eq u (a * r) l -> Rabs l <= / t * ((1 + u) * (1 + u)).
Proof. exact multiplier_recip. Qed.
Print Assumptions c02_multiplier_recip_rounded.

(* ---- the model is what the source says now ---- *)
From SLU Require Import Consts ArgCheckModel PivotGen PivotTie.
Local Open Scope Z_scope.

(* The pivot search and pivot policy of p?gstrf_pivotL, RE-TRANSLATED from the current C source on every run (PivotGen.v, all
   four precisions: src_pivotL p), compute the model's pivotL: c is the candidate list placed at offset nsupc of the supernode,
   row i = lsub_ptr[i], mag i = the magnitude compared for lu_col_ptr[i], usepr = *usepr on entry (YES or NO), oldrow =
   inv_perm_r[jcol], diagind = inv_perm_c[jcol], thr = the value of u * pivmax.  The result lists (returned early, value
   returned, pivptr, *pivrow, *usepr); encres maps the model's result to it (pivptr = nsupc + pr_ptr, YES/NO for pr_usepr,
   jcol + 1 returned exactly in the singular case). *)
Theorem c02_source_pivot_is_model : forall p jcol nsupc nsupr usepr pivrow0 oldrow diagind row mag thr (c : list (Z * Z)),
  0 <= nsupc -> nsupr = nsupc + Z.of_nat (length c) -> usepr = c_YES \/ usepr = c_NO ->
  (forall k, (k < length c)%nat -> row (nsupc + Z.of_nat k) = row_at c k) ->
  (forall k, (k < length c)%nat -> mag (nsupc + Z.of_nat k) = mag_at c k) ->
  src_pivotL p jcol nsupc nsupr usepr pivrow0 oldrow diagind row mag thr
  = encres jcol nsupc (pivotL c (Z.eqb usepr c_YES) oldrow diagind thr).
Proof. exact src_pivot_is_model. Qed.
Print Assumptions c02_source_pivot_is_model.

(* ... field by field *)
Theorem c02_source_pivot_fields : forall p jcol nsupc nsupr usepr pivrow0 oldrow diagind row mag thr (c : list (Z * Z)),
  0 <= nsupc -> nsupr = nsupc + Z.of_nat (length c) -> usepr = c_YES \/ usepr = c_NO ->
  (forall k, (k < length c)%nat -> row (nsupc + Z.of_nat k) = row_at c k) ->
  (forall k, (k < length c)%nat -> mag (nsupc + Z.of_nat k) = mag_at c k) ->
  let g := src_pivotL p jcol nsupc nsupr usepr pivrow0 oldrow diagind row mag thr in
  let r := pivotL c (Z.eqb usepr c_YES) oldrow diagind thr in
  res_returned g = pr_singular r /\
  res_info g = (if pr_singular r then jcol + 1 else 0) /\
  res_ptr g = nsupc + Z.of_nat (pr_ptr r) /\
  res_row g = pr_row r /\
  res_usepr g = (if pr_usepr r then c_YES else c_NO).
Proof. exact src_pivot_fields. Qed.
Print Assumptions c02_source_pivot_fields.

(* c02_singular_iff_all_zero for the source: the early return is taken exactly when all candidates are exactly zero, and it
   returns jcol + 1 *)
Theorem c02_source_singular_iff_all_zero : forall p jcol nsupc nsupr usepr pivrow0 oldrow diagind row mag thr (c : list (Z * Z)),
  0 <= nsupc -> nsupr = nsupc + Z.of_nat (length c) -> usepr = c_YES \/ usepr = c_NO ->
  (forall k, (k < length c)%nat -> row (nsupc + Z.of_nat k) = row_at c k) ->
  (forall k, (k < length c)%nat -> mag (nsupc + Z.of_nat k) = mag_at c k) ->
  let g := src_pivotL p jcol nsupc nsupr usepr pivrow0 oldrow diagind row mag thr in
  (res_returned g = true <-> maxmag c = 0) /\ (res_returned g = true -> res_info g = jcol + 1) /\ (res_returned g = false -> res_info g = 0).
Proof. exact src_singular_iff_all_zero. Qed.
Print Assumptions c02_source_singular_iff_all_zero.

(* c02_pivot_threshold for the source: the subscript the code leaves in pivptr is inside the column, its magnitude is nonzero
   and meets the threshold *)
Theorem c02_source_pivot_threshold : forall p jcol nsupc nsupr usepr pivrow0 oldrow diagind row mag thr (c : list (Z * Z)),
  0 <= nsupc -> nsupr = nsupc + Z.of_nat (length c) -> usepr = c_YES \/ usepr = c_NO ->
  (forall k, (k < length c)%nat -> row (nsupc + Z.of_nat k) = row_at c k) ->
  (forall k, (k < length c)%nat -> mag (nsupc + Z.of_nat k) = mag_at c k) ->
  PivotProofs.nonneg c -> thr <= maxmag c ->
  let g := src_pivotL p jcol nsupc nsupr usepr pivrow0 oldrow diagind row mag thr in
  res_returned g = false ->
  nsupc <= res_ptr g < nsupr /\ thr <= mag (res_ptr g) /\ 0 < mag (res_ptr g).
Proof. exact src_pivot_threshold. Qed.
Print Assumptions c02_source_pivot_threshold.

(* c02_multiplier_bound for the source: every entry of the column is at most 1/u times the entry at pivptr *)
Theorem c02_source_multiplier_bound : forall p jcol nsupc nsupr usepr pivrow0 oldrow diagind row mag thr (c : list (Z * Z)),
  0 <= nsupc -> nsupr = nsupc + Z.of_nat (length c) -> usepr = c_YES \/ usepr = c_NO ->
  (forall k, (k < length c)%nat -> row (nsupc + Z.of_nat k) = row_at c k) ->
  (forall k, (k < length c)%nat -> mag (nsupc + Z.of_nat k) = mag_at c k) ->
  PivotProofs.nonneg c -> forall un ud, 0 < un -> 0 < ud -> thr * ud = un * maxmag c -> un <= ud ->
  let g := src_pivotL p jcol nsupc nsupr usepr pivrow0 oldrow diagind row mag thr in
  res_returned g = false ->
  forall i, nsupc <= i < nsupr -> un * mag i <= ud * mag (res_ptr g).
Proof. exact src_multiplier_bound. Qed.
Print Assumptions c02_source_multiplier_bound.
