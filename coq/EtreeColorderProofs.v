(* EtreeColorderProofs.v -- sp_colorder (refact = NO): for every bijection perm_c the output perm_c is the
   bijection post o perm_c, column perm_c_out[j] of AC is column j of A, the reported etree is the
   renumbering by post of the etree computed for A*Pc_in, it is a forest with j < parent j <= n and every
   subtree is a contiguous index range ending at its root.  Non-symmetric mode: total correctness for every
   well-formed CSC pattern; symmetric mode: the same conclusions for every run of the model that does
   not hit an out-of-range access inside at_plus_a (partial: totality of at_plus_a is not proved). *)
From Coq Require Import ZArith List Bool Lia Permutation.
From SLU Require Import EtreeModel EtreeArrProofs EtreePermProofs EtreeUFProofs EtreePostProofs.
Import ListNotations.
Local Open Scope Z_scope.

(* CSC pattern of an m x n matrix: n+1 column pointers, stored row indices in 0..m-1 *)
Definition wf_csc (m n : Z) (colptr rowind : list Z) : Prop :=
  alen colptr = n + 1 /\
  forall j, 0 <= j < n -> exists s e, aget colptr j = Some s /\ aget colptr (j + 1) = Some e /\
    forall p, s <= p < e -> exists r, aget rowind p = Some r /\ 0 <= r < m.

(* the part of sp_colorder after the etree of A*Pc has been computed *)
Definition colorder_tail (n : Z) (colbeg colend perm_c etree iwork : list Z)
  : option (list Z * list Z * list Z * list Z) :=
  post <- tree_postorder n etree ;;
  invp <- scatter n post (zrange 0 n) 0 (mk n c_uninit) ;;
  iwork <- ofold (fun iw i => pi <- aget post i ;; e <- aget etree i ;; pe <- aget post e ;; aset iw pi pe)
                 (zrange 0 n) iwork ;;
  etree <- copy_n n iwork etree ;;
  iwork <- scatter n post colbeg 0 iwork ;;
  colbeg <- copy_n n iwork colbeg ;;
  iwork <- scatter n post colend 0 iwork ;;
  colend <- copy_n n iwork colend ;;
  iwork <- ofold (fun iw i => pc <- aget perm_c i ;; v <- aget post pc ;; aset iw i v) (zrange 0 n) iwork ;;
  perm_c <- copy_n n iwork perm_c ;;
  invp <- scatter n perm_c (zrange 0 n) 0 invp ;;
  iperm <- copy_n n (zrange 0 n) post ;;
  Some (colbeg, colend, perm_c, etree).

Lemma colorder_unfold : forall sym m n colptr rowind perm_c,
  colorder sym m n colptr rowind perm_c =
  (colbeg <- scatter n perm_c colptr 0 (mk n c_uninit) ;;
   colend <- scatter n perm_c colptr 1 (mk n c_uninit) ;;
   '(etree, iwork) <-
     (if sym then colorder_symetree n colptr rowind perm_c (mk (n + 1) c_uninit)
      else et <- sp_coletree colbeg colend rowind m n ;; Some (et, mk (n + 1) c_uninit)) ;;
   colorder_tail n colbeg colend perm_c etree iwork).
Proof. reflexivity. Qed.

Lemma zrange_src : forall n i, 0 <= i < n -> exists v, aget (zrange 0 n) (i + 0) = Some v.
Proof. intros n i H. exists (0 + (i + 0)). apply aget_zrange. lia. Qed.

Section Tail.
  Variables (n : Z) (et0 : list Z).
  Hypothesis Hn : 0 <= n.
  Hypothesis Hfor : forest n et0.

  Let post := postv n et0.
  Let ps := pos n et0.

  Lemma post_get : forall x, 0 <= x <= n -> aget post x = Some (ps x).
  Proof. intros. apply postv_get; auto. Qed.
  Lemma post_inj : inj_on n post.
  Proof. apply postv_inj_on; auto. Qed.
  Lemma ps_lt : forall i, 0 <= i < n -> 0 <= ps i < n.
  Proof.
    intros i Hi. destruct post_inj as [Hr _]. destruct (Hr i Hi) as [v [Ev Hv]].
    rewrite post_get in Ev by lia. congruence.
  Qed.
  Lemma ps_inj : forall x y, 0 <= x <= n -> 0 <= y <= n -> ps x = ps y -> x = y.
  Proof. intros. eapply pos_inj; eauto. Qed.
  Lemma et0_get : forall i, 0 <= i < n -> exists e, aget et0 i = Some e /\ i < e <= n.
  Proof. destruct Hfor as [_ H]. auto. Qed.

  Lemma colorder_tail_ok : forall colbeg colend perm_c iwork,
    alen colbeg = n -> alen colend = n -> is_perm n perm_c -> alen iwork = n + 1 ->
    exists colbeg' colend' perm' etree',
      colorder_tail n colbeg colend perm_c et0 iwork = Some (colbeg', colend', perm', etree') /\
      alen colbeg' = n /\ alen colend' = n /\ alen perm' = n /\ alen etree' = n /\
      (forall i, 0 <= i < n -> aget colbeg' (ps i) = aget colbeg i) /\
      (forall i, 0 <= i < n -> aget colend' (ps i) = aget colend i) /\
      (forall i, 0 <= i < n -> exists pc, aget perm_c i = Some pc /\ 0 <= pc < n /\ aget perm' i = Some (ps pc)) /\
      (forall i, 0 <= i < n -> exists e, aget et0 i = Some e /\ i < e <= n /\ aget etree' (ps i) = Some (ps e)).
  Proof.
    intros colbeg colend perm_c iwork Lcb Lce Hperm Liw.
    pose proof (is_perm_inj_on _ _ Hperm) as [Hpr Hpi]. destruct Hperm as [Lpc _].
    destruct Hfor as [Let _].
    unfold colorder_tail. rewrite (tree_postorder_eq n et0 Hn Hfor). fold (postv n et0). fold post.
    assert (Lpost : alen post = n + 1) by (apply postv_len; auto).
    (* invp *)
    destruct (scatter_spec n post (zrange 0 n) 0 (mk n c_uninit) Hn post_inj) as [invp [E1 [Linvp _]]].
    { rewrite alen_mk. lia. } { apply zrange_src. }
    rewrite E1. rewrite alen_mk in Linvp.
    (* renumber etree *)
    destruct (ofold_zrange_inv
      (fun iw i => match aget post i with Some pi => match aget et0 i with Some e => match aget post e with Some pe =>
                     aset iw pi pe | None => None end | None => None end | None => None end)
      (fun m iw => alen iw = n + 1 /\ forall i, 0 <= i < m -> exists e, aget et0 i = Some e /\ aget iw (ps i) = Some (ps e))
      0 n iwork) as [iw1 [E2 [Liw1 Hiw1]]]; auto.
    { split; auto. intros; lia. }
    { intros i iw Hi [Q1 Q2]. destruct (et0_get i Hi) as [e [Ee He]].
      rewrite post_get by lia. rewrite Ee. rewrite post_get by lia.
      pose proof (ps_lt i Hi) as Hps.
      destruct (aset_total iw (ps i) (ps e)) as [iw' Eiw]; [lia|]. exists iw'. split; auto.
      split; [rewrite (aset_len _ _ _ _ Eiw); auto|].
      intros j Hj. rewrite (aget_aset _ _ _ _ (ps j) Eiw).
      destruct (ps j =? ps i) eqn:Ej.
      - apply Z.eqb_eq in Ej. apply ps_inj in Ej; try lia. subst j. exists e. auto.
      - apply Z.eqb_neq in Ej. apply Q2. destruct (Z.eq_dec j i); [subst; congruence|lia]. }
    rewrite E2.
    destruct (copy_n_spec n iw1 et0 Hn) as [et1 [E3 [Let1 [Het1 _]]]]; [lia|lia|]. rewrite E3.
    (* colbeg *)
    destruct (scatter_spec n post colbeg 0 iw1 Hn post_inj) as [iw2 [E4 [Liw2 [Hiw2 _]]]]; [lia| |].
    { intros i Hi. apply aget_range_Some. lia. }
    rewrite E4.
    destruct (copy_n_spec n iw2 colbeg Hn) as [cb1 [E5 [Lcb1 [Hcb1 _]]]]; [lia|lia|]. rewrite E5.
    (* colend *)
    destruct (scatter_spec n post colend 0 iw2 Hn post_inj) as [iw3 [E6 [Liw3 [Hiw3 _]]]]; [lia| |].
    { intros i Hi. apply aget_range_Some. lia. }
    rewrite E6.
    destruct (copy_n_spec n iw3 colend Hn) as [ce1 [E7 [Lce1 [Hce1 _]]]]; [lia|lia|]. rewrite E7.
    (* perm_c *)
    destruct (ofold_zrange_inv
      (fun iw i => match aget perm_c i with Some pc => match aget post pc with Some v => aset iw i v | None => None end | None => None end)
      (fun m iw => alen iw = n + 1 /\ forall i, 0 <= i < m -> exists pc, aget perm_c i = Some pc /\ aget iw i = Some (ps pc))
      0 n iw3) as [iw4 [E8 [Liw4 Hiw4]]]; auto.
    { split; [lia|intros; lia]. }
    { intros i iw Hi [Q1 Q2]. destruct (Hpr i Hi) as [pc [Epc Hpc]]. rewrite Epc. rewrite post_get by lia.
      destruct (aset_total iw i (ps pc)) as [iw' Eiw]; [lia|]. exists iw'. split; auto.
      split; [rewrite (aset_len _ _ _ _ Eiw); auto|].
      intros j Hj. rewrite (aget_aset _ _ _ _ j Eiw). destruct (j =? i) eqn:Ej.
      - apply Z.eqb_eq in Ej. subst j. exists pc. auto.
      - apply Z.eqb_neq in Ej. apply Q2. lia. }
    rewrite E8.
    destruct (copy_n_spec n iw4 perm_c Hn) as [pc1 [E9 [Lpc1 [Hpc1 _]]]]; [lia|lia|]. rewrite E9.
    assert (Hpc1v : forall i, 0 <= i < n -> exists pc, aget perm_c i = Some pc /\ 0 <= pc < n /\ aget pc1 i = Some (ps pc)).
    { intros i Hi. destruct (Hiw4 i Hi) as [pc [Epc Ev]]. destruct (Hpr i Hi) as [pc' [Epc' Hpc']].
      assert (pc' = pc) by congruence. subst pc'. exists pc. split; auto. split; auto. rewrite Hpc1 by lia. auto. }
    assert (Hpc1inj : inj_on n pc1).
    { split.
      - intros i Hi. destruct (Hpc1v i Hi) as [pc [_ [Hpc Ev]]]. exists (ps pc). split; auto. apply ps_lt. lia.
      - intros i j v Hi Hj Ei Ej. destruct (Hpc1v i Hi) as [pci [Epci [Hpci Evi]]]. destruct (Hpc1v j Hj) as [pcj [Epcj [Hpcj Evj]]].
        assert (ps pci = ps pcj) by congruence. apply ps_inj in H; try lia. subst pcj. eapply Hpi; eauto. }
    destruct (scatter_spec n pc1 (zrange 0 n) 0 invp Hn Hpc1inj) as [invp1 [E10 _]]; [lia|apply zrange_src|].
    rewrite E10.
    destruct (copy_n_spec n (zrange 0 n) post Hn) as [iperm [E11 _]]; [rewrite alen_zrange; lia|lia|]. rewrite E11.
    exists cb1, ce1, pc1, et1. split; [reflexivity|].
    split; [lia|]. split; [lia|]. split; [lia|]. split; [lia|]. split; [|split; [|split]].
    - intros i Hi. pose proof (ps_lt i Hi). rewrite Hcb1 by lia. rewrite (Hiw2 i (ps i)); auto.
      + f_equal. lia.
      + apply post_get. lia.
    - intros i Hi. pose proof (ps_lt i Hi). rewrite Hce1 by lia. rewrite (Hiw3 i (ps i)); auto.
      + f_equal. lia.
      + apply post_get. lia.
    - auto.
    - intros i Hi. destruct (et0_get i Hi) as [e [Ee He]]. exists e. split; auto. split; auto.
      pose proof (ps_lt i Hi). rewrite Het1 by lia. destruct (Hiw1 i Hi) as [e' [Ee' Ev]]. congruence.
  Qed.

  (* ---- what the renumbered tree looks like ---- *)
  Variable etree' : list Z.
  Hypothesis Let' : alen etree' = n.
  Hypothesis Hren : forall i, 0 <= i < n -> exists e, aget et0 i = Some e /\ i < e <= n /\ aget etree' (ps i) = Some (ps e).

  Lemma ps_surj : forall j, 0 <= j < n -> exists i, 0 <= i < n /\ ps i = j.
  Proof.
    intros j Hj. destruct (inj_on_surj n post j post_inj Hj) as [i [Hi Ei]].
    exists i. split; auto. rewrite post_get in Ei by lia. congruence.
  Qed.

  Lemma ps_n : ps n = n.
  Proof. apply pos_root; auto. Qed.

  Lemma renumbered_forest : forest n etree'.
  Proof.
    split; auto. intros j Hj. destruct (ps_surj j Hj) as [i [Hi <-]].
    destruct (Hren i Hi) as [e [Ee [He Ev]]]. exists (ps e). split; auto.
    pose proof (pos_parent n et0 Hn Hfor i e Hi Ee). fold ps in H.
    pose proof (pos_range n et0 Hn Hfor e ltac:(lia)). fold ps in H0. lia.
  Qed.

  Lemma anc_iso : forall a b, 0 <= a <= n -> 0 <= b <= n -> (anc et0 a b <-> anc etree' (ps a) (ps b)).
  Proof.
    intros a b Ha Hb. split.
    - intros H. revert Ha Hb. induction H as [a|a p b Ep Hanc IH]; intros Ha Hb; [constructor|].
      assert (Han : 0 <= a < n) by (apply aget_Some_range in Ep; destruct Hfor as [Hl _]; lia).
      destruct (Hren a Han) as [e [Ee [He Ev]]]. assert (e = p) by congruence. subst e.
      econstructor; eauto. apply IH; lia.
    - intros H. remember (ps a) as x eqn:Ex. remember (ps b) as y eqn:Ey.
      revert a b Ha Hb Ex Ey. induction H as [x|x q y Eq Hanc IH]; intros a b Ha Hb Ex Ey.
      + assert (a = b) by (apply ps_inj; auto; congruence). subst. constructor.
      + subst x. assert (Hpa : 0 <= ps a < n) by (apply aget_Some_range in Eq; lia).
        assert (Han : 0 <= a < n).
        { destruct (Z.eq_dec a n) as [->|]; [rewrite ps_n in Hpa; lia|lia]. }
        destruct (Hren a Han) as [e [Ee [He Ev]]]. assert (q = ps e) by congruence. subst q.
        econstructor; eauto. apply (IH e b); auto; lia.
  Qed.

  Lemma renumbered_contiguous : forall b, 0 <= b < n ->
    exists lo, 0 <= lo <= b /\ forall a, 0 <= a < n -> (anc etree' a b <-> lo <= a <= b).
  Proof.
    intros b' Hb'. destruct (ps_surj b' Hb') as [b [Hb <-]].
    destruct (pos_contiguous n et0 Hn Hfor b ltac:(lia)) as [lo [Hlo Hc]]. change (pos n et0) with ps in Hlo, Hc.
    exists lo. split; auto. intros a' Ha'. destruct (ps_surj a' Ha') as [a [Ha <-]].
    rewrite <- (anc_iso a b) by lia. apply Hc. lia.
  Qed.
End Tail.

(* ------------------------------------------------------------------------------------------ *)
(* the statement shared by the two modes *)
Definition colorder_post (n : Z) (colptr perm_c : list Z) (et0 : list Z)
           (out : list Z * list Z * list Z * list Z) : Prop :=
  let '(colbeg, colend, perm_out, etree) := out in
  let post := firstn (Z.to_nat n) (postv n et0) in
  (* post is the postorder computed by TreePostorder for the etree et0 of A*Pc_in, a bijection *)
  tree_postorder n et0 = Some (postv n et0) /\ is_perm n post /\
  (* perm_c_out = post o perm_c_in, a bijection *)
  is_perm n perm_out /\
  (forall j, 0 <= j < n -> exists pj, aget perm_c j = Some pj /\ 0 <= pj < n /\ aget perm_out j = aget post pj) /\
  (* column perm_c_out[j] of AC is column j of A *)
  alen colbeg = n /\ alen colend = n /\
  (forall j, 0 <= j < n -> exists k, aget perm_out j = Some k /\ 0 <= k < n /\
                                      aget colbeg k = aget colptr j /\ aget colend k = aget colptr (j + 1)) /\
  (* the reported etree is et0 renumbered by post: etree[post[i]] = post[et0[i]] (post[n] = n) *)
  (forall i, 0 <= i < n -> exists e pi, aget et0 i = Some e /\ aget post i = Some pi /\
       aget etree pi = (if e =? n then Some n else aget post e)) /\
  (* j < parent j <= n *)
  forest n etree /\
  (* every subtree occupies a contiguous index range ending at its root *)
  (forall b, 0 <= b < n -> exists lo, 0 <= lo <= b /\ forall a, 0 <= a < n -> (anc etree a b <-> lo <= a <= b)).

Lemma colorder_from_tail : forall n colptr perm_c et0 colbeg colend iwork,
  0 <= n -> alen colptr = n + 1 -> is_perm n perm_c -> forest n et0 -> alen iwork = n + 1 ->
  alen colbeg = n -> alen colend = n ->
  (forall i k, 0 <= i < n -> aget perm_c i = Some k -> aget colbeg k = aget colptr (i + 0)) ->
  (forall i k, 0 <= i < n -> aget perm_c i = Some k -> aget colend k = aget colptr (i + 1)) ->
  exists out, colorder_tail n colbeg colend perm_c et0 iwork = Some out /\ colorder_post n colptr perm_c et0 out.
Proof.
  intros n colptr perm_c et0 colbeg colend iwork Hn Lcp Hperm Hfor Liw Lcb Lce Hcb Hce.
  destruct (colorder_tail_ok n et0 Hn Hfor colbeg colend perm_c iwork Lcb Lce Hperm Liw)
    as [cb' [ce' [perm' [et' [E [L1 [L2 [L3 [L4 [Hcb' [Hce' [Hp' Het']]]]]]]]]]]].
  exists (cb', ce', perm', et'). split; auto. unfold colorder_post.
  set (ps := pos n et0) in *.
  assert (Hpostn : forall x, 0 <= x < n -> aget (firstn (Z.to_nat n) (postv n et0)) x = Some (ps x)).
  { intros x Hx. rewrite aget_firstn by lia. apply postv_get; auto. lia. }
  pose proof (is_perm_inj_on _ _ Hperm) as [Hpr Hpi].
  split; [apply tree_postorder_eq; auto|].
  split; [apply inj_on_is_perm_firstn; auto; apply postv_inj_on; auto|].
  split.
  { apply inj_on_is_perm; auto. split.
    - intros i Hi. destruct (Hp' i Hi) as [pc [Epc [Hpc Ev]]]. exists (ps pc). split; auto.
      apply (ps_lt n et0 Hn Hfor). auto.
    - intros i j v Hi Hj Ei Ej. destruct (Hp' i Hi) as [pci [Epci [Hpci Evi]]]. destruct (Hp' j Hj) as [pcj [Epcj [Hpcj Evj]]].
      assert (Heq : ps pci = ps pcj) by congruence. apply (ps_inj n et0 Hn Hfor) in Heq; try lia. subst pcj. eapply Hpi; eauto. }
  split.
  { intros j Hj. destruct (Hp' j Hj) as [pc [Epc [Hpc Ev]]]. exists pc. split; auto. split; auto. rewrite Hpostn by lia. auto. }
  split; auto. split; auto. split.
  { intros j Hj. destruct (Hp' j Hj) as [pc [Epc [Hpc Ev]]]. exists (ps pc). split; auto.
    split; [apply (ps_lt n et0 Hn Hfor); auto|]. split.
    - rewrite Hcb' by lia. rewrite (Hcb j pc Hj Epc). f_equal. lia.
    - rewrite Hce' by lia. apply (Hce j pc Hj Epc). }
  split.
  { intros i Hi. destruct (Het' i Hi) as [e [Ee [He Ev]]]. exists e, (ps i). split; auto. split; [apply Hpostn; lia|].
    rewrite Ev. destruct (e =? n) eqn:Een.
    - apply Z.eqb_eq in Een. subst e. f_equal. apply pos_root; auto.
    - apply Z.eqb_neq in Een. rewrite Hpostn by lia. reflexivity. }
  split; [apply (renumbered_forest n et0 Hn Hfor et' L4 Het')|].
  apply (renumbered_contiguous n et0 Hn Hfor et' L4 Het').
Qed.

Lemma scatter_colptr : forall n perm_c colptr off,
  0 <= n -> 0 <= off <= 1 -> alen colptr = n + 1 -> is_perm n perm_c ->
  exists d, scatter n perm_c colptr off (mk n c_uninit) = Some d /\ alen d = n /\
            forall i k, 0 <= i < n -> aget perm_c i = Some k -> aget d k = aget colptr (i + off).
Proof.
  intros n perm_c colptr off Hn Hoff Lcp Hperm.
  destruct (scatter_spec n perm_c colptr off (mk n c_uninit) Hn (is_perm_inj_on _ _ Hperm)) as [d [E [L [H _]]]].
  - rewrite alen_mk. lia.
  - intros i Hi. apply aget_range_Some. lia.
  - exists d. split; auto. split; [rewrite L, alen_mk; lia|auto].
Qed.

(* non-symmetric mode: total correctness *)
Theorem colorder_nonsym_ok : forall m n colptr rowind perm_c,
  0 <= m -> 0 <= n -> wf_csc m n colptr rowind -> is_perm n perm_c ->
  exists out et0 colbeg0 colend0,
    colorder false m n colptr rowind perm_c = Some out /\
    (forall i k, 0 <= i < n -> aget perm_c i = Some k ->
                 aget colbeg0 k = aget colptr i /\ aget colend0 k = aget colptr (i + 1)) /\
    wf_pat m n colbeg0 colend0 rowind /\
    sp_coletree colbeg0 colend0 rowind m n = Some et0 /\ forest n et0 /\
    colorder_post n colptr perm_c et0 out.
Proof.
  intros m n colptr rowind perm_c Hm Hn [Lcp Hwf] Hperm.
  rewrite colorder_unfold.
  destruct (scatter_colptr n perm_c colptr 0 Hn ltac:(lia) Lcp Hperm) as [cb0 [E1 [L1 H1]]]. rewrite E1.
  destruct (scatter_colptr n perm_c colptr 1 Hn ltac:(lia) Lcp Hperm) as [ce0 [E2 [L2 H2]]]. rewrite E2.
  assert (Hwfp : wf_pat m n cb0 ce0 rowind).
  { split; auto. split; auto. intros k Hk.
    destruct (is_perm_surj n perm_c k Hperm Hk) as [j [Hj Ej]].
    destruct (Hwf j Hj) as [s [e [Es [Ee Hrows]]]].
    exists s, e. split; [rewrite (H1 j k Hj Ej); rewrite <- Es; f_equal; lia|].
    split; [rewrite (H2 j k Hj Ej); auto|auto]. }
  destruct (sp_coletree_forest m n cb0 ce0 rowind Hm Hn Hwfp) as [et0 [E3 Hfor]]. rewrite E3.
  destruct (colorder_from_tail n colptr perm_c et0 cb0 ce0 (mk (n + 1) c_uninit) Hn Lcp Hperm Hfor) as [out [E4 Hpost]]; auto.
  { rewrite alen_mk. lia. }
  exists out, et0, cb0, ce0. split; auto. split.
  { intros i k Hi Ek. split; [rewrite (H1 i k Hi Ek); f_equal; lia|apply (H2 i k Hi Ek)]. }
  auto.
Qed.

(* symmetric mode: the same conclusions for every run of the model that returns a result
   (at_plus_a is modelled line by line but its totality on well-formed square input is not proved) *)
Lemma colorder_symetree_partial : forall n colptr rowind perm_c iwork et0 iw1,
  0 <= n -> colorder_symetree n colptr rowind perm_c iwork = Some (et0, iw1) ->
  forest n et0 /\ alen iw1 = alen iwork.
Proof.
  intros n colptr rowind perm_c iwork et0 iw1 Hn H. unfold colorder_symetree in H.
  destruct (at_plus_a n (alen rowind) colptr rowind) as [[[bnz bcp] bri]|]; [|discriminate].
  destruct (scatter n perm_c bcp 0 (mk n c_uninit)) as [ccb|]; [|discriminate].
  destruct (scatter n perm_c bcp 1 (mk n c_uninit)) as [cce|]; [|discriminate].
  match type of H with context [ofold ?f ?l ?s0] => destruct (ofold f l s0) as [[br1 iw1']|] eqn:Ef; [|discriminate] end.
  destruct (sp_symetree ccb cce br1 n) as [et|] eqn:Es; [|discriminate].
  match type of H with context [ofold ?f ?l ?s0] => destruct (ofold f l s0) as [rest|]; [|discriminate] end.
  inversion H; subst. split; [eapply sp_symetree_forest_partial; eauto|].
  match type of Ef with ofold ?f ?l ?s0 = _ =>
    apply (ofold_inv_partial f (fun st => alen (snd st) = alen iwork) l s0 (br1, iw1)) in Ef; auto end.
  intros [br iw] j [br' iw'] _ Hl E. cbn [snd] in *.
  destruct (aget ccb j); [|discriminate]. destruct (aget cce j); [|discriminate].
  match type of E with context [ofold ?f ?l ?s0] => destruct (ofold f l s0); [|discriminate] end.
  destruct (aget perm_c j); [|discriminate].
  destruct (aset iw z1 j) eqn:Ea; [|discriminate]. inversion E; subst.
  rewrite (aset_len _ _ _ _ Ea). auto.
Qed.

Theorem colorder_sym_ok_partial : forall m n colptr rowind perm_c out,
  0 <= n -> alen colptr = n + 1 -> is_perm n perm_c ->
  colorder true m n colptr rowind perm_c = Some out ->
  exists et0, forest n et0 /\ colorder_post n colptr perm_c et0 out.
Proof.
  intros m n colptr rowind perm_c out Hn Lcp Hperm H.
  rewrite colorder_unfold in H.
  destruct (scatter_colptr n perm_c colptr 0 Hn ltac:(lia) Lcp Hperm) as [cb0 [E1 [L1 H1]]]. rewrite E1 in H.
  destruct (scatter_colptr n perm_c colptr 1 Hn ltac:(lia) Lcp Hperm) as [ce0 [E2 [L2 H2]]]. rewrite E2 in H.
  destruct (colorder_symetree n colptr rowind perm_c (mk (n + 1) c_uninit)) as [[et0 iw1]|] eqn:Es; [|discriminate].
  destruct (colorder_symetree_partial _ _ _ _ _ _ _ Hn Es) as [Hfor Liw]. rewrite alen_mk in Liw.
  destruct (colorder_from_tail n colptr perm_c et0 cb0 ce0 iw1 Hn Lcp Hperm Hfor) as [out' [E4 Hpost]]; auto; try lia.
  exists et0. split; auto. congruence.
Qed.

(* ------------------------------------------------------------------------------------------ *)
(* non-vacuity: 5 x 5 pattern, non-trivial input ordering, the postorder is not the identity, the forest
   has two roots; the values are those printed by the real sp_colorder for this input *)
Example colorder_ex_wf : wf_csc 5 5 [0; 1; 4; 5; 7; 9] [0; 0; 1; 4; 2; 0; 3; 1; 4] /\ is_perm 5 [4; 3; 1; 2; 0].
Proof.
  split.
  - split; [reflexivity|]. intros j Hj.
    assert (j = 0 \/ j = 1 \/ j = 2 \/ j = 3 \/ j = 4) as [-> | [-> | [-> | [-> | ->]]]] by lia.
    + exists 0, 1. repeat split; try reflexivity. intros p Hp.
      assert (p = 0) as -> by lia; eexists; (split; [reflexivity|lia]).
    + exists 1, 4. repeat split; try reflexivity. intros p Hp.
      assert (p = 1 \/ p = 2 \/ p = 3) as [-> | [-> | ->]] by lia; eexists; (split; [reflexivity|lia]).
    + exists 4, 5. repeat split; try reflexivity. intros p Hp.
      assert (p = 4) as -> by lia; eexists; (split; [reflexivity|lia]).
    + exists 5, 7. repeat split; try reflexivity. intros p Hp.
      assert (p = 5 \/ p = 6) as [-> | ->] by lia; eexists; (split; [reflexivity|lia]).
    + exists 7, 9. repeat split; try reflexivity. intros p Hp.
      assert (p = 7 \/ p = 8) as [-> | ->] by lia; eexists; (split; [reflexivity|lia]).
  - apply check_perm_correct. reflexivity.
Qed.
Example colorder_ex_run :
  colorder false 5 5 [0; 1; 4; 5; 7; 9] [0; 0; 1; 4; 2; 0; 3; 1; 4] [4; 3; 1; 2; 0]
    = Some ([4; 7; 5; 1; 0], [5; 9; 7; 4; 1], [4; 3; 0; 2; 1], [5; 3; 3; 4; 5])
  /\ colorder true 5 5 [0; 1; 4; 5; 7; 9] [0; 0; 1; 4; 2; 0; 3; 1; 4] [4; 3; 1; 2; 0]
    = Some ([4; 5; 7; 1; 0], [5; 7; 9; 4; 1], [4; 3; 0; 1; 2], [5; 4; 3; 4; 5]).
Proof. split; vm_compute; reflexivity. Qed.
