(* LaconProofs.v -- proofs about the model of LaconModel.v (property C12).
   Part 1  termination of the dlacon_ calling loop, any arithmetic, any operator           (generic T)
   Part 2  exact-arithmetic vector lemmas (Q with any implementation of the operations that is == correct)
   Part 3  invariant of the estimator: est is an attained ratio ||M w||_1/||w||_1 (lower bound) and, when the
           operator pair is adjoint, est never drops below the first iterate ||M (e/n)||_1 (upper part)
   Part 4  dlacon_ / dgscon top-level theorems (rcond bounds)
   Part 5  dlangs and the norm selection table of pdgssvx, the info = n+1 rule
   Part 6  dPivotGrowth = min over the leading ncols columns                                (generic T)   *)
Require Import ZArith List Bool Lia QArith Qabs Lqa Qreduction.
From SLU Require Import Consts LaconModel.
Import ListNotations.

(* ================================================================== Part 1 *)
Local Open Scope Z_scope.

Section Termination.
Context {T : Type} (A : Arith T).

Definition rankZ (st : lacon_st (T:=T)) : Z :=
  if jump st =? 2 then 9 else if jump st =? 3 then 12 - 2 * iter st
  else if jump st =? 4 then 11 - 2 * iter st else if jump st =? 5 then 0 else 10.

Definition valid (st : lacon_st (T:=T)) : Prop :=
  (jump st = 3 \/ jump st = 4) -> 2 <= iter st <= 5.

Lemma L120_spec n st io : exists x sg,
  L120 A n st io = (mkSt 5 (iter st) (jj st) (jlast st) (estold st) sg, mkIo (vv io) x (isgn io) (est io) 1).
Proof. unfold L120. destruct (altvec A n 0 n (a1 A)) as [x sg]. eauto. Qed.

Lemma rank_2 st : jump st = 2 -> rankZ st = 9.
Proof. unfold rankZ; intros ->; reflexivity. Qed.
Lemma rank_3 st : jump st = 3 -> rankZ st = 12 - 2 * iter st.
Proof. unfold rankZ; intros ->; reflexivity. Qed.
Lemma rank_4 st : jump st = 4 -> rankZ st = 11 - 2 * iter st.
Proof. unfold rankZ; intros ->; reflexivity. Qed.
Lemma rank_5 st : jump st = 5 -> rankZ st = 0.
Proof. unfold rankZ; intros ->; reflexivity. Qed.
Lemma rank_other st : (jump st =? 2) = false -> (jump st =? 3) = false -> (jump st =? 4) = false ->
  (jump st =? 5) = false -> rankZ st = 10.
Proof. unfold rankZ; intros -> -> -> ->; reflexivity. Qed.
Lemma valid_other st : jump st <> 3 -> jump st <> 4 -> valid st.
Proof. unfold valid; intros ? ? [?|?]; contradiction. Qed.
Lemma valid_iter st : 2 <= iter st <= 5 -> valid st.
Proof. unfold valid; auto. Qed.

Ltac prj := cbn [jump iter jj jlast estold altsgn vv xx isgn est kase].

Lemma step_rank n st io st' io' :
  kase io <> 0 -> valid st -> lacon_step A n st io = (st', io') ->
  kase io' = 0 \/ (kase io' <> 0 /\ valid st' /\ 0 <= rankZ st' < rankZ st).
Proof.
  intros Hk Hv. unfold lacon_step.
  destruct (kase io =? 0) eqn:E0; [apply Z.eqb_eq in E0; contradiction|].
  destruct (jump st =? 2) eqn:E2.
  { unfold L50; prj. intros H; inversion H; subst; clear H. right; prj.
    apply Z.eqb_eq in E2. rewrite (rank_2 st E2), rank_3 by reflexivity. prj.
    split; [discriminate|]. split; [apply valid_iter; prj; lia|lia]. }
  destruct (jump st =? 3) eqn:E3.
  { apply Z.eqb_eq in E3. assert (Hi : 2 <= iter st <= 5) by (apply Hv; auto).
    rewrite (rank_3 st E3).
    set (st1 := mkSt _ _ _ _ _ _). set (io1 := mkIo _ _ _ _ _).
    destruct (L120_spec n st1 io1) as (x & sg & HL).
    assert (H120 : L120 A n st1 io1 = (st', io') ->
                   kase io' = 0 \/ kase io' <> 0 /\ valid st' /\ 0 <= rankZ st' < 12 - 2 * iter st).
    { rewrite HL. intros H; inversion H; subst; clear H. right; prj.
      rewrite rank_5 by reflexivity. split; [discriminate|]. split; [apply valid_other; prj; discriminate|lia]. }
    destruct (signs_differ A (xx io) (isgn io)); [|exact H120].
    destruct (aleb A (est io1) (estold st1)); [exact H120|].
    intros H; inversion H; subst; clear H. right; prj. rewrite rank_4 by reflexivity. prj.
    split; [discriminate|]. split; [apply valid_iter; prj; lia|lia]. }
  destruct (jump st =? 4) eqn:E4.
  { apply Z.eqb_eq in E4. assert (Hi : 2 <= iter st <= 5) by (apply Hv; auto).
    rewrite (rank_4 st E4).
    match goal with |- context [if ?c then _ else _] => destruct c eqn:EC end.
    - apply andb_prop in EC. destruct EC as [_ EC]. apply Z.ltb_lt in EC.
      unfold L50; prj. intros H; inversion H; subst; clear H. right; prj.
      rewrite rank_3 by reflexivity. prj.
      split; [discriminate|]. split; [apply valid_iter; prj; lia|lia].
    - set (st1 := mkSt _ _ _ _ _ _).
      destruct (L120_spec n st1 io) as (x & sg & HL). rewrite HL.
      intros H; inversion H; subst; clear H. right; prj.
      rewrite rank_5 by reflexivity. split; [discriminate|]. split; [apply valid_other; prj; discriminate|lia]. }
  destruct (jump st =? 5) eqn:E5.
  { destruct (altb A (est io) _); intros H; inversion H; subst; left; reflexivity. }
  rewrite (rank_other st E2 E3 E4 E5).
  destruct (n =? 1)%nat.
  { intros H; inversion H; subst; left; reflexivity. }
  intros H; inversion H; subst; clear H. right; prj. rewrite rank_2 by reflexivity.
  split; [discriminate|]. split; [apply valid_other; prj; discriminate|lia].
Qed.

Lemma drive_terminates X (op : X -> lacon_io -> X * list T) n :
  forall fuel s st io napp,
    kase io <> 0 -> valid st -> rankZ st < Z.of_nat fuel -> 0 <= rankZ st ->
    exists r, lacon_drive A fuel n op s st io napp = Some r /\
              (Z.of_nat (r_napp r) <= Z.of_nat napp + rankZ st) /\ kase (r_io r) = 0.
Proof.
  induction fuel as [|f IH]; intros s st io napp Hk Hv Hr H0; [lia|].
  cbn [lacon_drive]. destruct (lacon_step A n st io) as [st' io'] eqn:ES.
  destruct (step_rank n st io st' io' Hk Hv ES) as [Hz | (Hnz & Hv' & Hr')].
  - rewrite Hz; cbn. eexists; split; [reflexivity|]. cbn. split; [lia|assumption].
  - destruct (kase io' =? 0) eqn:E; [apply Z.eqb_eq in E; contradiction|].
    destruct (op s io') as [s' x'].
    destruct (IH s' st' (mkIo (vv io') x' (isgn io') (est io') (kase io')) (S napp)) as (r & Hrun & Hn & Hk0);
      cbn; try assumption; try lia.
    exists r. split; [assumption|]. split; [lia|assumption].
Qed.

Theorem lacon_terminates_gen X (op : X -> lacon_io -> X * list T) n s st io fuel :
  kase io = 0 -> (12 <= fuel)%nat ->
  exists r, lacon_drive A fuel n op s st io O = Some r /\ (r_napp r <= 11)%nat /\ kase (r_io r) = 0.
Proof.
  intros Hk Hf. destruct fuel as [|f]; [lia|]. cbn [lacon_drive].
  unfold lacon_step. rewrite Hk. cbn.
  destruct (op s _) as [s' x'].
  set (st1 := mkSt 1 _ _ _ _ _).
  destruct (drive_terminates X op n f s' st1 (mkIo (vv io) x' (isgn io) (est io) 1) 1%nat) as (r & Hr & Hn & Hk0);
    cbn; try discriminate; try lia.
  - unfold valid; cbn. intros [?|?]; discriminate.
  - exists r. split; [assumption|]. split; [|assumption]. cbn in Hn. lia.
Qed.
End Termination.
Local Close Scope Z_scope.

(* ================================================================== Part 2 *)
Local Open Scope Q_scope.

Record ArithQ_ok (A : Arith Q) : Prop := mkOk {
  ok0 : a0 A == 0; ok1 : a1 A == 1;
  ok_add : forall x y, aadd A x y == x + y;
  ok_sub : forall x y, asub A x y == x - y;
  ok_mul : forall x y, amul A x y == x * y;
  ok_div : forall x y, adiv A x y == x / y;
  ok_opp : forall x, aopp A x == - x;
  ok_abs : forall x, afabs A x == Qabs x;
  ok_ltb : forall x y, altb A x y = true <-> x < y;
  ok_leb : forall x y, aleb A x y = true <-> x <= y;
  ok_eqb : forall x y, aeqb A x y = true <-> x == y;
  ok_ofZ : forall z, aofZ A z == inject_Z z }.

Fixpoint sumabs (l : list Q) : Q := match l with [] => 0 | x :: r => Qabs x + sumabs r end.
Fixpoint dot (x y : list Q) : Q :=
  match x, y with a :: x', b :: y' => a * b + dot x' y' | _, _ => 0 end.

Lemma sumabs_nonneg l : 0 <= sumabs l.
Proof. induction l; cbn; [lra|]. pose proof (Qabs_nonneg a). lra. Qed.

Section QT.
Variable A : Arith Q.
Hypothesis ok : ArithQ_ok A.

Lemma leb_false x y : aleb A x y = false -> y < x.
Proof.
  intros H. destruct (Qlt_le_dec y x) as [|Hle]; [assumption|].
  apply (ok_leb A ok) in Hle. congruence.
Qed.
Lemma ltb_false x y : altb A x y = false -> y <= x.
Proof.
  intros H. destruct (Qlt_le_dec x y) as [Hlt|]; [|assumption].
  apply (ok_ltb A ok) in Hlt. congruence.
Qed.

Lemma f2c_abs_ok x : f2c_abs A x == Qabs x.
Proof.
  unfold f2c_abs. destruct (aleb A (a0 A) x) eqn:E.
  - apply (ok_leb A ok) in E. rewrite (ok0 A ok) in E. rewrite Qabs_pos; [reflexivity|assumption].
  - apply leb_false in E. rewrite (ok0 A ok) in E. rewrite (ok_opp A ok).
    rewrite Qabs_neg; [reflexivity|lra].
Qed.

Lemma dasum_acc l : forall acc q, acc == q ->
  fold_left (fun acc x => aadd A acc (f2c_abs A x)) l acc == q + sumabs l.
Proof.
  induction l as [|x r IH]; intros acc q H; cbn.
  - rewrite H. lra.
  - rewrite (IH _ (q + Qabs x)); [lra|]. rewrite (ok_add A ok), f2c_abs_ok, H. reflexivity.
Qed.
Lemma dasum_ok l : dasum A l == sumabs l.
Proof. unfold dasum. rewrite (dasum_acc l _ 0); [lra|apply (ok0 A ok)]. Qed.

Lemma dsign1_cases b : (0 <= b /\ dsign1 A b == 1) \/ (b < 0 /\ dsign1 A b == -(1)).
Proof.
  unfold dsign1. destruct (aleb A (a0 A) b) eqn:E.
  - left. apply (ok_leb A ok) in E. rewrite (ok0 A ok) in E. split; [assumption|].
    rewrite (ok_abs A ok), (ok1 A ok). reflexivity.
  - right. apply leb_false in E. rewrite (ok0 A ok) in E. split; [assumption|].
    rewrite (ok_opp A ok), (ok_abs A ok), (ok1 A ok). reflexivity.
Qed.
Lemma dsign1_abs b : Qabs (dsign1 A b) == 1.
Proof. destruct (dsign1_cases b) as [[_ H]|[_ H]]; rewrite H; reflexivity. Qed.
Lemma dsign1_mul b : b * dsign1 A b == Qabs b.
Proof.
  destruct (dsign1_cases b) as [[Hb H]|[Hb H]]; rewrite H.
  - rewrite Qabs_pos by assumption. lra.
  - rewrite Qabs_neg by lra. lra.
Qed.

Lemma dot_sign y : dot y (map (dsign1 A) y) == sumabs y.
Proof. induction y as [|a r IH]; cbn; [reflexivity|]. rewrite IH, dsign1_mul. reflexivity. Qed.

Lemma dot_le_sumabs u : forall xi, Forall (fun b => Qabs b <= 1) xi -> Qabs (dot u xi) <= sumabs u.
Proof.
  induction u as [|a r IH]; intros xi H; cbn.
  - apply Qle_refl.
  - destruct xi as [|b xi'].
    + cbn. pose proof (Qabs_nonneg a). pose proof (sumabs_nonneg r). lra.
    + inversion H as [|? ? Hb Hr]; subst.
      eapply Qle_trans; [apply Qabs_triangle|].
      rewrite Qabs_Qmult. specialize (IH xi' Hr).
      pose proof (Qabs_nonneg a). pose proof (Qabs_nonneg b).
      nra.
Qed.

Lemma dot_le_max w : forall z m, 0 <= m -> Forall (fun b => Qabs b <= m) z -> Qabs (dot w z) <= m * sumabs w.
Proof.
  induction w as [|a r IH]; intros z m Hm H; cbn.
  - lra.
  - destruct z as [|b z'].
    + cbn. pose proof (Qabs_nonneg a). pose proof (sumabs_nonneg r). nra.
    + inversion H as [|? ? Hb Hr]; subst.
      eapply Qle_trans; [apply Qabs_triangle|].
      rewrite Qabs_Qmult. specialize (IH z' m Hm Hr).
      pose proof (Qabs_nonneg a). pose proof (Qabs_nonneg b). nra.
Qed.

Lemma upd_length {X} (l : list X) : forall i v, length (upd l i v) = length l.
Proof. induction l; intros [|i] v; cbn; auto. Qed.

Lemma sumabs_repeat0 z n : z == 0 -> sumabs (repeat z n) == 0.
Proof. intros H. induction n; cbn; [reflexivity|]. rewrite IHn, H. reflexivity. Qed.

Lemma sumabs_unit_gen z o n : z == 0 -> o == 1 -> forall j, (j < n)%nat -> sumabs (upd (repeat z n) j o) == 1.
Proof.
  intros Hz Ho. induction n; intros j Hj; [lia|]. destruct j; cbn.
  - rewrite sumabs_repeat0 by assumption. rewrite Ho. reflexivity.
  - rewrite IHn by lia. rewrite Hz. reflexivity.
Qed.

Lemma dot_repeat0 z n : z == 0 -> forall y, dot (repeat z n) y == 0.
Proof. intros H. induction n; intros [|b y]; cbn; try reflexivity. rewrite IHn, H. lra. Qed.

Lemma dot_unit_gen z o n d : z == 0 -> o == 1 -> forall j y, (j < n)%nat -> (j < length y)%nat ->
  dot (upd (repeat z n) j o) y == nth j y d.
Proof.
  intros Hz Ho. induction n; intros j y Hj Hy; [lia|]. destruct y as [|b y]; [cbn in Hy; lia|].
  destruct j; cbn.
  - rewrite dot_repeat0 by assumption. rewrite Ho. lra.
  - cbn in Hy. rewrite IHn by lia. rewrite Hz. lra.
Qed.

Lemma unitvec_length n j : length (unitvec A n j) = n.
Proof. unfold unitvec. rewrite upd_length, repeat_length. reflexivity. Qed.
Lemma unitvec_sumabs n j : (j < n)%nat -> sumabs (unitvec A n j) == 1.
Proof. intros. apply sumabs_unit_gen; [apply (ok0 A ok)|apply (ok1 A ok)|assumption]. Qed.
Lemma unitvec_dot n j y d : (j < n)%nat -> length y = n -> dot (unitvec A n j) y == nth j y d.
Proof. intros. apply dot_unit_gen; [apply (ok0 A ok)|apply (ok1 A ok)|assumption|lia]. Qed.

(* idamax *)
Lemma idamax_loop_spec d r : forall i best dmax,
  let j := idamax_loop A r i best dmax in
  (j = best /\ Forall (fun x => Qabs x <= dmax) r) \/
  (exists k, j = (i + k)%nat /\ (k < length r)%nat /\ dmax <= Qabs (nth k r d) /\
             Forall (fun x => Qabs x <= Qabs (nth k r d)) r).
Proof.
  induction r as [|x r IH]; intros i best dmax; cbn.
  - left. split; [reflexivity|constructor].
  - destruct (aleb A (f2c_abs A x) dmax) eqn:E.
    + apply (ok_leb A ok) in E. rewrite f2c_abs_ok in E.
      destruct (IH (S i) best dmax) as [[Hj Hall]|(k & Hj & Hk & Hd & Hall)].
      * left. split; [assumption|constructor; assumption].
      * right. exists (S k). cbn. repeat split; try lia; try assumption.
        constructor; [lra|assumption].
    + apply leb_false in E. rewrite f2c_abs_ok in E.
      destruct (IH (S i) i (f2c_abs A x)) as [[Hj Hall]|(k & Hj & Hk & Hd & Hall)].
      * right. exists O. cbn. repeat split; try lia; try lra.
        constructor; [lra|]. eapply Forall_impl; [|exact Hall]. cbn. intros a Ha. rewrite f2c_abs_ok in Ha. exact Ha.
      * right. exists (S k). cbn. rewrite f2c_abs_ok in Hd. repeat split; try lia; try lra.
        constructor; [lra|assumption].
Qed.

Lemma idamax0_spec d l : l <> [] ->
  (idamax0 A l < length l)%nat /\ Forall (fun x => Qabs x <= Qabs (nth (idamax0 A l) l d)) l.
Proof.
  destruct l as [|x r]; [congruence|]. intros _. unfold idamax0.
  destruct (idamax_loop_spec d r 1%nat O (f2c_abs A x)) as [[Hj Hall]|(k & Hj & Hk & Hd & Hall)].
  - rewrite Hj. cbn. split; [lia|]. constructor; [lra|].
    eapply Forall_impl; [|exact Hall]. cbn. intros a Ha. rewrite f2c_abs_ok in Ha. exact Ha.
  - rewrite Hj. cbn. split; [lia|]. rewrite f2c_abs_ok in Hd. constructor; [lra|assumption].
Qed.

Definition qn (x : nat) : Q := inject_Z (Z.of_nat x).
Lemma qn_S x : qn (S x) == qn x + 1.
Proof. unfold qn. rewrite Nat2Z.inj_succ, <- Z.add_1_r, inject_Z_plus. reflexivity. Qed.
Lemma qn_nonneg x : 0 <= qn x.
Proof. unfold qn. change 0 with (inject_Z 0). rewrite <- Zle_Qle. lia. Qed.
Lemma qn_pos x : (1 <= x)%nat -> 1 <= qn x.
Proof. unfold qn. intros. change 1 with (inject_Z 1). rewrite <- Zle_Qle. lia. Qed.
Lemma qn_ge2 x : (2 <= x)%nat -> 2 <= qn x.
Proof. unfold qn. intros. change 2 with (inject_Z 2). rewrite <- Zle_Qle. lia. Qed.

Lemma sumabs_repeat c n : sumabs (repeat c n) == qn n * Qabs c.
Proof. induction n; cbn [repeat sumabs]; [unfold qn; change (inject_Z (Z.of_nat 0)) with 0; lra|]. rewrite IHn, qn_S. lra. Qed.

Definition x0 (n : nat) : list Q := repeat (adiv A (a1 A) (aofZ A (Z.of_nat n))) n.
Lemma x0_length n : length (x0 n) = n.
Proof. apply repeat_length. Qed.
Lemma x0_sumabs n : (1 <= n)%nat -> sumabs (x0 n) == 1.
Proof.
  intros Hn. unfold x0. rewrite sumabs_repeat.
  rewrite (ok_div A ok), (ok1 A ok), (ok_ofZ A ok). fold (qn n).
  pose proof (qn_pos n Hn).
  rewrite Qabs_pos.
  - field. lra.
  - apply Qle_shift_div_l; lra.
Qed.

Lemma altvec_fst n i k sg :
  fst (altvec A n i (S k) sg) =
  amul A sg (aadd A (adiv A (aofZ A (Z.of_nat i)) (aofZ A (Z.of_nat n - 1))) (a1 A))
  :: fst (altvec A n (S i) k (aopp A sg)).
Proof. cbn [altvec]. destruct (altvec A n (S i) k (aopp A sg)). reflexivity. Qed.

Lemma altvec_length n k : forall i sg, length (fst (altvec A n i k sg)) = k.
Proof. induction k; intros i sg; [reflexivity|]. rewrite altvec_fst. cbn. rewrite IHk. reflexivity. Qed.

Lemma altvec_sumabs n : (2 <= n)%nat -> forall k i sg, Qabs sg == 1 ->
  sumabs (fst (altvec A n i k sg)) == qn k + (qn k * qn i + qn k * (qn k - 1) / 2) / (qn n - 1).
Proof.
  intros Hn. pose proof (qn_ge2 n Hn) as Hq.
  induction k as [|k IH]; intros i sg Hsg.
  - cbn [altvec fst sumabs]. change (qn 0) with 0. field. lra.
  - rewrite altvec_fst. cbn [sumabs]. rewrite IH.
    2:{ rewrite (ok_opp A ok), Qabs_opp. assumption. }
    rewrite (ok_mul A ok), (ok_add A ok), (ok_div A ok), (ok1 A ok), !(ok_ofZ A ok).
    rewrite Qabs_Qmult, Hsg.
    replace (inject_Z (Z.of_nat n - 1)) with (inject_Z (Z.of_nat n) + inject_Z (-1)) by (rewrite <- inject_Z_plus; reflexivity).
    fold (qn n) (qn i). change (inject_Z (-1)) with (-(1)).
    pose proof (qn_nonneg i).
    rewrite Qabs_pos.
    + rewrite !qn_S. field. lra.
    + assert (0 <= qn i / (qn n + - (1))) by (apply Qle_shift_div_l; lra). lra.
Qed.

Definition xalt (n : nat) : list Q := fst (altvec A n O n (a1 A)).
Lemma xalt_length n : length (xalt n) = n.
Proof. apply altvec_length. Qed.
Lemma xalt_sumabs n : (2 <= n)%nat -> sumabs (xalt n) == (3#2) * qn n.
Proof.
  intros Hn. unfold xalt. rewrite altvec_sumabs; [|assumption|rewrite (ok1 A ok); reflexivity].
  pose proof (qn_ge2 n Hn). change (qn 0) with 0. field. lra.
Qed.
End QT.

(* ================================================================== Part 3 *)

Local Notation lst := (lacon_st (T:=Q)).
Local Notation lio := (lacon_io (T:=Q)).

Section Lacon.
Variable A : Arith Q.
Hypothesis ok : ArithQ_ok A.
Variable n : nat.
Hypothesis Hn : (1 <= n)%nat.
Variables opM opMT : list Q -> list Q.
Hypothesis lenM : forall x, length x = n -> length (opM x) = n.
Hypothesis lenMT : forall x, length x = n -> length (opMT x) = n.

Definition Adj : Prop := forall a b, length a = n -> length b = n -> dot (opM a) b == dot a (opMT b).

Lemma sign_forall y : Forall (fun b => Qabs b <= 1) (map (dsign1 A) y).
Proof. induction y; cbn; constructor; [rewrite (dsign1_abs A ok); apply Qle_refl|assumption]. Qed.

Lemma idamax_lt z : length z = n -> (idamax0 A z < n)%nat.
Proof.
  intros Hz. destruct (idamax0_spec A ok 0 z) as [H _].
  - intros ->. cbn in Hz. lia.
  - lia.
Qed.

Lemma hager_step (adj : Adj) w : length w = n ->
  sumabs (opM w) <=
  sumabs (opM (unitvec A n (idamax0 A (opMT (map (dsign1 A) (opM w)))))) * sumabs w.
Proof.
  intros Hw.
  set (y := opM w). set (xi := map (dsign1 A) y). set (z := opMT xi). set (j := idamax0 A z).
  assert (Hy : length y = n) by (apply lenM; assumption).
  assert (Hxi : length xi = n) by (unfold xi; rewrite map_length; assumption).
  assert (Hz : length z = n) by (apply lenMT; assumption).
  destruct (idamax0_spec A ok 0 z) as [Hj Hall]; [intros E; rewrite E in Hz; cbn in Hz; lia|].
  fold j in Hj, Hall. rewrite Hz in Hj.
  assert (H1 : sumabs y == dot w z).
  { rewrite <- (dot_sign A ok y). fold xi. unfold y, z. apply adj; assumption. }
  assert (H2 : Qabs (dot w z) <= Qabs (nth j z 0) * sumabs w).
  { apply dot_le_max; [apply Qabs_nonneg|assumption]. }
  assert (H3 : Qabs (nth j z 0) <= sumabs (opM (unitvec A n j))).
  { rewrite <- (unitvec_dot A ok n j z 0 Hj Hz). unfold z.
    rewrite <- (adj (unitvec A n j) xi (unitvec_length A n j) Hxi).
    apply dot_le_sumabs. apply sign_forall. }
  pose proof (Qle_Qabs (dot w z)). pose proof (sumabs_nonneg w).
  rewrite H1. nra.
Qed.

Definition est1 : Q := sumabs (opM (x0 A n)).
Definition Wit (e : Q) : Prop := exists w, length w = n /\ 0 < sumabs w /\ e * sumabs w == sumabs (opM w).
Definition EMT (io : lio) : Prop :=
  exists w, length w = n /\ sumabs w == 1 /\ xx io = opMT (map (dsign1 A) (opM w)) /\
            est io == sumabs (opM w) /\ (Adj -> est1 <= est io).

Inductive Einv (st : lst) (io : lio) : Prop :=
| E1 : jump st = 1%Z -> xx io = opM (x0 A n) -> Einv st io
| E2 : jump st = 2%Z -> (2 <= n)%nat -> EMT io -> Einv st io
| E3 : jump st = 3%Z -> (2 <= n)%nat -> (jj st < n)%nat -> xx io = opM (unitvec A n (jj st)) ->
       (Adj -> est io <= sumabs (xx io) /\ est1 <= est io) -> Einv st io
| E4 : jump st = 4%Z -> (2 <= n)%nat -> EMT io -> Einv st io
| E5 : jump st = 5%Z -> (2 <= n)%nat -> xx io = opM (xalt A n) -> Wit (est io) -> (Adj -> est1 <= est io) ->
       Einv st io.

Definition Fin (io : lio) : Prop := Wit (est io) /\ (Adj -> est1 <= est io).

Lemma L120_eq (st : lst) (io : lio) :
  L120 A n st io = (mkSt 5 (iter st) (jj st) (jlast st) (estold st) (snd (altvec A n O n (a1 A))),
                    mkIo (vv io) (xalt A n) (isgn io) (est io) 1).
Proof. unfold L120, xalt. destruct (altvec A n 0 n (a1 A)). reflexivity. Qed.

Ltac prj := cbn [jump iter jj jlast estold altsgn vv xx isgn est kase].

Definition Next (st' : lst) (io' : lio) : Prop :=
  (kase io' = 0%Z /\ Fin io') \/
  ((kase io' = 1%Z \/ kase io' = 2%Z) /\
   forall x', x' = (if (kase io' =? 1)%Z then opM (xx io') else opMT (xx io')) ->
              Einv st' (mkIo (vv io') x' (isgn io') (est io') (kase io'))).

(* from an EMT state: the move L40/L110 -> L50 *)
Lemma to_L50 (st : lst) (io : lio) it : (2 <= n)%nat -> EMT io ->
  let j' := idamax0 A (xx io) in
  forall jl eo asg, Next (mkSt 3 it j' jl eo asg) (mkIo (vv io) (unitvec A n j') (isgn io) (est io) 1).
Proof.
  intros H2 (w & Hw & Hs & Hx & He & Hu) j' jl eo asg. right. prj. split; [left; reflexivity|].
  intros x' ->. change (1 =? 1)%Z with true. cbn iota.
  assert (Hlen : length (xx io) = n).
  { rewrite Hx. apply lenMT. rewrite map_length. apply lenM. assumption. }
  apply E3; prj; try reflexivity; try assumption.
  - apply idamax_lt. assumption.
  - intros adj. split; [|apply Hu; assumption].
    pose proof (hager_step adj w Hw) as H. rewrite <- Hx in H. fold j' in H. rewrite Hs in H. rewrite He. lra.
Qed.

Lemma EMT_Wit (io : lio) : EMT io -> Wit (est io) /\ (Adj -> est1 <= est io).
Proof.
  intros (w & Hw & Hs & Hx & He & Hu). split; [|assumption].
  exists w. split; [assumption|]. split; [rewrite Hs; lra|]. rewrite He, Hs. lra.
Qed.

Lemma to_L120 (st : lst) (io : lio) : (2 <= n)%nat -> Wit (est io) -> (Adj -> est1 <= est io) ->
  forall st' io', L120 A n st io = (st', io') -> Next st' io'.
Proof.
  intros H2 HW Hu st' io'. rewrite L120_eq. intros H; inversion H; subst; clear H.
  right. prj. split; [left; reflexivity|]. intros x' ->. change (1 =? 1)%Z with true. cbn iota.
  apply E5; prj; try reflexivity; assumption.
Qed.

Lemma step_inv (st : lst) (io : lio) st' io' :
  Einv st io -> kase io <> 0%Z -> lacon_step A n st io = (st', io') -> Next st' io'.
Proof.
  intros HE Hk. unfold lacon_step.
  destruct (kase io =? 0)%Z eqn:E0; [apply Z.eqb_eq in E0; contradiction|].
  destruct HE as [Hj Hx | Hj H2 HM | Hj H2 Hjj Hx Hu | Hj H2 HM | Hj H2 Hx HW Hu]; rewrite Hj; cbn [Z.eqb Pos.eqb].
  - (* L20 *)
    destruct (n =? 1)%nat eqn:En.
    + apply Nat.eqb_eq in En. intros H; inversion H; subst st' io'; clear H. left. prj. split; [reflexivity|].
      assert (Hl : length (opM (x0 A n)) = n) by (apply lenM, x0_length).
      rewrite <- Hx in Hl. destruct (xx io) as [|v [|? ?]] eqn:Ex; cbn in Hl; try lia.
      cbn [nth]. unfold Fin. prj.
      assert (Hest : afabs A v * sumabs (x0 A n) == sumabs (opM (x0 A n))).
      { rewrite <- Hx. cbn [sumabs]. rewrite (x0_sumabs A ok n Hn), (ok_abs A ok). lra. }
      split.
      * exists (x0 A n). split; [apply x0_length|]. split; [rewrite (x0_sumabs A ok n Hn); lra|exact Hest].
      * intros _. unfold est1. rewrite <- Hest, (x0_sumabs A ok n Hn). lra.
    + apply Nat.eqb_neq in En. intros H; inversion H; subst st' io'; clear H. right. prj.
      split; [right; reflexivity|]. intros x' ->. change (2 =? 1)%Z with false. cbn iota.
      apply E2; prj; [reflexivity|lia|].
      exists (x0 A n). split; [apply x0_length|]. split; [apply (x0_sumabs A ok n Hn)|].
      split; [rewrite Hx; reflexivity|]. prj. rewrite (dasum_ok A ok), Hx.
      split; [reflexivity|]. intros _. unfold est1. apply Qle_refl.
  - (* L40 *)
    unfold L50. prj. intros H; inversion H; subst st' io'; clear H. apply to_L50; assumption.
  - (* L70 *)
    set (st1 := mkSt _ _ _ _ _ _). set (io1 := mkIo _ _ _ _ _).
    assert (He1 : est io1 == sumabs (opM (unitvec A n (jj st)))).
    { unfold io1. prj. rewrite (dasum_ok A ok), Hx. reflexivity. }
    assert (Hs1 : sumabs (unitvec A n (jj st)) == 1) by (apply (unitvec_sumabs A ok); assumption).
    assert (HW1 : Wit (est io1)).
    { exists (unitvec A n (jj st)). split; [apply unitvec_length|]. split; [rewrite Hs1; lra|]. rewrite He1, Hs1. lra. }
    assert (Hu1 : Adj -> est1 <= est io1).
    { intros adj. destruct (Hu adj) as [Ha Hb]. rewrite He1, <- Hx. lra. }
    assert (H120 : forall st' io', L120 A n st1 io1 = (st', io') -> Next st' io').
    { apply to_L120; assumption. }
    destruct (signs_differ A (xx io) (isgn io)); [|apply H120].
    destruct (aleb A (est io1) (estold st1)); [apply H120|].
    intros H; inversion H; subst st' io'; clear H. right. prj. split; [right; reflexivity|].
    intros x' ->. change (2 =? 1)%Z with false. cbn iota.
    apply E4; prj; [reflexivity|assumption|].
    exists (unitvec A n (jj st)). split; [apply unitvec_length|]. split; [assumption|].
    split; [rewrite Hx; reflexivity|]. prj. split; [exact He1|exact Hu1].
  - (* L110 *)
    match goal with |- context [if ?c then _ else _] => destruct c end.
    + unfold L50. prj. intros H; inversion H; subst st' io'; clear H. apply to_L50; assumption.
    + destruct (EMT_Wit io HM) as [HW Hu]. apply to_L120; assumption.
  - (* L140 *)
    set (temp := amul A _ _).
    assert (Ht : temp * sumabs (xalt A n) == sumabs (opM (xalt A n))).
    { unfold temp. rewrite (ok_mul A ok), (ok_div A ok), !(ok_ofZ A ok), (dasum_ok A ok), Hx.
      rewrite (xalt_sumabs A ok n H2). rewrite inject_Z_mult. fold (qn n).
      pose proof (qn_ge2 n H2). change (inject_Z 3) with 3. change (inject_Z 2) with 2. field. lra. }
    assert (Hpos : 0 < sumabs (xalt A n)).
    { rewrite (xalt_sumabs A ok n H2). pose proof (qn_ge2 n H2). lra. }
    destruct (altb A (est io) temp) eqn:Et; intros H; inversion H; subst st' io'; clear H; left; prj;
      (split; [reflexivity|]); unfold Fin; prj.
    + apply (ok_ltb A ok) in Et. split.
      * exists (xalt A n). split; [apply xalt_length|]. split; assumption.
      * intros adj. specialize (Hu adj). lra.
    + split; assumption.
Qed.

Section Drive.
Variable X : Type.
Variable op : X -> lio -> X * list Q.
Hypothesis op1 : forall s io, kase io = 1%Z -> snd (op s io) = opM (xx io).
Hypothesis op2 : forall s io, kase io = 2%Z -> snd (op s io) = opMT (xx io).

Lemma drive_inv : forall fuel s st io napp r,
  Einv st io -> kase io <> 0%Z -> lacon_drive A fuel n op s st io napp = Some r ->
  kase (r_io r) = 0%Z /\ Fin (r_io r).
Proof.
  induction fuel as [|f IH]; intros s st io napp r HE Hk; cbn [lacon_drive]; [discriminate|].
  destruct (lacon_step A n st io) as [st' io'] eqn:ES.
  destruct (step_inv st io st' io' HE Hk ES) as [[Hz HF] | [Hk' Hnext]].
  - rewrite Hz. cbn. intros H; inversion H; subst; clear H. cbn. split; assumption.
  - destruct (kase io' =? 0)%Z eqn:E; [apply Z.eqb_eq in E; lia|].
    destruct (op s io') as [s' x'] eqn:Eop.
    apply IH; [|cbn; lia].
    apply Hnext. destruct Hk' as [K|K]; rewrite K; cbn.
    + rewrite <- (op1 s io' K), Eop. reflexivity.
    + rewrite <- (op2 s io' K), Eop. reflexivity.
Qed.

Theorem drive_sound fuel s st io r :
  kase io = 0%Z -> lacon_drive A fuel n op s st io O = Some r ->
  kase (r_io r) = 0%Z /\ Fin (r_io r).
Proof.
  intros Hk. destruct fuel as [|f]; cbn [lacon_drive]; [discriminate|].
  unfold lacon_step. rewrite Hk. cbn [Z.eqb]. prj. cbn [Z.eqb].
  destruct (op s _) as [s' x'] eqn:Eop.
  apply drive_inv; [|cbn; lia].
  apply E1; prj; [reflexivity|].
  pose proof (op1 s _ (eq_refl : kase (mkIo (vv io) (x0 A n) (isgn io) (est io) 1) = 1%Z)) as H1.
  unfold x0 in H1 at 1. rewrite Eop in H1. cbn in H1. exact H1.
Qed.
End Drive.
End Lacon.

(* ================================================================== Part 4 *)

Lemma inv_le a b : 0 < a -> a <= b -> 1 / b <= 1 / a.
Proof.
  intros Ha Hab. apply Qle_shift_div_l; [assumption|].
  unfold Qdiv. rewrite Qmult_1_l. rewrite Qmult_comm. apply Qle_shift_div_r; lra.
Qed.

Section LaconTop.
Variable A : Arith Q.
Hypothesis ok : ArithQ_ok A.
Variable n : nat.
Hypothesis Hn : (1 <= n)%nat.
Variables opM opMT : list Q -> list Q.
Hypothesis lenM : forall x, length x = n -> length (opM x) = n.
Hypothesis lenMT : forall x, length x = n -> length (opMT x) = n.

Lemma lacon_run_total st :
  exists r, lacon_run A n opM opMT st = Some r /\ (r_napp r <= 11)%nat /\ kase (r_io r) = 0%Z.
Proof. unfold lacon_run. apply lacon_terminates_gen; [reflexivity|unfold lacon_fuel; lia]. Qed.

Lemma lacon_run_fin st r : lacon_run A n opM opMT st = Some r ->
  kase (r_io r) = 0%Z /\ Fin A n opM opMT (r_io r).
Proof.
  unfold lacon_run. apply (drive_sound A ok n Hn opM opMT lenM lenMT unit (pure_op opM opMT)).
  - intros s io K. unfold pure_op. rewrite K. reflexivity.
  - intros s io K. unfold pure_op. rewrite K. reflexivity.
  - reflexivity.
Qed.

Theorem lacon_lower_thm st r : lacon_run A n opM opMT st = Some r ->
  exists w, length w = n /\ 0 < sumabs w /\ est (r_io r) * sumabs w == sumabs (opM w).
Proof. intros H. destruct (lacon_run_fin st r H) as [_ [HW _]]. exact HW. Qed.

Theorem lacon_le_norm_thm st r N : lacon_run A n opM opMT st = Some r ->
  (forall w, length w = n -> sumabs (opM w) <= N * sumabs w) -> est (r_io r) <= N.
Proof.
  intros H HN. destruct (lacon_lower_thm st r H) as (w & Hw & Hp & He). specialize (HN w Hw).
  rewrite <- He in HN. nra.
Qed.

Theorem lacon_upper_thm st r : lacon_run A n opM opMT st = Some r ->
  (forall a b, length a = n -> length b = n -> dot (opM a) b == dot a (opMT b)) ->
  sumabs (opM (x0 A n)) <= est (r_io r).
Proof. intros H adj. destruct (lacon_run_fin st r H) as [_ [_ Hu]]. apply Hu. exact adj. Qed.
End LaconTop.

(* ------------------------------------------------------------------ dgscon *)
Section Gscon.
Variable A : Arith Q.
Hypothesis ok : ArithQ_ok A.
Variable nz : Z.
Let n := Z.to_nat nz.
Hypothesis Hn : (1 <= n)%nat.
Variable f : trsv_kind -> list Q -> list Q.
Hypothesis lenf : forall k x, length x = n -> length (f k x) = n.
Variable normc : Z.

Definition opN (x : list Q) : list Q := f tr_UN (f tr_LN x).
Definition opT (x : list Q) : list Q := f tr_LT (f tr_UT x).
Definition gM : list Q -> list Q := if gscon_onenrm normc then opN else opT.
Definition gMt : list Q -> list Q := if gscon_onenrm normc then opT else opN.
Definition Ldesc := mkDesc nz nz c_SLU_SCP c_SLU_D c_SLU_TRLU.
Definition Udesc := mkDesc nz nz c_SLU_NCP c_SLU_D c_SLU_TRU.
Definition psolve (s : unit) (k : trsv_kind) (x : list Q) : unit * list Q := (tt, f k x).

Lemma len_gM x : length x = n -> length (gM x) = n.
Proof. unfold gM, opN, opT. destruct (gscon_onenrm normc); intros; repeat apply lenf; assumption. Qed.
Lemma len_gMt x : length x = n -> length (gMt x) = n.
Proof. unfold gMt, opN, opT. destruct (gscon_onenrm normc); intros; repeat apply lenf; assumption. Qed.

Theorem gscon_sound_thm st anorm :
  gscon_info normc Ldesc Udesc = 0%Z ->
  let r := gscon A normc Ldesc Udesc psolve tt st anorm in
  g_ok r = true /\ g_info r = 0%Z /\ (g_napp r <= 11)%nat /\
  (exists w, length w = n /\ 0 < sumabs w /\ g_ainvnm r * sumabs w == sumabs (gM w)) /\
  ((forall a b, length a = n -> length b = n -> dot (gM a) b == dot a (gMt b)) ->
   sumabs (gM (x0 A n)) <= g_ainvnm r) /\
  (exists rc, g_rcond r = Some rc /\
              (~ g_ainvnm r == 0 -> rc == 1 / g_ainvnm r / anorm) /\ (g_ainvnm r == 0 -> rc == 0)).
Proof.
  intros Hinfo r. unfold r, gscon. rewrite Hinfo. cbn [Z.eqb negb].
  assert (Hnz : (1 <= nz)%Z) by (unfold n in Hn; lia).
  change (d_nrow Ldesc) with nz. change (d_nrow Udesc) with nz.
  replace (nz =? 0)%Z with false by (symmetry; apply Z.eqb_neq; lia). cbn [orb]. fold n.
  set (kase1 := if gscon_onenrm normc then 1%Z else 2%Z).
  destruct (lacon_terminates_gen A unit (gscon_op psolve kase1) n tt st (io_init A n) lacon_fuel)
    as (res & Hres & Hnapp & Hk0); [reflexivity|unfold lacon_fuel; lia|].
  rewrite Hres.
  destruct (drive_sound A ok n Hn gM gMt len_gM len_gMt unit (gscon_op psolve kase1) ) with
      (fuel := lacon_fuel) (s := tt) (st := st) (io := io_init A n) (r := res) as [_ [HW Hu]].
  - intros s io K. unfold gscon_op, kase1, gM, psolve, opN, opT. rewrite K.
    destruct (gscon_onenrm normc); reflexivity.
  - intros s io K. unfold gscon_op, kase1, gMt, psolve, opN, opT. rewrite K.
    destruct (gscon_onenrm normc); reflexivity.
  - reflexivity.
  - exact Hres.
  - cbn [g_ok g_info g_napp g_ainvnm g_rcond].
    repeat split; try assumption.
    eexists; split; [reflexivity|]. split.
    + intros Hne. destruct (aeqb A (est (r_io res)) (a0 A)) eqn:E.
      * apply (ok_eqb A ok) in E. rewrite (ok0 A ok) in E. contradiction.
      * cbn [negb]. rewrite !(ok_div A ok), (ok1 A ok). reflexivity.
    + intros He. destruct (aeqb A (est (r_io res)) (a0 A)) eqn:E.
      * cbn [negb]. apply (ok0 A ok).
      * assert (aeqb A (est (r_io res)) (a0 A) = true) by (apply (ok_eqb A ok); rewrite (ok0 A ok); assumption).
        congruence.
Qed.

Theorem gscon_rcond_bounds_thm st anorm N :
  gscon_info normc Ldesc Udesc = 0%Z -> 0 < anorm ->
  (forall w, length w = n -> sumabs (gM w) <= N * sumabs w) ->
  (forall a b, length a = n -> length b = n -> dot (gM a) b == dot a (gMt b)) ->
  0 < sumabs (gM (x0 A n)) ->
  exists rc, g_rcond (gscon A normc Ldesc Udesc psolve tt st anorm) = Some rc /\
             1 / (anorm * N) <= rc /\ rc <= 1 / (anorm * sumabs (gM (x0 A n))).
Proof.
  intros Hinfo Han HN adj Hpos.
  destruct (gscon_sound_thm st anorm Hinfo) as (_ & _ & _ & (w & Hw & Hwp & He) & Hu & (rc & Hrc & Hnz & _)).
  specialize (Hu adj). set (e := g_ainvnm _) in *.
  assert (Hepos : 0 < e) by lra.
  assert (HeN : e <= N). { specialize (HN w Hw). rewrite <- He in HN. nra. }
  exists rc. split; [assumption|].
  assert (Hrc' : rc == 1 / (anorm * e)). { rewrite Hnz by lra. field. split; lra. }
  rewrite Hrc'. split; apply inv_le; nra.
Qed.
End Gscon.

(* ================================================================== Part 5 *)

Fixpoint rs_col (i : nat) (col : list (nat * Q)) : Q :=
  match col with [] => 0 | e :: r => (if Nat.eqb (fst e) i then Qabs (snd e) else 0) + rs_col i r end.
Fixpoint rs (i : nat) (cols : list (list (nat * Q))) : Q :=
  match cols with [] => 0 | c :: r => rs_col i c + rs i r end.

Definition colsum_spec (cols : list (list (nat * Q))) (j : nat) : Q := sumabs (map snd (nth j cols [])).
Definition rowsum_spec (cols : list (list (nat * Q))) (i : nat) : Q := rs i cols.
Definition is_max_of (r : Q) (m : nat) (g : nat -> Q) : Prop :=
  (forall i, (i < m)%nat -> g i <= r) /\ (r == 0 \/ exists i, (i < m)%nat /\ r == g i).

(* the user's matrix A: the stored lists are its columns (SLU_NC) or its rows (SLU_NR) *)
Definition user_colsum (Stype : Z) cols (j : nat) : Q :=
  if (Stype =? c_SLU_NR)%Z then rowsum_spec cols j else colsum_spec cols j.
Definition user_rowsum (Stype : Z) cols (i : nat) : Q :=
  if (Stype =? c_SLU_NR)%Z then colsum_spec cols i else rowsum_spec cols i.

Lemma nth_upd {X} (l : list X) : forall i j v d,
  nth i (upd l j v) d = if (Nat.eqb i j && Nat.ltb j (length l))%bool then v else nth i l d.
Proof.
  induction l as [|h r IH]; intros i j v d.
  - cbn. destruct i, j; cbn; try reflexivity; rewrite ?andb_false_r; reflexivity.
  - destruct j, i; cbn [upd nth length]; try reflexivity.
    rewrite IH. change (S i =? S j)%nat with (i =? j)%nat. change (S j <? S (length r))%nat with (j <? length r)%nat.
    reflexivity.
Qed.

Section LangsQ.
Variable A : Arith Q.
Hypothesis ok : ArithQ_ok A.

Lemma smax_cases x y : (y < x /\ smax A x y = x) \/ (x <= y /\ smax A x y = y).
Proof.
  unfold smax. destruct (altb A y x) eqn:E.
  - left. split; [apply (ok_ltb A ok); assumption|reflexivity].
  - right. split; [apply (ltb_false A ok); assumption|reflexivity].
Qed.

Lemma fold_smax vals : forall acc,
  let r := fold_left (smax A) vals acc in
  acc <= r /\ Forall (fun v => v <= r) vals /\ (r = acc \/ In r vals).
Proof.
  induction vals as [|v vs IH]; intros acc; cbn.
  - split; [apply Qle_refl|]. split; [constructor|left; reflexivity].
  - destruct (IH (smax A acc v)) as (H1 & H2 & H3).
    destruct (smax_cases acc v) as [[Hlt E]|[Hle E]]; rewrite E in *.
    + split; [assumption|]. split; [constructor; [lra|assumption]|].
      destruct H3 as [H3|H3]; [left; assumption|right; right; assumption].
    + split; [lra|]. split; [constructor; assumption|].
      destruct H3 as [H3|H3]; [right; left; symmetry; assumption|right; right; assumption].
Qed.

Lemma colsum_ok col : colsum A col == sumabs (map snd col).
Proof.
  unfold colsum.
  assert (G : forall l acc q, acc == q ->
            fold_left (fun s (e : nat * Q) => aadd A s (afabs A (snd e))) l acc == q + sumabs (map snd l)).
  { induction l as [|e r IH]; intros acc q H; cbn.
    - rewrite H. lra.
    - rewrite (IH _ (q + Qabs (snd e))); [lra|]. rewrite (ok_add A ok), (ok_abs A ok), H. reflexivity. }
  rewrite (G col _ 0); [lra|apply (ok0 A ok)].
Qed.

Lemma langs_one_map cols : langs_one A cols = fold_left (smax A) (map (colsum A) cols) (a0 A).
Proof. unfold langs_one. generalize (a0 A). induction cols; intros q; cbn; [reflexivity|apply IHcols]. Qed.

Lemma langs_one_spec cols : is_max_of (langs_one A cols) (length cols) (colsum_spec cols).
Proof.
  rewrite langs_one_map. destruct (fold_smax (map (colsum A) cols) (a0 A)) as (H1 & H2 & H3).
  set (r := fold_left _ _ _) in *. split.
  - intros i Hi. rewrite Forall_forall in H2. unfold colsum_spec.
    rewrite <- colsum_ok. apply H2. apply in_map. apply nth_In. assumption.
  - destruct H3 as [H3|H3]; [left; rewrite H3; apply (ok0 A ok)|].
    right. apply in_map_iff in H3. destruct H3 as (col & Hc & Hin).
    apply In_nth with (d := []) in Hin. destruct Hin as (i & Hi & Hn).
    exists i. split; [assumption|]. unfold colsum_spec. rewrite Hn, <- Hc. apply colsum_ok.
Qed.

(* the scatter loop of the infinity norm *)
Lemma scatter_col nrow col : forall rw, length rw = nrow ->
  let rw' := fold_left (fun rw (e : nat * Q) => upd rw (fst e) (aadd A (nth (fst e) rw (a0 A)) (afabs A (snd e)))) col rw in
  length rw' = nrow /\ forall i, (i < nrow)%nat -> nth i rw' (a0 A) == nth i rw (a0 A) + rs_col i col.
Proof.
  induction col as [|e r IH]; intros rw Hl; cbn.
  - split; [assumption|]. intros. lra.
  - destruct (IH (upd rw (fst e) (aadd A (nth (fst e) rw (a0 A)) (afabs A (snd e))))) as [Hl' Hv].
    { rewrite upd_length. assumption. }
    split; [assumption|]. intros i Hi. rewrite (Hv i Hi). rewrite nth_upd.
    destruct (Nat.eqb i (fst e)) eqn:E.
    + apply Nat.eqb_eq in E. subst i. rewrite Nat.eqb_refl.
      replace (fst e <? length rw)%nat with true by (symmetry; apply Nat.ltb_lt; lia). cbn [andb].
      rewrite (ok_add A ok), (ok_abs A ok). lra.
    + cbn [andb]. rewrite Nat.eqb_sym, E. lra.
Qed.

Lemma rowsums_spec nrow cols :
  length (rowsums A nrow cols) = nrow /\
  forall i, (i < nrow)%nat -> nth i (rowsums A nrow cols) (a0 A) == rs i cols.
Proof.
  unfold rowsums.
  assert (G : forall cs rw, length rw = nrow ->
     let rw' := fold_left (fun rw col => fold_left (fun rw (e : nat * Q) =>
                   upd rw (fst e) (aadd A (nth (fst e) rw (a0 A)) (afabs A (snd e)))) col rw) cs rw in
     length rw' = nrow /\ forall i, (i < nrow)%nat -> nth i rw' (a0 A) == nth i rw (a0 A) + rs i cs).
  { induction cs as [|c r IH]; intros rw Hl; cbn.
    - split; [assumption|]. intros. lra.
    - destruct (scatter_col nrow c rw Hl) as [Hl1 Hv1].
      destruct (IH _ Hl1) as [Hl2 Hv2]. split; [assumption|].
      intros i Hi. rewrite (Hv2 i Hi), (Hv1 i Hi). lra. }
  destruct (G cols (repeat (a0 A) nrow) (repeat_length _ _)) as [Hl Hv].
  split; [assumption|]. intros i Hi. rewrite (Hv i Hi).
  rewrite nth_repeat. rewrite (ok0 A ok). lra.
Qed.

Lemma langs_inf_spec nrow cols : is_max_of (langs_inf A nrow cols) nrow (rowsum_spec cols).
Proof.
  unfold langs_inf. destruct (rowsums_spec nrow cols) as [Hl Hv].
  destruct (fold_smax (rowsums A nrow cols) (a0 A)) as (H1 & H2 & H3).
  set (r := fold_left _ _ _) in *. split.
  - intros i Hi. unfold rowsum_spec. rewrite <- (Hv i Hi). rewrite Forall_forall in H2. apply H2.
    apply nth_In. lia.
  - destruct H3 as [H3|H3]; [left; rewrite H3; apply (ok0 A ok)|].
    right. apply In_nth with (d := a0 A) in H3. destruct H3 as (i & Hi & Hn).
    exists i. split; [lia|]. unfold rowsum_spec. rewrite <- Hv by lia. rewrite Hn. reflexivity.
Qed.

Theorem norm_selection_thm Stype trans n cols :
  (1 <= n)%nat -> length cols = n -> (Stype = c_SLU_NC \/ Stype = c_SLU_NR) ->
  let d := ssvx_decode Stype trans in
  exists r, langs A (dec_normc d) n n cols = Some r /\
    is_max_of r n (if (trans =? c_NOTRANS)%Z then user_colsum Stype cols else user_rowsum Stype cols) /\
    gscon_onenrm (dec_normc d) = dec_notran d /\
    dec_trant d = (if (Stype =? c_SLU_NR)%Z then (if (trans =? c_NOTRANS)%Z then c_TRANS else c_NOTRANS) else trans).
Proof.
  intros Hn Hl HS d. unfold d, ssvx_decode, langs.
  replace (Nat.min n n =? 0)%nat with false by (symmetry; apply Nat.eqb_neq; lia).
  destruct HS as [-> | ->]; cbn [Z.eqb Pos.eqb c_SLU_NC c_SLU_NR];
    destruct (trans =? c_NOTRANS)%Z eqn:Et; cbn [dec_normc dec_notran dec_trant];
    unfold user_colsum, user_rowsum; cbn [c_SLU_NC c_SLU_NR Z.eqb Pos.eqb].
  - exists (langs_one A cols). split; [reflexivity|]. split; [rewrite <- Hl; apply langs_one_spec|]. split; reflexivity.
  - exists (langs_inf A n cols). split; [reflexivity|]. split; [apply langs_inf_spec|]. split; reflexivity.
  - exists (langs_inf A n cols). split; [reflexivity|]. split; [apply langs_inf_spec|]. split; reflexivity.
  - exists (langs_one A cols). split; [reflexivity|]. split; [rewrite <- Hl; apply langs_one_spec|]. split; reflexivity.
Qed.
End LangsQ.

(* ------------------------------------------------------------------ info = n+1 *)
Theorem info_nplus1_thm Stype trans ncol info_solve b :
  (0 <= ncol)%Z -> (info_solve <= 0)%Z ->
  (ssvx_info ncol 0 info_solve b = (ncol + 1)%Z <-> b = true) /\
  (exists pre, ssvx_calls Stype trans ncol 0 =
               pre ++ [CallGstrs (dec_trant (ssvx_decode Stype trans)); CallGsrfs (dec_trant (ssvx_decode Stype trans))]).
Proof.
  intros Hn Hs. split.
  - unfold ssvx_info. cbn [Z.ltb Z.compare]. destruct b; split; intros H; try reflexivity; try lia; discriminate.
  - unfold ssvx_calls. cbn [Z.ltb Z.compare]. eexists [_; _; _]. reflexivity.
Qed.

(* ================================================================== Part 6 *)

Section PG.
Context {T : Type} (A : Arith T).
Variable d : pg_data (T:=T).
Variable nsuper : nat.
Variable ncols : nat.

Definition fs (k : nat) : nat := Z.to_nat (nth k (pg_sup_beg d) 0%Z).
Definition ls (k : nat) : nat := Z.to_nat (nth k (pg_sup_end d) 0%Z).

(* the supernodes tile the columns: first starts at 0, each ends where the next starts, ncols columns covered *)
Record pg_wf : Prop := mkWf {
  wf_first : fs O = O;
  wf_order : forall k, (k <= nsuper)%nat -> (fs k <= ls k)%nat;
  wf_next : forall k, (k < nsuper)%nat -> ls k = fs (S k);
  wf_cover : (ncols <= ls nsuper)%nat }.

(* first column of the supernode that contains column j *)
Variable c2f : nat -> nat.
Hypothesis c2f_ok : forall k j, (k <= nsuper)%nat -> (fs k <= j < ls k)%nat -> c2f j = fs k.

Definition stepG (r : T) (j : nat) : T := smin A r (pg_ratio A d (c2f j) j).

Lemma pg_inner_spec fsupc last : forall fuel j rpg,
  (j <= last)%nat -> (last - j <= fuel)%nat ->
  pg_inner A d fsupc fuel j last ncols rpg =
  (fold_left (fun r j => smin A r (pg_ratio A d fsupc j)) (seq j (Nat.min last ncols - j)) rpg,
   Nat.max j (Nat.min last ncols)).
Proof.
  induction fuel as [|f IH]; intros j rpg Hj Hf; cbn [pg_inner].
  - assert (j = last) by lia. subst j. replace (Nat.min last ncols - last)%nat with O by lia. cbn [seq fold_left].
    f_equal. lia.
  - destruct (j <? last)%nat eqn:E1; [destruct (j <? ncols)%nat eqn:E2|]; cbn [andb].
    + apply Nat.ltb_lt in E1. apply Nat.ltb_lt in E2.
      rewrite IH by lia.
      replace (Nat.min last ncols - j)%nat with (S (Nat.min last ncols - S j)) by lia. cbn [seq fold_left].
      f_equal. lia.
    + apply Nat.ltb_ge in E2. replace (Nat.min last ncols - j)%nat with O by lia. cbn [seq fold_left]. f_equal. lia.
    + apply Nat.ltb_ge in E1. replace (Nat.min last ncols - j)%nat with O by lia. cbn [seq fold_left]. f_equal. lia.
Qed.

Lemma fold_ext_seq (g h : T -> nat -> T) a m : (forall r j, (a <= j < a + m)%nat -> g r j = h r j) ->
  forall r, fold_left g (seq a m) r = fold_left h (seq a m) r.
Proof.
  revert a. induction m as [|m IH]; intros a H r; cbn; [reflexivity|].
  rewrite H by lia. apply IH. intros. apply H. lia.
Qed.

Lemma pg_outer_step (wf : pg_wf) k m rpg : (k <= nsuper)%nat ->
  (forall rpg', (ls k < ncols)%nat -> pg_outer A d (seq (S k) m) ncols rpg' =
      fold_left stepG (seq (ls k) (ncols - ls k)) rpg') ->
  pg_outer A d (seq k (S m)) ncols rpg =
  fold_left stepG (seq (Nat.min (fs k) ncols) (ncols - Nat.min (fs k) ncols)) rpg.
Proof.
  intros Hkn Hrest.
  cbn [seq pg_outer]. fold (fs k) (ls k).
  pose proof (wf_order wf k Hkn) as Hord.
  rewrite pg_inner_spec by lia.
  assert (Hfold : fold_left (fun r j => smin A r (pg_ratio A d (fs k) j)) (seq (fs k) (Nat.min (ls k) ncols - fs k)) rpg =
                  fold_left stepG (seq (fs k) (Nat.min (ls k) ncols - fs k)) rpg).
  { apply fold_ext_seq. intros r j Hj. unfold stepG. rewrite (c2f_ok k j Hkn) by lia. reflexivity. }
  rewrite Hfold.
  destruct (ncols <=? Nat.max (fs k) (Nat.min (ls k) ncols))%nat eqn:E.
  - apply Nat.leb_le in E.
    destruct (Nat.le_gt_cases ncols (fs k)) as [Hc|Hc].
    + replace (Nat.min (ls k) ncols - fs k)%nat with O by lia.
      replace (ncols - Nat.min (fs k) ncols)%nat with O by lia. reflexivity.
    + assert (ncols <= ls k)%nat by lia.
      replace (Nat.min (ls k) ncols) with ncols by lia. replace (Nat.min (fs k) ncols) with (fs k) by lia. reflexivity.
  - apply Nat.leb_gt in E.
    assert (Hlt : (ls k < ncols)%nat) by lia.
    rewrite Hrest by assumption.
    replace (Nat.min (ls k) ncols) with (ls k) by lia. replace (Nat.min (fs k) ncols) with (fs k) by lia.
    rewrite <- fold_left_app.
    replace (ncols - fs k)%nat with ((ls k - fs k) + (ncols - ls k))%nat by lia. rewrite seq_app.
    replace (fs k + (ls k - fs k))%nat with (ls k) by lia. reflexivity.
Qed.

Lemma pg_outer_spec (wf : pg_wf) : forall m k rpg, (k + S m = S nsuper)%nat ->
  pg_outer A d (seq k (S m)) ncols rpg =
  fold_left stepG (seq (Nat.min (fs k) ncols) (ncols - Nat.min (fs k) ncols)) rpg.
Proof.
  induction m as [|m IH]; intros k rpg Hk; apply (pg_outer_step wf); try lia.
  - intros rpg' Hlt. assert (k = nsuper) by lia. subst k. pose proof (wf_cover wf). lia.
  - intros rpg' Hlt. rewrite IH by lia. rewrite <- (wf_next wf k) by lia.
    replace (Nat.min (ls k) ncols) with (ls k) by lia. reflexivity.
Qed.

Theorem pivot_growth_def_thm (wf : pg_wf) smlnum :
  pivot_growth A d nsuper ncols smlnum = fold_left stepG (seq O ncols) (adiv A (a1 A) smlnum).
Proof.
  unfold pivot_growth. rewrite (pg_outer_spec wf nsuper O) by lia.
  rewrite (wf_first wf). cbn [Nat.min]. rewrite Nat.sub_0_r. reflexivity.
Qed.
End PG.

(* ================================================================== Part 7: pivot growth in exact arithmetic, instances, non-vacuity *)
Section PGQ.
Variable A : Arith Q.
Hypothesis ok : ArithQ_ok A.

Lemma smin_cases x y : (x < y /\ smin A x y = x) \/ (y <= x /\ smin A x y = y).
Proof.
  unfold smin. destruct (altb A x y) eqn:E.
  - left. split; [apply (ok_ltb A ok); assumption|reflexivity].
  - right. split; [apply (ltb_false A ok); assumption|reflexivity].
Qed.

(* a left fold of SUPERLU_MIN is the minimum: below the start value and every element, and equal to one of them *)
Lemma fold_smin (g : nat -> Q) js : forall acc,
  let r := fold_left (fun r j => smin A r (g j)) js acc in
  r <= acc /\ Forall (fun j => r <= g j) js /\ (r = acc \/ exists j, In j js /\ r = g j).
Proof.
  induction js as [|j js IH]; intros acc; cbn.
  - split; [apply Qle_refl|]. split; [constructor|left; reflexivity].
  - destruct (IH (smin A acc (g j))) as (H1 & H2 & H3).
    destruct (smin_cases acc (g j)) as [[Hlt E]|[Hle E]]; rewrite E in *.
    + split; [assumption|]. split; [constructor; [lra|assumption]|].
      destruct H3 as [H3|(j' & Hin & H3)]; [left; assumption|right; exists j'; split; [right; assumption|assumption]].
    + split; [lra|]. split; [constructor; assumption|].
      destruct H3 as [H3|(j' & Hin & H3)]; [right; exists j; split; [left; reflexivity|assumption]
                                           |right; exists j'; split; [right; assumption|assumption]].
Qed.

(* max |.| of a list, as computed by the SUPERLU_MAX loops *)
Lemma maxabs_from_spec l : forall m0, 0 <= m0 ->
  let m := maxabs_from A m0 l in
  m0 <= m /\ Forall (fun x => Qabs x <= m) l /\ (m = m0 \/ exists x, In x l /\ m == Qabs x).
Proof.
  unfold maxabs_from. induction l as [|x r IH]; intros m0 H0; cbn.
  - split; [apply Qle_refl|]. split; [constructor|left; reflexivity].
  - assert (Hx : afabs A x == Qabs x) by apply (ok_abs A ok).
    pose proof (Qabs_nonneg x) as Hxp.
    destruct (smax_cases A ok m0 (afabs A x)) as [[Hlt E]|[Hle E]]; rewrite E.
    + destruct (IH m0 H0) as (H1 & H2 & H3). split; [assumption|]. split; [constructor; [lra|assumption]|].
      destruct H3 as [H3|(y & Hin & H3)]; [left; assumption|right; exists y; split; [right; assumption|assumption]].
    + destruct (IH (afabs A x)) as (H1 & H2 & H3); [lra|]. split; [lra|]. split; [constructor; [lra|assumption]|].
      destruct H3 as [H3|(y & Hin & H3)]; [right; exists x; split; [left; reflexivity|rewrite H3; assumption]
                                          |right; exists y; split; [right; assumption|assumption]].
Qed.

Theorem pivot_growth_is_min_thm (d : pg_data) nsuper ncols c2f smlnum :
  pg_wf d nsuper ncols -> (forall k j, (k <= nsuper)%nat -> (fs d k <= j < ls d k)%nat -> c2f j = fs d k) ->
  let r := pivot_growth A d nsuper ncols smlnum in
  let ratio := fun j => pg_ratio A d (c2f j) j in
  r <= adiv A (a1 A) smlnum /\ (forall j, (j < ncols)%nat -> r <= ratio j) /\
  (r = adiv A (a1 A) smlnum \/ exists j, (j < ncols)%nat /\ r = ratio j).
Proof.
  intros wf Hc r ratio. unfold r. rewrite (pivot_growth_def_thm A d nsuper ncols c2f Hc wf).
  unfold stepG. destruct (fold_smin ratio (seq O ncols) (adiv A (a1 A) smlnum)) as (H1 & H2 & H3).
  split; [assumption|]. split.
  - intros j Hj. rewrite Forall_forall in H2. apply H2. apply in_seq. lia.
  - destruct H3 as [H3|(j & Hin & H3)]; [left; assumption|]. right. exists j. apply in_seq in Hin. split; [lia|assumption].
Qed.
End PGQ.

(* the two Q instances are exact *)
Lemma Qle_bool_lt x y : negb (Qle_bool y x) = true <-> x < y.
Proof.
  rewrite negb_true_iff. split; intros H.
  - apply Qnot_le_lt. intros Hle. apply Qle_bool_iff in Hle. congruence.
  - destruct (Qle_bool y x) eqn:E; [|reflexivity]. apply Qle_bool_iff in E. lra.
Qed.

Ltac aprj := cbn [a0 a1 aadd asub amul adiv aopp afabs altb aleb aeqb aofZ QArith_plain QArith_red].
Lemma QArith_plain_ok : ArithQ_ok QArith_plain.
Proof.
  constructor; aprj; intros; try reflexivity.
  - apply Qle_bool_lt.
  - apply Qle_bool_iff.
  - apply Qeq_bool_iff.
Qed.

Lemma QArith_red_ok : ArithQ_ok QArith_red.
Proof.
  constructor; aprj; intros; try reflexivity; try apply Qred_correct.
  - apply Qle_bool_lt.
  - apply Qle_bool_iff.
  - apply Qeq_bool_iff.
Qed.

(* ---- non-vacuity: a concrete 2x2 operator, M = [[1,2],[3,4]], ||M||_1 = 6, M e/2 = (3/2, 7/2) *)
Definition exM : list (list Q) := [[1; 2]; [3; 4]].
Definition exMt : list (list Q) := [[1; 3]; [2; 4]].
Definition ex_opM := dense_mv QArith_red exM.
Definition ex_opMT := dense_mv QArith_red exMt.

Example ex_len_M : forall x, length x = 2%nat -> length (ex_opM x) = 2%nat.
Proof. intros. reflexivity. Qed.
Example ex_len_MT : forall x, length x = 2%nat -> length (ex_opMT x) = 2%nat.
Proof. intros. reflexivity. Qed.
Example ex_adjoint : forall a b, length a = 2%nat -> length b = 2%nat -> dot (ex_opM a) b == dot a (ex_opMT b).
Proof.
  intros [|a1 [|a2 [|? ?]]] [|b1 [|b2 [|? ?]]] Ha Hb; try discriminate.
  unfold ex_opM, ex_opMT, dense_mv, dotacc, exM, exMt.
  cbn [map combine fold_left fst snd dot aadd amul a0 QArith_red].
  rewrite !Qred_correct. ring.
Qed.
Example ex_run : exists r, lacon_run QArith_red 2 ex_opM ex_opMT (st_init QArith_red) = Some r /\
                           est (r_io r) == 6 /\ r_napp r = 4%nat.
Proof. eexists. split; [vm_compute; reflexivity|]. split; [reflexivity|reflexivity]. Qed.
Example ex_norm_bound : forall w, length w = 2%nat -> sumabs (ex_opM w) <= 6 * sumabs w.
Proof.
  intros [|a1 [|a2 [|? ?]]] Hw; try discriminate.
  unfold ex_opM, dense_mv, dotacc, exM. cbn [map combine fold_left fst snd sumabs aadd amul a0 QArith_red].
  rewrite !Qred_correct.
  pose proof (Qabs_triangle (0 + 1 * a1) (2 * a2)). pose proof (Qabs_triangle (0 + 3 * a1) (4 * a2)).
  assert (E1 : Qabs (0 + 1 * a1) == Qabs a1) by (apply Qabs_wd; ring).
  assert (E2 : Qabs (0 + 3 * a1) == 3 * Qabs a1) by (setoid_replace (0 + 3 * a1) with (3 * a1) by ring; rewrite Qabs_Qmult; reflexivity).
  assert (E3 : Qabs (2 * a2) == 2 * Qabs a2) by (rewrite Qabs_Qmult; reflexivity).
  assert (E4 : Qabs (4 * a2) == 4 * Qabs a2) by (rewrite Qabs_Qmult; reflexivity).
  pose proof (Qabs_nonneg a1). pose proof (Qabs_nonneg a2). lra.
Qed.

(* dgscon on L = I, U = 2 I : inv(A) = I/2, both norms 1/2, anorm = 2  =>  rcond = 1 *)
Definition ex_f (k : trsv_kind) (x : list Q) : list Q :=
  match k with tr_UN | tr_UT => map (fun v => Qred (v / 2)) x | _ => x end.
Example ex_gscon : let r := gscon QArith_red 49 (Ldesc 3) (Udesc 3) (psolve ex_f) tt (st_init QArith_red) 2 in
  g_info r = 0%Z /\ g_rcond r = Some 1 /\ g_ok r = true.
Proof. vm_compute. repeat split. Qed.
Example ex_gscon_len : forall k x, length x = 3%nat -> length (ex_f k x) = 3%nat.
Proof. intros [] x H; cbn; rewrite ?map_length; assumption. Qed.

(* norm selection: a 2x2 stored matrix [[1,-2],[3,4]] (lists = columns for NC, = rows for NR) *)
Definition ex_cols : list (list (nat * Q)) := [[(0%nat, 1); (1%nat, -2)]; [(0%nat, 3); (1%nat, 4)]].
Example ex_norms :
  langs QArith_red 49 2 2 ex_cols = Some 7 /\ langs QArith_red 73 2 2 ex_cols = Some 6 /\
  dec_normc (ssvx_decode c_SLU_NR c_NOTRANS) = 73%Z /\ dec_normc (ssvx_decode c_SLU_NC c_NOTRANS) = 49%Z.
Proof. vm_compute. repeat split. Qed.

(* pivot growth: 3 columns, supernodes {0,1} and {2}; L block of supernode 0 is 3x2 (nsupr = 3) *)
Definition ex_pg : pg_data (T:=Q) :=
  mkPg [0; 2]%Z [2; 3]%Z [0; 0; 3]%Z [3; 3; 4]%Z [0; 3; 6]%Z
       [4; 1#2; 1#4;   2; 8; 1#8;   5]            (* supernodal values: U parts are 4 | 2 8 | 5 *)
       [0; 0; 0]%Z [0; 0; 2]%Z [1; -10]            (* U outside the supernodes: column 2 has 1, -10 *)
       [0; 1; 2; 3]%Z [2; -4; 5]                   (* A: one entry per column *)
       [0; 1; 2]%Z.
Example ex_pg_wf : pg_wf ex_pg 1 3.
Proof.
  constructor; unfold fs, ls; cbn.
  - reflexivity.
  - intros [|[|k]] H; cbn; lia.
  - intros [|k] H; [reflexivity|lia].
  - lia.
Qed.
Example ex_pg_value : pivot_growth QArith_red ex_pg 1 3 (1#1024) == 1#2.
Proof. vm_compute. reflexivity. Qed.
