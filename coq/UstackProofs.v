(* C14 -- proofs about the workspace model (UstackModel.v). *)
Require Import ZArith List Bool Lia ZifyBool.
From SLU Require Import Consts UstackModel.
Import ListNotations.
Local Open Scope Z_scope.

(* ================================================================== *)
(* 1. rounding of integers to p significant bits *)

Lemma rnd_pos_ge : forall p z, 0 < z -> 0 < p ->
  z - 2 ^ (Z.log2 z + 1 - p) < rnd_pos p z \/ rnd_pos p z = z.
Proof.
  intros p z Hz Hp. unfold rnd_pos.
  destruct (Z.log2 z + 1 - p <=? 0) eqn:He; [right; reflexivity|left].
  apply Z.leb_gt in He.
  set (e := Z.log2 z + 1 - p) in *.
  assert (Hm : 0 < 2 ^ e) by (apply Z.pow_pos_nonneg; lia).
  pose proof (Z.div_mod z (2 ^ e) ltac:(lia)) as Hdm.
  pose proof (Z.mod_pos_bound z (2 ^ e) Hm) as Hr.
  destruct ((2 ^ e / 2 <? z mod 2 ^ e) || ((z mod 2 ^ e =? 2 ^ e / 2) && Z.odd (z / 2 ^ e))); nia.
Qed.

Lemma rnd_pos_nonneg : forall p z, 0 <= z -> 0 <= rnd_pos p z.
Proof.
  intros p z Hz. unfold rnd_pos.
  destruct (Z.log2 z + 1 - p <=? 0) eqn:He; [lia|].
  apply Z.leb_gt in He.
  set (e := Z.log2 z + 1 - p) in *.
  assert (Hm : 0 < 2 ^ e) by (apply Z.pow_pos_nonneg; lia).
  assert (0 <= z / 2 ^ e) by (apply Z.div_pos; lia).
  destruct ((2 ^ e / 2 <? z mod 2 ^ e) || ((z mod 2 ^ e =? 2 ^ e / 2) && Z.odd (z / 2 ^ e))); nia.
Qed.

Lemma rnd_pos_0 : forall p, rnd_pos p 0 = 0.
Proof.
  intros p. unfold rnd_pos. destruct (Z.log2 0 + 1 - p <=? 0) eqn:He; [reflexivity|].
  apply Z.leb_gt in He.
  assert (Hm : 0 < 2 ^ (Z.log2 0 + 1 - p)) by (apply Z.pow_pos_nonneg; lia).
  rewrite Z.div_0_l, Z.mod_0_l by lia.
  simpl Z.odd. rewrite andb_false_r, orb_false_r.
  destruct (2 ^ (Z.log2 0 + 1 - p) / 2 <? 0) eqn:E; [|reflexivity].
  apply Z.ltb_lt in E. exfalso.
  assert (0 <= 2 ^ (Z.log2 0 + 1 - p) / 2) by (apply Z.div_pos; lia). lia.
Qed.

Lemma rnd_nonneg : forall p z, 0 <= z -> 0 <= rnd p z.
Proof.
  intros p z Hz. unfold rnd. destruct (z <=? 0) eqn:E.
  - assert (z = 0) by lia. subst. change (- 0) with 0. rewrite rnd_pos_0. lia.
  - apply rnd_pos_nonneg; lia.
Qed.

(* relative error at most 2^-(p-1), used in the weak form 7/8 *)
Lemma rnd_lb8 : forall p z, 4 <= p -> 0 <= z -> 7 * z <= 8 * rnd p z.
Proof.
  intros p z Hp Hz. unfold rnd. destruct (z <=? 0) eqn:E.
  - assert (z = 0) by lia. subst. change (- 0) with 0. rewrite rnd_pos_0. lia.
  - apply Z.leb_gt in E.
    destruct (rnd_pos_ge p z E ltac:(lia)) as [H|H]; [|lia].
    (* 2^(log2 z + 1 - p) <= z / 8 *)
    destruct (Z.log2_spec z E) as [Hlo _].
    assert (Hle : 8 * 2 ^ (Z.log2 z + 1 - p) <= z).
    { destruct (Z_lt_le_dec (Z.log2 z + 1 - p) 0) as [Hneg|Hnn].
      - rewrite Z.pow_neg_r in * by lia. lia.
      - replace 8 with (2 ^ 3) by reflexivity. rewrite <- Z.pow_add_r by lia.
        eapply Z.le_trans; [|exact Hlo]. apply Z.pow_le_mono_r; lia. }
    lia.
Qed.

Lemma rnd_pos_of_pos : forall p z, 4 <= p -> 0 < z -> 0 < rnd p z.
Proof. intros p z Hp Hz. pose proof (rnd_lb8 p z Hp ltac:(lia)). lia. Qed.

Lemma f32_nonneg : forall z, 0 <= z -> 0 <= f32 z.
Proof. intros; apply rnd_nonneg; assumption. Qed.
Lemma f64_nonneg : forall z, 0 <= z -> 0 <= f64 z.
Proof. intros; apply rnd_nonneg; assumption. Qed.
Lemma f32_lb : forall z, 0 <= z -> 7 * z <= 8 * f32 z.
Proof. intros; apply rnd_lb8; lia. Qed.
Lemma f64_lb : forall z, 0 <= z -> 7 * z <= 8 * f64 z.
Proof. intros; apply rnd_lb8; lia. Qed.

(* small integers are exact (non-vacuity of the "codes are integers" reading) *)
Lemma rnd_exact : forall p z, 0 <= z < 2 ^ p -> 0 < p -> rnd p z = z.
Proof.
  intros p z [Hz Hlt] Hp. unfold rnd. destruct (z <=? 0) eqn:E.
  - assert (z = 0) by lia. subst. change (- 0) with 0. rewrite rnd_pos_0. reflexivity.
  - apply Z.leb_gt in E. unfold rnd_pos.
    assert (Z.log2 z < p) by (apply Z.log2_lt_pow2; lia).
    replace (Z.log2 z + 1 - p <=? 0) with true by (symmetry; apply Z.leb_le; lia). reflexivity.
Qed.

(* ================================================================== *)
(* 2. the bare two-ended allocator under a stack-disciplined client *)

Definition stack_inv (lwork : Z) (s : stack) : Prop :=
  s_size s = lwork /\ 0 <= s_top1 s /\ s_top1 s <= s_top2 s /\ s_top2 s <= s_size s /\
  s_used s = s_top1 s + (s_size s - s_top2 s).

(* HEAD blocks are stacked upwards from 0 to top1, TAIL blocks downwards from size to top2; above a TAIL block
   there may be a gap: the alignment slack (0..7 bytes) that the allocator took with it, which a client that frees
   the byte count it asked for does not give back *)
Fixpoint head_chain (top : Z) (l : list (Z * Z)) : Prop :=
  match l with
  | [] => top = 0
  | (off, b) :: t => 0 <= b /\ off + b = top /\ head_chain off t
  end.

Fixpoint tail_chain (size top : Z) (l : list (Z * Z)) : Prop :=
  match l with
  | [] => top <= size
  | (off, b) :: t => 0 <= b /\ top <= off /\ tail_chain size (off + b) t
  end.

Definition ust_inv (lwork : Z) (u : ust) : Prop :=
  stack_inv lwork (u_stack u) /\
  head_chain (s_top1 (u_stack u)) (u_head u) /\
  tail_chain lwork (s_top2 (u_stack u)) (u_tail u).

(* mod 8 facts *)
Ltac lia8 := Z.div_mod_to_equations; lia.

Lemma misalign_bounds : forall ba off, 0 <= misalign ba off < 8.
Proof. intros. unfold misalign. lia8. Qed.

Lemma tail_extra_bounds : forall ba bytes s, 0 <= tail_extra ba bytes s < 8.
Proof. intros. unfold tail_extra. apply misalign_bounds. Qed.

(* the offset handed out at the TAIL end is on an 8-byte boundary, whatever ba, top2 and bytes are *)
Lemma tail_offset_aligned : forall ba top2 bytes,
  misalign ba (top2 - (bytes + misalign ba (top2 - bytes))) = 0.
Proof. intros. unfold misalign. lia8. Qed.

Lemma user_malloc_refused_unchanged : forall ba bytes e s,
  fst (user_malloc ba bytes e s) = None -> snd (user_malloc ba bytes e s) = s.
Proof.
  intros ba bytes e s. unfold user_malloc. destruct (stack_full bytes s); [reflexivity|].
  destruct e; simpl; [discriminate|].
  destruct (stack_full (bytes + tail_extra ba bytes s) s); [reflexivity|discriminate].
Qed.

(* a granted TAIL request takes  bytes + extra,  0 <= extra < 8,  and the block starts on an 8-byte boundary *)
Lemma user_malloc_granted : forall ba bytes e s off s',
  user_malloc ba bytes e s = (Some off, s') ->
  stack_full bytes s = false /\
  match e with
  | HEAD => off = s_top1 s /\ s' = mkStack (s_size s) (s_used s + bytes) (s_top1 s + bytes) (s_top2 s)
  | TAIL => let extra := tail_extra ba bytes s in
            0 <= extra < 8 /\ stack_full (bytes + extra) s = false /\ misalign ba off = 0 /\
            off = s_top2 s - (bytes + extra) /\
            s' = mkStack (s_size s) (s_used s + (bytes + extra)) (s_top1 s) (s_top2 s - (bytes + extra))
  end.
Proof.
  intros ba bytes e s off s'. unfold user_malloc. destruct (stack_full bytes s); [discriminate|].
  destruct e.
  - intros H; inversion H; subst; auto.
  - cbv zeta. destruct (stack_full (bytes + tail_extra ba bytes s) s) eqn:E2; [discriminate|].
    intros H; inversion H; subst. split; [reflexivity|].
    split; [apply tail_extra_bounds|]. split; [reflexivity|].
    split; [unfold tail_extra; apply tail_offset_aligned|]. split; reflexivity.
Qed.

Lemma user_malloc_tail_aligned : forall ba bytes s off s',
  user_malloc ba bytes TAIL s = (Some off, s') -> misalign ba off = 0.
Proof. intros ba bytes s off s' H. apply user_malloc_granted in H. cbv zeta in H. tauto. Qed.

(* a refusal: not even `bytes` fits (HEAD, TAIL), or the aligned TAIL block does not fit *)
Lemma user_malloc_refused : forall ba bytes e s s',
  user_malloc ba bytes e s = (None, s') ->
  s' = s /\ (stack_full bytes s = true \/ (e = TAIL /\ stack_full (bytes + tail_extra ba bytes s) s = true)).
Proof.
  intros ba bytes e s s'. unfold user_malloc. destruct (stack_full bytes s).
  - intros H; inversion H; auto.
  - destruct e; [discriminate|]. cbv zeta.
    destruct (stack_full (bytes + tail_extra ba bytes s) s); [|discriminate].
    intros H; inversion H; auto.
Qed.

Lemma tail_chain_lower : forall l size top top', tail_chain size top l -> top' <= top -> tail_chain size top' l.
Proof. destruct l as [|[off b] t]; simpl; intros size top top' H Hle; [lia|]. destruct H as (? & ? & ?). repeat split; auto; lia. Qed.

Lemma tail_chain_top : forall l size top, tail_chain size top l -> top <= size.
Proof.
  induction l as [|[off b] t IH]; simpl; intros size top H; [lia|].
  destruct H as (Hb & Hob & Hc). specialize (IH _ _ Hc). lia.
Qed.

Lemma do_req_inv : forall ba lwork r u, req_ok r -> ust_inv lwork u -> ust_inv lwork (do_req ba r u).
Proof.
  intros ba lwork r u Hr (Hs & Hh & Ht).
  destruct Hs as (Hsz & H1 & H12 & H2 & Hu).
  destruct r as [bytes e | e | | ]; simpl in *.
  - destruct (user_malloc ba bytes e (u_stack u)) as [[off|] s'] eqn:E.
    + apply user_malloc_granted in E. destruct E as [Hf E]. unfold stack_full in Hf.
      apply Z.leb_gt in Hf.
      destruct e.
      * destruct E as [-> ->]. unfold ust_inv, stack_inv; simpl; repeat split; try lia; auto.
      * cbv zeta in E. destruct E as (Hex & Hf2 & _ & -> & ->). unfold stack_full in Hf2. apply Z.leb_gt in Hf2.
        set (extra := tail_extra ba bytes (u_stack u)) in *.
        unfold ust_inv, stack_inv; simpl; repeat split; try lia; auto.
        eapply tail_chain_lower; [exact Ht|lia].
    + unfold ust_inv, stack_inv; auto 10.
  - destruct e.
    + destruct (u_head u) as [|[off b] t] eqn:E; [unfold ust_inv, stack_inv; rewrite E; auto 10|].
      simpl in Hh. destruct Hh as (Hb & Hob & Hc).
      assert (0 <= off).
      { clear - Hc. revert off Hc. induction t as [|[o b'] t IH]; simpl; intros; [lia|].
        destruct Hc as (? & ? & Hc). specialize (IH _ Hc). lia. }
      unfold ust_inv, stack_inv; simpl; repeat split; try lia; auto.
      replace (s_top1 (u_stack u) - b) with off by lia. assumption.
    + destruct (u_tail u) as [|[off b] t] eqn:E; [unfold ust_inv, stack_inv; rewrite E; auto 10|].
      simpl in Ht. destruct Ht as (Hb & Hob & Hc).
      pose proof (tail_chain_top _ _ _ Hc) as Htop.
      unfold ust_inv, stack_inv; simpl; repeat split; try lia; auto.
      eapply tail_chain_lower; [exact Hc|lia].
  - unfold ust_inv, stack_inv; auto 10.
  - unfold ust_inv, stack_inv, tail_reclaim_stack; simpl; repeat split; try lia; auto.
Qed.

Lemma init_ust_inv : forall lwork, 0 < lwork -> ust_inv lwork (init_ust lwork).
Proof. intros. unfold ust_inv, stack_inv, init_ust, setup_stack; simpl. repeat split; lia. Qed.

Lemma run_reqs_inv : forall ba lwork rs u, Forall req_ok rs -> ust_inv lwork u -> ust_inv lwork (run_reqs ba rs u).
Proof.
  intros ba lwork rs. induction rs as [|r rs IH]; intros u Hok Hinv; simpl; [assumption|].
  inversion Hok; subst. apply IH; [assumption|]. apply do_req_inv; assumption.
Qed.

(* consequences of the chains: ranges and disjointness *)
Lemma head_chain_range : forall l top, head_chain top l ->
  0 <= top /\ Forall (block_in 0 top) l.
Proof.
  induction l as [|[off b] t IH]; simpl; intros top H.
  - split; [lia|constructor].
  - destruct H as (Hb & Hob & Hc). destruct (IH _ Hc) as [H0 HF]. split; [lia|].
    constructor; [unfold block_in; simpl; lia|].
    eapply Forall_impl; [|exact HF]. unfold block_in; intros; lia.
Qed.

Lemma tail_chain_range : forall l size top, tail_chain size top l ->
  top <= size /\ Forall (block_in top size) l.
Proof.
  induction l as [|[off b] t IH]; simpl; intros size top H.
  - split; [lia|constructor].
  - destruct H as (Hb & Hob & Hc). destruct (IH _ _ Hc) as [H0 HF]. split; [lia|].
    constructor; [unfold block_in; simpl; lia|].
    eapply Forall_impl; [|exact HF]. unfold block_in; intros; lia.
Qed.

Lemma head_chain_disjoint : forall l top, head_chain top l -> ForallOrdPairs disjoint l.
Proof.
  induction l as [|[off b] t IH]; simpl; intros top H; [constructor|].
  destruct H as (Hb & Hob & Hc). constructor; [|eapply IH; eassumption].
  destruct (head_chain_range _ _ Hc) as [_ HF].
  eapply Forall_impl; [|exact HF]. unfold block_in, disjoint; simpl; intros; lia.
Qed.

Lemma tail_chain_disjoint : forall l size top, tail_chain size top l -> ForallOrdPairs disjoint l.
Proof.
  induction l as [|[off b] t IH]; simpl; intros size top H; [constructor|].
  destruct H as (Hb & Hob & Hc). constructor; [|eapply IH; eassumption].
  destruct (tail_chain_range _ _ _ Hc) as [_ HF].
  eapply Forall_impl; [|exact HF]. unfold block_in, disjoint; simpl; intros; lia.
Qed.

Lemma ForallOrdPairs_app : forall (A : Type) (R : A -> A -> Prop) l1 l2,
  ForallOrdPairs R l1 -> ForallOrdPairs R l2 -> (forall a b, In a l1 -> In b l2 -> R a b) ->
  ForallOrdPairs R (l1 ++ l2).
Proof.
  intros A R l1 l2 H1 H2 H12. induction H1 as [|a l Ha Hl IH]; simpl; [assumption|].
  constructor.
  - apply Forall_app; split; [assumption|]. apply Forall_forall; intros b Hb. apply H12; [left; reflexivity|assumption].
  - apply IH. intros; apply H12; [right|]; assumption.
Qed.

(* every live TAIL block starts on an 8-byte boundary *)
Definition tail_aligned (ba : Z) (u : ust) : Prop := Forall (fun b => misalign ba (fst b) = 0) (u_tail u).

Lemma do_req_tail_aligned : forall ba r u, tail_aligned ba u -> tail_aligned ba (do_req ba r u).
Proof.
  intros ba r u H. unfold tail_aligned in *. destruct r as [bytes e | e | | ]; simpl.
  - destruct (user_malloc ba bytes e (u_stack u)) as [[off|] s'] eqn:E; [|assumption].
    destruct e; simpl; [assumption|]. constructor; [|assumption]. simpl. eapply user_malloc_tail_aligned; eassumption.
  - destruct e.
    + destruct (u_head u) as [|[off b] t]; simpl; assumption.
    + destruct (u_tail u) as [|[off b] t] eqn:E; simpl; [rewrite E; constructor|]. inversion H; assumption.
  - assumption.
  - constructor.
Qed.

Lemma run_reqs_tail_aligned : forall ba rs u, tail_aligned ba u -> tail_aligned ba (run_reqs ba rs u).
Proof.
  intros ba rs. induction rs as [|r rs IH]; intros u H; simpl; [assumption|].
  apply IH. apply do_req_tail_aligned. assumption.
Qed.

Lemma ustack_safe_lemma : forall ba lwork rs, 0 < lwork -> Forall req_ok rs ->
  let u := run_reqs ba rs (init_ust lwork) in
  let s := u_stack u in
  Forall (block_in 0 lwork) (u_head u ++ u_tail u) /\
  ForallOrdPairs disjoint (u_head u ++ u_tail u) /\
  s_used s = s_top1 s + (s_size s - s_top2 s) /\
  0 <= s_top1 s <= s_top2 s /\ s_top2 s <= lwork /\ s_size s = lwork.
Proof.
  intros ba lwork rs Hl Hok u s.
  pose proof (run_reqs_inv ba lwork rs _ Hok (init_ust_inv lwork Hl)) as (Hs & Hh & Ht).
  fold u in Hs, Hh, Ht. fold s in Hs, Hh, Ht.
  destruct Hs as (Hsz & H1 & H12 & H2 & Hu).
  destruct (head_chain_range _ _ Hh) as [_ HFh].
  destruct (tail_chain_range _ _ _ Ht) as [_ HFt].
  repeat split; try lia.
  - apply Forall_app; split; (eapply Forall_impl; [|eassumption]); unfold block_in; intros; lia.
  - apply ForallOrdPairs_app.
    + eapply head_chain_disjoint; eassumption.
    + eapply tail_chain_disjoint; eassumption.
    + intros a b Ha Hb. rewrite Forall_forall in HFh, HFt.
      specialize (HFh _ Ha). specialize (HFt _ Hb). unfold block_in, disjoint in *. lia.
Qed.

(* ... and every live TAIL block is on an 8-byte boundary *)
Lemma ustack_tail_aligned_lemma : forall ba lwork rs,
  Forall (fun b => misalign ba (fst b) = 0) (u_tail (run_reqs ba rs (init_ust lwork))).
Proof. intros. apply run_reqs_tail_aligned. constructor. Qed.

(* non-vacuity: a disciplined sequence that really allocates on both ends, is refused once and frees; the buffer
   starts at an address = 4 mod 8, so the TAIL request of 200 bytes takes 204 (offset 796: address = 0 mod 8) *)
Example ustack_safe_nonvacuous :
  let u := run_reqs 4 [RMalloc 100 HEAD; RMalloc 200 TAIL; RMalloc 700 HEAD; RMalloc 695 HEAD] (init_ust 1000) in
  u_head u = [(100, 695); (0, 100)] /\ u_tail u = [(796, 200)] /\ u_stack u = mkStack 1000 999 795 796 /\
  let u' := run_reqs 4 [RFreeLast HEAD; RReclaim] u in
  u_head u' = [(0, 100)] /\ u_tail u' = [] /\ u_stack u' = mkStack 1000 100 100 1000.
Proof. vm_compute. auto 10. Qed.

(* ================================================================== *)
(* 3. p?gstrf_MemInit *)

Definition no_hang {A} (r : res A) : Prop :=
  match r with Stop Hang _ => False | _ => True end.

Lemma bind_no_hang : forall A B (r : res A) (f : A -> mem -> res B),
  no_hang r -> (forall a m, no_hang (f a m)) -> no_hang (bind r f).
Proof. intros A B [a m|s m] f Hr Hf; simpl; auto. Qed.

Section MemInit.
Variable fail : nat -> bool.
Variable c : cfg.

Lemma set_expander_no_hang : forall ty p sz m, no_hang (set_expander ty p sz m).
Proof. intros. unfold set_expander. destruct (m_exp m); simpl; exact I. Qed.

Lemma expand0_no_hang : forall len ty m, no_hang (expand0 fail c len ty m).
Proof.
  intros len ty m. unfold expand0. destruct (m_space m).
  - destruct (sys_malloc fail _ m) as [p m1]. apply bind_no_hang; [apply set_expander_no_hang|intros; exact I].
  - destruct (umalloc _ HEAD m) as [p m1].
    match goal with |- no_hang (let '(p2, m2) := ?X in _) => destruct X as [p2 m2] end.
    apply bind_no_hang; [apply set_expander_no_hang|intros; exact I].
Qed.

Lemma int_malloc_no_hang : forall n m, no_hang (int_malloc fail n m).
Proof. intros. unfold int_malloc. destruct (sys_malloc fail _ m) as [p m1]. destruct (is_null p); exact I. Qed.

Lemma alloc_ints_sys_no_hang : forall szs m, no_hang (alloc_ints_sys fail szs m).
Proof.
  induction szs as [|s t IH]; intros m; simpl; [exact I|].
  apply bind_no_hang; [apply int_malloc_no_hang|]. intros p m1.
  apply bind_no_hang; [apply IH|intros; exact I].
Qed.

Lemma mi_prefix_no_hang : forall a m, no_hang (mi_prefix fail c a m).
Proof.
  intros a m. unfold mi_prefix.
  apply bind_no_hang.
  - destruct (m_space (setup_space (a_lwork a) m)).
    + apply bind_no_hang; [apply alloc_ints_sys_no_hang|intros; exact I].
    + destruct (alloc_ints_user _ _) as [ps m1]. destruct (existsb is_null ps); exact I.
  - intros [ia|] m1; [|exact I].
    apply bind_no_hang; [apply expand0_no_hang|intros lusup m2; cbv zeta].
    repeat (apply bind_no_hang; [apply expand0_no_hang|intros]). exact I.
Qed.

(* the retry loop halves nzumax at most log2(nzumax)+1 times, WHATEVER annz is: since fix 'the retry loop gives up when
   nzumax < 1' an iteration goes on only with 1 <= nzumax / 2 (before it, annz <= 1 made the give-up test constantly false) *)
Lemma retry_loop_no_hang : forall fuel annz ucol lsub usub nzumax nzlmax rt ru m,
  (Z.to_nat (Z.log2 nzumax) + 1 <= fuel)%nat ->
  no_hang (retry_loop fail c fuel annz ucol lsub usub nzumax nzlmax rt ru m).
Proof.
  induction fuel as [|fuel IH]; intros annz ucol lsub usub nzumax nzlmax rt ru m Hfuel; [lia|].
  simpl. destruct (negb (is_null ucol || is_null lsub || is_null usub)); [exact I|].
  destruct ((nzumax / 2 <? annz / 2) || (nzumax / 2 <? 1)) eqn:E; [exact I|].
  apply orb_false_iff in E. destruct E as [_ E]. apply Z.ltb_ge in E.
  assert (Hge2 : 2 <= nzumax).
  { destruct (Z_lt_le_dec nzumax 2); [|assumption]. exfalso.
    assert (nzumax / 2 < 1) by (apply Z.div_lt_upper_bound; lia). lia. }
  assert (1 <= Z.log2 nzumax) by (apply Z.log2_le_pow2; simpl; lia).
  assert (Hlog : Z.log2 (nzumax / 2) = Z.log2 nzumax - 1).
  { replace (nzumax / 2) with (Z.shiftr nzumax 1) by (rewrite Z.shiftr_div_pow2 by lia; reflexivity).
    rewrite Z.log2_shiftr by lia. lia. }
  repeat (apply bind_no_hang; [apply expand0_no_hang|intros]).
  apply IH. rewrite Hlog. lia.
Qed.

Lemma mi_finish_no_hang : forall a pre r m, no_hang (mi_finish c a pre r m).
Proof. intros. unfold mi_finish. destruct r; [destruct (is_null _)|]; exact I. Qed.

Lemma mi_refact_no_hang : forall a g m, no_hang (mi_refact a g m).
Proof.
  intros. unfold mi_refact.
  repeat (apply bind_no_hang; [apply set_expander_no_hang|intros]). exact I.
Qed.

(* MemInit terminates for EVERY annz (the hypothesis 2 <= a_annz a of earlier versions is gone) *)
Lemma meminit_terminates_lemma : forall fuel a m,
  (Z.to_nat (Z.log2 (nzumax0 c a)) + 1 <= fuel)%nat ->
  no_hang (mem_init fail c fuel a m).
Proof.
  intros fuel a m Hfuel. unfold mem_init.
  destruct (negb (a_refact a)).
  - destruct (a_lwork a =? -1); [exact I|].
    apply bind_no_hang; [apply mi_prefix_no_hang|]. intros [code|pre] m1; [exact I|].
    apply bind_no_hang; [apply retry_loop_no_hang; assumption|]. intros; apply mi_finish_no_hang.
  - destruct (a_prev a); [|exact I]. destruct (a_lwork a =? -1); [exact I|apply mi_refact_no_hang].
Qed.

(* more fuel never changes a result *)
Lemma retry_loop_fuel_mono : forall fuel k annz ucol lsub usub nzumax nzlmax rt ru m r m',
  retry_loop fail c fuel annz ucol lsub usub nzumax nzlmax rt ru m = Ok r m' ->
  retry_loop fail c (fuel + k) annz ucol lsub usub nzumax nzlmax rt ru m = Ok r m'.
Proof.
  induction fuel as [|fuel IH]; intros k annz ucol lsub usub nzumax nzlmax rt ru m r m' H.
  - simpl in H. destruct (negb (is_null ucol || is_null lsub || is_null usub)) eqn:E; [|discriminate].
    destruct k; simpl; rewrite E; exact H.
  - simpl in *. destruct (negb (is_null ucol || is_null lsub || is_null usub)); [exact H|].
    destruct ((nzumax / 2 <? annz / 2) || (nzumax / 2 <? 1)); [exact H|].
    destruct (expand0 fail c (nzumax / 2) c_UCOL _) as [p2 m2|s2 m2]; simpl in *; [|discriminate].
    destruct (expand0 fail c (nzlmax / 2) c_LSUB _) as [p3 m3|s3 m3]; simpl in *; [|discriminate].
    destruct (expand0 fail c (nzumax / 2) c_USUB _) as [p4 m4|s4 m4]; simpl in *; [|discriminate].
    apply IH. exact H.
Qed.

Lemma mem_init_fuel_mono : forall fuel k a m r m',
  mem_init fail c fuel a m = Ok r m' -> mem_init fail c (fuel + k) a m = Ok r m'.
Proof.
  intros fuel k a m r m'. unfold mem_init.
  destruct (negb (a_refact a)); [|auto].
  destruct (a_lwork a =? -1); [auto|].
  destruct (mi_prefix fail c a _) as [[code|pre] m1|s m1]; cbn [bind]; auto.
  destruct (retry_loop fail c fuel _ _ _ _ _ _ _ _ m1) as [r1 m2|s2 m2] eqn:E; cbn [bind]; [|discriminate].
  rewrite (retry_loop_fuel_mono _ k _ _ _ _ _ _ _ _ _ _ _ E). cbn [bind]. auto.
Qed.

End MemInit.

(* ------------------------------------------------------------------ *)
(* [repaired: fix 'the retry loop gives up when nzumax < 1'; was meminit_hang_lemma: the retry loop never ended when
   annz <= 1 and the system allocator kept failing (the test  nzumax < annz/2  is  nzumax < 0)]
   the very arguments of the old witness: system space (lwork = 0), a 1 x 1 matrix with one entry (annz = 1), default
   sp_ienv values, the system allocator fails from the 11th request on (i.e. the first L/U array cannot be allocated).
   nzumax goes 50, 25, 12, 6, 3, 1, 0: the sixth iteration gives up and MemInit returns
   memory_use(nzlmax = 0, nzumax = 0, nzlumax = 1) + n = 40 + 8 + 1 = 49 > n. *)
Definition hang_cfg : cfg := mkCfg 8 200 200 (-50) (-50) (-30).
Definition hang_args : mi_args := mkArgs 1 1 1 1 false false 1 0 0 0 0 None.
Definition hang_fail (k : nat) : bool := Nat.leb 11 k.

Lemma meminit_old_hang_witness_lemma : forall fuel, (6 <= fuel)%nat ->
  exists m', mem_init hang_fail hang_cfg fuel hang_args init_mem = Ok (MIfail 49) m' /\
             m_sysn m' = 29%nat /\ m_noexp m' = 0.
Proof.
  intros fuel Hf. replace fuel with (6 + (fuel - 6))%nat by lia.
  eexists. split; [apply mem_init_fuel_mono; vm_compute; reflexivity|]. split; reflexivity.
Qed.

(* ------------------------------------------------------------------ *)
(* a failure return of MemInit is a value > n *)
Section Code.
Variable fail : nat -> bool.
Variable c : cfg.
Hypothesis Hdw : 0 <= dword c.

Lemma memory_use_code_gt_n : forall n nzl nzu nzlu,
  1 <= n -> 0 <= nzl -> 0 <= nzu -> 0 <= nzlu ->
  n < f32 (memory_use c n nzl nzu nzlu + f32 n).
Proof.
  intros n nzl nzu nzlu Hn Hl Hu Hlu. unfold memory_use, iword.
  set (x1 := f64 (10 * n)).
  set (a := f64 (x1 * 4)).
  set (b := f32 (f32 nzl * 4)).
  set (cc := f32 (f32 nzu * f32 (4 + dword c))).
  set (d := f32 (f32 nzlu * dword c)).
  set (s1 := f64 (a + b)). set (s2 := f64 (s1 + cc)). set (s3 := f64 (s2 + d)). set (t := f32 s3).
  assert (Hx1 : 7 * (10 * n) <= 8 * x1) by (apply f64_lb; lia).
  assert (Hx1n : 0 <= x1) by (apply f64_nonneg; lia).
  assert (Ha : 7 * (x1 * 4) <= 8 * a) by (apply f64_lb; lia).
  assert (Hb : 0 <= b).
  { apply f32_nonneg. apply Z.mul_nonneg_nonneg; [apply f32_nonneg; lia|lia]. }
  assert (Hcc : 0 <= cc).
  { apply f32_nonneg. apply Z.mul_nonneg_nonneg; apply f32_nonneg; lia. }
  assert (Hd : 0 <= d).
  { apply f32_nonneg. apply Z.mul_nonneg_nonneg; [apply f32_nonneg; lia|lia]. }
  assert (Hs1 : 7 * (a + b) <= 8 * s1) by (apply f64_lb; lia).
  assert (Hs2 : 7 * (s1 + cc) <= 8 * s2) by (apply f64_lb; lia).
  assert (Hs3 : 7 * (s2 + d) <= 8 * s3) by (apply f64_lb; lia).
  assert (Ht : 7 * s3 <= 8 * t) by (apply f32_lb; lia).
  assert (Hfn : 0 <= f32 n) by (apply f32_nonneg; lia).
  assert (Hc : 7 * (t + f32 n) <= 8 * f32 (t + f32 n)) by (apply f32_lb; lia).
  lia.
Qed.

Lemma memory_use_code_gt_n1 : forall n nzl nzu nzlu,
  1 <= n -> 0 <= nzl -> 0 <= nzu -> 0 <= nzlu ->
  n + 1 < f32 (memory_use c n nzl nzu nzlu + f32 n).
Proof.
  intros n nzl nzu nzlu Hn Hl Hu Hlu. unfold memory_use, iword.
  set (x1 := f64 (10 * n)).
  set (a := f64 (x1 * 4)).
  set (b := f32 (f32 nzl * 4)).
  set (cc := f32 (f32 nzu * f32 (4 + dword c))).
  set (d := f32 (f32 nzlu * dword c)).
  set (s1 := f64 (a + b)). set (s2 := f64 (s1 + cc)). set (s3 := f64 (s2 + d)). set (t := f32 s3).
  assert (Hx1 : 7 * (10 * n) <= 8 * x1) by (apply f64_lb; lia).
  assert (Hx1n : 0 <= x1) by (apply f64_nonneg; lia).
  assert (Ha : 7 * (x1 * 4) <= 8 * a) by (apply f64_lb; lia).
  assert (Hb : 0 <= b).
  { apply f32_nonneg. apply Z.mul_nonneg_nonneg; [apply f32_nonneg; lia|lia]. }
  assert (Hcc : 0 <= cc).
  { apply f32_nonneg. apply Z.mul_nonneg_nonneg; apply f32_nonneg; lia. }
  assert (Hd : 0 <= d).
  { apply f32_nonneg. apply Z.mul_nonneg_nonneg; [apply f32_nonneg; lia|lia]. }
  assert (Hs1 : 7 * (a + b) <= 8 * s1) by (apply f64_lb; lia).
  assert (Hs2 : 7 * (s1 + cc) <= 8 * s2) by (apply f64_lb; lia).
  assert (Hs3 : 7 * (s2 + d) <= 8 * s3) by (apply f64_lb; lia).
  assert (Ht : 7 * s3 <= 8 * t) by (apply f32_lb; lia).
  assert (Hfn : 0 <= f32 n) by (apply f32_nonneg; lia).
  assert (Hc : 7 * (t + f32 n) <= 8 * f32 (t + f32 n)) by (apply f32_lb; lia).
  lia.
Qed.

Lemma guess_nonneg : forall fill annz, 0 <= annz -> 0 <= guess fill annz.
Proof. intros. unfold guess. destruct (fill <? 0) eqn:E; nia. Qed.

Lemma retry_loop_nonneg : forall fuel annz ucol lsub usub nzumax nzlmax rt ru m r m',
  0 <= nzumax -> 0 <= nzlmax ->
  retry_loop fail c fuel annz ucol lsub usub nzumax nzlmax rt ru m = Ok r m' ->
  match r with
  | RLok _ _ _ u l => 0 <= u <= nzumax /\ 0 <= l <= nzlmax
  | RLgiveup u l => 0 <= u /\ 0 <= l
  end.
Proof.
  induction fuel as [|fuel IH]; intros annz ucol lsub usub nzumax nzlmax rt ru m r m' Hu Hl; simpl.
  - destruct (negb _); [|discriminate]. intros H; inversion H; subst; lia.
  - destruct (negb _); [intros H; inversion H; subst; lia|].
    assert (0 <= nzumax / 2 <= nzumax) by (split; [apply Z.div_pos; lia|apply Z.div_le_upper_bound; lia]).
    assert (0 <= nzlmax / 2 <= nzlmax) by (split; [apply Z.div_pos; lia|apply Z.div_le_upper_bound; lia]).
    destruct ((nzumax / 2 <? annz / 2) || (nzumax / 2 <? 1)); [intros H'; inversion H'; subst; lia|].
    destruct (expand0 fail c (nzumax / 2) c_UCOL _) as [p2 m2|s2 m2]; simpl; [|discriminate].
    destruct (expand0 fail c (nzlmax / 2) c_LSUB m2) as [p3 m3|s3 m3]; simpl; [|discriminate].
    destruct (expand0 fail c (nzumax / 2) c_USUB m3) as [p4 m4|s4 m4]; simpl; [|discriminate].
    intros H'. apply IH in H'; try lia. destruct r; lia.
Qed.

Lemma mi_refact_not_fail : forall a g m code m', mi_refact a g m <> Ok (MIfail code) m'.
Proof.
  intros a g m code m'. unfold mi_refact, set_expander.
  set (m1 := if a_lwork a =? 0 then _ else _).
  destruct (m_exp m1); simpl; intros H; discriminate.
Qed.

(* the early return "work[] cannot even hold the pointer arrays": the value is memory_use of the three initial guesses + n *)
Lemma mi_prefix_fail_code : forall a m code m1,
  mi_prefix fail c a m = Ok (PreFail code) m1 ->
  code = f32 (memory_use c (a_n a) (nzlmax0 c a) (nzumax0 c a) (nzlumax0 c a) + f32 (a_n a)).
Proof.
  intros a m code m1. unfold mi_prefix.
  match goal with |- bind ?X _ = _ -> _ => destruct X as [[ia|] m2|s m2] end; cbn [bind];
    [|intros H; inversion H; reflexivity|discriminate].
  destruct (expand0 fail c _ c_LUSUP m2) as [p3 m3|s3 m3]; cbn [bind]; [|discriminate]. cbv zeta.
  destruct (expand0 fail c _ c_UCOL m3) as [p4 m4|s4 m4]; cbn [bind]; [|discriminate].
  destruct (expand0 fail c _ c_LSUB m4) as [p5 m5|s5 m5]; cbn [bind]; [|discriminate].
  destruct (expand0 fail c _ c_USUB m5) as [p6 m6|s6 m6]; cbn [bind]; discriminate.
Qed.

Lemma meminit_code_lemma : forall fuel a m code m',
  1 <= a_n a -> 0 <= a_annz a -> 0 <= a_nzlumax a ->
  mem_init fail c fuel a m = Ok (MIfail code) m' -> a_n a < code.
Proof.
  intros fuel a m code m' Hn Hannz Hnzlu. unfold mem_init.
  assert (Hlu0 : 0 <= nzlumax0 c a).
  { unfold nzlumax0. destruct (a_dyn a); [apply guess_nonneg|]; assumption. }
  assert (Hu0 : 0 <= nzumax0 c a) by (apply guess_nonneg; assumption).
  assert (Hl0 : 0 <= nzlmax0 c a) by (apply guess_nonneg; assumption).
  destruct (negb (a_refact a)).
  - destruct (a_lwork a =? -1); [discriminate|].
    destruct (mi_prefix fail c a _) as [[code0|pre] m1|s m1] eqn:Ep; cbn [bind]; [| |discriminate].
    { apply mi_prefix_fail_code in Ep. intros H; inversion H; subst. apply memory_use_code_gt_n; lia. }
    destruct (retry_loop fail c fuel _ _ _ _ _ _ _ _ m1) as [r m2|s m2] eqn:E; cbn [bind]; [|discriminate].
    apply retry_loop_nonneg in E; try assumption.
    unfold mi_finish. destruct r as [u l s nu nl|nu nl].
    + destruct (is_null (p_lusup pre)); [|discriminate].
      intros H; inversion H; subst. apply memory_use_code_gt_n; lia.
    + intros H; inversion H; subst. apply memory_use_code_gt_n; lia.
  - destruct (a_prev a) as [g0|]; [|discriminate].
    destruct (a_lwork a =? -1); [discriminate|]. intros H. exfalso. eapply mi_refact_not_fail; eassumption.
Qed.

Lemma meminit_code_lemma1 : forall fuel a m code m',
  1 <= a_n a -> 0 <= a_annz a -> 0 <= a_nzlumax a ->
  mem_init fail c fuel a m = Ok (MIfail code) m' -> a_n a + 1 < code.
Proof.
  intros fuel a m code m' Hn Hannz Hnzlu. unfold mem_init.
  assert (Hlu0 : 0 <= nzlumax0 c a).
  { unfold nzlumax0. destruct (a_dyn a); [apply guess_nonneg|]; assumption. }
  assert (Hu0 : 0 <= nzumax0 c a) by (apply guess_nonneg; assumption).
  assert (Hl0 : 0 <= nzlmax0 c a) by (apply guess_nonneg; assumption).
  destruct (negb (a_refact a)).
  - destruct (a_lwork a =? -1); [discriminate|].
    destruct (mi_prefix fail c a _) as [[code0|pre] m1|s m1] eqn:Ep; cbn [bind]; [| |discriminate].
    { apply mi_prefix_fail_code in Ep. intros H; inversion H; subst. apply memory_use_code_gt_n1; lia. }
    destruct (retry_loop fail c fuel _ _ _ _ _ _ _ _ m1) as [r m2|s m2] eqn:E; cbn [bind]; [|discriminate].
    apply retry_loop_nonneg in E; try assumption.
    unfold mi_finish. destruct r as [u l s nu nl|nu nl].
    + destruct (is_null (p_lusup pre)); [|discriminate].
      intros H; inversion H; subst. apply memory_use_code_gt_n1; lia.
    + intros H; inversion H; subst. apply memory_use_code_gt_n1; lia.
  - destruct (a_prev a) as [g0|]; [|discriminate].
    destruct (a_lwork a =? -1); [discriminate|]. intros H. exfalso. eapply mi_refact_not_fail; eassumption.
Qed.

(* MemInit failed: no L/U is built and p?gssvx reads neither (since the repair: superlu_?QuerySpace is skipped when info > n + 1) *)
Lemma driver_never_reads_unbuilt : forall fuel a m code m' infos fo,
  1 <= a_n a -> 0 <= a_annz a -> 0 <= a_nzlumax a ->
  mem_init fail c fuel a m = Ok (MIfail code) m' ->
  gstrf_outcome (MIfail code) infos = Some fo ->
  fo_lu_built fo = false /\ a_n a + 1 < fo_info fo /\
  forallb (fun x => negb (reads_lu x)) (gssvx_tail (a_lwork a) (a_n a) (fo_info fo)) = true.
Proof.
  intros fuel a m code m' infos fo Hn Ha Hl Hm Hg.
  pose proof (meminit_code_lemma1 fuel a m code m' Hn Ha Hl Hm) as Hc.
  unfold gstrf_outcome in Hg. destruct (code <=? int_max); [|discriminate]. inversion Hg; subst fo. cbn [fo_lu_built fo_info].
  split; [reflexivity|]. split; [exact Hc|].
  unfold gssvx_tail. destruct (a_lwork a =? -1); [reflexivity|].
  assert (E1 : (0 <? code) = true) by (apply Z.ltb_lt; lia).
  assert (E2 : (code <=? a_n a) = false) by (apply Z.leb_gt; lia).
  assert (E3 : (code <=? a_n a + 1) = false) by (apply Z.leb_gt; lia).
  rewrite E1, E2, E3. reflexivity.
Qed.

End Code.

(* ------------------------------------------------------------------ *)
(* the lwork = -1 query *)
Section Query.
Variable fail : nat -> bool.
Variable c : cfg.
Hypothesis Hdw : 0 <= dword c.

Lemma temp_space_nonneg : forall n w p, 0 <= n -> 0 <= w -> 0 <= p -> 0 <= temp_space c n w p.
Proof.
  intros n w p Hn Hw Hp. unfold temp_space, num_tempv, iword, c_NO_MARKER.
  assert (H1 : 0 <= f32 (14 * n * 4)) by (apply f32_nonneg; lia).
  assert (H2 : 0 <= f32 ((2 * w + 5 + 3) * n * 4)) by (apply f32_nonneg; nia).
  assert (H3 : 0 <= f32 ((n * w + Z.max (2 * n) ((maxsuper c + rowblk c) * w)) * dword c)).
  { apply f32_nonneg. apply Z.mul_nonneg_nonneg; [|assumption]. nia. }
  assert (H4 : 0 <= f32 p) by (apply f32_nonneg; lia).
  set (q1 := f32 (f32 ((2 * w + 5 + 3) * n * 4) +
                  f32 ((n * w + Z.max (2 * n) ((maxsuper c + rowblk c) * w)) * dword c))) in *.
  assert (H5 : 0 <= q1) by (apply f32_nonneg; lia).
  assert (H6 : 0 <= f32 (q1 * f32 p)) by (apply f32_nonneg; nia).
  apply f32_nonneg. lia.
Qed.

Lemma query_estimate_pos : forall n w p nzl nzu nzlu,
  0 <= n -> 0 <= w -> 0 <= p -> 0 <= nzl -> 0 <= nzu -> 0 <= nzlu ->
  0 < query_estimate c n w p nzl nzu nzlu.
Proof.
  intros. unfold query_estimate, glu_int_array, iword.
  pose proof (temp_space_nonneg n w p ltac:(lia) ltac:(lia) ltac:(lia)).
  apply rnd_pos_of_pos; [lia|]. nia.
Qed.

Definition only_header_event (before after : list event) : Prop :=
  after = before \/ exists k, after = EvSys k exphdr_bytes :: before \/ after = EvSysFail k exphdr_bytes :: before.

Lemma ensure_expanders_frame : forall m,
  m_stack (ensure_expanders fail m) = m_stack m /\ m_space (ensure_expanders fail m) = m_space m /\
  only_header_event (m_log m) (m_log (ensure_expanders fail m)).
Proof.
  intros m. unfold ensure_expanders, only_header_event. destruct (m_exp m); [auto|].
  unfold sys_malloc. destruct (fail (S (m_sysn m))); simpl; repeat split; auto; right; eexists; eauto.
Qed.

Lemma query_lemma : forall fuel a m,
  a_lwork a = -1 -> (a_refact a = true -> a_prev a <> None) ->
  0 <= a_n a -> 0 <= a_annz a -> 0 <= a_w a -> 0 <= a_nprocs a ->
  0 <= a_nzlumax a -> 0 <= a_nzlmax a -> 0 <= a_nzumax a ->
  exists est m',
    mem_init fail c fuel a m = Ok (MIquery est) m' /\ 0 < est /\
    m_stack m' = m_stack m /\ m_space m' = m_space m /\ only_header_event (m_log m) (m_log m').
Proof.
  intros fuel a m Hlw Hprev Hn Hannz Hw Hp Hlu Hl Hu. unfold mem_init. rewrite Hlw. simpl (-1 =? -1).
  set (m1 := set_ba (set_dims m (a_n a) 0) (a_ba a)).
  destruct (ensure_expanders_frame m1) as (Hst & Hsp & Hlog).
  destruct (a_refact a) eqn:Er; simpl negb; cbv iota.
  - destruct (a_prev a) as [g0|] eqn:Ep; [|exfalso; apply Hprev; auto].
    eexists; eexists; split; [reflexivity|]. split; [apply query_estimate_pos; assumption|]. auto.
  - eexists; eexists; split; [reflexivity|]. split; [|auto].
    apply query_estimate_pos; try assumption.
    + unfold nzlmax0. apply guess_nonneg; assumption.
    + unfold nzumax0. apply guess_nonneg; assumption.
    + unfold nzlumax0. destruct (a_dyn a); [apply guess_nonneg|]; assumption.
Qed.

(* the driver level: a query creates no thread, builds no L/U, and p?gssvx returns at once *)
Lemma query_no_factor : forall est infos fo n,
  gstrf_outcome (MIquery est) infos = Some fo ->
  fo_threads_ran fo = false /\ fo_lu_built fo = false /\ fo_info fo = est /\
  gssvx_tail (-1) n (fo_info fo) = [AReturnQuery (est - n)] /\
  forallb (fun x => negb (reads_lu x)) (gssvx_tail (-1) n (fo_info fo)) = true.
Proof.
  intros est infos fo n. unfold gstrf_outcome. destruct (est <=? int_max); [|discriminate].
  intros H; inversion H; subst; simpl. auto.
Qed.

End Query.

(* non-vacuity: the estimate of a 10 x 10 matrix with 30 entries, w = 4, one thread, double precision *)
Example query_example :
  mem_init (fun _ => false) hang_cfg O (mkArgs 10 30 1 4 false false 200 0 0 (-1) 0 None) init_mem
  = Ok (MIquery 37900)
       (mkMem (mkStack 0 0 0 0) SYSTEM 10 0 0 (Some [(PNull, 0); (PNull, 0); (PNull, 0); (PNull, 0)]) 1
              [EvSys 1 64]).
Proof. vm_compute. reflexivity. Qed.

(* ------------------------------------------------------------------ *)
(* a user buffer that is large enough: everything inside, nothing overlaps, same capacities *)
Section Sufficient.
Variable fail : nat -> bool.
Variable c : cfg.
Hypothesis Hdw : 0 <= dword c.

(* state of the memory manager while MemInit fills the head of a fresh user buffer *)
Definition filling (m : mem) (lwork ba used : Z) : Prop :=
  m_space m = USER /\ m_exp m <> None /\ m_ba m = ba /\ m_stack m = mkStack lwork used used lwork.

Fixpoint sumz (l : list Z) : Z := match l with [] => 0 | x :: t => x + sumz t end.

Fixpoint offsets (start : Z) (szs : list Z) : list Z :=
  match szs with [] => [] | s :: t => start :: offsets (start + s * iword) t end.

Lemma alloc_ints_user_ok : forall szs m lwork ba used,
  filling m lwork ba used -> Forall (fun s => 0 <= s) szs -> used + sumz szs * iword < lwork ->
  exists m', alloc_ints_user szs m = (map POff (offsets used szs), m') /\
             filling m' lwork ba (used + sumz szs * iword).
Proof.
  induction szs as [|s t IH]; intros m lwork ba used Hf Hpos Hfit; simpl.
  - exists m. split; [reflexivity|]. rewrite Z.add_0_r. assumption.
  - inversion Hpos as [|? ? Hs Ht]; subst. destruct Hf as (Hsp & Hex & Hba & Hst).
    unfold umalloc, user_malloc, stack_full. rewrite Hst. simpl.
    assert (0 <= sumz t) by (clear - Ht; induction Ht; simpl; lia).
    simpl in Hfit. unfold iword in *.
    replace (lwork <=? s * 4 + used) with false by (symmetry; apply Z.leb_gt; lia).
    set (m1 := add_log (set_stack m _) _).
    destruct (IH m1 lwork ba (used + s * 4)) as (m' & E & Hf').
    + unfold filling, m1; simpl. repeat split; auto.
    + assumption.
    + lia.
    + rewrite E. exists m'. split; [reflexivity|].
      replace (used + (s + sumz t) * 4) with (used + s * 4 + sumz t * 4) by lia. assumption.
Qed.

Definition lword_of (ty : Z) : Z := if (ty =? c_LSUB) || (ty =? c_USUB) then iword else dword c.
Definition extra_of (ty ba off : Z) : Z :=
  if (ty =? c_LUSUP) || (ty =? c_UCOL) then align_up_extra ba off else 0.

Lemma align_up_extra_bounds : forall ba off, 0 <= align_up_extra ba off <= 7.
Proof. intros. unfold align_up_extra. pose proof (Z.mod_pos_bound (8 - misalign ba off) 8 ltac:(lia)). lia. Qed.

Lemma align_up_extra_aligned : forall ba off, misalign ba (off + align_up_extra ba off) = 0.
Proof.
  intros. unfold align_up_extra, misalign.
  replace (ba + (off + (8 - (ba + off) mod 8) mod 8)) with ((ba + off) + (8 - (ba + off) mod 8) mod 8) by lia.
  set (x := ba + off).
  pose proof (Z.mod_pos_bound x 8 ltac:(lia)) as Hb.
  pose proof (Z.div_mod x 8 ltac:(lia)) as Hr.
  destruct (Z.eq_dec (x mod 8) 0) as [E|E].
  - rewrite E. change ((8 - 0) mod 8) with 0. rewrite Z.add_0_r. exact E.
  - rewrite (Z.mod_small (8 - x mod 8) 8) by lia.
    replace (x + (8 - x mod 8)) with ((x / 8 + 1) * 8) by lia. apply Z.mod_mul. lia.
Qed.

Lemma expand0_user_ok : forall len ty m lwork ba used,
  filling m lwork ba used -> 0 <= len * lword_of ty -> used + len * lword_of ty < lwork ->
  let e := extra_of ty ba used in
  exists m', expand0 fail c len ty m = Ok (POff (used + e)) m' /\
             filling m' lwork ba (used + len * lword_of ty + e).
Proof.
  intros len ty m lwork ba used (Hsp & Hex & Hba & Hst) Hpos Hfit e.
  unfold expand0. rewrite Hsp. fold (lword_of ty).
  unfold umalloc, user_malloc, stack_full. rewrite Hst. simpl.
  replace (lwork <=? len * lword_of ty + used) with false by (symmetry; apply Z.leb_gt; lia).
  simpl. rewrite Hba. subst e. unfold extra_of.
  destruct (negb (misalign ba used =? 0) && ((ty =? c_LUSUP) || (ty =? c_UCOL))) eqn:E.
  - apply andb_true_iff in E. destruct E as [E1 E2]. rewrite E2.
    unfold set_expander. simpl. destruct (m_exp m) as [l|] eqn:El; [|congruence]. simpl.
    eexists. split; [reflexivity|]. unfold filling; simpl. repeat split; auto; try discriminate.
  - assert (Hz : (if (ty =? c_LUSUP) || (ty =? c_UCOL) then align_up_extra ba used else 0) = 0).
    { destruct ((ty =? c_LUSUP) || (ty =? c_UCOL)); [|reflexivity].
      rewrite andb_true_r in E. apply negb_false_iff in E. apply Z.eqb_eq in E.
      unfold align_up_extra. rewrite E. reflexivity. }
    rewrite Hz. unfold set_expander. simpl. destruct (m_exp m) as [l|] eqn:El; [|congruence]. simpl.
    eexists. split; [rewrite Z.add_0_r; reflexivity|]. unfold filling; simpl. repeat split; auto; try discriminate.
    try (f_equal; lia).
Qed.

End Sufficient.

Section Sufficient2.
Variable fail : nat -> bool.
Variable c : cfg.
Hypothesis Hdw : 0 <= dword c.

(* bytes needed by the 13 arrays, without the (at most 2 x 7) alignment bytes *)
Definition need (a : mi_args) : Z :=
  (36 * a_n a + 20) + nzlumax0 c a * dword c + nzumax0 c a * dword c + nzlmax0 c a * iword + nzumax0 c a * iword.

Lemma lword_LUSUP : lword_of c c_LUSUP = dword c. Proof. reflexivity. Qed.
Lemma lword_UCOL : lword_of c c_UCOL = dword c. Proof. reflexivity. Qed.
Lemma lword_LSUB : lword_of c c_LSUB = 4. Proof. reflexivity. Qed.
Lemma lword_USUB : lword_of c c_USUB = 4. Proof. reflexivity. Qed.
Lemma extra_LUSUP : forall ba off, extra_of c_LUSUP ba off = align_up_extra ba off. Proof. reflexivity. Qed.
Lemma extra_UCOL : forall ba off, extra_of c_UCOL ba off = align_up_extra ba off. Proof. reflexivity. Qed.
Lemma extra_LSUB : forall ba off, extra_of c_LSUB ba off = 0. Proof. reflexivity. Qed.
Lemma extra_USUB : forall ba off, extra_of c_USUB ba off = 0. Proof. reflexivity. Qed.

Lemma ensure_expanders_ok : forall m,
  (m_exp m <> None \/ fail (S (m_sysn m)) = false) ->
  m_exp (ensure_expanders fail m) <> None /\
  m_stack (ensure_expanders fail m) = m_stack m /\ m_space (ensure_expanders fail m) = m_space m /\
  m_ba (ensure_expanders fail m) = m_ba m.
Proof.
  intros m H. unfold ensure_expanders. destruct (m_exp m) eqn:E.
  - rewrite E. repeat split; auto. discriminate.
  - destruct H as [H|H]; [congruence|]. unfold sys_malloc. rewrite H. simpl. repeat split; auto. discriminate.
Qed.

Lemma retry_loop_immediate : forall fuel annz o1 o2 o3 nu nl rt ru m,
  retry_loop fail c fuel annz (POff o1) (POff o2) (POff o3) nu nl rt ru m = Ok (RLok (POff o1) (POff o2) (POff o3) nu nl) m.
Proof. intros. destruct fuel; reflexivity. Qed.

Lemma existsb_is_null_map_POff : forall l, existsb is_null (map POff l) = false.
Proof. induction l as [|x t IH]; simpl; [reflexivity|exact IH]. Qed.

Lemma meminit_sufficient_lemma : forall fuel a m,
  a_refact a = false -> 0 <= a_n a -> 0 <= a_annz a -> 0 <= a_nzlumax a -> 0 < a_lwork a ->
  (m_exp m <> None \/ fail (S (m_sysn m)) = false) ->
  need a + 14 < a_lwork a ->
  exists g m' bl,
    mem_init fail c fuel a m = Ok (MIok g) m' /\
    g_nzlmax g = nzlmax0 c a /\ g_nzumax g = nzumax0 c a /\ g_nzlumax g = nzlumax0 c a /\
    glu_blocks c (a_n a) g = Some bl /\
    Forall (block_in 0 (a_lwork a)) bl /\ ForallOrdPairs disjoint bl /\
    (exists o, g_lusup g = POff o /\ misalign (a_ba a) o = 0) /\
    (exists o, g_ucol g = POff o /\ misalign (a_ba a) o = 0) /\
    s_top2 (m_stack m') = a_lwork a /\ s_used (m_stack m') = s_top1 (m_stack m') /\
    s_used (m_stack m') < a_lwork a.
Proof.
  intros fuel a m Hre Hn Hannz Hnzlu Hlw Hexp Hneed.
  unfold mem_init. rewrite Hre. simpl negb. cbv iota.
  replace (a_lwork a =? -1) with false by (symmetry; apply Z.eqb_neq; lia).
  set (m0 := set_ba (set_dims m (a_n a) 0) (a_ba a)).
  destruct (ensure_expanders_ok m0) as (Hex1 & Hst1 & Hsp1 & Hba1); [exact Hexp|].
  set (m1 := ensure_expanders fail m0) in *.
  assert (Hu : 0 <= nzumax0 c a) by (apply guess_nonneg; assumption).
  assert (Hl : 0 <= nzlmax0 c a) by (apply guess_nonneg; assumption).
  assert (Hlu : 0 <= nzlumax0 c a) by (unfold nzlumax0; destruct (a_dyn a); [apply guess_nonneg|]; assumption).
  unfold need, iword in Hneed.
  set (n := a_n a) in *. set (lw := a_lwork a) in *. set (ba := a_ba a) in *.
  set (NU := nzumax0 c a) in *. set (NL := nzlmax0 c a) in *. set (NLU := nzlumax0 c a) in *.
  set (dw := dword c) in *.
  assert (HA : 0 <= NLU * dw) by (apply Z.mul_nonneg_nonneg; assumption).
  assert (HB : 0 <= NU * dw) by (apply Z.mul_nonneg_nonneg; assumption).
  unfold mi_prefix. fold n lw.
  unfold setup_space.
  replace (lw =? 0) with false by (symmetry; apply Z.eqb_neq; lia).
  replace (0 <? lw) with true by (symmetry; apply Z.ltb_lt; lia).
  set (m2 := set_stack (set_space m1 USER) (setup_stack lw)).
  assert (Hf2 : filling m2 lw ba 0).
  { unfold filling, m2, setup_stack; simpl. repeat split; auto; try (rewrite Hba1; reflexivity). }
  replace (m_space m2) with USER by reflexivity.
  destruct (alloc_ints_user_ok (int_array_sizes n) m2 lw ba 0 Hf2) as (m3 & E3 & Hf3).
  { unfold int_array_sizes. repeat constructor; lia. }
  { unfold int_array_sizes, sumz, iword. lia. }
  rewrite E3. rewrite existsb_is_null_map_POff. cbn [bind].
  unfold int_array_sizes, sumz, iword in Hf3.
  replace (0 + (n + 1 + (n + (n + 1 + (n + 1 + (n + (n + 1 + (n + (n + 1 + (n + 0))))))))) * 4) with (36 * n + 20) in Hf3 by lia.
  (* lusup *)
  destruct (expand0_user_ok fail c NLU c_LUSUP m3 lw ba (36 * n + 20) Hf3) as (m4 & E4 & Hf4).
  { rewrite lword_LUSUP. exact HA. }
  { rewrite lword_LUSUP. fold dw. lia. }
  fold NLU. rewrite E4. cbn [bind]. cbv zeta.
  rewrite lword_LUSUP, extra_LUSUP in Hf4. fold dw in Hf4. rewrite extra_LUSUP.
  pose proof (align_up_extra_bounds ba (36 * n + 20)) as He1.
  pose proof (align_up_extra_aligned ba (36 * n + 20)) as Ha1.
  set (e1 := align_up_extra ba (36 * n + 20)) in *.
  (* ucol *)
  destruct (expand0_user_ok fail c NU c_UCOL m4 lw ba _ Hf4) as (m5 & E5 & Hf5).
  { rewrite lword_UCOL. exact HB. }
  { rewrite lword_UCOL. fold dw. lia. }
  fold NU. rewrite E5. cbn [bind].
  rewrite lword_UCOL, extra_UCOL in Hf5. fold dw in Hf5. rewrite extra_UCOL.
  pose proof (align_up_extra_bounds ba (36 * n + 20 + NLU * dw + e1)) as He2.
  pose proof (align_up_extra_aligned ba (36 * n + 20 + NLU * dw + e1)) as Ha2.
  set (e2 := align_up_extra ba (36 * n + 20 + NLU * dw + e1)) in *.
  (* lsub *)
  destruct (expand0_user_ok fail c NL c_LSUB m5 lw ba _ Hf5) as (m6 & E6 & Hf6).
  { rewrite lword_LSUB. lia. }
  { rewrite lword_LSUB. lia. }
  fold NL. rewrite E6. cbn [bind].
  rewrite lword_LSUB, extra_LSUB in Hf6. rewrite extra_LSUB.
  (* usub *)
  destruct (expand0_user_ok fail c NU c_USUB m6 lw ba _ Hf6) as (m7 & E7 & Hf7).
  { rewrite lword_USUB. lia. }
  { rewrite lword_USUB. lia. }
  rewrite E7. cbn [bind].
  rewrite lword_USUB, extra_USUB in Hf7. rewrite extra_USUB.
  cbn [p_ucol p_lsub p_usub p_top1 p_used].
  rewrite retry_loop_immediate. cbn [bind].
  unfold mi_finish. cbn [p_lusup is_null p_ia].
  destruct Hf7 as (Hsp7 & Hex7 & Hba7 & Hst7).
  eexists. eexists. eexists.
  split; [reflexivity|].
  simpl g_nzlmax. simpl g_nzumax. simpl g_nzlumax.
  split; [reflexivity|]. split; [reflexivity|]. split; [reflexivity|].
  split.
  { unfold glu_blocks, glu_ptrs, glu_sizes, int_array_sizes.
    cbn [map app zip_blocks poff nthp nth offsets g_xsup g_xsup_end g_supno g_xlsub g_xlsub_end g_xlusup
         g_xlusup_end g_xusub g_xusub_end g_lusup g_ucol g_lsub g_usub g_nzlmax g_nzumax g_nzlumax].
    reflexivity. }
  fold NU NL NLU dw.
  split.
  { unfold iword. repeat (apply Forall_cons; [unfold block_in; cbn [fst snd]; lia|]). apply Forall_nil. }
  split.
  { unfold iword.
    repeat (apply FOP_cons; [repeat (apply Forall_cons; [unfold disjoint; cbn [fst snd]; lia|]); apply Forall_nil|]).
    apply FOP_nil. }
  split; [eexists; split; [reflexivity|]; exact Ha1|].
  split; [eexists; split; [reflexivity|]; exact Ha2|].
  cbn [m_stack set_dims]. rewrite Hst7. cbn [s_top2 s_used s_top1]. lia.
Qed.

End Sufficient2.

(* non-vacuity: the sizes of the 10 x 10 example are met by a 100 000 byte buffer, and the result is the
   layout that the real p?gstrf_MemInit returns (case "b" of the correspondence corpus) *)
Example meminit_sufficient_example :
  exists m', mem_init (fun _ => false) hang_cfg O (mkArgs 10 30 1 4 false false 200 0 0 100000 0 None) init_mem
  = Ok (MIok (mkGlu (POff 0) (POff 44) (POff 84) (POff 128) (POff 172) (POff 212) (POff 256) (POff 296) (POff 340)
                    (POff 384) (POff 1984) (POff 13984) (POff 17584) 900 1500 200)) m'.
Proof. eexists. vm_compute. reflexivity. Qed.

(* ------------------------------------------------------------------ *)
(* system space with an allocator that does not fail: same capacities as in user space *)
Section SystemOk.
Variable fail : nat -> bool.
Variable c : cfg.
Hypothesis Hnofail : forall k, fail k = false.

Definition sysmode (m : mem) : Prop := m_space m = SYSTEM /\ m_exp m <> None.

Lemma int_malloc_sys_ok : forall cnt m, sysmode m ->
  exists m', int_malloc fail cnt m = Ok (PSys (S (m_sysn m))) m' /\ sysmode m' /\ m_sysn m' = S (m_sysn m).
Proof.
  intros cnt m [Hs He]. unfold int_malloc, sys_malloc. rewrite Hnofail. simpl.
  eexists; split; [reflexivity|]. unfold sysmode; simpl; auto.
Qed.

Lemma alloc_ints_sys_ok : forall szs m, sysmode m ->
  exists ps m', alloc_ints_sys fail szs m = Ok ps m' /\ sysmode m' /\ length ps = length szs /\
                Forall (fun p => is_null p = false) ps.
Proof.
  induction szs as [|s t IH]; intros m Hm; simpl.
  - exists [], m. auto.
  - destruct (int_malloc_sys_ok s m Hm) as (m1 & E1 & Hm1 & _). rewrite E1. simpl.
    destruct (IH m1 Hm1) as (ps & m2 & E2 & Hm2 & Hlen & Hnn). rewrite E2. simpl.
    exists (PSys (S (m_sysn m)) :: ps), m2. repeat split; auto; [apply Hm2|apply Hm2|simpl; lia].
Qed.

Lemma expand0_sys_ok : forall len ty m, sysmode m ->
  exists m', expand0 fail c len ty m = Ok (PSys (S (m_sysn m))) m' /\ sysmode m'.
Proof.
  intros len ty m [Hs He]. unfold expand0. rewrite Hs. unfold sys_malloc. rewrite Hnofail.
  unfold set_expander. simpl. destruct (m_exp m) eqn:E; [|congruence]. simpl.
  eexists; split; [reflexivity|]. unfold sysmode; simpl; split; auto; discriminate.
Qed.

Lemma meminit_system_ok_lemma : forall fuel a m,
  a_refact a = false -> a_lwork a = 0 ->
  exists g m', mem_init fail c fuel a m = Ok (MIok g) m' /\
    g_nzlmax g = nzlmax0 c a /\ g_nzumax g = nzumax0 c a /\ g_nzlumax g = nzlumax0 c a /\
    Forall (fun p => exists k, p = PSys k) [g_lusup g; g_ucol g; g_lsub g; g_usub g].
Proof.
  intros fuel a m Hre Hlw. unfold mem_init. rewrite Hre, Hlw. cbn [negb]. change (0 =? -1) with false. cbv iota.
  set (m0 := set_ba (set_dims m (a_n a) 0) (a_ba a)).
  assert (Hx : m_exp (ensure_expanders fail m0) <> None).
  { unfold ensure_expanders. destruct (m_exp m0) eqn:E; [rewrite E; discriminate|].
    unfold sys_malloc. rewrite Hnofail. simpl. discriminate. }
  unfold mi_prefix. rewrite Hlw. unfold setup_space. change (0 =? 0) with true. cbv iota.
  set (m1 := set_space (ensure_expanders fail m0) SYSTEM).
  assert (Hm1 : sysmode m1) by (unfold sysmode, m1; simpl; auto).
  replace (m_space m1) with SYSTEM by reflexivity.
  destruct (alloc_ints_sys_ok (int_array_sizes (a_n a)) m1 Hm1) as (ps & m2 & E2 & Hm2 & _ & _).
  rewrite E2. cbn [bind].
  destruct (expand0_sys_ok (nzlumax0 c a) c_LUSUP m2 Hm2) as (m3 & E3 & Hm3). rewrite E3. cbn [bind]. cbv zeta.
  destruct (expand0_sys_ok (nzumax0 c a) c_UCOL m3 Hm3) as (m4 & E4 & Hm4). rewrite E4. cbn [bind].
  destruct (expand0_sys_ok (nzlmax0 c a) c_LSUB m4 Hm4) as (m5 & E5 & Hm5). rewrite E5. cbn [bind].
  destruct (expand0_sys_ok (nzumax0 c a) c_USUB m5 Hm5) as (m6 & E6 & Hm6). rewrite E6. cbn [bind].
  cbn [p_ucol p_lsub p_usub].
  cbn [p_top1 p_used].
  assert (Hrl : forall k1 k2 k3 nu nl rt ru mm,
            retry_loop fail c fuel (a_annz a) (PSys k1) (PSys k2) (PSys k3) nu nl rt ru mm
            = Ok (RLok (PSys k1) (PSys k2) (PSys k3) nu nl) mm) by (intros; destruct fuel; reflexivity).
  rewrite Hrl. cbn [bind]. unfold mi_finish. cbn [p_lusup is_null].
  eexists; eexists; split; [reflexivity|]. cbn [g_nzlmax g_nzumax g_nzlumax g_lusup g_ucol g_lsub g_usub].
  repeat split; auto. repeat constructor; eexists; reflexivity.
Qed.

End SystemOk.

(* ================================================================== *)
(* 4. info plumbing *)

Lemma finalize_info_spec : forall infos acc,
  (* the result is acc or one of the infos, it is zero only when everything is zero, and it is a lower
     bound of every non-zero value *)
  let r := finalize_info acc infos in
  (r = acc \/ In r infos) /\
  (r = 0 <-> acc = 0 /\ Forall (fun i => i = 0) infos) /\
  (acc <> 0 -> r <= acc) /\ Forall (fun i => i <> 0 -> r <= i) infos.
Proof.
  induction infos as [|i t IH]; intros acc; cbn [finalize_info]; cbv zeta.
  - split; [left; reflexivity|]. split; [split; [intros; split; [assumption|constructor]|intros [? _]; assumption]|].
    split; [intros; lia|constructor].
  - destruct (i =? 0) eqn:E1.
    + apply Z.eqb_eq in E1. subst i.
      destruct (IH acc) as (H1 & H2 & H3 & H4).
      split; [destruct H1; [left|right; right]; assumption|].
      split; [split|].
      * intros Hr. apply H2 in Hr. destruct Hr. split; [assumption|constructor; auto].
      * intros [Ha Hf]. inversion Hf; subst. apply H2. auto.
      * split; [assumption|]. constructor; [intros; lia|assumption].
    + apply Z.eqb_neq in E1. destruct (acc =? 0) eqn:E2.
      * apply Z.eqb_eq in E2. subst acc.
        destruct (IH i) as (H1 & H2 & H3 & H4).
        split; [destruct H1; [right; left; congruence|right; right; assumption]|].
        split; [split|].
        -- intros Hr. apply H2 in Hr. lia.
        -- intros [_ Hf]. inversion Hf; subst. lia.
        -- split; [intros; lia|]. constructor; [intros; apply H3; assumption|assumption].
      * apply Z.eqb_neq in E2.
        destruct (IH (Z.min acc i)) as (H1 & H2 & H3 & H4).
        assert (Hm : Z.min acc i <> 0) by lia.
        specialize (H3 Hm).
        split.
        { destruct H1 as [H1|H1]; [|right; right; assumption].
          destruct (Z.min_spec acc i) as [[? Hq]|[? Hq]]; [left|right; left]; congruence. }
        split; [split|].
        -- intros Hr. apply H2 in Hr. lia.
        -- intros [Ha _]. lia.
        -- split; [intros _; lia|]. constructor; [intros; lia|assumption].
Qed.

(* every thread that failed reports a value > n  ==>  the combined info is > n, unless every thread succeeded *)
Lemma finalize_info_gt_n : forall n infos,
  Forall (fun i => i = 0 \/ n < i) infos -> 0 <= n ->
  finalize_info 0 infos = 0 \/ n < finalize_info 0 infos.
Proof.
  intros n infos Hall Hn.
  destruct (finalize_info_spec infos 0) as (H1 & H2 & _ & _).
  destruct H1 as [H1|H1]; [left; assumption|].
  rewrite Forall_forall in Hall. specialize (Hall _ H1). destruct Hall; [left|right]; assumption.
Qed.

Example finalize_info_example : finalize_info 0 [0; 1234; 0; 77] = 77 /\ finalize_info 0 [0; 0] = 0.
Proof. vm_compute. auto. Qed.

(* ================================================================== *)
(* 5. soundness of the executable block oracle *)

Lemma disjointb_sound : forall b1 b2, disjointb b1 b2 = true ->
  disjoint b1 b2 \/ snd b1 <= 0 \/ snd b2 <= 0.
Proof. intros b1 b2. unfold disjointb, disjoint. lia. Qed.

Lemma blocks_okb_sound : forall lwork bl, blocks_okb lwork bl = true ->
  Forall (block_in 0 lwork) bl /\
  ForallOrdPairs (fun b1 b2 => disjoint b1 b2 \/ snd b1 <= 0 \/ snd b2 <= 0) bl.
Proof.
  intros lwork bl H. unfold blocks_okb in H. apply andb_true_iff in H. destruct H as [Hr Hd]. split.
  - apply Forall_forall. intros b Hb. rewrite forallb_forall in Hr. specialize (Hr _ Hb).
    unfold in_rangeb, block_in in *. lia.
  - clear Hr. induction bl as [|b t IH]; [constructor|]. simpl in Hd. apply andb_true_iff in Hd.
    destruct Hd as [Hb Ht]. constructor; [|apply IH; assumption].
    apply Forall_forall. intros b' Hb'. rewrite forallb_forall in Hb. apply disjointb_sound. apply Hb. assumption.
Qed.

Lemma blocks_okb_complete : forall lwork bl,
  Forall (block_in 0 lwork) bl -> ForallOrdPairs disjoint bl -> blocks_okb lwork bl = true.
Proof.
  intros lwork bl Hr Hd. unfold blocks_okb. apply andb_true_iff. split.
  - apply forallb_forall. intros b Hb. rewrite Forall_forall in Hr. specialize (Hr _ Hb).
    unfold in_rangeb, block_in in *. lia.
  - clear Hr. induction Hd as [|b t Hb Ht IH]; [reflexivity|]. simpl. apply andb_true_iff. split; [|assumption].
    apply forallb_forall. intros b' Hb'. rewrite Forall_forall in Hb. specialize (Hb _ Hb').
    unfold disjointb, disjoint in *. lia.
Qed.

(* ================================================================== *)
(* 5b. p?gstrf_MemInit on a user buffer of ANY size (since fixes 'MemInit tests the nine integer arrays' and 'the retry loop gives back exactly
   what the last attempt took'): whenever MemInit returns 0 the 13 arrays are inside the buffer and pairwise disjoint;
   a buffer that cannot hold the nine integer arrays makes it return a failure code at once *)
Section AnyBuffer.
Variable fail : nat -> bool.
Variable c : cfg.
Hypothesis Hdw : 0 <= dword c.

(* MemInit filling the head of a fresh user buffer; nothing is assumed about ?expanders or the room left *)
Definition ufill (m : mem) (L ba u : Z) : Prop :=
  m_space m = USER /\ m_ba m = ba /\ m_stack m = mkStack L u u L.

Lemma extra_of_bounds : forall ty ba off, 0 <= extra_of ty ba off <= 7.
Proof. intros. unfold extra_of. destruct ((ty =? c_LUSUP) || (ty =? c_UCOL)); [apply align_up_extra_bounds|lia]. Qed.

Lemma umalloc_head_cases : forall bytes m L ba u,
  ufill m L ba u ->
  (L <= bytes + u /\ umalloc bytes HEAD m = (PNull, m)) \/
  (bytes + u < L /\ exists m1, umalloc bytes HEAD m = (POff u, m1) /\ ufill m1 L ba (u + bytes) /\ m_exp m1 = m_exp m).
Proof.
  intros bytes m L ba u (Hsp & Hba & Hst). unfold umalloc, user_malloc, stack_full. rewrite Hst. simpl.
  destruct (L <=? bytes + u) eqn:E.
  - left. split; [apply Z.leb_le; exact E|reflexivity].
  - right. split; [apply Z.leb_gt; exact E|]. eexists. split; [reflexivity|].
    unfold ufill; simpl. repeat split; auto.
Qed.

Lemma alloc_ints_user_cases : forall szs m L ba u ps m',
  ufill m L ba u -> Forall (fun s => 0 <= s) szs ->
  alloc_ints_user szs m = (ps, m') -> existsb is_null ps = false ->
  ps = map POff (offsets u szs) /\ ufill m' L ba (u + sumz szs * iword) /\ (szs <> [] -> u + sumz szs * iword < L).
Proof.
  induction szs as [|s t IH]; intros m L ba u ps m' Hf Hpos H Hnn; simpl in H.
  - inversion H; subst. simpl. rewrite Z.add_0_r. split; [reflexivity|]. split; [assumption|]. intros X; contradiction X; reflexivity.
  - inversion Hpos as [|? ? Hs Ht]; subst.
    assert (Hsum : 0 <= sumz t) by (clear - Ht; induction Ht; simpl; lia).
    destruct (umalloc_head_cases (s * iword) m L ba u Hf) as [[_ E]|(Hlt & m1 & E & Hf1 & _)]; rewrite E in H.
    + destruct (alloc_ints_user t m) as [ps' m2]. inversion H; subst. simpl in Hnn. discriminate.
    + destruct (alloc_ints_user t m1) as [ps' m2] eqn:E2. inversion H; subst. simpl in Hnn.
      destruct (IH m1 L ba (u + s * iword) ps' m' Hf1 Ht E2 Hnn) as (-> & Hf2 & Hlt2).
      simpl. split; [reflexivity|].
      replace (u + (s + sumz t) * iword) with (u + s * iword + sumz t * iword) by (unfold iword; lia).
      split; [assumption|]. intros _. destruct t as [|s' t']; [simpl; unfold iword in *; lia|].
      apply Hlt2. discriminate.
Qed.

(* p?gstrf_expand in user space, first allocation: refused (nothing changes on the stack) or granted at top1,
   moved up by the alignment fix-up for LUSUP / UCOL -- the request was tested against the room left, the fix-up is not *)
Lemma expand0_user_cases : forall len ty m L ba u p m',
  ufill m L ba u -> expand0 fail c len ty m = Ok p m' ->
  (p = PNull /\ ufill m' L ba u) \/
  (p = POff (u + extra_of ty ba u) /\ ufill m' L ba (u + extra_of ty ba u + len * lword_of c ty) /\
   u + len * lword_of c ty < L).
Proof.
  intros len ty m L ba u p m' Hf H. pose proof Hf as (Hsp & Hba & Hst).
  unfold expand0 in H. rewrite Hsp in H. fold (lword_of c ty) in H.
  destruct (umalloc_head_cases (len * lword_of c ty) m L ba u Hf) as [[_ E]|(Hlt & m1 & E & Hf1 & Hex)]; rewrite E in H.
  - left. unfold set_expander in H. destruct (m_exp m); simpl in H; [|discriminate].
    inversion H; subst. split; [reflexivity|]. unfold ufill; simpl. auto.
  - right. destruct Hf1 as (Hsp1 & Hba1 & Hst1). rewrite Hba1, Hst1 in H. cbn [s_size s_used s_top1 s_top2] in H.
    unfold extra_of.
    destruct (negb (misalign ba u =? 0) && ((ty =? c_LUSUP) || (ty =? c_UCOL))) eqn:Ec.
    + apply andb_true_iff in Ec. destruct Ec as [_ Ec]. rewrite Ec.
      unfold set_expander in H. cbn [m_exp add_log set_stack] in H. destruct (m_exp m1); simpl in H; [|discriminate].
      inversion H; subst. split; [reflexivity|]. split; [|lia].
      unfold ufill; simpl. repeat split; auto. f_equal; lia.
    + assert (Hz : (if (ty =? c_LUSUP) || (ty =? c_UCOL) then align_up_extra ba u else 0) = 0).
      { destruct ((ty =? c_LUSUP) || (ty =? c_UCOL)); [|reflexivity].
        rewrite andb_true_r in Ec. apply negb_false_iff in Ec. apply Z.eqb_eq in Ec.
        unfold align_up_extra. rewrite Ec. reflexivity. }
      rewrite Hz. unfold set_expander in H. destruct (m_exp m1); simpl in H; [|discriminate].
      inversion H; subst. rewrite !Z.add_0_r. split; [reflexivity|]. split; [|lia].
      unfold ufill; simpl. repeat split; auto.
Qed.

(* ucol, lsub, usub as one attempt leaves them: when none is NULL they follow one another from r0 upwards and the last
   one ends strictly below the end of the buffer (it is the one request of the three that is never moved) *)
Definition chain3 (r0 L ba : Z) (ucol lsub usub : ptr) (nzu nzl : Z) : Prop :=
  exists o1 o2 o3, ucol = POff o1 /\ lsub = POff o2 /\ usub = POff o3 /\
    r0 <= o1 /\ misalign ba o1 = 0 /\ o1 + nzu * dword c <= o2 /\ o2 + nzl * iword <= o3 /\ o3 + nzu * iword < L.

Lemma expand3_user_cases : forall nzu nzl m L ba r0 ucol m2 lsub m3 usub m4,
  0 <= nzu -> 0 <= nzl -> ufill m L ba r0 ->
  expand0 fail c nzu c_UCOL m = Ok ucol m2 -> expand0 fail c nzl c_LSUB m2 = Ok lsub m3 ->
  expand0 fail c nzu c_USUB m3 = Ok usub m4 ->
  exists u4, ufill m4 L ba u4 /\
    (is_null ucol || is_null lsub || is_null usub = false ->
     chain3 r0 L ba ucol lsub usub nzu nzl /\ u4 < L).
Proof.
  intros nzu nzl m L ba r0 ucol m2 lsub m3 usub m4 Hu Hl Hf E1 E2 E3.
  assert (HB : 0 <= nzu * dword c) by (apply Z.mul_nonneg_nonneg; assumption).
  destruct (expand0_user_cases _ _ _ _ _ _ _ _ Hf E1) as [[-> Hf2]|(-> & Hf2 & Hlt2)].
  - (* ucol refused *)
    destruct (expand0_user_cases _ _ _ _ _ _ _ _ Hf2 E2) as [[-> Hf3]|(-> & Hf3 & Hlt3)];
      (destruct (expand0_user_cases _ _ _ _ _ _ _ _ Hf3 E3) as [[-> Hf4]|(-> & Hf4 & Hlt4)];
       eexists; (split; [exact Hf4|]); simpl; intros X; discriminate X).
  - rewrite lword_UCOL, extra_UCOL in *.
    pose proof (align_up_extra_bounds ba r0) as He. pose proof (align_up_extra_aligned ba r0) as Ha.
    set (e := align_up_extra ba r0) in *.
    destruct (expand0_user_cases _ _ _ _ _ _ _ _ Hf2 E2) as [[-> Hf3]|(-> & Hf3 & Hlt3)].
    + destruct (expand0_user_cases _ _ _ _ _ _ _ _ Hf3 E3) as [[-> Hf4]|(-> & Hf4 & Hlt4)];
        eexists; (split; [exact Hf4|]); simpl; intros X; discriminate X.
    + rewrite lword_LSUB, extra_LSUB in *.
      destruct (expand0_user_cases _ _ _ _ _ _ _ _ Hf3 E3) as [[-> Hf4]|(-> & Hf4 & Hlt4)].
      * eexists; (split; [exact Hf4|]); simpl; intros X; discriminate X.
      * rewrite lword_USUB, extra_USUB in *. eexists. split; [exact Hf4|]. intros _.
        split; [|unfold iword in *; lia].
        unfold chain3. eexists; eexists; eexists.
        split; [reflexivity|]. split; [reflexivity|]. split; [reflexivity|].
        unfold iword in *. repeat split; try lia; try exact Ha.
Qed.

Lemma urestore_ufill : forall m L ba u r0, ufill m L ba u -> ufill (urestore r0 r0 m) L ba r0.
Proof. intros m L ba u r0 (Hsp & Hba & Hst). unfold ufill, urestore. rewrite Hst. simpl. auto. Qed.

Lemma retry_loop_user_cases : forall fuel annz ucol lsub usub nzu nzl r0 m L ba u r m',
  0 <= nzu -> 0 <= nzl -> ufill m L ba u ->
  (is_null ucol || is_null lsub || is_null usub = false -> chain3 r0 L ba ucol lsub usub nzu nzl /\ u < L) ->
  retry_loop fail c fuel annz ucol lsub usub nzu nzl r0 r0 m = Ok r m' ->
  match r with
  | RLok uc ls us nu nl =>
      0 <= nu <= nzu /\ 0 <= nl <= nzl /\ chain3 r0 L ba uc ls us nu nl /\ exists u', ufill m' L ba u' /\ u' < L
  | RLgiveup _ _ => True
  end.
Proof.
  induction fuel as [|fuel IH]; intros annz ucol lsub usub nzu nzl r0 m L ba u r m' Hu Hl Hf Hch H; simpl in H.
  - destruct (is_null ucol || is_null lsub || is_null usub) eqn:En; simpl in H; [discriminate|].
    inversion H; subst. destruct (Hch eq_refl) as [Hc Hlt]. repeat split; try lia; [exact Hc|]. exists u. auto.
  - destruct (is_null ucol || is_null lsub || is_null usub) eqn:En; simpl in H.
    2:{ inversion H; subst. destruct (Hch eq_refl) as [Hc Hlt]. repeat split; try lia; [exact Hc|]. exists u. auto. }
    pose proof Hf as (Hsp & _ & _). rewrite Hsp in H.
    assert (Hu2 : 0 <= nzu / 2 <= nzu) by (split; [apply Z.div_pos; lia|apply Z.div_le_upper_bound; lia]).
    assert (Hl2 : 0 <= nzl / 2 <= nzl) by (split; [apply Z.div_pos; lia|apply Z.div_le_upper_bound; lia]).
    destruct ((nzu / 2 <? annz / 2) || (nzu / 2 <? 1)); [inversion H; subst; exact I|].
    pose proof (urestore_ufill m L ba u r0 Hf) as Hf1.
    destruct (expand0 fail c (nzu / 2) c_UCOL _) as [p2 m2|s2 m2] eqn:E2; cbn [bind] in H; [|discriminate].
    destruct (expand0 fail c (nzl / 2) c_LSUB m2) as [p3 m3|s3 m3] eqn:E3; cbn [bind] in H; [|discriminate].
    destruct (expand0 fail c (nzu / 2) c_USUB m3) as [p4 m4|s4 m4] eqn:E4; cbn [bind] in H; [|discriminate].
    destruct (expand3_user_cases _ _ _ _ _ _ _ _ _ _ _ _ (proj1 Hu2) (proj1 Hl2) Hf1 E2 E3 E4) as (u4 & Hf4 & Hch4).
    specialize (IH _ _ _ _ _ _ _ _ _ _ _ _ _ (proj1 Hu2) (proj1 Hl2) Hf4 Hch4 H).
    destruct r as [uc ls us nu nl|]; [|exact I].
    destruct IH as (A & B & C & D). repeat split; try lia; assumption.
Qed.

Lemma ensure_expanders_frame2 : forall m,
  m_ba (ensure_expanders fail m) = m_ba m.
Proof.
  intros m. unfold ensure_expanders. destruct (m_exp m); [reflexivity|].
  unfold sys_malloc. destruct (fail (S (m_sysn m))); reflexivity.
Qed.

(* bytes the 13 arrays of a Glu take (alignment bytes not counted) *)
Definition glu_need (n : Z) (g : glu) : Z :=
  (36 * n + 20) + g_nzlumax g * dword c + g_nzumax g * dword c + g_nzlmax g * iword + g_nzumax g * iword.

Lemma meminit_user_in_buffer_lemma : forall fuel a m g m',
  a_refact a = false -> 0 < a_lwork a -> 0 <= a_n a -> 0 <= a_annz a -> 0 <= a_nzlumax a ->
  mem_init fail c fuel a m = Ok (MIok g) m' ->
  exists bl,
    glu_blocks c (a_n a) g = Some bl /\
    Forall (block_in 0 (a_lwork a)) bl /\ ForallOrdPairs disjoint bl /\ blocks_okb (a_lwork a) bl = true /\
    g_nzlumax g = nzlumax0 c a /\ 0 <= g_nzumax g <= nzumax0 c a /\ 0 <= g_nzlmax g <= nzlmax0 c a /\
    (exists o, g_lusup g = POff o /\ misalign (a_ba a) o = 0) /\
    (exists o, g_ucol g = POff o /\ misalign (a_ba a) o = 0) /\
    glu_need (a_n a) g < a_lwork a /\
    s_size (m_stack m') = a_lwork a /\ s_top2 (m_stack m') = a_lwork a /\
    s_used (m_stack m') = s_top1 (m_stack m') /\ s_used (m_stack m') < a_lwork a.
Proof.
  intros fuel a m g m' Hre Hlw Hn Hannz Hnzlu H.
  unfold mem_init in H. rewrite Hre in H. simpl negb in H. cbv iota in H.
  replace (a_lwork a =? -1) with false in H by (symmetry; apply Z.eqb_neq; lia).
  set (m0 := set_ba (set_dims m (a_n a) 0) (a_ba a)) in H.
  pose proof (ensure_expanders_frame2 m0) as Hba1.
  set (m1 := ensure_expanders fail m0) in *.
  assert (Hu : 0 <= nzumax0 c a) by (apply guess_nonneg; assumption).
  assert (Hl : 0 <= nzlmax0 c a) by (apply guess_nonneg; assumption).
  assert (Hlu : 0 <= nzlumax0 c a) by (unfold nzlumax0; destruct (a_dyn a); [apply guess_nonneg|]; assumption).
  set (n := a_n a) in *. set (lw := a_lwork a) in *. set (ba := a_ba a) in *.
  set (NU := nzumax0 c a) in *. set (NL := nzlmax0 c a) in *. set (NLU := nzlumax0 c a) in *.
  set (dw := dword c) in *.
  assert (HA : 0 <= NLU * dw) by (apply Z.mul_nonneg_nonneg; assumption).
  unfold mi_prefix in H. fold n lw in H. unfold setup_space in H.
  replace (lw =? 0) with false in H by (symmetry; apply Z.eqb_neq; lia).
  replace (0 <? lw) with true in H by (symmetry; apply Z.ltb_lt; lia).
  set (m2 := set_stack (set_space m1 USER) (setup_stack lw)) in H.
  assert (Hf2 : ufill m2 lw ba 0).
  { unfold ufill, m2, setup_stack; simpl. repeat split; auto. }
  replace (m_space m2) with USER in H by reflexivity.
  destruct (alloc_ints_user (int_array_sizes n) m2) as [ps m3] eqn:E3.
  destruct (existsb is_null ps) eqn:Enull; cbn [bind] in H; [discriminate|].
  destruct (alloc_ints_user_cases (int_array_sizes n) m2 lw ba 0 ps m3 Hf2) as (Hps & Hf3 & _); [|exact E3|exact Enull|].
  { unfold int_array_sizes. repeat constructor; lia. }
  unfold int_array_sizes, sumz, iword in Hf3.
  replace (0 + (n + 1 + (n + (n + 1 + (n + 1 + (n + (n + 1 + (n + (n + 1 + (n + 0))))))))) * 4) with (36 * n + 20) in Hf3 by lia.
  (* lusup *)
  fold NLU NU NL in H.
  destruct (expand0 fail c NLU c_LUSUP m3) as [lusup m4|s4 m4] eqn:E4; cbn [bind] in H; [|discriminate].
  cbv zeta in H.
  destruct (expand0 fail c NU c_UCOL m4) as [ucol m5|s5 m5] eqn:E5; cbn [bind] in H; [|discriminate].
  destruct (expand0 fail c NL c_LSUB m5) as [lsub m6|s6 m6] eqn:E6; cbn [bind] in H; [|discriminate].
  destruct (expand0 fail c NU c_USUB m6) as [usub m7|s7 m7] eqn:E7; cbn [bind] in H; [|discriminate].
  cbn [p_ucol p_lsub p_usub p_top1 p_used] in H.
  destruct (retry_loop fail c fuel (a_annz a) ucol lsub usub NU NL _ _ m7) as [r m8|s8 m8] eqn:E8; cbn [bind] in H; [|discriminate].
  unfold mi_finish in H. destruct r as [uc ls us nu nl|nu nl]; [|discriminate].
  cbn [p_lusup p_ia] in H. destruct (is_null lusup) eqn:Elu; [discriminate|].
  inversion H; subst g m'; clear H.
  destruct (expand0_user_cases _ _ _ _ _ _ _ _ Hf3 E4) as [[-> _]|(-> & Hf4 & Hlt4)]; [discriminate Elu|].
  rewrite lword_LUSUP, extra_LUSUP in *. fold dw in Hf4, Hlt4.
  pose proof (align_up_extra_bounds ba (36 * n + 20)) as He1.
  pose proof (align_up_extra_aligned ba (36 * n + 20)) as Ha1.
  set (e1 := align_up_extra ba (36 * n + 20)) in *.
  set (r0 := 36 * n + 20 + e1 + NLU * dw) in *.
  pose proof Hf4 as (_ & _ & Hst4). rewrite Hst4 in E8. cbn [s_top1 s_used] in E8.
  destruct (expand3_user_cases _ _ _ _ _ _ _ _ _ _ _ _ Hu Hl Hf4 E5 E6 E7) as (u7 & Hf7 & Hch7).
  pose proof (retry_loop_user_cases _ _ _ _ _ _ _ _ _ _ _ _ _ _ Hu Hl Hf7 Hch7 E8) as (Hnu & Hnl & Hch & u8 & Hf8 & Hlt8).
  destruct Hch as (o1 & o2 & o3 & -> & -> & -> & C1 & C2 & C3 & C4 & C5).
  destruct Hf8 as (_ & _ & Hst8).
  fold dw in C3.
  assert (HB : 0 <= nu * dw) by (apply Z.mul_nonneg_nonneg; lia).
  set (B := nu * dw) in *. set (A := NLU * dw) in *.
  assert (Hbl : exists bl, glu_blocks c n
            (mkGlu (nthp ps 0) (nthp ps 1) (nthp ps 2) (nthp ps 3) (nthp ps 4) (nthp ps 5) (nthp ps 6) (nthp ps 7) (nthp ps 8)
                   (POff (36 * n + 20 + e1)) (POff o1) (POff o2) (POff o3) nl nu NLU) = Some bl /\
            Forall (block_in 0 lw) bl /\ ForallOrdPairs disjoint bl).
  { subst ps. eexists. split.
    { unfold glu_blocks, glu_ptrs, glu_sizes, int_array_sizes.
      cbn [map app zip_blocks poff nthp nth offsets g_xsup g_xsup_end g_supno g_xlsub g_xlsub_end g_xlusup
           g_xlusup_end g_xusub g_xusub_end g_lusup g_ucol g_lsub g_usub g_nzlmax g_nzumax g_nzlumax].
      reflexivity. }
    fold dw. fold A B. unfold iword in *.
    split.
    { repeat (apply Forall_cons; [unfold block_in; cbn [fst snd]; lia|]). apply Forall_nil. }
    { repeat (apply FOP_cons; [repeat (apply Forall_cons; [unfold disjoint; cbn [fst snd]; lia|]); apply Forall_nil|]).
      apply FOP_nil. } }
  destruct Hbl as (bl & Hgb & Hin & Hdj).
  exists bl. split; [exact Hgb|]. split; [exact Hin|]. split; [exact Hdj|].
  split; [apply blocks_okb_complete; assumption|].
  cbn [g_nzlumax g_nzumax g_nzlmax g_lusup g_ucol].
  split; [reflexivity|]. split; [lia|]. split; [lia|].
  split; [eexists; split; [reflexivity|exact Ha1]|].
  split; [eexists; split; [reflexivity|exact C2]|].
  split; [unfold glu_need; cbn [g_nzlumax g_nzumax g_nzlmax]; fold dw A B; unfold iword in *; lia|].
  cbn [m_stack set_dims]. rewrite Hst8. cbn [s_size s_top2 s_used s_top1]. lia.
Qed.

(* the nine integer arrays do not fit (their 36 n + 20 bytes must be STRICTLY below lwork, the allocator keeps one byte):
   MemInit returns memory_use(the three initial guesses) + n at once -- no L/U array is requested, no_expand stays 0.
   Before fix 'MemInit tests the nine integer arrays' it went on with NULL pointer arrays (finding C14-intarrays). *)
Lemma meminit_int_arrays_refused_lemma : forall fuel a m,
  a_refact a = false -> 0 < a_lwork a -> 0 <= a_n a -> a_lwork a <= 36 * a_n a + 20 ->
  exists m',
    mem_init fail c fuel a m
    = Ok (MIfail (f32 (memory_use c (a_n a) (nzlmax0 c a) (nzumax0 c a) (nzlumax0 c a) + f32 (a_n a)))) m' /\
    m_noexp m' = 0 /\ m_exp m' = m_exp (ensure_expanders fail (set_ba (set_dims m (a_n a) 0) (a_ba a))).
Proof.
  intros fuel a m Hre Hlw Hn Hsmall.
  unfold mem_init. rewrite Hre. simpl negb. cbv iota.
  replace (a_lwork a =? -1) with false by (symmetry; apply Z.eqb_neq; lia).
  set (m0 := set_ba (set_dims m (a_n a) 0) (a_ba a)).
  pose proof (ensure_expanders_frame2 m0) as Hba1.
  set (m1 := ensure_expanders fail m0) in *.
  set (n := a_n a) in *. set (lw := a_lwork a) in *.
  unfold mi_prefix. fold n lw. unfold setup_space.
  replace (lw =? 0) with false by (symmetry; apply Z.eqb_neq; lia).
  replace (0 <? lw) with true by (symmetry; apply Z.ltb_lt; lia).
  set (m2 := set_stack (set_space m1 USER) (setup_stack lw)).
  assert (Hf2 : ufill m2 lw (a_ba a) 0).
  { unfold ufill, m2, setup_stack; simpl. repeat split; auto. }
  replace (m_space m2) with USER by reflexivity.
  destruct (alloc_ints_user (int_array_sizes n) m2) as [ps m3] eqn:E3.
  assert (Hex3 : m_exp m3 = m_exp m1 /\ m_noexp m3 = 0).
  { assert (G : forall szs mm ps' mm', alloc_ints_user szs mm = (ps', mm') -> m_exp mm' = m_exp mm /\ m_noexp mm' = m_noexp mm).
    { induction szs as [|s t IH]; intros mm ps' mm' E; simpl in E; [inversion E; auto|].
      unfold umalloc in E. destruct (user_malloc (m_ba mm) (s * iword) HEAD (m_stack mm)) as [[off|] st].
      - destruct (alloc_ints_user t _) as [ps2 mm2] eqn:E2. inversion E; subst. apply IH in E2. simpl in E2. exact E2.
      - destruct (alloc_ints_user t mm) as [ps2 mm2] eqn:E2. inversion E; subst. apply IH in E2. exact E2. }
    apply G in E3. destruct E3 as [X Y]. split; [exact X|]. rewrite Y. unfold m2, m1, ensure_expanders.
    destruct (m_exp m0); [reflexivity|]. unfold sys_malloc. destruct (fail (S (m_sysn m0))); reflexivity. }
  destruct (existsb is_null ps) eqn:Enull; cbn [bind].
  - eexists. split; [reflexivity|]. destruct Hex3 as [X Y]. split; [exact Y|exact X].
  - exfalso.
    destruct (alloc_ints_user_cases (int_array_sizes n) m2 lw (a_ba a) 0 ps m3 Hf2) as (_ & _ & Hlt); [|exact E3|exact Enull|].
    { unfold int_array_sizes. repeat constructor; lia. }
    unfold int_array_sizes, sumz, iword in Hlt.
    assert (X : [n + 1; n; n + 1; n + 1; n; n + 1; n; n + 1; n] <> []) by discriminate.
    specialize (Hlt X). lia.
Qed.

End AnyBuffer.

(* ================================================================== *)
(* 6. vm_compute witnesses: where the faithful model violates the property text, and the arguments of former witnesses
      that have been repaired *)

Definition default_cfg : cfg := mkCfg 8 200 200 (-50) (-50) (-30).   (* double precision, sp_ienv defaults *)
Definition small_cfg : cfg := mkCfg 8 2 2 (-1) (-1) (-2).

(* (a) [repaired: fixes 'the retry loop gives back exactly what the last attempt took' and 'MemInit tests the nine integer
   arrays'; was insufficient_buffer_wild_blocks_lemma: with lwork = 3000 the retry loop "freed" blocks that had never been handed
   out, MemInit returned 0 and ucol was at offset -19616, BELOW the buffer]
   the very arguments of the old witness: lusup (1600 bytes, moved up by 4 for alignment) ends at 1984 = retry_top1; five
   attempts are rewound to 1984, the sixth (nzumax = 1500/32 = 46 >= annz/2, nzlmax = 900/32 = 28) fits: MemInit returns 0 with
   the 13 arrays inside [0, 3000), pairwise disjoint, top1 = used = 2648.  With lwork = 300 the nine integer arrays (380 bytes)
   do not fit: failure code 23610 > n at once (memory_use of the three initial guesses + n), nothing after the seventh
   integer array is handed out.  Instances of meminit_user_in_buffer_lemma / meminit_int_arrays_refused_lemma. *)
Lemma insufficient_buffer_lemma :
  (exists a g m', a = mkArgs 10 30 1 4 false false 200 0 0 3000 0 None /\
    mem_init (fun _ => false) default_cfg 64 a init_mem = Ok (MIok g) m' /\
    (exists bl, glu_blocks default_cfg (a_n a) g = Some bl /\ blocks_okb (a_lwork a) bl = true) /\
    g_lusup g = POff 384 /\ g_ucol g = POff 1984 /\ g_lsub g = POff 2352 /\ g_usub g = POff 2464 /\
    g_nzumax g = 46 /\ g_nzlmax g = 28 /\ g_nzlumax g = 200 /\
    m_stack m' = mkStack 3000 2648 2648 3000) /\
  (exists a m', a = mkArgs 10 30 1 4 false false 200 0 0 300 0 None /\
    mem_init (fun _ => false) default_cfg 64 a init_mem = Ok (MIfail 23610) m' /\
    a_n a + 1 < 23610 /\ m_noexp m' = 0 /\ m_stack m' = mkStack 300 296 296 300).
Proof.
  split.
  - eexists. eexists. eexists. split; [reflexivity|]. split; [vm_compute; reflexivity|].
    split; [eexists; split; vm_compute; reflexivity|]. repeat split; vm_compute; reflexivity.
  - eexists. eexists. split; [reflexivity|]. split; [vm_compute; reflexivity|]. repeat split; vm_compute; reflexivity.
Qed.

(* (b) [repaired: fix 'tail blocks are aligned by the allocator']  WorkInit used to move a misaligned dwork DOWN without
   testing the room: with sp_ienv(8) = -2 and lwork = 477 the first 4 bytes of dwork were the last int of usub and top2 ended
   below top1 (the refuted statement workinit_alignment_overlap of earlier versions).  Now the allocator aligns the block
   itself and tests the enlarged request: for these very arguments iwork takes 125 bytes (offset 352), dwork (72 bytes) is
   REFUSED and WorkInit returns isize + dsize + n; with 8 more bytes (lwork = 485, buffer end still misaligned) both arrays
   are granted, dwork on an 8-byte boundary, everything inside the buffer, disjoint from the 13 arrays of Glu, top1 <= top2.
   Both are instances of work_init_user_safe_lemma (section 8). *)
Lemma workinit_alignment_in_range_lemma :
  (exists a g m1 iw m2,
    a = mkArgs 3 5 1 1 false false 7 0 0 477 0 None /\
    mem_init (fun _ => false) small_cfg 64 a init_mem = Ok (MIok g) m1 /\
    work_init (fun _ => false) small_cfg (a_n a) (a_w a) m1
      = Ok (work_isize (a_n a) (a_w a) + work_dsize small_cfg (a_n a) (a_w a) + a_n a, POff iw, PNull) m2 /\
    exists bl, glu_blocks small_cfg (a_n a) g = Some bl /\ blocks_okb (a_lwork a) bl = true /\
    blocks_okb (a_lwork a) (bl ++ [(iw, work_isize (a_n a) (a_w a))]) = true /\
    s_top1 (m_stack m2) <= s_top2 (m_stack m2) /\ s_top1 (m_stack m2) = s_top1 (m_stack m1)) /\
  (exists a g m1 iw dw m2,
    a = mkArgs 3 5 1 1 false false 7 0 0 485 0 None /\
    mem_init (fun _ => false) small_cfg 64 a init_mem = Ok (MIok g) m1 /\
    work_init (fun _ => false) small_cfg (a_n a) (a_w a) m1 = Ok (0, POff iw, POff dw) m2 /\
    misalign (a_ba a) dw = 0 /\
    exists bl, glu_blocks small_cfg (a_n a) g = Some bl /\ blocks_okb (a_lwork a) bl = true /\
    blocks_okb (a_lwork a) (bl ++ [(iw, work_isize (a_n a) (a_w a)); (dw, work_dsize small_cfg (a_n a) (a_w a))]) = true /\
    s_top1 (m_stack m2) <= s_top2 (m_stack m2) /\ s_top1 (m_stack m2) = s_top1 (m_stack m1) /\
    forall o b e, ~ In (EvShift o b e) (m_log m2)).
Proof.
  split.
  - eexists. eexists. eexists. eexists. eexists. split; [reflexivity|].
    split; [vm_compute; reflexivity|]. split; [vm_compute; reflexivity|].
    eexists. split; [vm_compute; reflexivity|]. repeat split; vm_compute; (reflexivity || discriminate).
  - eexists. eexists. eexists. eexists. eexists. eexists. split; [reflexivity|].
    split; [vm_compute; reflexivity|]. split; [vm_compute; reflexivity|]. split; [vm_compute; reflexivity|].
    eexists. split; [vm_compute; reflexivity|].
    split; [vm_compute; reflexivity|]. split; [vm_compute; reflexivity|].
    split; [vm_compute; discriminate|]. split; [vm_compute; reflexivity|].
    intros o b e H. vm_compute in H.
    repeat (destruct H as [H|H]; [discriminate|]). exact H.
Qed.

(* (c) [repaired]  two threads, buffer end not 8-aligned: the fix-up of thread 0 used to run after thread 1 had taken its
   iwork, and the two overlapped (the refuted statement workinit_race_overlap of earlier versions).  For the very schedule
   of that witness no thread passes through the fix-up state any more and the blocks are pairwise disjoint and inside
   [top1, lwork); the fourth step of the schedule is now thread 0's WorkFree (run_sched), or nothing at all in the
   start-up phase (run_init), where both threads end up ready with disjoint aligned blocks.
   Instances of workfree_threads_lemma / workinit_threads_lemma (section 7), which hold for EVERY schedule. *)
Lemma workinit_race_no_overlap_lemma :
  exists lwork sched,
    (let '(ts, s) := run_sched small_cfg 3 1 0 sched [TStart; TStart] (mkStack lwork 264 264 lwork) in
     ts = [TDone; TReady 9688 9616] /\ blocks_okb lwork (live_blocks small_cfg 3 1 ts) = true /\
     s_top1 s = 264 /\ s_top1 s <= s_top2 s) /\
    (let '(ts, s) := run_init small_cfg 3 1 0 sched [TStart; TStart] (mkStack lwork 264 264 lwork) in
     ts = [TReady 9880 9808; TReady 9688 9616] /\ blocks_okb lwork (live_blocks small_cfg 3 1 ts) = true /\
     forallb (in_rangeb 264 lwork) (live_blocks small_cfg 3 1 ts) = true /\
     forallb (fun b => misalign 0 (fst b) =? 0) (live_blocks small_cfg 3 1 ts) = true /\
     s = mkStack lwork 652 264 9616).
Proof. exists 10004, [0; 0; 1; 0; 1]%nat. vm_compute. split; [split; [reflexivity|split; [reflexivity|split; [reflexivity|discriminate]]]|auto 10]. Qed.

(* (d) three threads, thread 1 finishes first and calls WorkFree while thread 0 still works and thread 2 starts late: since
   fix 'WorkFree keeps the tail' nothing is released, thread 2 gets fresh blocks (this very schedule used to hand thread 0's
   iwork block to thread 2: findings F17 / C14-workfree, now fixed) *)
Lemma workfree_keeps_tail_example :
  exists lwork sched,
    let '(ts, s) := run_sched small_cfg 3 1 0 sched [TStart; TStart; TStart] (mkStack lwork 264 264 lwork) in
    nth_error ts 1 = Some TDone /\ (exists iw, nth_error ts 2 = Some (TGotI iw)) /\
    pairwise_disjointb (live_blocks small_cfg 3 1 ts) = true.
Proof. exists 10000, [0; 0; 1; 1; 1; 2]%nat. vm_compute. split; [reflexivity|]. split; [eexists; reflexivity|reflexivity]. Qed.

(* (e) MemInit failed (info > n + 1), no L/U was built: on the arguments that used to make p?gssvx call superlu_?QuerySpace(L, U)
   on the unbuilt factors, nothing reads L or U any more (general statement: driver_never_reads_unbuilt) *)
Lemma driver_skips_queryspace_example :
  exists a code m' fo,
    0 < a_lwork a /\
    mem_init (fun _ => false) default_cfg 64 a init_mem = Ok (MIfail code) m' /\
    gstrf_outcome (MIfail code) [] = Some fo /\ a_n a + 1 < fo_info fo /\ fo_lu_built fo = false /\
    existsb reads_lu (gssvx_tail (a_lwork a) (a_n a) (fo_info fo)) = false.
Proof.
  exists (mkArgs 10 30 1 4 false false 200 0 0 300 0 None).
  eexists. eexists. eexists. split; [reflexivity|].
  split; [vm_compute; reflexivity|]. split; [vm_compute; reflexivity|]. repeat split; vm_compute; reflexivity.
Qed.

(* (f) the ?expanders header is not tested: if only that request fails, the first use is a NULL dereference *)
Lemma expanders_null_crash_lemma :
  exists a m', mem_init (fun k => Nat.eqb k 1) default_cfg 64 a init_mem = Stop Crash m'.
Proof.
  exists (mkArgs 10 30 1 4 false false 200 0 0 0 0 None). eexists. vm_compute. reflexivity.
Qed.

(* ================================================================== *)
(* 7. P threads starting up on the user stack, ANY interleaving of their locked sections, ANY alignment of the buffer
      and ANY element size (since fix 'tail blocks are aligned by the allocator' every TAIL block is put on an 8-byte
      boundary inside the allocator's own critical section, so the fix-up state TGotD of p?gstrf_WorkInit is never entered):
      the blocks of different threads never overlap and stay between the HEAD part and the end of the buffer *)
Section Threads.
Variable c : cfg.
Variables n w ba L T1 : Z.
Hypothesis Hi0 : 0 <= work_isize n w.
Hypothesis Hd0 : 0 <= work_dsize c n w.
Hypothesis HT : 0 <= T1 <= L.

Lemma work_isize_mod8 : work_isize n w mod 8 = 0.
Proof.
  unfold work_isize, iword, c_NO_MARKER.
  replace ((2 * w + 5 + 3) * n * 4) with (((w + 4) * n) * 8) by ring. apply Z.mod_mul. lia.
Qed.

Lemma nth_error_upd_same : forall (A : Type) (l : list A) i x t, nth_error l i = Some t -> nth_error (upd l i x) i = Some x.
Proof. induction l as [|h tl IH]; intros [|i] x t H; simpl in *; try discriminate; auto. eapply IH; eassumption. Qed.

Lemma nth_error_upd_other : forall (A : Type) (l : list A) i j x, i <> j -> nth_error (upd l i x) j = nth_error l j.
Proof.
  induction l as [|h tl IH]; intros [|i] [|j] x H; simpl; auto; try congruence;
    try (apply IH; congruence).
Qed.

(* the invariant (no alignment clause any more: nothing is assumed about ba + top2) *)
Definition tinv (ts : list tstate) (s : stack) : Prop :=
  s_size s = L /\ s_top1 s = T1 /\ T1 <= s_top2 s <= L /\ s_used s = s_top1 s + (s_size s - s_top2 s) /\
  (forall i t, nth_error ts i = Some t -> (forall iw dw e, t <> TGotD iw dw e) /\
                                          Forall (block_in (s_top2 s) L) (thread_blocks c n w t) /\
                                          Forall (fun b => misalign ba (fst b) = 0) (thread_blocks c n w t) /\
                                          (forall iw dw, t = TReady iw dw -> disjoint (iw, work_isize n w) (dw, work_dsize c n w))) /\
  (forall i j ti tj bi bj, i <> j -> nth_error ts i = Some ti -> nth_error ts j = Some tj ->
                           In bi (thread_blocks c n w ti) -> In bj (thread_blocks c n w tj) -> disjoint bi bj).

Lemma mod8_sub : forall a b, a mod 8 = 0 -> b mod 8 = 0 -> (a - b) mod 8 = 0.
Proof.
  intros a b Ha Hb. rewrite Zminus_mod, Ha, Hb. reflexivity.
Qed.

Lemma block_in_weaken : forall lo lo' hi b, lo' <= lo -> block_in lo hi b -> block_in lo' hi b.
Proof. unfold block_in; intros; lia. Qed.

Lemma init_step_inv : forall ts s i t t' s',
  tinv ts s -> nth_error ts i = Some t -> init_step c n w ba t s = (t', s') -> tinv (upd ts i t') s'.
Proof.
  intros ts s i t t' s' (Hsz & Ht1 & Ht2 & Hu & Hper & Hdis) Hi Hstep.
  destruct (Hper i t Hi) as (HnoD & Hblk & Halg & Hrd).
  (* a generic way to re-establish the invariant when thread i gets a new block list bl' inside [top2', L)
     whose elements are below the old top2 *)
  assert (Hgen : forall top2' used' bl',
            s' = mkStack L used' T1 top2' -> T1 <= top2' <= s_top2 s -> used' = T1 + (L - top2') ->
            thread_blocks c n w t' = bl' ->
            (forall iw dw e, t' <> TGotD iw dw e) ->
            (forall b, In b bl' -> In b (thread_blocks c n w t) \/
                                   (top2' <= fst b /\ fst b + snd b <= s_top2 s /\ misalign ba (fst b) = 0)) ->
            (forall iw dw, t' = TReady iw dw -> disjoint (iw, work_isize n w) (dw, work_dsize c n w)) ->
            tinv (upd ts i t') s').
  { intros top2' used' bl' -> Hr Hus Hbl Hnd Hnew Hrd'.
    unfold tinv; simpl.
    split; [reflexivity|]. split; [reflexivity|]. split; [lia|]. split; [lia|]. split.
    - intros j tj Hj. destruct (Nat.eq_dec i j) as [<-|Hne].
      + rewrite (nth_error_upd_same _ ts i t' t Hi) in Hj. inversion Hj; subst tj.
        split; [assumption|]. split; [|split; [|assumption]].
        * rewrite Hbl. apply Forall_forall. intros b Hb. destruct (Hnew b Hb) as [Hold|(Hlo & Hhi & _)].
          -- rewrite Forall_forall in Hblk. apply (block_in_weaken (s_top2 s)); [lia|]. apply Hblk; assumption.
          -- unfold block_in. lia.
        * rewrite Hbl. apply Forall_forall. intros b Hb. destruct (Hnew b Hb) as [Hold|(_ & _ & Hal')].
          -- rewrite Forall_forall in Halg. apply Halg; assumption.
          -- exact Hal'.
      + rewrite nth_error_upd_other in Hj by assumption.
        destruct (Hper j tj Hj) as (Hn1 & Hb1 & Ha1 & Hr1). split; [assumption|]. split; [|split; assumption].
        eapply Forall_impl; [|exact Hb1]. intros b. apply block_in_weaken. lia.
    - intros j k tj tk bj bk Hjk Hj Hk Hbj Hbk.
      destruct (Nat.eq_dec i j) as [<-|Hnj]; destruct (Nat.eq_dec i k) as [<-|Hnk]; try congruence.
      + rewrite (nth_error_upd_same _ ts i t' t Hi) in Hj. inversion Hj; subst tj.
        rewrite nth_error_upd_other in Hk by assumption. rewrite Hbl in Hbj.
        destruct (Hnew bj Hbj) as [Hold|(Hlo & Hhi & _)].
        * eapply (Hdis i k); eassumption.
        * destruct (Hper k tk Hk) as (_ & Hbk' & _). rewrite Forall_forall in Hbk'. specialize (Hbk' _ Hbk).
          unfold block_in, disjoint in *. lia.
      + rewrite (nth_error_upd_same _ ts i t' t Hi) in Hk. inversion Hk; subst tk.
        rewrite nth_error_upd_other in Hj by assumption. rewrite Hbl in Hbk.
        destruct (Hnew bk Hbk) as [Hold|(Hlo & Hhi & _)].
        * eapply (Hdis j i); eassumption || congruence.
        * destruct (Hper j tj Hj) as (_ & Hbj' & _). rewrite Forall_forall in Hbj'. specialize (Hbj' _ Hbj).
          unfold block_in, disjoint in *. lia.
      + rewrite nth_error_upd_other in Hj, Hk by assumption. eapply (Hdis j k); eassumption. }
  (* the unchanged-stack case *)
  assert (Hsame : t' = t -> s' = s -> tinv (upd ts i t') s').
  { intros -> ->. destruct s as [sz us t1 t2]; simpl in *. subst sz t1.
    apply (Hgen t2 us (thread_blocks c n w t)); auto; try lia. }
  (* a refusal: the thread fails, the stack is unchanged *)
  assert (Hfail : forall code, t' = TFailed code -> s' = s -> tinv (upd ts i t') s').
  { intros code -> ->. destruct s as [sz us t1 t2]; simpl in *. subst sz t1.
    apply (Hgen t2 us []); auto; try lia; try discriminate; try (intros b []). }
  destruct t as [|iw|iw dw e|iw dw|code|]; simpl in Hstep.
  - (* TStart *)
    destruct (user_malloc ba (work_isize n w) TAIL s) as [[off|] s1] eqn:E.
    + inversion Hstep; subst t' s'. clear Hstep.
      apply user_malloc_granted in E. cbv zeta in E. destruct E as (_ & Hex & Hf2 & Hal & -> & ->).
      unfold stack_full in Hf2. apply Z.leb_gt in Hf2.
      set (extra := tail_extra ba (work_isize n w) s) in *.
      apply (Hgen (s_top2 s - (work_isize n w + extra)) (s_used s + (work_isize n w + extra))
                  [(s_top2 s - (work_isize n w + extra), work_isize n w)]);
        try (rewrite Hsz, Ht1; reflexivity); try lia; try discriminate.
      * reflexivity.
      * intros b [<-|[]]. right. simpl. split; [lia|]. split; [lia|exact Hal].
    + apply user_malloc_refused in E. destruct E as [-> _]. inversion Hstep; subst t' s'.
      eapply Hfail; reflexivity.
  - (* TGotI *)
    destruct (user_malloc ba (work_dsize c n w) TAIL s) as [[off|] s1] eqn:E.
    + pose proof (user_malloc_tail_aligned _ _ _ _ _ E) as Hal.
      rewrite Hal in Hstep. simpl in Hstep. inversion Hstep; subst t' s'. clear Hstep.
      apply user_malloc_granted in E. cbv zeta in E. destruct E as (_ & Hex & Hf2 & _ & -> & ->).
      unfold stack_full in Hf2. apply Z.leb_gt in Hf2.
      set (extra := tail_extra ba (work_dsize c n w) s) in *.
      simpl in Hblk. inversion Hblk as [|? ? Hb1 _]; subst. unfold block_in in Hb1; simpl in Hb1.
      apply (Hgen (s_top2 s - (work_dsize c n w + extra)) (s_used s + (work_dsize c n w + extra))
                  [(iw, work_isize n w); (s_top2 s - (work_dsize c n w + extra), work_dsize c n w)]);
        try (rewrite Hsz, Ht1; reflexivity); try lia; try discriminate.
      * reflexivity.
      * intros b [<-|[<-|[]]]; [left; simpl; auto|right; simpl; split; [lia|split; [lia|exact Hal]]].
      * intros iw' dw' Heq. inversion Heq; subst. unfold disjoint; simpl. lia.
    + apply user_malloc_refused in E. destruct E as [-> _]. inversion Hstep; subst t' s'.
      eapply Hfail; reflexivity.
  - exfalso. eapply HnoD. reflexivity.
  - inversion Hstep; subst. apply Hsame; reflexivity.
  - inversion Hstep; subst. apply Hsame; reflexivity.
  - inversion Hstep; subst. apply Hsame; reflexivity.
Qed.

Lemma run_init_inv : forall sched ts s, tinv ts s -> let '(ts', s') := run_init c n w ba sched ts s in tinv ts' s'.
Proof.
  induction sched as [|i rest IH]; intros ts s Hinv; simpl; [assumption|].
  destruct (nth_error ts i) as [t|] eqn:E; [|apply IH; assumption].
  destruct (init_step c n w ba t s) as [t' s'] eqn:Es.
  apply IH. eapply init_step_inv; eassumption.
Qed.

Lemma tinv_start : forall P, tinv (repeat TStart P) (mkStack L T1 T1 L).
Proof.
  intros P. unfold tinv; simpl.
  split; [reflexivity|]. split; [reflexivity|]. split; [lia|]. split; [lia|]. split.
  - intros i t H. apply nth_error_In in H. apply repeat_spec in H. subst t. simpl.
    split; [intros; discriminate|]. split; [constructor|]. split; [constructor|intros; discriminate].
  - intros i j ti tj bi bj _ Hi _ Hbi _. apply nth_error_In in Hi. apply repeat_spec in Hi. subst ti. destruct Hbi.
Qed.

(* what the invariant gives about the threads' blocks *)
Lemma tinv_conclusion : forall ts s, tinv ts s ->
  (forall i t b, nth_error ts i = Some t -> In b (thread_blocks c n w t) -> block_in T1 L b) /\
  (forall i j ti tj bi bj, i <> j -> nth_error ts i = Some ti -> nth_error ts j = Some tj ->
        In bi (thread_blocks c n w ti) -> In bj (thread_blocks c n w tj) -> disjoint bi bj) /\
  (forall i iw dw, nth_error ts i = Some (TReady iw dw) -> disjoint (iw, work_isize n w) (dw, work_dsize c n w)) /\
  s_used s = s_top1 s + (s_size s - s_top2 s) /\ s_top1 s = T1 /\ T1 <= s_top2 s <= L.
Proof.
  intros ts s (Hsz & Ht1 & Ht2 & Hu & Hper & Hdis).
  split; [|split; [exact Hdis|split; [|split; [exact Hu|split; [exact Ht1|exact Ht2]]]]].
  - intros i t b Hi Hb. destruct (Hper i t Hi) as (_ & Hbl & _). rewrite Forall_forall in Hbl. specialize (Hbl _ Hb).
    unfold block_in in *. lia.
  - intros i iw dw Hi. destruct (Hper i _ Hi) as (_ & _ & _ & Hr). apply Hr. reflexivity.
Qed.

(* the alignment fix-up of p?gstrf_WorkInit is dead: no thread is ever in the state between user_malloc(dwork) and the
   second locked section, and every block handed out starts on an 8-byte boundary *)
Lemma tinv_no_fixup : forall ts s, tinv ts s ->
  (forall i iw dw e, nth_error ts i <> Some (TGotD iw dw e)) /\
  (forall i t b, nth_error ts i = Some t -> In b (thread_blocks c n w t) -> misalign ba (fst b) = 0).
Proof.
  intros ts s (_ & _ & _ & _ & Hper & _). split.
  - intros i iw dw e Hi. destruct (Hper i _ Hi) as (HnoD & _). eapply HnoD. reflexivity.
  - intros i t b Hi Hb. destruct (Hper i t Hi) as (_ & _ & Hal & _). rewrite Forall_forall in Hal. apply Hal. exact Hb.
Qed.

Lemma workinit_threads_lemma : forall P sched,
  let '(ts, s) := run_init c n w ba sched (repeat TStart P) (mkStack L T1 T1 L) in
  (forall i t b, nth_error ts i = Some t -> In b (thread_blocks c n w t) -> block_in T1 L b) /\
  (forall i j ti tj bi bj, i <> j -> nth_error ts i = Some ti -> nth_error ts j = Some tj ->
        In bi (thread_blocks c n w ti) -> In bj (thread_blocks c n w tj) -> disjoint bi bj) /\
  (forall i iw dw, nth_error ts i = Some (TReady iw dw) -> disjoint (iw, work_isize n w) (dw, work_dsize c n w)) /\
  s_used s = s_top1 s + (s_size s - s_top2 s) /\ s_top1 s = T1 /\ T1 <= s_top2 s <= L.
Proof.
  intros P sched.
  pose proof (run_init_inv sched _ _ (tinv_start P)) as H.
  destruct (run_init c n w ba sched (repeat TStart P) (mkStack L T1 T1 L)) as [ts s].
  apply tinv_conclusion. exact H.
Qed.

(* the WHOLE run, WorkFree included: a thread that finishes keeps the stack as it is (its blocks are simply no longer used) *)
Lemma tinv_done : forall ts s i t, tinv ts s -> nth_error ts i = Some t -> tinv (upd ts i TDone) s.
Proof.
  intros ts s i t (Hsz & Ht1 & Ht2 & Hu & Hper & Hdis) Hi.
  unfold tinv. repeat (split; [assumption|]). split.
  - intros j tj Hj. destruct (Nat.eq_dec i j) as [<-|Hne].
    + rewrite (nth_error_upd_same _ ts i TDone t Hi) in Hj. inversion Hj; subst tj.
      split; [intros; discriminate|]. split; [constructor|]. split; [constructor|intros; discriminate].
    + rewrite nth_error_upd_other in Hj by assumption. exact (Hper j tj Hj).
  - intros j k tj tk bj bk Hjk Hj Hk Hbj Hbk.
    destruct (Nat.eq_dec i j) as [<-|Hnj].
    + rewrite (nth_error_upd_same _ ts i TDone t Hi) in Hj. inversion Hj; subst tj. destruct Hbj.
    + destruct (Nat.eq_dec i k) as [<-|Hnk].
      * rewrite (nth_error_upd_same _ ts i TDone t Hi) in Hk. inversion Hk; subst tk. destruct Hbk.
      * rewrite nth_error_upd_other in Hj, Hk by assumption. eapply (Hdis j k); eassumption.
Qed.

Lemma thread_step_inv : forall ts s i t t' s',
  tinv ts s -> nth_error ts i = Some t -> thread_step c n w ba t s = (t', s') -> tinv (upd ts i t') s'.
Proof.
  intros ts s i t t' s' Hinv Hi Hstep.
  destruct t as [|iw|iw dw e|iw dw|code|] eqn:Et;
    try (apply (init_step_inv ts s i t t' s'); [exact Hinv | subst t; exact Hi | subst t; exact Hstep]).
  cbn [thread_step] in Hstep. unfold work_free_stack in Hstep. inversion Hstep; subst t' s'.
  eapply tinv_done; eassumption.
Qed.

Lemma run_sched_inv : forall sched ts s, tinv ts s -> let '(ts', s') := run_sched c n w ba sched ts s in tinv ts' s'.
Proof.
  induction sched as [|i rest IH]; intros ts s Hinv; simpl; [assumption|].
  destruct (nth_error ts i) as [t|] eqn:E; [|apply IH; assumption].
  destruct (thread_step c n w ba t s) as [t' s'] eqn:Es.
  apply IH. eapply thread_step_inv; eassumption.
Qed.

Lemma workfree_threads_lemma : forall P sched,
  let '(ts, s) := run_sched c n w ba sched (repeat TStart P) (mkStack L T1 T1 L) in
  (forall i t b, nth_error ts i = Some t -> In b (thread_blocks c n w t) -> block_in T1 L b) /\
  (forall i j ti tj bi bj, i <> j -> nth_error ts i = Some ti -> nth_error ts j = Some tj ->
        In bi (thread_blocks c n w ti) -> In bj (thread_blocks c n w tj) -> disjoint bi bj) /\
  (forall i iw dw, nth_error ts i = Some (TReady iw dw) -> disjoint (iw, work_isize n w) (dw, work_dsize c n w)) /\
  s_used s = s_top1 s + (s_size s - s_top2 s) /\ s_top1 s = T1 /\ T1 <= s_top2 s <= L.
Proof.
  intros P sched.
  pose proof (run_sched_inv sched _ _ (tinv_start P)) as H.
  destruct (run_sched c n w ba sched (repeat TStart P) (mkStack L T1 T1 L)) as [ts s].
  apply tinv_conclusion. exact H.
Qed.

(* EVERY interleaving over the whole run: the fix-up state is never entered, all blocks are on 8-byte boundaries *)
Lemma workinit_no_fixup_lemma : forall P sched,
  let '(ts, s) := run_sched c n w ba sched (repeat TStart P) (mkStack L T1 T1 L) in
  (forall i iw dw e, nth_error ts i <> Some (TGotD iw dw e)) /\
  (forall i t b, nth_error ts i = Some t -> In b (thread_blocks c n w t) -> misalign ba (fst b) = 0).
Proof.
  intros P sched.
  pose proof (run_sched_inv sched _ _ (tinv_start P)) as H.
  destruct (run_sched c n w ba sched (repeat TStart P) (mkStack L T1 T1 L)) as [ts s].
  apply tinv_no_fixup with (s := s). exact H.
Qed.

End Threads.

(* non-vacuity: three threads, interleaved start-up, aligned buffer *)
Example workinit_threads_example :
  run_init small_cfg 3 1 0 [0; 1; 2; 1; 0; 2; 2]%nat [TStart; TStart; TStart] (mkStack 10000 264 264 10000)
  = ([TReady 9880 9496; TReady 9760 9568; TReady 9640 9424], mkStack 10000 840 264 9424).
Proof. vm_compute. reflexivity. Qed.

(* ... and a buffer that neither starts (ba = 3) nor ends (3 + 10002 = 5 mod 8) on an 8-byte boundary, single precision
   (dword = 4: dsize = 36, not a multiple of 8): every block lands on an address = 0 mod 8 *)
Example workinit_threads_misaligned_example :
  run_init (mkCfg 4 2 2 (-1) (-1) (-2)) 3 1 3 [0; 1; 2; 1; 0; 2; 2]%nat [TStart; TStart; TStart] (mkStack 10002 264 264 10002)
  = ([TReady 9877 9557; TReady 9757 9597; TReady 9637 9517], mkStack 10002 749 264 9517).
Proof. vm_compute. reflexivity. Qed.

(* ================================================================== *)
(* 8. the thread-level transition system and the sequential model of p?gstrf_WorkInit (the one that is compared
      with the C code on every run) agree: a thread that runs its locked sections without being interleaved does
      exactly what work_init does *)
Definition run3 (c : cfg) (n w ba : Z) (s : stack) : tstate * stack :=
  let '(t1, s1) := thread_step c n w ba TStart s in
  let '(t2, s2) := thread_step c n w ba t1 s1 in
  match t2 with
  | TGotD _ _ _ => thread_step c n w ba t2 s2
  | _ => (t2, s2)
  end.

Lemma thread_steps_refine_work_init : forall fail c n w m,
  m_space m = USER ->
  exists r iw dw m',
    work_init fail c n w m = Ok (r, iw, dw) m' /\
    m_stack m' = snd (run3 c n w (m_ba m) (m_stack m)) /\
    match fst (run3 c n w (m_ba m) (m_stack m)) with
    | TReady i d => r = 0 /\ iw = POff i /\ dw = POff d
    | TFailed code => r = code /\ dw = PNull
    | _ => False
    end.
Proof.
  intros fail c n w m Hsp. unfold work_init, run3. rewrite Hsp.
  unfold umalloc. cbn [thread_step].
  destruct (user_malloc (m_ba m) (work_isize n w) TAIL (m_stack m)) as [[off|] s1] eqn:E1.
  - cbn [is_null]. cbn [thread_step m_stack set_stack add_log m_ba].
    destruct (user_malloc (m_ba m) (work_dsize c n w) TAIL s1) as [[off2|] s2] eqn:E2.
    + cbn [m_ba set_stack add_log m_stack].
      destruct (misalign (m_ba m) off2 =? 0) eqn:Em; cbn [negb].
      * eexists; eexists; eexists; eexists. split; [reflexivity|]. cbn [fst snd m_stack set_stack add_log]. auto.
      * cbn [thread_step]. eexists; eexists; eexists; eexists. split; [reflexivity|].
        cbn [fst snd m_stack set_stack add_log]. auto.
    + eexists; eexists; eexists; eexists. split; [reflexivity|]. cbn [fst snd m_stack set_stack add_log].
      apply user_malloc_refused in E2. destruct E2 as [-> _]. auto.
  - cbn [is_null]. eexists; eexists; eexists; eexists. split; [reflexivity|]. cbn [fst snd thread_step].
    apply user_malloc_refused in E1. destruct E1 as [-> _]. auto.
Qed.

(* the sequential p?gstrf_WorkInit on a user stack in ANY state satisfying the stack invariant (any alignment of the
   buffer, any sizes): whatever it hands out lies between the new and the old top2 (so above top1: no HEAD block is
   touched, the arithmetic invariant survives), iwork and dwork are disjoint, dwork is on an 8-byte boundary, and the
   fix-up branch is not taken (no EvShift is logged) *)
Lemma work_init_user_safe_lemma : forall fail c n w m L,
  m_space m = USER -> stack_inv L (m_stack m) -> 0 <= work_isize n w -> 0 <= work_dsize c n w ->
  exists r iw dw m',
    work_init fail c n w m = Ok (r, iw, dw) m' /\
    stack_inv L (m_stack m') /\ s_top1 (m_stack m') = s_top1 (m_stack m) /\ s_top2 (m_stack m') <= s_top2 (m_stack m) /\
    (forall i, iw = POff i -> block_in (s_top2 (m_stack m')) (s_top2 (m_stack m)) (i, work_isize n w)) /\
    (forall d, dw = POff d ->
       r = 0 /\ misalign (m_ba m) d = 0 /\ block_in (s_top2 (m_stack m')) (s_top2 (m_stack m)) (d, work_dsize c n w) /\
       exists i, iw = POff i /\ disjoint (i, work_isize n w) (d, work_dsize c n w)) /\
    (dw = PNull -> r = work_isize n w + n \/ r = work_isize n w + work_dsize c n w + n) /\
    (forall o b e, In (EvShift o b e) (m_log m') -> In (EvShift o b e) (m_log m)).
Proof.
  intros fail c n w m L Hsp (Hsz & H1 & H12 & H2 & Hu) Hi0 Hd0.
  unfold work_init. rewrite Hsp. unfold umalloc.
  destruct (user_malloc (m_ba m) (work_isize n w) TAIL (m_stack m)) as [[off|] s1] eqn:E1.
  - cbn [is_null m_stack set_stack add_log m_ba].
    apply user_malloc_granted in E1. cbv zeta in E1. destruct E1 as (_ & Hex1 & Hf1 & Hal1 & -> & ->).
    unfold stack_full in Hf1. apply Z.leb_gt in Hf1.
    set (x1 := tail_extra (m_ba m) (work_isize n w) (m_stack m)) in *.
    set (s1 := mkStack (s_size (m_stack m)) (s_used (m_stack m) + (work_isize n w + x1)) (s_top1 (m_stack m))
                       (s_top2 (m_stack m) - (work_isize n w + x1))).
    destruct (user_malloc (m_ba m) (work_dsize c n w) TAIL s1) as [[off2|] s2] eqn:E2.
    + apply user_malloc_granted in E2. cbv zeta in E2. destruct E2 as (_ & Hex2 & Hf2 & Hal2 & -> & ->).
      unfold stack_full in Hf2. apply Z.leb_gt in Hf2.
      set (x2 := tail_extra (m_ba m) (work_dsize c n w) s1) in *.
      cbn [m_ba set_stack add_log m_stack]. rewrite Hal2. cbn [Z.eqb negb].
      subst s1. cbn [s_size s_used s_top1 s_top2] in *.
      eexists; eexists; eexists; eexists. split; [reflexivity|].
      cbn [m_stack set_stack add_log m_log s_size s_used s_top1 s_top2].
      split; [unfold stack_inv; cbn [s_size s_used s_top1 s_top2]; lia|].
      split; [reflexivity|]. split; [lia|].
      split; [intros i Hi; inversion Hi; subst; unfold block_in; cbn [fst snd]; lia|].
      split.
      { intros d Hd; inversion Hd; subst. split; [reflexivity|]. split; [exact Hal2|].
        split; [unfold block_in; cbn [fst snd]; lia|].
        eexists; split; [reflexivity|]. unfold disjoint; cbn [fst snd]. lia. }
      split; [discriminate|].
      intros o b e [H|[H|H]]; [discriminate|discriminate|exact H].
    + apply user_malloc_refused in E2. destruct E2 as [-> _].
      subst s1. eexists; eexists; eexists; eexists. split; [reflexivity|].
      cbn [m_stack set_stack add_log m_log s_size s_used s_top1 s_top2].
      split; [unfold stack_inv; cbn [s_size s_used s_top1 s_top2]; lia|].
      split; [reflexivity|]. split; [lia|].
      split; [intros i Hi; inversion Hi; subst; unfold block_in; cbn [fst snd]; lia|].
      split; [discriminate|]. split; [auto|].
      intros o b e [H|H]; [discriminate|exact H].
  - apply user_malloc_refused in E1. destruct E1 as [-> _]. cbn [is_null].
    eexists; eexists; eexists; eexists. split; [reflexivity|].
    split; [unfold stack_inv; auto 10|]. split; [reflexivity|]. split; [lia|].
    split; [discriminate|]. split; [discriminate|]. split; [auto|]. auto.
Qed.
