(* LaconModel.v -- executable model (no proofs) of
     SRC/dlacon.c      dlacon_      Hager/Higham 1-norm estimator, reverse communication, function statics
     CBLAS dasum_/idamax_/dcopy_ (unit increment) as used by dlacon_
     SRC/dgscon.c      dgscon       argument decoding, kase -> order of the L/U solves, rcond formula
     SRC/dlangs.c      dlangs       max / one / infinity norm of a compressed-column matrix
     SRC/dpivotgrowth.c dPivotGrowth reciprocal pivot growth over the supernodal L + column U storage
     SRC/pdgssvx.c     lines 430-442, 519-535, 604-673: option decoding, norm selection, info = n+1
   written once over an abstract arithmetic [Arith T] and instantiated with
     T = Q            (exact; theorems in LaconProofs.v)
     T = PrimFloat    (binary64; bit-for-bit comparison with the C code, checks/c12.py)          *)
Require Import ZArith List Bool QArith Qabs Qreduction Floats.
From SLU Require Import Consts.
Import ListNotations.
Local Open Scope Z_scope.

(* ------------------------------------------------------------------ abstract arithmetic *)
Record Arith (T : Type) := mkArith {
  a0 : T; a1 : T;
  aadd : T -> T -> T; asub : T -> T -> T; amul : T -> T -> T; adiv : T -> T -> T;
  aopp : T -> T;
  afabs : T -> T;                 (* C fabs *)
  altb : T -> T -> bool;          (* x <  y *)
  aleb : T -> T -> bool;          (* x <= y *)
  aeqb : T -> T -> bool;          (* x == y *)
  aofZ : Z -> T                   (* (double) of a C int *)
}.
Arguments a0 {T}. Arguments a1 {T}. Arguments aadd {T}. Arguments asub {T}. Arguments amul {T}.
Arguments adiv {T}. Arguments aopp {T}. Arguments afabs {T}. Arguments altb {T}. Arguments aleb {T}.
Arguments aeqb {T}. Arguments aofZ {T}.

(* list-as-array helpers; an out-of-range write leaves the array unchanged, an out-of-range read
   returns the explicit default passed by the caller (the theorems carry the in-range facts) *)
Fixpoint upd {X} (l : list X) (i : nat) (v : X) : list X :=
  match l, i with
  | [], _ => []
  | _ :: r, O => v :: r
  | h :: r, S k => h :: upd r k v
  end.

Section Generic.
Context {T : Type} (A : Arith T).
Local Notation z0 := (a0 A). Local Notation o1 := (a1 A).

(* SUPERLU_MAX(x,y) = ((x) > (y) ? (x) : (y)),  SUPERLU_MIN(x,y) = ((x) < (y) ? (x) : (y)) *)
Definition smax (x y : T) : T := if altb A y x then x else y.
Definition smin (x y : T) : T := if altb A x y then x else y.

(* f2c.h: #define abs(x) ((x) >= 0 ? (x) : -(x)) *)
Definition f2c_abs (x : T) : T := if aleb A z0 x then x else aopp A x.

(* CBLAS dasum_, incx = 1.  The 6-way unrolled statement
     dtemp = dtemp + |dx(i)| + |dx(i+1)| + ... + |dx(i+5)|
   is left-associated in C, i.e. the very same sequence of rounded additions as the clean-up loop:
   one left-to-right accumulation starting from 0. *)
Definition dasum (l : list T) : T := fold_left (fun acc x => aadd A acc (f2c_abs x)) l z0.

(* CBLAS idamax_, incx = 1, minus the "--j" of the caller: 0-based index of the first element whose
   |.| is not <= the running maximum *)
Fixpoint idamax_loop (l : list T) (i best : nat) (dmax : T) : nat :=
  match l with
  | [] => best
  | x :: r => if aleb A (f2c_abs x) dmax then idamax_loop r (S i) best dmax
              else idamax_loop r (S i) i (f2c_abs x)
  end.
Definition idamax0 (l : list T) : nat :=
  match l with [] => O | x :: r => idamax_loop r 1%nat O (f2c_abs x) end.

(* #define d_sign(a, b) (b >= 0 ? fabs(a) : -fabs(a))   with a = one *)
Definition dsign1 (b : T) : T := if aleb A z0 b then afabs A o1 else aopp A (afabs A o1).
(* i_dnnt(d_sign(one, b)) : the nearest integer of +-1, kept as a C int in isgn[] *)
Definition sgnZ (b : T) : Z := if aleb A z0 b then 1 else -1.

(* ------------------------------------------------------------------ dlacon_ *)
(* the function statics *)
Record lacon_st := mkSt { jump : Z; iter : Z; jj : nat; jlast : nat; estold : T; altsgn : T }.
(* the caller-owned arguments *)
Record lacon_io := mkIo { vv : list T; xx : list T; isgn : list Z; est : T; kase : Z }.

Definition st_init : lacon_st := mkSt 0 0 O O z0 z0.

Definition unitvec (n j : nat) : list T := upd (repeat z0 n) j o1.

(* L120: x[i-1] = altsgn * ((double)(i-1) / (double)(n-1) + 1.), altsgn = -altsgn, i = 1..n *)
Fixpoint altvec (n : nat) (i : nat) (k : nat) (sg : T) : list T * T :=
  match k with
  | O => ([], sg)
  | S k' => let e := amul A sg (aadd A (adiv A (aofZ A (Z.of_nat i)) (aofZ A (Z.of_nat n - 1))) o1) in
            let (r, sg') := altvec n (S i) k' (aopp A sg) in (e :: r, sg')
  end.

Definition signs_differ (x : list T) (s : list Z) : bool :=
  existsb (fun p => negb (Z.eqb (sgnZ (dsign1 (fst p))) (snd p))) (combine x s).

Definition L50 (n : nat) (st : lacon_st) (io : lacon_io) : lacon_st * lacon_io :=
  (mkSt 3 (iter st) (jj st) (jlast st) (estold st) (altsgn st),
   mkIo (vv io) (unitvec n (jj st)) (isgn io) (est io) 1).

Definition L120 (n : nat) (st : lacon_st) (io : lacon_io) : lacon_st * lacon_io :=
  let (x', sg) := altvec n O n o1 in
  (mkSt 5 (iter st) (jj st) (jlast st) (estold st) sg,
   mkIo (vv io) x' (isgn io) (est io) 1).

Definition lacon_step (n : nat) (st : lacon_st) (io : lacon_io) : lacon_st * lacon_io :=
  if kase io =? 0 then
    (* x[i] = 1./(double)n; kase = 1; jump = 1 *)
    (mkSt 1 (iter st) (jj st) (jlast st) (estold st) (altsgn st),
     mkIo (vv io) (repeat (adiv A o1 (aofZ A (Z.of_nat n))) n) (isgn io) (est io) 1)
  else if jump st =? 2 then
    (* L40 *)
    let st1 := mkSt (jump st) 2 (idamax0 (xx io)) (jlast st) (estold st) (altsgn st) in
    L50 n st1 io
  else if jump st =? 3 then
    (* L70 *)
    let v' := xx io in                                    (* dcopy_ *)
    let st1 := mkSt (jump st) (iter st) (jj st) (jlast st) (est io) (altsgn st) in
    let io1 := mkIo v' (xx io) (isgn io) (dasum v') (kase io) in
    if signs_differ (xx io) (isgn io) then
      (* L90 *)
      if aleb A (est io1) (estold st1) then L120 n st1 io1
      else
        let x' := map dsign1 (xx io) in
        (mkSt 4 (iter st1) (jj st1) (jlast st1) (estold st1) (altsgn st1),
         mkIo v' x' (map sgnZ x') (est io1) 2)
    else L120 n st1 io1
  else if jump st =? 4 then
    (* L110 *)
    let jl := jj st in
    let j' := idamax0 (xx io) in
    let st1 := mkSt (jump st) (iter st) j' jl (estold st) (altsgn st) in
    if negb (aeqb A (nth jl (xx io) z0) (afabs A (nth j' (xx io) z0))) && (iter st <? 5) then
      L50 n (mkSt (jump st1) (iter st + 1) j' jl (estold st) (altsgn st)) io
    else L120 n st1 io
  else if jump st =? 5 then
    (* L140 *)
    let temp := amul A (adiv A (dasum (xx io)) (aofZ A (Z.of_nat n * 3))) (aofZ A 2) in
    if altb A (est io) temp then (st, mkIo (xx io) (xx io) (isgn io) temp 0)
    else (st, mkIo (vv io) (xx io) (isgn io) (est io) 0)
  else
    (* L20 (jump = 1, and also every other value: the C switch has no default and falls into L20) *)
    if (n =? 1)%nat then
      let v0 := nth O (xx io) z0 in
      (st, mkIo (upd (vv io) O v0) (xx io) (isgn io) (afabs A v0) 0)
    else
      let x' := map dsign1 (xx io) in
      (mkSt 2 (iter st) (jj st) (jlast st) (estold st) (altsgn st),
       mkIo (vv io) x' (map sgnZ x') (dasum (xx io)) 2).

(* the calling loop "do { dlacon_(...); if (kase == 0) break; x := op(kase, x); } while (kase != 0)".
   The operator may carry a state S (a tape of recorded solves in the correspondence check, unit for a
   mathematical operator); it sees the whole argument block so that a logging operator can record it. *)
Record lacon_res (X : Type) := mkRes { r_st : lacon_st; r_io : lacon_io; r_s : X; r_napp : nat }.
Arguments mkRes {X}. Arguments r_st {X}. Arguments r_io {X}. Arguments r_s {X}. Arguments r_napp {X}.

Fixpoint lacon_drive {X} (fuel : nat) (n : nat) (op : X -> lacon_io -> X * list T)
         (s : X) (st : lacon_st) (io : lacon_io) (napp : nat) : option (lacon_res X) :=
  match fuel with
  | O => None
  | S f =>
      let (st', io') := lacon_step n st io in
      if kase io' =? 0 then Some (mkRes st' io' s napp)
      else let (s', x') := op s io' in
           lacon_drive f n op s' st' (mkIo (vv io') x' (isgn io') (est io') (kase io')) (S napp)
  end.

(* mathematical operator pair: kase = 1 -> M x, otherwise (kase = 2) -> M^T x *)
Definition pure_op (opM opMT : list T -> list T) (s : unit) (io : lacon_io) : unit * list T :=
  (tt, if kase io =? 1 then opM (xx io) else opMT (xx io)).

Definition io_init (n : nat) : lacon_io := mkIo (repeat z0 n) (repeat z0 n) (repeat 0%Z n) z0 0.

Definition lacon_fuel : nat := 12.

Definition lacon_run (n : nat) (opM opMT : list T -> list T) (st : lacon_st) : option (lacon_res unit) :=
  lacon_drive lacon_fuel n (pure_op opM opMT) tt st (io_init n) O.

(* dense operator used by the correspondence harness (harness/lacon_harness.c, apply_dense):
   y_i = (..((0 + m_i0 x_0) + m_i1 x_1) + ..), rows of M (or of its transpose) given explicitly *)
Definition dotacc (row x : list T) : T :=
  fold_left (fun s p => aadd A s (amul A (fst p) (snd p))) (combine row x) z0.
Definition dense_mv (M : list (list T)) (x : list T) : list T := map (fun row => dotacc row x) M.

(* ------------------------------------------------------------------ dgscon *)
(* Real precisions only.  The complex twins c/zgscon at HEAD (fix of finding C12-zgscon-plain-transpose) conjugate
   work[] before and after the two "Transpose" solves of the else-branch, i.e. they hand ?lacon_ the adjoint pair
   (inv(A), inv(A)**H) that lacon_upper requires; for real data the pair below is adjoint as it stands. *)
(* lsame_(ca, cb): ASCII, case-insensitive on letters *)
Definition upcase (c : Z) : Z := if (97 <=? c) && (c <=? 122) then c - 32 else c.
Definition lsame (ca cb : Z) : bool := (ca =? cb) || (upcase ca =? upcase cb).

Record smat_desc := mkDesc { d_nrow : Z; d_ncol : Z; d_Stype : Z; d_Dtype : Z; d_Mtype : Z }.

Definition gscon_onenrm (normc : Z) : bool := (normc =? 49) || lsame normc 79.   (* '1' or "O" *)

Definition gscon_info (normc : Z) (L U : smat_desc) : Z :=
  if negb (gscon_onenrm normc) && negb (lsame normc 73) then -1                   (* "I" *)
  else if (d_nrow L <? 0) || negb (d_nrow L =? d_ncol L) || negb (d_Stype L =? c_SLU_SCP)
          || negb (d_Dtype L =? c_SLU_D) || negb (d_Mtype L =? c_SLU_TRLU) then -2
  else if (d_nrow U <? 0) || negb (d_nrow U =? d_ncol U) || negb (d_Stype U =? c_SLU_NCP)
          || negb (d_Dtype U =? c_SLU_D) || negb (d_Mtype U =? c_SLU_TRU) then -3
  else 0.

(* the four sparse triangular solves, as the calls appear in dgscon.c:
     tr_LN = sp_dtrsv("Lower","No transpose","Unit"),   tr_UN = ("Upper","No transpose","Non-unit"),
     tr_UT = ("Upper","Transpose","Non-unit"),          tr_LT = ("Lower","Transpose","Unit")        *)
Inductive trsv_kind := tr_LN | tr_UN | tr_UT | tr_LT.

Definition gscon_op {X} (solve : X -> trsv_kind -> list T -> X * list T) (kase1 : Z)
           (s : X) (io : lacon_io) : X * list T :=
  if kase io =? kase1 then
    let (s1, y) := solve s tr_LN (xx io) in solve s1 tr_UN y
  else
    let (s1, y) := solve s tr_UT (xx io) in solve s1 tr_LT y.

Record gscon_res (X : Type) := mkGres { g_info : Z; g_rcond : option T; g_ainvnm : T; g_st : lacon_st;
                                        g_s : X; g_napp : nat; g_ok : bool }.
Arguments mkGres {X}. Arguments g_info {X}. Arguments g_rcond {X}. Arguments g_ainvnm {X}.
Arguments g_st {X}. Arguments g_s {X}. Arguments g_napp {X}. Arguments g_ok {X}.

(* g_rcond = None: *rcond not written (argument error);  g_ok = false: fuel exhausted (never, see
   lacon_terminates) *)
Definition gscon {X} (normc : Z) (L U : smat_desc) (solve : X -> trsv_kind -> list T -> X * list T)
           (s : X) (st : lacon_st) (anorm : T) : gscon_res X :=
  let info := gscon_info normc L U in
  if negb (info =? 0) then mkGres info None z0 st s O true
  else if (d_nrow L =? 0) || (d_nrow U =? 0) then mkGres 0 (Some o1) z0 st s O true
  else
    let n := Z.to_nat (d_nrow L) in
    let kase1 := if gscon_onenrm normc then 1 else 2 in
    match lacon_drive lacon_fuel n (gscon_op solve kase1) s st (io_init n) O with
    | None => mkGres 0 (Some z0) z0 st s O false
    | Some r =>
        let ainvnm := est (r_io r) in
        let rc := if negb (aeqb A ainvnm z0) then adiv A (adiv A o1 ainvnm) anorm else z0 in
        mkGres 0 (Some rc) ainvnm (r_st r) (r_s r) (r_napp r) true
    end.

(* ------------------------------------------------------------------ dlangs *)
(* compressed-column storage viewed as the list of its columns, each a list of (row index, value) *)
Definition slice {X} (l : list X) (lo len : nat) : list X := firstn len (skipn lo l).
Definition csc_cols {X} (ncol : nat) (colptr : list Z) (rowind : list Z) (nzval : list X) : list (list (nat * X)) :=
  map (fun j => let lo := Z.to_nat (nth j colptr 0%Z) in
                let hi := Z.to_nat (nth (S j) colptr 0%Z) in
                combine (map Z.to_nat (slice rowind lo (hi - lo))) (slice nzval lo (hi - lo)))
      (seq O ncol).

Definition colsum (col : list (nat * T)) : T := fold_left (fun s e => aadd A s (afabs A (snd e))) col z0.

Definition langs_max (cols : list (list (nat * T))) : T :=
  fold_left (fun v col => fold_left (fun v e => smax v (afabs A (snd e))) col v) cols z0.
Definition langs_one (cols : list (list (nat * T))) : T :=
  fold_left (fun v col => smax v (colsum col)) cols z0.
Definition rowsums (nrow : nat) (cols : list (list (nat * T))) : list T :=
  fold_left (fun rw col => fold_left (fun rw e => upd rw (fst e) (aadd A (nth (fst e) rw z0) (afabs A (snd e)))) col rw)
            cols (repeat z0 nrow).
Definition langs_inf (nrow : nat) (cols : list (list (nat * T))) : T :=
  fold_left smax (rowsums nrow cols) z0.

(* dlangs(norm, A): None = SUPERLU_ABORT ("Not implemented." for F/E, "Illegal norm specified.") *)
Definition langs (normc : Z) (nrow ncol : nat) (cols : list (list (nat * T))) : option T :=
  if (Nat.min nrow ncol =? 0)%nat then Some z0
  else if lsame normc 77 then Some (langs_max cols)                       (* "M" *)
  else if lsame normc 79 || (normc =? 49) then Some (langs_one cols)      (* "O" or '1' *)
  else if lsame normc 73 then Some (langs_inf nrow cols)                  (* "I" *)
  else None.

(* ------------------------------------------------------------------ dPivotGrowth *)
(* supernodal L (SCP): sup_to_colbeg/colend, rowind_colbeg/colend, nzval_colbeg, nzval;
   U (NCP): colbeg, colend, nzval;  A (NC): colptr, nzval;  perm_c *)
Record pg_data := mkPg {
  pg_sup_beg : list Z; pg_sup_end : list Z;
  pg_ri_beg : list Z; pg_ri_end : list Z; pg_nz_beg : list Z; pg_Lval : list T;
  pg_U_beg : list Z; pg_U_end : list Z; pg_Uval : list T;
  pg_A_ptr : list Z; pg_Aval : list T; pg_inv_perm_c : list Z }.

Definition zslice (l : list T) (lo hi : Z) : list T := slice l (Z.to_nat lo) (Z.to_nat (hi - lo)).
Definition maxabs (l : list T) : T := fold_left (fun m x => smax m (afabs A x)) l z0.
Definition maxabs_from (m0 : T) (l : list T) : T := fold_left (fun m x => smax m (afabs A x)) l m0.

(* the three pieces read for column j of the factor, j in supernode with first column fsupc *)
Definition pg_acol (d : pg_data) (j : nat) : list T :=
  let oldcol := Z.to_nat (nth j (pg_inv_perm_c d) 0%Z) in
  zslice (pg_Aval d) (nth oldcol (pg_A_ptr d) 0%Z) (nth (S oldcol) (pg_A_ptr d) 0%Z).
Definition pg_ucol_U (d : pg_data) (j : nat) : list T :=
  zslice (pg_Uval d) (nth j (pg_U_beg d) 0%Z) (nth j (pg_U_end d) 0%Z).
Definition pg_ucol_L (d : pg_data) (fsupc j : nat) : list T :=
  let nsupr := nth fsupc (pg_ri_end d) 0%Z - nth fsupc (pg_ri_beg d) 0%Z in
  let luptr := nth fsupc (pg_nz_beg d) 0%Z in
  zslice (pg_Lval d) (luptr + nsupr * Z.of_nat (j - fsupc)) (luptr + nsupr * Z.of_nat (j - fsupc) + Z.of_nat (j - fsupc) + 1).

Definition pg_ratio (d : pg_data) (fsupc j : nat) : T :=
  let maxaj := maxabs (pg_acol d j) in
  let maxuj := maxabs_from (maxabs (pg_ucol_U d j)) (pg_ucol_L d fsupc j) in
  if aeqb A maxuj z0 then o1 else adiv A maxaj maxuj.

(* inner loop  for (j = fsupc; j < L_LAST_SUPC(k) && j < ncols; ++j)  : returns (rpg, j at exit) *)
Fixpoint pg_inner (d : pg_data) (fsupc : nat) (fuel : nat) (j : nat) (last ncols : nat) (rpg : T) : T * nat :=
  match fuel with
  | O => (rpg, j)
  | S f => if (j <? last)%nat && (j <? ncols)%nat
           then pg_inner d fsupc f (S j) last ncols (smin rpg (pg_ratio d fsupc j))
           else (rpg, j)
  end.

(* outer loop over supernodes k = 0..nsuper with "if (j >= ncols) break;" *)
Fixpoint pg_outer (d : pg_data) (ks : list nat) (ncols : nat) (rpg : T) : T :=
  match ks with
  | [] => rpg
  | k :: r =>
      let fsupc := Z.to_nat (nth k (pg_sup_beg d) 0%Z) in
      let last := Z.to_nat (nth k (pg_sup_end d) 0%Z) in
      let (rpg', j) := pg_inner d fsupc (last - fsupc) fsupc last ncols rpg in
      if (ncols <=? j)%nat then rpg' else pg_outer d r ncols rpg'
  end.

Definition pivot_growth (d : pg_data) (nsuper : nat) (ncols : nat) (smlnum : T) : T :=
  pg_outer d (seq O (S nsuper)) ncols (adiv A o1 smlnum).

End Generic.
Arguments mkRes {T X}. Arguments r_st {T X}. Arguments r_io {T X}. Arguments r_s {T X}. Arguments r_napp {T X}.
Arguments mkGres {T X}. Arguments g_info {T X}. Arguments g_rcond {T X}. Arguments g_ainvnm {T X}.
Arguments g_st {T X}. Arguments g_s {T X}. Arguments g_napp {T X}. Arguments g_ok {T X}.

(* ------------------------------------------------------------------ pdgssvx control flow *)
(* Option decoding (pdgssvx.c:430-442, 519-535), the branch on the factorization's info (604-673). *)
Record ssvx_dec := mkDec { dec_notran : bool; dec_trant : Z; dec_normc : Z }.

(* Stype is SLU_NC or SLU_NR (anything else is rejected earlier with info = -3) *)
Definition ssvx_decode (Stype trans : Z) : ssvx_dec :=
  let notran := trans =? c_NOTRANS in
  if Stype =? c_SLU_NR then
    (if notran then mkDec false c_TRANS 73 else mkDec true c_NOTRANS 49)
  else
    mkDec notran trans (if notran then 49 else 73).

(* the calls the driver makes after the factorization, in order *)
Inductive ssvx_call :=
| CallPivotGrowth (ncols : Z) | CallLangs (normc : Z) | CallGscon (normc : Z)
| CallGstrs (trans : Z) | CallGsrfs (trans : Z).

(* info_fact: *info after pdgstrf (0 when fact = FACTORED).  rcond_lt_eps: outcome of *rcond < dlamch_("E").
   info_solve: the value left in *info by dgscon/dgstrs/dgsrfs (each call overwrites it; 0 or negative). *)
Definition ssvx_calls (Stype trans : Z) (ncol info_fact : Z) : list ssvx_call :=
  let d := ssvx_decode Stype trans in
  if 0 <? info_fact then
    (if info_fact <=? ncol then [CallPivotGrowth info_fact] else [])
  else [CallPivotGrowth ncol; CallLangs (dec_normc d); CallGscon (dec_normc d);
        CallGstrs (dec_trant d); CallGsrfs (dec_trant d)].

Definition ssvx_info (ncol info_fact info_solve : Z) (rcond_lt_eps : bool) : Z :=
  if 0 <? info_fact then info_fact
  else if rcond_lt_eps then ncol + 1 else info_solve.

(* ------------------------------------------------------------------ instances *)
Definition QArith_plain : Arith Q :=
  mkArith Q 0%Q 1%Q Qplus Qminus Qmult Qdiv Qopp Qabs
          (fun x y => negb (Qle_bool y x)) Qle_bool Qeq_bool inject_Z.

(* same operations, results kept in lowest terms (the instance that is actually run) *)
Definition QArith_red : Arith Q :=
  mkArith Q 0%Q 1%Q (fun x y => Qred (Qplus x y)) (fun x y => Qred (Qminus x y))
          (fun x y => Qred (Qmult x y)) (fun x y => Qred (Qdiv x y)) Qopp Qabs
          (fun x y => negb (Qle_bool y x)) Qle_bool Qeq_bool inject_Z.

(* IEEE binary64.  (double) of a C int: exact for |z| < 2^53. *)
Definition float_ofZ (z : Z) : float :=
  if (z <? 0)%Z then PrimFloat.opp (PrimFloat.of_uint63 (Uint63.of_Z (- z)))
  else PrimFloat.of_uint63 (Uint63.of_Z z).
Definition FArith : Arith float :=
  mkArith float PrimFloat.zero PrimFloat.one PrimFloat.add PrimFloat.sub PrimFloat.mul PrimFloat.div
          PrimFloat.opp PrimFloat.abs PrimFloat.ltb PrimFloat.leb PrimFloat.eqb float_ofZ.

(* ------------------------------------------------------------------ replaying a recorded run (float) *)
(* The correspondence check records, from the real dgscon, every sp_dtrsv call (kind, input, output).
   The model is run with an operator that pops the tape: it records the vector the MODEL would have
   passed and returns the output the real solve produced.  The check then compares the model's own
   requests with the recorded inputs, so a divergence of dlacon_ or of dgscon's call order is seen at
   the first call where it happens. *)
Section Tape.
Context {T : Type}.
Record tape_st := mkTape { t_rest : list (list T); t_asked : list (trsv_kind * list T) }.
Definition tape_solve (s : tape_st) (k : trsv_kind) (x : list T) : tape_st * list T :=
  match t_rest s with
  | [] => (mkTape [] (t_asked s ++ [(k, x)]), x)
  | y :: r => (mkTape r (t_asked s ++ [(k, x)]), y)
  end.
(* for dlacon_ alone: tape of operator outputs, log of (kase, x, est, v, isgn) at every return *)
Record ltape_st := mkLtape { lt_rest : list (list T); lt_log : list (Z * list T * T * list T * list Z) }.
Definition ltape_op (s : ltape_st) (io : lacon_io (T:=T)) : ltape_st * list T :=
  let e := (kase io, xx io, est io, vv io, isgn io) in
  match lt_rest s with
  | [] => (mkLtape [] (lt_log s ++ [e]), xx io)
  | y :: r => (mkLtape r (lt_log s ++ [e]), y)
  end.
End Tape.


(* ------------------------------------------------------------------ entry points of the correspondence *)
Section Entry.
Context {T : Type} (A : Arith T).
Definition log_entry : Type := (Z * list T * T * list T * list Z)%type.
Definition io_entry (io : lacon_io (T:=T)) : log_entry := (kase io, xx io, est io, vv io, isgn io).

(* dlacon_ driven with an explicit dense operator (rows of M and of M^T): the block (kase, x, est, v, isgn)
   after every return of dlacon_, the final block, and the number of operator applications *)
Definition lacon_dense_trace (n : nat) (M Mt : list (list T)) (st : lacon_st (T:=T))
  : bool * list log_entry * log_entry * nat :=
  let op := fun (s : list log_entry) (io : lacon_io) =>
              (s ++ [io_entry io], if kase io =? 1 then dense_mv A M (xx io) else dense_mv A Mt (xx io)) in
  match lacon_drive A 64 n op [] st (io_init A n) O with
  | None => (false, [], io_entry (io_init A n), O)
  | Some r => (true, r_s r, io_entry (r_io r), r_napp r)
  end.

(* dgscon replayed against the recorded outputs of the real sp_dtrsv calls *)
Definition gscon_replay (normc : Z) (n : Z) (anorm : T) (tape : list (list T)) (st : lacon_st (T:=T))
  : Z * bool * T * T * list (trsv_kind * list T) * nat * nat * bool :=
  let r := gscon A normc (mkDesc n n c_SLU_SCP c_SLU_D c_SLU_TRLU) (mkDesc n n c_SLU_NCP c_SLU_D c_SLU_TRU)
                 tape_solve (mkTape tape []) st anorm in
  (g_info r, match g_rcond r with Some _ => true | None => false end,
   match g_rcond r with Some x => x | None => a0 A end, g_ainvnm r,
   t_asked (g_s r), length (t_rest (g_s r)), g_napp r, g_ok r).
End Entry.
