(* WorkLayout.v -- C05 "arrays suffice": the per-thread work arrays.
   The definitions c_iw_*, c_work_isize_*, c_work_dsize_*, c_num_tempv_*, c_rw_*, c_bmod2d_* of Consts.v are TRANSLATED from the
   current source on every run (tools/gen_consts.py: pxgstrf_SetIWork, p?gstrf_WorkInit, NUM_TEMPV, p?gstrf_SetRWork,
   p?gstrf_bmod2D).  Here: the pieces carved out of the integer work array are consecutive, disjoint, and the last one ends
   inside the allocation; dense[] and tempv[] are disjoint and inside the real work array; tempv[] is long enough for the 1-D
   update (segment + rows below, at most the rows of one supernode <= n) and for every column of a panel in the 2-D update
   (stride lda, triangular part of <= maxsuper entries, matrix-vector block of <= rowblk entries). *)
From Coq Require Import ZArith List Lia Bool.
From SLU Require Import Consts.
Import ListNotations.
Local Open Scope Z_scope.

(* documented lengths of the pieces of the integer work array (SRC/pmemory.c comments; what the kernels index):
   segrep n, parent n, xplore 2n, repfnz w*n, panel_lsub w*n, marker NO_MARKER*n, lbusy n *)
Definition iw_lengths (n w : Z) : list Z := [n; n; 2 * n; w * n; w * n; c_NO_MARKER * n; n].

(* consecutive pieces: each begins where the previous one ends; returns the end of the last *)
Fixpoint consecutive (offs lens : list Z) (at_ : Z) : option Z :=
  match offs, lens with
  | [], [] => Some at_
  | o :: offs', l :: lens' => if o =? at_ then consecutive offs' lens' (at_ + l) else None
  | _, _ => None
  end.

Definition iw_offsets (n w : Z) : list Z := map (fun f => f n w) c_iw_pieces.

Lemma iwork_pieces_tile : forall n w, 0 <= n -> 1 <= w ->
  exists e, consecutive (iw_offsets n w) (iw_lengths n w) 0 = Some e /\ e <= c_work_isize_s n w /\ e <= c_work_isize_d n w
            /\ e <= c_work_isize_c n w /\ e <= c_work_isize_z n w.
Proof.
  intros n w Hn Hw.
  unfold iw_offsets, iw_lengths, c_iw_pieces. cbn [map consecutive].
  unfold c_iw_segrep, c_iw_parent, c_iw_xplore, c_iw_repfnz, c_iw_panel_lsub, c_iw_marker, c_iw_lbusy.
  repeat match goal with
  | |- context [ (?a =? ?b) ] => replace (a =? b) with true by (symmetry; apply Z.eqb_eq; unfold c_NO_MARKER; ring)
  end.
  eexists. split; [reflexivity|].
  unfold c_work_isize_s, c_work_isize_d, c_work_isize_c, c_work_isize_z, c_NO_MARKER. repeat split; nia.
Qed.

(* a consecutive tiling keeps pieces disjoint and inside [0, end) *)
Lemma consecutive_spec : forall offs lens a e, consecutive offs lens a = Some e -> Forall (fun l => 0 <= l) lens ->
  a <= e /\
  (forall i, (i < length offs)%nat -> a <= nth i offs 0 /\ nth i offs 0 + nth i lens 0 <= e) /\
  (forall i j, (i < j)%nat -> (j < length offs)%nat -> nth i offs 0 + nth i lens 0 <= nth j offs 0).
Proof.
  induction offs as [|o offs IH]; intros lens a e H HF.
  - destruct lens; cbn in H; [|discriminate]. inversion H; subst. split; [lia|]. split; intros; cbn [length] in *; lia.
  - destruct lens as [|l lens]; cbn [consecutive] in H; [discriminate|].
    destruct (o =? a) eqn:E; [|discriminate]. apply Z.eqb_eq in E. subst o.
    inversion HF as [|x xs Hl HF']; subst.
    destruct (IH lens (a + l) e H HF') as (Hae & Hin & Hdis).
    split; [lia|]. split.
    + intros i Hi. destruct i as [|i]; cbn [nth]; [lia|]. cbn [length] in Hi. specialize (Hin i ltac:(lia)). lia.
    + intros i j Hij Hj. destruct j as [|j]; [lia|]. cbn [length] in Hj. destruct i as [|i]; cbn [nth].
      * specialize (Hin j ltac:(lia)). lia.
      * apply Hdis; lia.
Qed.

Theorem iwork_pieces_disjoint_in_range : forall n w, 0 <= n -> 1 <= w ->
  let offs := iw_offsets n w in let lens := iw_lengths n w in
  (forall i, (i < 7)%nat -> 0 <= nth i offs 0 /\ nth i offs 0 + nth i lens 0 <= c_work_isize_d n w
                            /\ nth i offs 0 + nth i lens 0 <= c_work_isize_s n w
                            /\ nth i offs 0 + nth i lens 0 <= c_work_isize_c n w
                            /\ nth i offs 0 + nth i lens 0 <= c_work_isize_z n w) /\
  (forall i j, (i < j)%nat -> (j < 7)%nat -> nth i offs 0 + nth i lens 0 <= nth j offs 0) /\
  c_iw_fill_repfnz n w <= nth 3 lens 0.
Proof.
  intros n w Hn Hw offs lens.
  destruct (iwork_pieces_tile n w Hn Hw) as (e & He & H1 & H2 & H3 & H4).
  assert (HF : Forall (fun l => 0 <= l) lens).
  { unfold lens, iw_lengths, c_NO_MARKER. repeat constructor; nia. }
  destruct (consecutive_spec _ _ _ _ He HF) as (_ & Hin & Hdis).
  assert (Hlen : length (iw_offsets n w) = 7%nat) by reflexivity.
  split; [|split].
  - intros i Hi. specialize (Hin i ltac:(rewrite Hlen; exact Hi)). fold offs lens in Hin. lia.
  - intros i j Hij Hj. apply Hdis; [exact Hij | rewrite Hlen; exact Hj].
  - unfold lens, iw_lengths, c_iw_fill_repfnz. cbn [nth]. lia.
Qed.

(* the real work array: dense[0 .. w*n) then tempv[0 .. NUM_TEMPV) *)
Section PREC.
Variables (num_tempv : Z -> Z -> Z -> Z -> Z) (dsize : Z -> Z -> Z -> Z -> Z) (tempv_off fill_dense : Z -> Z -> Z)
          (fill_tempv : Z -> Z -> Z -> Z -> Z) (lda mv : Z -> Z -> Z).

Definition rwork_ok : Prop := forall n w t b, 0 <= n -> 1 <= w -> 0 <= t -> 0 <= b ->
  (* dense: w columns of n entries, filled exactly, ends where tempv begins *)
  fill_dense n w = w * n /\ tempv_off n w = w * n /\
  (* tempv filled exactly to its length and ends inside the allocation *)
  fill_tempv n w t b = num_tempv n w t b /\ tempv_off n w + num_tempv n w t b <= dsize n w t b /\
  (* 1-D update (p?gstrf_bmod1D, column_bmod): tempv[0..segsze) and tempv1 = tempv+segsze of nrow entries, segsze+nrow <= nsupr <= n *)
  (forall segsze nrow, 0 <= segsze -> 0 <= nrow -> segsze + nrow <= n -> segsze + nrow <= num_tempv n w t b) /\
  (* 2-D update (p?gstrf_bmod2D): column jj of the panel uses TriTmp = tempv + jj*lda: TriTmp[0..segsze), segsze <= maxsuper,
     and MatvecTmp = TriTmp + mv of block_nrow <= rowblk entries *)
  (forall jj segsze bn, 0 <= jj < w -> 0 <= segsze <= t -> 0 <= bn <= b ->
     0 <= jj * lda t b /\ jj * lda t b + segsze <= num_tempv n w t b /\
     segsze <= mv t b /\                                   (* the two parts of one column do not overlap *)
     jj * lda t b + mv t b + bn <= num_tempv n w t b /\
     jj * lda t b + mv t b + bn <= (jj + 1) * lda t b).    (* columns do not overlap *)
End PREC.

Ltac rwork_tac :=
  unfold rwork_ok; intros n w t b Hn Hw Ht Hb;
  split; [nia|]; split; [nia|]; split; [first [reflexivity | nia]|]; split; [nia|]; split;
  [ intros segsze nrow Hs Hr Hsum; nia
  | intros jj segsze bn Hjj Hs Hbn; split; [nia|]; split; [nia|]; split; [nia|]; split; nia ].

Theorem rwork_ok_d : rwork_ok c_num_tempv_d c_work_dsize_d c_rw_tempv_d c_rw_fill_dense_d c_rw_fill_tempv_d c_bmod2d_lda_d c_bmod2d_mv_d.
Proof.
  unfold c_num_tempv_d, c_work_dsize_d, c_rw_tempv_d, c_rw_fill_dense_d, c_rw_fill_tempv_d, c_bmod2d_lda_d, c_bmod2d_mv_d, c_num_tempv_d.
  rwork_tac.
Qed.
Theorem rwork_ok_s : rwork_ok c_num_tempv_s c_work_dsize_s c_rw_tempv_s c_rw_fill_dense_s c_rw_fill_tempv_s c_bmod2d_lda_s c_bmod2d_mv_s.
Proof.
  unfold c_num_tempv_s, c_work_dsize_s, c_rw_tempv_s, c_rw_fill_dense_s, c_rw_fill_tempv_s, c_bmod2d_lda_s, c_bmod2d_mv_s, c_num_tempv_s.
  rwork_tac.
Qed.
Theorem rwork_ok_c : rwork_ok c_num_tempv_c c_work_dsize_c c_rw_tempv_c c_rw_fill_dense_c c_rw_fill_tempv_c c_bmod2d_lda_c c_bmod2d_mv_c.
Proof.
  unfold c_num_tempv_c, c_work_dsize_c, c_rw_tempv_c, c_rw_fill_dense_c, c_rw_fill_tempv_c, c_bmod2d_lda_c, c_bmod2d_mv_c, c_num_tempv_c.
  rwork_tac.
Qed.
Theorem rwork_ok_z : rwork_ok c_num_tempv_z c_work_dsize_z c_rw_tempv_z c_rw_fill_dense_z c_rw_fill_tempv_z c_bmod2d_lda_z c_bmod2d_mv_z.
Proof.
  unfold c_num_tempv_z, c_work_dsize_z, c_rw_tempv_z, c_rw_fill_dense_z, c_rw_fill_tempv_z, c_bmod2d_lda_z, c_bmod2d_mv_z, c_num_tempv_z.
  rwork_tac.
Qed.

Theorem bmod2d_strides_are_lda :
  c_bmod2d_stride_is_lda_s && c_bmod2d_stride_is_lda_d && c_bmod2d_stride_is_lda_c && c_bmod2d_stride_is_lda_z = true.
Proof. reflexivity. Qed.

(* non-vacuity: the stock tuning (w = 20, maxsuper = 200, rowblk = 200) at n = 520: 8000 entries of tempv are needed, 8000 are there *)
Example stock_tuning : c_num_tempv_d 520 20 200 200 = 8000 /\ 19 * c_bmod2d_lda_d 200 200 + c_bmod2d_mv_d 200 200 + 200 = 8000.
Proof. split; reflexivity. Qed.
