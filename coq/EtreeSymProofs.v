(* EtreeSymProofs.v -- symmetric mode of sp_colorder: totality and correctness of at_plus_a
   (get_perm_c.c), totality of colorder in symmetric mode, the symmetric-mode etree is the
   definitional elimination tree of the permuted pattern of A + A^T.

   Hypothesis on the input: wf_csc_mono n colptr rowind =
     wf_csc n n colptr rowind (n+1 column pointers, every stored row index in 0..n-1)
     + the column pointers are non-decreasing.
   Duplicate row indices inside a column and unsorted columns are allowed (the marker array of
   at_plus_a removes duplicates).  Monotonicity is NECESSARY for the model as written: wf_csc alone
   lets two columns share the same positions of rowind, the transpose then needs more than
   nz = alen rowind entries and the write t_rowind[pos] is out of range (Example
   at_plus_a_needs_monotone below). *)
From Coq Require Import ZArith List Bool Lia Permutation.
From SLU Require Import Consts EtreeModel EtreeSpec EtreeArrProofs EtreePermProofs EtreeUFProofs EtreePostProofs
     EtreeColorderProofs EtreeSpecProofs EtreeGameProofs EtreeTheoryProofs EtreeLiuProofs EtreeFullProofs
     EtreeReorderProofs EtreeFinalProofs.
Import ListNotations.
Local Open Scope Z_scope.

(* ------------------------------------------------------------------------------------------ *)
(* reads with a default, counting                                                             *)
Definition getd (a : list Z) (i : Z) : Z := match aget a i with Some v => v | None => 0 end.

Lemma getd_get : forall a i, 0 <= i < alen a -> aget a i = Some (getd a i).
Proof. intros a i H. destruct (aget_range_Some a i H) as [v E]. unfold getd. now rewrite E. Qed.

Lemma getd_Some : forall a i v, aget a i = Some v -> getd a i = v.
Proof. intros a i v E. unfold getd. now rewrite E. Qed.

Lemma filter_len_le : forall (f : Z -> bool) l, (length (filter f l) <= length l)%nat.
Proof. induction l as [|x t IH]; simpl; [lia|]. destruct (f x); simpl; lia. Qed.

Lemma filter_len_add : forall (f g h : Z -> bool) l,
  (forall p, In p l -> f p = g p || h p) -> (forall p, In p l -> g p && h p = false) ->
  length (filter f l) = (length (filter g l) + length (filter h l))%nat.
Proof.
  induction l as [|x t IH]; intros H1 H2; simpl; [reflexivity|].
  rewrite (H1 x) by (simpl; auto). specialize (H2 x (or_introl eq_refl)) as H2x.
  assert (IH' : length (filter f t) = (length (filter g t) + length (filter h t))%nat).
  { apply IH; intros; [apply H1|apply H2]; simpl; auto. }
  destruct (g x), (h x); simpl in *; try discriminate; lia.
Qed.

Lemma filter_len_mono : forall (f g : Z -> bool) l,
  (forall p, In p l -> f p = true -> g p = true) -> (length (filter f l) <= length (filter g l))%nat.
Proof.
  induction l as [|x t IH]; intros H; simpl; [lia|].
  assert (IH' := IH (fun p Hp => H p (or_intror Hp))).
  destruct (f x) eqn:Ef.
  - rewrite (H x) by (simpl; auto). simpl. lia.
  - destruct (g x); simpl; lia.
Qed.

Lemma filter_all_false : forall (f : Z -> bool) l, (forall p, In p l -> f p = false) -> filter f l = [].
Proof.
  induction l as [|x t IH]; intros H; simpl; [reflexivity|].
  rewrite (H x) by (simpl; auto). apply IH. intros; apply H; simpl; auto.
Qed.

Lemma filter_all_true : forall (f : Z -> bool) l, (forall p, In p l -> f p = true) -> filter f l = l.
Proof.
  induction l as [|x t IH]; intros H; simpl; [reflexivity|].
  rewrite (H x) by (simpl; auto). f_equal. apply IH. intros; apply H; simpl; auto.
Qed.

Definition cnt (f : Z -> bool) (lo hi : Z) : Z := Z.of_nat (length (filter f (zrange lo hi))).

Lemma cnt_nonneg : forall f lo hi, 0 <= cnt f lo hi.
Proof. intros; unfold cnt; lia. Qed.

Lemma cnt_empty : forall f lo hi, hi <= lo -> cnt f lo hi = 0.
Proof. intros f lo hi H. unfold cnt. now rewrite zrange_empty. Qed.

Lemma cnt_snoc : forall f lo p, lo <= p -> cnt f lo (p + 1) = cnt f lo p + (if f p then 1 else 0).
Proof.
  intros f lo p H. unfold cnt. rewrite zrange_snoc by lia. rewrite filter_app, app_length. simpl.
  destruct (f p); simpl; lia.
Qed.

Lemma cnt_split : forall f lo mid hi, lo <= mid <= hi -> cnt f lo hi = cnt f lo mid + cnt f mid hi.
Proof.
  intros f lo mid hi H. unfold cnt. rewrite (zrange_split lo mid hi H), filter_app, app_length. lia.
Qed.

Lemma cnt_le_len : forall f lo hi, lo <= hi -> cnt f lo hi <= hi - lo.
Proof.
  intros f lo hi H. unfold cnt. pose proof (filter_len_le f (zrange lo hi)) as L.
  rewrite zrange_length in L. lia.
Qed.

Lemma cnt_mono_hi : forall f lo mid hi, lo <= mid <= hi -> cnt f lo mid <= cnt f lo hi.
Proof. intros f lo mid hi H. rewrite (cnt_split f lo mid hi H). pose proof (cnt_nonneg f mid hi). lia. Qed.

Lemma cnt_strict : forall f lo p hi, lo <= p < hi -> f p = true -> cnt f lo p < cnt f lo hi.
Proof.
  intros f lo p hi H Hf. rewrite (cnt_split f lo (p + 1) hi) by lia. rewrite cnt_snoc by lia. rewrite Hf.
  pose proof (cnt_nonneg f (p + 1) hi). lia.
Qed.

Lemma cnt_zero : forall f lo hi, (forall p, lo <= p < hi -> f p = false) -> cnt f lo hi = 0.
Proof.
  intros f lo hi H. unfold cnt. rewrite filter_all_false; [reflexivity|].
  intros p Hp. apply H. now apply In_zrange.
Qed.

Lemma cnt_all : forall f lo hi, lo <= hi -> (forall p, lo <= p < hi -> f p = true) -> cnt f lo hi = hi - lo.
Proof.
  intros f lo hi Hle H. unfold cnt. rewrite filter_all_true.
  - rewrite zrange_length. lia.
  - intros p Hp. apply H. now apply In_zrange.
Qed.

Lemma cnt_add : forall f g h lo hi, (forall p, f p = g p || h p) -> (forall p, g p && h p = false) ->
  cnt f lo hi = cnt g lo hi + cnt h lo hi.
Proof.
  intros f g h lo hi H1 H2. unfold cnt. rewrite (filter_len_add f g h); auto. lia.
Qed.

Lemma cnt_mono_pt : forall f g lo hi, (forall p, f p = true -> g p = true) -> cnt f lo hi <= cnt g lo hi.
Proof.
  intros f g lo hi H. unfold cnt. pose proof (filter_len_mono f g (zrange lo hi) (fun p _ => H p)). lia.
Qed.

(* ------------------------------------------------------------------------------------------ *)
(* hypotheses                                                                                 *)
Definition wf_csc_mono (n : Z) (colptr rowind : list Z) : Prop :=
  wf_csc n n colptr rowind /\
  forall j s e, 0 <= j < n -> aget colptr j = Some s -> aget colptr (j + 1) = Some e -> s <= e.

(* row r is stored in column j of the CSC pattern (colptr, rowind) *)
Definition incsc (colptr rowind : list Z) (j r : Z) : Prop :=
  exists p, getd colptr j <= p < getd colptr (j + 1) /\ aget rowind p = Some r.

(* the CSC pattern seen as an NCP pattern: colbeg = colptr, colend = colptr shifted by one *)
Lemma aget_tl : forall a i, 0 <= i -> aget (tl a) i = aget a (i + 1).
Proof.
  intros a i H. rewrite !aget_nth_error by lia. replace (Z.to_nat (i + 1)) with (S (Z.to_nat i)) by lia.
  destruct a; simpl; [now destruct (Z.to_nat i)|reflexivity].
Qed.

Lemma incol_incsc : forall colptr rowind j r, 0 <= j -> 0 <= j + 1 < alen colptr ->
  (incol colptr (tl colptr) rowind j r <-> incsc colptr rowind j r).
Proof.
  intros cp ri j r Hj Hl. unfold incol, incsc. rewrite aget_tl by lia.
  rewrite (getd_get cp j) by lia. rewrite (getd_get cp (j + 1)) by lia. split.
  - intros [s [e [p [Es [Ee [Hp Er]]]]]]. inversion Es; inversion Ee; subst. eauto.
  - intros [p [Hp Er]]. exists (getd cp j), (getd cp (j + 1)), p. auto.
Qed.

(* ------------------------------------------------------------------------------------------ *)
(* the counting-sort transpose                                                                *)
Section Transpose.
  Variables (n : Z) (colptr rowind : list Z).
  Hypothesis Hn : 0 <= n.
  Hypothesis Hwf : wf_csc_mono n colptr rowind.

  Let cp := getd colptr.
  Let rp := getd rowind.
  Let c0 := cp 0.
  Let cn := cp n.

  Lemma Lcp : alen colptr = n + 1.
  Proof. destruct Hwf as [[L _] _]. exact L. Qed.

  Lemma cp_get : forall j, 0 <= j <= n -> aget colptr j = Some (cp j).
  Proof. intros j Hj. apply getd_get. rewrite Lcp. lia. Qed.

  Lemma cp_step : forall j, 0 <= j < n -> cp j <= cp (j + 1).
  Proof.
    intros j Hj. destruct Hwf as [_ Hm]. apply (Hm j); auto; apply cp_get; lia.
  Qed.

  Lemma cp_rows : forall j p, 0 <= j < n -> cp j <= p < cp (j + 1) ->
    exists r, aget rowind p = Some r /\ 0 <= r < n.
  Proof.
    intros j p Hj Hp. destruct Hwf as [[_ Hc] _]. destruct (Hc j Hj) as [s [e [Es [Ee Hr]]]].
    rewrite cp_get in Es, Ee by lia. inversion Es; inversion Ee; subst. apply Hr. exact Hp.
  Qed.

  Lemma cp_mono_nat : forall (k : nat) j, 0 <= j -> j + Z.of_nat k <= n -> cp j <= cp (j + Z.of_nat k).
  Proof.
    induction k as [|k IH]; intros j Hj Hk.
    - replace (j + Z.of_nat 0) with j by lia. lia.
    - specialize (IH j Hj ltac:(lia)). pose proof (cp_step (j + Z.of_nat k) ltac:(lia)).
      replace (j + Z.of_nat (S k)) with (j + Z.of_nat k + 1) by lia. lia.
  Qed.

  Lemma cp_mono : forall i j, 0 <= i <= j -> j <= n -> cp i <= cp j.
  Proof.
    intros i j Hi Hj. replace j with (i + Z.of_nat (Z.to_nat (j - i))) by lia. apply cp_mono_nat; lia.
  Qed.

  Lemma col_unique : forall i j p, 0 <= i < n -> 0 <= j < n -> cp i <= p < cp (i + 1) -> cp j <= p < cp (j + 1) -> i = j.
  Proof.
    intros i j p Hi Hj Hpi Hpj.
    destruct (Z_lt_ge_dec i j) as [H|H]; [pose proof (cp_mono (i + 1) j ltac:(lia) ltac:(lia)); lia|].
    destruct (Z_lt_ge_dec j i) as [H'|H']; [pose proof (cp_mono (j + 1) i ltac:(lia) ltac:(lia)); lia|]. lia.
  Qed.

  (* every position between colptr[0] and colptr[n] belongs to a column *)
  Lemma pos_col_nat : forall (k : nat) p, Z.of_nat k <= n -> c0 <= p < cp (Z.of_nat k) ->
    exists j, 0 <= j < Z.of_nat k /\ cp j <= p < cp (j + 1).
  Proof.
    induction k as [|k IH]; intros p Hk Hp.
    - unfold c0 in Hp. simpl in Hp. lia.
    - destruct (Z_lt_ge_dec p (cp (Z.of_nat k))) as [H|H].
      + destruct (IH p ltac:(lia) ltac:(lia)) as [j [Hj Hpj]]. exists j. split; [lia|auto].
      + exists (Z.of_nat k). split; [lia|]. replace (Z.of_nat k + 1) with (Z.of_nat (S k)) by lia. lia.
  Qed.

  Lemma pos_col : forall p, c0 <= p < cn -> exists j, 0 <= j < n /\ cp j <= p < cp (j + 1).
  Proof.
    intros p Hp. destruct (pos_col_nat (Z.to_nat n) p) as [j [Hj Hpj]]; try lia.
    - rewrite Z2Nat.id by lia. exact Hp.
    - exists j. split; [lia|auto].
  Qed.

  Lemma pos_rows : forall p, c0 <= p < cn -> exists r, aget rowind p = Some r /\ 0 <= r < n.
  Proof. intros p Hp. destruct (pos_col p Hp) as [j [Hj Hpj]]. eapply cp_rows; eauto. Qed.

  Lemma rp_range : forall p, c0 <= p < cn -> aget rowind p = Some (rp p) /\ 0 <= rp p < n.
  Proof.
    intros p Hp. destruct (pos_rows p Hp) as [r [Er Hr]]. unfold rp. rewrite (getd_Some _ _ _ Er). auto.
  Qed.

  Lemma c0_le_cn : c0 <= cn.
  Proof. apply cp_mono; lia. Qed.

  Lemma nz_bound : cn - c0 <= alen rowind.
  Proof.
    pose proof c0_le_cn. pose proof (alen_nonneg rowind).
    destruct (Z.eq_dec c0 cn) as [E|E]; [lia|].
    destruct (rp_range c0 ltac:(lia)) as [E1 _]. destruct (rp_range (cn - 1) ltac:(lia)) as [E2 _].
    apply aget_Some_range in E1, E2. lia.
  Qed.

  Definition ceq (r lo hi : Z) : Z := cnt (fun p => rp p =? r) lo hi.
  Definition clt (i lo hi : Z) : Z := cnt (fun p => rp p <? i) lo hi.
  Definition off (i : Z) : Z := clt i c0 cn.

  Lemma off_0 : off 0 = 0.
  Proof.
    unfold off, clt. apply cnt_zero. intros p Hp. destruct (rp_range p Hp) as [_ H]. apply Z.ltb_ge. lia.
  Qed.

  Lemma off_succ : forall i, off (i + 1) = off i + ceq i c0 cn.
  Proof.
    intros i. unfold off, clt, ceq. apply cnt_add.
    - intros p. destruct (rp p <? i + 1) eqn:E1, (rp p <? i) eqn:E2, (rp p =? i) eqn:E3; simpl; auto;
        rewrite ?Z.ltb_lt, ?Z.ltb_ge, ?Z.eqb_eq, ?Z.eqb_neq in *; lia.
    - intros p. destruct (rp p <? i) eqn:E2, (rp p =? i) eqn:E3; simpl; auto;
        rewrite ?Z.ltb_lt, ?Z.ltb_ge, ?Z.eqb_eq, ?Z.eqb_neq in *; lia.
  Qed.

  Lemma off_n : off n = cn - c0.
  Proof.
    unfold off, clt. apply cnt_all; [apply c0_le_cn|].
    intros p Hp. destruct (rp_range p Hp) as [_ H]. apply Z.ltb_lt. lia.
  Qed.

  Lemma off_mono : forall i j, i <= j -> off i <= off j.
  Proof.
    intros i j H. unfold off, clt. apply cnt_mono_pt. intros p Hp. rewrite Z.ltb_lt in *. lia.
  Qed.

  Lemma off_nonneg : forall i, 0 <= off i.
  Proof. intros; apply cnt_nonneg. Qed.

  Lemma off_le_nz : forall i, off i <= alen rowind.
  Proof.
    intros i. pose proof nz_bound. pose proof c0_le_cn.
    assert (off i <= cn - c0) by (apply cnt_le_len; auto). lia.
  Qed.

  (* ---- phase 1: marker[r] = number of stored entries with row index r ---- *)
  Lemma count_phase :
    exists mkr, ofold (fun mkr j => for_cols colptr j
                  (fun mkr i => r <- aget rowind i ;; c <- aget mkr r ;; aset mkr r (c + 1)) mkr)
                (zrange 0 n) (mk n 0) = Some mkr /\
      alen mkr = n /\ forall r, 0 <= r < n -> aget mkr r = Some (ceq r c0 cn).
  Proof.
    set (Q := fun (p : Z) (mkr : list Z) => alen mkr = n /\ forall r, 0 <= r < n -> aget mkr r = Some (ceq r c0 p)).
    destruct (ofold_zrange_inv
      (fun mkr j => for_cols colptr j
         (fun mkr i => match aget rowind i with Some r => match aget mkr r with Some c => aset mkr r (c + 1) | None => None end | None => None end) mkr)
      (fun j mkr => Q (cp j) mkr) 0 n (mk n 0)) as [mkr [E HQ]]; auto.
    - split; [rewrite alen_mk; lia|]. intros r Hr. rewrite aget_mk by lia. f_equal.
      symmetry. apply cnt_empty. fold c0. lia.
    - intros j mkr Hj HQj. unfold for_cols. rewrite (cp_get j), (cp_get (j + 1)) by lia.
      pose proof (cp_step j Hj) as Hst. pose proof (cp_mono 0 j ltac:(lia) ltac:(lia)) as Hc0. fold c0 in Hc0.
      apply (ofold_zrange_inv _ Q (cp j) (cp (j + 1)) mkr Hst HQj).
      intros p m Hp [Lm Hm]. destruct (cp_rows j p Hj Hp) as [r [Er Hr]]. rewrite Er.
      rewrite (Hm r Hr). destruct (aset_total m r (ceq r c0 p + 1)) as [m' Em]; [lia|].
      exists m'. split; auto. split; [rewrite (aset_len _ _ _ _ Em); auto|].
      intros r' Hr'. rewrite (aget_aset _ _ _ _ r' Em). unfold ceq at 2. rewrite cnt_snoc by lia.
      assert (Erp : rp p = r) by (unfold rp; apply getd_Some; auto). rewrite Erp.
      destruct (r' =? r) eqn:Err.
      + apply Z.eqb_eq in Err. subst r'. rewrite Z.eqb_refl. reflexivity.
      + rewrite Z.eqb_sym, Err. rewrite Hm by auto. unfold ceq. f_equal. lia.
    - exists mkr. split; auto.
  Qed.

  (* ---- phase 2: prefix sums ---- *)
  Lemma prefix_phase : forall mkr1, alen mkr1 = n -> (forall r, 0 <= r < n -> aget mkr1 r = Some (ceq r c0 cn)) ->
    exists tc0 tc mkr2,
      aset (mk (n + 1) c_uninit) 0 0 = Some tc0 /\
      ofold (fun '(tc, mkr) i =>
              a <- aget tc i ;; c <- aget mkr i ;;
              tc1 <- aset tc (i + 1) (a + c) ;;
              mkr1 <- aset mkr i a ;;
              Some (tc1, mkr1))
           (zrange 0 n) (tc0, mkr1) = Some (tc, mkr2) /\
      alen tc = n + 1 /\ alen mkr2 = n /\
      (forall k, 0 <= k <= n -> aget tc k = Some (off k)) /\
      (forall k, 0 <= k < n -> aget mkr2 k = Some (off k)).
  Proof.
    intros mkr1 L1 H1.
    destruct (aset_total (mk (n + 1) c_uninit) 0 0) as [tc0 E0]; [rewrite alen_mk; lia|].
    exists tc0.
    destruct (ofold_zrange_inv
      (fun '(tc, mkr) i =>
         match aget tc i with Some a => match aget mkr i with Some c =>
           match aset tc (i + 1) (a + c) with Some tc1 =>
             match aset mkr i a with Some mkr1 => Some (tc1, mkr1) | None => None end | None => None end
         | None => None end | None => None end)
      (fun i (st : list Z * list Z) => let '(tc, mkr) := st in
         alen tc = n + 1 /\ alen mkr = n /\
         (forall k, 0 <= k <= i -> aget tc k = Some (off k)) /\
         (forall k, 0 <= k < i -> aget mkr k = Some (off k)) /\
         (forall k, i <= k < n -> aget mkr k = Some (ceq k c0 cn)))
      0 n (tc0, mkr1)) as [[tc mkr2] [E [A1 [A2 [A3 [A4 _]]]]]]; auto.
    - split; [rewrite (aset_len _ _ _ _ E0), alen_mk; lia|]. split; auto. split; [|split].
      + intros k Hk. assert (k = 0) by lia. subst k. rewrite (aget_aset_same _ _ _ _ E0). now rewrite off_0.
      + intros; lia.
      + intros k Hk. apply H1. lia.
    - intros i [tc mkr] Hi [B1 [B2 [B3 [B4 B5]]]].
      rewrite (B3 i) by lia. rewrite (B5 i) by lia.
      destruct (aset_total tc (i + 1) (off i + ceq i c0 cn)) as [tc1 Et]; [lia|]. rewrite Et.
      destruct (aset_total mkr i (off i)) as [mkr' Em]; [lia|]. rewrite Em.
      exists (tc1, mkr'). split; auto.
      split; [rewrite (aset_len _ _ _ _ Et); auto|]. split; [rewrite (aset_len _ _ _ _ Em); auto|].
      split; [|split].
      + intros k Hk. rewrite (aget_aset _ _ _ _ k Et). destruct (k =? i + 1) eqn:Ek.
        * apply Z.eqb_eq in Ek. subst k. now rewrite off_succ.
        * apply Z.eqb_neq in Ek. apply B3. lia.
      + intros k Hk. rewrite (aget_aset _ _ _ _ k Em). destruct (k =? i) eqn:Ek.
        * apply Z.eqb_eq in Ek. now subst k.
        * apply Z.eqb_neq in Ek. apply B4. lia.
      + intros k Hk. rewrite (aget_aset _ _ _ _ k Em). destruct (k =? i) eqn:Ek.
        * apply Z.eqb_eq in Ek. lia.
        * apply B5. lia.
    - exists tc, mkr2. repeat (split; [solve [auto]|]). exact A4.
  Qed.

  (* ---- phase 3: fill t_rowind ---- *)
  Definition tr_inv (p : Z) (st : list Z * list Z) : Prop :=
    let '(tr, mkr) := st in
    alen tr = alen rowind /\ alen mkr = n /\
    (forall r, 0 <= r < n -> aget mkr r = Some (off r + ceq r c0 p)) /\
    (forall r t, 0 <= r < n -> off r <= t < off r + ceq r c0 p ->
       exists j, aget tr t = Some j /\ 0 <= j < n /\ incsc colptr rowind j r) /\
    (forall j q, 0 <= j < n -> cp j <= q < cp (j + 1) -> q < p ->
       exists r t, aget rowind q = Some r /\ off r <= t < off r + ceq r c0 p /\ aget tr t = Some j).

  Lemma fill_phase : forall mkr2, alen mkr2 = n -> (forall k, 0 <= k < n -> aget mkr2 k = Some (off k)) ->
    exists tr mkr3,
      ofold (fun st j => for_cols colptr j
              (fun '(tr, mkr) i =>
                 col <- aget rowind i ;; pos <- aget mkr col ;;
                 tr1 <- aset tr pos j ;;
                 mkr1 <- aset mkr col (pos + 1) ;;
                 Some (tr1, mkr1)) st)
           (zrange 0 n) (mk (alen rowind) c_uninit, mkr2) = Some (tr, mkr3) /\
      tr_inv cn (tr, mkr3).
  Proof.
    intros mkr2 L2 H2.
    destruct (ofold_zrange_inv
      (fun st j => for_cols colptr j
         (fun '(tr, mkr) i =>
            match aget rowind i with Some col => match aget mkr col with Some pos =>
              match aset tr pos j with Some tr1 =>
                match aset mkr col (pos + 1) with Some mkr1 => Some (tr1, mkr1) | None => None end
              | None => None end | None => None end | None => None end) st)
      (fun j st => tr_inv (cp j) st) 0 n (mk (alen rowind) c_uninit, mkr2)) as [[tr mkr3] [E HQ]]; auto.
    - unfold tr_inv. fold c0. split; [rewrite alen_mk; pose proof (alen_nonneg rowind); lia|]. split; auto.
      split; [|split].
      + intros r Hr. rewrite H2 by auto. f_equal. unfold ceq. rewrite cnt_empty; lia.
      + intros r t Hr Ht. unfold ceq in Ht. rewrite cnt_empty in Ht; lia.
      + intros j q Hj Hq Hlt. pose proof (cp_mono 0 j ltac:(lia) ltac:(lia)). fold c0 in H. lia.
    - intros j st Hj Hinv. unfold for_cols. rewrite (cp_get j), (cp_get (j + 1)) by lia.
      pose proof (cp_step j Hj) as Hst. pose proof (cp_mono 0 j ltac:(lia) ltac:(lia)) as Hc0. fold c0 in Hc0.
      pose proof (cp_mono (j + 1) n ltac:(lia) ltac:(lia)) as Hcn. fold cn in Hcn.
      apply (ofold_zrange_inv _ tr_inv (cp j) (cp (j + 1)) st Hst Hinv).
      intros p [tr mkr] Hp [Ltr [Lm [I1 [I2 I3]]]].
      destruct (cp_rows j p Hj Hp) as [r0 [Er0 Hr0]]. rewrite Er0. rewrite (I1 r0 Hr0).
      assert (Erp : rp p = r0) by (unfold rp; apply getd_Some; auto).
      assert (Hstrict : ceq r0 c0 p < ceq r0 c0 cn).
      { unfold ceq. apply cnt_strict; [lia|]. rewrite Erp. apply Z.eqb_refl. }
      pose proof (off_succ r0) as Hos. pose proof (off_nonneg r0) as Hon. pose proof (off_le_nz (r0 + 1)) as Hnz.
      pose proof (cnt_nonneg (fun q => rp q =? r0) c0 p) as Hcn0. fold (ceq r0 c0 p) in Hcn0.
      set (pos := off r0 + ceq r0 c0 p) in *.
      destruct (aset_total tr pos j) as [tr1 Et]; [lia|]. rewrite Et.
      destruct (aset_total mkr r0 (pos + 1)) as [mkr1 Em]; [lia|]. rewrite Em.
      exists (tr1, mkr1). split; auto.
      assert (Hsn : forall r, ceq r c0 (p + 1) = ceq r c0 p + (if r0 =? r then 1 else 0)).
      { intros r. unfold ceq. rewrite cnt_snoc by lia. now rewrite Erp. }
      unfold tr_inv. split; [rewrite (aset_len _ _ _ _ Et); auto|]. split; [rewrite (aset_len _ _ _ _ Em); auto|].
      split; [|split].
      + intros r Hr. rewrite (aget_aset _ _ _ _ r Em). rewrite Hsn. destruct (r =? r0) eqn:Err.
        * apply Z.eqb_eq in Err. subst r. rewrite Z.eqb_refl. f_equal. unfold pos. lia.
        * rewrite Z.eqb_sym, Err. rewrite I1 by auto. f_equal. lia.
      + intros r t Hr Ht. rewrite Hsn in Ht. rewrite (aget_aset _ _ _ _ t Et).
        destruct (t =? pos) eqn:Etp.
        * apply Z.eqb_eq in Etp. exists j. split; auto. split; auto.
          (* t = pos lies in the block of r0 only *)
          assert (r = r0).
          { destruct (Z.eq_dec r r0) as [|Hne]; auto. exfalso.
            assert (Ern : r0 =? r = false) by (apply Z.eqb_neq; lia). rewrite Ern in Ht.
            pose proof (off_succ r) as Hosr.
            assert (ceq r c0 p <= ceq r c0 cn) by (apply cnt_mono_hi; lia).
            destruct (Z_lt_ge_dec r r0).
            - pose proof (off_mono (r + 1) r0 ltac:(lia)). unfold pos in Etp. lia.
            - pose proof (off_mono (r0 + 1) r ltac:(lia)). unfold pos in Etp. lia. }
          subst r. exists p. fold cp. auto.
        * apply Z.eqb_neq in Etp. apply (I2 r t Hr).
          destruct (r0 =? r) eqn:Ern; [|lia]. apply Z.eqb_eq in Ern. subst r. unfold pos in Etp. lia.
      + intros j' q Hj' Hq Hlt. destruct (Z.eq_dec q p) as [->|Hne].
        * assert (j' = j) by (eapply col_unique; eauto). subst j'.
          exists r0, pos. split; auto. split; [rewrite Hsn, Z.eqb_refl; unfold pos; lia|].
          apply (aget_aset_same _ _ _ _ Et).
        * destruct (I3 j' q Hj' Hq ltac:(lia)) as [r [t [Er [Ht Etr]]]]. exists r, t. split; auto.
          split; [rewrite Hsn; destruct (r0 =? r); lia|].
          rewrite (aget_aset _ _ _ _ t Et). destruct (t =? pos) eqn:Etp; auto.
          apply Z.eqb_eq in Etp. exfalso.
          assert (Hrr : 0 <= r < n).
          { destruct (cp_rows j' q Hj' Hq) as [r' [Er' Hr']]. congruence. }
          destruct (Z.eq_dec r r0) as [->|Hner]; [unfold pos in Etp; lia|].
          pose proof (off_succ r) as Hosr.
          assert (ceq r c0 p <= ceq r c0 cn) by (apply cnt_mono_hi; lia).
          destruct (Z_lt_ge_dec r r0).
          -- pose proof (off_mono (r + 1) r0 ltac:(lia)). unfold pos in Etp. lia.
          -- pose proof (off_mono (r0 + 1) r ltac:(lia)). unfold pos in Etp. lia.
    - exists tr, mkr3. split; auto.
  Qed.
  (* ---- the three phases together: (tc, tr) is the CSC pattern of A^T ---- *)
  Lemma transpose_ok :
    exists mkr1 tc0 tc mkr2 tr mkr3,
      ofold (fun mkr j => for_cols colptr j
                  (fun mkr i => r <- aget rowind i ;; c <- aget mkr r ;; aset mkr r (c + 1)) mkr)
                (zrange 0 n) (mk n 0) = Some mkr1 /\
      aset (mk (n + 1) c_uninit) 0 0 = Some tc0 /\
      ofold (fun '(tc, mkr) i =>
              a <- aget tc i ;; c <- aget mkr i ;;
              tc1 <- aset tc (i + 1) (a + c) ;;
              mkr1 <- aset mkr i a ;;
              Some (tc1, mkr1))
           (zrange 0 n) (tc0, mkr1) = Some (tc, mkr2) /\
      ofold (fun st j => for_cols colptr j
              (fun '(tr, mkr) i =>
                 col <- aget rowind i ;; pos <- aget mkr col ;;
                 tr1 <- aset tr pos j ;;
                 mkr1 <- aset mkr col (pos + 1) ;;
                 Some (tr1, mkr1)) st)
           (zrange 0 n) (mk (alen rowind) c_uninit, mkr2) = Some (tr, mkr3) /\
      alen tc = n + 1 /\
      (forall r t, 0 <= r < n -> getd tc r <= t < getd tc (r + 1) ->
         exists j, aget tr t = Some j /\ 0 <= j < n /\ incsc colptr rowind j r) /\
      (forall j r, 0 <= j < n -> incsc colptr rowind j r ->
         0 <= r < n /\ exists t, getd tc r <= t < getd tc (r + 1) /\ aget tr t = Some j).
  Proof.
    destruct count_phase as [mkr1 [E1 [L1 H1]]].
    destruct (prefix_phase mkr1 L1 H1) as [tc0 [tc [mkr2 [E0 [E2 [Ltc [L2 [Htc H2]]]]]]]].
    destruct (fill_phase mkr2 L2 H2) as [tr [mkr3 [E3 [Ltr [L3 [I1 [I2 I3]]]]]]].
    exists mkr1, tc0, tc, mkr2, tr, mkr3. repeat (split; [assumption|]).
    assert (Hg : forall k, 0 <= k <= n -> getd tc k = off k).
    { intros k Hk. apply getd_Some. apply Htc. auto. }
    split.
    - intros r t Hr Ht. rewrite !Hg in Ht by lia. rewrite off_succ in Ht. apply (I2 r t Hr Ht).
    - intros j r Hj [q [Hq Er]]. fold cp in Hq.
      destruct (cp_rows j q Hj Hq) as [r' [Er' Hr']]. assert (r' = r) by congruence. subst r'.
      split; auto.
      pose proof (cp_mono (j + 1) n ltac:(lia) ltac:(lia)) as Hcn. fold cn in Hcn.
      destruct (I3 j q Hj Hq ltac:(lia)) as [r2 [t [Er2 [Ht Et]]]]. assert (r2 = r) by congruence. subst r2.
      exists t. split; auto. rewrite !Hg by lia. rewrite off_succ. exact Ht.
  Qed.
End Transpose.

(* ------------------------------------------------------------------------------------------ *)
(* the two passes over the columns of A and T = A^T                                           *)
(* ghost list of the row indices emitted so far for column j *)
Definition vis (j : Z) (L : list Z) (k : Z) : list Z := if (k =? j) || memZ k L then L else L ++ [k].

(* the sequence of row indices read from column j *)
Definition colseq (cptr rind : list Z) (j : Z) : list Z :=
  map (getd rind) (zrange (getd cptr j) (getd cptr (j + 1))).

(* column j of B: first-occurrence order, diagonal skipped *)
Definition bcol (acp ari tcp tri : list Z) (j : Z) : list Z :=
  fold_left (vis j) (colseq tcp tri j) (fold_left (vis j) (colseq acp ari j) []).

Definition bpre (acp ari tcp tri : list Z) (j : Z) : list Z :=
  concat (map (bcol acp ari tcp tri) (zrange 0 j)).

Lemma vis_in : forall j L x i, In i (vis j L x) <-> In i L \/ (i = x /\ x <> j).
Proof.
  intros j L x i. unfold vis. destruct (x =? j) eqn:E1; simpl.
  - apply Z.eqb_eq in E1. split; [auto|intros [H|[_ H]]; [auto|contradiction]].
  - apply Z.eqb_neq in E1. destruct (memZ x L) eqn:E2.
    + apply memZ_In in E2. split; [auto|intros [H|[-> _]]; auto].
    + rewrite in_app_iff. simpl. split.
      * intros [H|[H|[]]]; auto.
      * intros [H|[H _]]; auto.
Qed.

Lemma vis_fold_in : forall j S L i, In i (fold_left (vis j) S L) <-> In i L \/ (i <> j /\ In i S).
Proof.
  induction S as [|x t IH]; intros L i; simpl.
  - tauto.
  - rewrite IH, vis_in. split.
    + intros [[H|[-> H]]|[H1 H2]]; auto.
    + intros [H|[H1 [H2|H2]]]; auto. subst x. auto.
Qed.

Lemma NoDup_snoc : forall (L : list Z) x, NoDup L -> ~ In x L -> NoDup (L ++ [x]).
Proof.
  induction L as [|y t IH]; intros x H Hx; simpl.
  - constructor; auto.
  - inversion H; subst. constructor.
    + rewrite in_app_iff. simpl. intros [H1|[H1|[]]]; [auto|subst; apply Hx; simpl; auto].
    + apply IH; auto. intros H1. apply Hx. simpl; auto.
Qed.

Lemma vis_nodup : forall j L x, NoDup L -> NoDup (vis j L x).
Proof.
  intros j L x H. unfold vis. destruct (x =? j); simpl; auto.
  destruct (memZ x L) eqn:E; auto.
  apply NoDup_snoc; auto. intros Hin. apply memZ_In in Hin. congruence.
Qed.

Lemma vis_fold_nodup : forall j S L, NoDup L -> NoDup (fold_left (vis j) S L).
Proof. induction S as [|x t IH]; intros L H; simpl; auto. apply IH. now apply vis_nodup. Qed.

Lemma vis_len : forall j L x, (length L <= length (vis j L x))%nat.
Proof.
  intros j L x. unfold vis. destruct ((x =? j) || memZ x L); [lia|]. rewrite app_length. simpl. lia.
Qed.

Lemma vis_fold_len : forall j S L, (length L <= length (fold_left (vis j) S L))%nat.
Proof.
  induction S as [|x t IH]; intros L; simpl; [lia|]. specialize (IH (vis j L x)). pose proof (vis_len j L x). lia.
Qed.

Lemma bpre_succ : forall acp ari tcp tri j, 0 <= j ->
  bpre acp ari tcp tri (j + 1) = bpre acp ari tcp tri j ++ bcol acp ari tcp tri j.
Proof.
  intros acp ari tcp tri j Hj. unfold bpre. rewrite zrange_snoc by lia. rewrite map_app, concat_app. simpl.
  now rewrite app_nil_r.
Qed.

Lemma bpre_len_mono : forall acp ari tcp tri i j, 0 <= i <= j ->
  (length (bpre acp ari tcp tri i) <= length (bpre acp ari tcp tri j))%nat.
Proof.
  intros acp ari tcp tri i j H. unfold bpre. rewrite (zrange_split 0 i j) by lia.
  rewrite map_app, concat_app, app_length. lia.
Qed.

Section Pass.
  Variables (n : Z) (co : bool) (B : Z).
  Hypothesis Hn : 0 <= n.

  Definition vinv (j : Z) (G0 L : list Z) (st : list Z * Z * list Z) : Prop :=
    let '(marker, num_nz, brow) := st in
    alen marker = n /\
    (forall k, 0 <= k < n -> exists v, aget marker k = Some v /\ v <= j /\ (v = j <-> (k = j \/ In k L))) /\
    num_nz = Z.of_nat (length (G0 ++ L)) /\
    (co = false -> alen brow = B /\
       forall t, (t < length (G0 ++ L))%nat -> aget brow (Z.of_nat t) = nth_error (G0 ++ L) t).

  Lemma visit_ok : forall j G0 L st k, 0 <= k < n -> vinv j G0 L st ->
    (co = false -> Z.of_nat (length (G0 ++ vis j L k)) <= B) ->
    exists st', apa_visit co j st k = Some st' /\ vinv j G0 (vis j L k) st'.
  Proof.
    intros j G0 L [[marker num] brow] k Hk [Lm [Hm [Hnum Hb]]] Hbound. unfold apa_visit.
    destruct (Hm k Hk) as [v [Ev [Hv Hiff]]]. rewrite Ev.
    destruct (v =? j) eqn:Evj.
    - apply Z.eqb_eq in Evj. exists (marker, num, brow). split; auto.
      assert (Evis : vis j L k = L).
      { unfold vis. destruct (proj1 Hiff Evj) as [->|Hin]; [now rewrite Z.eqb_refl|].
        apply memZ_In in Hin. rewrite Hin. now rewrite orb_true_r. }
      rewrite Evis. repeat split; auto; apply Hb; auto.
    - apply Z.eqb_neq in Evj.
      assert (Hkj : k <> j) by (intros ->; apply Evj; apply Hiff; auto).
      assert (Hnin : ~ In k L) by (intros H; apply Evj; apply Hiff; auto).
      assert (Evis : vis j L k = L ++ [k]).
      { unfold vis. assert ((k =? j) = false) by (apply Z.eqb_neq; auto).
        destruct (memZ k L) eqn:Em; [apply memZ_In in Em; contradiction|]. now rewrite H. }
      rewrite Evis in *.
      destruct (aset_total marker k j) as [marker1 Em]; [lia|]. rewrite Em.
      assert (Hm1 : forall k', 0 <= k' < n -> exists v', aget marker1 k' = Some v' /\ v' <= j /\ (v' = j <-> (k' = j \/ In k' (L ++ [k])))).
      { intros k' Hk'. rewrite (aget_aset _ _ _ _ k' Em). destruct (k' =? k) eqn:Ekk.
        - apply Z.eqb_eq in Ekk. subst k'. exists j. split; auto. split; [lia|]. split; auto.
          intros _. right. rewrite in_app_iff. simpl. auto.
        - apply Z.eqb_neq in Ekk. destruct (Hm k' Hk') as [v' [Ev' [Hv' Hiff']]]. exists v'. split; auto. split; auto.
          rewrite in_app_iff. simpl. split.
          + intros H. apply Hiff' in H. tauto.
          + intros [H|[H|[H|[]]]]; [apply Hiff'; auto|apply Hiff'; auto|congruence]. }
      assert (Hlen : length (G0 ++ L ++ [k]) = S (length (G0 ++ L))).
      { rewrite !app_length. simpl. lia. }
      destruct co eqn:Eco.
      + exists (marker1, num + 1, brow). split; auto. split; [rewrite (aset_len _ _ _ _ Em); auto|].
        split; auto. split; [rewrite Hlen; lia|]. intros Hf; congruence.
      + destruct (Hb eq_refl) as [Lb Hread]. specialize (Hbound eq_refl). rewrite Hlen in Hbound.
        destruct (aset_total brow num k) as [b1 Eb]; [lia|]. rewrite Eb.
        exists (marker1, num + 1, b1). split; auto. split; [rewrite (aset_len _ _ _ _ Em); auto|].
        split; auto. split; [rewrite Hlen; lia|]. intros _. split; [rewrite (aset_len _ _ _ _ Eb); auto|].
        intros t Ht. rewrite Hlen in Ht. rewrite (aget_aset _ _ _ _ (Z.of_nat t) Eb).
        rewrite app_assoc. destruct (Z.of_nat t =? num) eqn:Et.
        * apply Z.eqb_eq in Et. assert (t = length (G0 ++ L)) by lia. subst t.
          rewrite nth_error_app2 by lia. rewrite Nat.sub_diag. reflexivity.
        * apply Z.eqb_neq in Et. rewrite nth_error_app1 by lia. apply Hread. lia.
  Qed.

  Lemma cols_visit_ok : forall cptr rind j G0 L0 st,
    0 <= j < n -> alen cptr = n + 1 ->
    (forall p, getd cptr j <= p < getd cptr (j + 1) -> exists r, aget rind p = Some r /\ 0 <= r < n) ->
    vinv j G0 L0 st ->
    (co = false -> Z.of_nat (length (G0 ++ fold_left (vis j) (colseq cptr rind j) L0)) <= B) ->
    exists st', for_cols cptr j (fun st i => k <- aget rind i ;; apa_visit co j st k) st = Some st' /\
                vinv j G0 (fold_left (vis j) (colseq cptr rind j) L0) st'.
  Proof.
    intros cptr rind j G0 L0 st Hj Lc Hrows Hinv Hbound. unfold for_cols, colseq in *.
    rewrite (getd_get cptr j), (getd_get cptr (j + 1)) by lia.
    set (s := getd cptr j) in *. set (e := getd cptr (j + 1)) in *.
    destruct (Z_le_gt_dec s e) as [Hse|Hse].
    2:{ rewrite zrange_empty by lia. simpl. exists st. auto. }
    apply (ofold_zrange_inv
      (fun st i => match aget rind i with Some k => apa_visit co j st k | None => None end)
      (fun p st => vinv j G0 (fold_left (vis j) (map (getd rind) (zrange s p)) L0) st) s e st Hse).
    - rewrite zrange_empty by lia. exact Hinv.
    - intros p st0 Hp Hinv0. destruct (Hrows p Hp) as [r [Er Hr]]. rewrite Er.
      rewrite zrange_snoc by lia. rewrite map_app, fold_left_app. simpl. rewrite (getd_Some _ _ _ Er).
      apply visit_ok; auto. intros Hco. specialize (Hbound Hco).
      rewrite (zrange_split s (p + 1) e) in Hbound by lia. rewrite map_app, fold_left_app in Hbound.
      rewrite zrange_snoc in Hbound by lia. rewrite map_app, fold_left_app in Hbound. simpl in Hbound.
      rewrite (getd_Some _ _ _ Er) in Hbound.
      match type of Hbound with context [fold_left (vis j) ?S ?L] =>
        match L with vis _ _ _ => pose proof (vis_fold_len j S L) as Hl end end.
      rewrite !app_length in *. lia.
  Qed.

  Variables (acp ari tcp tri : list Z).
  Hypothesis La : alen acp = n + 1.
  Hypothesis Lt : alen tcp = n + 1.
  Hypothesis Ha : forall j p, 0 <= j < n -> getd acp j <= p < getd acp (j + 1) -> exists r, aget ari p = Some r /\ 0 <= r < n.
  Hypothesis Ht : forall j p, 0 <= j < n -> getd tcp j <= p < getd tcp (j + 1) -> exists r, aget tri p = Some r /\ 0 <= r < n.
  Let bc := bcol acp ari tcp tri.
  Let G := bpre acp ari tcp tri.
  Hypothesis HB : co = false -> B = Z.of_nat (length (G n)).

  Definition oinv (j : Z) (st : list Z * Z * list Z * list Z) : Prop :=
    let '(marker, num_nz, brow, bcp) := st in
    alen marker = n /\ (forall k, 0 <= k < n -> exists v, aget marker k = Some v /\ v < j) /\
    num_nz = Z.of_nat (length (G j)) /\
    (co = false -> alen brow = B /\
       (forall t, (t < length (G j))%nat -> aget brow (Z.of_nat t) = nth_error (G j) t) /\
       alen bcp = n + 1 /\ forall j', 0 <= j' < j -> aget bcp j' = Some (Z.of_nat (length (G j')))).

  Lemma apa_pass_ok : forall brow0 bcp0, (co = false -> alen brow0 = B /\ alen bcp0 = n + 1) ->
    exists st, apa_pass co n acp ari tcp tri (mk n (-1)) bcp0 brow0 = Some st /\ oinv n st.
  Proof.
    intros brow0 bcp0 H0. unfold apa_pass.
    apply (ofold_zrange_inv _ oinv 0 n (mk n (-1), 0, brow0, bcp0) Hn).
    - unfold oinv. split; [rewrite alen_mk; lia|]. split.
      { intros k Hk. exists (-1). split; [apply aget_mk; auto|lia]. }
      split; [reflexivity|]. intros Hco. destruct (H0 Hco) as [L1 L2]. split; auto. split.
      { intros t Ht0. unfold G, bpre in Ht0. simpl in Ht0. lia. }
      split; auto. intros; lia.
    - intros j [[[marker num] brow] bcp] Hj [Lm [Hm [Hnum Hb]]].
      assert (HG : G (j + 1) = G j ++ bc j) by (apply bpre_succ; lia).
      assert (HGn : (length (G (j + 1)) <= length (G n))%nat) by (apply bpre_len_mono; lia).
      assert (E1 : exists bcp1, (if co then Some bcp else aset bcp j num) = Some bcp1 /\
                 (co = false -> alen bcp1 = n + 1 /\ forall j', 0 <= j' < j + 1 -> aget bcp1 j' = Some (Z.of_nat (length (G j'))))).
      { destruct co eqn:Eco; [exists bcp; split; auto; intros Hf; congruence|].
        destruct (Hb eq_refl) as [_ [_ [Lb Hbcp]]].
        destruct (aset_total bcp j num) as [bcp1 Eb]; [lia|]. exists bcp1. split; auto. intros _.
        split; [rewrite (aset_len _ _ _ _ Eb); auto|]. intros j' Hj'. rewrite (aget_aset _ _ _ _ j' Eb).
        destruct (j' =? j) eqn:Ejj; [apply Z.eqb_eq in Ejj; subst; auto|apply Z.eqb_neq in Ejj; apply Hbcp; lia]. }
      destruct E1 as [bcp1 [E1 Hbcp1]]. rewrite E1.
      destruct (aset_total marker j j) as [marker1 Em]; [lia|]. rewrite Em.
      assert (Hv0 : vinv j (G j) [] (marker1, num, brow)).
      { split; [rewrite (aset_len _ _ _ _ Em); auto|]. split.
        - intros k Hk. rewrite (aget_aset _ _ _ _ k Em). destruct (k =? j) eqn:Ekj.
          + apply Z.eqb_eq in Ekj. exists j. split; auto. split; [lia|]. tauto.
          + apply Z.eqb_neq in Ekj. destruct (Hm k Hk) as [v [Ev Hv]]. exists v. split; auto. split; [lia|].
            simpl. split; [lia|tauto].
        - rewrite app_nil_r. split; auto. intros Hco. destruct (Hb Hco) as [Lb [Hread _]]. auto. }
      destruct (cols_visit_ok acp ari j (G j) [] (marker1, num, brow) Hj La (fun p => Ha j p Hj) Hv0) as [st1 [Ea Hv1]].
      { intros Hco. rewrite (HB Hco).
        pose proof (vis_fold_len j (colseq tcp tri j) (fold_left (vis j) (colseq acp ari j) [])) as Hl.
        fold (bcol acp ari tcp tri j) in Hl. fold (bc j) in Hl. rewrite HG in HGn.
        rewrite !app_length in *. lia. }
      rewrite Ea.
      destruct (cols_visit_ok tcp tri j (G j) _ st1 Hj Lt (fun p => Ht j p Hj) Hv1) as [[[marker2 num2] brow2] [Et Hv2]].
      { intros Hco. rewrite (HB Hco). fold (bcol acp ari tcp tri j). fold (bc j). rewrite <- HG. lia. }
      rewrite Et. fold (bcol acp ari tcp tri j) in Hv2. fold (bc j) in Hv2.
      destruct Hv2 as [Lm2 [Hm2 [Hnum2 Hb2]]]. rewrite <- HG in Hnum2, Hb2.
      exists (marker2, num2, brow2, bcp1). split; auto. split; auto. split.
      { intros k Hk. destruct (Hm2 k Hk) as [v [Ev [Hv _]]]. exists v. split; auto. lia. }
      split; auto. intros Hco. destruct (Hb2 Hco) as [Lb2 Hread2]. destruct (Hbcp1 Hco) as [Lb1 Hbcp1'].
      auto.
  Qed.
End Pass.

(* ------------------------------------------------------------------------------------------ *)
(* at_plus_a: totality and the pattern of the result                                          *)
Lemma flat_map_read : forall (L : list Z) a s, 0 <= s ->
  (forall t, (t < length L)%nat -> aget a (s + Z.of_nat t) = nth_error L t) ->
  flat_map (fun p => match aget a p with Some r => [r] | None => [] end) (zrange s (s + Z.of_nat (length L))) = L.
Proof.
  induction L as [|x L IH]; intros a s Hs H.
  - simpl. rewrite zrange_empty by lia. reflexivity.
  - replace (s + Z.of_nat (length (x :: L))) with (s + 1 + Z.of_nat (length L)) by (simpl length; lia).
    rewrite zrange_cons by lia. cbn [flat_map].
    pose proof (H 0%nat ltac:(simpl; lia)) as H0. simpl in H0. rewrite Z.add_0_r in H0. rewrite H0. cbn [app]. f_equal.
    apply IH; [lia|]. intros t Ht. specialize (H (S t) ltac:(simpl; lia)). cbn [nth_error] in H.
    rewrite <- H. f_equal. lia.
Qed.

Lemma colseq_in : forall cptr rind j i,
  (forall p, getd cptr j <= p < getd cptr (j + 1) -> exists r, aget rind p = Some r) ->
  (In i (colseq cptr rind j) <-> incsc cptr rind j i).
Proof.
  intros cptr rind j i H. unfold colseq, incsc. rewrite in_map_iff. split.
  - intros [p [E Hp]]. apply In_zrange in Hp. exists p. split; auto.
    destruct (H p Hp) as [r Er]. rewrite Er. f_equal. rewrite (getd_Some _ _ _ Er) in E. auto.
  - intros [p [Hp Er]]. exists p. split; [apply getd_Some; auto|apply In_zrange; auto].
Qed.

Lemma bpre_nth : forall acp ari tcp tri n j t, 0 <= j < n -> (t < length (bcol acp ari tcp tri j))%nat ->
  nth_error (bpre acp ari tcp tri n) (length (bpre acp ari tcp tri j) + t) = nth_error (bcol acp ari tcp tri j) t.
Proof.
  intros acp ari tcp tri n j t Hj Ht.
  assert (E : bpre acp ari tcp tri n = bpre acp ari tcp tri (j + 1) ++ concat (map (bcol acp ari tcp tri) (zrange (j + 1) n))).
  { unfold bpre. rewrite (zrange_split 0 (j + 1) n) by lia. now rewrite map_app, concat_app. }
  rewrite E, bpre_succ by lia. rewrite nth_error_app1 by (rewrite app_length; lia).
  rewrite nth_error_app2 by lia. f_equal. lia.
Qed.

Definition apa_post (n : Z) (colptr rowind : list Z) (bnz : Z) (bcp bri : list Z) : Prop :=
  alen bcp = n + 1 /\ alen bri = bnz /\ aget bcp 0 = Some 0 /\ aget bcp n = Some bnz /\
  (forall j, 0 <= j < n -> getd bcp j <= getd bcp (j + 1)) /\
  forall j, 0 <= j < n ->
    (forall p, getd bcp j <= p < getd bcp (j + 1) -> exists r, aget bri p = Some r /\ 0 <= r < n) /\
    NoDup (col_rows bcp (tl bcp) bri j) /\
    forall i, In i (col_rows bcp (tl bcp) bri j) <->
              (0 <= i < n /\ i <> j /\ (incsc colptr rowind j i \/ incsc colptr rowind i j)).

Lemma at_plus_a_ok : forall n colptr rowind, 0 <= n -> wf_csc_mono n colptr rowind ->
  exists bnz bcp bri, at_plus_a n (alen rowind) colptr rowind = Some (bnz, bcp, bri) /\
                      apa_post n colptr rowind bnz bcp bri.
Proof.
  intros n colptr rowind Hn Hwf. unfold at_plus_a.
  destruct (transpose_ok n colptr rowind Hn Hwf) as [mkr1 [tc0 [tc [mkr2 [tr [mkr3 [E1 [E0 [E2 [E3 [Ltc [T1 T2]]]]]]]]]]]].
  rewrite E1, E0, E2, E3.
  pose proof (Lcp n colptr rowind Hwf) as La.
  assert (Ha : forall j p, 0 <= j < n -> getd colptr j <= p < getd colptr (j + 1) -> exists r, aget rowind p = Some r /\ 0 <= r < n).
  { intros j p Hj Hp. apply (cp_rows n colptr rowind Hwf j p Hj Hp). }
  assert (Ht : forall j p, 0 <= j < n -> getd tc j <= p < getd tc (j + 1) -> exists r, aget tr p = Some r /\ 0 <= r < n).
  { intros j p Hj Hp. destruct (T1 j p Hj Hp) as [i [Ei [Hi _]]]. eauto. }
  set (G := bpre colptr rowind tc tr). set (bc := bcol colptr rowind tc tr).
  (* count *)
  destruct (apa_pass_ok n true 0 Hn colptr rowind tc tr La Ltc Ha Ht) with (brow0 := @nil Z) (bcp0 := @nil Z)
    as [[[[m1 bnz] br1] bc1] [Ec [_ [_ [Hbnz _]]]]]; try (intros Hf; discriminate Hf).
  rewrite Ec. fold G in Hbnz.
  (* fill *)
  destruct (apa_pass_ok n false bnz Hn colptr rowind tc tr La Ltc Ha Ht (fun _ => Hbnz))
    with (brow0 := mk bnz c_uninit) (bcp0 := mk (n + 1) c_uninit)
    as [[[[m2 num] bri] bcp] [Ef [_ [_ [Hnum Hfill]]]]].
  { intros _. rewrite !alen_mk. lia. }
  rewrite Ef. fold G in Hnum, Hfill. destruct (Hfill eq_refl) as [Lbri [Hread [Lbcp Hbcp]]].
  destruct (aset_total bcp n num) as [bcp1 Eb]; [lia|]. rewrite Eb.
  exists bnz, bcp1, bri. split; auto.
  assert (Hbcp1 : forall j, 0 <= j <= n -> aget bcp1 j = Some (Z.of_nat (length (G j)))).
  { intros j Hj. rewrite (aget_aset _ _ _ _ j Eb). destruct (j =? n) eqn:Ejn.
    - apply Z.eqb_eq in Ejn. subst j. now rewrite Hnum.
    - apply Z.eqb_neq in Ejn. apply Hbcp. lia. }
  assert (HGs : forall j, 0 <= j < n -> G (j + 1) = G j ++ bc j) by (intros; apply bpre_succ; lia).
  unfold apa_post. split; [rewrite (aset_len _ _ _ _ Eb); auto|]. split; auto.
  split; [rewrite Hbcp1 by lia; reflexivity|]. split; [rewrite Hbcp1 by lia; now rewrite Hbnz|].
  split.
  { intros j Hj. rewrite (getd_Some _ _ _ (Hbcp1 j ltac:(lia))), (getd_Some _ _ _ (Hbcp1 (j + 1) ltac:(lia))).
    rewrite HGs by auto. rewrite app_length. lia. }
  intros j Hj.
  assert (Ecol : col_rows bcp1 (tl bcp1) bri j = bc j).
  { unfold col_rows. rewrite aget_tl by lia. rewrite (Hbcp1 j), (Hbcp1 (j + 1)) by lia.
    rewrite HGs by auto. rewrite app_length, Nat2Z.inj_add. apply flat_map_read; [lia|].
    intros t Ht0. rewrite <- Nat2Z.inj_add. rewrite Hread.
    - apply bpre_nth; auto.
    - pose proof (bpre_len_mono colptr rowind tc tr (j + 1) n ltac:(lia)) as Hl. fold G in Hl.
      rewrite HGs in Hl by auto. rewrite app_length in Hl. fold bc in Ht0. lia. }
  assert (Hiff : forall i, In i (bc j) <-> (0 <= i < n /\ i <> j /\ (incsc colptr rowind j i \/ incsc colptr rowind i j))).
  { intros i. unfold bc, bcol. rewrite !vis_fold_in.
    rewrite (colseq_in colptr rowind j i) by (intros p Hp; destruct (Ha j p Hj Hp) as [r [Er _]]; eauto).
    rewrite (colseq_in tc tr j i) by (intros p Hp; destruct (Ht j p Hj Hp) as [r [Er _]]; eauto).
    assert (HT : incsc tc tr j i <-> (0 <= i < n /\ incsc colptr rowind i j)).
    { split.
      - intros [p [Hp Ep]]. destruct (T1 j p Hj Hp) as [i' [Ei' [Hi' Hin]]]. assert (i' = i) by congruence. subst i'. auto.
      - intros [Hi Hin]. destruct (T2 i j Hi Hin) as [_ [t [Ht0 Et]]]. exists t. auto. }
    rewrite HT. split.
    + intros [[[]|[Hne Hin]]|[Hne [Hi Hin]]].
      * split; [|auto]. destruct Hin as [p [Hp Ep]]. destruct (Ha j p Hj Hp) as [r [Er Hr]]. congruence.
      * auto.
    + intros [Hi [Hne [Hin|Hin]]]; auto. }
  rewrite Ecol. split; [|split].
  - intros p Hp. rewrite (getd_Some _ _ _ (Hbcp1 j ltac:(lia))), (getd_Some _ _ _ (Hbcp1 (j + 1) ltac:(lia))) in Hp.
    rewrite HGs in Hp by auto. rewrite app_length in Hp.
    set (t := Z.to_nat (p - Z.of_nat (length (G j)))).
    assert (Ht0 : (t < length (bc j))%nat) by (unfold t; lia).
    replace p with (Z.of_nat (length (G j) + t)) by (unfold t; lia). rewrite Hread.
    + unfold G. rewrite bpre_nth by auto. fold bc. destruct (nth_error (bc j) t) as [r|] eqn:En.
      * exists r. split; auto. apply nth_error_In in En. apply Hiff in En. tauto.
      * apply nth_error_None in En. lia.
    + pose proof (bpre_len_mono colptr rowind tc tr (j + 1) n ltac:(lia)) as Hl. fold G in Hl.
      rewrite HGs in Hl by auto. rewrite app_length in Hl. lia.
  - unfold bc, bcol. apply vis_fold_nodup. apply vis_fold_nodup. constructor.
  - exact Hiff.
Qed.

Theorem at_plus_a_total : forall n colptr rowind, 0 <= n -> wf_csc_mono n colptr rowind ->
  exists bnz b_colptr b_rowind, at_plus_a n (alen rowind) colptr rowind = Some (bnz, b_colptr, b_rowind).
Proof.
  intros n colptr rowind Hn Hwf. destruct (at_plus_a_ok n colptr rowind Hn Hwf) as [bnz [bcp [bri [E _]]]]. eauto.
Qed.

(* the pattern returned by at_plus_a is exactly the off-diagonal pattern of A + A^T, each entry once *)
Theorem at_plus_a_pattern : forall n colptr rowind bnz b_colptr b_rowind,
  0 <= n -> wf_csc_mono n colptr rowind ->
  at_plus_a n (alen rowind) colptr rowind = Some (bnz, b_colptr, b_rowind) ->
  wf_csc_mono n b_colptr b_rowind /\
  aget b_colptr 0 = Some 0 /\ aget b_colptr n = Some bnz /\ alen b_rowind = bnz /\
  forall j, 0 <= j < n ->
    NoDup (col_rows b_colptr (tl b_colptr) b_rowind j) /\
    forall i, memZ i (col_rows b_colptr (tl b_colptr) b_rowind j) = true <->
      (i <> j /\ (memZ i (col_rows colptr (tl colptr) rowind j) = true \/
                  memZ j (col_rows colptr (tl colptr) rowind i) = true)).
Proof.
  intros n colptr rowind bnz bcp bri Hn Hwf E.
  destruct (at_plus_a_ok n colptr rowind Hn Hwf) as [bnz' [bcp' [bri' [E' Hpost]]]].
  rewrite E in E'. inversion E'; subst bnz' bcp' bri'. clear E'.
  destruct Hpost as [Lb [Lr [H0 [Hnn [Hmono Hcols]]]]].
  pose proof (Lcp n colptr rowind Hwf) as La.
  split; [|split; [auto|split; [auto|split; [auto|]]]].
  - split.
    + split; auto. intros j Hj. exists (getd bcp j), (getd bcp (j + 1)).
      split; [apply getd_get; lia|]. split; [apply getd_get; lia|]. apply (Hcols j Hj).
    + intros j s e Hj Es Ee. rewrite <- (getd_Some _ _ _ Es), <- (getd_Some _ _ _ Ee). auto.
  - intros j Hj. destruct (Hcols j Hj) as [_ [Hnd Hiff]]. split; auto.
    intros i. rewrite !memZ_In, Hiff, !In_col_rows.
    rewrite (incol_incsc colptr rowind j i) by lia. split.
    + intros [Hi [Hne Hor]]. split; auto. rewrite (incol_incsc colptr rowind i j) by lia. auto.
    + intros [Hne [Hin|Hin]].
      * split; [|auto]. destruct Hin as [p [Hp Ep]].
        destruct (cp_rows n colptr rowind Hwf j p Hj Hp) as [r [Er Hr]]. congruence.
      * assert (Hi : 0 <= i < n).
        { destruct Hin as [s [e [p [Es [Ee _]]]]]. apply aget_Some_range in Es.
          rewrite aget_tl in Ee by lia. apply aget_Some_range in Ee. lia. }
        split; auto. split; auto. right. apply (incol_incsc colptr rowind i j); auto; lia.
Qed.

(* wf_csc alone is not enough: columns 0 and 2 share the positions 0,1 of rowind, the transpose needs 4
   entries but nz = alen rowind = 2, so t_rowind[pos] is written out of range *)
Example at_plus_a_needs_monotone :
  wf_csc 3 3 [0; 2; 0; 2] [0; 1] /\ at_plus_a 3 (alen [0; 1]) [0; 2; 0; 2] [0; 1] = None.
Proof.
  split; [|vm_compute; reflexivity]. split; [reflexivity|]. intros j Hj.
  assert (j = 0 \/ j = 1 \/ j = 2) as [-> | [-> | ->]] by lia.
  - exists 0, 2. repeat split; try reflexivity. intros p Hp.
    assert (p = 0 \/ p = 1) as [-> | ->] by lia; eexists; (split; [reflexivity|lia]).
  - exists 2, 0. repeat split; try reflexivity. intros p Hp. lia.
  - exists 0, 2. repeat split; try reflexivity. intros p Hp.
    assert (p = 0 \/ p = 1) as [-> | ->] by lia; eexists; (split; [reflexivity|lia]).
Qed.

(* duplicates and unsorted columns are fine *)
Example at_plus_a_dup_ex : at_plus_a 2 (alen [1; 1; 0; 1]) [0; 2; 4] [1; 1; 0; 1] = Some (2, [0; 1; 2], [1; 0]).
Proof. vm_compute. reflexivity. Qed.

(* ------------------------------------------------------------------------------------------ *)
(* sp_colorder, symmetric mode: B = A + A^T is permuted symmetrically in place, sp_symetree, restore *)
Section SymOrder.
  Variables (n bnz : Z) (bcp bri perm_c : list Z).
  Hypothesis Hn : 0 <= n.
  Hypothesis Hwf : wf_csc_mono n bcp bri.
  Hypothesis Hb0 : aget bcp 0 = Some 0.
  Hypothesis Hbn : aget bcp n = Some bnz.
  Hypothesis Lr : alen bri = bnz.
  Hypothesis Hperm : is_perm n perm_c.

  Let cb := getd bcp.
  Let rb := getd bri.
  Let pc := getd perm_c.

  Lemma pc_get : forall i, 0 <= i < n -> aget perm_c i = Some (pc i) /\ 0 <= pc i < n.
  Proof.
    intros i Hi. destruct (is_perm_inj_on _ _ Hperm) as [Hr _]. destruct (Hr i Hi) as [v [Ev Hv]].
    unfold pc. rewrite (getd_Some _ _ _ Ev). auto.
  Qed.

  Lemma pc_inj : forall i j, 0 <= i < n -> 0 <= j < n -> pc i = pc j -> i = j.
  Proof.
    intros i j Hi Hj E. destruct (is_perm_inj_on _ _ Hperm) as [_ Hinj].
    destruct (pc_get i Hi) as [Ei _]. destruct (pc_get j Hj) as [Ej _]. apply (Hinj i j (pc i)); auto. congruence.
  Qed.

  Lemma pc_surj : forall k, 0 <= k < n -> exists i, 0 <= i < n /\ pc i = k.
  Proof.
    intros k Hk. destruct (is_perm_surj n perm_c k Hperm Hk) as [i [Hi Ei]]. exists i. split; auto.
    unfold pc. apply getd_Some. auto.
  Qed.

  Lemma rb_get : forall i p, 0 <= i < n -> cb i <= p < cb (i + 1) -> aget bri p = Some (rb p) /\ 0 <= rb p < n.
  Proof.
    intros i p Hi Hp. destruct (cp_rows n bcp bri Hwf i p Hi Hp) as [r [Er Hr]].
    unfold rb. rewrite (getd_Some _ _ _ Er). auto.
  Qed.

  Variables ccb cce : list Z.
  Hypothesis Lccb : alen ccb = n.
  Hypothesis Lcce : alen cce = n.
  Hypothesis Hccb : forall i k, 0 <= i < n -> aget perm_c i = Some k -> aget ccb k = aget bcp (i + 0).
  Hypothesis Hcce : forall i k, 0 <= i < n -> aget perm_c i = Some k -> aget cce k = aget bcp (i + 1).

  Lemma ccb_get : forall i, 0 <= i < n -> aget ccb (pc i) = Some (cb i) /\ aget cce (pc i) = Some (cb (i + 1)).
  Proof.
    intros i Hi. destruct (pc_get i Hi) as [Ei _]. rewrite (Hccb i _ Hi Ei), (Hcce i _ Hi Ei).
    rewrite Z.add_0_r. split; apply (cp_get n bcp bri Hwf); lia.
  Qed.

  Definition pdone (j' q i p : Z) : bool := (pc i <? j') || ((pc i =? j') && (p <? q)).
  Definition pinv (j' q : Z) (br : list Z) : Prop :=
    alen br = bnz /\
    forall i p, 0 <= i < n -> cb i <= p < cb (i + 1) -> aget br p = Some (if pdone j' q i p then pc (rb p) else rb p).

  Lemma perm_loop_ok : forall iwork, alen iwork = n + 1 ->
    exists br1 iw1,
      ofold (fun '(br, iw) j =>
              s <- aget ccb j ;; e <- aget cce j ;;
              br1 <- ofold (fun br i => r <- aget br i ;; pr <- aget perm_c r ;; aset br i pr) (zrange s e) br ;;
              pj <- aget perm_c j ;;
              iw1 <- aset iw pj j ;;
              Some (br1, iw1))
           (zrange 0 n) (bri, iwork) = Some (br1, iw1) /\
      alen iw1 = n + 1 /\ alen br1 = bnz /\
      forall i p, 0 <= i < n -> cb i <= p < cb (i + 1) -> aget br1 p = Some (pc (rb p)).
  Proof.
    intros iwork Liw.
    destruct (ofold_zrange_inv
      (fun '(br, iw) j =>
         match aget ccb j with Some s => match aget cce j with Some e =>
           match ofold (fun br i => match aget br i with Some r => match aget perm_c r with Some pr => aset br i pr | None => None end | None => None end) (zrange s e) br with
           | Some br1 => match aget perm_c j with Some pj =>
               match aset iw pj j with Some iw1 => Some (br1, iw1) | None => None end | None => None end
           | None => None end | None => None end | None => None end)
      (fun j' (st : list Z * list Z) => let '(br, iw) := st in
         alen iw = n + 1 /\ alen br = bnz /\
         forall i p, 0 <= i < n -> cb i <= p < cb (i + 1) -> aget br p = Some (if pc i <? j' then pc (rb p) else rb p))
      0 n (bri, iwork)) as [[br1 iw1] [E [L1 [L2 H]]]]; auto.
    - split; auto. split; auto. intros i p Hi Hp. destruct (rb_get i p Hi Hp) as [Er _]. rewrite Er.
      destruct (pc_get i Hi) as [_ Hpi]. destruct (pc i <? 0) eqn:Elt; [apply Z.ltb_lt in Elt; lia|reflexivity].
    - intros j' [br iw] Hj' [Liw' [Lbr Hbr]].
      destruct (pc_surj j' Hj') as [i0 [Hi0 Ei0]]. destruct (ccb_get i0 Hi0) as [Es Ee]. rewrite Ei0 in Es, Ee.
      rewrite Es, Ee.
      pose proof (cp_step n bcp bri Hwf i0 Hi0) as Hst. fold cb in Hst.
      destruct (ofold_zrange_inv
        (fun br i => match aget br i with Some r => match aget perm_c r with Some pr => aset br i pr | None => None end | None => None end)
        (pinv j') (cb i0) (cb (i0 + 1)) br Hst) as [br' [E' [Lbr' Hbr']]].
      + split; auto. intros i p Hi Hp. rewrite (Hbr i p Hi Hp). unfold pdone.
        destruct (pc i =? j') eqn:Epi; [|now rewrite andb_false_l, orb_false_r].
        apply Z.eqb_eq in Epi. assert (i = i0) by (apply pc_inj; auto; congruence). subst i.
        assert (Hps : (p <? cb i0) = false) by (apply Z.ltb_ge; lia). now rewrite Hps, andb_false_r, orb_false_r.
      + intros q b Hq [Lb Hb]. rewrite (Hb i0 q Hi0 Hq). unfold pdone at 1.
        assert (E1 : (pc i0 <? j') = false) by (apply Z.ltb_ge; lia).
        assert (E2 : (q <? q) = false) by (apply Z.ltb_irrefl).
        rewrite E1, E2, andb_false_r. simpl.
        destruct (rb_get i0 q Hi0 Hq) as [Erq Hrq]. destruct (pc_get (rb q) Hrq) as [Epr _]. rewrite Epr.
        assert (Hqr : 0 <= q < alen b).
        { pose proof (Hb i0 q Hi0 Hq) as Hx. apply aget_Some_range in Hx. exact Hx. }
        destruct (aset_total b q (pc (rb q)) Hqr) as [b' Eb]. exists b'. split; auto.
        split; [rewrite (aset_len _ _ _ _ Eb); auto|]. intros i p Hi Hp. rewrite (aget_aset _ _ _ _ p Eb).
        destruct (p =? q) eqn:Epq.
        * apply Z.eqb_eq in Epq. subst p. assert (i = i0) by (eapply (col_unique n bcp bri Hwf); eauto). subst i.
          unfold pdone. rewrite Ei0, Z.eqb_refl. assert (E3 : (q <? q + 1) = true) by (apply Z.ltb_lt; lia).
          rewrite E3. simpl. now rewrite orb_true_r.
        * apply Z.eqb_neq in Epq. rewrite (Hb i p Hi Hp). unfold pdone.
          assert (E3 : (p <? q + 1) = (p <? q)).
          { destruct (p <? q) eqn:E4; [apply Z.ltb_lt in E4; apply Z.ltb_lt; lia|apply Z.ltb_ge in E4; apply Z.ltb_ge; lia]. }
          now rewrite E3.
      + rewrite E'. destruct (pc_get j' Hj') as [Epj Hpj]. rewrite Epj.
        destruct (aset_total iw (pc j') j') as [iw' Eiw]; [lia|]. rewrite Eiw.
        exists (br', iw'). split; auto. split; [rewrite (aset_len _ _ _ _ Eiw); auto|]. split; auto.
        intros i p Hi Hp. rewrite (Hbr' i p Hi Hp). unfold pdone.
        destruct (pc i <? j' + 1) eqn:E3.
        * apply Z.ltb_lt in E3. destruct (pc i <? j') eqn:E4; [reflexivity|]. apply Z.ltb_ge in E4.
          assert (E5 : (pc i =? j') = true) by (apply Z.eqb_eq; lia). rewrite E5. simpl.
          assert (i = i0) by (apply pc_inj; auto; lia). subst i.
          assert (E6 : (p <? cb (i0 + 1)) = true) by (apply Z.ltb_lt; lia). now rewrite E6.
        * apply Z.ltb_ge in E3. assert (E4 : (pc i <? j') = false) by (apply Z.ltb_ge; lia).
          assert (E5 : (pc i =? j') = false) by (apply Z.eqb_neq; lia). now rewrite E4, E5.
    - exists br1, iw1. split; auto. split; auto. split; auto. intros i p Hi Hp. rewrite (H i p Hi Hp).
      destruct (pc_get i Hi) as [_ Hpi]. assert (E3 : (pc i <? n) = true) by (apply Z.ltb_lt; lia). now rewrite E3.
  Qed.
  Lemma sym_loops_ok : forall iwork, alen iwork = n + 1 ->
    exists br1 iw1,
      ofold (fun '(br, iw) j =>
              s <- aget ccb j ;; e <- aget cce j ;;
              br1 <- ofold (fun br i => r <- aget br i ;; pr <- aget perm_c r ;; aset br i pr) (zrange s e) br ;;
              pj <- aget perm_c j ;;
              iw1 <- aset iw pj j ;;
              Some (br1, iw1))
           (zrange 0 n) (bri, iwork) = Some (br1, iw1) /\
      alen iw1 = n + 1 /\ wf_pat n n ccb cce br1 /\
      (forall i j, 0 <= i < n -> 0 <= j < n -> (incol ccb cce br1 (pc j) (pc i) <-> incsc bcp bri j i)) /\
      exists restored,
        ofold (fun br i => r <- aget br i ;; v <- aget iw1 r ;; aset br i v) (zrange 0 bnz) br1 = Some restored.
  Proof.
    intros iwork Liw. destruct (perm_loop_ok iwork Liw) as [br1 [iw1 [E [Liw1 [Lbr1 Hbr1]]]]].
    exists br1, iw1. split; auto. split; auto. split; [|split].
    - split; auto. split; auto. intros k Hk. destruct (pc_surj k Hk) as [i [Hi Ei]].
      destruct (ccb_get i Hi) as [Es Ee]. rewrite Ei in Es, Ee. exists (cb i), (cb (i + 1)). split; auto. split; auto.
      intros p Hp. exists (pc (rb p)). split; [apply (Hbr1 i p Hi Hp)|].
      destruct (rb_get i p Hi Hp) as [_ Hr]. apply pc_get. auto.
    - intros i j Hi Hj. destruct (ccb_get j Hj) as [Es Ee]. split.
      + intros [s [e [p [Es' [Ee' [Hp Er]]]]]]. rewrite Es in Es'. rewrite Ee in Ee'. inversion Es'; inversion Ee'; subst s e.
        rewrite (Hbr1 j p Hj Hp) in Er. destruct (rb_get j p Hj Hp) as [Eb Hr].
        assert (rb p = i) by (apply pc_inj; auto; congruence). subst i. exists p. auto.
      + intros [p [Hp Er]]. fold cb in Hp. exists (cb j), (cb (j + 1)), p. split; auto. split; auto. split; auto.
        rewrite (Hbr1 j p Hj Hp). do 2 f_equal. unfold rb. apply getd_Some. auto.
    - assert (Hall : forall p, 0 <= p < bnz -> exists r, aget br1 p = Some r /\ 0 <= r < n).
      { intros p Hp. destruct (pos_col n bcp Hn p) as [i [Hi Hpi]].
        { rewrite (getd_Some _ _ _ Hb0), (getd_Some _ _ _ Hbn). exact Hp. }
        exists (pc (rb p)). split; [apply (Hbr1 i p Hi Hpi)|].
        destruct (rb_get i p Hi Hpi) as [_ Hr]. apply pc_get. auto. }
      assert (Hbnz : 0 <= bnz) by (rewrite <- Lr; apply alen_nonneg).
      destruct (ofold_zrange_inv
        (fun br i => match aget br i with Some r => match aget iw1 r with Some v => aset br i v | None => None end | None => None end)
        (fun i br => alen br = bnz /\ forall p, i <= p < bnz -> aget br p = aget br1 p) 0 bnz br1 Hbnz)
        as [restored [Er _]]; [split; auto| |eauto].
      intros i br Hi [Lbr Hbr]. rewrite (Hbr i) by lia. destruct (Hall i Hi) as [r [Er Hr]]. rewrite Er.
      destruct (aget_range_Some iw1 r) as [v Ev]; [lia|]. rewrite Ev.
      destruct (aset_total br i v) as [br' Eb]; [lia|]. exists br'. split; auto.
      split; [rewrite (aset_len _ _ _ _ Eb); auto|]. intros p Hp. rewrite (aget_aset_other _ _ _ _ p Eb) by lia.
      apply Hbr. lia.
  Qed.
End SymOrder.

Lemma colorder_symetree_ok : forall n colptr rowind perm_c iwork,
  0 <= n -> wf_csc_mono n colptr rowind -> is_perm n perm_c -> alen iwork = n + 1 ->
  exists ccb cce br1 iw1,
    colorder_symetree n colptr rowind perm_c iwork = Some (symetree_spec ccb cce br1 n, iw1) /\
    alen iw1 = n + 1 /\ wf_pat n n ccb cce br1 /\ forest n (symetree_spec ccb cce br1 n) /\
    forall i j, 0 <= i < n -> 0 <= j < n ->
      (incol ccb cce br1 (getd perm_c j) (getd perm_c i) <->
       (i <> j /\ (incsc colptr rowind j i \/ incsc colptr rowind i j))).
Proof.
  intros n colptr rowind perm_c iwork Hn Hwf Hperm Liw. unfold colorder_symetree.
  destruct (at_plus_a_ok n colptr rowind Hn Hwf) as [bnz [bcp [bri [E Hpost]]]].
  destruct (at_plus_a_pattern n colptr rowind bnz bcp bri Hn Hwf E) as [HwfB [Hb0 [Hbn [Lr _]]]].
  rewrite E. pose proof (Lcp n bcp bri HwfB) as Lb.
  destruct (scatter_colptr n perm_c bcp 0 Hn ltac:(lia) Lb Hperm) as [ccb [E1 [L1 H1]]]. rewrite E1.
  destruct (scatter_colptr n perm_c bcp 1 Hn ltac:(lia) Lb Hperm) as [cce [E2 [L2 H2]]]. rewrite E2.
  destruct (sym_loops_ok n bnz bcp bri perm_c Hn HwfB Hb0 Hbn Lr Hperm ccb cce L1 L2 H1 H2 iwork Liw)
    as [br1 [iw1 [E3 [Liw1 [Hwfp [Hinc [restored E4]]]]]]].
  rewrite E3. rewrite (sp_symetree_is_spec n ccb cce br1 Hn Hwfp). rewrite E4.
  exists ccb, cce, br1, iw1. split; auto. split; auto. split; auto. split.
  - destruct (sp_symetree_forest n ccb cce br1 Hn Hwfp) as [parent [Ep Hf]].
    rewrite (sp_symetree_is_spec n ccb cce br1 Hn Hwfp) in Ep. inversion Ep; subst. auto.
  - intros i j Hi Hj. rewrite (Hinc i j Hi Hj).
    destruct Hpost as [_ [_ [_ [_ [_ Hcols]]]]]. destruct (Hcols j Hj) as [_ [_ Hiff]].
    rewrite <- (incol_incsc bcp bri j i) by lia. rewrite <- In_col_rows. rewrite Hiff. tauto.
Qed.

(* ------------------------------------------------------------------------------------------ *)
(* sp_colorder, symmetric mode: totality and the conclusions of colorder_post                  *)
Lemma colorder_sym_main : forall m n colptr rowind perm_c,
  0 <= n -> wf_csc_mono n colptr rowind -> is_perm n perm_c ->
  exists out ccb cce br1,
    colorder true m n colptr rowind perm_c = Some out /\
    wf_pat n n ccb cce br1 /\ forest n (symetree_spec ccb cce br1 n) /\
    (forall i j, 0 <= i < n -> 0 <= j < n ->
      (incol ccb cce br1 (getd perm_c j) (getd perm_c i) <->
       (i <> j /\ (incsc colptr rowind j i \/ incsc colptr rowind i j)))) /\
    colorder_post n colptr perm_c (symetree_spec ccb cce br1 n) out.
Proof.
  intros m n colptr rowind perm_c Hn Hwf Hperm. rewrite colorder_unfold.
  pose proof (Lcp n colptr rowind Hwf) as La.
  destruct (scatter_colptr n perm_c colptr 0 Hn ltac:(lia) La Hperm) as [cb0 [E1 [L1 H1]]]. rewrite E1.
  destruct (scatter_colptr n perm_c colptr 1 Hn ltac:(lia) La Hperm) as [ce0 [E2 [L2 H2]]]. rewrite E2.
  destruct (colorder_symetree_ok n colptr rowind perm_c (mk (n + 1) c_uninit) Hn Hwf Hperm)
    as [ccb [cce [br1 [iw1 [E3 [Liw1 [Hwfp [Hfor Hinc]]]]]]]]; [rewrite alen_mk; lia|].
  rewrite E3.
  destruct (colorder_from_tail n colptr perm_c (symetree_spec ccb cce br1 n) cb0 ce0 iw1 Hn La Hperm Hfor Liw1 L1 L2 H1 H2)
    as [out [E4 Hpost]].
  exists out, ccb, cce, br1. auto.
Qed.

(* (1) totality: for EVERY well-formed square pattern with non-decreasing column pointers and EVERY
   bijection perm_c, symmetric-mode sp_colorder returns a result, with the conclusions of colorder_post *)
Theorem colorder_sym_total : forall m n colptr rowind perm_c,
  0 <= n -> wf_csc_mono n colptr rowind -> is_perm n perm_c ->
  exists out et0,
    colorder true m n colptr rowind perm_c = Some out /\ forest n et0 /\ colorder_post n colptr perm_c et0 out.
Proof.
  intros m n colptr rowind perm_c Hn Hwf Hperm.
  destruct (colorder_sym_main m n colptr rowind perm_c Hn Hwf Hperm) as [out [ccb [cce [br1 [E [_ [Hfor [_ Hpost]]]]]]]].
  exists out, (symetree_spec ccb cce br1 n). auto.
Qed.

Lemma memZ_incsc : forall n colptr rowind j i, 0 <= j < n -> alen colptr = n + 1 ->
  (memZ i (col_rows colptr (tl colptr) rowind j) = true <-> incsc colptr rowind j i).
Proof.
  intros n colptr rowind j i Hj L. rewrite memZ_In, In_col_rows. apply incol_incsc; lia.
Qed.

(* (3) the etree reported in symmetric mode is the definitional elimination tree (symetree_spec) of
   Pc (A + A^T) Pc^T for the FINAL Pc = perm_out: it equals symetree_spec of every pattern
   (cb', ce', ar') whose column perm_out[j] stores row perm_out[i] iff i <> j and (A_ij or A_ji stored);
   moreover (first part) the model computes its intermediate etree et0 as symetree_spec of the
   concrete arrays (ccb, cce, br) holding Pc_in (A + A^T) Pc_in^T. *)
Theorem colorder_sym_etree_is_spec : forall m n colptr rowind perm_c,
  0 <= n -> wf_csc_mono n colptr rowind -> is_perm n perm_c ->
  exists colbeg colend perm_out etree ccb cce br,
    colorder true m n colptr rowind perm_c = Some (colbeg, colend, perm_out, etree) /\
    is_perm n perm_out /\
    (* the intermediate pattern and tree *)
    wf_pat n n ccb cce br /\
    (forall i j pi pj, 0 <= i < n -> 0 <= j < n -> aget perm_c i = Some pi -> aget perm_c j = Some pj ->
       (memZ pi (col_rows ccb cce br pj) = true <->
        (i <> j /\ (memZ i (col_rows colptr (tl colptr) rowind j) = true \/
                    memZ j (col_rows colptr (tl colptr) rowind i) = true)))) /\
    colorder_post n colptr perm_c (symetree_spec ccb cce br n) (colbeg, colend, perm_out, etree) /\
    (* the reported tree *)
    forall cb' ce' ar',
      (forall i j qi qj, 0 <= i < n -> 0 <= j < n -> aget perm_out i = Some qi -> aget perm_out j = Some qj ->
         (memZ qi (col_rows cb' ce' ar' qj) = true <->
          (i <> j /\ (memZ i (col_rows colptr (tl colptr) rowind j) = true \/
                      memZ j (col_rows colptr (tl colptr) rowind i) = true)))) ->
      etree = symetree_spec cb' ce' ar' n.
Proof.
  intros m n colptr rowind perm_c Hn Hwf Hperm.
  destruct (colorder_sym_main m n colptr rowind perm_c Hn Hwf Hperm)
    as [[[[cb' ce'] perm'] et'] [ccb [cce [br1 [Eco [Hwfp [Hfor0 [Hinc Hpost]]]]]]]].
  pose proof (Lcp n colptr rowind Hwf) as La.
  pose proof (is_perm_inj_on _ _ Hperm) as [Hpr Hpi].
  exists cb', ce', perm', et', ccb, cce, br1. split; auto.
  pose proof Hpost as [Etp [Hpp [Hpo [Hcomp [Lcb' [Lce' [Hcols' [Hren [Hfor' _]]]]]]]]].
  split; auto. split; auto. split.
  { intros i j pi pj Hi Hj Ei Ej. rewrite memZ_In, In_col_rows.
    rewrite <- (getd_Some _ _ _ Ei), <- (getd_Some _ _ _ Ej). rewrite (Hinc i j Hi Hj).
    rewrite (memZ_incsc n colptr rowind j i Hj La), (memZ_incsc n colptr rowind i j Hi La). tauto. }
  split; auto.
  intros cb2 ce2 ar2 HU.
  set (et0 := symetree_spec ccb cce br1 n) in *.
  set (post := firstn (Z.to_nat n) (postv n et0)) in *.
  pose proof (is_perm_inj_on _ _ Hpp) as [Hsr Hsi].
  set (sg := fun i => match aget post i with Some v => v | None => 0 end).
  assert (Hsg : forall i, 0 <= i < n -> aget post i = Some (sg i) /\ 0 <= sg i < n).
  { intros i Hi. destruct (Hsr i Hi) as [v [Ev Hv]]. unfold sg. rewrite Ev. auto. }
  assert (Hsg_pos : forall i, 0 <= i < n -> sg i = pos n et0 i).
  { intros i Hi. destruct (Hsg i Hi) as [E1 _]. unfold post in E1. rewrite aget_firstn in E1 by lia.
    rewrite (postv_get n et0 Hn Hfor0) in E1 by lia. congruence. }
  assert (Hsg_inj : forall i j, 0 <= i < n -> 0 <= j < n -> sg i = sg j -> i = j).
  { intros i j Hi Hj E. destruct (Hsg i Hi) as [E1 _]. destruct (Hsg j Hj) as [E2 _].
    apply (Hsi i j (sg i)); auto. congruence. }
  assert (Hsg_surj : forall j, 0 <= j < n -> exists i, 0 <= i < n /\ sg i = j).
  { intros j Hj. destruct (is_perm_surj n post j Hpp Hj) as [i [Hi Ei]]. exists i. split; auto.
    destruct (Hsg i Hi) as [E1 _]. congruence. }
  set (g := upper_graph n ccb cce br1). set (g' := upper_graph n cb2 ce2 ar2).
  assert (Hlen : length g = Z.to_nat n) by (apply gu_length; auto).
  assert (Hsq : square g) by (apply gu_square; auto).
  assert (Hsym : gsym g) by (apply gu_sym; auto).
  assert (Hlen' : length g' = Z.to_nat n) by (apply gu_length; auto).
  assert (Hsq' : square g') by (apply gu_square; auto).
  assert (Hsym' : gsym g') by (apply gu_sym; auto).
  assert (Eet0 : et0 = etree_of_graph g) by reflexivity.
  assert (HPz : forall j, 0 <= j < n -> aget et0 j = Some (Pz g j)).
  { intros j Hj. unfold Pz. rewrite <- Eet0. rewrite aget_nth_error by lia. apply nth_error_nth'.
    destruct Hfor0 as [Hl _]. unfold alen in Hl. lia. }
  assert (Hre : forall j, 0 <= j < n -> Pz g' (sg j) = if Pz g j =? n then n else sg (Pz g j)).
  { apply (reorder_parent n (Eg g) (Fz g) (Eg g') (Fz g') (Pz g) (Pz g') sg).
    - apply (I_Fsym n g Hlen Hsq Hsym).
    - apply (I_EF n g Hlen Hsq Hsym).
    - apply (I_Fclos n g Hlen Hsq Hsym).
    - apply (I_Forig n g Hlen Hsq Hsym).
    - apply (I_Pspec n g Hlen Hsq Hsym).
    - apply (I_Fsym n g' Hlen' Hsq' Hsym').
    - apply (I_EF n g' Hlen' Hsq' Hsym').
    - apply (I_Fclos n g' Hlen' Hsq' Hsym').
    - apply (I_Forig n g' Hlen' Hsq' Hsym').
    - apply (I_Pspec n g' Hlen' Hsq' Hsym').
    - intros i Hi. apply Hsg; auto.
    - exact Hsg_inj.
    - exact Hsg_surj.
    - intros j Hj Hp. rewrite !Hsg_pos by (auto; destruct (I_Pspec n g Hlen Hsq Hsym j Hj) as [? _]; lia).
      apply (pos_parent n et0 Hn Hfor0 j (Pz g j) Hj). apply HPz; auto.
    - intros a b Ha Hb.
      destruct (is_perm_surj n perm_c a Hperm Ha) as [i [Hi Ei]].
      destruct (is_perm_surj n perm_c b Hperm Hb) as [j [Hj Ej]].
      destruct (Hsg a Ha) as [Esa Hsa]. destruct (Hsg b Hb) as [Esb Hsb].
      assert (Eqi : aget perm' i = Some (sg a)).
      { destruct (Hcomp i Hi) as [pj [Epj [_ Ev]]]. assert (pj = a) by congruence. subst pj. congruence. }
      assert (Eqj : aget perm' j = Some (sg b)).
      { destruct (Hcomp j Hj) as [pj [Epj [_ Ev]]]. assert (pj = b) by congruence. subst pj. congruence. }
      pose proof (HU i j (sg a) (sg b) Hi Hj Eqi Eqj) as U1. pose proof (HU j i (sg b) (sg a) Hj Hi Eqj Eqi) as U2.
      rewrite memZ_In, In_col_rows in U1, U2.
      rewrite (memZ_incsc n colptr rowind j i Hj La), (memZ_incsc n colptr rowind i j Hi La) in U1, U2.
      pose proof (Hinc i j Hi Hj) as V1. pose proof (Hinc j i Hj Hi) as V2.
      rewrite (getd_Some _ _ _ Ei), (getd_Some _ _ _ Ej) in V1, V2.
      unfold Eg. unfold g, g'. rewrite (gu_edge n cb2 ce2 ar2 (sg a) (sg b)) by auto.
      rewrite (gu_edge n ccb cce br1 a b) by auto. rewrite U1, U2, V1, V2.
      destruct (Z.eq_dec i j) as [Eij|Nij].
      + split; intros [[_ [H _]]|[_ [H _]]]; congruence.
      + assert (Nji : j <> i) by (intros E; apply Nij; symmetry; exact E).
        assert (Nab : a <> b) by (intros ->; apply Nij; apply (Hpi i j b); auto).
        assert (Nsab : sg a <> sg b) by (intros E; apply Nab; apply Hsg_inj; auto).
        assert (Hord : forall x y : Z, x <> y -> x < y \/ y < x).
        { intros x y Hxy. destruct (Z.lt_trichotomy x y) as [H|[H|H]]; [left; exact H|contradiction|right; exact H]. }
        assert (Hsw : forall X Y : Prop, X \/ Y -> Y \/ X) by (intros X Y [H|H]; [right|left]; exact H).
        split; intros [[_ [_ H]]|[_ [_ H]]].
        * destruct (Hord a b Nab) as [Hl|Hl]; [left|right]; (split; [exact Hl|split; [assumption|]]);
            [exact H|apply Hsw; exact H].
        * destruct (Hord a b Nab) as [Hl|Hl]; [left|right]; (split; [exact Hl|split; [assumption|]]);
            [apply Hsw; exact H|exact H].
        * destruct (Hord (sg a) (sg b) Nsab) as [Hl|Hl]; [left|right]; (split; [exact Hl|split; [assumption|]]);
            [exact H|apply Hsw; exact H].
        * destruct (Hord (sg a) (sg b) Nsab) as [Hl|Hl]; [left|right]; (split; [exact Hl|split; [assumption|]]);
            [apply Hsw; exact H|exact H]. }
  unfold symetree_spec. fold g'.
  apply (parent_is_spec n g' et'); auto.
  - apply (Pz_list n g' Hlen' Hsq' Hsym').
  - destruct Hfor' as [Hl _]. auto.
  - intros k Hk. destruct (Hsg_surj k Hk) as [j [Hj <-]].
    destruct (Hren j Hj) as [e [pi [Ee [Epi Eet]]]].
    destruct (Hsg j Hj) as [Esj _]. assert (pi = sg j) by congruence. subst pi.
    assert (e = Pz g j) by (rewrite (HPz j Hj) in Ee; congruence). subst e.
    rewrite Eet, (Hre j Hj).
    destruct (Pz g j =? n) eqn:Epn; auto.
    apply Z.eqb_neq in Epn. destruct (I_Pspec n g Hlen Hsq Hsym j Hj) as [Hp _].
    destruct (Hsg (Pz g j) ltac:(lia)) as [Es _]. exact Es.
Qed.

(* non-vacuity: the 5 x 5 pattern of EtreeColorderProofs.colorder_ex_wf satisfies the hypotheses; its
   A + A^T (off-diagonal) computed by the model; the symmetric-mode run is colorder_ex_run *)
Example sym_ex_wf : wf_csc_mono 5 [0; 1; 4; 5; 7; 9] [0; 0; 1; 4; 2; 0; 3; 1; 4] /\ is_perm 5 [4; 3; 1; 2; 0].
Proof.
  destruct colorder_ex_wf as [H1 H2]. split; auto. split; auto.
  intros j s e Hj Es Ee.
  assert (j = 0 \/ j = 1 \/ j = 2 \/ j = 3 \/ j = 4) as [-> | [-> | [-> | [-> | ->]]]] by lia;
    vm_compute in Es, Ee; inversion Es; inversion Ee; subst; lia.
Qed.
Example sym_ex_apa :
  at_plus_a 5 (alen [0; 0; 1; 4; 2; 0; 3; 1; 4]) [0; 1; 4; 5; 7; 9] [0; 0; 1; 4; 2; 0; 3; 1; 4]
  = Some (6, [0; 2; 4; 4; 5; 6], [1; 3; 0; 4; 0; 1]).
Proof. vm_compute. reflexivity. Qed.

Print Assumptions at_plus_a_total.
Print Assumptions at_plus_a_pattern.
Print Assumptions colorder_sym_total.
Print Assumptions colorder_sym_etree_is_spec.
