(* PivotModel.v -- the pivot choice of p?gstrf_pivotL (SRC/p?gstrf_pivotL.c) as a pure function.
   A candidate is (row subscript, magnitude); magnitudes are the |.| values the C code compares (fabs, or
   z_abs1/c_abs1 for complex), scaled by a common power of two so that they are integers -- every comparison the
   code performs is invariant under that scaling.  thr is the (equally scaled) value of `thresh = u * pivmax`
   as computed by the C code. *)
From Coq Require Import ZArith List Bool Lia.
Import ListNotations.
Local Open Scope Z_scope.

Definition EMPTYZ : Z := -1.

(* the search loop: for (isub = nsupc; isub < nsupr; ++isub) {...}; indices are relative to nsupc *)
Fixpoint scan (c : list (Z * Z)) (i : nat) (usepr : bool) (oldrow diagind : Z)
              (pivmax : Z) (pivptr : nat) (old_pivptr : option nat) (diag : option nat) : Z * nat * option nat * option nat :=
  match c with
  | [] => (pivmax, pivptr, old_pivptr, diag)
  | (row, mag) :: r =>
      let '(pivmax', pivptr') := if pivmax <? mag then (mag, i) else (pivmax, pivptr) in
      let old' := if usepr && (row =? oldrow) then Some i else old_pivptr in
      let diag' := if row =? diagind then Some i else diag in
      scan r (S i) usepr oldrow diagind pivmax' pivptr' old' diag'
  end.

Definition mag_at (c : list (Z * Z)) (i : nat) : Z := snd (nth i c (EMPTYZ, 0)).
Definition row_at (c : list (Z * Z)) (i : nat) : Z := fst (nth i c (EMPTYZ, 0)).

Record pivres := mkPR { pr_ptr : nat; pr_row : Z; pr_usepr : bool; pr_singular : bool }.

(* usepr: reuse of the old pivot requested; oldrow = inv_perm_r[jcol]; diagind = inv_perm_c[jcol] *)
Definition pivotL (c : list (Z * Z)) (usepr : bool) (oldrow diagind : Z) (thr : Z) : pivres :=
  let '(pivmax, pivptr, old_pivptr, diag) := scan c 0 usepr oldrow diagind 0 0%nat None None in
  if pivmax =? 0 then mkPR pivptr (if Nat.ltb pivptr (length c) then row_at c pivptr else diagind) false true
  else
    let '(pivptr1, usepr1) :=
      if usepr then
        match old_pivptr with
        | Some o => if negb (mag_at c o =? 0) && (thr <=? mag_at c o) then (o, true) else (pivptr, false)
        | None => (pivptr, false)          (* the requested pivot row is not a candidate *)
        end
      else (pivptr, false) in
    if usepr1 then mkPR pivptr1 oldrow true false
    else
      let pivptr2 := match diag with
                     | Some d => if negb (mag_at c d =? 0) && (thr <=? mag_at c d) then d else pivptr1
                     | None => pivptr1
                     end in
      mkPR pivptr2 (row_at c pivptr2) false false.

(* the largest magnitude *)
Fixpoint maxmag (c : list (Z * Z)) : Z := match c with [] => 0 | (_, m) :: r => Z.max m (maxmag r) end.
