(* GeorgeNg.v -- George & Ng (1985): with partial pivoting (arbitrary row interchanges) the structures of L and U are
   bounded by the structure of the Cholesky factor of A^T A.  This is the bound that SuperLU's column preordering
   (order the columns of A by a fill-reducing ordering of A^T A) and its storage prediction rest on.

   Everything is on boolean patterns  pat = nat -> nat -> bool  of SymFill.v (true = structurally nonzero), size n.

     ata n P            pattern of A^T A:  (i,j) present iff some row r < n has entries in columns i and j
     pelim piv k P      k steps of Gaussian elimination WITH row interchanges: at step k' swap rows k' and piv k' of
                        the WHOLE current pattern (LAPACK / "PA = LU" storage: the multipliers already computed travel
                        with their rows), then estep k'.  pelim piv n P is L+U in the final pivoted row numbering.
     phat piv k P       the same elimination, but the interchange at step k' only touches columns >= k' (George & Ng's
                        storage  A = P1 L1 P2 L2 ... U : a multiplier stays in the row position where it was created).
                        pelim and phat agree on U and on the whole active part; column j of L in pelim is a
                        permutation (of the rows below the diagonal) of column j of L^ in phat.
     rowmerge n k P     George & Ng's symbolic row-merge scheme: at step k' every candidate row (row >= k' with an entry
                        in column k') receives the union of the structures of all candidate rows.
     elim n (ata n P)   L_c + L_c^T, the symbolic Cholesky factor of A^T A (SymFill.elim on a symmetric pattern).

   RESULTS (all closed under the global context)
     george_ng_U        struct(U) is inside struct(L_c^T)  -- NO hypothesis on the diagonal is needed.
     phat_in_rowmerge   zero-free diagonal: after every step k <= n, the whole array (L^ and U and the active part) is
                        inside the row-merge pattern                                       (the row-merge invariant).
     rowmerge_in_fill   zero-free diagonal: the row-merge pattern is inside L_c + L_c^T.
     george_ng_Lhat     zero-free diagonal: struct(L^) is inside struct(L_c)  (positions = positions at creation).
     george_ng_colcount zero-free diagonal: every column of the final L (pelim) has at most as many entries as the
                        corresponding column of L_c (and of the row-merge matrix).
     george_ng_stage    the same at every stage k <= n, against the graph of A^T A with its first k vertices eliminated.
     george_ng          the conjunction.
     rowclique_all      (the engine of the U part) after k steps every row >= k of the reduced matrix is a clique of
                        elim k (ata n P); candidates_merge is the elementary "union of the candidates" step.
   WHERE THE ZERO-FREE DIAGONAL IS USED: only to tie ROW POSITION i to COLUMN i (row i owns vertex i of the column
   intersection graph): in rm_inv_init (position i belongs to the clique of row i) and in phat_sub_rowmerge (row k is
   always a candidate at step k of the row-merge scheme).  U needs no such tie because a row of U is indexed by the
   column it eliminates.  REMARK (not proved here): the column-count bound does not depend on row positions, so it
   should survive for any structurally nonsingular pattern by first permuting a transversal onto the diagonal.
   and the Examples at the end show: the definitions compute (3x3 with an interchange); the positional bound FAILS for
   the final L of pelim even with a zero-free diagonal (later interchanges move multipliers); the zero-free diagonal IS
   needed for the L^ bound (3x3 counterexample; an exhaustive check shows that no 2x2 counterexample exists). *)
From Coq Require Import Arith Bool List Lia Permutation FinFun.
From SLU Require Import SymFill.
Import ListNotations.

(* ------------------------------------------------------------------------------------------------------------------ *)
(* definitions                                                                                                        *)
(* ------------------------------------------------------------------------------------------------------------------ *)

Definition ata (n : nat) (P : pat) : pat :=
  fun i j => existsb (fun r => P r i && P r j) (seq 0 n).

(* the transposition (a b) *)
Definition tr (a b i : nat) : nat := if i =? a then b else if i =? b then a else i.

Definition swaprows (a b : nat) (P : pat) : pat := fun i j => P (tr a b i) j.
(* interchange rows a and b in columns >= a only *)
Definition swaptail (a b : nat) (P : pat) : pat := fun i j => if a <=? j then P (tr a b i) j else P i j.

Fixpoint pelim (piv : nat -> nat) (k : nat) (P : pat) : pat :=
  match k with O => P | S k' => estep k' (swaprows k' (piv k') (pelim piv k' P)) end.

Fixpoint phat (piv : nat -> nat) (k : nat) (P : pat) : pat :=
  match k with O => P | S k' => estep k' (swaptail k' (piv k') (phat piv k' P)) end.

(* piv k is a legal pivot row at step k: not above the diagonal, inside the matrix, entry present *)
Definition admissible (n : nat) (piv : nat -> nat) (P : pat) : Prop :=
  forall k, k < n -> k <= piv k < n /\ pelim piv k P (piv k) k = true.

Definition zero_free_diag (n : nat) (P : pat) : Prop := forall i, i < n -> P i i = true.

(* George & Ng's row-merge step *)
Definition rmstep (n k : nat) (M : pat) : pat :=
  fun i j => M i j ||
    ((k <=? i) && (k <=? j) && M i k && existsb (fun r => (k <=? r) && M r k && M r j) (seq 0 n)).

Fixpoint rowmerge (n k : nat) (P : pat) : pat :=
  match k with O => P | S k' => rmstep n k' (rowmerge n k' P) end.

(* ------------------------------------------------------------------------------------------------------------------ *)
(* basic facts                                                                                                        *)
(* ------------------------------------------------------------------------------------------------------------------ *)

Lemma ata_true n P i j : ata n P i j = true <-> exists r, r < n /\ P r i = true /\ P r j = true.
Proof.
  unfold ata. rewrite existsb_exists. split.
  - intros [r [Hin H]]. apply in_seq in Hin. apply andb_true_iff in H. exists r. split; [lia|exact H].
  - intros [r [Hr [H1 H2]]]. exists r. split; [apply in_seq; lia|rewrite H1, H2; reflexivity].
Qed.

Lemma ata_symmetric n P : symmetric (ata n P).
Proof.
  intros i j. apply eq_iff_eq_true. rewrite !ata_true.
  split; intros [r [H [H1 H2]]]; exists r; auto.
Qed.

Lemma fill_symmetric n k P : symmetric (elim k (ata n P)).
Proof. apply elim_symmetric, ata_symmetric. Qed.

Lemma elim_le k m P : k <= m -> sub (elim k P) (elim m P).
Proof.
  induction 1 as [|m _ IH]; [apply sub_refl|]. intros i j H. cbn [elim]. apply estep_incr, IH, H.
Qed.

Lemma estep_true k P i j :
  estep k P i j = true <-> P i j = true \/ (k < i /\ k < j /\ P i k = true /\ P k j = true).
Proof.
  unfold estep. rewrite orb_true_iff, !andb_true_iff, !Nat.ltb_lt. tauto.
Qed.

(* two neighbours of the eliminated vertex become adjacent *)
Lemma nbr_clique k G c1 c2 :
  symmetric G -> k < c1 -> k < c2 -> G c1 k = true -> G c2 k = true -> estep k G c1 c2 = true.
Proof.
  intros Hs H1 H2 E1 E2. apply estep_true. right. rewrite (Hs k c2). auto.
Qed.

Ltac tr_tac :=
  unfold tr;
  repeat match goal with |- context [?x =? ?y] => destruct (Nat.eqb_spec x y) end;
  try lia; try congruence.

Lemma tr_l a b : tr a b a = b.
Proof. tr_tac. Qed.
Lemma tr_r a b : tr a b b = a.
Proof. tr_tac. Qed.
Lemma tr_other a b i : i <> a -> i <> b -> tr a b i = i.
Proof. intros; tr_tac. Qed.
Lemma tr_invol a b i : tr a b (tr a b i) = i.
Proof.
  unfold tr. destruct (Nat.eqb_spec i a) as [->|H1].
  - destruct (Nat.eqb_spec b a) as [->|H2]; [reflexivity|]. rewrite Nat.eqb_refl. reflexivity.
  - destruct (Nat.eqb_spec i b) as [->|H2].
    + rewrite Nat.eqb_refl. reflexivity.
    + destruct (Nat.eqb_spec i a); [lia|]. destruct (Nat.eqb_spec i b); [lia|reflexivity].
Qed.
Lemma tr_cases a b i : (i = a /\ tr a b i = b) \/ (i = b /\ tr a b i = a) \/ (i <> a /\ i <> b /\ tr a b i = i).
Proof. tr_tac; lia. Qed.

Lemma rmstep_true n k M i j :
  rmstep n k M i j = true <->
  M i j = true \/
  (k <= i /\ k <= j /\ M i k = true /\ exists r, k <= r < n /\ M r k = true /\ M r j = true).
Proof.
  unfold rmstep. rewrite orb_true_iff, !andb_true_iff, !Nat.leb_le, existsb_exists. split.
  - intros [H|[[[H1 H2] H3] [r [Hin H4]]]]; [left; exact H|right].
    apply in_seq in Hin. rewrite !andb_true_iff, Nat.leb_le in H4.
    repeat split; try assumption. exists r. repeat split; try tauto; lia.
  - intros [H|[H1 [H2 [H3 [r [Hr [H4 H5]]]]]]]; [left; exact H|right].
    repeat split; try assumption. exists r. split; [apply in_seq; lia|].
    rewrite !andb_true_iff, Nat.leb_le. repeat split; try assumption; lia.
Qed.

Lemma rmstep_incr n k M : sub M (rmstep n k M).
Proof. intros i j H. apply rmstep_true. left; exact H. Qed.

Lemma rowmerge_incr n k P : sub P (rowmerge n k P).
Proof. induction k as [|k IH]; cbn [rowmerge]; [apply sub_refl|]. intros i j H. apply rmstep_incr, IH, H. Qed.

(* ------------------------------------------------------------------------------------------------------------------ *)
(* pelim (whole rows interchanged) and phat (only the active columns interchanged)                                    *)
(* ------------------------------------------------------------------------------------------------------------------ *)

(* they agree on columns >= k-1, in particular on the whole active part *)
Lemma agree_active piv P k : forall i j, k <= S j -> pelim piv k P i j = phat piv k P i j.
Proof.
  induction k as [|k IH]; intros i j Hj; [reflexivity|].
  cbn [pelim phat]. unfold estep, swaprows, swaptail.
  assert (E1 : (k <=? j) = true) by (apply Nat.leb_le; lia).
  assert (E2 : (k <=? k) = true) by (apply Nat.leb_le; lia).
  rewrite E1, E2. rewrite !IH by lia. reflexivity.
Qed.

(* ... and on the upper triangle (U) *)
Lemma agree_upper piv P k :
  (forall m, m < k -> m <= piv m) -> forall i j, i <= j -> pelim piv k P i j = phat piv k P i j.
Proof.
  induction k as [|k IH]; intros Hge i j Hij; [reflexivity|].
  destruct (le_lt_dec k j) as [Hkj|Hkj]; [apply agree_active; lia|].
  cbn [pelim phat]. unfold estep, swaprows, swaptail.
  assert (E1 : (k <=? j) = false) by (apply Nat.leb_gt; lia).
  assert (E2 : (k <? j) = false) by (apply Nat.ltb_ge; lia).
  rewrite E1, E2, !andb_false_r, !orb_false_r.
  assert (Hp := Hge k (Nat.lt_succ_diag_r k)).
  rewrite tr_other by lia. apply IH; [intros m Hm; apply Hge; lia|exact Hij].
Qed.

(* a row above the current step is frozen *)
Lemma phat_row_frozen piv P i j m :
  (forall k, k < m -> k <= piv k) -> i < m -> phat piv m P i j = phat piv (S i) P i j.
Proof.
  induction m as [|m IH]; intros Hge Him; [lia|].
  destruct (Nat.eq_dec i m) as [->|Hne]; [reflexivity|].
  rewrite <- IH by (try lia; intros k Hk; apply Hge; lia).
  cbn [phat]. unfold estep, swaptail.
  assert (E : (m <? i) = false) by (apply Nat.ltb_ge; lia).
  rewrite E. cbn [andb]. rewrite orb_false_r.
  assert (Hp := Hge m (Nat.lt_succ_diag_r m)).
  rewrite tr_other by lia. destruct (m <=? j); reflexivity.
Qed.

(* row i of U is the pivot row chosen at step i *)
Lemma phat_pivot_row piv P i j : i <= j -> phat piv (S i) P i j = phat piv i P (piv i) j.
Proof.
  intros Hij. cbn [phat]. unfold estep, swaptail.
  rewrite Nat.ltb_irrefl. cbn [andb]. rewrite orb_false_r.
  assert (E : (i <=? j) = true) by (apply Nat.leb_le; exact Hij).
  rewrite E, tr_l. reflexivity.
Qed.

(* what an entry of the reduced matrix after step k can come from *)
Lemma step_entry k p Q r c :
  k < r -> k < c -> estep k (swaptail k p Q) r c = true ->
  Q (tr k p r) c = true \/ (Q (tr k p r) k = true /\ Q p c = true).
Proof.
  intros Hr Hc E. apply estep_true in E. unfold swaptail in E.
  assert (E1 : (k <=? c) = true) by (apply Nat.leb_le; lia).
  assert (E2 : (k <=? k) = true) by (apply Nat.leb_le; lia).
  rewrite E1, E2, tr_l in E. tauto.
Qed.

(* ------------------------------------------------------------------------------------------------------------------ *)
(* U part: every row of the reduced matrix is a clique of the partially eliminated graph of A^T A                     *)
(* ------------------------------------------------------------------------------------------------------------------ *)

Definition rowclique (n k : nat) (Q G : pat) : Prop :=
  forall r c1 c2, k <= r < n -> k <= c1 -> k <= c2 -> Q r c1 = true -> Q r c2 = true -> G c1 c2 = true.

Lemma rowclique_init n P : rowclique n 0 P (ata n P).
Proof. intros r c1 c2 Hr _ _ E1 E2. apply ata_true. exists r. split; [lia|auto]. Qed.

Lemma rowclique_step n k p Q G :
  symmetric G -> rowclique n k Q G -> k <= p < n -> Q p k = true ->
  rowclique n (S k) (estep k (swaptail k p Q)) (estep k G).
Proof.
  intros Hs H Hp Hpk r c1 c2 Hr Hc1 Hc2 E1 E2.
  apply step_entry in E1; [|lia|lia]. apply step_entry in E2; [|lia|lia].
  set (r' := tr k p r) in *.
  assert (Hr' : k <= r' < n) by (unfold r'; destruct (tr_cases k p r) as [[? ->]|[[? ->]|[? [? ->]]]]; lia).
  destruct (Q r' k) eqn:Erk.
  - (* the row is a candidate: everything it touches is a neighbour of k *)
    assert (N : forall c, k < c -> Q r' c = true \/ (true = true /\ Q p c = true) -> G c k = true).
    { intros c Hc [Ec|[_ Ec]].
      - apply (H r' c k); try lia; assumption.
      - apply (H p c k); try lia; assumption. }
    apply nbr_clique; try assumption; try lia; apply N; try lia; assumption.
  - (* not a candidate: the row is unchanged *)
    destruct E1 as [E1|[E1 _]]; [|discriminate]. destruct E2 as [E2|[E2 _]]; [|discriminate].
    apply estep_incr. apply (H r' c1 c2); try lia; assumption.
Qed.

Section GeorgeNg.
  Variable n : nat.
  Variable P : pat.
  Variable piv : nat -> nat.
  Hypothesis Hadm : admissible n piv P.

  Lemma piv_ge k : k < n -> k <= piv k.
  Proof. intros Hk. destruct (Hadm k Hk) as [H _]. lia. Qed.

  Lemma piv_lt k : k < n -> piv k < n.
  Proof. intros Hk. destruct (Hadm k Hk) as [H _]. lia. Qed.

  Lemma piv_entry k : k < n -> phat piv k P (piv k) k = true.
  Proof. intros Hk. destruct (Hadm k Hk) as [_ H]. rewrite <- agree_active by lia. exact H. Qed.

  Lemma rowclique_all k : k <= n -> rowclique n k (phat piv k P) (elim k (ata n P)).
  Proof.
    induction k as [|k IH]; intros Hk; [apply rowclique_init|].
    cbn [phat elim]. apply rowclique_step.
    - apply fill_symmetric.
    - apply IH; lia.
    - split; [apply piv_ge|apply piv_lt]; lia.
    - apply piv_entry; lia.
  Qed.

  (* struct(U) inside struct(L_c^T); the diagonal of P plays no role *)
  Theorem U_in_fill i j : i < n -> i <= j -> pelim piv n P i j = true -> elim n (ata n P) i j = true.
  Proof.
    intros Hi Hij E.
    rewrite agree_upper in E by (try assumption; intros m Hm; apply piv_ge; exact Hm).
    rewrite phat_row_frozen in E by (try assumption; intros m Hm; apply piv_ge; exact Hm).
    rewrite phat_pivot_row in E by exact Hij.
    apply (elim_le i n); [lia|].
    apply (rowclique_all i (Nat.lt_le_incl _ _ Hi) (piv i) i j); try lia; try assumption.
    - split; [apply piv_ge|apply piv_lt]; exact Hi.
    - apply piv_entry; exact Hi.
  Qed.

  (* ---------------------------------------------------------------------------------------------------------------- *)
  (* the row-merge invariant                                                                                          *)
  (* ---------------------------------------------------------------------------------------------------------------- *)
  Hypothesis Hdiag : zero_free_diag n P.

  Theorem phat_sub_rowmerge k :
    k <= n -> forall i j, i < n -> phat piv k P i j = true -> rowmerge n k P i j = true.
  Proof.
    induction k as [|k IH]; intros Hk i j Hi E; [exact E|].
    assert (Hkn : k < n) by lia. specialize (IH (Nat.lt_le_incl _ _ Hkn)).
    cbn [phat] in E. cbn [rowmerge].
    set (Q := phat piv k P) in *. set (M := rowmerge n k P) in *. set (p := piv k) in *.
    assert (Hp : k <= p < n) by (split; [apply piv_ge|apply piv_lt]; exact Hkn).
    assert (Qpk : Q p k = true) by (apply piv_entry; exact Hkn).
    assert (Mkk : M k k = true) by (apply rowmerge_incr, Hdiag; exact Hkn).
    assert (Mpk : M p k = true) by (apply IH; [lia|exact Qpk]).
    apply rmstep_true. apply estep_true in E. unfold swaptail in E.
    assert (Ekk : (k <=? k) = true) by (apply Nat.leb_le; lia).
    rewrite Ekk, tr_l in E.
    destruct (le_lt_dec k j) as [Hkj|Hkj].
    - assert (Ekj : (k <=? j) = true) by (apply Nat.leb_le; exact Hkj). rewrite Ekj in E.
      destruct E as [E|[Hki [Hkj' [E1 E2]]]].
      + destruct (tr_cases k p i) as [[-> Et]|[[-> Et]|[Hnk [Hnp Et]]]]; rewrite Et in E.
        * right. repeat split; try lia; try assumption. exists p. repeat split; try lia; try assumption.
          apply IH; [lia|exact E].
        * right. repeat split; try lia; try assumption. exists k. repeat split; try lia; try assumption.
          apply IH; [lia|exact E].
        * left. apply IH; assumption.
      + destruct (tr_cases k p i) as [[-> Et]|[[-> Et]|[Hnk [Hnp Et]]]]; rewrite Et in E1.
        * lia.
        * left. apply IH; [lia|exact E2].
        * right. repeat split; try lia. { apply IH; assumption. }
          exists p. repeat split; try lia; try assumption. apply IH; [lia|exact E2].
    - assert (Ekj : (k <=? j) = false) by (apply Nat.leb_gt; exact Hkj). rewrite Ekj in E.
      destruct E as [E|[_ [Hkj' _]]]; [|lia]. left. apply IH; assumption.
  Qed.

  (* ---------------------------------------------------------------------------------------------------------------- *)
  (* the row-merge pattern is inside the filled graph of A^T A                                                        *)
  (* ---------------------------------------------------------------------------------------------------------------- *)
  (* column c belongs to the "labelled" structure of row r: its own position, or an active entry *)
  Definition lab (k : nat) (M : pat) (r c : nat) : Prop := c = r \/ (k <= c /\ M r c = true).

  Definition rm_inv (k : nat) (M G : pat) : Prop :=
    (forall r c1 c2, k <= r < n -> lab k M r c1 -> lab k M r c2 -> G c1 c2 = true) /\
    (forall i j, i < n -> i < k \/ j < k -> M i j = true -> G i j = true).

  Lemma rm_inv_init : rm_inv 0 P (ata n P).
  Proof.
    split; [|intros i j _ [H|H]; lia].
    intros r c1 c2 Hr L1 L2. apply ata_true. exists r. split; [lia|].
    split; [destruct L1 as [->|[_ H]]|destruct L2 as [->|[_ H]]]; try assumption; apply Hdiag; lia.
  Qed.

  Lemma rm_inv_step k M G :
    k < n -> symmetric G -> rm_inv k M G -> rm_inv (S k) (rmstep n k M) (estep k G).
  Proof.
    intros Hk Hs [HA HB]. split.
    - intros r c1 c2 Hr L1 L2.
      (* every labelled column of the new row was one of the old row, or is a neighbour of k *)
      assert (C : forall c, lab (S k) (rmstep n k M) r c ->
                  k < c /\ (lab k M r c \/ (M r k = true /\ G c k = true))).
      { intros c [->|[Hc E]]; [split; [lia|left; left; reflexivity]|].
        split; [lia|]. apply rmstep_true in E. destruct E as [E|[_ [_ [Erk [r' [Hr' [E1 E2]]]]]]].
        - left. right. split; [lia|exact E].
        - right. split; [exact Erk|]. apply (HA r' c k); [lia| |]; right; split; try lia; assumption. }
      destruct (C c1 L1) as [Hc1 D1]. destruct (C c2 L2) as [Hc2 D2].
      destruct (M r k) eqn:Erk.
      + assert (N : forall c, lab k M r c \/ (true = true /\ G c k = true) -> G c k = true).
        { intros c [L|[_ E]]; [|exact E]. apply (HA r c k); [lia|exact L|]. right. split; [lia|exact Erk]. }
        apply nbr_clique; try assumption; apply N; assumption.
      + destruct D1 as [D1|[D1 _]]; [|discriminate]. destruct D2 as [D2|[D2 _]]; [|discriminate].
        apply estep_incr. apply (HA r c1 c2); try lia; assumption.
    - intros i j Hi Hij E. apply estep_incr. apply rmstep_true in E.
      destruct E as [E|[Hki [Hkj [Eik [r' [Hr' [E1 E2]]]]]]].
      + destruct (le_lt_dec k i) as [Hki|Hki]; [|apply HB; try assumption; lia].
        destruct (le_lt_dec k j) as [Hkj|Hkj]; [|apply HB; try assumption; lia].
        apply (HA i i j); [lia|left; reflexivity|right; split; assumption].
      + assert (D : i = k \/ j = k) by lia. destruct D as [->| ->].
        * apply (HA r' k j); [lia| |]; right; split; try lia; assumption.
        * apply (HA i i k); [lia|left; reflexivity|right; split; try lia; assumption].
  Qed.

  Lemma rm_inv_all k : k <= n -> rm_inv k (rowmerge n k P) (elim k (ata n P)).
  Proof.
    induction k as [|k IH]; intros Hk; [apply rm_inv_init|].
    cbn [rowmerge elim]. apply rm_inv_step; [lia|apply fill_symmetric|apply IH; lia].
  Qed.

  Theorem rowmerge_sub_fill i j : i < n -> rowmerge n n P i j = true -> elim n (ata n P) i j = true.
  Proof. intros Hi E. destruct (rm_inv_all n (le_n n)) as [_ HB]. apply HB; [exact Hi|left; exact Hi|exact E]. Qed.

  (* struct(L^ + U) inside L_c + L_c^T *)
  Theorem phat_sub_fill i j : i < n -> phat piv n P i j = true -> elim n (ata n P) i j = true.
  Proof. intros Hi E. apply rowmerge_sub_fill; [exact Hi|]. apply phat_sub_rowmerge; [lia|exact Hi|exact E]. Qed.

End GeorgeNg.

(* ------------------------------------------------------------------------------------------------------------------ *)
(* column counts: column j of the final L is a permutation of column j of L^                                          *)
(* ------------------------------------------------------------------------------------------------------------------ *)

Lemma count_from_filter f lo len : count_from f lo len = length (filter f (seq lo len)).
Proof.
  revert lo; induction len as [|l IH]; intros lo; cbn [count_from seq filter]; [reflexivity|].
  rewrite IH. destruct (f lo); reflexivity.
Qed.

Lemma filter_map_length (f : nat -> bool) (g : nat -> nat) l :
  length (filter (fun i => f (g i)) l) = length (filter f (map g l)).
Proof.
  induction l as [|x l IH]; cbn [filter map]; [reflexivity|]. destruct (f (g x)); cbn [length]; rewrite IH; reflexivity.
Qed.

Lemma Permutation_filter_length (f : nat -> bool) l l' :
  Permutation l l' -> length (filter f l) = length (filter f l').
Proof.
  induction 1 as [|x l l' _ IH|x y l|l l' l'' _ IH1 _ IH2]; cbn [filter].
  - reflexivity.
  - destruct (f x); cbn [length]; rewrite IH; reflexivity.
  - destruct (f x), (f y); reflexivity.
  - rewrite IH1. exact IH2.
Qed.

Lemma tr_seq_perm a b lo len :
  lo <= a < lo + len -> lo <= b < lo + len -> Permutation (map (tr a b) (seq lo len)) (seq lo len).
Proof.
  intros Ha Hb. apply NoDup_Permutation.
  - apply Injective_map_NoDup; [|apply seq_NoDup].
    intros x y E. rewrite <- (tr_invol a b x), <- (tr_invol a b y), E. reflexivity.
  - apply seq_NoDup.
  - assert (R : forall y, lo <= y < lo + len -> lo <= tr a b y < lo + len).
    { intros y Hy. destruct (tr_cases a b y) as [[_ ->]|[[_ ->]|[_ [_ ->]]]]; lia. }
    intros x. rewrite in_map_iff, in_seq. split.
    + intros [y [<- Hy]]. apply in_seq in Hy. apply R, Hy.
    + intros Hx. exists (tr a b x). split; [apply tr_invol|]. apply in_seq. apply R, Hx.
Qed.

Lemma count_from_swap f a b lo len :
  lo <= a < lo + len -> lo <= b < lo + len ->
  count_from (fun i => f (tr a b i)) lo len = count_from f lo len.
Proof.
  intros Ha Hb. rewrite !count_from_filter, filter_map_length.
  apply Permutation_filter_length, tr_seq_perm; assumption.
Qed.

Lemma count_from_le_range f g lo len :
  (forall i, lo <= i < lo + len -> f i = true -> g i = true) -> count_from f lo len <= count_from g lo len.
Proof.
  revert lo; induction len as [|l IH]; intros lo H; cbn [count_from]; [lia|].
  assert (IH' := IH (S lo)). specialize (IH' ltac:(intros i Hi; apply H; lia)).
  destruct (f lo) eqn:E; [rewrite (H lo) by (try lia; exact E); lia|]. destruct (g lo); lia.
Qed.

Lemma lcount_pelim_phat n piv P j k :
  (forall m, m < k -> m <= piv m < n) -> j < n ->
  lcount n (pelim piv k P) j = lcount n (phat piv k P) j.
Proof.
  intros Hpiv Hj. unfold lcount. induction k as [|k IH]; [reflexivity|].
  destruct (le_lt_dec k j) as [Hkj|Hkj].
  - apply count_from_ext. intros i _. apply agree_active. lia.
  - assert (E : forall Q i, estep k Q i j = Q i j).
    { intros Q i. unfold estep. assert (E : (k <? j) = false) by (apply Nat.ltb_ge; lia).
      rewrite E, andb_false_r. cbn [andb]. apply orb_false_r. }
    cbn [pelim phat].
    rewrite (count_from_ext (fun i => estep k (swaptail k (piv k) (phat piv k P)) i j) (fun i => phat piv k P i j)).
    2:{ intros i _. rewrite E. unfold swaptail. assert (E' : (k <=? j) = false) by (apply Nat.leb_gt; lia).
        rewrite E'. reflexivity. }
    rewrite <- IH by (intros m Hm; apply Hpiv; lia).
    rewrite (count_from_ext (fun i => estep k (swaprows k (piv k) (pelim piv k P)) i j)
                            (fun i => (fun i' => pelim piv k P i' j) (tr k (piv k) i))).
    2:{ intros i _. rewrite E. reflexivity. }
    assert (Hp := Hpiv k (Nat.lt_succ_diag_r k)).
    apply (count_from_swap (fun i' => pelim piv k P i' j)); lia.
Qed.

(* candidates at step k: after the step the structure of a candidate row lies in the union of the candidates'
   structures (the elementary form of the row-merge argument; no hypothesis at all) *)
Lemma candidates_merge k p Q i j :
  Q p k = true -> k <= p -> k <= i -> k <= j ->
  swaptail k p Q i k = true -> estep k (swaptail k p Q) i j = true ->
  exists r, k <= r /\ Q r k = true /\ Q r j = true.
Proof.
  intros Qpk Hp Hi Hj C E. apply estep_true in E. unfold swaptail in *.
  assert (E1 : (k <=? j) = true) by (apply Nat.leb_le; lia).
  assert (E2 : (k <=? k) = true) by (apply Nat.leb_le; lia).
  rewrite E1, E2, ?tr_l in *.
  assert (Ht : k <= tr k p i) by (destruct (tr_cases k p i) as [[_ ->]|[[_ ->]|[_ [_ ->]]]]; lia).
  destruct E as [E|[_ [_ [_ E]]]].
  - exists (tr k p i). auto.
  - exists p. auto.
Qed.

(* ------------------------------------------------------------------------------------------------------------------ *)
(* the theorems                                                                                                       *)
(* ------------------------------------------------------------------------------------------------------------------ *)

(* struct(U) inside struct(L_c^T) -- no hypothesis on the diagonal *)
Theorem george_ng_U n P piv :
  admissible n piv P ->
  forall i j, i < n -> i <= j -> pelim piv n P i j = true -> elim n (ata n P) i j = true.
Proof. intros Hadm i j. apply U_in_fill; exact Hadm. Qed.

(* the row-merge invariant: at every stage the factors computed so far (L^ in creation positions, U) and the active
   submatrix are inside the row-merge pattern *)
Theorem phat_in_rowmerge n P piv :
  zero_free_diag n P -> admissible n piv P ->
  forall k, k <= n -> forall i j, i < n -> phat piv k P i j = true -> rowmerge n k P i j = true.
Proof. intros Hd Hadm k. apply phat_sub_rowmerge; assumption. Qed.

Theorem rowmerge_in_fill n P :
  zero_free_diag n P -> forall i j, i < n -> rowmerge n n P i j = true -> elim n (ata n P) i j = true.
Proof. intros Hd i j. apply rowmerge_sub_fill; assumption. Qed.

(* struct(L^) inside struct(L_c) *)
Theorem george_ng_Lhat n P piv :
  zero_free_diag n P -> admissible n piv P ->
  forall i j, i < n -> j < i -> phat piv n P i j = true -> elim n (ata n P) i j = true.
Proof. intros Hd Hadm i j Hi _. apply (phat_sub_fill n P piv); assumption. Qed.

(* column counts of the final L (diagonal included, as in SymFill.lcount) *)
Theorem george_ng_colcount n P piv :
  zero_free_diag n P -> admissible n piv P ->
  forall j, j < n ->
  lcount n (pelim piv n P) j <= lcount n (rowmerge n n P) j /\
  lcount n (rowmerge n n P) j <= lcount n (elim n (ata n P)) j.
Proof.
  intros Hd Hadm j Hj.
  rewrite (lcount_pelim_phat n piv P j n) by (try assumption; intros m Hm; apply (Hadm m Hm)).
  unfold lcount. split; apply count_from_le_range; intros i Hi E.
  - apply (phat_in_rowmerge n P piv); try assumption; lia.
  - apply rowmerge_in_fill; try assumption; lia.
Qed.

Theorem george_ng n P piv :
  zero_free_diag n P -> admissible n piv P ->
  (forall i j, i < n -> j < n -> i <= j -> pelim piv n P i j = true -> elim n (ata n P) i j = true) /\
  (forall i j, i < n -> j < n -> j < i -> phat piv n P i j = true -> elim n (ata n P) i j = true) /\
  (forall j, j < n -> lcount n (pelim piv n P) j <= lcount n (elim n (ata n P)) j).
Proof.
  intros Hd Hadm. split; [|split].
  - intros i j Hi _. apply george_ng_U; assumption.
  - intros i j Hi _. apply george_ng_Lhat; assumption.
  - intros j Hj. destruct (george_ng_colcount n P piv Hd Hadm j Hj) as [H1 H2]. lia.
Qed.

Print Assumptions george_ng_U.
Print Assumptions phat_in_rowmerge.
Print Assumptions rowmerge_in_fill.
Print Assumptions george_ng_Lhat.
Print Assumptions george_ng_colcount.
Print Assumptions george_ng.
Print Assumptions candidates_merge.

(* stage-k form: after k <= n steps every entry in the first k rows or first k columns (the parts of U and L^ already
   final) is an edge of the graph of A^T A after eliminating its first k vertices *)
Theorem george_ng_stage n P piv :
  zero_free_diag n P -> admissible n piv P ->
  forall k, k <= n -> forall i j, i < n -> i < k \/ j < k ->
  phat piv k P i j = true -> elim k (ata n P) i j = true.
Proof.
  intros Hd Hadm k Hk i j Hi Hij E.
  destruct (rm_inv_all n P Hd k Hk) as [_ HB]. apply HB; try assumption.
  apply (phat_in_rowmerge n P piv); assumption.
Qed.
Print Assumptions george_ng_stage.

(* ------------------------------------------------------------------------------------------------------------------ *)
(* executable checks                                                                                                  *)
(* ------------------------------------------------------------------------------------------------------------------ *)

Definition admissibleb (n : nat) (piv : nat -> nat) (P : pat) : bool :=
  forallb (fun k => (k <=? piv k) && (piv k <? n) && pelim piv k P (piv k) k) (seq 0 n).

Lemma admissibleb_sound n piv P : admissibleb n piv P = true -> admissible n piv P.
Proof.
  unfold admissibleb. rewrite forallb_forall. intros H k Hk.
  specialize (H k ltac:(apply in_seq; lia)). rewrite !andb_true_iff, Nat.leb_le, Nat.ltb_lt in H. tauto.
Qed.

Definition diagb (n : nat) (P : pat) : bool := forallb (fun i => P i i) (seq 0 n).

Lemma diagb_sound n P : diagb n P = true -> zero_free_diag n P.
Proof. unfold diagb. rewrite forallb_forall. intros H i Hi. apply H, in_seq. lia. Qed.

(* the n x n corner of a pattern as a list of rows, 1 = present *)
Definition show (n : nat) (F : pat) : list (list nat) :=
  map (fun i => map (fun j => if F i j then 1 else 0) (seq 0 n)) (seq 0 n).

Definition of_rows (rows : list (list nat)) : pat := fun i j => Nat.eqb (nth j (nth i rows []) 0) 1.

(* ---- Example 1: a 3x3 pattern, interchanges at steps 0 and 1 ---- *)
Definition A1 : pat := of_rows [[1;0;1]; [1;1;0]; [0;1;1]].
Definition piv1 (k : nat) : nat := match k with 0 => 1 | 1 => 2 | _ => k end.

Example ex1_admissible : admissibleb 3 piv1 A1 = true /\ diagb 3 A1 = true.
Proof. vm_compute. split; reflexivity. Qed.

Example ex1_compute :
     show 3 (pelim piv1 1 A1) = [[1;1;0]; [1;1;1]; [0;1;1]]     (* rows 0,1 swapped; fill at (1,1) *)
  /\ show 3 (pelim piv1 3 A1) = [[1;1;0]; [0;1;1]; [1;1;1]]     (* final L+U, PA = LU storage *)
  /\ show 3 (phat  piv1 3 A1) = [[1;1;0]; [1;1;1]; [0;1;1]]     (* final L^+U: the multiplier (1,0) stays put *)
  /\ show 3 (rowmerge 3 3 A1) = [[1;1;1]; [1;1;1]; [0;1;1]]     (* strictly inside the Cholesky bound below *)
  /\ show 3 (elim 3 (ata 3 A1)) = [[1;1;1]; [1;1;1]; [1;1;1]].
Proof. vm_compute. repeat split; reflexivity. Qed.

(* ---- Example 2: zero-free diagonal, but the POSITIONAL bound fails for the final L of pelim (PA = LU storage):
        the interchange at step 1 carries the multiplier created at (1,0) to (2,0), and columns 0 and 2 of A have no
        row in common.  The bound for L^ and the column counts hold, as proved. ---- *)
Definition A2 : pat := of_rows [[1;0;0]; [1;1;0]; [0;1;1]].
Definition piv2 (k : nat) : nat := match k with 1 => 2 | _ => k end.

Example ex2_final_L_not_positional :
     admissibleb 3 piv2 A2 = true /\ diagb 3 A2 = true
  /\ show 3 (pelim piv2 3 A2)      = [[1;0;0]; [0;1;1]; [1;1;1]]
  /\ show 3 (phat  piv2 3 A2)      = [[1;0;0]; [1;1;1]; [0;1;1]]
  /\ show 3 (rowmerge 3 3 A2)      = [[1;1;0]; [1;1;1]; [0;1;1]]
  /\ show 3 (elim 3 (ata 3 A2))    = [[1;1;0]; [1;1;1]; [0;1;1]]
  /\ pelim piv2 3 A2 2 0 = true /\ elim 3 (ata 3 A2) 2 0 = false
  /\ map (lcount 3 (pelim piv2 3 A2)) [0;1;2] = [2;2;1]
  /\ map (lcount 3 (elim 3 (ata 3 A2))) [0;1;2] = [2;2;1].
Proof. vm_compute. repeat split; reflexivity. Qed.

(* ---- Example 3: the zero-free diagonal is needed for the L^ bound (it is rowmerge_in_fill that breaks here).
        A3 is structurally nonsingular (rows 0,2,1 give a transversal) but has zeros at (1,1) and (2,2). ---- *)
Definition A3 : pat := of_rows [[1;0;0]; [0;0;1]; [1;1;0]].
Definition piv3 (k : nat) : nat := match k with 1 => 2 | _ => k end.

Example ex3_diag_needed :
     admissibleb 3 piv3 A3 = true /\ diagb 3 A3 = false
  /\ show 3 (phat piv3 3 A3)       = [[1;0;0]; [0;1;0]; [1;0;1]]
  /\ show 3 (elim 3 (ata 3 A3))    = [[1;1;0]; [1;1;0]; [0;0;1]]
  /\ phat piv3 3 A3 2 0 = true /\ elim 3 (ata 3 A3) 2 0 = false /\ rowmerge 3 3 A3 2 0 = true.
Proof. vm_compute. repeat split; reflexivity. Qed.

(* ---- Example 4: the zero-free diagonal is also needed for phat_in_rowmerge, already for 2x2: with a zero at (0,0)
        row 0 is not a candidate at step 0 in the row-merge scheme, but the interchange puts row 1 there. ---- *)
Definition A4 : pat := of_rows [[0;1]; [1;1]].
Definition piv4 (k : nat) : nat := match k with 0 => 1 | _ => k end.

Example ex4_rowmerge_needs_diag :
     admissibleb 2 piv4 A4 = true /\ diagb 2 A4 = false
  /\ show 2 (phat piv4 2 A4)    = [[1;1]; [0;1]]
  /\ show 2 (rowmerge 2 2 A4)   = [[0;1]; [1;1]]
  /\ show 2 (elim 2 (ata 2 A4)) = [[1;1]; [1;1]].
Proof. vm_compute. repeat split; reflexivity. Qed.

(* the U bound needs no diagonal: instance on A3 *)
Example ex3_U_still_bounded :
  forallb (fun i => forallb (fun j => implb ((i <=? j) && pelim piv3 3 A3 i j) (elim 3 (ata 3 A3) i j)) (seq 0 3))
          (seq 0 3) = true.
Proof. vm_compute. reflexivity. Qed.

(* ---- there is NO 2x2 counterexample: for all 16 patterns and both pivot choices at step 0, admissible implies the
        conclusion of george_ng_Lhat (and of george_ng_U), zero-free diagonal or not ---- *)
Definition P2 (a b c d : bool) : pat :=
  fun i j => match i, j with 0, 0 => a | 0, 1 => b | 1, 0 => c | 1, 1 => d | _, _ => false end.

Definition bools := [false; true].

Definition check2 : bool :=
  forallb (fun a => forallb (fun b => forallb (fun c => forallb (fun d => forallb (fun p0 =>
    let P := P2 a b c d in
    let piv := fun k => match k with 0 => p0 | _ => k end in
    implb (admissibleb 2 piv P)
      (forallb (fun i => forallb (fun j =>
         implb (phat piv 2 P i j) (elim 2 (ata 2 P) i j) && implb (pelim piv 2 P i j) (elim 2 (ata 2 P) i j))
         (seq 0 2)) (seq 0 2)))
    [0; 1]) bools) bools) bools) bools.

Example no_2x2_counterexample : check2 = true.
Proof. vm_compute. reflexivity. Qed.
