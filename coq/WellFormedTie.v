(* WellFormedTie.v (property C09): countnz and fixupL RE-TRANSLATED from the current C source of SRC/util.c (WellFormedGen.v,
   generated on every run by tools/gen_trans.py / tools/gen_trans_wf.py) compute exactly what the hand-written models
   WellFormedModel.countnz and WellFormedModel.fixupL compute.  Hence every theorem of WellFormedProofs.v / Properties_C09.v about
   the models is a theorem about what the source says now.

   Correspondence of the arguments (gen_countnz_G / gen_fixupL_G below): the arrays xsup, xsup_end, supno, lsub, xlsub, xlsub_end of
   GlobalLU_t are the fields of the record glu, Glu->nextu is g_nextu; junk = the unknown contents of the scratch array order[] that
   fixupL allocates with intMalloc (the result does not depend on it).

   Hypotheses of the ties: NONE.  Both sides read and write the lists with the same total operations zn / zupd (a read outside a
   list gives the marker OOB, a store outside it is dropped), so the equalities hold for every n, perm_r and image G, well-formed or
   not; the scratch array has exactly nsuper+1 entries on both sides (allocZ), so the insertion sort never leaves it.

   Shape of the proofs (one lemma per C loop, as in SchedTie.v / PivotTie.v):
     countnz   cnz_inner  the loop over the columns of a supernode (the running jlen of the source is jlen0 - (j - fsupc) of the model)
               cnz_body   one supernode;  countnz_tie
     fixupL    order_init   for (i = 0; i <= nsuper; i++) order[i] = i;      gives zrange 0 (nsuper+1)
               down_tie     the descending scan of the insertion sort       =  ins_rev on the reversed prefix
               sort_loop    the insertion sort                              =  storage_order
               copy_tie     the copy loop of one supernode;  comp_step / comp_loop  the compaction  =  fold_left fixupL_sn
               fixupL_tie
   Leaves are closed by lia (with ZifyBool), so harmless rewrites of the source (`jlen -= 1` for `jlen--`, `i < nsuper + 1` for
   `i <= nsuper`, `jstrt < xlsub[..]` for `xlsub[..] > jstrt`, operands of + swapped, a renamed local) leave the proofs alone;
   a changed index, bound, test or stored value leaves a leaf whose two sides differ, and the proof fails there. *)
From Coq Require Import ZArith List Bool Lia ZifyBool.
From SLU Require Import C2GalLib C2GalWf WellFormedModel WellFormedProofs WellFormedGen.
Import ListNotations.
Local Open Scope Z_scope.

(* the translated functions on an image of GlobalLU_t *)
Definition gen_countnz_G (n : Z) (G : glu) : Z * Z :=
  gen_countnz n (g_xsup G) (g_xsup_end G) (g_xlsub G) (g_xlsub_end G) (g_supno G) (g_nextu G).
Definition gen_fixupL_G (n : Z) (perm_r : list Z) (G : glu) (junk : Z -> Z) : list Z * list Z * list Z :=
  gen_fixupL n perm_r (g_xsup G) (g_xsup_end G) (g_supno G) (g_lsub G) (g_xlsub G) (g_xlsub_end G) junk.

(* ---------------------------------------------------------------------------------------------------------------------- *)
(* ranges: WellFormedModel.zrange and C2GalLib.zrange are the same function; the lemmas of C2GalLib under the model's name *)
Lemma wz_nil : forall a b, b <= a -> zrange a b = [].
Proof. exact C2GalLib.zrange_nil. Qed.
Lemma wz_cons : forall a b, a < b -> zrange a b = a :: zrange (a + 1) b.
Proof. exact C2GalLib.zrange_cons. Qed.
Lemma wz_of_nat : forall a m, zrange a (a + Z.of_nat (S m)) = a :: zrange (a + 1) (a + 1 + Z.of_nat m).
Proof. exact C2GalLib.zrange_of_nat. Qed.
Lemma wz_length : forall a b, length (zrange a b) = Z.to_nat (b - a).
Proof. exact C2GalLib.zrange_length. Qed.
Lemma wz_nat : forall a b, a <= b -> b = a + Z.of_nat (Z.to_nat (b - a)).
Proof. intros a b Hab. lia. Qed.

(* leaves: tuples compared componentwise, integers by lia *)
Ltac leaf := first [ reflexivity | solve [ c2g_split; first [ reflexivity | lia | f_equal; lia ] ] ].
(* a test (the early return, the condition of the descending scan): the model's test is decided first, then the test at the head of
   the translated side (if it is still there: `n < 2` for `n <= 1`) is decided as a whole and must agree with it *)
Ltac head_test :=
  lazymatch goal with
  | |- (if ?c then _ else _) = _ => let H := fresh "Hhead" in destruct c eqn:H; try (exfalso; lia)
  | _ => idtac
  end.

(* ---------------------------------------------------------------------------------------------------------------------- *)
(* lists: reads and stores at the end of a known prefix *)
Lemma zn_app_at : forall p x q jz, jz = Z.of_nat (length p) -> zn (p ++ x :: q) jz = x.
Proof.
  intros p x q jz Hj. unfold zn. destruct (jz <? 0) eqn:Hneg; [lia|].
  replace (Z.to_nat jz) with (length p) by lia. rewrite app_nth2 by lia. rewrite Nat.sub_diag. reflexivity.
Qed.

Lemma updn_app_at : forall p x q y, updn (p ++ x :: q) (length p) y = p ++ y :: q.
Proof. induction p as [|h p IH]; intros x q y; cbn [app length updn]; [reflexivity | rewrite IH; reflexivity]. Qed.

Lemma zupd_app_at : forall p x q jz y, jz = Z.of_nat (length p) -> zupd (p ++ x :: q) jz y = p ++ y :: q.
Proof.
  intros p x q jz y Hj. unfold zupd. destruct (jz <? 0) eqn:Hneg; [lia|].
  replace (Z.to_nat jz) with (length p) by lia. apply updn_app_at.
Qed.

Lemma zupd_app_at1 : forall p h x q jz y, jz = Z.of_nat (length p) + 1 -> zupd (p ++ h :: x :: q) jz y = p ++ h :: y :: q.
Proof.
  intros p h x q jz y Hj. change (p ++ h :: x :: q) with (p ++ [h] ++ x :: q). rewrite app_assoc.
  rewrite zupd_app_at by (rewrite app_length; cbn [length]; lia). rewrite <- app_assoc. reflexivity.
Qed.

Lemma nth_zrange : forall a b k d, (k < Z.to_nat (b - a))%nat -> nth k (zrange a b) d = a + Z.of_nat k.
Proof.
  intros a b k d Hk. unfold zrange.
  pose proof (map_nth (fun k => a + Z.of_nat k) (seq 0 (Z.to_nat (b - a))) 0%nat k) as Hmap. cbv beta in Hmap.
  rewrite seq_nth in Hmap by exact Hk.
  rewrite (nth_indep _ d (a + Z.of_nat 0)) by (rewrite map_length, seq_length; exact Hk).
  rewrite Hmap. reflexivity.
Qed.

Lemma zn_zrange : forall m t, 0 <= t < m -> zn (zrange 0 m) t = t.
Proof.
  intros m t Ht. unfold zn. destruct (t <? 0) eqn:Hneg; [lia|]. rewrite nth_zrange by lia. lia.
Qed.

(* two lists of the same length that agree under zn are equal *)
Lemma zn_ext : forall l1 l2, length l1 = length l2 -> (forall t, 0 <= t < zlen l1 -> zn l1 t = zn l2 t) -> l1 = l2.
Proof.
  intros l1 l2 Hlen Hzn. apply nth_ext with (d := OOB) (d' := OOB); [exact Hlen|].
  intros k Hk. specialize (Hzn (Z.of_nat k)). unfold zn, zlen in Hzn.
  destruct (Z.of_nat k <? 0) eqn:Hneg; [lia|]. rewrite Nat2Z.id in Hzn. apply Hzn. lia.
Qed.

Lemma map_zn_zrange : forall l m, length l = Z.to_nat m -> map (zn l) (zrange 0 m) = l.
Proof.
  intros l m Hlen. apply nth_ext with (d := zn l 0) (d' := OOB).
  - rewrite map_length, wz_length. lia.
  - intros k Hk. rewrite map_length, wz_length in Hk.
    rewrite map_nth. rewrite nth_zrange by lia. unfold zn. destruct (0 + Z.of_nat k <? 0) eqn:Hneg; [lia|].
    f_equal. lia.
Qed.

(* ====================================================================================================================== *)
(* countnz                                                                                                                *)
(* the two loop bodies of the model, under names *)
Definition m_cnz_col (fsupc jlen0 : Z) (acc : Z * Z) (j : Z) : Z * Z :=
  let '(nl, nu) := acc in (nl + (jlen0 - (j - fsupc)), nu + (j - fsupc + 1)).
Definition m_cnz_sn (G : glu) (acc : Z * Z) (i : Z) : Z * Z :=
  let fsupc := zn (g_xsup G) i in
  let jlen0 := zn (g_xlsub_end G) fsupc - zn (g_xlsub G) fsupc in
  fold_left (m_cnz_col fsupc jlen0) (zrange fsupc (zn (g_xsup_end G) i)) acc.

Lemma countnz_unfold : forall n G,
  countnz n G = if n <=? 0 then (0, g_nextu G) else fold_left (m_cnz_sn G) (zrange 0 (zn (g_supno G) n + 1)) (0, g_nextu G).
Proof. intros n G. reflexivity. Qed.

(* for (j = fsupc; j < xsup_end[i]; j++) { *nnzL += jlen; *nnzU += j - fsupc + 1; jlen--; } *)
Lemma cnz_inner_nat : forall fsupc jlen0 m a nl nu,
  fold_left (gen_countnz_loop1 fsupc) (zrange a (a + Z.of_nat m)) (nl, nu, jlen0 - (a - fsupc)) =
  (fold_left (m_cnz_col fsupc jlen0) (zrange a (a + Z.of_nat m)) (nl, nu), jlen0 - (a + Z.of_nat m - fsupc)).
Proof.
  intros fsupc jlen0. induction m as [|m IH]; intros a nl nu.
  - rewrite wz_nil by lia. cbn [fold_left]. leaf.
  - rewrite wz_of_nat. cbn [fold_left].
    assert (Hstep : gen_countnz_loop1 fsupc (nl, nu, jlen0 - (a - fsupc)) a =
                    (nl + (jlen0 - (a - fsupc)), nu + (a - fsupc + 1), jlen0 - (a + 1 - fsupc))).
    { unfold gen_countnz_loop1. cbv beta iota zeta. leaf. }
    rewrite Hstep. cbn [m_cnz_col]. rewrite IH. leaf.
Qed.

Lemma cnz_inner : forall fsupc jlen0 e nl nu, exists jl,
  fold_left (gen_countnz_loop1 fsupc) (zrange fsupc e) (nl, nu, jlen0) =
  (fold_left (m_cnz_col fsupc jlen0) (zrange fsupc e) (nl, nu), jl).
Proof.
  intros fsupc jlen0 e nl nu. destruct (Z_lt_dec e fsupc) as [He|He].
  - rewrite wz_nil by lia. exists jlen0. reflexivity.
  - rewrite (wz_nat fsupc e) by lia. eexists.
    replace jlen0 with (jlen0 - (fsupc - fsupc)) at 1 by lia. apply cnz_inner_nat.
Qed.

(* one supernode *)
Lemma cnz_body : forall G acc i,
  gen_countnz_loop2 (g_xsup G) (g_xsup_end G) (g_xlsub G) (g_xlsub_end G) acc i = m_cnz_sn G acc i.
Proof.
  intros G [nl nu] i. unfold gen_countnz_loop2, m_cnz_sn. cbv beta iota zeta.
  destruct (cnz_inner (zn (g_xsup G) i) (zn (g_xlsub_end G) (zn (g_xsup G) i) - zn (g_xlsub G) (zn (g_xsup G) i))
                      (zn (g_xsup_end G) i) nl nu) as [jl Hin].
  rewrite Hin. destruct (fold_left _ _ (nl, nu)) as [nl' nu']. reflexivity.
Qed.

(* THE TIE for countnz: for every n and every image G *)
Theorem countnz_tie : forall n G, gen_countnz_G n G = countnz n G.
Proof.
  intros n G. rewrite countnz_unfold. unfold gen_countnz_G, gen_countnz. cbv beta zeta.
  destruct (n <=? 0) eqn:Hn; head_test; [leaf|].
  rewrite (fold_left_ext_all _ _ _ (m_cnz_sn G)) by (intros st x; apply cnz_body).
  destruct (fold_left _ _ _) as [nl nu]. reflexivity.
Qed.

(* ====================================================================================================================== *)
(* fixupL                                                                                                                 *)
(* for (i = 0; i <= nsuper; i++) order[i] = i;   on the fresh array *)
Lemma order_init : forall m junk, fold_left gen_fixupL_loop1 (zrange 0 m) (allocZ m junk) = zrange 0 m.
Proof.
  intros m junk. destruct (Z_le_dec m 0) as [Hm|Hm].
  - rewrite wz_nil by lia. rewrite allocZ_nonpos by lia. reflexivity.
  - pose proof (fold_zrange_inv (list Z)
      (fun i st => length st = Z.to_nat m /\ forall t, 0 <= t < i -> zn st t = t)
      gen_fixupL_loop1 0 m (allocZ m junk)) as Hinv.
    destruct Hinv as [Hlen Hval]; [lia | split; [apply allocZ_length | intros t Ht; lia] | |].
    + intros i st Hi [Hlen Hval].
      assert (Hstep : gen_fixupL_loop1 st i = zupd st i i) by (unfold gen_fixupL_loop1; cbv beta zeta; f_equal; lia).
      rewrite Hstep. split.
      * pose proof (zlen_zupd st i i) as Hl. unfold zlen in Hl. lia.
      * intros t Ht. destruct (Z.eq_dec t i) as [->|Hne].
        -- apply zn_zupd_same. unfold zlen. lia.
        -- rewrite zn_zupd_other by lia. apply Hval. lia.
    + apply zn_ext.
      * rewrite wz_length. change (C2GalLib.zrange 0 m) with (zrange 0 m) in Hlen. lia.
      * intros t Ht. unfold zlen in Ht. change (C2GalLib.zrange 0 m) with (zrange 0 m) in *.
        rewrite Hval by lia. rewrite zn_zrange by lia. reflexivity.
Qed.

Section Sort.
Variables (xsup xlsub : list Z).
Definition skey (k : Z) : Z := zn xlsub (zn xsup k).

(* one round of the scan  for (j = i-1; j >= 0 && xlsub[xsup[order[j]]] > jstrt; j--) order[j+1] = order[j];
   j at the end of the prefix p, the slot behind it already copied (or the slot of k): *)
Lemma down_step : forall k p h x q jz it, jz = Z.of_nat (length p) ->
  gen_fixupL_down1 xsup xlsub (skey k) (jz, p ++ h :: x :: q) it =
  if skey k <? skey h then (jz - 1, p ++ h :: h :: q) else (jz, p ++ h :: x :: q).
Proof.
  intros k p h x q jz it Hj. unfold gen_fixupL_down1. cbv beta iota zeta.
  rewrite !(zn_app_at p h (x :: q)) by lia. rewrite (zupd_app_at1 p h x q) by lia. fold (skey h).
  destruct (skey k <? skey h) eqn:Hcmp; head_test; leaf.
Qed.

(* below the array: the scan stops *)
Lemma down_stop : forall jstrt jz o it, jz < 0 -> gen_fixupL_down1 xsup xlsub jstrt (jz, o) it = (jz, o).
Proof. intros jstrt jz o it Hj. unfold gen_fixupL_down1. cbv beta iota zeta. head_test; leaf. Qed.

(* the scan over the sorted prefix (reversed: r), then  order[j+1] = k;  inserts k where the model's ins_rev puts it.
   L: the rounds the bounded iteration may run (at least as many as the prefix is long); x: the slot k came from *)
Lemma down_tie : forall k r x q (L : list Z) jz, (length r <= length L)%nat -> jz = Z.of_nat (length r) - 1 ->
  exists j' o', fold_left (gen_fixupL_down1 xsup xlsub (skey k)) L (jz, rev r ++ x :: q) = (j', o') /\
                zupd o' (j' + 1) k = rev (ins_rev skey k r) ++ q.
Proof.
  intros k. induction r as [|h t IH]; intros x q L jz HL Hj.
  - exists jz, (x :: q). split.
    + apply iter_fixed. intros it. apply down_stop. cbn [length] in Hj. lia.
    + cbn [length] in Hj. replace (jz + 1) with 0 by lia. reflexivity.
  - destruct L as [|it L]; [cbn [length] in HL; lia|]. cbn [length] in HL, Hj.
    cbn [fold_left rev ins_rev]. rewrite <- app_assoc. cbn [app].
    rewrite (down_step k (rev t) h x q jz it) by (rewrite rev_length; lia).
    destruct (skey k <? skey h) eqn:Hcmp.
    + destruct (IH h (h :: q) L (jz - 1)) as (j' & o' & Hfold & Hins); [lia | lia |].
      exists j', o'. split; [exact Hfold|]. rewrite Hins. cbn [rev]. rewrite <- app_assoc. reflexivity.
    + exists jz, (rev t ++ h :: x :: q). split.
      * apply iter_fixed. intros it'. rewrite (down_step k (rev t) h x q jz it') by (rewrite rev_length; lia).
        rewrite Hcmp. reflexivity.
      * rewrite (zupd_app_at1 (rev t) h x q (jz + 1) k) by (rewrite rev_length; lia).
        cbn [rev]. rewrite <- !app_assoc. reflexivity.
Qed.

(* one round of the insertion sort: k = order[i] behind the sorted prefix *)
Lemma sort_step : forall r k rest i, i = Z.of_nat (length r) ->
  gen_fixupL_loop2 xsup xlsub (rev r ++ k :: rest) i = rev (ins_rev skey k r) ++ rest.
Proof.
  intros r k rest i Hi. unfold gen_fixupL_loop2. cbv beta zeta.
  rewrite !(zn_app_at (rev r) k rest) by (rewrite rev_length; lia). fold (skey k).
  match goal with |- context [fold_left _ ?L (?j0, _)] =>
    destruct (down_tie k r k rest L j0) as (j' & o' & Hfold & Hins);
      [ rewrite wz_length; lia | lia | rewrite Hfold ] end.
  cbv beta iota. rewrite <- Hins. f_equal; lia.
Qed.

Lemma ins_rev_length : forall k r, length (ins_rev skey k r) = S (length r).
Proof.
  intros k. induction r as [|h t IH]; [reflexivity|]. cbn [ins_rev].
  destruct (skey k <? skey h); cbn [length]; [rewrite IH|]; reflexivity.
Qed.

Lemma sort_loop_nat : forall m i r, i = Z.of_nat (length r) ->
  fold_left (gen_fixupL_loop2 xsup xlsub) (zrange i (i + Z.of_nat m)) (rev r ++ zrange i (i + Z.of_nat m)) =
  rev (fold_left (fun r k => ins_rev skey k r) (zrange i (i + Z.of_nat m)) r).
Proof.
  induction m as [|m IH]; intros i r Hi.
  - rewrite wz_nil by lia. cbn [fold_left]. apply app_nil_r.
  - rewrite wz_of_nat. cbn [fold_left]. rewrite (sort_step r i _ i Hi).
    apply IH. rewrite ins_rev_length. lia.
Qed.

(* the insertion sort on order = 0, 1, .., nsuper gives the model's storage order *)
Lemma sort_tie : forall nsuper,
  fold_left (gen_fixupL_loop2 xsup xlsub) (zrange 1 (nsuper + 1)) (zrange 0 (nsuper + 1)) = storage_order skey nsuper.
Proof.
  intros nsuper. unfold storage_order. set (ns := nsuper + 1).
  destruct (Z_le_dec ns 0) as [Hn|Hn].
  - rewrite (wz_nil 0 ns), (wz_nil 1 ns) by lia. reflexivity.
  - rewrite (wz_cons 0 ns) by lia. cbn [fold_left ins_rev]. change (0 + 1) with 1.
    rewrite (wz_nat 1 ns) by lia. apply (sort_loop_nat _ 1 [0]). reflexivity.
Qed.

Lemma storage_order_length : forall nsuper, length (storage_order skey nsuper) = Z.to_nat (nsuper + 1).
Proof.
  intros nsuper. unfold storage_order. rewrite rev_length.
  assert (Hgen : forall l r, length (fold_left (fun r k => ins_rev skey k r) l r) = (length l + length r)%nat).
  { induction l as [|k l IH]; intros r; [reflexivity|]. cbn [fold_left length]. rewrite IH, ins_rev_length. lia. }
  rewrite Hgen, wz_length. cbn [length]. lia.
Qed.
End Sort.

(* for (j = jstrt; j < xlsub_end[fsupc]; j++) { lsub[nextl] = perm_r[lsub[j]]; nextl++; } *)
Definition m_copy (perm_r : list Z) (ln : list Z * Z) (j : Z) : list Z * Z :=
  let '(ls, nl) := ln in (zupd ls nl (zn perm_r (zn ls j)), nl + 1).

Lemma copy_tie : forall perm_r l nl ls,
  fold_left (gen_fixupL_loop3 perm_r) l (nl, ls) =
  (snd (fold_left (m_copy perm_r) l (ls, nl)), fst (fold_left (m_copy perm_r) l (ls, nl))).
Proof.
  intros perm_r. induction l as [|j l IH]; intros nl ls; [reflexivity|].
  cbn [fold_left].
  assert (Hstep : gen_fixupL_loop3 perm_r (nl, ls) j = (nl + 1, zupd ls nl (zn perm_r (zn ls j)))).
  { unfold gen_fixupL_loop3. cbv beta iota zeta. leaf. }
  rewrite Hstep. cbn [m_copy]. apply IH.
Qed.

Lemma fixupL_sn_unfold : forall perm_r ls xl xe nl fsupc,
  fixupL_sn perm_r (ls, xl, xe, nl) fsupc =
  let r := fold_left (m_copy perm_r) (zrange (zn xl fsupc) (zn xe fsupc)) (ls, nl) in
  (fst r, zupd xl fsupc nl, zupd xe fsupc (snd r), snd r).
Proof.
  intros perm_r ls xl xe nl fsupc. unfold fixupL_sn. fold (m_copy perm_r). cbv zeta.
  destruct (fold_left _ _ (ls, nl)) as [a b]. reflexivity.
Qed.

(* one supernode of the compaction loop; the source keeps its variable i in the loop state, the model does not *)
Definition enc4 (i : Z) (st : list Z * list Z * list Z * Z) : Z * Z * list Z * list Z * list Z :=
  let '(ls, xl, xe, nl) := st in (nl, i, ls, xl, xe).

Lemma comp_step : forall perm_r xsup order st i0 k,
  gen_fixupL_loop4 perm_r xsup order (enc4 i0 st) k = enc4 (zn order k) (fixupL_sn perm_r st (zn xsup (zn order k))).
Proof.
  intros perm_r xsup order [[[ls xl] xe] nl] i0 k. rewrite fixupL_sn_unfold.
  unfold gen_fixupL_loop4, enc4. cbv beta iota zeta. rewrite copy_tie. cbv beta iota zeta. cbn [fst snd]. leaf.
Qed.

Lemma comp_loop : forall perm_r xsup order ks st i0, exists i1,
  fold_left (gen_fixupL_loop4 perm_r xsup order) ks (enc4 i0 st) =
  enc4 i1 (fold_left (fun st i => fixupL_sn perm_r st (zn xsup i)) (map (zn order) ks) st).
Proof.
  intros perm_r xsup order. induction ks as [|k ks IH]; intros st i0.
  - exists i0. reflexivity.
  - cbn [fold_left map]. rewrite comp_step. apply IH.
Qed.

(* THE TIE for fixupL: for every n, perm_r, image G and contents of the fresh scratch array *)
Theorem fixupL_tie : forall n perm_r G junk, gen_fixupL_G n perm_r G junk = fixupL n perm_r G.
Proof.
  intros n perm_r G junk. unfold gen_fixupL_G, gen_fixupL, fixupL. cbv beta zeta.
  destruct (n <=? 1) eqn:Hn; head_test; [reflexivity|].
  rewrite order_init. rewrite sort_tie. fold (skey (g_xsup G) (g_xlsub G)).
  set (order := storage_order (skey (g_xsup G) (g_xlsub G)) (zn (g_supno G) n)).
  match goal with |- context [fold_left (gen_fixupL_loop4 _ _ _) ?ks (?nl0, ?i0, ?ls0, ?xl0, ?xe0)] =>
    change (nl0, i0, ls0, xl0, xe0) with (enc4 i0 (ls0, xl0, xe0, nl0));
    destruct (comp_loop perm_r (g_xsup G) order ks (ls0, xl0, xe0, nl0) i0) as [i1 Hloop] end.
  rewrite Hloop. rewrite map_zn_zrange by (apply storage_order_length).
  destruct (fold_left _ order _) as [[[ls xl] xe] nl]. unfold enc4. cbv beta iota. leaf.
Qed.

(* both at once *)
Theorem source_fixupL_countnz_is_model :
  (forall n G, gen_countnz_G n G = countnz n G) /\
  (forall n perm_r G junk, gen_fixupL_G n perm_r G junk = fixupL n perm_r G).
Proof. split; [exact countnz_tie | exact fixupL_tie]. Qed.

(* ---------------------------------------------------------------------------------------------------------------------- *)
(* non-vacuity: the translated functions RUN, on the example images of WellFormedProofs.v, whatever the scratch array held:
   ok_G (three supernodes stored in numbering order) and f1_G (the storage order differs from the numbering: the sort matters) *)
Example ex_gen_fixupL : gen_fixupL_G 3 [2; 0; 1] ok_G (fun i => 7 - i) = ([2; 1; 0; 1; 1; 2; 9], [0; 2; 4; 5], [2; 4; 5]).
Proof. vm_compute. reflexivity. Qed.

Example ex_gen_fixupL_f1 : gen_fixupL_G 3 f1_perm f1_G (fun _ => -5) = fixupL 3 f1_perm f1_G /\
                           gen_fixupL_G 3 f1_perm f1_G (fun _ => -5) <> fixupL_number_order 3 f1_perm f1_G.
Proof. split; [vm_compute; reflexivity | vm_compute; intros Heq; discriminate Heq]. Qed.

Example ex_gen_countnz : gen_countnz_G 3 ok_G = countnz 3 ok_G /\ fst (gen_countnz_G 3 ok_G) <> 0.
Proof. split; [vm_compute; reflexivity | vm_compute; intros Heq; discriminate Heq]. Qed.

(* ---------------------------------------------------------------------------------------------------------------------- *)
(* C09 for the translated function: WellFormedProofs.fixupL_correct about what the source computes *)
Theorem source_fixupL_correct : forall n perm_r G junk, 1 < n ->
  let nsuper := zn (g_supno G) n in
  let xs := zn (g_xsup G) in
  let fsl := map xs (storage_order (fun k => zn (g_xlsub G) (xs k)) nsuper) in
  (forall s t, 0 <= s <= nsuper -> 0 <= t <= nsuper -> xs s = xs t -> s = t) ->
  (forall s, 0 <= s <= nsuper -> 0 <= xs s < zlen (g_xlsub G) /\ xs s < zlen (g_xlsub_end G) /\ xs s <> n) ->
  (forall s, 0 <= s <= nsuper ->
     0 <= zn (g_xlsub G) (xs s) /\ zn (g_xlsub G) (xs s) < zn (g_xlsub_end G) (xs s) <= zlen (g_lsub G)) ->
  (forall s t, 0 <= s <= nsuper -> 0 <= t <= nsuper ->
     s = t \/ disjoint (zn (g_xlsub G) (xs s)) (zn (g_xlsub_end G) (xs s)) (zn (g_xlsub G) (xs t)) (zn (g_xlsub_end G) (xs t))) ->
  0 <= n < zlen (g_xlsub G) ->
  let '(lsub', xl', xe') := gen_fixupL_G n perm_r G junk in
  fix_spec perm_r (g_lsub G) (g_xlsub G) (g_xlsub_end G) fsl 0 lsub' xl' xe' /\
  zn xl' n = total (g_xlsub G) (g_xlsub_end G) fsl /\
  (forall s, 0 <= s <= nsuper -> In (xs s) fsl).
Proof.
  intros n perm_r G junk Hn. rewrite fixupL_tie. exact (fixupL_correct n perm_r G Hn).
Qed.
