#!/bin/sh
# MANIFEST.setup_cmd: build the whole framework offline from files on disk.
set -e
cd "$(dirname "$0")"
rm -rf build
mkdir -p build evidence/replay
rm -f coq/*.vo coq/*.vok coq/*.vos coq/*.glob coq/.*.aux coq/Makefile coq/Makefile.conf coq/.Makefile.d coq/_CoqProject coq/*_model.ml coq/*_model.mli
python3 - <<'PY'
import sys; sys.path.insert(0, "lib")
import vf
bad = vf.grep_gate()
if bad:
    print("GREP GATE: \n" + "\n".join(bad))   # every check repeats this gate and reports it as a broken obligation
PY
# full .vo build of every theorem and every extraction file (timeout generous; normally a few minutes).
# A file that does not build is reported by the check that needs it (its proofs count as broken); setup itself only
# requires the files of the checks registered in MANIFEST.json (tools/integrated.json) to build.
timeout 3000 tools/coqmake all || echo "setup: some Coq files did not build (see above)"
for id in $(python3 -c "import json; print(' '.join(json.load(open('tools/integrated.json'))))"); do
  timeout 3000 tools/coqmake Properties_$id.vo
done
python3 - <<'PY'
import sys, glob, os; sys.path.insert(0, "lib")
import vf
c = vf.Ctx("C00", "quick", 1)
for f in sorted(glob.glob("extract/*_driver.ml")):
    a = os.path.basename(f)[:-len("_driver.ml")]
    print("ocaml model", a, c.ocaml_model(a))
lib, fl = c.build_lib("hooks")
print("C library", lib)
PY
echo "setup ok"
