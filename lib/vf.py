"""Common machinery for the /verif checks (see DESIGN.md section 2).

Every check is run as  ./check <ID> --tier quick|thorough  and goes through
  1. C library rebuilt from the *current* /repo working tree (hooks on),
  2. Consts.v regenerated from the headers (translator, K-const),
  3. the Coq theorems of Properties_<ID>.v re-checked (full .vo build, Print Assumptions parsed),
  4. the correspondence / oracle code of checks/<id>.py,
  5. evidence/<ID>.json written, VIOLATION / KNOWN-FINDING lines printed.
"""
import os, sys, json, time, hashlib, subprocess, re, random, fcntl, shutil, glob
from concurrent.futures import ThreadPoolExecutor

VERIF = os.path.dirname(os.path.dirname(os.path.abspath(__file__)))
REPO = os.environ.get("VERIF_REPO", "/repo")
EVDIR = os.environ.get("VERIF_EVIDENCE_DIR")      # mutation trials write their evidence elsewhere
BUILD = os.path.join(VERIF, "build")
COQ = os.path.join(VERIF, "coq")
GUARD = "SLU_MT_VERIF"
NCPU = os.cpu_count() or 4

# axioms of the standard library that a property theorem may depend on (DESIGN.md section 7)
ALLOWED_AXIOMS = {
    "ClassicalDedekindReals.sig_forall_dec",
    "ClassicalDedekindReals.sig_not_dec",
    "FunctionalExtensionality.functional_extensionality_dep",
    "functional_extensionality_dep",
    "Classical_Prop.classic",
    "classic",
    "sig_forall_dec",
    "sig_not_dec",
    "Eqdep.Eq_rect_eq.eq_rect_eq",
    "JMeq_eq", "JMeq.JMeq_eq",
    "proof_irrelevance", "ProofIrrelevance.proof_irrelevance",
    "propositional_extensionality", "PropExtensionality.propositional_extensionality",
    "constructive_indefinite_description", "IndefiniteDescription.constructive_indefinite_description",
}


def sh(cmd, cwd=None, timeout=None, env=None, inp=None):
    """run a command, return (rc, stdout+stderr)"""
    try:
        p = subprocess.run(cmd, cwd=cwd, shell=isinstance(cmd, str), stdout=subprocess.PIPE,
                           stderr=subprocess.STDOUT, timeout=timeout, env=env, input=inp)
        return p.returncode, p.stdout.decode("utf-8", "replace")
    except subprocess.TimeoutExpired as e:
        return 124, (e.stdout or b"").decode("utf-8", "replace") + "\n[timeout]"


def sh2(cmd, cwd=None, timeout=None, env=None, inp=None):
    """run a command, return (rc, stdout, stderr) separately; inp is bytes or str"""
    if isinstance(inp, str):
        inp = inp.encode()
    try:
        p = subprocess.run(cmd, cwd=cwd, shell=isinstance(cmd, str), stdout=subprocess.PIPE,
                           stderr=subprocess.PIPE, timeout=timeout, env=env, input=inp)
        return p.returncode, p.stdout.decode("utf-8", "replace"), p.stderr.decode("utf-8", "replace")
    except subprocess.TimeoutExpired as e:
        return 124, (e.stdout or b"").decode("utf-8", "replace"), "[timeout]"


def sha(*parts):
    h = hashlib.sha1()
    for p in parts:
        h.update(p if isinstance(p, bytes) else str(p).encode())
        h.update(b"\0")
    return h.hexdigest()


def read(path):
    with open(path, "rb") as f:
        return f.read()


class Lock:
    def __init__(self, name):
        os.makedirs(BUILD, exist_ok=True)
        self.path = os.path.join(BUILD, name + ".lock")

    def __enter__(self):
        self.f = open(self.path, "w")
        fcntl.flock(self.f, fcntl.LOCK_EX)
        return self

    def __exit__(self, *a):
        fcntl.flock(self.f, fcntl.LOCK_UN)
        self.f.close()


class CheckError(Exception):
    pass


class Ctx:
    def __init__(self, pid, tier, seed):
        self.pid, self.tier, self.seed = pid, tier, seed
        self.t0 = time.time()
        self.rng = random.Random(seed * 1000003 + int(pid[1:]))
        self.bdir = os.path.join(BUILD, pid)
        os.makedirs(self.bdir, exist_ok=True)
        os.makedirs(os.path.join(EVDIR or os.path.join(VERIF, "evidence"), "replay"), exist_ok=True)
        self.violations = []          # list of dict
        self.known_hit = []
        self.cov = {"evaluations": 0, "distinct_nontrivial": 0, "rule": "", "samples": [],
                    "obligations": 0, "discharged": 0, "checker_cmd": "", "trusted_base": [],
                    "theorems": [], "assumptions_printed": {}, "partial": [], "histogram": {},
                    "correspondence": {}, "traces_validated_against_impl": 0}
        self.assumptions = []
        self._distinct = set()
        self.known = self._load_known()
        self.log_lines = []
        self.broken = []              # names of theorems / correspondences that no longer check

    # ------------------------------------------------------------------ utilities
    def log(self, *a):
        s = " ".join(str(x) for x in a)
        self.log_lines.append(s)
        print("[%s %6.1fs] %s" % (self.pid, time.time() - self.t0, s), flush=True)

    def quick(self):
        return self.tier == "quick"

    def _load_known(self):
        p = os.path.join(VERIF, "known_findings.json")
        if not os.path.exists(p):
            return []
        return [k for k in json.load(open(p)).get("findings", [])]

    # ------------------------------------------------------------------ C side
    def _hdr_hash(self):
        h = hashlib.sha1()
        for d in ("SRC", "CBLAS"):
            for f in sorted(glob.glob(os.path.join(REPO, d, "*.h"))):
                h.update(os.path.basename(f).encode()); h.update(read(f))
        for f in sorted(glob.glob(os.path.join(VERIF, "harness", "*.h")) + glob.glob(os.path.join(VERIF, "harness", "*.inc"))):
            h.update(os.path.basename(f).encode()); h.update(read(f))
        return h.hexdigest()

    def cc_objects(self, sources, flags, tag):
        """compile sources -> object files through a content-addressed cache; returns list of .o"""
        cache = os.path.join(BUILD, "objcache")
        os.makedirs(cache, exist_ok=True)
        hh = self._hdr_hash()
        jobs, objs = [], []
        for s in sources:
            key = sha(read(s), " ".join(flags), hh, os.path.basename(s))
            o = os.path.join(cache, key + ".o")
            objs.append(o)
            if not os.path.exists(o):
                jobs.append((s, o))

        def one(job):
            s, o = job
            tmp = o + ".%d.tmp" % os.getpid()
            rc, out = sh(["gcc"] + flags + ["-c", s, "-o", tmp])
            if rc != 0:
                return (s, out)
            os.replace(tmp, o)
            return None
        with ThreadPoolExecutor(NCPU) as ex:
            errs = [e for e in ex.map(one, jobs) if e]
        if errs:
            raise CheckError("C compile failed (%s): %s\n%s" % (tag, errs[0][0], errs[0][1][-2000:]))
        return objs

    def build_lib(self, flavor="hooks", extra=()):
        """libslu for the current /repo tree.  flavors: hooks (default, -O2, guard on),
        nohooks, asan (guard on, ASan+UBSan), fault (USER_MALLOC interposed)"""
        base = ["-w", "-g", "-D__PTHREAD", "-DAdd_", "-std=gnu99", "-ffp-contract=off",
                "-I" + os.path.join(REPO, "SRC"), "-I" + os.path.join(VERIF, "harness")]
        if flavor == "hooks":
            fl = base + ["-O2", "-D" + GUARD]
        elif flavor == "vendor":      # the USE_VENDOR_BLAS code paths (as the pinned cmake build), BLAS = /repo/CBLAS
            fl = base + ["-O2", "-D" + GUARD, "-DUSE_VENDOR_BLAS"]
        elif flavor == "nohooks":
            fl = base + ["-O2"]
        elif flavor == "asan":
            fl = base + ["-O1", "-D" + GUARD, "-fsanitize=address,undefined", "-fno-omit-frame-pointer"]
        elif flavor == "fault":
            fl = base + ["-O1", "-D" + GUARD, "-DUSER_MALLOC=verif_malloc", "-DUSER_FREE=verif_free",
                         "-DUSER_ABORT=verif_abort", "-include", os.path.join(VERIF, "harness", "verif_malloc.h")]
        elif flavor == "faultasan":
            fl = base + ["-O1", "-D" + GUARD, "-DUSER_MALLOC=verif_malloc", "-DUSER_FREE=verif_free",
                         "-DUSER_ABORT=verif_abort", "-include", os.path.join(VERIF, "harness", "verif_malloc.h"),
                         "-fsanitize=address", "-fno-omit-frame-pointer"]
        else:
            raise CheckError("unknown flavor " + flavor)
        fl = fl + list(extra)
        # the repository mixes plain malloc()/free() with SUPERLU_MALLOC/SUPERLU_FREE (sp_colorder.c, qrnzcnt.c,
        # cholnzcnt.c, p?memory.c); with an interposed USER_MALLOC every library allocation must go the same way
        lib_only = ["-Dmalloc=verif_malloc", "-Dfree=verif_free"] if flavor.startswith("fault") else []
        src = sorted(f for f in glob.glob(os.path.join(REPO, "SRC", "*.c"))
                     if os.path.basename(f) != "sp_ienv.c")
        cb = sorted(f for f in glob.glob(os.path.join(REPO, "CBLAS", "*.c"))
                    if not os.path.basename(f).endswith("myblas2.c"))   # stale copies, not in CBLAS/Makefile
        objs = self.cc_objects(src, fl + lib_only, flavor) + \
            self.cc_objects(cb, fl + lib_only + ["-I" + os.path.join(REPO, "CBLAS")], flavor + "-cblas")
        tag = sha(*objs)[:16]
        lib = os.path.join(BUILD, "libcache", "libslu_%s_%s.a" % (flavor, tag))
        if not os.path.exists(lib):
            os.makedirs(os.path.dirname(lib), exist_ok=True)
            tmp = lib + ".%d.tmp" % os.getpid()
            if os.path.exists(tmp):
                os.unlink(tmp)
            rc, out = sh(["ar", "rcs", tmp] + objs)
            if rc != 0:
                raise CheckError("ar failed: " + out)
            os.replace(tmp, lib)
        self._lib_flags = fl
        return lib, fl

    def cc_harness(self, name, sources, lib, flags, extra_link=()):
        """link harness sources (in /verif/harness) against lib; returns path of the binary"""
        srcs = [s if os.path.isabs(s) else os.path.join(VERIF, "harness", s) for s in sources]
        objs = self.cc_objects(srcs, flags, "harness-" + name)
        exe = os.path.join(self.bdir, name + "_" + sha(lib, *objs)[:12])
        if not os.path.exists(exe):
            tmp = exe + ".%d.tmp" % os.getpid()
            san = [f for f in flags if f.startswith("-fsanitize")]
            rc, out = sh(["gcc"] + san + ["-o", tmp] + objs + [lib, "-lm", "-lpthread"] + list(extra_link))
            if rc != 0:
                raise CheckError("link failed for %s: %s" % (name, out[-3000:]))
            os.replace(tmp, exe)
        return exe

    # ------------------------------------------------------------------ Coq side
    def gen_consts(self):
        rc, out = sh([sys.executable, os.path.join(VERIF, "tools", "gen_consts.py"), REPO,
                      os.path.join(COQ, "Consts.v")])
        if rc != 0:
            raise CheckError("gen_consts failed: " + out)
        # decision logic re-translated from the C source (clang AST -> Gallina): coq/*Gen.v
        rc, out = sh([sys.executable, os.path.join(VERIF, "tools", "gen_trans.py"), REPO, COQ])
        if rc != 0:
            raise CheckError("gen_trans failed: " + out)

    def coq_make(self, targets, timeout=3000):
        """full .vo build of the given targets (and their dependencies); returns (ok, output)"""
        with Lock("coq"):
            self.gen_consts()
            coq_project()
            rc, out = sh(["make", "-k", "-j%d" % NCPU] + list(targets), cwd=COQ, timeout=timeout)
        return rc == 0, out

    def coq_properties(self):
        """re-check Properties_<pid>.v: every Theorem in it is an obligation.  Returns True when all
        discharged.  Broken theorem names go to self.broken."""
        pf = os.path.join(COQ, "Properties_%s.v" % self.pid)
        src = open(pf).read()
        thms = re.findall(r"^\s*Theorem\s+([A-Za-z0-9_']+)", src, re.M)
        self.cov["theorems"] = thms
        self.cov["obligations"] = len(thms)
        cmd = "cd coq && make -k -j%d Properties_%s.vo && coqc -Q . SLU Properties_%s.v" % (NCPU, self.pid, self.pid)
        self.cov["checker_cmd"] = cmd + "   (coq_makefile full .vo build; Consts.v regenerated from /repo headers first)"
        t = time.time()
        ok, out = self.coq_make(["Properties_%s.vo" % self.pid])
        if not ok:
            # which file / line failed?
            m = re.findall(r'File "\./([^"]+)", line (\d+), characters [^\n]*\n(?:.*\n)*?Error:?\s*([^\n]*(?:\n [^\n]*)*)', out)
            names = []
            for f, ln, msg in m:
                names.append("%s:%s %s" % (f, ln, self._lemma_at(os.path.join(COQ, f), int(ln))))
            if not names:
                names = ["coq build failed: " + out[-800:]]
            self.broken += names
            self.cov["discharged"] = 0
            self.cov["coq_error"] = out[-3000:]
            self.log("Coq build FAILED:", names)
            return False
        # recompile the property file itself to collect Print Assumptions output
        with Lock("coq"):
            rc, out = sh(["coqc", "-Q", ".", "SLU", "Properties_%s.v" % self.pid], cwd=COQ, timeout=1200)
        if rc != 0:
            self.broken.append("Properties_%s.v: %s" % (self.pid, out[-800:]))
            self.cov["discharged"] = 0
            return False
        ass = self._parse_assumptions(out, thms)
        self.cov["assumptions_printed"] = ass
        bad = {}
        for th, axs in ass.items():
            for a in axs:
                nm = a.split(":")[0].strip()
                if nm not in ALLOWED_AXIOMS and not nm.startswith("Coq.Floats") and not nm.startswith("PrimFloat") \
                        and not nm.startswith("FloatAxioms") and not nm.startswith("Uint63") and not nm.startswith("PrimInt63"):
                    bad.setdefault(th, []).append(nm)
        if bad:
            self.broken.append("disallowed axioms: %s" % bad)
            self.cov["discharged"] = 0
            return False
        self.cov["discharged"] = len(thms)
        self.log("Coq: %d/%d theorems of Properties_%s.v re-checked in %.1fs" %
                 (len(thms), len(thms), self.pid, time.time() - t))
        return True

    @staticmethod
    def _lemma_at(path, line):
        try:
            ls = open(path).read().split("\n")
        except OSError:
            return "?"
        for i in range(min(line, len(ls)) - 1, -1, -1):
            m = re.match(r"\s*(?:Local\s+|Global\s+)?(Theorem|Lemma|Corollary|Definition|Fixpoint|Example|Fact|Remark|Proposition)\s+([A-Za-z0-9_']+)", ls[i])
            if m:
                return m.group(2)
        return "?"

    @staticmethod
    def _parse_assumptions(out, thms):
        """coqc prints, for each `Print Assumptions t.`, either 'Closed under the global context' or
        'Axioms:' followed by the list.  They come in file order = theorem order."""
        res, blocks, cur = {}, [], None
        for ln in out.split("\n"):
            if ln.startswith("Closed under the global context"):
                blocks.append([]); cur = None
            elif ln.startswith("Axioms:"):
                cur = []; blocks.append(cur)
            elif cur is not None:
                if re.match(r"^[A-Za-z_][A-Za-z0-9_.']*\s*:", ln) or re.match(r"^[A-Za-z_][A-Za-z0-9_.']*$", ln.strip()) and not ln.startswith(" "):
                    cur.append(ln.strip())
                elif ln.startswith(" ") or ln.strip() == "":
                    pass
                else:
                    cur = None
        for i, th in enumerate(thms):
            res[th] = blocks[i] if i < len(blocks) else ["<no Print Assumptions found>"]
        return res

    def ocaml_model(self, area):
        """extract coq/Extract_<area>.v and build extract/<area>_driver.ml against it; returns exe path"""
        ok, out = self.coq_make(["Extract_%s.vo" % area])
        if not ok:
            raise CheckError("extraction build failed for %s:\n%s" % (area, out[-3000:]))
        ml = os.path.join(COQ, "%s_model.ml" % area)
        drv = os.path.join(VERIF, "extract", "%s_driver.ml" % area)
        key = sha(read(ml), read(drv))[:12]
        exe = os.path.join(BUILD, "ocaml", "%s_%s" % (area, key))
        if os.path.exists(exe):
            return exe
        with Lock("ocaml_" + area):
            if os.path.exists(exe):
                return exe
            d = os.path.join(BUILD, "ocaml", "%s_%s.d" % (area, key))
            shutil.rmtree(d, ignore_errors=True)
            os.makedirs(d)
            for f in (ml, ml + "i"):
                shutil.copy(f, d)
            shutil.copy(drv, os.path.join(d, "driver.ml"))
            rc, out = sh("ocamlfind ocamlopt -O3 -w -a -package str -linkpkg %s_model.mli %s_model.ml driver.ml -o drv.exe 2>&1 || "
                         "ocamlfind ocamlopt -w -a -package str -linkpkg %s_model.mli %s_model.ml driver.ml -o drv.exe"
                         % (area, area, area, area), cwd=d)
            if not os.path.exists(os.path.join(d, "drv.exe")):
                raise CheckError("ocaml build failed for %s: %s" % (area, out[-3000:]))
            os.replace(os.path.join(d, "drv.exe"), exe)
            shutil.rmtree(d, ignore_errors=True)
        return exe

    # ------------------------------------------------------------------ bookkeeping
    def count(self, case_key, nontrivial=True, kind=None):
        """count one evaluated case; case_key identifies it for distinctness"""
        self.cov["evaluations"] += 1
        if kind:
            self.cov["histogram"][kind] = self.cov["histogram"].get(kind, 0) + 1
        if nontrivial:
            k = sha(json.dumps(case_key, sort_keys=True, default=str))
            if k not in self._distinct:
                self._distinct.add(k)
                self.cov["distinct_nontrivial"] += 1

    def sample(self, obj, limit=4):
        if len(self.cov["samples"]) < limit:
            self.cov["samples"].append(obj)

    def corr(self, name, n=1):
        self.cov["correspondence"][name] = self.cov["correspondence"].get(name, 0) + n

    def replay_path(self, tag="v"):
        i = 0
        while True:
            p = os.path.join(EVDIR or os.path.join(VERIF, "evidence"), "replay", "%s-%s-%d.json" % (self.pid, tag, i))
            if not os.path.exists(p):
                return p
            i += 1

    def match_known(self, key):
        """key: dict.  A known finding matches when every field of its 'key' equals the same field here."""
        for k in self.known:
            if k.get("property") != self.pid or not k.get("status", "known").startswith("known"):
                continue
            kk = k.get("key", {})
            if kk and all(key.get(f) == v for f, v in kk.items()):
                return k
        return None

    def violation(self, what, replay, key=None, found_input=True):
        """report a violation (or a known finding).  replay: JSON-serialisable description that
        ./check <ID> --replay can re-run.  key: structured identification used for known findings."""
        key = key or {}
        kf = self.match_known(key) if found_input else None
        if kf is not None:
            if kf["id"] not in [k["id"] for k in self.known_hit]:
                self.known_hit.append(kf)
                print("KNOWN-FINDING: property=%s %s [%s] (%s)" % (self.pid, kf["what"], kf["id"], what), flush=True)
            return False
        # one VIOLATION line per distinct key
        sig = json.dumps(key, sort_keys=True) if key else what
        if sig in [v["sig"] for v in self.violations]:
            return True
        p = self.replay_path("v" if found_input else "obligation")
        body = {"property": self.pid, "what": what, "key": key, "found_failing_input": found_input,
                "broken": self.broken, "replay": replay, "seed": self.seed, "tier": self.tier}
        with open(p, "w") as f:
            json.dump(body, f, indent=1, default=str)
        self.violations.append({"sig": sig, "what": what, "path": p, "found": found_input})
        print("VIOLATION property=%s replay=%s%s" % (self.pid, p, "" if found_input else " no-failing-input-found"), flush=True)
        self.log("  ^", what)
        return True

    def finish(self):
        """write the evidence file; if something is broken and no failing input was found, say so"""
        if self.broken and not any(v["found"] for v in self.violations):
            self.violation("proof obligation or correspondence no longer checks: %s" % "; ".join(self.broken)[:1500],
                           {"kind": "obligation", "broken": self.broken}, found_input=False)
        ev = {"property_id": self.pid, "tier": self.tier, "seed": self.seed, "level": "proof",
              "coverage": self.cov, "assumptions": self.assumptions, "wall_s": round(time.time() - self.t0, 2),
              "violations": len(self.violations),
              "known_findings_hit": [k["id"] for k in self.known_hit]}
        if not self.cov["samples"]:
            self.cov["samples"] = ["(no case recorded)"]
        os.makedirs(EVDIR or os.path.join(VERIF, "evidence"), exist_ok=True)
        tmp = os.path.join(EVDIR or os.path.join(VERIF, "evidence"), "%s.json.tmp" % self.pid)
        with open(tmp, "w") as f:
            json.dump(ev, f, indent=1, default=str)
        os.replace(tmp, os.path.join(EVDIR or os.path.join(VERIF, "evidence"), "%s.json" % self.pid))
        return 1 if self.violations else 0


def coq_project():
    """(re)generate coq/_CoqProject and coq/Makefile when the set of .v files changed (call under Lock('coq'))"""
    vs = sorted(os.path.basename(f) for f in glob.glob(os.path.join(COQ, "*.v")))
    txt = "-Q . SLU\n-arg -w -arg -notation-overridden,-deprecated-hint-without-locality,-deprecated-instance-without-locality\n" + "\n".join(vs) + "\n"
    pj = os.path.join(COQ, "_CoqProject")
    if not os.path.exists(pj) or open(pj).read() != txt or not os.path.exists(os.path.join(COQ, "Makefile")):
        open(pj, "w").write(txt)
        rc, out = sh("coq_makefile -f _CoqProject -o Makefile", cwd=COQ)
        if rc != 0:
            raise CheckError("coq_makefile failed: " + out)


TRUSTED_COMMON = [
    "Coq 8.16.1 kernel (coqc, full .vo build); vm_compute used for refuted-witnesses/finite sweeps; no native_compute",
    "no Axiom/Parameter/Admitted in the development (grep gate in setup and in every check)",
    "extraction: ExtrOcamlBasic only (Extract Inductive bool/option/unit/list/prod/sumbool from that file), no Extract Constant; OCaml 4.13.1 + the line-oriented driver",
    "tools/gen_consts.py (regex translator of enum/#define constants from /repo/SRC headers into coq/Consts.v)",
    "C harness + gcc 12 -O2 -ffp-contract=off build of the current /repo/SRC and /repo/CBLAS with -DSLU_MT_VERIF",
    "the model is hand written: only the correspondence check ties it to the C code",
]


def grep_gate():
    """no Admitted / admit / Axiom / Parameter / Conjecture / guard switches anywhere in coq/*.v"""
    bad = []
    pat = re.compile(r"\b(Admitted|admit|Axiom|Axioms|Parameter|Parameters|Conjecture|Admit Obligations|bypass_check|Unset Guard Checking|Unset Positivity Checking|Unset Universe Checking)\b|type-in-type|impredicative-set")
    for f in sorted(glob.glob(os.path.join(COQ, "*.v"))):
        txt = open(f).read()
        txt = re.sub(r"\(\*.*?\*\)", "", txt, flags=re.S)
        for i, ln in enumerate(txt.split("\n")):
            if pat.search(ln):
                bad.append("%s:%d: %s" % (os.path.basename(f), i + 1, ln.strip()))
    # Variable / Hypothesis only inside sections
    for f in sorted(glob.glob(os.path.join(COQ, "*.v"))):
        depth = 0
        txt = re.sub(r"\(\*.*?\*\)", "", open(f).read(), flags=re.S)
        for i, ln in enumerate(txt.split("\n")):
            if re.match(r"\s*Section\s", ln): depth += 1
            elif re.match(r"\s*End\s", ln) and depth > 0: depth -= 1
            elif re.match(r"\s*(Variable|Variables|Hypothesis|Hypotheses|Context)\b", ln) and depth == 0:
                bad.append("%s:%d: %s outside Section" % (os.path.basename(f), i + 1, ln.strip()))
    return bad
