"""Reconstruction of dense L, U from the SCP / NCP structures dumped by harness/drv_harness.c, and the exact
(rational) certificate oracles of C01/C02 (python fractions: every IEEE value is a rational)."""
from fractions import Fraction


def fl(x):
    return float.fromhex(x) if isinstance(x, str) else float(x)


def dense_LU(res, ncomp=1):
    """returns (L, U) as dicts (i,j)->value (float or complex) in the pivoted row / permuted column numbering:
    Pr*A*Pc = L*U with L unit lower triangular.  Raises ValueError on structurally broken data."""
    n = res["n"]
    Ls, Us = res["L"], res["U"]
    lv = [fl(x) for x in Ls["nzval"]]
    uv = [fl(x) for x in Us["nzval"]]
    if ncomp == 2:
        lv = [complex(lv[2 * i], lv[2 * i + 1]) for i in range(len(lv) // 2)]
        uv = [complex(uv[2 * i], uv[2 * i + 1]) for i in range(len(uv) // 2)]
    L, U = {}, {}
    for j in range(n):
        s = Ls["col_to_sup"][j]
        if not (0 <= s <= Ls["nsuper"]):
            raise ValueError("col_to_sup[%d]=%d out of range" % (j, s))
        f = Ls["sup_to_colbeg"][s]
        rb, re_ = Ls["rowind_colbeg"][f], Ls["rowind_colend"][f]
        rows = Ls["rowind"][rb:re_]
        vb, ve = Ls["nzval_colbeg"][j], Ls["nzval_colend"][j]
        if ve - vb != len(rows):
            raise ValueError("column %d: %d values for %d rows" % (j, ve - vb, len(rows)))
        for k, r in enumerate(rows):
            v = lv[vb + k]
            if r < j:
                U[(r, j)] = v
            elif r == j:
                U[(r, j)] = v
                L[(r, j)] = 1.0
            else:
                L[(r, j)] = v
        for p in range(Us["colbeg"][j], Us["colend"][j]):
            U[(Us["rowind"][p], j)] = uv[p]
    return L, U


def frac(x):
    if isinstance(x, complex):
        return (Fraction(x.real), Fraction(x.imag))
    return Fraction(x)


def gamma(k, u):
    return k * u / (1 - k * u)


UNIT = {"d": Fraction(1, 2 ** 53), "z": Fraction(1, 2 ** 53), "s": Fraction(1, 2 ** 24), "c": Fraction(1, 2 ** 24)}


def cabs(z):
    """upper bound of |z| as a Fraction for complex given as python complex (used on the *bound* side only)"""
    if isinstance(z, complex):
        return Fraction(abs(z.real)) + Fraction(abs(z.imag))      # |z| <= |re|+|im|
    return abs(Fraction(z))


def cabs_lower(z):
    if isinstance(z, complex):
        return max(abs(Fraction(z.real)), abs(Fraction(z.imag)))  # |z| >= max(|re|,|im|)
    return abs(Fraction(z))
