"""Python transcription of the relaxed-supernode matching in ?PresetMap (SRC/p?memory.c) and of pxgstrf_relax_snode,
used ONLY to attribute an observed L-slot overrun to the known finding F29 (rs index out of sync)."""


def relax_snodes(n, etree, relax):
    desc = [0] * (n + 1)
    for j in range(n):
        desc[etree[j]] += desc[j] + 1
    out = []
    j = 0
    while j < n:
        parent = etree[j]; f = j
        while parent != n and desc[parent] < relax:
            j = parent; parent = etree[j]
        out.append((f, j - f + 1))
        j += 1
        while j < n and desc[j] != 0:
            j += 1
    return out


def presetmap_out_of_sync(n, etree, part_super_h, relax, maxsup):
    """True when the loop of ?PresetMap skips over the first column of a relaxed supernode (its index rs then never
    matches again and every later relaxed supernode is given the slot of a plain H-supernode)"""
    sb = list(part_super_h)
    j = 0
    while j < n:            # split by maxsup, as the C code does
        w = sb[j]; k = j + w
        if w > maxsup:
            w0 = w % maxsup or maxsup
            jj = j
            while jj < k:
                sb[jj] = w0; jj += w0; w0 = maxsup
        if k <= j:
            break
        j = k
    rl = relax_snodes(n, etree, relax)
    rs = 0
    j = 0
    while j < n:
        if rs < len(rl) and rl[rs][0] == j:
            w0 = rl[rs][1]; rs += 1
            last = j + w0
            i = j
            while i < last:
                if sb[i] < 1:
                    return True
                i += sb[i]
            w = i - j
        else:
            w = sb[j]
            if rs < len(rl) and j < rl[rs][0] < j + w:
                return True          # the H-supernode starting at j swallows the start of relaxed supernode rs
            if rs < len(rl) and rl[rs][0] < j:
                return True
        if w <= 0:
            return True
        j += w
    return rs != len(rl)
