"""Python side of harness/drv_harness.c: case serialisation, batch running, result parsing."""
import json, os
import vf

PRECS = {"d": "-DPREC_D", "s": "-DPREC_S", "c": "-DPREC_C", "z": "-DPREC_Z"}


def build(ctx, prec="d", flavor="hooks"):
    lib, fl = ctx.build_lib(flavor)
    extra = []
    if flavor == "vendor":      # BLAS-3 (dtrsm/dgemm in ?gstrs) is not in /repo/CBLAS: use the system OpenBLAS as the pinned build does
        extra = ["/usr/lib/x86_64-linux-gnu/libopenblas.so"]
    # lock_jitter.c: random delay before every pthread_mutex_lock of the library (a legal schedule), on for perturbed cases
    # thread_track.c: every thread the library creates is counted exactly (trampoline), the k-th creation can be made to fail
    return ctx.cc_harness("drv_%s_%s" % (prec, flavor), ["drv_harness.c", "sp_ienv_verif.c", "lock_jitter.c", "thread_track.c"], lib, fl + [PRECS[prec]],
                          extra_link=extra + ["-Wl,--wrap=pthread_mutex_lock", "-Wl,--wrap=pthread_create"])


def hexf(x):
    return float(x).hex()


def case_text(c):
    """c: dict with keys id, driver, stype, m, n, colptr, rowind, vals (floats; complex as flat re,im), nrhs, rhs,
    nprocs, colperm, permc, permr, ienv, thresh, usepr, symmetric, fact, trans, perturb (seed,prob,maxus), trace, dumplu, timeout"""
    L = []
    L.append("id %d" % c.get("id", 0))
    L.append("driver %s" % c.get("driver", "gssv"))
    L.append("stype %s" % c.get("stype", "NC"))
    nnz = len(c["rowind"])
    L.append("dims %d %d %d %d" % (c["m"], c["n"], nnz, c.get("nrhs", 1)))
    L.append("colptr " + " ".join(map(str, c["colptr"])))
    L.append("rowind " + " ".join(map(str, c["rowind"])))
    L.append("vals " + " ".join(hexf(v) for v in c["vals"]))
    L.append("rhs " + " ".join(hexf(v) for v in c.get("rhs", [])))
    if c.get("rhs2") is not None:
        L.append("rhs2 " + " ".join(hexf(v) for v in c["rhs2"]))
        L.append("trans2 %d" % c.get("trans2", 0))
    L.append("nprocs %d" % c.get("nprocs", 1))
    L.append("colperm %d" % c.get("colperm", 0))
    if c.get("permc") is not None:
        L.append("permc " + " ".join(map(str, c["permc"])))
    if c.get("permr") is not None:
        L.append("permr " + " ".join(map(str, c["permr"])))
    if c.get("ienv"):
        L.append("ienv " + " ".join(map(str, c["ienv"])))
    L.append("thresh %s" % hexf(c.get("thresh", 1.0)))
    for k in ("usepr", "symmetric", "fact", "trans", "trace", "dumplu", "timeout", "ldb", "ldx", "createfail"):
        if k in c:
            L.append("%s %d" % (k, c[k]))
    if c.get("perturb"):
        L.append("perturb %d %r %d" % tuple(c["perturb"]))
    if c.get("stall"):
        L.append("stall %d %d %d" % tuple(c["stall"]))
    L.append("RUN")
    return "\n".join(L) + "\n"


def crash_site(rc, err):
    """where a run died, precision letter folded: 'heap-buffer-overflow@p?gstrf_bmod1D', 'SEGV@p?gstrf_pivotL', 'signal:11', 'abort:<msg>'"""
    import re
    m = re.search(r"ERROR: AddressSanitizer: (?:attempting )?([A-Za-z-]+)", err or "")
    kind = m.group(1) if m else None
    fn = None
    for fm in re.finditer(r"#\d+ 0x[0-9a-f]+ in (\w+) [^\n]*?/(?:SRC|CBLAS)/(\w+)\.c", err or ""):
        if fm.group(2) in ("dcomplex", "scomplex"):      # complex leaf helpers (z_abs1 ...): name the caller
            continue
        fn = fm.group(1)
        break
    if kind or fn:
        fn = re.sub(r"^(p|sp_)?[sdcz](g[a-z]|sp_|lsolve|usolve|matvec|myblas|PivotGrowth|Create|Copy|Print|lan|laq)", lambda q: (q.group(1) or "") + "?" + q.group(2), fn or "?")
        return "%s@%s" % (kind or "crash", fn)
    m = re.search(r"(Storage for [A-Za-z ]+ exceeded|Memory allocation failed|Malloc fails for [\w\[\]]+)", err or "")
    if m:
        return "abort:" + m.group(1)
    return "signal:%s" % (-rc if isinstance(rc, int) and rc < 0 else rc)


def run_batch(exe, cases, timeout=600, env=None):
    """run cases in one process; returns list of result dicts (same order); a crashed/timeouted case gives
    {"crash": rc, "stderr": ...} and the remaining cases are re-run in a fresh process"""
    results = {}
    pending = list(cases)
    e = dict(os.environ); e["ASAN_OPTIONS"] = "detect_leaks=0:abort_on_error=0"
    e["OPENBLAS_NUM_THREADS"] = "1"; e["OMP_NUM_THREADS"] = "1"    # the vendor BLAS must not keep worker threads of its own
    if env:
        e.update(env)
    while pending:
        inp = "".join(case_text(c) for c in pending)
        rc, out, err = vf.sh2([exe], inp=inp, timeout=timeout, env=e)
        began = None
        abortlog = {}
        for ln in out.split("\n"):
            if ln.startswith("@@ABORTLOG "):
                try:
                    abortlog[int(ln.split()[1])] = json.loads(ln.split(None, 2)[2])
                except (ValueError, IndexError):
                    pass
            elif ln.startswith("@@BEGIN "):
                began = int(ln.split()[1])
            elif ln.startswith("@@JSON "):
                try:
                    r = json.loads(ln[7:])
                except ValueError:
                    r = {"parse_error": ln[:200]}
                results[r.get("id", began)] = r
                began = None
            elif ln.startswith("@@TIMEOUT"):
                results[began] = {"timeout": True, "id": began}
                began_t = began
        done_ids = set(results)
        if rc != 0 or began is not None:
            bad = began if began is not None else None
            if bad is None:
                # crashed outside a case (or after a timeout exit)
                rest = [c for c in pending if c.get("id", 0) not in done_ids]
                if rest and rc != 96:
                    results[rest[0].get("id", 0)] = {"crash": rc, "stderr": err[-2000:], "site": crash_site(rc, err), "id": rest[0].get("id", 0)}
            elif bad not in results:
                results[bad] = {"crash": rc, "stderr": err[-2000:], "site": crash_site(rc, err), "id": bad}
                results[bad].update(abortlog.get(bad, {}))
        done_ids = set(results)
        newp = [c for c in pending if c.get("id", 0) not in done_ids]
        if len(newp) == len(pending):
            break
        pending = newp
    return [results.get(c.get("id", 0), {"missing": True, "id": c.get("id", 0)}) for c in cases]


def unhex(lst):
    return [float.fromhex(x) for x in lst]


def run_grouped(exe, cases, par=4, chunk=25, timeout=900):
    """run cases in parallel processes; cases sharing one process always share the tuning parameters (ienv):
    p?gstrf_bmod2D caches sp_ienv values in function statics, so changing them inside a process is not a supported use"""
    from concurrent.futures import ThreadPoolExecutor
    groups = {}
    for c in cases:
        groups.setdefault(tuple(c.get("ienv") or ()), []).append(c)
    chunks = []
    for g in groups.values():
        for i in range(0, len(g), chunk):
            chunks.append(g[i:i + chunk])
    out = {}
    with ThreadPoolExecutor(max(1, par)) as ex:
        for ch, rr in zip(chunks, ex.map(lambda ch: run_batch(exe, ch, timeout=timeout), chunks)):
            for c, r in zip(ch, rr):
                out[c.get("id", 0)] = r
    return [out[c.get("id", 0)] for c in cases]


def check_bumps(adrv, results):
    """K-exact tie of AllocModel.bump_all: the locked bump allocators for U (columns + subscripts) and for L's subscripts,
    replayed by the extracted model on the request sequence of each run (hook log, in lock order), must hand out the very
    blocks the implementation handed out.  Returns {index: message} for the runs that differ and the number compared."""
    import vf
    lines, where = [], []
    for k, r in enumerate(results):
        for w in ("bump_u", "bump_l"):
            lg = r.get(w) or []
            if lg:
                lines.append("BUMP %d %d | %s" % (lg[0][0], max(e[2] for e in lg), " ".join(str(e[1]) for e in lg)))
                where.append((k, w, lg))
    if not lines:
        return {}, 0
    rc, out, err = vf.sh2([adrv], inp="\n".join(lines) + "\n", timeout=600)
    outl = out.strip().split("\n")
    bad = {}
    if rc != 0 or len(outl) != len(lines):
        return {-1: "alloc model driver failed: %s" % (err[-200:] or out[-200:])}, 0
    for ln, (k, w, lg) in zip(outl, where):
        impl = [e[0] for e in lg]
        if ln.strip() == "B ABORT":
            bad.setdefault(k, "%s: the model takes the abort path but the implementation handed out %d blocks" % (w, len(lg)))
            continue
        mod = [int(x) for x in ln[2:].split()]
        if mod != impl:
            i = next(i for i in range(len(impl)) if i >= len(mod) or mod[i] != impl[i])
            bad.setdefault(k, "%s allocator: request %d (size %d) was given the block starting at %d, the bump model gives %d: blocks "
                              "overlap or leave a gap (previous block [%d,%d))" % (w, i, lg[i][1], impl[i], mod[i] if i < len(mod) else -1,
                                                                                    lg[i - 1][0] if i else -1, (lg[i - 1][0] + lg[i - 1][1]) if i else -1))
    return bad, len(lines)
