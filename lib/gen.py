"""Structured sparse-matrix generators shared by the checks (all random choices from the rng passed in).
matrix(rng, kind, n) -> {"n", "colptr", "rowind", "vals", "kind"}   (CSC, duplicate free, row indices ascending)"""
import math


def from_entries(n, ent, kind):
    """ent: dict (i,j) -> value"""
    cols = [[] for _ in range(n)]
    for (i, j), v in ent.items():
        cols[j].append((i, v))
    colptr, rowind, vals = [0], [], []
    for j in range(n):
        for i, v in sorted(cols[j]):
            rowind.append(i); vals.append(float(v))
        colptr.append(len(rowind))
    return {"n": n, "colptr": colptr, "rowind": rowind, "vals": vals, "kind": kind}


def val(rng, scale=1.0):
    v = rng.choice([1, 2, 3, 4, 5, 6, 7, 8, 9]) * rng.choice([1, -1]) * scale
    if rng.random() < 0.5:
        v = rng.uniform(-10, 10) * scale
        if abs(v) < 1e-3:
            v = 1.0
    return v


def bushy_relax(n):
    """the relaxation parameter for which the star blocks of matrix(rng, "bushy", n) are exactly the relaxed supernodes"""
    return 3 + max(1, n) % 3


def matrix(rng, kind, n):
    ent = {}
    n = max(1, n)
    if kind == "chain":            # bidiagonal: long pipelines
        for j in range(n):
            v = val(rng)
            ent[(j, j)] = v + (5 if v > 0 else -5) * (1 if rng.random() < 0.5 else 0)
            if j + 1 < n:
                ent[(j + 1, j)] = val(rng)
            if j > 0 and rng.random() < 0.3:
                ent[(j - 1, j)] = val(rng)
    elif kind == "arrow":
        for j in range(n):
            ent[(j, j)] = val(rng) * 3
            ent[(n - 1, j)] = val(rng)
            ent[(j, n - 1)] = val(rng)
    elif kind == "star":
        for j in range(n):
            ent[(j, j)] = val(rng) * 3
            ent[(0, j)] = val(rng)
            ent[(j, 0)] = val(rng)
    elif kind == "banded":
        b = rng.randint(1, 4)
        for j in range(n):
            for i in range(max(0, j - b), min(n, j + b + 1)):
                if i == j or rng.random() < 0.7:
                    ent[(i, j)] = val(rng)
            ent[(j, j)] = val(rng) * 4
    elif kind == "grid":
        k = max(1, int(math.sqrt(n)))
        n = k * k
        for x in range(k):
            for y in range(k):
                j = x * k + y
                ent[(j, j)] = 4.0 + rng.random()
                for dx, dy in ((1, 0), (-1, 0), (0, 1), (0, -1)):
                    xx, yy = x + dx, y + dy
                    if 0 <= xx < k and 0 <= yy < k:
                        ent[(xx * k + yy, j)] = -1.0 + 0.1 * rng.random()
    elif kind == "bushy":
        # units = s-1 independent leaf columns + a hub (with relax = s ONE relaxed supernode whose columns do not form a path in
        # the etree) + a stem (chain) above the hub, whose first panel is pipelined with the busy supernode and has nonzeros in the
        # pivot rows of leaves that are NOT on the etree path first leaf -> hub.  The leaves must not share a row (they would be
        # chained in the column etree): leaf i has rows {i, stem_i}, the hub column has the rows of all leaves.
        o = 0
        s_ = 3 + n % 3                  # the same star size in every unit: use relax = s_ (see bushy_relax)
        while o < n:
            st = s_ - 1 + rng.randint(0, 1)
            if o + s_ + st > n and o > 0:
                break
            hub = o + s_ - 1
            for j in range(o, o + s_ + st):
                ent[(j, j)] = val(rng) * 3
            for k, l in enumerate(range(o, hub)):
                ent[(l, hub)] = val(rng)                  # hub adjacent to every leaf through the leaf's own row
                ent[(hub + 1 + k, l)] = val(rng)          # a later row of its own for every leaf
            for t in range(hub + 1, hub + 1 + st):
                ent[(t - 1, t)] = val(rng)
                if rng.random() < 0.5:
                    ent[(t, t - 1)] = val(rng)
                for l in range(o + 1, hub):           # off-path leaves
                    if rng.random() < 0.8:
                        ent[(l, t)] = val(rng)
            o += s_ + st
        n = o
    elif kind == "blockdiag":
        j = 0
        while j < n:
            b = min(n - j, rng.randint(1, 6))
            for a in range(b):
                for c in range(b):
                    if a == c or rng.random() < 0.6:
                        ent[(j + a, j + c)] = val(rng)
                ent[(j + a, j + a)] = val(rng) * 5
            j += b
    elif kind == "random":
        dens = rng.choice([0.05, 0.1, 0.2, 0.4])
        for j in range(n):
            ent[(j, j)] = val(rng) * 2
            for i in range(n):
                if i != j and rng.random() < dens:
                    ent[(i, j)] = val(rng)
    elif kind == "randomzd":       # structurally nonsingular, zero diagonal allowed: permuted diagonal + noise
        perm = list(range(n)); rng.shuffle(perm)
        dens = rng.choice([0.05, 0.1, 0.2])
        for j in range(n):
            ent[(perm[j], j)] = val(rng) * 3
            for i in range(n):
                if rng.random() < dens and (i, j) not in ent:
                    ent[(i, j)] = val(rng)
    elif kind == "dense":
        for j in range(n):
            for i in range(n):
                ent[(i, j)] = val(rng)
            ent[(j, j)] = val(rng) * n
    elif kind == "diagdom":        # unsymmetric pattern, full diagonal, column and row diagonally dominant
        dens = rng.choice([0.1, 0.2, 0.4])
        for j in range(n):
            for i in range(n):
                if i != j and rng.random() < dens:
                    ent[(i, j)] = val(rng)
        rs = [0.0] * n; cs = [0.0] * n
        for (i, j), v in ent.items():
            rs[i] += abs(v); cs[j] += abs(v)
        for j in range(n):
            ent[(j, j)] = (max(rs[j], cs[j]) + 1.0 + rng.random()) * rng.choice([1, -1])
    elif kind == "singular":
        sub = rng.choice(["zerocol", "dupcol", "emptyrow", "cancel", "zerovalcol"])
        base = matrix(rng, "random", n)
        for j in range(n):
            for p in range(base["colptr"][j], base["colptr"][j + 1]):
                ent[(base["rowind"][p], j)] = base["vals"][p]
        k = rng.randrange(n)
        if sub == "zerocol" and n >= 2:
            # explicit zeros in column k
            for key in list(ent):
                if key[1] == k:
                    ent[key] = 0.0
        elif sub == "zerovalcol":
            for key in list(ent):
                if key[1] == k:
                    ent[key] = 0.0
            ent[(k, k)] = 0.0
        elif sub == "dupcol" and n >= 2:
            k2 = (k + 1) % n
            for key in list(ent):
                if key[1] == k2:
                    del ent[key]
            for key in list(ent):
                if key[1] == k:
                    ent[(key[0], k2)] = ent[key]
        elif sub == "emptyrow" and n >= 2:
            # keep every column non-empty (a structurally empty column crashes the unchanged code: finding F2)
            for key in list(ent):
                if key[0] == k:
                    del ent[key]
            for j in range(n):
                if not any(kk[1] == j for kk in ent):
                    ent[((k + 1) % n, j)] = 1.0
        else:
            # exact cancellation: 2x2 block [[1,1],[1,1]] on an otherwise diagonal matrix
            ent = {(j, j): 2.0 for j in range(n)}
            if n >= 2:
                ent[(0, 0)] = 1.0; ent[(0, 1)] = 1.0; ent[(1, 0)] = 1.0; ent[(1, 1)] = 1.0
    else:
        raise ValueError(kind)
    return from_entries(n, ent, kind)


def dense_of(A):
    n = A["n"]
    M = [[0.0] * n for _ in range(n)]
    for j in range(n):
        for p in range(A["colptr"][j], A["colptr"][j + 1]):
            M[A["rowind"][p]][j] = A["vals"][p]
    return M


def exactly_singular(n, ent):
    """exact rank test (fractions) of the matrix given as dict (i,j)->value (float or complex)"""
    from fractions import Fraction
    def fr(v):
        return (Fraction(v.real), Fraction(v.imag)) if isinstance(v, complex) else (Fraction(v), Fraction(0))
    rows = [dict() for _ in range(n)]
    for (i, j), v in ent.items():
        if v != 0:
            rows[i][j] = fr(v)
    def cmul(a, b): return (a[0]*b[0]-a[1]*b[1], a[0]*b[1]+a[1]*b[0])
    def cdiv(a, b):
        d = b[0]*b[0]+b[1]*b[1]
        return ((a[0]*b[0]+a[1]*b[1])/d, (a[1]*b[0]-a[0]*b[1])/d)
    used = [False]*n
    for col in range(n):
        piv = None
        for i in range(n):
            if not used[i] and col in rows[i] and rows[i][col] != (0, 0):
                piv = i; break
        if piv is None:
            return True
        used[piv] = True
        pv = rows[piv][col]
        for i in range(n):
            if i != piv and not used[i] and col in rows[i] and rows[i][col] != (0, 0):
                f = cdiv(rows[i][col], pv)
                for j, v in rows[piv].items():
                    t = cmul(f, v)
                    o = rows[i].get(j, (Fraction(0), Fraction(0)))
                    nv = (o[0]-t[0], o[1]-t[1])
                    if nv == (0, 0):
                        rows[i].pop(j, None)
                    else:
                        rows[i][j] = nv
                rows[i].pop(col, None)
    return False
