"""Exact (integer) evaluation of the certificates of C02 / C01 on the implementation's outputs.
Every IEEE number is m * 2^e; all matrices are scaled to integers, so the componentwise inequalities
   |Pr A Pc - L U| <= gamma(n) |L||U|      and      |B - A X| <= gamma(3n) (Pr^T |L||U| Pc^T) |X|
are decided without any rounding.  For complex data the moduli are bounded: |z| >= max(|re|,|im|) on the left
... we use the stricter/looser side that keeps the check SOUND w.r.t. the stated bound times sqrt(2)-type constants
(see c_slack below); complex certificates are therefore labelled 'relaxed' in the evidence."""
from fractions import Fraction
import math


def nonfinite(d, name):
    """first non-finite entry of a dict/list of floats or complex numbers, as a message; None if all finite"""
    it = d.items() if isinstance(d, dict) else enumerate(d)
    for k, v in it:
        z = v if isinstance(v, complex) else complex(v, 0.0)
        if not (math.isfinite(z.real) and math.isfinite(z.imag)):
            return "%s%s = %r is not finite" % (name, list(k) if isinstance(k, tuple) else [k], v)
    return None


def to_scaled_ints(vals):
    """vals: list of python floats -> (ints, e) with vals[i] == ints[i] * 2**e exactly"""
    if not vals:
        return [], 0
    fr = [Fraction(v) for v in vals]
    den = max(f.denominator for f in fr)
    e = -(den.bit_length() - 1)
    return [f.numerator * (den // f.denominator) for f in fr], e


def check_lu(n, A, perm_r, perm_c, L, U, unit_pow, k_gamma=None, thresh_u=1.0, mult_slack=2 ** -40):
    """A: dict (i,j)->float (original numbering). L,U: dict (i,j)->float in pivoted numbering.
    unit roundoff u = 2**-unit_pow.  Returns None if all certificates hold, else a description."""
    k = k_gamma if k_gamma is not None else n
    bad = nonfinite(L, "L") or nonfinite(U, "U")
    if bad:
        return bad
    # structure
    for (i, j), v in L.items():
        if i < j:
            return "L has an entry above the diagonal at (%d,%d)" % (i, j)
        if i == j and v != 1.0:
            return "L diagonal (%d,%d) = %r is not 1" % (i, j, v)
    for j in range(n):
        if (j, j) not in L:
            return "L lacks the unit diagonal entry (%d,%d)" % (j, j)
    for (i, j), v in U.items():
        if i > j:
            return "U has an entry below the diagonal at (%d,%d)" % (i, j)
    # multipliers
    if thresh_u > 0:
        bound = (1.0 / thresh_u) * (1 + mult_slack)
        for (i, j), v in L.items():
            if abs(v) > bound:
                return "multiplier |l(%d,%d)| = %r exceeds 1/u = %r" % (i, j, abs(v), 1.0 / thresh_u)
    # integers
    lk, lv = list(L.keys()), list(L.values())
    uk, uv = list(U.keys()), list(U.values())
    li, le = to_scaled_ints(lv)
    ui, ue = to_scaled_ints(uv)
    ak, av = list(A.keys()), list(A.values())
    ai, ae = to_scaled_ints(av)
    # P A Pc in pivoted numbering
    B = {}
    for (i, j), v in zip(ak, ai):
        B[(perm_r[i], perm_c[j])] = v
    Lrow = {}
    for (i, j), v in zip(lk, li):
        Lrow.setdefault(i, []).append((j, v))
    Ucol = {}
    for (i, j), v in zip(uk, ui):
        Ucol.setdefault(j, {})[i] = v
    # products have exponent le+ue; A has exponent ae: bring to the common exponent emin
    emin = min(le + ue, ae)
    sp = 1 << (le + ue - emin)
    sa = 1 << (ae - emin)
    N = k  # gamma(k) = k u / (1 - k u);  |R| (1 - k u) <= k u S   <=>  |R| (2^p - k) <= k S
    P2 = 1 << unit_pow
    if N >= P2:
        return None
    for i in range(n):
        row = Lrow.get(i, [])
        for j in range(n):
            col = Ucol.get(j)
            s = 0
            sabs = 0
            if col:
                for (kk, lval) in row:
                    uval = col.get(kk)
                    if uval is not None:
                        s += lval * uval
                        sabs += abs(lval * uval)
            r = B.get((i, j), 0) * sa - s * sp
            if abs(r) * (P2 - N) > N * sabs * sp:
                return "|PAPc - LU|(%d,%d) = %.3e exceeds gamma(%d)*(|L||U|) = %.3e" % (
                    i, j, abs(r) * 2.0 ** emin, N, N * sabs * sp * 2.0 ** emin / (P2 - N))
    return None


def check_solve(n, A, perm_r, perm_c, L, U, Bv, Xv, unit_pow, k_gamma=None):
    """|b - A x| <= gamma(3n) * (Pr^T |L||U| Pc^T) |x|  componentwise, exact.  Bv, Xv: lists of columns (lists of floats)."""
    k = k_gamma if k_gamma is not None else 3 * n
    bad = nonfinite(L, "L") or nonfinite(U, "U") or next((m for m in (nonfinite(x, "X") for x in Xv) if m), None)
    if bad:
        return bad
    P2 = 1 << unit_pow
    lk, lv = list(L.keys()), list(L.values())
    uk, uv = list(U.keys()), list(U.values())
    li, le = to_scaled_ints(lv)
    ui, ue = to_scaled_ints(uv)
    # M = |L||U| in pivoted numbering (dict), exponent le+ue
    Lrow = {}
    for (i, j), v in zip(lk, li):
        Lrow.setdefault(i, []).append((j, abs(v)))
    Urow = {}
    for (i, j), v in zip(uk, ui):
        Urow.setdefault(i, []).append((j, abs(v)))
    inv_r = [0] * n
    for i in range(n):
        inv_r[perm_r[i]] = i
    inv_c = [0] * n
    for j in range(n):
        inv_c[perm_c[j]] = j
    ak, av = list(A.keys()), list(A.values())
    ai, ae = to_scaled_ints(av)
    Arow = {}
    for (i, j), v in zip(ak, ai):
        Arow.setdefault(i, []).append((j, v))
    for c in range(len(Xv)):
        xi, xe = to_scaled_ints(Xv[c])
        bi, be = to_scaled_ints(Bv[c])
        for i in range(n):
            # residual r_i = b_i - sum_j a_ij x_j   (exponent min(be, ae+xe))
            e1 = min(be, ae + xe)
            r = bi[i] * (1 << (be - e1)) - sum(v * xi[j] for j, v in Arow.get(i, [])) * (1 << (ae + xe - e1))
            # bound_i = sum_j (Pr^T M Pc^T)_ij |x_j| = sum_k |L|(pr(i),k) sum_jj |U|(k,jj) |x_{invc(jj)}|
            pi = perm_r[i]
            acc = 0
            for kk, lval in Lrow.get(pi, []):
                t = 0
                for jj, uval in Urow.get(kk, []):
                    t += uval * abs(xi[inv_c[jj]])
                acc += lval * t
            # acc has exponent le+ue+xe
            e2 = le + ue + xe
            emin = min(e1, e2)
            lhs = abs(r) * (1 << (e1 - emin)) * (P2 - k)
            rhs = k * acc * (1 << (e2 - emin))
            if lhs > rhs:
                return "|b - A x|(%d, rhs %d) = %.3e exceeds gamma(%d)*(Pr^T|L||U|Pc^T|x|) = %.3e" % (
                    i, c, abs(r) * 2.0 ** e1, k, k * acc * 2.0 ** e2 / (P2 - k))
    return None


# ---------------------------------------------------------------------------------------------------------------
# Fraction-based variants that also handle complex data (values given as python complex).  For complex numbers the
# modulus is not rational: the residual is bounded from BELOW by max(|re|,|im|) and the right-hand side from ABOVE by
# |re|+|im| per factor, so a reported failure is a real failure of the stated inequality (with the relaxed constant).
def _absu(z):   # upper bound of |z|
    return abs(Fraction(z.real)) + abs(Fraction(z.imag)) if isinstance(z, complex) else abs(Fraction(z))


def _absl(zr, zi):   # lower bound of |zr + i zi|
    return max(abs(zr), abs(zi))


def _cmul(a, b):
    return (a[0] * b[0] - a[1] * b[1], a[0] * b[1] + a[1] * b[0])


def _c(z):
    return (Fraction(z.real), Fraction(z.imag)) if isinstance(z, complex) else (Fraction(z), Fraction(0))


def check_lu_frac(n, A, perm_r, perm_c, L, U, unit_pow, k_gamma, transpose=False):
    bad = nonfinite(L, "L") or nonfinite(U, "U")
    if bad:
        return bad
    u = Fraction(1, 1 << unit_pow)
    g = k_gamma * u / (1 - k_gamma * u)
    Lrow = {}
    for (i, j), v in L.items():
        Lrow.setdefault(i, []).append((j, v))
    Ucol = {}
    for (i, j), v in U.items():
        Ucol.setdefault(j, {})[i] = v
    B = {}
    for (i, j), v in A.items():
        B[(perm_r[i], perm_c[j])] = v
    for i in range(n):
        for j in range(n):
            s = (Fraction(0), Fraction(0)); sabs = Fraction(0)
            col = Ucol.get(j, {})
            for kk, lv in Lrow.get(i, []):
                uv = col.get(kk)
                if uv is not None:
                    p = _cmul(_c(lv), _c(uv))
                    s = (s[0] + p[0], s[1] + p[1])
                    sabs += _absu(lv) * _absu(uv)
            b = _c(B.get((i, j), 0.0))
            r = _absl(b[0] - s[0], b[1] - s[1])
            if r > g * sabs:
                return "|PAPc - LU|(%d,%d) = %.3e exceeds gamma(%d)*(|L||U|) = %.3e" % (i, j, float(r), k_gamma, float(g * sabs))
    return None


def check_solve_frac(n, A, perm_r, perm_c, L, U, Bv, Xv, unit_pow, k_gamma, transposed=False):
    """|b - op(A) x| <= gamma(k) * (M |x|), M = Pr^T |L||U| Pc^T (or its transpose when the factors are those of A^T)"""
    bad = nonfinite(L, "L") or nonfinite(U, "U") or next((m for m in (nonfinite(x, "X") for x in Xv) if m), None)
    if bad:
        return bad
    u = Fraction(1, 1 << unit_pow)
    g = k_gamma * u / (1 - k_gamma * u)
    inv_r = {perm_r[i]: i for i in range(n)}
    inv_c = {perm_c[j]: j for j in range(n)}
    # M in original numbering: M[i][j] = sum_k |L|(pr(i),k) |U|(k,pc(j))
    Lrow = {}
    for (i, j), v in L.items():
        Lrow.setdefault(i, []).append((j, _absu(v)))
    Urow = {}
    for (i, j), v in U.items():
        Urow.setdefault(i, []).append((j, _absu(v)))
    M = {}
    for pi, lst in Lrow.items():
        i = inv_r[pi]
        for kk, lv in lst:
            for pj, uv in Urow.get(kk, []):
                j = inv_c[pj]
                key = (j, i) if transposed else (i, j)
                M[key] = M.get(key, 0) + lv * uv
    Mrow = {}
    for (i, j), v in M.items():
        Mrow.setdefault(i, []).append((j, v))
    Arow = {}
    for (i, j), v in A.items():
        Arow.setdefault(i, []).append((j, v))
    for c in range(len(Xv)):
        x = Xv[c]; b = Bv[c]
        xa = [_absu(v) for v in x]
        for i in range(n):
            s = (Fraction(0), Fraction(0))
            for j, av in Arow.get(i, []):
                p = _cmul(_c(av), _c(x[j]))
                s = (s[0] + p[0], s[1] + p[1])
            bb = _c(b[i])
            r = _absl(bb[0] - s[0], bb[1] - s[1])
            bound = g * sum(v * xa[j] for j, v in Mrow.get(i, []))
            if r > bound:
                return "|b - A x|(%d, rhs %d) = %.3e exceeds gamma(%d)*(M|x|) = %.3e" % (i, c, float(r), k_gamma, float(bound))
    return None
