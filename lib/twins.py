"""Precision twins: the models are tied to the double-precision (and, for complex arithmetic, double-complex) sources K-exactly;
the single / single-complex sources are textual twins of those (the library is generated from one template per routine).
This module ties the twins: after normalising what legitimately differs (element type, precision letter of identifiers, machine
constant routine, type tags) the token streams of  s<->d  and  c<->z  must differ ONLY by the hunks recorded in the committed
baseline  corpus/twins_baseline.json  (the differences of the pinned tree, plus those of later `fix:` commits).  A new hunk means
one precision of a routine was edited alone: the correspondence established through the d / z twin no longer covers it; the
check reports the broken correspondence (file, tokens) and relies on its own generators in that precision for a failing input.

The baseline is written only by  tools/twins_baseline.py  (never at check time)."""
import os, re, json, difflib
import vf

BASE = os.path.join(vf.VERIF, "corpus", "twins_baseline.json")
PAIRS = (("s", "d"), ("c", "z"))
TYPEMAP = {"s": {"float": "REAL", "complex": "ELEM", "SLU_S": "SLU_X", "SLU_C": "SLU_X", "scsum1_": "XXsum1_", "icmax1_": "iXmax1_",
                 "r_cnjg": "X_cnjg", "r_imag": "X_imag", "slamch_": "Xlamch_", "cs_mult": "XX_mult", "cc_mult": "XY_mult", "c_div": "X_div",
                 "c_abs": "X_abs", "c_abs1": "X_abs1", "c_add": "X_add", "c_sub": "X_sub", "c_eq": "X_eq", "c_exp": "X_exp", "cc_conj": "XX_conj"},
           "d": {"double": "REAL", "doublecomplex": "ELEM", "SLU_D": "SLU_X", "SLU_Z": "SLU_X", "dzsum1_": "XXsum1_", "izmax1_": "iXmax1_",
                 "d_cnjg": "X_cnjg", "d_imag": "X_imag", "dlamch_": "Xlamch_", "zd_mult": "XX_mult", "zz_mult": "XY_mult", "z_div": "X_div",
                 "z_abs": "X_abs", "z_abs1": "X_abs1", "z_add": "X_add", "z_sub": "X_sub", "z_eq": "X_eq", "z_exp": "X_exp", "zz_conj": "XX_conj"}}
TYPEMAP["c"] = TYPEMAP["s"]
TYPEMAP["z"] = TYPEMAP["d"]
TOK = re.compile(r"[A-Za-z_][A-Za-z_0-9]*|\d+\.?\d*(?:[eE][-+]?\d+)?[fFlL]?|\"(?:[^\"\\]|\\.)*\"|\S")


def tokens(path):
    src = open(path, errors="replace").read()
    src = re.sub(r"/\*.*?\*/", " ", src, flags=re.S)
    src = re.sub(r"//[^\n]*", " ", src)
    return TOK.findall(src)


WORD = re.compile(r"[A-Za-z_][A-Za-z_0-9]*")
LONG = {"s": "float", "d": "double", "c": "complex", "z": "doublecomplex"}


def candidates(tok, a, b):
    """the spellings identifier `tok` of a precision-a file may have in its precision-b twin: the precision letter replaced at
    one position (lower case; upper case only after SLU_), or the long type name inside the identifier replaced"""
    out = []
    for k, ch in enumerate(tok):
        if ch == a and (k == 0 or not tok[k - 1].isalpha() or tok[:k] in ("p", "sp_", "i") or tok[k - 1] == "_" or tok[:k].endswith("superlu_")
                        or (k + 1 < len(tok) and tok[k + 1].isupper())):
            out.append((tok[:k] + b + tok[k + 1:], tok[:k] + "X" + tok[k + 1:]))
        if ch == a.upper() and tok[:k].endswith("SLU_"):
            out.append((tok[:k] + b.upper() + tok[k + 1:], tok[:k] + "X" + tok[k + 1:]))
    if LONG[a] in tok:
        out.append((tok.replace(LONG[a], LONG[b]), tok.replace(LONG[a], "ELT")))
    return out


def canon_word(t, p, q, other):
    if t in TYPEMAP[p]:
        return TYPEMAP[p][t]
    for cand, gen in candidates(t, p, q):
        if cand != t and cand in other:
            return gen
    return t


def canon(toks, p, q, other):
    """canonical tokens of a file of precision p whose twin has precision q; `other` = every word of the twin (strings included)"""
    out = []
    for t in toks:
        if t[0] == '"':
            out.append(WORD.sub(lambda m: canon_word(m.group(0), p, q, other) if len(m.group(0)) >= 4 else m.group(0), t))
        elif t[0].isalpha() or t[0] == "_":
            out.append(canon_word(t, p, q, other))
        else:
            out.append(t)
    return out


def family(dname):
    """'pdgssvx.c' -> {'s': 'psgssvx.c', ...} when the four twins exist, else None"""
    src = os.path.join(vf.REPO, "SRC")
    for pre in ("p", "", "sp_", "i"):
        if dname.startswith(pre + "d") or dname.startswith(pre + "z"):
            k = len(pre)
            fam = {p: dname[:k] + p + dname[k + 1:] for p in "sdcz"}
            if all(os.path.exists(os.path.join(src, f)) for f in fam.values()):
                return fam
    special = {"dzsum1.c": {"c": "scsum1.c", "z": "dzsum1.c"}, "izmax1.c": {"c": "icmax1.c", "z": "izmax1.c"},
               "dcomplex.c": {"c": "scomplex.c", "z": "dcomplex.c"}}
    return special.get(dname)


def hunks(fa, fb, pa, pb):
    src = os.path.join(vf.REPO, "SRC")
    ta, tb = tokens(os.path.join(src, fa)), tokens(os.path.join(src, fb))
    wa, wb = set(w for x in ta for w in WORD.findall(x)), set(w for x in tb for w in WORD.findall(x))
    ca, cb = canon(ta, pa, pb, wb), canon(tb, pb, pa, wa)
    sm = difflib.SequenceMatcher(None, ca, cb, autojunk=False)
    out = []
    for tag, i1, i2, j1, j2 in sm.get_opcodes():
        if tag != "equal":
            out.append("%s | %s || %s" % (" ".join(ca[max(0, i1 - 3):i1]), " ".join(ca[i1:i2]), " ".join(cb[j1:j2])))
    return out


def families_for(pid):
    props = {json.loads(l)["id"]: json.loads(l) for l in open(os.path.join(vf.VERIF, "properties.jsonl"))}
    names = [os.path.basename(f) for f in props[pid]["anchors"]["files"] if f.startswith("SRC/")]
    names += EXTRA.get(pid, [])
    fams = []
    for nm in names:
        fam = family(nm)
        if fam and fam not in fams:
            fams.append(fam)
    return fams


# routines a property's checks exercise beyond its anchor list (double-precision name of each family)
EXTRA = {
    "C01": ["pdgssv.c", "pdgstrf.c", "dgstrs.c", "pdgstrf_thread.c", "pdgstrf_panel_bmod.c", "pdgstrf_column_bmod.c", "pdgstrf_bmod1D.c", "pdgstrf_bmod2D.c",
            "pdgstrf_snode_bmod.c", "pdgstrf_copy_to_ucol.c", "pdgstrf_factor_snode.c", "pdgstrf_bmod1D_mv2.c", "pdgstrf_bmod2D_mv2.c", "dmyblas2.c"],
    "C02": ["pdgstrf_pivotL.c", "pdgstrf_column_bmod.c", "pdgstrf_panel_bmod.c", "pdgstrf_bmod1D.c", "pdgstrf_bmod2D.c", "pdgstrf_snode_bmod.c",
            "pdgstrf_copy_to_ucol.c", "pdgstrf_factor_snode.c", "pdgstrf_column_dfs.c", "pdgstrf_panel_dfs.c", "pdgstrf_snode_dfs.c"],
    "C03": ["pdgstrf_thread.c", "pdgstrf_panel_dfs.c", "pdgstrf_panel_bmod.c", "pdgstrf_column_dfs.c", "pdgstrf_snode_dfs.c"],
    "C04": ["pdgstrf.c", "pdgstrf_thread.c", "pdgstrf_thread_init.c", "pdgstrf_thread_finalize.c"],
    "C05": ["pdmemory.c", "pdgstrf_column_dfs.c", "pdgstrf_snode_dfs.c", "pdgstrf_copy_to_ucol.c", "pdgstrf_thread_init.c"],
    "C06": ["pdgstrf_pivotL.c", "pdgstrf_factor_snode.c", "pdgstrf_thread.c", "pdgstrf_thread_finalize.c", "pdgssv.c", "pdgssvx.c", "pdgstrf.c"],
    "C07": ["pdgssvx.c", "dgstrs.c", "dgsrfs.c", "dgsequ.c", "dlaqgs.c", "dgscon.c", "pdutil.c"],
    "C08": ["pdgstrf_init.c", "pdgstrf_thread_init.c", "pdgstrf_thread_finalize.c", "pdmemory.c", "pdgssvx.c", "pdgstrf.c", "pdgstrf_pivotL.c"],
    "C09": ["pdgstrf_thread_finalize.c", "pdgstrf_copy_to_ucol.c", "pdmemory.c", "pdutil.c", "pdgstrf_snode_dfs.c", "pdgstrf_column_dfs.c"],
    "C11": ["dgsequ.c", "dlaqgs.c", "pdgssvx.c"],
    "C12": ["dgscon.c", "dlacon.c", "dlangs.c", "dpivotgrowth.c", "pdgssvx.c", "dzsum1.c", "izmax1.c", "dsp_blas2.c"],
    "C13": ["dgsrfs.c", "dgstrs.c", "dlacon.c", "pdgssvx.c", "dsp_blas2.c"],
    "C14": ["pdmemory.c", "pdgssvx.c", "pdgstrf.c", "pdgstrf_thread_init.c", "pdgstrf_thread.c"],
    "C15": ["pdgssv.c", "pdgssvx.c", "dgstrs.c", "dgsrfs.c", "dgscon.c", "dgsequ.c", "dsp_blas2.c"],
    "C16": ["pdgstrf_pivotL.c", "pdmemory.c", "pdgssvx.c"],
    "C17": ["pdgssv.c", "pdgssvx.c", "pdgstrf.c", "pdgstrf_thread.c", "pdgstrf_thread_init.c", "pdgstrf_thread_finalize.c", "pdgstrf_init.c", "pdutil.c",
            "pdmemory.c", "dgsrfs.c", "dgscon.c", "dsp_blas2.c"],
    "C18": ["pdgssv.c", "pdgssvx.c", "pdgstrf_init.c", "pdgstrf_thread_init.c", "pdgstrf_thread_finalize.c", "pdmemory.c", "dgsrfs.c", "dgscon.c",
            "dlacon.c", "pdgstrf_bmod2D.c"],
    "C19": ["dsp_blas2.c", "dsp_blas3.c", "dlangs.c", "pdutil.c", "dmyblas2.c"],
    "C20": ["dreadhb.c", "dreadrb.c", "dreadmt.c"],
}


def current(pid):
    """{'<fa>~<fb>': [hunk, ...]} for the families of property pid"""
    out = {}
    for fam in families_for(pid):
        for a, b in PAIRS:
            if a in fam and b in fam:
                out["%s~%s" % (fam[a], fam[b])] = hunks(fam[a], fam[b], a, b)
    return out


def tie(ctx):
    """append a broken correspondence for every twin difference that the baseline does not list"""
    if not os.path.exists(BASE):
        ctx.broken.append("twin tie: baseline corpus/twins_baseline.json is missing")
        return
    base = json.load(open(BASE))
    try:
        cur = current(ctx.pid)
    except (OSError, KeyError) as e:
        ctx.broken.append("twin tie: %s" % e)
        return
    new = []
    for key, hs in cur.items():
        known = set(base.get(key, []))
        for h in hs:
            if h not in known:
                new.append((key, h))
    ctx.cov["correspondence"]["precision_twin_pairs_compared"] = len(cur)
    for key, h in new[:6]:
        ctx.broken.append("correspondence precision twins %s: a difference that is not in the baseline (one precision edited alone?): ... %s" % (key, h[:300]))
    if new:
        ctx.log("twin tie: %d new difference(s)" % len(new))
