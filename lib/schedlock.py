"""Lock-step correspondence between the extracted scheduler model (coq/SchedModel.v) and the real
pxgstrf_relax_snode / ParallelInit / pxgstrf_scheduler of the current /repo tree (shared by C03, C04)."""
import itertools, os, json
import vf


def is_postordered(p):
    n = len(p)
    for j in range(n):
        if not (j < p[j] <= n):
            return False
    for j in range(n):
        for k in range(j + 1, min(p[j], n)):
            if p[k] > p[j]:
                return False
    return True


def all_forests(n):
    out = []
    def rec(j, p):
        if j == n:
            out.append(list(p)); return
        for v in range(j + 1, n + 1):
            ok = True
            # no crossing with earlier nodes i<j whose parent lies beyond j
            for i in range(j):
                if p[i] > j and v > p[i]:
                    ok = False; break
            if ok:
                p.append(v); rec(j + 1, p); p.pop()
    rec(0, [])
    return out


def random_forest(rng, n, shape):
    """postordered forest as parent vector; shape in chain/star/wide/random/binary/comb"""
    if shape == "chain":
        return [j + 1 for j in range(n)]
    if shape == "star":
        return [n - 1] * (n - 1) + [n]
    # build by recursive splitting of the range [lo,hi) whose root is hi-1
    p = [0] * n
    def build(lo, hi, parent):
        if lo >= hi:
            return
        root = hi - 1
        p[root] = parent
        rest = root - lo
        pos = lo
        while pos < root:
            if shape == "wide":
                sz = rng.randint(1, max(1, min(3, root - pos)))
            elif shape == "binary":
                sz = max(1, (root - pos + 1) // 2) if pos == lo else root - pos
            elif shape == "comb":
                sz = 1 if rng.random() < 0.5 else root - pos
            else:
                sz = rng.randint(1, root - pos)
            build(pos, pos + sz, root)
            pos += sz
    pos = 0
    while pos < n:
        if shape == "wide":
            sz = rng.randint(1, n - pos)
        else:
            sz = n - pos if rng.random() < 0.7 else rng.randint(1, n - pos)
        build(pos, pos + sz, n)
        pos += sz
    assert is_postordered(p), p
    return p


def run_jobs_par(ctx, drv, exe, jobs, nchunks=None):
    """split the job list over all cores; returns (ok, summed stats, first mismatch)"""
    from concurrent.futures import ThreadPoolExecutor
    nchunks = nchunks or min(len(jobs), vf.NCPU)
    if nchunks <= 1:
        return run_jobs(ctx, drv, exe, jobs)
    chunks = [jobs[i::nchunks] for i in range(nchunks)]
    with ThreadPoolExecutor(nchunks) as ex:
        res = list(ex.map(lambda c: run_jobs(ctx, drv, exe, c), chunks))
    stats, mm = {}, None
    for ok, st, m in res:
        for k, v in st.items():
            stats[k] = max(stats.get(k, 0), v) if k == "maxqtail" else stats.get(k, 0) + v
        if m is not None and mm is None:
            mm = m
    return mm is None, stats, mm


def run_jobs(ctx, drv, exe, jobs, env=None):
    """jobs: list of job lines for the OCaml driver.  Returns (ok, stats dict, first mismatch or None)."""
    rc, out, err = vf.sh2([drv], inp="\n".join(jobs) + "\n", timeout=3000)
    if rc != 0:
        raise vf.CheckError("sched model driver failed: %s" % err[-500:])
    cmds, exp, stats = [], [], {}
    for ln in out.split("\n"):
        if ln.startswith("C "):
            cmds.append(ln[2:])
        elif ln.startswith("E "):
            exp.append(ln[2:])
        elif ln.startswith("S "):
            t = ln[2:].split()
            stats = {t[i]: int(t[i + 1]) for i in range(0, len(t), 2)}
    e = dict(os.environ); e["ASAN_OPTIONS"] = "detect_leaks=0"
    rc, cout, cerr = vf.sh2([exe], inp="\n".join(cmds) + "\n", timeout=3000, env=e)
    got = [l for l in cout.split("\n") if l]
    mismatch = None
    if rc != 0:
        mismatch = {"kind": "crash", "rc": rc, "stderr": cerr[-1500:], "at_output_line": len(got)}
    for i, (a, b) in enumerate(zip(exp, got)):
        if a != b:
            mismatch = {"kind": "diff", "line": i, "model": a, "impl": b}
            break
    if mismatch is None and len(exp) != len(got):
        mismatch = {"kind": "length", "model_lines": len(exp), "impl_lines": len(got)}
    if mismatch is not None:
        # locate the command index: replay commands until the output line is produced
        mismatch["commands_prefix"] = locate(cmds, mismatch.get("line", len(got)))
    return mismatch is None, stats, mismatch


def locate(cmds, outline):
    """return the commands up to the one producing output line `outline` (INIT gives 2 lines, CALL 2, DONE 1),
    with SNAP/RESTORE resolved into the straight-line history that leads to it"""
    produced = 0
    hist, stack = [], []
    for c in cmds:
        if c.startswith("INIT"):
            hist = [c]; stack = []; produced += 2
        elif c.startswith("CALL"):
            hist.append(c); produced += 2
        elif c.startswith("DONE"):
            hist.append(c); produced += 1
        elif c.startswith("SNAP"):
            stack.append(len(hist))
        elif c.startswith("RESTORE"):
            hist = hist[:stack.pop()]
        if produced > outline:
            return hist
    return hist
