"""Lock-step correspondence between the extracted scheduler model (coq/SchedModel.v) and the real
pxgstrf_relax_snode / ParallelInit / pxgstrf_scheduler of the current /repo tree (shared by C03, C04)."""
import itertools, os, json
import vf


def is_postordered(p):
    n = len(p)
    for j in range(n):
        if not (j < p[j] <= n):
            return False
    for j in range(n):
        for k in range(j + 1, min(p[j], n)):
            if p[k] > p[j]:
                return False
    return True


def all_forests(n):
    out = []
    def rec(j, p):
        if j == n:
            out.append(list(p)); return
        for v in range(j + 1, n + 1):
            ok = True
            # no crossing with earlier nodes i<j whose parent lies beyond j
            for i in range(j):
                if p[i] > j and v > p[i]:
                    ok = False; break
            if ok:
                p.append(v); rec(j + 1, p); p.pop()
    rec(0, [])
    return out


def random_forest(rng, n, shape):
    """postordered forest as parent vector; shape in chain/star/wide/random/binary/comb"""
    if shape == "chain":
        return [j + 1 for j in range(n)]
    if shape == "star":
        return [n - 1] * (n - 1) + [n]
    # build by recursive splitting of the range [lo,hi) whose root is hi-1
    p = [0] * n
    def build(lo, hi, parent):
        if lo >= hi:
            return
        root = hi - 1
        p[root] = parent
        rest = root - lo
        pos = lo
        while pos < root:
            if shape == "wide":
                sz = rng.randint(1, max(1, min(3, root - pos)))
            elif shape == "binary":
                sz = max(1, (root - pos + 1) // 2) if pos == lo else root - pos
            elif shape == "comb":
                sz = 1 if rng.random() < 0.5 else root - pos
            else:
                sz = rng.randint(1, root - pos)
            build(pos, pos + sz, root)
            pos += sz
    pos = 0
    while pos < n:
        if shape == "wide":
            sz = rng.randint(1, n - pos)
        else:
            sz = n - pos if rng.random() < 0.7 else rng.randint(1, n - pos)
        build(pos, pos + sz, n)
        pos += sz
    assert is_postordered(p), p
    return p


def run_jobs_par(ctx, drv, exe, jobs, nchunks=None):
    """split the job list over all cores; returns (ok, summed stats, first mismatch)"""
    from concurrent.futures import ThreadPoolExecutor
    nchunks = nchunks or min(len(jobs), vf.NCPU)
    if nchunks <= 1:
        return run_jobs(ctx, drv, exe, jobs)
    chunks = [jobs[i::nchunks] for i in range(nchunks)]
    with ThreadPoolExecutor(nchunks) as ex:
        res = list(ex.map(lambda c: run_jobs(ctx, drv, exe, c), chunks))
    stats, mm = {}, None
    for ok, st, m in res:
        for k, v in st.items():
            stats[k] = max(stats.get(k, 0), v) if k == "maxqtail" else stats.get(k, 0) + v
        if m is not None and mm is None:
            mm = m
    return mm is None, stats, mm


def run_jobs(ctx, drv, exe, jobs, env=None):
    """jobs: list of job lines for the OCaml driver.  Returns (ok, stats dict, first mismatch or None)."""
    rc, out, err = vf.sh2([drv], inp="\n".join(jobs) + "\n", timeout=3000)
    if rc != 0:
        raise vf.CheckError("sched model driver failed: %s" % err[-500:])
    cmds, exp, stats = [], [], {}
    for ln in out.split("\n"):
        if ln.startswith("C "):
            cmds.append(ln[2:])
        elif ln.startswith("E "):
            exp.append(ln[2:])
        elif ln.startswith("S "):
            t = ln[2:].split()
            stats = {t[i]: int(t[i + 1]) for i in range(0, len(t), 2)}
    e = dict(os.environ); e["ASAN_OPTIONS"] = "detect_leaks=0"
    rc, cout, cerr = vf.sh2([exe], inp="\n".join(cmds) + "\n", timeout=3000, env=e)
    got = [l for l in cout.split("\n") if l]
    mismatch = None
    if rc != 0:
        mismatch = {"kind": "crash", "rc": rc, "stderr": cerr[-1500:], "at_output_line": len(got)}
    for i, (a, b) in enumerate(zip(exp, got)):
        if a != b:
            mismatch = {"kind": "diff", "line": i, "model": a, "impl": b}
            break
    if mismatch is None and len(exp) != len(got):
        mismatch = {"kind": "length", "model_lines": len(exp), "impl_lines": len(got)}
    if mismatch is not None:
        # locate the command index: replay commands until the output line is produced
        mismatch["commands_prefix"] = locate(cmds, mismatch.get("line", len(got)))
    return mismatch is None, stats, mismatch


def locate(cmds, outline):
    """return the commands up to the one producing output line `outline` (INIT gives 2 lines, CALL 2, DONE 1),
    with SNAP/RESTORE resolved into the straight-line history that leads to it"""
    produced = 0
    hist, stack = [], []
    for c in cmds:
        if c.startswith("INIT"):
            hist = [c]; stack = []; produced += 2
        elif c.startswith("CALL"):
            hist.append(c); produced += 2
        elif c.startswith("DONE"):
            hist.append(c); produced += 1
        elif c.startswith("SNAP"):
            stack.append(len(hist))
        elif c.startswith("RESTORE"):
            hist = hist[:stack.pop()]
        if produced > outline:
            return hist
    return hist


# ------------------------------------------------------------------------------------------------
# Implementation-only exploration with the property oracles of C03/C04 (used as the *search* for a
# failing interleaving when the proofs or the lock-step correspondence break; the model is not involved)
class ImplSched:
    def __init__(self, exe):
        import subprocess
        e = dict(os.environ); e["ASAN_OPTIONS"] = "detect_leaks=0"
        self.p = subprocess.Popen([exe], stdin=subprocess.PIPE, stdout=subprocess.PIPE, stderr=subprocess.PIPE,
                                  env=e, text=True, bufsize=1)

    def cmd(self, c, nlines):
        self.p.stdin.write(c + "\n"); self.p.stdin.flush()
        out = []
        for _ in range(nlines):
            ln = self.p.stdout.readline()
            if not ln:
                raise RuntimeError("harness died: " + self.p.stderr.read()[-1500:])
            out.append(ln.rstrip("\n"))
        return out

    def close(self):
        try:
            self.p.stdin.close(); self.p.wait(timeout=5)
        except Exception:
            self.p.kill()


def parse_state(line, n):
    """parse the canonical state line of sched_harness.c"""
    parts = [x.strip() for x in line.split("|")]
    t = parts[0].split()
    d = {"tasks": int(t[1]), "head": int(t[3]), "tail": int(t[4]), "count": int(t[5])}
    d["sz"] = [int(x) for x in parts[3].split()[1:]]            # n+1 entries
    lead = [i for i in range(n) if d["sz"][i] >= 1]
    st = [int(x) for x in parts[2].split()[1:]]
    d["lead"] = lead
    d["st"] = dict(zip(lead + [n], st))
    uk = [int(x) for x in parts[4].split()[1:]]
    d["uk"] = dict(zip(lead + [n], uk))
    d["q"] = [int(x) for x in parts[6].split()[1:]]
    return d


def impl_explore(exe, forest, psz, relax, P, max_states=20000):
    """DFS over the thread/scheduler protocol driven only by the C scheduler; returns a violation dict or None"""
    n = len(forest)
    h = ImplSched(exe)
    DONE, BUSY, CANGO = 0, 1, 2
    try:
        out = h.cmd("INIT %d %d %d %s" % (n, psz, relax, " ".join(map(str, forest))), 2)
        s0 = out[1]
        d0 = parse_state(s0, n)
        sz = d0["sz"]
        dad = {p: forest[p + sz[p] - 1] for p in d0["lead"]}
        kids = {}
        for p, dd in dad.items():
            kids.setdefault(dd, []).append(p)
        seen = set()
        nst = [0]

        def anc(x, p):      # x descendant-or-self of p
            while x != p and x < n:
                x = dad.get(x, n)
            return x == p

        def rec(line, thr, hist):
            key = (line, tuple(sorted(thr)))
            if key in seen or nst[0] >= max_states:
                return None
            seen.add(key); nst[0] += 1
            d = parse_state(line, n)
            enabled = 0
            tried = set()
            for t, (m, cur) in enumerate(thr):
                if (m, cur) in tried:
                    continue
                tried.add((m, cur))
                if m == 0:      # working: may finish when all children are DONE
                    if all(d["st"][c] == DONE for c in kids.get(cur, [])):
                        enabled += 1
                        h.cmd("SNAP", 0)
                        o = h.cmd("DONE %d" % cur, 1)
                        th2 = list(thr); th2[t] = (1, cur)
                        v = rec(o[0], th2, hist + ["DONE %d" % cur])
                        h.cmd("RESTORE", 0)
                        if v: return v
                elif m == 1:    # at the loop test
                    enabled += 1
                    th2 = list(thr); th2[t] = (2 if d["tasks"] > 0 else 3, cur)
                    v = rec(line, th2, hist + ["TEST t%d" % t])
                    if v: return v
                elif m == 2:    # calls the scheduler
                    enabled += 1
                    h.cmd("SNAP", 0)
                    o = h.cmd("CALL %d" % cur, 2)
                    r = o[0].split()
                    j, b = int(r[1]), int(r[2])
                    hist2 = hist + ["CALL %d -> %d bcol %d" % (cur, j, b)]
                    d2 = parse_state(o[1], n)
                    bad = None
                    if j != -1:
                        if j not in d["st"] or j >= n or d["st"][j] < CANGO:
                            bad = "scheduler handed out panel %d which was already taken or is not a panel" % j
                        elif not (anc(b, j)):
                            bad = "bcol %d is not a descendant of the panel %d handed out" % (b, j)
                        else:
                            nd = [c for c in kids.get(j, []) if d2["st"][c] != DONE]
                            if any(d2["st"][c] > BUSY for c in kids.get(j, [])) or len(nd) > 1:
                                bad = "panel %d handed out although its children are not all finished except one busy chain: %s" % (j, nd)
                            elif d2["st"].get(b) == DONE or any(d2["st"][c] != DONE for c in kids.get(b, [])):
                                bad = "bcol %d is not the bottom of the busy chain below panel %d" % (b, j)
                            else:   # every non-DONE proper descendant lies on the path b -> j
                                for x in d2["lead"]:
                                    if x != j and anc(x, j) and d2["st"][x] != DONE and not anc(b, x):
                                        bad = "non-DONE descendant %d of panel %d is off the chain ending at bcol %d" % (x, j, b); break
                    if bad is None:
                        unt = sum(1 for p in d2["lead"] if d2["st"][p] >= CANGO)
                        if d2["tasks"] != unt:
                            bad = "tasks_remain = %d but %d panels are untaken" % (d2["tasks"], unt)
                        elif not (0 <= d2["head"] <= d2["tail"] <= n and d2["count"] == d2["tail"] - d2["head"]):
                            bad = "queue indices out of bounds: head %d tail %d count %d n %d" % (d2["head"], d2["tail"], d2["count"], n)
                    if bad:
                        return {"what": bad, "forest": forest, "w": psz, "relax": relax, "nthreads": P, "history": hist2}
                    th2 = list(thr); th2[t] = (0, j) if j != -1 else (1, -1)
                    v = rec(o[1], th2, hist2)
                    h.cmd("RESTORE", 0)
                    if v: return v
            if enabled == 0:
                if any(m != 3 for m, _ in thr):
                    return {"what": "deadlock: no thread can make a step", "forest": forest, "w": psz, "relax": relax,
                            "nthreads": P, "history": hist}
                if d["tasks"] != 0 or any(d["st"][p] != DONE for p in d["lead"]):
                    return {"what": "all threads left the loop but not every panel is DONE / tasks_remain = %d" % d["tasks"],
                            "forest": forest, "w": psz, "relax": relax, "nthreads": P, "history": hist}
            return None
        import sys
        sys.setrecursionlimit(100000)
        return rec(s0, [(1, -1)] * P, [])
    except RuntimeError as e:
        return {"what": "scheduler harness crashed (sanitizer): %s" % str(e)[-800:], "forest": forest, "w": psz,
                "relax": relax, "nthreads": P, "history": []}
    finally:
        h.close()
