/* wellformed_harness.c -- C side of check C09 (returned L, U, perm_r, perm_c are well-formed).
 * Compiled per precision (-DPREC_D default, -DPREC_S/-DPREC_C/-DPREC_Z), linked with the library built from the
 * CURRENT /repo tree.  Token oriented stdin, one line "R <id> ..." per command, integers only.
 *
 *  factor <id> <nprocs> <permc> <panel> <relax> <maxsuper> <refact 0|1> <lwork> <perturb seed|0> <n> <nnz> colptr[n+1] rowind[nnz] val[nnz]
 *      p?gstrf_init + p?gstrf (as EXAMPLE/pdrepeat.c); with refact=1 a second factorization of the same pattern
 *      (values scaled) reuses L, U, perm_r, etree; lwork>0 = user supplied workspace of lwork bytes.
 *      -> R id info n | L: nnz nsuper lenval nzbeg[n] nzend[n] rowind[..] ribeg[n] riend[n] col2sup[n] supbeg[ns] supend[ns]
 *                     | U: nnz urowind[..] ucolbeg[n] ucolend[n] | perm_r[n] perm_c[n] | <#pairs stored out of number order> <#lsub events>
 *  fixupl <id> <n> <nsuper> perm_r[n] xsup[ns] xsup_end[ns] <len> lsub[len] xlsub[n+1] xlsub_end[n]
 *      -> R id lsub[len] xlsub[n+1] xlsub_end[n]             (the real fixupL of SRC/util.c on this image)
 *  countnz <id> <n> <nsuper> xsup[ns] xsup_end[ns] xlsub[n+1] xlsub_end[n] xprune[n] <nextu>
 *      -> R id nnzL nnzU
 */
#define _GNU_SOURCE
#include <stdio.h>
#include <stdlib.h>
#include <string.h>
#include <unistd.h>
#include <fcntl.h>

#if defined(PREC_S)
#include "slu_mt_sdefs.h"
typedef float scal_t; typedef float thr_t;
#define NCOMP 1
#define SLU_DT SLU_S
#define CREATE_CC sCreate_CompCol_Matrix
#define PGSTRF_INIT psgstrf_init
#define PGSTRF psgstrf
#elif defined(PREC_C)
#include "slu_mt_cdefs.h"
typedef complex scal_t; typedef float thr_t;
#define NCOMP 2
#define SLU_DT SLU_C
#define CREATE_CC cCreate_CompCol_Matrix
#define PGSTRF_INIT pcgstrf_init
#define PGSTRF pcgstrf
#elif defined(PREC_Z)
#include "slu_mt_zdefs.h"
typedef doublecomplex scal_t; typedef double thr_t;
#define NCOMP 2
#define SLU_DT SLU_Z
#define CREATE_CC zCreate_CompCol_Matrix
#define PGSTRF_INIT pzgstrf_init
#define PGSTRF pzgstrf
#else
#include "slu_mt_ddefs.h"
typedef double scal_t; typedef double thr_t;
#define NCOMP 1
#define SLU_DT SLU_D
#define CREATE_CC dCreate_CompCol_Matrix
#define PGSTRF_INIT pdgstrf_init
#define PGSTRF pdgstrf
#endif

extern void verif_set_ienv(int ispec, int_t v);
extern void countnz(const int_t, int_t *, int_t *, int_t *, GlobalLU_t *);
extern void fixupL(const int_t, const int_t *, GlobalLU_t *);

/* ---- schedule perturbation at the window of finding F1 (between NewNsuper and Glu_alloc(LSUB)): only with the hooks */
#ifdef SLU_MT_VERIF
#include <pthread.h>
#include "slu_mt_verif.h"
static pthread_mutex_t ev_mx = PTHREAD_MUTEX_INITIALIZER;
static long ev_n, *ev_num, *ev_start, ev_cnt, ev_perturb;
static unsigned ev_seed;
/* image of the GlobalLU fields fixupL/countnz read, taken at the entry of p?gstrf_thread_finalize (hook H13) */
static struct { int valid; long n, nsuper, nextu, len; int_t *xsup, *xsup_end, *supno, *lsub, *xlsub, *xlsub_end; } pre;
static void pre_snapshot(long n, const pxgstrf_shared_t *sh)
{
    GlobalLU_t *G = sh->Glu; long s, len = 0, ns = G->nsuper + 1;
    if (n <= 0 || ns <= 0 || ns > n) { pre.valid = 0; return; }
    for (s = 0; s < ns; ++s) { long f = G->xsup[s]; if (f >= 0 && f < n && G->xlsub_end[f] > len) len = G->xlsub_end[f]; }
    if (len > G->nzlmax) len = G->nzlmax;
    pre.valid = 1; pre.n = n; pre.nsuper = G->nsuper; pre.nextu = G->nextu; pre.len = len;
#define CPY(dst, src, cnt) do { pre.dst = malloc(((cnt) + 1) * sizeof(int_t)); memcpy(pre.dst, (src), (cnt) * sizeof(int_t)); } while (0)
    CPY(xsup, G->xsup, ns); CPY(xsup_end, G->xsup_end, ns); CPY(supno, G->supno, n + 1);
    CPY(lsub, G->lsub, len); CPY(xlsub, G->xlsub, n + 1); CPY(xlsub_end, G->xlsub_end, n);
#undef CPY
    /* xlsub / xlsub_end are defined at first columns of supernodes only: blank the rest so that the image is deterministic */
    { long j; int_t *keep = calloc(n + 1, sizeof(int_t));
      for (s = 0; s < ns; ++s) if (pre.xsup[s] >= 0 && pre.xsup[s] < n) keep[pre.xsup[s]] = 1;
      for (j = 0; j < n; ++j) if (!keep[j]) { pre.xlsub[j] = 0; pre.xlsub_end[j] = 0; }
      pre.xlsub[n] = 0; free(keep); }
}
static void verif_cb(int ev, long pnum, long a, long b, long c, const void *p)
{
    if (ev == SLU_VEV_PRE_FINALIZE) { pre_snapshot(a, (const pxgstrf_shared_t *) p); return; }
    if (ev == SLU_VEV_NSUPER) {
        int nap = 0;
        pthread_mutex_lock(&ev_mx);
        if (a >= 0 && a < ev_n) ev_num[a] = b;
        if (ev_perturb && rand_r(&ev_seed) % 3 == 0) nap = 1 + rand_r(&ev_seed) % 300;
        pthread_mutex_unlock(&ev_mx);
        if (nap) usleep(nap);               /* widen the window: another thread may now allocate its lsub first */
    } else if (ev == SLU_VEV_LSUB) {
        pthread_mutex_lock(&ev_mx);
        if (a >= 0 && a < ev_n) { ev_start[a] = b; ev_cnt++; }
        pthread_mutex_unlock(&ev_mx);
    }
}
static void ev_begin(long n, long perturb)
{
    long i; ev_n = n; ev_cnt = 0; ev_perturb = perturb; ev_seed = (unsigned) perturb;
    ev_num = malloc((n + 1) * sizeof(long)); ev_start = malloc((n + 1) * sizeof(long));
    for (i = 0; i < n; ++i) ev_num[i] = ev_start[i] = -1;
    pre.valid = 0;
    slu_mt_verif_cb = verif_cb;
}
/* number of supernode pairs whose storage order differs from their number order */
static long ev_inversions(void)
{
    long i, j, inv = 0;
    for (i = 0; i < ev_n; ++i) if (ev_num[i] >= 0 && ev_start[i] >= 0)
        for (j = 0; j < ev_n; ++j) if (ev_num[j] >= 0 && ev_start[j] >= 0 && ev_num[i] < ev_num[j] && ev_start[i] > ev_start[j]) inv++;
    slu_mt_verif_cb = 0;
    return inv;
}
#else
static long ev_cnt = 0;
static void ev_begin(long n, long perturb) { (void) n; (void) perturb; }
static long ev_inversions(void) { return -1; }
#endif

static long rd_long(void) { long v; if (scanf("%ld", &v) != 1) { fprintf(stderr, "bad int\n"); exit(2); } return v; }
static double rd_dbl(void) { char b[128]; if (scanf("%127s", b) != 1) { fprintf(stderr, "bad dbl\n"); exit(2); } return strtod(b, NULL); }
static int_t *rd_ivec(long n) { int_t *v = calloc(n + 2, sizeof(int_t)); for (long i = 0; i < n; ++i) v[i] = (int_t) rd_long(); return v; }
static void pr_ivec(const int_t *v, long n) { printf(" %ld", n); for (long i = 0; i < n; ++i) printf(" %ld", (long) v[i]); }
static scal_t mk(double re, double im)
{
    scal_t s;
#if NCOMP == 1
    s = (scal_t) re;
#else
    s.r = re; s.i = im;
#endif
    return s;
}

int main(void)
{
    char cmd[64], id[64];
    setvbuf(stdout, NULL, _IOFBF, 1 << 20);
    while (scanf("%63s", cmd) == 1) {
        if (scanf("%63s", id) != 1) return 2;
        if (!strcmp(cmd, "factor")) {
            long nprocs = rd_long(), permc = rd_long(), panel = rd_long(), relax = rd_long(), maxsup = rd_long();
            long refact = rd_long(), lwork = rd_long(), perturb = rd_long(), n = rd_long(), nnz = rd_long(), i, pass, ninv = -1;
            int_t *colptr = rd_ivec(n + 1), *rowind = rd_ivec(nnz);
            scal_t *val = malloc((nnz + 1) * sizeof(scal_t));
            int_t *perm_r = calloc(n + 1, sizeof(int_t)), *perm_c = calloc(n + 1, sizeof(int_t));
            void *work = lwork > 0 ? malloc(lwork) : NULL;
            SuperMatrix A, AC, L, U; superlumt_options_t opt; Gstat_t Gstat; int_t info = 0;
            int so, fd;
            for (i = 0; i < nnz; ++i) { double re = rd_dbl(); val[i] = mk(re, NCOMP == 2 ? 0.5 * re + 0.25 : 0.0); }
            verif_set_ienv(1, panel); verif_set_ienv(2, relax); verif_set_ienv(3, maxsup);
            /* generous fill estimates (multiples of nnz(A)): the static bounds of the MT memory manager abort when exceeded (C05/C14) */
            verif_set_ienv(6, -200); verif_set_ienv(7, -200); verif_set_ienv(8, -200);
            CREATE_CC(&A, n, n, nnz, val, rowind, colptr, SLU_NC, SLU_DT, SLU_GE);
            memset(&opt, 0, sizeof opt);
            opt.etree = intMalloc(n); opt.colcnt_h = intMalloc(n); opt.part_super_h = intMalloc(n);
            fflush(stdout); so = dup(1); fd = open("/dev/null", O_WRONLY); dup2(fd, 1);
            StatAlloc(n, nprocs, panel, relax, &Gstat);
            get_perm_c(permc, &A, perm_c);
            for (pass = 0; pass <= refact; ++pass) {
                StatInit(n, nprocs, &Gstat);
                ev_begin(n, perturb);
                if (pass == 1) for (i = 0; i < nnz; ++i) {
#if NCOMP == 1
                    val[i] = val[i] * (scal_t) (1.0 + 0.01 * (double) ((i * 7) % 5));
#else
                    val[i].r = val[i].r * (1.0 + 0.01 * (double) ((i * 7) % 5));
#endif
                }
                PGSTRF_INIT(nprocs, EQUILIBRATE, NOTRANS, pass == 0 ? NO : YES, panel, relax, (thr_t) 1.0, NO, 0.0,
                            perm_c, perm_r, work, lwork, &A, &AC, &opt, &Gstat);
                PGSTRF(&opt, &AC, perm_r, &L, &U, &Gstat, &info);
                ninv = ev_inversions();
                if (info != 0) break;
                if (pass < refact) Destroy_CompCol_Permuted(&AC);
            }
            fflush(stdout); dup2(so, 1); close(so); close(fd);
            printf("R %s %ld %ld", id, (long) info, n);
            if (info == 0) {
                SCPformat *Ls = L.Store; NCPformat *Us = U.Store;
                long ns = Ls->nsuper + 1, lenv = 0, lenr = 0, lenu = 0, j;
                int_t *b = calloc(n + 1, sizeof(int_t)), *e = calloc(n + 1, sizeof(int_t));
                for (j = 0; j < n; ++j) { if (Ls->nzval_colend[j] > lenv) lenv = Ls->nzval_colend[j];
                                          if (Us->colend[j] > lenu) lenu = Us->colend[j]; }
                if (ns < 0 || ns > n) ns = 0;      /* reported through nsuper itself */
                for (j = 0; j < ns; ++j) { long f = Ls->sup_to_colbeg[j];
                    if (f >= 0 && f < n) { b[f] = Ls->rowind_colbeg[f]; e[f] = Ls->rowind_colend[f]; if (e[f] > lenr) lenr = e[f]; } }
                if (lenr > 50L * n * n + 100) lenr = 0;
                printf(" %ld %ld %ld", (long) Ls->nnz, (long) Ls->nsuper, lenv);
                pr_ivec(Ls->nzval_colbeg, n); pr_ivec(Ls->nzval_colend, n);
                pr_ivec(Ls->rowind, lenr); pr_ivec(b, n); pr_ivec(e, n);
                pr_ivec(Ls->col_to_sup, n); pr_ivec(Ls->sup_to_colbeg, ns); pr_ivec(Ls->sup_to_colend, ns);
                printf(" %ld", (long) Us->nnz);
                pr_ivec(Us->rowind, lenu); pr_ivec(Us->colbeg, n); pr_ivec(Us->colend, n);
                pr_ivec(perm_r, n); pr_ivec(perm_c, n);
                printf(" %ld %ld", ninv, ev_cnt);
#ifdef SLU_MT_VERIF
                if (pre.valid) {   /* second line: the pre-finalize image  P id n nsuper nextu perm_r xsup xsup_end supno lsub xlsub xlsub_end */
                    printf("\nR %sP %ld %ld %ld", id, pre.n, pre.nsuper, pre.nextu);
                    pr_ivec(perm_r, n); pr_ivec(pre.xsup, pre.nsuper + 1); pr_ivec(pre.xsup_end, pre.nsuper + 1); pr_ivec(pre.supno, n + 1);
                    pr_ivec(pre.lsub, pre.len); pr_ivec(pre.xlsub, n + 1); pr_ivec(pre.xlsub_end, n);
                }
#endif
            }
            printf("\n"); fflush(stdout);
        } else if (!strcmp(cmd, "fixupl")) {
            long n = rd_long(), nsuper = rd_long(), len;
            int_t *perm_r = rd_ivec(n), *xsup = rd_ivec(nsuper + 1), *xsup_end = rd_ivec(nsuper + 1), *lsub, *xlsub, *xlsub_end;
            GlobalLU_t G;
            len = rd_long(); lsub = rd_ivec(len); xlsub = rd_ivec(n + 1); xlsub_end = rd_ivec(n);
            memset(&G, 0, sizeof G);
            G.xsup = xsup; G.xsup_end = xsup_end; G.lsub = lsub; G.xlsub = xlsub; G.xlsub_end = xlsub_end;
            G.supno = calloc(n + 2, sizeof(int_t)); G.supno[n] = nsuper; G.nsuper = nsuper;
            fixupL(n, perm_r, &G);
            printf("R %s", id); pr_ivec(lsub, len); pr_ivec(xlsub, n + 1); pr_ivec(xlsub_end, n); printf("\n");
        } else if (!strcmp(cmd, "countnz")) {
            long n = rd_long(), nsuper = rd_long(), s, j;
            int_t *xsup = rd_ivec(nsuper + 1), *xsup_end = rd_ivec(nsuper + 1), *xlsub = rd_ivec(n + 1), *xlsub_end = rd_ivec(n);
            int_t *xprune = rd_ivec(n), nnzL = -1, nnzU = -1;
            GlobalLU_t G;
            memset(&G, 0, sizeof G);
            G.xsup = xsup; G.xsup_end = xsup_end; G.xlsub = xlsub; G.xlsub_end = xlsub_end;
            G.supno = calloc(n + 2, sizeof(int_t));
            for (s = 0; s <= nsuper; ++s) for (j = xsup[s]; j < xsup_end[s] && j < n; ++j) if (j >= 0) G.supno[j] = s;
            G.supno[n] = nsuper; G.nsuper = nsuper; G.nextu = rd_long();
            countnz(n, xprune, &nnzL, &nnzU, &G);
            printf("R %s %ld %ld\n", id, (long) nnzL, (long) nnzU);
        } else { fprintf(stderr, "unknown command %s\n", cmd); return 2; }
    }
    fflush(stdout);
    return 0;
}
