/* C10 correspondence harness: calls the real get_perm_c / sp_colorder / sp_coletree / sp_symetree /
 * TreePostorder of the library built from the current /repo tree.
 *
 * stdin : one command per line, integers separated by blanks (see checks/c10.py)
 *   CT id nr nc len colbeg[nc] colend[nc] arow[len]            -> "id CT parent[nc]"
 *   ST id n len colbeg[n] colend[n] arow[len]                  -> "id ST parent[n]"
 *   PO id n parent[n]                                          -> "id PO post[n+1]"
 *   CO id sym m n nnz colptr[n+1] rowind[nnz] perm_c[n]        -> "id CO colbeg ; colend ; perm_c ; etree"
 *                                                                 "id CX colcnt_h ; part_super_h ; unchanged shared hdr guard"
 *   GP id k m n nnz colptr[n+1] rowind[nnz]                    -> "id GP perm_c[n]"   (k-th of NATURAL, MMD_ATA,
 *                                                                  MMD_AT_PLUS_A, COLAMD as colperm_t value)
 * Every result line is written to the ORIGINAL stdout; the library's own chatter (get_perm_c prints
 * unconditionally) goes to /dev/null.  "id BEGIN" is printed before each call so that a crash can be
 * attributed to a case; with ETREE_MARK set, "@@ id" is also written to stderr before each call.
 */
#include <stdio.h>
#include <stdlib.h>
#include <string.h>
#include <unistd.h>
#include "slu_mt_ddefs.h"

extern int sp_coletree(int_t *, int_t *, int_t *, int_t, int_t, int_t *);
extern int sp_symetree(int_t *, int_t *, int_t *, int_t, int_t *);
extern int_t *TreePostorder(int_t, int_t *);

static FILE *out;

static char *line = NULL;
static size_t cap = 0;
static char *cur;

static long nextint(void)
{
    char *e;
    long v = strtol(cur, &e, 10);
    if (e == cur) { fprintf(stderr, "etree_harness: parse error near '%.20s'\n", cur); exit(3); }
    cur = e;
    return v;
}

static int_t *readarr(long n)
{
    /* +1 so that n == 0 still gives a distinct valid pointer */
    int_t *a = (int_t *) malloc((size_t)(n + 1) * sizeof(int_t));
    long i;
    if (!a) { fprintf(stderr, "etree_harness: malloc\n"); exit(3); }
    for (i = 0; i < n; ++i) a[i] = (int_t) nextint();
    a[n] = 0x5a5a5a5a;
    return a;
}

static void pr(const int_t *a, long n)
{
    long i;
    for (i = 0; i < n; ++i) fprintf(out, " %ld", (long) a[i]);
}

#define GUARD 0x7e7e7e7e

int main(void)
{
    int fd = dup(1);
    int mark = getenv("ETREE_MARK") != NULL;   /* attribute sanitizer reports (stderr) to cases */
    out = fdopen(fd, "w");
    if (!out) return 3;
    if (!freopen("/dev/null", "w", stdout)) return 3;

    while (getline(&line, &cap, stdin) > 0) {
        char cmd[8];
        int k = 0;
        cur = line;
        while (*cur == ' ') ++cur;
        if (*cur == '\n' || *cur == 0 || *cur == '#') continue;
        while (*cur && *cur != ' ' && *cur != '\n' && k < 7) cmd[k++] = *cur++;
        cmd[k] = 0;
        long id = nextint();
        fprintf(out, "%ld BEGIN\n", id);
        fflush(out);
        if (mark) { fprintf(stderr, "@@ %ld\n", id); fflush(stderr); }

        if (!strcmp(cmd, "CT")) {
            long nr = nextint(), nc = nextint(), len = nextint();
            int_t *cb = readarr(nc), *ce = readarr(nc), *ar = readarr(len);
            int_t *parent = (int_t *) malloc((size_t)(nc + 1) * sizeof(int_t));
            long i;
            for (i = 0; i <= nc; ++i) parent[i] = -777;
            sp_coletree(cb, ce, ar, (int_t) nr, (int_t) nc, parent);
            fprintf(out, "%ld CT", id); pr(parent, nc); fprintf(out, "\n");
            free(cb); free(ce); free(ar); free(parent);
        } else if (!strcmp(cmd, "ST")) {
            long n = nextint(), len = nextint();
            int_t *cb = readarr(n), *ce = readarr(n), *ar = readarr(len);
            int_t *parent = (int_t *) malloc((size_t)(n + 1) * sizeof(int_t));
            long i;
            for (i = 0; i <= n; ++i) parent[i] = -777;
            sp_symetree(cb, ce, ar, (int_t) n, parent);
            fprintf(out, "%ld ST", id); pr(parent, n); fprintf(out, "\n");
            free(cb); free(ce); free(ar); free(parent);
        } else if (!strcmp(cmd, "PO")) {
            long n = nextint();
            int_t *parent = readarr(n);
            int_t *post = TreePostorder((int_t) n, parent);
            fprintf(out, "%ld PO", id); pr(post, n + 1); fprintf(out, "\n");
            SUPERLU_FREE(post); free(parent);
        } else if (!strcmp(cmd, "GP")) {
            long ispec = nextint(), m = nextint(), n = nextint(), nnz = nextint();
            int_t *colptr = readarr(n + 1), *rowind = readarr(nnz);
            double *nzval = (double *) malloc((size_t)(nnz + 1) * sizeof(double));
            int_t *perm_c = (int_t *) malloc((size_t)(n + 1) * sizeof(int_t));
            SuperMatrix A;
            long i;
            for (i = 0; i < nnz; ++i) nzval[i] = 1.0 + (double) i;
            for (i = 0; i <= n; ++i) perm_c[i] = -777;
            dCreate_CompCol_Matrix(&A, (int_t) m, (int_t) n, (int_t) nnz, nzval, rowind, colptr, SLU_NC, SLU_D, SLU_GE);
            /* the k-th ordering option, passed as the drivers do: get_perm_c(options->ColPerm, ...) */
            static const colperm_t codes[4] = { NATURAL, MMD_ATA, MMD_AT_PLUS_A, COLAMD };
            if (ispec < 0 || ispec > 3) { fprintf(stderr, "etree_harness: bad ordering index\n"); return 3; }
            get_perm_c((int_t) codes[ispec], &A, perm_c);
            fprintf(out, "%ld GP", id); pr(perm_c, n); fprintf(out, "\n");
            SUPERLU_FREE(A.Store);
            free(colptr); free(rowind); free(nzval); free(perm_c);
        } else if (!strcmp(cmd, "CO")) {
            long sym = nextint(), m = nextint(), n = nextint(), nnz = nextint();
            int_t *colptr = readarr(n + 1), *rowind = readarr(nnz), *perm_c = readarr(n);
            double *nzval = (double *) malloc((size_t)(nnz + 1) * sizeof(double));
            /* snapshots */
            int_t *colptr0 = (int_t *) malloc((size_t)(n + 2) * sizeof(int_t));
            int_t *rowind0 = (int_t *) malloc((size_t)(nnz + 1) * sizeof(int_t));
            double *nzval0 = (double *) malloc((size_t)(nnz + 1) * sizeof(double));
            int_t *etree = (int_t *) malloc((size_t)(n + 2) * sizeof(int_t));
            int_t *colcnt_h = (int_t *) malloc((size_t)(n + 2) * sizeof(int_t));
            int_t *part_super_h = (int_t *) malloc((size_t)(n + 2) * sizeof(int_t));
            SuperMatrix A, AC, A0;
            NCformat S0;
            superlumt_options_t opt;
            NCPformat *ACs;
            long i;
            int unchanged, shared, hdr, guard;
            for (i = 0; i < nnz; ++i) nzval[i] = 1.0 + 0.5 * (double) i;
            memcpy(colptr0, colptr, (size_t)(n + 2) * sizeof(int_t));
            memcpy(rowind0, rowind, (size_t)(nnz + 1) * sizeof(int_t));
            memcpy(nzval0, nzval, (size_t) nnz * sizeof(double));
            for (i = 0; i < n + 2; ++i) { etree[i] = -777; colcnt_h[i] = -777; part_super_h[i] = -777; }
            etree[n] = GUARD; colcnt_h[n] = GUARD; part_super_h[n] = GUARD;   /* one-past-the-end guards */
            dCreate_CompCol_Matrix(&A, (int_t) m, (int_t) n, (int_t) nnz, nzval, rowind, colptr, SLU_NC, SLU_D, SLU_GE);
            A0 = A; S0 = *(NCformat *) A.Store;
            memset(&opt, 0, sizeof opt);
            opt.nprocs = 1; opt.fact = DOFACT; opt.trans = NOTRANS; opt.refact = NO;
            opt.panel_size = sp_ienv(1); opt.relax = sp_ienv(2);
            opt.diag_pivot_thresh = 1.0; opt.usepr = NO; opt.drop_tol = 0.0;
            opt.SymmetricMode = sym ? YES : NO; opt.PrintStat = NO;
            opt.perm_c = perm_c; opt.perm_r = NULL; opt.work = NULL; opt.lwork = 0;
            opt.etree = etree; opt.colcnt_h = colcnt_h; opt.part_super_h = part_super_h;
            memset(&AC, 0, sizeof AC);
            sp_colorder(&A, perm_c, &opt, &AC);
            ACs = (NCPformat *) AC.Store;
            fprintf(out, "%ld CO", id);
            pr(ACs->colbeg, n); fprintf(out, " ;"); pr(ACs->colend, n); fprintf(out, " ;");
            pr(perm_c, n); fprintf(out, " ;"); pr(etree, n); fprintf(out, "\n");
            unchanged = memcmp(colptr0, colptr, (size_t)(n + 2) * sizeof(int_t)) == 0
                     && memcmp(rowind0, rowind, (size_t)(nnz + 1) * sizeof(int_t)) == 0
                     && memcmp(nzval0, nzval, (size_t) nnz * sizeof(double)) == 0
                     && memcmp(&A0, &A, sizeof A) == 0 && memcmp(&S0, A.Store, sizeof S0) == 0;
            shared = ACs->nzval == (void *) nzval && ACs->rowind == rowind && ACs->nnz == (int_t) nnz;
            hdr = AC.Stype == SLU_NCP && AC.Dtype == SLU_D && AC.Mtype == SLU_GE && AC.nrow == (int_t) m && AC.ncol == (int_t) n
                  && opt.refact == NO && opt.SymmetricMode == (sym ? YES : NO) && opt.perm_c == perm_c
                  && opt.etree == etree && opt.colcnt_h == colcnt_h && opt.part_super_h == part_super_h;
            guard = etree[n] == GUARD && colcnt_h[n] == GUARD && part_super_h[n] == GUARD && perm_c[n] == 0x5a5a5a5a;
            fprintf(out, "%ld CX", id);
            pr(colcnt_h, n); fprintf(out, " ;"); pr(part_super_h, n);
            fprintf(out, " ; %d %d %d %d\n", unchanged, shared, hdr, guard);
            SUPERLU_FREE(ACs->colbeg); SUPERLU_FREE(ACs->colend); free(ACs);
            SUPERLU_FREE(A.Store);
            free(colptr); free(rowind); free(perm_c); free(nzval); free(colptr0); free(rowind0); free(nzval0);
            free(etree); free(colcnt_h); free(part_super_h);
        } else {
            fprintf(stderr, "etree_harness: unknown command %s\n", cmd);
            return 3;
        }
        fflush(out);
    }
    return 0;
}
