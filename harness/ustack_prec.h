/* Precision selection for the C14/C17 harnesses: compile with -DVPREC=0..3 (s,d,c,z). */
#ifndef USTACK_PREC_H
#define USTACK_PREC_H
#ifndef VPREC
#define VPREC 1
#endif
#if VPREC == 0
#include "slu_mt_sdefs.h"
#define PC s
#define PCH 's'
typedef float elt_t;
#define DWORD 4
#define SLU_DT SLU_S
#define ELT_SET(e, re, im) ((e) = (float)(re))
#define ELT_RE(e) ((double)(e))
#define ELT_IM(e) (0.0)
#elif VPREC == 1
#include "slu_mt_ddefs.h"
#define PC d
#define PCH 'd'
typedef double elt_t;
#define DWORD 8
#define SLU_DT SLU_D
#define ELT_SET(e, re, im) ((e) = (double)(re))
#define ELT_RE(e) ((double)(e))
#define ELT_IM(e) (0.0)
#elif VPREC == 2
#include "slu_mt_cdefs.h"
#define PC c
#define PCH 'c'
typedef complex elt_t;
#define DWORD 8
#define SLU_DT SLU_C
#define ELT_SET(e, re, im) ((e).r = (float)(re), (e).i = (float)(im))
#define ELT_RE(e) ((double)(e).r)
#define ELT_IM(e) ((double)(e).i)
#else
#include "slu_mt_zdefs.h"
#define PC z
#define PCH 'z'
typedef doublecomplex elt_t;
#define DWORD 16
#define SLU_DT SLU_Z
#define ELT_SET(e, re, im) ((e).r = (double)(re), (e).i = (double)(im))
#define ELT_RE(e) ((double)(e).r)
#define ELT_IM(e) ((double)(e).i)
#endif

#define VCAT3_(a, b, c) a##b##c
#define VCAT3(a, b, c) VCAT3_(a, b, c)
#define PG(x) VCAT3(p, PC, x)            /* PG(gstrf_MemInit) -> pdgstrf_MemInit */
#define XF(x) VCAT3(, PC, x)             /* XF(user_malloc)   -> duser_malloc    */
#define SLX(x) VCAT3(superlu_, PC, x)    /* SLX(TempSpace)    -> superlu_dTempSpace */

/* internal (non-static, but not in the public header) routines of p?memory.c */
extern void  PG(gstrf_SetupSpace)(void *, int_t);
extern void *XF(user_malloc)(int_t, int_t);
extern void  XF(user_free)(int_t, int_t);
extern int_t SLX(TempSpace)(int_t, int_t, int_t);
extern ExpHeader *XF(expanders);
extern void verif_set_ienv(int ispec, int_t v);
#endif
