/* Allocation interposer for the "fault" library flavours (-DUSER_MALLOC=verif_malloc
 * -DUSER_FREE=verif_free -DUSER_ABORT=verif_abort: existing override points of slu_mt_util.h).
 * - counts and logs every request (ledger for C17), can fail request k and all later ones (C14),
 * - verif_abort longjmps back to the harness when a jump buffer is armed, else exits with 97. */
#include <stdio.h>
#include <stdlib.h>
#include <string.h>
#include <setjmp.h>
#include <pthread.h>
#include "verif_malloc.h"

long verif_alloc_count = 0;      /* number of requests so far */
long verif_fail_from = -1;       /* fail request number k (1-based) and all later ones; -1 = never */
long verif_fail_only = -1;       /* fail exactly this request */
long verif_live_blocks = 0, verif_live_bytes = 0, verif_peak_bytes = 0;
int  verif_abort_armed = 0;
jmp_buf verif_abort_jmp;
char verif_abort_msg[512];
FILE *verif_ledger = NULL;       /* when non-NULL every alloc/free is logged: "A id size" / "F id" */
static pthread_mutex_t mu = PTHREAD_MUTEX_INITIALIZER;

typedef struct { long id; size_t size; long magic; long pad; } hdr_t;   /* 32 bytes keeps 16-byte alignment */
#define MAGIC 0x5eedf00dL

void *verif_malloc(size_t size)
{
    hdr_t *h; long id;
    pthread_mutex_lock(&mu);
    id = ++verif_alloc_count;
    if ((verif_fail_from > 0 && id >= verif_fail_from) || id == verif_fail_only) {
        if (verif_ledger) fprintf(verif_ledger, "X %ld %zu\n", id, size);
        pthread_mutex_unlock(&mu);
        return NULL;
    }
    if (size > ((size_t) 1 << 46)) { pthread_mutex_unlock(&mu); return NULL; }   /* absurd request (e.g. negative count) */
    h = (hdr_t *) malloc(size + sizeof(hdr_t));
    if (!h) { pthread_mutex_unlock(&mu); return NULL; }
    h->id = id; h->size = size; h->magic = MAGIC;
    verif_live_blocks++; verif_live_bytes += (long) size;
    if (verif_live_bytes > verif_peak_bytes) verif_peak_bytes = verif_live_bytes;
    if (verif_ledger) fprintf(verif_ledger, "A %ld %zu\n", id, size);
    pthread_mutex_unlock(&mu);
    return (void *) (h + 1);
}

void verif_free(void *p)
{
    hdr_t *h;
    if (!p) { pthread_mutex_lock(&mu); if (verif_ledger) fprintf(verif_ledger, "F 0\n"); pthread_mutex_unlock(&mu); return; }
    h = ((hdr_t *) p) - 1;
    pthread_mutex_lock(&mu);
    if (h->magic != MAGIC) {
        if (verif_ledger) fprintf(verif_ledger, "B %p\n", p);   /* free of a block we did not hand out / double free */
        pthread_mutex_unlock(&mu);
        fprintf(stderr, "verif_free: bad or double free %p\n", p);
        exit(98);
    }
    h->magic = 0;
    verif_live_blocks--; verif_live_bytes -= (long) h->size;
    if (verif_ledger) fprintf(verif_ledger, "F %ld\n", h->id);
    pthread_mutex_unlock(&mu);
    free(h);
}

long verif_block_id(void *p) { hdr_t *h; if (!p) return 0; h = ((hdr_t *) p) - 1; return h->magic == MAGIC ? h->id : -1; }

void verif_abort(char *msg)
{
    strncpy(verif_abort_msg, msg ? msg : "", sizeof(verif_abort_msg) - 1);
    if (verif_abort_armed) { verif_abort_armed = 0; longjmp(verif_abort_jmp, 1); }
    fprintf(stderr, "VERIF_ABORT: %s\n", verif_abort_msg);
    exit(97);
}
